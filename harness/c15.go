package main

import (
	"cuelabs.dev/go/oci/ociregistry/ocimem"
	ocispec "github.com/opencontainers/image-spec/specs-go/v1"
	"bytes"
	"context"
	"encoding/base64"
	"encoding/json"
	"errors"
	"fmt"
	"io"
	"sort"
	"strconv"
	"strings"
	"sync"

	"cuelabs.dev/go/oci/ociregistry"
	"cuelabs.dev/go/oci/ociregistry/ociref"
	"cuelabs.dev/go/oci/ociregistry/ociunify"
)

// C15: a unified registry is the union view of its two members and replicates
// every write. Line protocol (see lean/OciModel/Driver/Unify.lean):
//
//	uni init <policy 0|1> <immutable 0|1>
//	uni m0|m1|mb mem <op…>    directly on member 0 / member 1 / both
//	uni p0|p1 mem <op…>       the same as m0|m1; marks the probe that follows a write through the unifier
//	uni u mem <op…>           through ociunify.New(m0, m1, {ReadPolicy: policy})
//	uni alt mem <op…>         a read through a unifier with the other policy
//	uni snap                  are the two members observably equal?
//	uni merge <k> <ev0> <ev1> unifier.Tags over two scripted members, consumer declining call k
//	uni fault <method> <member 0|1> <n> <code>   impl-only (the model answers `skip`): a fixed sequence of writes through a
//	                          unifier over two equal ocimem members, the n-th call of <method> on ONE member failing with <code>
//
// Composite upload IDs are written `&id0&id1` in lines (the real one is
// base64url(JSON [id0,id1])); fresh ones are `@n`.

func init() { engines["C15"] = func() Engine { return &c15{} } }

type c15 struct{}

func (*c15) UsesModel() bool { return true }

// ---- implementation side ----

type c15State struct {
	pol        int
	m0, m1     ociregistry.Interface
	i0, i1     *regInterp
	iu, ialt   *regInterp
	digests    []string
	namedRepos []string
}

func c15Policy(p int) ociunify.ReadPolicy {
	if p == 1 {
		return ociunify.ReadConcurrent
	}
	return ociunify.ReadSequential
}

// ctxMember makes an in-memory member behave like a remote one in one respect: the readers it
// returns stop working once the context of the call that produced them is cancelled.
type ctxMember struct{ ociregistry.Interface }

type ctxReader struct {
	ociregistry.BlobReader
	ctx context.Context
}

func (r ctxReader) Read(p []byte) (int, error) {
	if err := r.ctx.Err(); err != nil {
		return 0, err
	}
	return r.BlobReader.Read(p)
}

func ctxWrap(ctx context.Context, r ociregistry.BlobReader, err error) (ociregistry.BlobReader, error) {
	if err != nil {
		return nil, err
	}
	return ctxReader{r, ctx}, nil
}

func (m ctxMember) GetBlob(ctx context.Context, repo string, d ociregistry.Digest) (ociregistry.BlobReader, error) {
	r, err := m.Interface.GetBlob(ctx, repo, d)
	return ctxWrap(ctx, r, err)
}
func (m ctxMember) GetBlobRange(ctx context.Context, repo string, d ociregistry.Digest, o0, o1 int64) (ociregistry.BlobReader, error) {
	r, err := m.Interface.GetBlobRange(ctx, repo, d, o0, o1)
	return ctxWrap(ctx, r, err)
}
func (m ctxMember) GetManifest(ctx context.Context, repo string, d ociregistry.Digest) (ociregistry.BlobReader, error) {
	r, err := m.Interface.GetManifest(ctx, repo, d)
	return ctxWrap(ctx, r, err)
}
func (m ctxMember) GetTag(ctx context.Context, repo, tag string) (ociregistry.BlobReader, error) {
	r, err := m.Interface.GetTag(ctx, repo, tag)
	return ctxWrap(ctx, r, err)
}

func newC15State(pol int, imm bool, c Case) *c15State {
	s := &c15State{pol: pol}
	s.m0 = newMem(imm)
	s.m1 = newMem(imm)
	s.i0, s.i1 = newRegInterp(s.m0), newRegInterp(s.m1)
	s.iu = newRegInterp(ociunify.New(ctxMember{s.m0}, ctxMember{s.m1}, &ociunify.Options{ReadPolicy: c15Policy(pol)}))
	s.ialt = newRegInterp(ociunify.New(ctxMember{s.m0}, ctxMember{s.m1}, &ociunify.Options{ReadPolicy: c15Policy(1 - pol)}))
	// universe for snapshots: every digest and repository the case mentions
	seenD, seenR := map[string]bool{}, map[string]bool{}
	for _, l := range c.Lines {
		t := strings.Split(l, " ")
		for i, x := range t {
			v, ok := untok(x)
			if !ok {
				continue
			}
			if strings.Contains(v, ":") && !seenD[v] && len(v) < 200 {
				seenD[v] = true
				s.digests = append(s.digests, v)
			}
			if len(t) > 3 && t[2] == "mem" && (t[3] == "pushblob" || t[3] == "pushmanifest" || t[3] == "wwrite") {
				d := sha256Digest([]byte(v))
				if !seenD[d] {
					seenD[d] = true
					s.digests = append(s.digests, d)
				}
			}
			if len(t) > 4 && t[2] == "mem" && (i == 4 || (t[3] == "mount" && i == 5)) && !seenR[v] && t[3] != "repositories" {
				seenR[v] = true
				s.namedRepos = append(s.namedRepos, v)
			}
		}
	}
	sort.Strings(s.digests)
	return s
}

// c15MemLineOK mirrors the arity and token checks of the Lean parser, so that
// malformed lines are "bad-op" on both sides.
func c15MemLineOK(t []string) bool {
	if len(t) < 1 {
		return false
	}
	toks := func(idx ...int) bool {
		for _, i := range idx {
			if _, ok := untok(t[i]); !ok {
				return false
			}
		}
		return true
	}
	ints := func(idx ...int) bool {
		for _, i := range idx {
			if _, err := strconv.ParseInt(t[i], 10, 64); err != nil || strings.HasPrefix(t[i], "+") {
				return false
			}
		}
		return true
	}
	switch t[0] {
	case "getblob", "getmanifest", "gettag", "resolveblob", "resolvemanifest", "resolvetag",
		"deleteblob", "deletemanifest", "deletetag", "tags", "referrers", "wsize", "wcancel", "wclose":
		return len(t) == 3 && toks(1, 2)
	case "getblobrange":
		return len(t) == 5 && toks(1, 2) && ints(3, 4)
	case "pushblob":
		return len(t) == 6 && toks(1, 2, 3, 5) && ints(4)
	case "pushchunked", "repositories":
		return len(t) == 2 && toks(1)
	case "resume":
		return len(t) == 4 && toks(1, 2) && ints(3)
	case "wwrite", "wcommit", "mount":
		return len(t) == 4 && toks(1, 2, 3)
	case "pushmanifest":
		if len(t) < 6 || !toks(1, 2, 3, 4) {
			return false
		}
		switch t[5] {
		case "opaque", "malformed":
			return len(t) == 6
		case "refs":
			if len(t) < 7 {
				return false
			}
			n, err := strconv.Atoi(t[6])
			if err != nil || n < 0 || len(t) != 7+4*n {
				return false
			}
			for i := 0; i < n; i++ {
				b := 7 + 4*i
				if _, err := strconv.Atoi(t[b]); err != nil || !toks(b+1, b+2) || !ints(b+3) {
					return false
				}
			}
			return true
		}
		return false
	}
	return false
}

var c15ReadOps = map[string]bool{"getblob": true, "getblobrange": true, "getmanifest": true, "resolveblob": true, "resolvemanifest": true}
var c15IDOps = map[string]bool{"resume": true, "wwrite": true, "wsize": true, "wcancel": true, "wcommit": true, "wclose": true}

// c15Composite is the real composite ID for the protocol's `&a&b…`.
func c15Composite(id string) (string, bool) {
	if !strings.HasPrefix(id, "&") {
		return "", false
	}
	parts := strings.Split(id[1:], "&")
	data, _ := json.Marshal(parts)
	return base64.RawURLEncoding.EncodeToString(data), true
}

// c15Loose drops what the concurrent policy does not determine: the media type
// of content both members hold and the error when both fail.
func c15Loose(out string) string {
	f := strings.Split(out, " ")
	switch {
	case f[0] == "err":
		return "err *"
	case (f[0] == "read" && len(f) == 5) || (f[0] == "desc" && len(f) == 4):
		f[1] = "*"
		return strings.Join(f, " ")
	}
	return out
}

func (s *c15State) unified(ri *regInterp, pol int, t []string) string {
	op := t[3]
	if c15IDOps[op] && len(t) > 5 {
		if id, ok := untok(t[5]); ok {
			if real, ok := c15Composite(id); ok {
				if _, known := ri.realID[id]; !known {
					ri.realID[id] = real
					ri.canonID[real] = id
				}
			}
		}
	}
	out := ri.do(strings.Join(t[2:], " "))
	if pol == 1 && c15ReadOps[op] {
		out = c15Loose(out)
	}
	return out
}

// failNthWrite makes the n-th Write on any upload of the wrapped member fail (once).
type failNthWrite struct {
	ociregistry.Interface
	n     int
	seen  *int
	fired *bool
}

type failWriter struct {
	ociregistry.BlobWriter
	m failNthWrite
}

func (w failWriter) Write(p []byte) (int, error) {
	*w.m.seen++
	if *w.m.seen == w.m.n && !*w.m.fired {
		*w.m.fired = true
		return 0, errors.New("member: write failed")
	}
	return w.BlobWriter.Write(p)
}

func (m failNthWrite) PushBlobChunked(ctx context.Context, repo string, chunkSize int) (ociregistry.BlobWriter, error) {
	w, err := m.Interface.PushBlobChunked(ctx, repo, chunkSize)
	if err != nil {
		return nil, err
	}
	return failWriter{w, m}, nil
}

func (m failNthWrite) PushBlobChunkedResume(ctx context.Context, repo, id string, offset int64, chunkSize int) (ociregistry.BlobWriter, error) {
	w, err := m.Interface.PushBlobChunkedResume(ctx, repo, id, offset, chunkSize)
	if err != nil {
		return nil, err
	}
	return failWriter{w, m}, nil
}

// c15Diverge: `uni diverge <which member fails> <on its n-th write>`: an upload through the unifier in
// which one Write reaches one member only; the caller closes, resumes by asking where the upload
// stands (-1), writes what is missing according to the writer it gets, and commits. Either the unifier
// refuses to go on, or the two members end up holding the same: the blob on both, or on neither.
func c15Diverge(failSecond bool, nth int) string {
	ctx := context.Background()
	m0, m1 := ocimem.New(), ocimem.New()
	seen, fired := 0, false
	var a, b ociregistry.Interface = m0, m1
	if failSecond {
		b = failNthWrite{m1, nth, &seen, &fired}
	} else {
		a = failNthWrite{m0, nth, &seen, &fired}
	}
	u := ociunify.New(a, b, nil)
	content := []byte("hello world, twice over")
	parts := [][]byte{content[:5], content[5:11], content[11:]}
	w, err := u.PushBlobChunked(ctx, "a", 0)
	if err != nil {
		return "diverge start failed"
	}
	accepted := 0
	for _, p := range parts {
		if _, err := w.Write(p); err != nil {
			break
		}
		accepted += len(p)
	}
	if !fired {
		return "diverge ok (no fault reached)"
	}
	id := w.ID()
	w.Close()
	w2, err := u.PushBlobChunkedResume(ctx, "a", id, -1, 0)
	if err != nil {
		return "diverge ok (resume refused)"
	}
	defer w2.Close()
	at := int(w2.Size())
	if at < 0 || at > len(content) {
		return fmt.Sprintf("diverge: resumed writer reports size %d", at)
	}
	if _, err := w2.Write(content[at:]); err != nil {
		return "diverge ok (write refused)"
	}
	dg := ociregistry.Digest(sha256Digest(content))
	_, cerr := w2.Commit(dg)
	_, e0 := m0.ResolveBlob(ctx, "a", dg)
	_, e1 := m1.ResolveBlob(ctx, "a", dg)
	if (e0 == nil) != (e1 == nil) {
		return fmt.Sprintf("diverge: members differ after the resumed upload (commit error: %v; on member 0: %v, on member 1: %v)", cerr, e0 == nil, e1 == nil)
	}
	if cerr == nil && e0 != nil {
		return "diverge: commit reported success but neither member has the blob"
	}
	return "diverge ok"
}

// ---- fault injection into one member (`uni fault …`) ----
//
// The two members of every other family are well-behaved ocimem registries, so a member call that fails ON ITS OWN — not
// because of what the member holds — never happens there. failNth makes the n-th call of one method on one member fail
// with a coded error (Write / Commit / Close / Cancel are the methods of the writers the member hands out), and records
// every mutating call the member receives, with its arguments and its outcome.

type c15MemberCall struct {
	method  string
	args    string // canonical, without the content of a PushBlob
	content string // what the member read of a PushBlob's content
	res     string // "ok" or "err:<class>"; "" while the call is running
}

type c15FaultLog struct {
	mu    sync.Mutex
	calls []c15MemberCall
	seen  int            // calls of the faulted method so far
	ids   map[string]string // upload IDs this member issued, by canonical name
}

type failNth struct {
	ociregistry.Interface
	method string // "" never fails
	n      int
	code   string
	log    *c15FaultLog
}

func c15Res(err error) string {
	if err != nil {
		return "err:" + errClass(err)
	}
	return "ok"
}

// begin records the call and says whether it is the one that fails.
func (m failNth) begin(method, args string) (idx int, fault error) {
	l := m.log
	l.mu.Lock()
	defer l.mu.Unlock()
	l.calls = append(l.calls, c15MemberCall{method: method, args: args})
	if method == m.method {
		l.seen++
		if l.seen == m.n {
			fault = c15Err(m.code)
		}
	}
	return len(l.calls) - 1, fault
}

func (m failNth) end(idx int, err error) {
	m.log.mu.Lock()
	m.log.calls[idx].res = c15Res(err)
	m.log.mu.Unlock()
}

// uploadName is the canonical name of an upload ID of this member (the ocimem IDs are random): the name it was given when
// the member issued it, which is the ordinal of the opening call among the calls of that kind the member has RECEIVED - the
// same on both members when every opening call reaches both.
func (m failNth) uploadName(id, issue string) string {
	l := m.log
	l.mu.Lock()
	defer l.mu.Unlock()
	name, ok := l.ids[id]
	if !ok {
		if issue == "" {
			return "foreign:" + tok(id)
		}
		name = issue
		l.ids[id] = name
	}
	return name
}

// received counts the calls of a method the member has received so far.
func (m failNth) received(method string) int {
	m.log.mu.Lock()
	defer m.log.mu.Unlock()
	k := 0
	for _, c := range m.log.calls {
		if c.method == method {
			k++
		}
	}
	return k
}

func (m failNth) PushBlob(ctx context.Context, repo string, desc ociregistry.Descriptor, r io.Reader) (ociregistry.Descriptor, error) {
	idx, fault := m.begin("PushBlob", tok(repo)+","+strings.ReplaceAll(showDesc(desc), " ", ","))
	if fault != nil {
		m.end(idx, fault)
		return ociregistry.Descriptor{}, fault
	}
	var got bytes.Buffer
	d, err := m.Interface.PushBlob(ctx, repo, desc, io.TeeReader(r, &got))
	m.log.mu.Lock()
	m.log.calls[idx].content = got.String()
	m.log.mu.Unlock()
	m.end(idx, err)
	return d, err
}

func (m failNth) PushManifest(ctx context.Context, repo, tag string, contents []byte, mediaType string) (ociregistry.Descriptor, error) {
	idx, fault := m.begin("PushManifest", tok(repo)+","+tok(tag)+","+tok(string(contents))+","+tok(mediaType))
	if fault != nil {
		m.end(idx, fault)
		return ociregistry.Descriptor{}, fault
	}
	d, err := m.Interface.PushManifest(ctx, repo, tag, contents, mediaType)
	m.end(idx, err)
	return d, err
}

func (m failNth) MountBlob(ctx context.Context, fromRepo, toRepo string, dig ociregistry.Digest) (ociregistry.Descriptor, error) {
	idx, fault := m.begin("MountBlob", tok(fromRepo)+","+tok(toRepo)+","+tok(string(dig)))
	if fault != nil {
		m.end(idx, fault)
		return ociregistry.Descriptor{}, fault
	}
	d, err := m.Interface.MountBlob(ctx, fromRepo, toRepo, dig)
	m.end(idx, err)
	return d, err
}

func (m failNth) del(method, repo, what string, f func() error) error {
	idx, fault := m.begin(method, tok(repo)+","+tok(what))
	if fault != nil {
		m.end(idx, fault)
		return fault
	}
	err := f()
	m.end(idx, err)
	return err
}

func (m failNth) DeleteBlob(ctx context.Context, repo string, dig ociregistry.Digest) error {
	return m.del("DeleteBlob", repo, string(dig), func() error { return m.Interface.DeleteBlob(ctx, repo, dig) })
}
func (m failNth) DeleteManifest(ctx context.Context, repo string, dig ociregistry.Digest) error {
	return m.del("DeleteManifest", repo, string(dig), func() error { return m.Interface.DeleteManifest(ctx, repo, dig) })
}
func (m failNth) DeleteTag(ctx context.Context, repo string, name string) error {
	return m.del("DeleteTag", repo, name, func() error { return m.Interface.DeleteTag(ctx, repo, name) })
}

func (m failNth) PushBlobChunked(ctx context.Context, repo string, chunkSize int) (ociregistry.BlobWriter, error) {
	idx, fault := m.begin("PushBlobChunked", tok(repo)+","+strconv.Itoa(chunkSize))
	if fault != nil {
		m.end(idx, fault)
		return nil, fault
	}
	w, err := m.Interface.PushBlobChunked(ctx, repo, chunkSize)
	m.end(idx, err)
	if err != nil {
		return nil, err
	}
	return failNthWriter{w, m, m.uploadName(w.ID(), "upload#"+strconv.Itoa(m.received("PushBlobChunked")))}, nil
}

func (m failNth) PushBlobChunkedResume(ctx context.Context, repo, id string, offset int64, chunkSize int) (ociregistry.BlobWriter, error) {
	// each member is given ITS half of the composite ID: the halves are named, not printed
	idx, fault := m.begin("PushBlobChunkedResume", tok(repo)+","+m.uploadName(id, "")+","+strconv.FormatInt(offset, 10)+","+strconv.Itoa(chunkSize))
	if fault != nil {
		m.end(idx, fault)
		return nil, fault
	}
	w, err := m.Interface.PushBlobChunkedResume(ctx, repo, id, offset, chunkSize)
	m.end(idx, err)
	if err != nil {
		return nil, err
	}
	return failNthWriter{w, m, m.uploadName(w.ID(), "resumed#"+strconv.Itoa(m.received("PushBlobChunkedResume")))}, nil
}

// failNthWriter is a writer handed out by a failNth member.
type failNthWriter struct {
	ociregistry.BlobWriter
	m    failNth
	name string
}

func (w failNthWriter) Write(p []byte) (int, error) {
	idx, fault := w.m.begin("Write", w.name+","+tok(string(p)))
	if fault != nil {
		w.m.end(idx, fault)
		return 0, fault
	}
	n, err := w.BlobWriter.Write(p)
	w.m.end(idx, err)
	return n, err
}

func (w failNthWriter) Commit(dig ociregistry.Digest) (ociregistry.Descriptor, error) {
	idx, fault := w.m.begin("Commit", w.name+","+tok(string(dig)))
	if fault != nil {
		w.m.end(idx, fault)
		return ociregistry.Descriptor{}, fault
	}
	d, err := w.BlobWriter.Commit(dig)
	w.m.end(idx, err)
	return d, err
}

func (w failNthWriter) Close() error {
	idx, fault := w.m.begin("Close", w.name)
	if fault != nil {
		w.m.end(idx, fault)
		return fault
	}
	err := w.BlobWriter.Close()
	w.m.end(idx, err)
	return err
}

func (w failNthWriter) Cancel() error {
	idx, fault := w.m.begin("Cancel", w.name)
	if fault != nil {
		w.m.end(idx, fault)
		return fault
	}
	err := w.BlobWriter.Cancel()
	w.m.end(idx, err)
	return err
}

var c15FaultMethods = []string{"PushBlob", "PushManifest", "MountBlob", "DeleteBlob", "DeleteManifest", "DeleteTag",
	"PushBlobChunked", "PushBlobChunkedResume", "Write", "Commit", "Close", "Cancel"}
var c15FaultCodes = []string{"NAME_UNKNOWN", "DENIED"}

// c15ReadFault: `uni rfault <member> <code>`: member <member> answers every call with <code> (it holds nothing it will
// show); the other member is an ocimem holding a blob and a manifest. The four digest-addressed reads through the unifier,
// under both read policies.
const c15ReadFaultWant = "seq: ResolveBlob=ok GetBlob=ok ResolveManifest=ok GetManifest=ok | conc: ResolveBlob=ok GetBlob=ok ResolveManifest=ok GetManifest=ok"

func c15ReadFault(member int, code string) string {
	ctx := context.Background()
	var ferr error
	switch code {
	case "DENIED":
		ferr = ociregistry.ErrDenied
	case "UNAUTHORIZED":
		ferr = ociregistry.ErrUnauthorized
	case "NAME_UNKNOWN":
		ferr = ociregistry.ErrNameUnknown
	case "BLOB_UNKNOWN":
		ferr = ociregistry.ErrBlobUnknown
	default:
		ferr = fmt.Errorf("connection reset")
	}
	failing := &ociregistry.Funcs{NewError: func(context.Context, string, string) error { return ferr }}
	holder := ocimem.New()
	blob, mf := []byte("rfault-blob"), []byte("rfault manifest")
	pushBlobOK(holder, "a", blob)
	if _, err := holder.PushManifest(ctx, "a", "t", mf, mtOpaque); err != nil {
		return "rfault setup failed: " + err.Error()
	}
	var ms [2]ociregistry.Interface
	ms[member], ms[1-member] = failing, holder
	var parts []string
	for _, pol := range []struct {
		name string
		p    ociunify.ReadPolicy
	}{{"seq", ociunify.ReadSequential}, {"conc", ociunify.ReadConcurrent}} {
		u := ociunify.New(ms[0], ms[1], &ociunify.Options{ReadPolicy: pol.p})
		res := func(name string, err error, content, want []byte) string {
			if err != nil {
				return name + "=err:" + errClass(err)
			}
			if want != nil && string(content) != string(want) {
				return name + "=wrong-content"
			}
			return name + "=ok"
		}
		read := func(r ociregistry.BlobReader, err error) ([]byte, error) {
			if err != nil {
				return nil, err
			}
			defer r.Close()
			return io.ReadAll(r)
		}
		bd, md := ociregistry.Digest(sha256Digest(blob)), ociregistry.Digest(sha256Digest(mf))
		_, e1 := u.ResolveBlob(ctx, "a", bd)
		c2, e2 := read(u.GetBlob(ctx, "a", bd))
		_, e3 := u.ResolveManifest(ctx, "a", md)
		c4, e4 := read(u.GetManifest(ctx, "a", md))
		parts = append(parts, pol.name+": "+strings.Join([]string{res("ResolveBlob", e1, nil, nil), res("GetBlob", e2, c2, blob),
			res("ResolveManifest", e3, nil, nil), res("GetManifest", e4, c4, mf)}, " "))
	}
	return strings.Join(parts, " | ")
}

// c15Fault: `uni fault <method> <member> <n> <code>`. Two ocimem members holding the same; a fixed sequence of calls through
// the unifier that makes at least two calls of <method>; the n-th call of <method> on member <member> fails with <code>.
// The output is one record per call made on the unifier:
//
//	<Method> u=<ok|err:CLS> | <m0 calls> | <m1 calls>
//
// where the member calls are those of the same method the member received while the unifier's call ran, each
// `<args>=<ok|err:CLS>[+<content>]`.
func c15Fault(method string, member, n int, code string) string {
	ctx := context.Background()
	mem := [2]*ocimem.Registry{ocimem.New(), ocimem.New()}
	blobs := [][]byte{[]byte("fault-blob-0"), []byte("fault-blob-1")}
	manifests := [][]byte{[]byte("fault manifest 0"), []byte("fault manifest 1")}
	dg := func(b []byte) ociregistry.Digest { return ociregistry.Digest(sha256Digest(b)) }
	for _, m := range mem {
		for _, b := range blobs {
			pushBlobOK(m, "a", b)
		}
		for i, mf := range manifests {
			if _, err := m.PushManifest(ctx, "a", "t"+strconv.Itoa(i), mf, mtOpaque); err != nil {
				return "fault setup failed: " + err.Error()
			}
		}
	}
	var w [2]failNth
	for i := range w {
		w[i] = failNth{Interface: mem[i], log: &c15FaultLog{ids: map[string]string{}}}
	}
	w[member].method, w[member].n, w[member].code = method, n, code
	u := ociunify.New(w[0], w[1], nil)

	var recs []string
	// call runs one call on the unifier and records it with the member calls of the same method it caused.
	call := func(name string, f func() error) {
		var from [2]int
		for i := range w {
			w[i].log.mu.Lock()
			from[i] = len(w[i].log.calls)
			w[i].log.mu.Unlock()
		}
		rec := name + " u=" + c15Res(f())
		for i := range w {
			w[i].log.mu.Lock()
			var cs []string
			for _, c := range w[i].log.calls[from[i]:] {
				if c.method != name {
					continue // e.g. the Close of a writer whose sibling could not be opened
				}
				x := c.args + "=" + c.res
				if c.method == "PushBlob" && c.res == "ok" {
					x += "+" + tok(c.content)
				}
				cs = append(cs, x)
			}
			w[i].log.mu.Unlock()
			rec += " | " + strings.Join(cs, " ")
		}
		recs = append(recs, rec)
	}
	// open makes a writer through the unifier; nil if that failed (or, wrongly, gave nothing without an error).
	open := func(repo string) ociregistry.BlobWriter {
		var bw ociregistry.BlobWriter
		call("PushBlobChunked", func() error {
			x, err := u.PushBlobChunked(ctx, repo, 0)
			bw = x
			return err
		})
		return bw
	}
	write := func(bw ociregistry.BlobWriter, p string) {
		call("Write", func() error { _, err := bw.Write([]byte(p)); return err })
	}
	commit := func(bw ociregistry.BlobWriter, content string) {
		call("Commit", func() error { _, err := bw.Commit(dg([]byte(content))); return err })
	}
	closeW := func(bw ociregistry.BlobWriter) { call("Close", bw.Close) }

	switch method {
	case "PushBlob":
		for _, c := range []string{"fault-new-0", "fault-new-1"} {
			call("PushBlob", func() error {
				_, err := u.PushBlob(ctx, "a", ociregistry.Descriptor{MediaType: "application/octet-stream", Digest: dg([]byte(c)), Size: int64(len(c))}, strings.NewReader(c))
				return err
			})
		}
	case "PushManifest":
		for i, c := range []string{"fault new manifest 0", "fault new manifest 1"} {
			call("PushManifest", func() error {
				_, err := u.PushManifest(ctx, "a", "n"+strconv.Itoa(i), []byte(c), mtOpaque)
				return err
			})
		}
	case "MountBlob":
		for i, b := range blobs {
			call("MountBlob", func() error {
				_, err := u.MountBlob(ctx, "a", "to"+strconv.Itoa(i), dg(b))
				return err
			})
		}
	case "DeleteBlob":
		for _, b := range blobs {
			call("DeleteBlob", func() error { return u.DeleteBlob(ctx, "a", dg(b)) })
		}
	case "DeleteManifest":
		for _, mf := range manifests {
			call("DeleteManifest", func() error { return u.DeleteManifest(ctx, "a", dg(mf)) })
		}
	case "DeleteTag":
		for i := range manifests {
			call("DeleteTag", func() error { return u.DeleteTag(ctx, "a", "t"+strconv.Itoa(i)) })
		}
	case "PushBlobChunked":
		for _, repo := range []string{"a", "b"} {
			if bw := open(repo); bw != nil {
				closeW(bw)
			}
		}
	case "PushBlobChunkedResume":
		bw := open("a")
		if bw == nil {
			break
		}
		write(bw, "hel")
		id := bw.ID()
		closeW(bw)
		for k := 0; k < 2; k++ {
			var bw2 ociregistry.BlobWriter
			call("PushBlobChunkedResume", func() error {
				x, err := u.PushBlobChunkedResume(ctx, "a", id, 3, 0)
				bw2 = x
				return err
			})
			if bw2 != nil {
				closeW(bw2)
			}
		}
	case "Write":
		if bw := open("a"); bw != nil {
			write(bw, "hel")
			write(bw, "lo")
			commit(bw, "hello")
			closeW(bw)
		}
	case "Commit", "Close", "Cancel":
		for _, c := range []string{"chunked-0", "chunked-1"} {
			bw := open("a")
			if bw == nil {
				continue
			}
			write(bw, c)
			switch method {
			case "Commit":
				commit(bw, c)
				closeW(bw)
			case "Cancel":
				call("Cancel", bw.Cancel)
				closeW(bw)
			default:
				closeW(bw)
			}
		}
	default:
		return "bad-op"
	}
	return "fault " + strings.Join(recs, " ; ")
}

// c15FaultOracle judges the records of a `uni fault` line. Both clauses are about ONE call on the unifier and the two
// member calls it caused; nothing is demanded of the members' contents afterwards (the unifier does not roll back).
func c15FaultOracle(line []string, got string, fail func(class, oracle, exp, obs string)) {
	if !strings.HasPrefix(got, "fault ") {
		fail("c15-fault-scenario", "fault_scenario", "fault <records>", got)
		return
	}
	faulted := false
	for _, rec := range strings.Split(strings.TrimPrefix(got, "fault "), " ; ") {
		parts := strings.Split(rec, " | ")
		head := strings.Split(parts[0], " ")
		if len(parts) != 3 || len(head) != 2 || !strings.HasPrefix(head[1], "u=") {
			fail("c15-fault-scenario", "fault_scenario", "<Method> u=<result> | <m0 calls> | <m1 calls>", rec)
			continue
		}
		name, uok := head[0], head[1] == "u=ok"
		var calls [2][]string
		for i := 0; i < 2; i++ {
			if parts[i+1] != "" {
				calls[i] = strings.Split(parts[i+1], " ")
			}
		}
		// write_replicated: each member received the call, once, with the same arguments
		if len(calls[0]) != 1 || len(calls[1]) != 1 {
			fail("c15-fault-not-replicated:"+name, "write_replicated", "one "+name+" call on each member", rec)
			continue
		}
		var args, res, content [2]string
		for i := 0; i < 2; i++ {
			c := calls[i][0]
			if k := strings.LastIndex(c, "+"); k >= 0 {
				c, content[i] = c[:k], c[k:]
			}
			k := strings.LastIndex(c, "=")
			args[i], res[i] = c[:k], c[k+1:]
		}
		if args[0] != args[1] || (content[0] != "" && content[1] != "" && content[0] != content[1]) {
			fail("c15-fault-args-differ:"+name, "write_replicated", "both members called with the same arguments", rec)
		}
		// success_only_if_both
		both := res[0] == "ok" && res[1] == "ok"
		if uok != both {
			exp := "u=ok (both member calls succeeded)"
			if !both {
				exp = "u=err:… (a member call failed)"
			}
			fail("c15-fault-success-not-iff-both:"+name, "success_only_if_both", exp, rec)
		}
		if name == line[2] && (res[0] != "ok" || res[1] != "ok") {
			faulted = true
		}
	}
	if !faulted {
		// the directed sequence did not reach the call that was to fail: the line tests nothing
		fail("c15-fault-scenario", "fault_scenario", "a "+line[2]+" call that failed on a member", got)
	}
}

func (*c15) Impl(c Case) []string {
	out := make([]string, len(c.Lines))
	var s *c15State
	for i, l := range c.Lines {
		t := strings.Split(l, " ")
		out[i] = guard(func() string {
			if t[0] != "uni" {
				return "bad-engine"
			}
			if len(t) < 2 {
				return "bad-op"
			}
			if t[1] == "init" {
				if len(t) != 4 {
					return "bad-op"
				}
				p := 0
				if t[2] == "1" {
					p = 1
				}
				s = newC15State(p, t[3] == "1", c)
				return "ok"
			}
			if s == nil {
				s = newC15State(0, false, c)
			}
			switch t[1] {
			case "diverge":
				if len(t) != 4 {
					return "bad-op"
				}
				return c15Diverge(t[2] == "1", atoi(t[3]))
			case "fault":
				if len(t) != 6 || (t[3] != "0" && t[3] != "1") {
					return "bad-op"
				}
				return c15Fault(t[2], atoi(t[3]), atoi(t[4]), t[5])
			case "rfault":
				if len(t) != 4 || (t[2] != "0" && t[2] != "1") {
					return "bad-op"
				}
				return c15ReadFault(atoi(t[2]), t[3])
			case "snap":
				if len(t) != 2 {
					return "bad-op"
				}
				if s.snapshot(s.m0) == s.snapshot(s.m1) {
					return "equal"
				}
				return "differ"
			case "merge":
				if len(t) != 5 {
					return "bad-op"
				}
				return c15Merge(t[2], t[3], t[4])
			case "m0", "m1", "p0", "p1", "mb", "u", "alt":
				if len(t) < 4 || t[2] != "mem" || !c15MemLineOK(t[3:]) {
					return "bad-op"
				}
				if t[3] == "wclose" && t[1] != "u" {
					return "bad-op"
				}
				line := strings.Join(t[2:], " ")
				switch t[1] {
				case "m0", "p0":
					return s.i0.do(line)
				case "m1", "p1":
					return s.i1.do(line)
				case "mb":
					return s.i0.do(line) + " | " + s.i1.do(line)
				case "u":
					return s.unified(s.iu, s.pol, t)
				default:
					return s.unified(s.ialt, 1-s.pol, t)
				}
			}
			return "bad-op"
		})
	}
	return out
}

// snapshot is everything that can be observed of a member through the
// Interface: repositories, tags, manifests, blobs, referrers.
func (s *c15State) snapshot(m ociregistry.Interface) string {
	ctx := context.Background()
	var b strings.Builder
	repos, err := ociregistry.All(m.Repositories(ctx, ""))
	fmt.Fprintf(&b, "repos %q %v\n", repos, err != nil)
	probe := append([]string(nil), repos...)
	for _, r := range s.namedRepos {
		probe = append(probe, r)
	}
	sort.Strings(probe)
	ri := newRegInterp(m)
	last := "\x00none"
	for _, r := range probe {
		if r == last {
			continue
		}
		last = r
		fmt.Fprintf(&b, "repo %q\n", r)
		b.WriteString(ri.do("mem tags "+tok(r)+" "+tok("")) + "\n")
		tags, _ := ociregistry.All(m.Tags(ctx, r, ""))
		for _, tg := range tags {
			b.WriteString(ri.do("mem resolvetag "+tok(r)+" "+tok(tg)) + "\n")
			b.WriteString(ri.do("mem gettag "+tok(r)+" "+tok(tg)) + "\n")
		}
		for _, d := range s.digests {
			for _, op := range []string{"getblob", "getmanifest", "referrers"} {
				res := ri.do("mem " + op + " " + tok(r) + " " + tok(d))
				if strings.HasPrefix(res, "err ") || res == "descs []" {
					continue
				}
				b.WriteString(op + " " + d + " " + res + "\n")
			}
		}
	}
	return b.String()
}

func c15ParseEvents(s string) (items []string, errCls string, ok bool) {
	if s == "-" {
		return nil, "", true
	}
	parts := strings.Split(s, ",")
	for i, p := range parts {
		if strings.HasPrefix(p, "!") {
			if i != len(parts)-1 {
				return nil, "", false
			}
			return items, p[1:], true
		}
		v, good := untok(p)
		if !good {
			return nil, "", false
		}
		items = append(items, v)
	}
	return items, "", true
}

func c15Err(cls string) error {
	switch cls {
	case "NAME_UNKNOWN":
		return fmt.Errorf("scripted: %w", ociregistry.ErrNameUnknown)
	case "DENIED":
		return fmt.Errorf("scripted: %w", ociregistry.ErrDenied)
	case "UNSUPPORTED":
		return ociregistry.ErrUnsupported
	}
	return errors.New("scripted plain error")
}

func c15Merge(ks, e0, e1 string) string {
	k, err := strconv.Atoi(ks)
	if err != nil || k < 0 || strings.HasPrefix(ks, "+") {
		return "bad-op"
	}
	mk := func(ev string) (ociregistry.Interface, bool) {
		items, cls, ok := c15ParseEvents(ev)
		if !ok {
			return nil, false
		}
		return &ociregistry.Funcs{Tags_: func(ctx context.Context, repo, startAfter string) ociregistry.Seq[string] {
			return func(yield func(string, error) bool) {
				for _, x := range items {
					if !yield(x, nil) {
						return
					}
				}
				if cls != "" {
					yield("", c15Err(cls))
				}
			}
		}}, true
	}
	m0, ok0 := mk(e0)
	m1, ok1 := mk(e1)
	if !ok0 || !ok1 {
		return "bad-op"
	}
	u := ociunify.New(m0, m1, nil)
	var calls []string
	u.Tags(context.Background(), "r", "")(func(x string, err error) bool {
		if err != nil {
			calls = append(calls, "!"+errClass(err))
		} else {
			calls = append(calls, tok(x))
		}
		return len(calls) < k
	})
	return "[" + strings.Join(calls, " ") + "]"
}

// ---- generator ----

type c15Gen struct {
	rng   *RNG
	u     *memUniverse
	lines []string
	fresh int // unified uploads created so far (`@n` for n < fresh)
}

func (g *c15Gen) add(who, memLine string) { g.lines = append(g.lines, "uni "+who+" "+memLine) }

// quad emits a read on both members directly and through both unifiers.
func (g *c15Gen) quad(memLine string) {
	g.add("m0", memLine)
	g.add("m1", memLine)
	g.add("u", memLine)
	g.add("alt", memLine)
}

func (g *c15Gen) blobLine(repo string, i int, mt string) string {
	b := g.u.blobs[i%len(g.u.blobs)]
	return linePushBlob(repo, mt, sha256Digest(b), int64(len(b)), b)
}

func (g *c15Gen) manifestLine(repo, tag string, i int) string {
	m := g.u.manifests[i%len(g.u.manifests)]
	return linePushManifest(repo, tag, m.data, m.mt)
}

// prep puts the members in one of the relations named by the property.
func (g *c15Gen) prep(rel string) {
	rng, u := g.rng, g.u
	const oct = "application/octet-stream"
	pushAll := func(who, repo string) {
		for i := range u.blobs {
			g.add(who, g.blobLine(repo, i, oct))
		}
		for i := 0; i < 6; i++ {
			g.add(who, g.manifestLine(repo, pick(rng, []string{"", "latest", "v1"}), i))
		}
	}
	switch rel {
	case "equal":
		pushAll("mb", "a")
		pushAll("mb", "b/c")
	case "disjoint":
		for i := range u.blobs {
			g.add([]string{"m0", "m1"}[i%2], g.blobLine("a", i, oct))
		}
		pushAll("m0", "b/c")
		g.add("m1", g.manifestLine("a", "only1", 4))
		g.add("m0", g.manifestLine("a", "only0", 5))
	case "overlapping":
		for i := range u.blobs {
			g.add([]string{"m0", "m1", "mb"}[i%3], g.blobLine("a", i, oct))
		}
		pushAll("mb", "b/c")
		g.add("m0", g.manifestLine("b/c", "extra0", 4))
		g.add("m1", g.manifestLine("b/c", "extra1", 4))
		// same content under two media types
		g.add("m0", g.blobLine("a", 2, "text/zero"))
		g.add("m1", g.blobLine("a", 2, "text/one"))
	case "conflict":
		pushAll("mb", "a")
		g.add("m0", g.manifestLine("a", "latest", 4))
		g.add("m1", g.manifestLine("a", "latest", 5))
		g.add("m0", g.manifestLine("a", "v1", 0))
		g.add("m1", g.manifestLine("a", "v1", 0)) // agree
		g.add("m0", g.manifestLine("a", "tags", 4))
		// same digest, different media type recorded for the tag
		g.add("m0", linePushManifest("a", "_", u.manifests[4].data, mtOpaque))
		g.add("m1", linePushManifest("a", "_", u.manifests[4].data, "application/x-other"))
		// one referrer, the same bytes, stored as an image manifest on one member and as an index on the
		// other: it is still one referrer
		{
			m1 := u.manifests[0]
			cfg := u.blobs[4]
			both := []byte(fmt.Sprintf(`{"schemaVersion":2,"config":{"mediaType":"application/octet-stream","digest":%q,"size":%d},"layers":[],"manifests":[],"subject":{"mediaType":%q,"digest":%q,"size":%d}}`,
				sha256Digest(cfg), len(cfg), m1.mt, sha256Digest(m1.data), len(m1.data)))
			g.add("m0", linePushManifest("a", "", both, ocispec.MediaTypeImageManifest))
			g.add("m1", linePushManifest("a", "", both, ocispec.MediaTypeImageIndex))
		}
	case "onesided":
		pushAll("m0", "a")
		pushAll("m1", "b/c")
	case "random":
		for i := range u.blobs {
			if rng.Chance(4, 5) {
				g.add(pick(rng, []string{"m0", "m1", "mb", "mb"}), g.blobLine(pick(rng, u.repos), i, pick(rng, []string{oct, oct, "text/plain"})))
			}
		}
		for i := range u.manifests {
			if rng.Chance(1, 2) {
				g.add(pick(rng, []string{"m0", "m1", "mb", "mb"}), g.manifestLine(pick(rng, u.repos[:2]), pick(rng, append([]string{""}, u.tags...)), i))
			}
		}
		if rng.Chance(1, 3) {
			g.add(pick(rng, []string{"m0", "m1"}), fmt.Sprintf("mem deletetag %s %s", tok("a"), tok(pick(rng, u.tags))))
		}
	}
}

func (g *c15Gen) randomRead() string {
	rng, u := g.rng, g.u
	repo := pick(rng, append([]string{"nonexistent", "BAD"}, u.repos...))
	d := pick(rng, u.digests())
	tag := pick(rng, append([]string{"only0", "only1", "extra0", "extra1"}, u.tags...))
	switch rng.Intn(12) {
	case 0, 1:
		return fmt.Sprintf("mem getblob %s %s", tok(repo), tok(d))
	case 2:
		return fmt.Sprintf("mem getblobrange %s %s %d %d", tok(repo), tok(d), int64(rng.Intn(5))-1, int64(rng.Intn(8))-1)
	case 3:
		return fmt.Sprintf("mem getmanifest %s %s", tok(repo), tok(d))
	case 4:
		return fmt.Sprintf("mem resolveblob %s %s", tok(repo), tok(d))
	case 5:
		return fmt.Sprintf("mem resolvemanifest %s %s", tok(repo), tok(d))
	case 6, 7:
		return fmt.Sprintf("mem gettag %s %s", tok(repo), tok(tag))
	case 8:
		return fmt.Sprintf("mem resolvetag %s %s", tok(repo), tok(tag))
	case 9:
		return fmt.Sprintf("mem repositories %s", tok(pick(rng, []string{"", "a", "b", "zzz"})))
	case 10:
		return fmt.Sprintf("mem tags %s %s", tok(repo), tok(pick(rng, []string{"", "", "m", "latest"})))
	}
	return fmt.Sprintf("mem referrers %s %s", tok(repo), tok(d))
}

// allReads: every read and list call over the universe of a directed case.
func (g *c15Gen) allReads() {
	u := g.u
	repos := []string{"a", "b/c", "nonexistent"}
	var ds []string
	for _, b := range u.blobs {
		ds = append(ds, sha256Digest(b))
	}
	for _, m := range u.manifests[:6] {
		ds = append(ds, sha256Digest(m.data))
	}
	ds = append(ds, "sha256:"+strings.Repeat("0", 64))
	for _, r := range repos {
		for _, d := range ds {
			g.quad(fmt.Sprintf("mem getblob %s %s", tok(r), tok(d)))
			g.quad(fmt.Sprintf("mem resolveblob %s %s", tok(r), tok(d)))
			g.quad(fmt.Sprintf("mem getmanifest %s %s", tok(r), tok(d)))
			g.quad(fmt.Sprintf("mem resolvemanifest %s %s", tok(r), tok(d)))
			g.quad(fmt.Sprintf("mem referrers %s %s", tok(r), tok(d)))
		}
		g.quad(fmt.Sprintf("mem getblobrange %s %s 1 3", tok(r), tok(sha256Digest(u.blobs[2]))))
		g.quad(fmt.Sprintf("mem getblobrange %s %s 4 2", tok(r), tok(sha256Digest(u.blobs[2]))))
		for _, tg := range []string{"latest", "v1", "tags", "_", "only0", "only1", "extra0", "extra1", "nosuch"} {
			g.quad(fmt.Sprintf("mem gettag %s %s", tok(r), tok(tg)))
			g.quad(fmt.Sprintf("mem resolvetag %s %s", tok(r), tok(tg)))
		}
		for _, st := range []string{"", "latest", "zzz"} {
			g.quad(fmt.Sprintf("mem tags %s %s", tok(r), tok(st)))
		}
	}
	for _, st := range []string{"", "a", "b", "zzz"} {
		g.quad(fmt.Sprintf("mem repositories %s", tok(st)))
	}
}

// probes after a write through the unifier: is it in both members?
func (g *c15Gen) writeWithProbes(memLine string) {
	g.add("u", memLine)
	t := strings.Split(memLine, " ")
	probe := func(l string) { g.add("p0", l); g.add("p1", l) }
	switch t[1] {
	case "pushblob":
		probe(fmt.Sprintf("mem resolveblob %s %s", t[2], t[4]))
	case "pushmanifest":
		data, _ := untok(t[4])
		probe(fmt.Sprintf("mem resolvemanifest %s %s", t[2], tok(sha256Digest([]byte(data)))))
		if tg, _ := untok(t[3]); tg != "" {
			probe(fmt.Sprintf("mem resolvetag %s %s", t[2], t[3]))
		}
	case "mount":
		probe(fmt.Sprintf("mem resolveblob %s %s", t[3], t[4]))
	case "wcommit":
		probe(fmt.Sprintf("mem resolveblob %s %s", t[2], t[4]))
	case "deleteblob":
		probe(fmt.Sprintf("mem resolveblob %s %s", t[2], t[3]))
	case "deletemanifest":
		probe(fmt.Sprintf("mem resolvemanifest %s %s", t[2], t[3]))
	case "deletetag":
		probe(fmt.Sprintf("mem resolvetag %s %s", t[2], t[3]))
	}
}

var c15ChunkData = []string{"x", "hel", "lo", "", "hello", "layer-3"}

func (g *c15Gen) chunkOp(writers *[]string) string {
	rng, u := g.rng, g.u
	repo := pick(rng, u.repos)
	commitDigests := []string{sha256Digest([]byte("x")), sha256Digest([]byte("hello")), sha256Digest([]byte("")), sha256Digest([]byte("hel")), sha256Digest([]byte("xx")), sha256Digest([]byte("layer-3"))}
	if len(*writers) == 0 || rng.Chance(1, 5) {
		if rng.Chance(1, 12) {
			repo = pick(rng, []string{"BAD", "a//b"})
		}
		if rng.Chance(3, 4) {
			if ociref.IsValidRepository(repo) {
				*writers = append(*writers, repo+"\x00@"+strconv.Itoa(g.fresh))
				g.fresh++
			}
			return fmt.Sprintf("mem pushchunked %s", tok(repo))
		}
		id := pick(rng, u.ids)
		*writers = append(*writers, repo+"\x00"+id)
		return fmt.Sprintf("mem resume %s %s %d", tok(repo), tok(id), int64(rng.Intn(4))-1)
	}
	w := strings.SplitN(pick(rng, *writers), "\x00", 2)
	switch rng.Intn(12) {
	case 0, 1, 2, 3, 4:
		return fmt.Sprintf("mem wwrite %s %s %s", tok(w[0]), tok(w[1]), tok(pick(rng, c15ChunkData)))
	case 5:
		return fmt.Sprintf("mem wsize %s %s", tok(w[0]), tok(w[1]))
	case 6:
		return fmt.Sprintf("mem wclose %s %s", tok(w[0]), tok(w[1]))
	case 7, 8:
		return fmt.Sprintf("mem resume %s %s %d", tok(w[0]), tok(w[1]), int64(rng.Intn(8))-1)
	case 9:
		if rng.Chance(2, 3) {
			return fmt.Sprintf("mem wcancel %s %s", tok(w[0]), tok(w[1]))
		}
		fallthrough
	default:
		return fmt.Sprintf("mem wcommit %s %s %s", tok(w[0]), tok(w[1]), tok(pick(rng, commitDigests)))
	}
}

var c15MemMutating = map[string]bool{"pushblob": true, "pushmanifest": true, "mount": true, "deleteblob": true, "deletemanifest": true, "deletetag": true,
	"pushchunked": true, "resume": true, "wwrite": true, "wcancel": true, "wcommit": true, "wclose": true}

// history: operations through the unifier over members that start equal.
func (g *c15Gen) history(n int) {
	rng, u := g.rng, g.u
	// composite IDs a client could hold: two that do not share a member upload,
	// and malformed ones (not base64/JSON, one element, three elements)
	u.ids = []string{"&myid&other-id", "&x&x", "myid", "&solo", "&a&b&c", "", "%%"}
	var writers, scratch []string
	for j := 0; j < n; j++ {
		switch {
		case rng.Chance(1, 3):
			g.writeWithProbes(g.chunkOp(&writers))
		case rng.Chance(1, 10):
			g.lines = append(g.lines, "uni snap")
		default:
			l := u.genOp(rng, &scratch)
			op := strings.Split(l, " ")[1]
			switch {
			case op == "pushchunked" || op == "resume" || strings.HasPrefix(op, "w"):
				g.writeWithProbes(g.chunkOp(&writers))
			case c15MemMutating[op]:
				g.writeWithProbes(l)
			default:
				g.add("u", l)
				if rng.Chance(1, 2) {
					g.add("alt", l)
				}
			}
		}
	}
	g.lines = append(g.lines, "uni snap")
}

func c15Events(rng *RNG) string {
	n := rng.Intn(5)
	var parts []string
	for i := 0; i < n; i++ {
		parts = append(parts, tok(pick(rng, []string{"a", "b", "c", "d", "ab", "", "\xff", "B"})))
	}
	if rng.Chance(1, 2) {
		parts = append(parts, "!"+pick(rng, []string{"NAME_UNKNOWN", "NAME_UNKNOWN", "DENIED", "ERR", "UNSUPPORTED"}))
	}
	if len(parts) == 0 {
		return "-"
	}
	return strings.Join(parts, ",")
}

func (*c15) Gen(rng *RNG, tier string) []Case {
	var cases []Case
	mk := func(tag string, pol, imm int, f func(g *c15Gen)) {
		g := &c15Gen{rng: rng, u: newMemUniverse(rng, false)}
		g.lines = []string{fmt.Sprintf("uni init %d %d", pol, imm)}
		f(g)
		cases = append(cases, Case{Tag: tag, Lines: g.lines})
	}
	// 1. every member relation × every read/list call × both policies
	for _, rel := range []string{"equal", "disjoint", "overlapping", "conflict", "onesided"} {
		for pol := 0; pol < 2; pol++ {
			mk("relation:"+rel, pol, 0, func(g *c15Gen) { g.prep(rel); g.allReads() })
		}
	}
	// 2. directed chunked uploads with close and resume through the unifier
	for pol := 0; pol < 2; pol++ {
		mk("chunked:directed", pol, 0, func(g *c15Gen) {
			a := tok("a")
			id := tok("@0")
			g.add("u", "mem pushchunked "+a)
			g.add("u", fmt.Sprintf("mem wwrite %s %s %s", a, id, tok("hel")))
			g.add("u", fmt.Sprintf("mem wsize %s %s", a, id))
			g.add("u", fmt.Sprintf("mem wclose %s %s", a, id))
			g.add("u", fmt.Sprintf("mem resume %s %s 3", a, id))
			g.add("u", fmt.Sprintf("mem wsize %s %s", a, id))
			g.add("u", fmt.Sprintf("mem wwrite %s %s %s", a, id, tok("lo")))
			g.writeWithProbes(fmt.Sprintf("mem wcommit %s %s %s", a, id, tok(sha256Digest([]byte("hello")))))
			g.quad(fmt.Sprintf("mem getblob %s %s", a, tok(sha256Digest([]byte("hello")))))
			g.lines = append(g.lines, "uni snap")
			// wrong resume offset: the next write is refused by both members
			g.add("u", "mem pushchunked "+a)
			id1 := tok("@1")
			g.add("u", fmt.Sprintf("mem wwrite %s %s %s", a, id1, tok("x")))
			g.add("u", fmt.Sprintf("mem resume %s %s 5", a, id1))
			g.add("u", fmt.Sprintf("mem wwrite %s %s %s", a, id1, tok("y")))
			g.add("u", fmt.Sprintf("mem resume %s %s 1", a, id1))
			g.add("u", fmt.Sprintf("mem wwrite %s %s %s", a, id1, tok("x")))
			g.writeWithProbes(fmt.Sprintf("mem wcommit %s %s %s", a, id1, tok(sha256Digest([]byte("xx")))))
			g.writeWithProbes(fmt.Sprintf("mem wcommit %s %s %s", a, id1, tok(sha256Digest([]byte("xy")))))
			// composite and malformed IDs
			for _, cid := range []string{"&myid&other-id", "myid", "&solo", "&a&b&c", "", "%%"} {
				g.add("u", fmt.Sprintf("mem resume %s %s 0", a, tok(cid)))
				g.add("u", fmt.Sprintf("mem wwrite %s %s %s", a, tok(cid), tok("x")))
				g.writeWithProbes(fmt.Sprintf("mem wcommit %s %s %s", a, tok(cid), tok(sha256Digest([]byte("x")))))
			}
			g.add("u", fmt.Sprintf("mem wcancel %s %s", a, id))
			g.add("u", fmt.Sprintf("mem wcommit %s %s %s", a, id, tok(sha256Digest([]byte("hello")))))
			g.lines = append(g.lines, "uni snap")
		})
	}
	// 2b. a cancelled upload stays cancelled on both members, also when it is resumed
	for pol := 0; pol < 2; pol++ {
		for _, resume := range []bool{false, true} {
			mk("chunked:cancel", pol, 0, func(g *c15Gen) {
				a := tok("a")
				id := tok("@0")
				dig := tok(sha256Digest([]byte("cancelled")))
				g.add("u", "mem pushchunked "+a)
				g.add("u", fmt.Sprintf("mem wwrite %s %s %s", a, id, tok("cance")))
				g.add("u", fmt.Sprintf("mem wcancel %s %s", a, id))
				g.add("u", fmt.Sprintf("mem wsize %s %s", a, id))
				if resume {
					g.add("u", fmt.Sprintf("mem wclose %s %s", a, id))
					g.add("u", fmt.Sprintf("mem resume %s %s 5", a, id))
				}
				g.add("u", fmt.Sprintf("mem wwrite %s %s %s", a, id, tok("lled")))
				g.writeWithProbes(fmt.Sprintf("mem wcommit %s %s %s", a, id, dig))
				g.quad(fmt.Sprintf("mem getblob %s %s", a, dig))
				g.lines = append(g.lines, "uni snap")
			})
		}
	}
	// 2b'. a delete through the unifier of something only ONE member has: that member's delete succeeds, the other's
	// fails, and "a write reports success only if both succeeded" (seed C15-12). Probes before and after.
	for pol := 0; pol < 2; pol++ {
		for _, only := range []string{"m0", "m1"} {
			mk("delete:onesided", pol, 0, func(g *c15Gen) {
				a := tok("a")
				g.add("mb", g.blobLine("a", 0, "application/octet-stream")) // the repository exists in both
				g.add(only, g.blobLine("a", 1, "application/octet-stream"))
				g.add(only, g.manifestLine("a", "only", 0))
				b := g.u.blobs[1%len(g.u.blobs)]
				m := g.u.manifests[0]
				probe := func(l string) { g.add("p0", l); g.add("p1", l) }
				probe(fmt.Sprintf("mem resolvetag %s %s", a, tok("only")))
				g.writeWithProbes(fmt.Sprintf("mem deletetag %s %s", a, tok("only")))
				probe(fmt.Sprintf("mem resolvemanifest %s %s", a, tok(sha256Digest(m.data))))
				g.writeWithProbes(fmt.Sprintf("mem deletemanifest %s %s", a, tok(sha256Digest(m.data))))
				probe(fmt.Sprintf("mem resolveblob %s %s", a, tok(sha256Digest(b))))
				g.writeWithProbes(fmt.Sprintf("mem deleteblob %s %s", a, tok(sha256Digest(b))))
				// and in a repository only one member knows
				g.add(only, g.blobLine("solo", 1, "application/octet-stream"))
				probe(fmt.Sprintf("mem resolveblob %s %s", tok("solo"), tok(sha256Digest(b))))
				g.writeWithProbes(fmt.Sprintf("mem deleteblob %s %s", tok("solo"), tok(sha256Digest(b))))
			})
		}
	}
	// 2c. one Write reaches one member only; then close, resume by asking, write the rest, commit
	for _, which := range []string{"0", "1"} {
		for nth := 1; nth <= 3; nth++ {
			cases = append(cases, Case{Tag: "chunked:diverge", Lines: []string{fmt.Sprintf("uni diverge %s %d", which, nth)}})
		}
	}
	// 2e. one member refuses every call (denied, unauthorized, a transport error, not-found kinds): what the other holds is readable
	for member := 0; member < 2; member++ {
		for _, code := range []string{"DENIED", "UNAUTHORIZED", "NAME_UNKNOWN", "BLOB_UNKNOWN", "PLAIN"} {
			cases = append(cases, Case{Tag: "rfault", Lines: []string{fmt.Sprintf("uni rfault %d %s", member, code)}})
		}
	}
	// 2d. one member call fails on its own: every mutating method × member × the first or second call × two error codes
	for _, m := range c15FaultMethods {
		for member := 0; member < 2; member++ {
			for n := 1; n <= 2; n++ {
				for _, code := range c15FaultCodes {
					cases = append(cases, Case{Tag: "fault:" + m, Lines: []string{fmt.Sprintf("uni fault %s %d %d %s", m, member, n, code)}})
				}
			}
		}
	}
	nHist, nRel, nMerge, histLen, nReads := 220, 120, 400, 40, 30
	if tier == "thorough" {
		nHist, nRel, nMerge, histLen, nReads = 3000, 1500, 20000, 150, 80
	}
	// 3. write histories through the unifier over equal members
	for i := 0; i < nHist; i++ {
		mk("history", i%2, (i/2)%2, func(g *c15Gen) {
			if g.rng.Chance(1, 2) {
				g.prep("equal")
			}
			g.history(5 + g.rng.Intn(histLen))
		})
	}
	// 4. random member relations, random reads, both policies
	for i := 0; i < nRel; i++ {
		mk("relation:random", i%2, (i/2)%2, func(g *c15Gen) {
			g.prep("random")
			for j := 0; j < nReads; j++ {
				g.quad(g.randomRead())
			}
			// writes through the unifier over members that differ: success must
			// still mean "in both"
			var scratch []string
			for j := 0; j < 12; {
				l := g.u.genOp(g.rng, &scratch)
				if op := strings.Split(l, " ")[1]; c15MemMutating[op] && !strings.HasPrefix(op, "w") && op != "pushchunked" && op != "resume" {
					g.writeWithProbes(l)
					j++
				}
			}
			for j := 0; j < 6; j++ {
				g.quad(g.randomRead())
			}
			g.lines = append(g.lines, "uni snap")
		})
	}
	// 5. mergeIter over scripted listings (unsorted, duplicates, errors), consumer stopping anywhere
	{
		var lines []string
		for i := 0; i < nMerge; i++ {
			lines = append(lines, fmt.Sprintf("uni merge %d %s %s", pick(rng, []int{0, 1, 2, 3, 4, 99, 99, 99}), c15Events(rng), c15Events(rng)))
			if len(lines) == 50 {
				cases = append(cases, Case{Tag: "merge", Lines: lines})
				lines = nil
			}
		}
		if len(lines) > 0 {
			cases = append(cases, Case{Tag: "merge", Lines: lines})
		}
	}
	// 6. malformed stream
	cases = append(cases, Case{Tag: "malformed", Lines: []string{
		"uni init 0 0", "uni", "uni bogus", "uni u", "uni u mem", "uni u mem nosuchop " + tok("a"), "uni u mem getblob " + tok("a"),
		"uni u mem getblob a b", "uni m0 mem pushblob " + tok("a"), "uni u mem getblobrange " + tok("a") + " " + tok("d") + " x 1",
		"uni snap extra", "uni merge x - -", "uni merge 3 -", "uni merge 3 !ERR," + tok("a") + " -", "uni merge 2 zz -",
		"uni alt mem wclose " + tok("a") + " " + tok("@0"), "uni u mem wclose " + tok("a") + " " + tok("@0"),
		"uni u mem pushmanifest " + tok("a") + " " + tok("") + " " + tok("x") + " " + tok(mtOpaque) + " refs 1",
		"uni u mem repositories " + tok(""),
	}})
	return cases
}

// ---- oracles (independent of the Lean model) ----

type c15Content struct {
	ok           bool
	dg, data, mt string
	size         int64
	hasData      bool
}

func c15ParseContent(s string) c15Content {
	if ok, mt, dg, size, data := parseRead(s); ok {
		return c15Content{ok: true, dg: dg, data: data, size: size, mt: mt, hasData: true}
	}
	if ok, mt, dg, size := parseDescOut(s); ok {
		return c15Content{ok: true, dg: dg, size: size, mt: mt}
	}
	return c15Content{}
}

func (a c15Content) same(b c15Content) bool {
	return a.ok == b.ok && a.dg == b.dg && a.size == b.size && a.data == b.data
}

func c15ParseDescs(s string) ([]string, bool) {
	if !strings.HasPrefix(s, "descs [") || !strings.HasSuffix(s, "]") {
		return nil, false
	}
	s = s[7 : len(s)-1]
	if s == "" {
		return nil, true
	}
	return strings.Split(s, " "), true
}

func c15DescDigest(item string) string {
	f := strings.Split(item, ":")
	if len(f) != 3 {
		return item
	}
	d, _ := untok(f[1])
	return d
}

func (*c15) Oracle(c Case, impl []string) []Failure {
	var fs []Failure
	// does any line mutate a single member directly?
	onesided := false
	for _, l := range c.Lines {
		t := strings.Split(l, " ")
		if len(t) > 3 && (t[1] == "m0" || t[1] == "m1") && c15MemMutating[t[3]] {
			onesided = true
		}
	}
	type key struct{ who, op string }
	last := map[key]int{} // most recent line index of (who, op text); reset by any mutation
	for i, l := range c.Lines {
		if strings.HasPrefix(l, "uni diverge ") && i < len(impl) && !strings.HasPrefix(impl[i], "diverge ok") {
			fs = append(fs, Failure{Class: "uni-diverged-upload-resumed", Oracle: "members_stay_equal", Index: i, Expected: "the resume refused, or both members holding the same at the end", Observed: impl[i]})
			continue
		}
		if i >= len(impl) {
			break
		}
		got := impl[i]
		t := strings.Split(l, " ")
		if len(t) == 4 && t[1] == "rfault" {
			// "digest-addressed content is readable exactly when either member has it ... the sequential and concurrent read
			// policies give the same results": the other member holds the content, so every read succeeds under both policies
			if want := c15ReadFaultWant; got != want {
				fs = append(fs, Failure{Class: "c15-read-not-union:member-fails", Oracle: "read_union_whatever_the_other_member_answers", Index: i, Expected: want, Observed: got})
			}
			continue
		}
		if len(t) == 6 && t[1] == "fault" && got != "bad-op" && got != "panic" {
			c15FaultOracle(t, got, func(class, oracle, exp, obs string) {
				fs = append(fs, Failure{Class: class, Oracle: oracle, Index: i, Expected: exp, Observed: obs})
			})
			continue
		}
		fail := func(class, oracle, exp string) {
			fs = append(fs, Failure{Class: class, Oracle: oracle, Index: i, Expected: exp, Observed: got})
		}
		if got == "panic" {
			fail("c15-panic", "no_panic", "a result")
			continue
		}
		if len(t) >= 2 && t[1] == "snap" && len(t) == 2 {
			if !onesided && got != "equal" {
				fail("c15-members-diverged", "members_stay_equal", "equal")
			}
			continue
		}
		if len(t) >= 2 && t[1] == "merge" && len(t) == 5 {
			if f := c15MergeOracle(t, got); f != "" {
				fail("c15-merge", "merge_sorted_union", f)
			}
			continue
		}
		if len(t) < 4 || t[2] != "mem" || got == "bad-op" {
			continue
		}
		who, op := t[1], t[3]
		opText := strings.Join(t[3:], " ")
		if c15MemMutating[op] && who == "u" && strings.HasPrefix(op, "delete") && !strings.HasPrefix(got, "err ") && i >= 2 {
			// the two lines before a directed delete are the members' own answers about the item
			p0, p1 := strings.Split(c.Lines[i-2], " "), strings.Split(c.Lines[i-1], " ")
			if len(p0) >= 4 && len(p1) >= 4 && p0[1] == "p0" && p1[1] == "p1" && strings.HasPrefix(p0[3], "resolve") && p0[3] == p1[3] &&
				strings.Join(p0[4:], " ") == strings.Join(p1[4:], " ") && strings.Join(p0[4:], " ") == strings.Join(t[4:], " ") {
				if strings.HasPrefix(impl[i-2], "err ") != strings.HasPrefix(impl[i-1], "err ") {
					fail("c15-delete-success-one-member-failed:"+op, "success_only_if_both", "err … (one member does not have what is deleted, so its delete fails)")
				}
			}
		}
		if c15MemMutating[op] {
			last = map[key]int{}
			// a write reported successful is present in both members (absent, for a delete)
			if who == "u" && !strings.HasPrefix(got, "err ") {
				wantPresent := !strings.HasPrefix(op, "delete")
				for j := i + 1; j < len(c.Lines) && j < len(impl) && j <= i+4; j++ {
					pt := strings.Split(c.Lines[j], " ")
					if len(pt) < 4 || (pt[1] != "p0" && pt[1] != "p1") || !strings.HasPrefix(pt[3], "resolve") {
						break
					}
					present := strings.HasPrefix(impl[j], "desc ")
					if op == "pushchunked" || op == "resume" || op == "wwrite" || op == "wcancel" || op == "wclose" {
						break
					}
					if present != wantPresent {
						fs = append(fs, Failure{Class: "c15-write-not-in-both:" + op, Oracle: "write_replicated", Index: j,
							Expected: map[bool]string{true: "desc … (the write was reported successful)", false: "err … (the delete was reported successful)"}[wantPresent],
							Observed: impl[j]})
					}
				}
			}
			continue
		}
		last[key{who, opText}] = i
		if who != "u" && who != "alt" {
			continue
		}
		// policy agreement
		if who == "alt" {
			if j, ok := last[key{"u", opText}]; ok {
				a, b := impl[j], got
				if c15ReadOps[op] {
					a, b = c15Loose(a), c15Loose(b)
					if a != b {
						fail("c15-policies-differ:"+op, "policies_agree", a)
					}
				} else if strings.HasPrefix(a, "err ") != strings.HasPrefix(b, "err ") || (!strings.HasPrefix(a, "err ") && a != b) {
					fail("c15-policies-differ:"+op, "policies_agree", a)
				}
			}
		}
		j0, ok0 := last[key{"m0", opText}]
		j1, ok1 := last[key{"m1", opText}]
		if !ok0 || !ok1 {
			continue
		}
		r0, r1 := impl[j0], impl[j1]
		switch op {
		case "getblob", "getblobrange", "getmanifest", "resolveblob", "resolvemanifest":
			a0, a1, au := c15ParseContent(r0), c15ParseContent(r1), c15ParseContent(got)
			if au.ok != (a0.ok || a1.ok) {
				fail("c15-read-union:"+op, "read_union", map[bool]string{true: "a successful read (a member has the content)", false: "err (no member has the content)"}[a0.ok || a1.ok])
			} else if au.ok && !((a0.ok && au.same(a0)) || (a1.ok && au.same(a1))) {
				fail("c15-read-answer:"+op, "read_union", "the digest, size and bytes a member returned")
			}
		case "gettag", "resolvetag":
			a0, a1, au := c15ParseContent(r0), c15ParseContent(r1), c15ParseContent(got)
			switch {
			case a0.ok && a1.ok && a0.dg != a1.dg:
				if au.ok {
					fail("c15-tag-conflict-resolved:"+op, "tag_rule", "err (members disagree)")
				}
			case a0.ok || a1.ok:
				want := a0
				if !a0.ok {
					want = a1
				}
				if !au.ok || au.dg != want.dg || au.data != want.data {
					fail("c15-tag-answer:"+op, "tag_rule", "the members' answer for the tag")
				}
			default:
				if au.ok {
					fail("c15-tag-phantom:"+op, "tag_rule", "err (no member has the tag)")
				}
			}
		case "repositories", "tags":
			l0, lok0 := parseListOut(r0)
			l1, lok1 := parseListOut(r1)
			lu, loku := parseListOut(got)
			if !lok0 && !lok1 {
				if loku {
					fail("c15-list-phantom:"+op, "list_union", "err (no member knows the repository)")
				}
				break
			}
			set := map[string]bool{}
			for _, x := range append(append([]string{}, l0...), l1...) {
				set[x] = true
			}
			var want []string
			for x := range set {
				want = append(want, x)
			}
			sort.Strings(want)
			if !loku || strings.Join(lu, "\x00") != strings.Join(want, "\x00") || len(lu) != len(want) {
				ts := make([]string, len(want))
				for k, x := range want {
					ts[k] = tok(x)
				}
				fail("c15-list-union:"+op, "list_union", "list ["+strings.Join(ts, " ")+"]")
			}
		case "referrers":
			l0, lok0 := c15ParseDescs(r0)
			l1, lok1 := c15ParseDescs(r1)
			lu, loku := c15ParseDescs(got)
			if !lok0 && !lok1 {
				if loku {
					fail("c15-list-phantom:"+op, "list_union", "err (no member knows the repository)")
				}
				break
			}
			set := map[string]bool{}
			for _, x := range append(append([]string{}, l0...), l1...) {
				set[c15DescDigest(x)] = true
			}
			okList := loku && len(lu) == len(set)
			for k, x := range lu {
				if !set[c15DescDigest(x)] || (k > 0 && !(c15DescDigest(lu[k-1]) < c15DescDigest(x))) {
					okList = false
				}
			}
			if !okList {
				fail("c15-list-union:"+op, "list_union", "the members' referrers, one per digest, ascending by digest")
			}
		}
	}
	return fs
}

// c15MergeOracle: the calls delivered for `uni merge k e0 e1`, judged from the
// property text: sorted duplicate-free union; an unknown repository on one
// side is ignored, on both sides reported; another error is delivered after the
// items; nothing is delivered after the consumer declines or after an error.
func c15MergeOracle(t []string, got string) string {
	k, err := strconv.Atoi(t[2])
	if err != nil {
		return ""
	}
	i0, c0, ok0 := c15ParseEvents(t[3])
	i1, c1, ok1 := c15ParseEvents(t[4])
	if !ok0 || !ok1 {
		return ""
	}
	var want []string
	if c0 == "NAME_UNKNOWN" && c1 == "NAME_UNKNOWN" {
		want = []string{"!NAME_UNKNOWN"}
	} else {
		set := map[string]bool{}
		for _, x := range append(append([]string{}, i0...), i1...) {
			set[x] = true
		}
		var items []string
		for x := range set {
			items = append(items, x)
		}
		sort.Strings(items)
		for _, x := range items {
			want = append(want, tok(x))
		}
		// a member that answers NAME_UNKNOWN without having delivered anything does not know the repository and is
		// ignored; any other error - NAME_UNKNOWN after items included (F34) - is delivered, member 0's first
		e := ""
		if c0 != "" && !(c0 == "NAME_UNKNOWN" && len(i0) == 0) {
			e = c0
		} else if c1 != "" && !(c1 == "NAME_UNKNOWN" && len(i1) == 0) {
			e = c1
		}
		if e != "" {
			if e == "UNSUPPORTED" || e == "ERR" {
				e = errClass(c15Err(e))
			}
			want = append(want, "!"+e)
		}
	}
	n := k
	if n < 1 {
		n = 1 // the consumer is asked at least once before it can decline
	}
	if n < len(want) {
		want = want[:n]
	}
	exp := "[" + strings.Join(want, " ") + "]"
	if got != exp {
		return exp
	}
	return ""
}

func (*c15) NonTrivial(c Case, impl []string) (bool, string) {
	okU, errU := 0, 0
	for i, l := range c.Lines {
		if i >= len(impl) {
			break
		}
		if strings.HasPrefix(l, "uni u ") || strings.HasPrefix(l, "uni merge ") {
			if strings.HasPrefix(impl[i], "err") || strings.Contains(impl[i], "!") {
				errU++
			} else if impl[i] != "bad-op" {
				okU++
			}
		}
	}
	b := c.Tag
	if b == "" {
		b = "replay"
	}
	if len(c.Lines) == 1 && strings.HasPrefix(c.Lines[0], "uni rfault ") && len(impl) == 1 {
		return strings.Contains(impl[0], "=ok"), b
	}
	if len(c.Lines) == 1 && strings.HasPrefix(c.Lines[0], "uni fault ") && len(impl) == 1 {
		// a call that failed on one member and one that succeeded on both
		return strings.Contains(impl[0], "=err:") && strings.Contains(impl[0], "u=ok"), b
	}
	return okU >= 2 && errU >= 1, b
}
