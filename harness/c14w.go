package main

import (
	"reflect"
	"context"
	"errors"
	"fmt"
	"io"
	"strings"

	"cuelabs.dev/go/oci/ociregistry"
	"cuelabs.dev/go/oci/ociregistry/ocifilter"
	"cuelabs.dev/go/oci/ociregistry/ocimem"
)

// C14 (wrapper part): histories through ocifilter.ReadOnly(ocimem) and
// ocifilter.Immutable(ocimem).
//
//	wrap init ro|imm          a fresh ocimem registry and the wrapper around it
//	wrap raw <mem op…>        an operation on the ocimem registry itself (seeding, inspection)
//	wrap via <mem op…>        an operation through the wrapper
//	wrap snap <digest>*       dump of the ocimem registry: per repository its tags (with the digest each resolves to)
//	                          and which of the given digests are present as blobs / manifests
//
// Outputs are regInterp's; for the read-only wrapper "err UNSUPPORTED" additionally
// means errors.Is(err, ociregistry.ErrUnsupported).

func init() { engines["C14W"] = func() Engine { return &c14w{} } }

type c14w struct{}

func (*c14w) UsesModel() bool { return true }

// errSpy remembers the error of the last mutating call.
type errSpy struct {
	ociregistry.Interface
	last error
}

func (s *errSpy) PushBlob(ctx context.Context, repo string, desc ociregistry.Descriptor, r io.Reader) (ociregistry.Descriptor, error) {
	d, err := s.Interface.PushBlob(ctx, repo, desc, r)
	s.last = err
	return d, err
}
func (s *errSpy) PushBlobChunked(ctx context.Context, repo string, chunkSize int) (ociregistry.BlobWriter, error) {
	w, err := s.Interface.PushBlobChunked(ctx, repo, chunkSize)
	s.last = err
	return w, err
}
func (s *errSpy) PushBlobChunkedResume(ctx context.Context, repo, id string, offset int64, chunkSize int) (ociregistry.BlobWriter, error) {
	w, err := s.Interface.PushBlobChunkedResume(ctx, repo, id, offset, chunkSize)
	s.last = err
	return w, err
}
func (s *errSpy) MountBlob(ctx context.Context, fromRepo, toRepo string, digest ociregistry.Digest) (ociregistry.Descriptor, error) {
	d, err := s.Interface.MountBlob(ctx, fromRepo, toRepo, digest)
	s.last = err
	return d, err
}
func (s *errSpy) PushManifest(ctx context.Context, repo string, tag string, contents []byte, mediaType string) (ociregistry.Descriptor, error) {
	d, err := s.Interface.PushManifest(ctx, repo, tag, contents, mediaType)
	s.last = err
	return d, err
}
func (s *errSpy) DeleteBlob(ctx context.Context, repo string, digest ociregistry.Digest) error {
	s.last = s.Interface.DeleteBlob(ctx, repo, digest)
	return s.last
}
func (s *errSpy) DeleteManifest(ctx context.Context, repo string, digest ociregistry.Digest) error {
	s.last = s.Interface.DeleteManifest(ctx, repo, digest)
	return s.last
}
func (s *errSpy) DeleteTag(ctx context.Context, repo string, name string) error {
	s.last = s.Interface.DeleteTag(ctx, repo, name)
	return s.last
}

var c14wMutators = map[string]bool{"pushblob": true, "pushchunked": true, "resume": true, "mount": true, "pushmanifest": true,
	"deleteblob": true, "deletemanifest": true, "deletetag": true}

type c14wState struct {
	kind  string
	under *ocimem.Registry
	raw   *regInterp
	via   *regInterp
	spy   *errSpy
	racer *c14wRacer
}

// c14wRacer sits between the wrapper and the underlying registry. When armed
// (`wrap race <mem op>`), the next PushManifest that reaches the underlying registry is
// followed at once by the armed operation, performed directly on the underlying registry:
// another client that gets in between the wrapper's push and whatever the wrapper does next.
type c14wRacer struct {
	ociregistry.Interface
	raw     *regInterp
	pending string
}

func (r *c14wRacer) PushManifest(ctx context.Context, repo string, tag string, contents []byte, mediaType string) (ociregistry.Descriptor, error) {
	d, err := r.Interface.PushManifest(ctx, repo, tag, contents, mediaType)
	if p := r.pending; p != "" {
		r.pending = ""
		r.raw.do(p)
	}
	return d, err
}

func (st *c14wState) init(kind string) {
	st.kind = kind
	st.under = ocimem.New()
	st.raw = newRegInterp(st.under)
	st.racer = &c14wRacer{Interface: st.under, raw: st.raw}
	if kind == "imm" {
		st.spy = &errSpy{Interface: ocifilter.Immutable(st.racer)}
	} else {
		st.spy = &errSpy{Interface: ocifilter.ReadOnly(st.racer)}
	}
	st.via = newRegInterp(st.spy)
}

func (*c14w) Impl(c Case) []string {
	out := make([]string, len(c.Lines))
	st := &c14wState{}
	for i, l := range c.Lines {
		out[i] = guard(func() string { return c14wLine(st, l) })
	}
	return out
}

// c14wROFuncs: ReadOnly over a function table that has every field set, with or without a NewError
// hook: the eight mutating methods are still refused as unsupported and none of the table's mutating
// functions is called; the ten read methods reach the table.
func c14wROFuncs(withNewError bool) string {
	b := newRecBackend()
	if withNewError {
		b.Funcs.NewError = func(ctx context.Context, methodName, repo string) error {
			return fmt.Errorf("custom error for %s", methodName)
		}
	}
	ro := ocifilter.ReadOnly(b.Funcs)
	var bad []string
	mutators := map[string]bool{"PushBlob": true, "PushBlobChunked": true, "PushBlobChunkedResume": true, "MountBlob": true, "PushManifest": true,
		"DeleteBlob": true, "DeleteManifest": true, "DeleteTag": true}
	it := reflect.TypeOf((*ociregistry.Interface)(nil)).Elem()
	for i := 0; i < it.NumMethod(); i++ {
		name := it.Method(i).Name
		if name == "private" {
			continue
		}
		b.Calls = nil
		m, args, ok := wrapperArgs(ro, name, context.Background(), "a", "b")
		if !ok {
			continue
		}
		res := m.Call(args)
		err := resultError(res)
		if mutators[name] {
			if len(b.Calls) != 0 {
				bad = append(bad, name+":reached-the-table")
			}
			if !errors.Is(err, ociregistry.ErrUnsupported) {
				bad = append(bad, name+":not-unsupported")
			}
		} else if len(b.Calls) != 1 || b.Calls[0].Method != name {
			bad = append(bad, name+":not-forwarded")
		}
	}
	if len(bad) > 0 {
		return "rofuncs " + strings.Join(bad, ",")
	}
	return "rofuncs ok"
}

func c14wLine(st *c14wState, l string) string {
	t := strings.Split(l, " ")
	if len(t) < 2 || t[0] != "wrap" {
		return "bad-op"
	}
	if t[1] == "rofuncs" && len(t) == 3 {
		return c14wROFuncs(t[2] == "1")
	}
	if t[1] == "init" && len(t) == 3 && (t[2] == "ro" || t[2] == "imm") {
		st.init(t[2])
		return "ok"
	}
	if st.under == nil {
		st.init("ro")
	}
	switch t[1] {
	case "raw":
		return st.raw.do("mem " + strings.Join(t[2:], " "))
	case "race":
		if len(t) < 8 || t[2] != "pushmanifest" { // the last field(s) are the decoding hint for the model
			return "bad-op"
		}
		for _, x := range t[3:7] {
			if _, ok := untok(x); !ok {
				return "bad-op"
			}
		}
		st.racer.pending = "mem " + strings.Join(t[2:], " ")
		return "ok"
	case "via":
		st.spy.last = nil
		armed := st.racer.pending != ""
		out := st.via.do("mem " + strings.Join(t[2:], " "))
		if armed && st.racer.pending == "" {
			out += " +raced"
		}
		if st.kind == "ro" && len(t) > 2 && c14wMutators[t[2]] && out == "err UNSUPPORTED" && !errors.Is(st.spy.last, ociregistry.ErrUnsupported) {
			return "err UNSUPPORTED-but-not-errors.Is-ErrUnsupported"
		}
		return out
	case "snap":
		ctx := context.Background()
		var digests []ociregistry.Digest
		for _, x := range t[2:] {
			d, ok := untok(x)
			if !ok {
				return "bad-op"
			}
			digests = append(digests, ociregistry.Digest(d))
		}
		repos, err := ociregistry.All(st.under.Repositories(ctx, ""))
		if err != nil {
			return "err " + errClass(err)
		}
		var parts []string
		for _, r := range repos {
			tags, _ := ociregistry.All(st.under.Tags(ctx, r, ""))
			var ts, bs, ms []string
			for _, tg := range tags {
				d, err := st.under.ResolveTag(ctx, r, tg)
				if err != nil {
					ts = append(ts, tok(tg)+"=?")
					continue
				}
				ts = append(ts, tok(tg)+"="+tok(string(d.Digest)))
			}
			for _, d := range digests {
				if _, err := st.under.ResolveBlob(ctx, r, d); err == nil {
					bs = append(bs, tok(string(d)))
				}
				if _, err := st.under.ResolveManifest(ctx, r, d); err == nil {
					ms = append(ms, tok(string(d)))
				}
			}
			parts = append(parts, fmt.Sprintf("%s:t[%s]:b[%s]:m[%s]", tok(r), strings.Join(ts, ","), strings.Join(bs, ","), strings.Join(ms, ",")))
		}
		return "snap " + strings.Join(parts, " ")
	}
	return "bad-op"
}

// ---- generation ----

func (*c14w) Gen(rng *RNG, tier string) []Case {
	var cases []Case
	cases = append(cases, c14wDirected(rng)...)
	n, maxLen := 500, 40
	if tier == "thorough" {
		n, maxLen = 8000, 150
	}
	for i := 0; i < n; i++ {
		kind := "ro"
		if i%2 == 1 {
			kind = "imm"
		}
		u := newMemUniverse(rng, i%5 == 4)
		var ds []string
		for _, d := range u.digests() {
			ds = append(ds, tok(d))
		}
		snap := "wrap snap " + strings.Join(ds, " ")
		lines := []string{"wrap init " + kind}
		raw := func(l string) { lines = append(lines, "wrap raw "+strings.TrimPrefix(l, "mem ")) }
		via := func(l string) { lines = append(lines, "wrap via "+strings.TrimPrefix(l, "mem ")) }
		// seed the underlying registry directly
		for j, b := range u.blobs {
			if rng.Chance(4, 5) {
				raw(linePushBlob(u.repos[j%2], "application/octet-stream", sha256Digest(b), int64(len(b)), b))
				raw(linePushBlob(u.repos[(j+1)%2], "application/octet-stream", sha256Digest(b), int64(len(b)), b))
			}
		}
		for _, m := range u.manifests[:5] {
			if rng.Chance(2, 3) {
				raw(linePushManifest(u.repos[0], pick(rng, append([]string{""}, u.tags...)), m.data, m.mt))
			}
		}
		lines = append(lines, snap)
		var writers []string
		for k := 5 + rng.Intn(maxLen); k > 0; k-- {
			if kind == "imm" && rng.Chance(1, 12) {
				m := pick(rng, u.manifests)
				lines = append(lines, "wrap race "+strings.TrimPrefix(linePushManifest(pick(rng, u.repos), pick(rng, u.tags), m.data, m.mt), "mem "))
			}
			via(u.genOp(rng, &writers))
			if rng.Chance(1, 10) {
				lines = append(lines, snap)
			}
		}
		// observe every tag through the wrapper and directly, then the final state
		for _, r := range []string{"a", "b/c"} {
			for _, tg := range u.tags[:3] {
				via(fmt.Sprintf("mem resolvetag %s %s", tok(r), tok(tg)))
				raw(fmt.Sprintf("mem gettag %s %s", tok(r), tok(tg)))
			}
		}
		lines = append(lines, snap)
		cases = append(cases, Case{Tag: kind, Lines: lines})
	}
	cases = append(cases, Case{Tag: "ro", Lines: []string{"wrap rofuncs 0", "wrap rofuncs 1"}})
	for _, l := range []string{"wrap init rw", "wrap via frob x", "wrap snap zz", "wrap"} {
		cases = append(cases, Case{Tag: "malformed", Lines: []string{l}})
	}
	return cases
}

// c14wDirected: every mutating method against a populated registry through the
// read-only wrapper; tag / re-tag / delete protocols through the immutable one.
func c14wDirected(rng *RNG) []Case {
	var cases []Case
	u := newMemUniverse(rng, false)
	byName := map[string]memManifest{}
	for _, m := range u.manifests {
		byName[m.name] = m
	}
	var ds []string
	for _, d := range u.digests() {
		ds = append(ds, tok(d))
	}
	snap := "wrap snap " + strings.Join(ds, " ")
	seed := func(kind string) []string {
		lines := []string{"wrap init " + kind}
		for _, b := range u.blobs {
			lines = append(lines, "wrap raw "+strings.TrimPrefix(linePushBlob("a", "application/octet-stream", sha256Digest(b), int64(len(b)), b), "mem "))
		}
		for _, name := range []string{"m1", "m2", "i1"} {
			m := byName[name]
			tag := ""
			if name == "m1" {
				tag = "latest"
			}
			lines = append(lines, "wrap raw "+strings.TrimPrefix(linePushManifest("a", tag, m.data, m.mt), "mem "))
		}
		return append(lines, snap)
	}
	via := func(l string) string { return "wrap via " + strings.TrimPrefix(l, "mem ") }
	m1, op := byName["m1"], byName["opaque"]
	b := u.blobs[2]
	everyMutator := []string{
		via(linePushBlob("a", "application/octet-stream", sha256Digest(b), int64(len(b)), b)),
		via(linePushBlob("new/repo", "application/octet-stream", sha256Digest(b), int64(len(b)), b)),
		via("mem pushchunked " + tok("a")),
		via(fmt.Sprintf("mem resume %s %s 0", tok("a"), tok("myid"))),
		via(fmt.Sprintf("mem mount %s %s %s", tok("a"), tok("b"), tok(sha256Digest(b)))),
		via(linePushManifest("a", "latest", op.data, op.mt)),
		via(linePushManifest("a", "latest", m1.data, m1.mt)),
		via(linePushManifest("a", "v2", m1.data, m1.mt)),
		via(linePushManifest("a", "", op.data, op.mt)),
		via(fmt.Sprintf("mem deleteblob %s %s", tok("a"), tok(sha256Digest(b)))),
		via(fmt.Sprintf("mem deletemanifest %s %s", tok("a"), tok(sha256Digest(m1.data)))),
		via(fmt.Sprintf("mem deletetag %s %s", tok("a"), tok("latest"))),
		via(fmt.Sprintf("mem deletetag %s %s", tok("a"), tok("nosuchtag"))),
		via(fmt.Sprintf("mem deleteblob %s %s", tok("nonexistent"), tok(sha256Digest(b)))),
		via(fmt.Sprintf("mem deleteblob %s %s", tok("BAD"), tok("bogus"))),
	}
	reads := []string{
		via(fmt.Sprintf("mem resolvetag %s %s", tok("a"), tok("latest"))),
		via(fmt.Sprintf("mem gettag %s %s", tok("a"), tok("latest"))),
		via(fmt.Sprintf("mem getblob %s %s", tok("a"), tok(sha256Digest(b)))),
		via(fmt.Sprintf("mem getmanifest %s %s", tok("a"), tok(sha256Digest(m1.data)))),
		via(fmt.Sprintf("mem repositories %s", tok(""))),
		via(fmt.Sprintf("mem tags %s %s", tok("a"), tok(""))),
		via(fmt.Sprintf("mem referrers %s %s", tok("a"), tok(sha256Digest(m1.data)))),
		via(fmt.Sprintf("mem resolvetag %s %s", tok("a"), tok("v2"))),
	}
	for _, kind := range []string{"ro", "imm"} {
		lines := seed(kind)
		lines = append(lines, reads...)
		for _, m := range everyMutator {
			lines = append(lines, m, snap)
		}
		lines = append(lines, reads...)
		cases = append(cases, Case{Tag: kind, Lines: lines})
		// each mutator alone
		for _, m := range everyMutator {
			cases = append(cases, Case{Tag: kind, Lines: append(seed(kind), m, snap, reads[0], reads[1])})
		}
	}
	// immutable: a chunked upload through the wrapper works and then cannot be undone
	lines := seed("imm")
	lines = append(lines,
		via("mem pushchunked "+tok("a")),
		via(fmt.Sprintf("mem wwrite %s %s %s", tok("a"), tok("@0"), tok("new"))),
		via(fmt.Sprintf("mem wcommit %s %s %s", tok("a"), tok("@0"), tok(sha256Digest([]byte("new"))))),
		via(fmt.Sprintf("mem deleteblob %s %s", tok("a"), tok(sha256Digest([]byte("new"))))),
		via(fmt.Sprintf("mem getblob %s %s", tok("a"), tok(sha256Digest([]byte("new"))))),
		via(linePushManifest("a", "t2", op.data, op.mt)),
		via(linePushManifest("a", "t2", m1.data, m1.mt)),
		via(linePushManifest("a", "t2", op.data, "application/other")),
		via(fmt.Sprintf("mem gettag %s %s", tok("a"), tok("t2"))),
		via(fmt.Sprintf("mem deletemanifest %s %s", tok("a"), tok(sha256Digest(op.data)))),
		via(fmt.Sprintf("mem deletetag %s %s", tok("a"), tok("t2"))),
		via(fmt.Sprintf("mem gettag %s %s", tok("a"), tok("t2"))),
		"wrap snap "+strings.Join(append(ds, tok(sha256Digest([]byte("new")))), " "))
	cases = append(cases, Case{Tag: "imm", Lines: lines})
	// immutable: another client creates the same tag right after the wrapper's own push reached the
	// registry (the race the wrapper's final ResolveTag is there for): the loser is told DENIED
	race := func(l string) string { return "wrap race " + strings.TrimPrefix(l, "mem ") }
	for _, same := range []bool{false, true} {
		theirs := op
		if same {
			theirs = m1
		}
		lines = seed("imm")
		lines = append(lines,
			race(linePushManifest("a", "raced", theirs.data, theirs.mt)),
			via(linePushManifest("a", "latest", op.data, op.mt)), // refused before any push: the competitor stays armed
			via(linePushManifest("a", "raced", m1.data, m1.mt)),
			via(fmt.Sprintf("mem resolvetag %s %s", tok("a"), tok("raced"))),
			via(fmt.Sprintf("mem gettag %s %s", tok("a"), tok("raced"))),
			via(linePushManifest("a", "raced", m1.data, m1.mt)),
			via(linePushManifest("a", "raced", op.data, op.mt)),
			snap)
		cases = append(cases, Case{Tag: "imm-race", Lines: lines})
	}
	return cases
}

// ---- oracle ----

type c14wSnap map[string]bool // "repo t tag=digest" | "repo b digest" | "repo m digest"

func parseC14wSnap(s string) (c14wSnap, bool) {
	if !strings.HasPrefix(s, "snap") {
		return nil, false
	}
	sn := c14wSnap{}
	for _, part := range strings.Fields(strings.TrimPrefix(s, "snap")) {
		f := strings.Split(part, ":")
		if len(f) != 4 {
			return nil, false
		}
		sn[f[0]+" repo"] = true
		for i, kind := range []string{"t", "b", "m"} {
			body := f[i+1]
			if len(body) < 3 || body[0] != kind[0] || body[1] != '[' || body[len(body)-1] != ']' {
				return nil, false
			}
			if body = body[2 : len(body)-1]; body != "" {
				for _, x := range strings.Split(body, ",") {
					sn[f[0]+" "+kind+" "+x] = true
				}
			}
		}
	}
	return sn, true
}

func (*c14w) Oracle(c Case, impl []string) []Failure {
	var fs []Failure
	if c.Tag == "malformed" {
		return nil
	}
	kind := "ro"
	var prev c14wSnap // last snapshot with no direct mutation since
	prevAt := -1
	tagSeen := map[string]string{}  // "repo tag" -> digest token
	tagBytes := map[string]string{} // "repo tag" -> data token
	for i, l := range c.Lines {
		if i >= len(impl) {
			break
		}
		t := strings.Split(l, " ")
		got := impl[i]
		fail := func(class, oracle, exp string) {
			fs = append(fs, Failure{Class: class, Oracle: oracle, Index: i, Expected: exp, Observed: got, Detail: "panic value: " + lastPanic})
		}
		if len(t) < 2 {
			continue
		}
		if got == "panic" {
			fail("c14w-panic:"+t[1], "no_panic", "a result")
			continue
		}
		if t[1] == "rofuncs" {
			if got != "rofuncs ok" {
				fail("c14w-ro-over-table", "readonly_mutators_unsupported", "rofuncs ok (mutators refused as unsupported without reaching the wrapped table, reads forwarded)")
			}
			continue
		}
		observe := func(key, dg, data string) {
			if kind != "imm" {
				return
			}
			if old, ok := tagSeen[key]; ok && old != dg {
				fail("c14w-imm-tag-moved", "immutable_tag_stable", "tag still resolving to "+old)
			} else {
				tagSeen[key] = dg
			}
			if data != "" {
				if old, ok := tagBytes[key]; ok && old != data {
					fail("c14w-imm-tag-bytes-changed", "immutable_tag_stable", "the same bytes")
				} else {
					tagBytes[key] = data
				}
			}
		}
		switch t[1] {
		case "init":
			kind = t[2]
			prev, prevAt = nil, -1
			tagSeen, tagBytes = map[string]string{}, map[string]string{}
		case "raw":
			if len(t) > 2 && c14wMutators[t[2]] {
				// a direct mutation: earlier observations no longer bind
				prev, prevAt = nil, -1
				tagSeen, tagBytes = map[string]string{}, map[string]string{}
			}
		case "via":
			if len(t) < 3 {
				continue
			}
			op := t[2]
			if strings.HasSuffix(got, " +raced") {
				// the armed competitor mutated the underlying registry directly during this call,
				// before the wrapper answered: earlier observations no longer bind, the answer does
				got = strings.TrimSuffix(got, " +raced")
				prev, prevAt = nil, -1
				tagSeen, tagBytes = map[string]string{}, map[string]string{}
			}
			if kind == "ro" && c14wMutators[op] && got != "err UNSUPPORTED" {
				fail("c14w-ro-mutator-not-unsupported:"+op, "readonly_mutators_unsupported", "err UNSUPPORTED (errors.Is ErrUnsupported)")
			}
			if kind == "imm" && op == "pushmanifest" && len(t) >= 7 && t[4] != "x" {
				// told that the push of this tag succeeded = told what the tag resolves to
				if f := strings.Fields(got); len(f) == 4 && f[0] == "desc" {
					observe(t[3]+" "+t[4], f[2], t[5])
				}
			}
			if kind == "imm" && strings.HasPrefix(op, "delete") && !strings.HasPrefix(got, "err ") {
				fail("c14w-imm-delete-succeeds:"+op, "immutable_never_deletes", "an error")
			}
		case "snap":
			sn, ok := parseC14wSnap(got)
			if !ok {
				fail("c14w-snap", "snapshot", "a snapshot")
				continue
			}
			if prev != nil {
				for item := range prev {
					if !sn[item] {
						if kind == "ro" {
							fail("c14w-ro-state-changed", "readonly_state_unchanged", fmt.Sprintf("%q still there (snapshot of line %d)", item, prevAt))
						} else if f := strings.Fields(item); len(f) == 3 && f[1] == "t" && sn.hasTag(f[0], f[2]) {
							fail("c14w-imm-tag-moved", "immutable_tag_stable", fmt.Sprintf("%q unchanged (snapshot of line %d)", item, prevAt))
						} else {
							fail("c14w-imm-something-disappeared", "immutable_never_deletes", fmt.Sprintf("%q still there (snapshot of line %d)", item, prevAt))
						}
						break
					}
				}
				if kind == "ro" {
					for item := range sn {
						if !prev[item] {
							fail("c14w-ro-state-changed", "readonly_state_unchanged", fmt.Sprintf("no %q (absent from the snapshot of line %d)", item, prevAt))
							break
						}
					}
				}
			}
			prev, prevAt = sn, i
			for item := range sn {
				if f := strings.Fields(item); len(f) == 3 && f[1] == "t" {
					if k := strings.SplitN(f[2], "=", 2); len(k) == 2 {
						observe(f[0]+" "+k[0], k[1], "")
					}
				}
			}
		}
		// tag observations, through the wrapper or directly
		if (t[1] == "via" || t[1] == "raw") && len(t) == 5 {
			switch t[2] {
			case "resolvetag":
				if f := strings.Fields(got); len(f) == 4 && f[0] == "desc" {
					observe(t[3]+" "+t[4], f[2], "")
				}
			case "gettag":
				if f := strings.Fields(got); len(f) == 5 && f[0] == "read" {
					observe(t[3]+" "+t[4], f[2], f[4])
				}
			}
		}
	}
	return fs
}

// hasTag reports whether the snapshot has tag (given as "tag=digest") under any digest.
func (sn c14wSnap) hasTag(repo, tagEq string) bool {
	name := strings.SplitN(tagEq, "=", 2)[0]
	for item := range sn {
		if strings.HasPrefix(item, repo+" t "+name+"=") {
			return true
		}
	}
	return false
}

func (*c14w) NonTrivial(c Case, impl []string) (bool, string) {
	okReads, errs := 0, 0
	for _, o := range impl {
		if strings.HasPrefix(o, "read ") || strings.HasPrefix(o, "desc ") {
			okReads++
		}
		if strings.HasPrefix(o, "err ") {
			errs++
		}
	}
	b := c.Tag
	if strings.HasPrefix(b, "corpus:") {
		b = "corpus"
	}
	return okReads >= 3 && errs >= 1, b
}
