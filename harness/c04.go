package main

import (
	"context"
	"errors"
	"fmt"
	"io"
	"net/http"
	"net/http/httptest"
	"strconv"
	"strings"
	"sync/atomic"

	"cuelabs.dev/go/oci/ociregistry"
	"cuelabs.dev/go/oci/ociregistry/ociclient"
	"cuelabs.dev/go/oci/ociregistry/ocimem"
	"cuelabs.dev/go/oci/ociregistry/ociserver"
	"cuelabs.dev/go/oci/ociregistry/ociunify"
)

// C04: chunked and resumable uploads commit exactly the bytes written.
//
// Lines (engine "up"); one upload session per case:
//   up init <stack mem|wire1|wire2|unify> <chunk hint> <registry min chunk>
//   up start | up write <data> | up closeresume explicit|ask | up commit <digest> | up size
//   up log                      backend calls seen behind the server since the last log (wire1)
//   up badwrite <offset> <data> resume at a wrong offset on a second handle and write: must be RANGE_INVALID
//   up get <digest>             read back the blob (oracle only)

func init() { engines["C04"] = func() Engine { return &c04{} } }

type c04 struct{}

func (*c04) UsesModel() bool { return true }

// chunkShim sits between the server and ocimem: it reports a small minimum chunk
// size (so that short inputs cross chunk boundaries) and records the calls made.
type chunkShim struct {
	ociregistry.Interface
	min   int
	log   []string
	total int // bytes the registry has taken so far
}

type shimWriter struct {
	ociregistry.BlobWriter
	s *chunkShim
}

func (w *shimWriter) ChunkSize() int { return w.s.min }
func (w *shimWriter) Write(p []byte) (int, error) {
	n, err := w.BlobWriter.Write(p)
	if err == nil {
		w.s.log = append(w.s.log, "write:"+strconv.Itoa(n))
		w.s.total += n
	}
	return n, err
}
func (w *shimWriter) Commit(d ociregistry.Digest) (ociregistry.Descriptor, error) {
	desc, err := w.BlobWriter.Commit(d)
	if err == nil {
		w.s.log = append(w.s.log, "commit")
	}
	return desc, err
}

func (s *chunkShim) PushBlobChunked(ctx context.Context, repo string, chunkSize int) (ociregistry.BlobWriter, error) {
	w, err := s.Interface.PushBlobChunked(ctx, repo, chunkSize)
	if err != nil {
		return nil, err
	}
	return &shimWriter{w, s}, nil
}

func (s *chunkShim) PushBlobChunkedResume(ctx context.Context, repo, id string, offset int64, chunkSize int) (ociregistry.BlobWriter, error) {
	w, err := s.Interface.PushBlobChunkedResume(ctx, repo, id, offset, chunkSize)
	if err != nil {
		return nil, err
	}
	s.log = append(s.log, "resume:"+strconv.FormatInt(offset, 10))
	return &shimWriter{w, s}, nil
}

// writeSplitMerge merges consecutive write:N entries (io.Copy may split a body
// into several Write calls; the model has one write per request).
func mergeWrites(log []string) []string {
	var out []string
	for _, e := range log {
		if strings.HasPrefix(e, "write:") && len(out) > 0 && strings.HasPrefix(out[len(out)-1], "write:") {
			a, _ := strconv.Atoi(out[len(out)-1][6:])
			b, _ := strconv.Atoi(e[6:])
			out[len(out)-1] = "write:" + strconv.Itoa(a+b)
			continue
		}
		out = append(out, e)
	}
	return out
}

// throttleNth answers the n-th PATCH or PUT request (counting from 1) with 429 before the registry
// has looked at it, once.
func throttleNth(n int, armed *atomic.Bool, h http.Handler) http.Handler {
	var seen int32
	return http.HandlerFunc(func(w http.ResponseWriter, req *http.Request) {
		// only requests made on behalf of a Write or a Commit (calls a caller can simply repeat) count
		if armed.Load() && (req.Method == "PATCH" || req.Method == "PUT") && atomic.AddInt32(&seen, 1) == int32(n) {
			ociregistry.WriteError(w, ociregistry.ErrTooManyRequests)
			return
		}
		h.ServeHTTP(w, req)
	})
}

type upSession struct {
	recovered bool
	written   []byte // what the successful Writes of the session have accepted, in order
	armed   atomic.Bool
	flakyAt int
	stack  string
	hint   int
	reg    ociregistry.Interface
	shim   *chunkShim
	closer func()
	w      ociregistry.BlobWriter
	repo   string
}

func (u *upSession) close() {
	if u.closer != nil {
		u.closer()
		u.closer = nil
	}
}

func (*c04) Impl(c Case) []string {
	out := make([]string, len(c.Lines))
	u := &upSession{repo: "up/load"}
	defer u.close()
	ctx := context.Background()
	for i, l := range c.Lines {
		out[i] = guard(func() string {
			t := strings.Split(l, " ")
			if len(t) < 2 || t[0] != "up" {
				return "bad-op"
			}
			switch t[1] {
			case "flaky":
				u.flakyAt, _ = strconv.Atoi(t[2])
				return "ok"
			case "init":
				u.close()
				u.stack = t[2]
				u.hint, _ = strconv.Atoi(t[3])
				min, _ := strconv.Atoi(t[4])
				u.shim = nil
				switch u.stack {
				case "mem":
					u.reg = ocimem.New()
				case "wire1", "wire2":
					u.shim = &chunkShim{Interface: ocimem.New(), min: min}
					hops := 1
					if u.stack == "wire2" {
						hops = 2
					}
					if u.flakyAt > 0 && hops == 1 {
						srv := httptest.NewServer(throttleNth(u.flakyAt, &u.armed, ociserver.New(u.shim, nil)))
						cl, err := ociclient.New(strings.TrimPrefix(srv.URL, "http://"), &ociclient.Options{Insecure: true})
						if err != nil {
							srv.Close()
							return "bad-op"
						}
						u.reg, u.closer = cl, srv.Close
						return "ok"
					}
					ch := newChain(u.shim, hops, nil, &ociclient.Options{})
					u.reg, u.closer = ch.regs[len(ch.regs)-1], ch.Close
				case "unify":
					u.reg = ociunify.New(ocimem.New(), ocimem.New(), nil)
				default:
					return "bad-op"
				}
				return "ok"
			case "start":
				u.written = nil
				w, err := u.reg.PushBlobChunked(ctx, u.repo, u.hint)
				if err != nil {
					return "err " + errClass(err)
				}
				u.w = w
				if u.stack == "wire2" || u.stack == "unify" {
					return "skip-model" // chunk size of a composite stack is not modelled
				}
				return "ok " + strconv.Itoa(w.ChunkSize())
			case "write":
				data, _ := untok(t[2])
				p := []byte(data)
				u.armed.Store(true)
				defer u.armed.Store(false)
				n, err := u.w.Write(p)
				if err != nil && n == 0 && u.flakyAt > 0 && errors.Is(err, ociregistry.ErrTooManyRequests) {
					n, err = u.w.Write(p) // turned down before the registry took anything: the caller tries again
				}
				if err == nil {
					u.written = append(u.written, data...)
				}
				scribble(p) // io.Writer: the chunk belongs to the caller again once Write returns
				if err != nil {
					return "err " + errClass(err)
				}
				return "n " + strconv.Itoa(n)
			case "closeresume":
				// in flaky mode the request Close makes may be the one that is turned down (unless the
				// registry holds exactly one byte: asking it for the offset is then ambiguous, which the
				// property excludes). The caller closes again; told that all is well it carries on, told
				// again that it is not it asks the registry where the upload stands and writes the rest anew.
				closeArmed := u.flakyAt > 0 && u.shim != nil && u.shim.total != 1
				if closeArmed {
					u.armed.Store(true)
				}
				err := u.w.Close()
				u.armed.Store(false)
				if err != nil && closeArmed && errors.Is(err, ociregistry.ErrTooManyRequests) {
					if err2 := u.w.Close(); err2 != nil {
						w, e := u.reg.PushBlobChunkedResume(ctx, u.repo, u.w.ID(), -1, u.w.ChunkSize())
						if e != nil {
							return "err " + errClass(e)
						}
						if at := int(w.Size()); at <= len(u.written) {
							if _, e := w.Write(append([]byte{}, u.written[at:]...)); e != nil {
								return "err " + errClass(e)
							}
						}
						u.w = w
						u.recovered = true
						err = u.w.Close()
					} else {
						err = nil
					}
				}
				if err != nil {
					return "err " + errClass(err)
				}
				off := u.w.Size()
				if t[2] == "ask" {
					off = -1
				}
				// as documented: offset and chunk size come from the previous writer
				w, err := u.reg.PushBlobChunkedResume(ctx, u.repo, u.w.ID(), off, u.w.ChunkSize())
				if err != nil {
					return "err " + errClass(err)
				}
				u.w = w
				return "ok " + strconv.FormatInt(w.Size(), 10)
			case "commit":
				dg, _ := untok(t[2])
				u.armed.Store(true)
				defer u.armed.Store(false)
				d, err := u.w.Commit(ociregistry.Digest(dg))
				if err != nil && u.flakyAt > 0 && errors.Is(err, ociregistry.ErrTooManyRequests) {
					d, err = u.w.Commit(ociregistry.Digest(dg))
				}
				return descResult(d, err)
			case "log":
				if u.shim == nil || u.stack != "wire1" {
					return "skip-model"
				}
				if u.recovered {
					// the caller asked the registry where the upload stood after a Close that kept failing:
					// one more call behind the server than the fault-free model makes
					u.shim.log = nil
					u.recovered = false
					return "skip-model"
				}
				lg := mergeWrites(u.shim.log)
				u.shim.log = nil
				return "log " + strings.Join(lg, " ")
			case "badwrite":
				off, _ := strconv.ParseInt(t[2], 10, 64)
				data, _ := untok(t[3])
				// what the registry says the upload holds, asked before and after: a refused write "does not alter the upload"
				// (through a unifier: in neither member - seed C04-12 - where asking fails once the members disagree)
				probe := func() string {
					if u.shim != nil { // the probe's own backend calls are not part of the script's log
						n := len(u.shim.log)
						defer func() { u.shim.log = u.shim.log[:n] }()
					}
					pw, err := u.reg.PushBlobChunkedResume(ctx, u.repo, u.w.ID(), -1, u.w.ChunkSize())
					if err != nil {
						return "probe-failed:" + errClass(err)
					}
					defer pw.Close()
					return strconv.FormatInt(pw.Size(), 10)
				}
				before := probe()
				w, err := u.reg.PushBlobChunkedResume(ctx, u.repo, u.w.ID(), off, u.w.ChunkSize())
				if err != nil {
					return "err " + errClass(err)
				}
				if _, err := w.Write([]byte(data)); err != nil {
					// a caller that simply tries again gets the same refusal: being refused once is not a licence
					if _, err2 := w.Write([]byte(data)); err2 == nil {
						return "err " + errClass(err) + " but accepted when repeated"
					}
					if after := probe(); after != before {
						return "err " + errClass(err) + " but the upload changed: " + before + " -> " + after
					}
					return "err " + errClass(err)
				}
				if err := w.Close(); err != nil {
					return "err " + errClass(err)
				}
				return "ok"
			case "badcommit":
				off, _ := strconv.ParseInt(t[2], 10, 64)
				data, _ := untok(t[3])
				dg, _ := untok(t[4])
				w, err := u.reg.PushBlobChunkedResume(ctx, u.repo, u.w.ID(), off, u.w.ChunkSize())
				if err != nil {
					return "err " + errClass(err)
				}
				if _, err := w.Write([]byte(data)); err != nil {
					return "err " + errClass(err)
				}
				return descResult(w.Commit(ociregistry.Digest(dg)))
			case "get":
				dg, _ := untok(t[2])
				return readResult(u.reg.GetBlob(ctx, u.repo, ociregistry.Digest(dg)))
			}
			return "bad-op"
		})
		if out[i] == "skip-model" {
			out[i] = "skip"
		}
	}
	return out
}

// ---- generation ----

func partitions(rng *RNG, content []byte, max int) [][]byte {
	var parts [][]byte
	for len(content) > 0 {
		n := 1 + rng.Intn(max)
		if rng.Chance(1, 8) {
			n = 0
		}
		if n > len(content) {
			n = len(content)
		}
		parts = append(parts, content[:n])
		content = content[n:]
	}
	return parts
}

func (*c04) Gen(rng *RNG, tier string) []Case {
	var cases []Case
	n := 500
	if tier == "thorough" {
		n = 8000
	}
	for i := 0; i < n; i++ {
		stack := pick(rng, []string{"mem", "wire1", "wire1", "wire1", "wire2", "unify"})
		min := pick(rng, []int{1, 2, 3, 4, 5, 8})
		hint := pick(rng, []int{-1, 0, 1, 2, 3, 4, 7, 100})
		if tier == "thorough" && rng.Chance(1, 10) {
			min = 8192 // the real in-memory minimum
		}
		maxLen := 3*min + 2
		if min == 8192 {
			maxLen = 3*8192 + 1
		}
		length := rng.Intn(maxLen + 1)
		if i < 12 {
			length = i // every small length, including 0 and 1
		}
		content := rng.Bytes(length)
		lines := []string{fmt.Sprintf("up init %s %d %d", stack, hint, min), "up start"}
		flaky := stack == "wire1" && rng.Chance(1, 4)
		if flaky {
			// one PATCH/PUT is turned down with 429 before the registry sees it; the caller retries that call
			lines = append([]string{fmt.Sprintf("up flaky %d", 1+rng.Intn(4))}, lines...)
		}
		received := 0
		excluded := false
		for _, p := range partitions(rng, content, min+2) {
			lines = append(lines, "up write "+tok(string(p)))
			received += len(p)
			if rng.Chance(1, 4) {
				mode := pick(rng, []string{"explicit", "ask"})
				if mode == "ask" && received == 1 {
					// excluded by the property: the status Range header cannot tell 0 bytes from 1
					if rng.Chance(2, 3) || (stack != "wire1" && stack != "mem") {
						mode = "explicit"
					} else if stack == "wire1" {
						excluded = true
					}
				}
				lines = append(lines, "up closeresume "+mode)
				if rng.Chance(1, 3) {
					lines = append(lines, "up log")
				}
			}
		}
		if rng.Chance(1, 5) && !excluded && !flaky && (stack == "mem" || stack == "wire1") {
			// data at a wrong offset must be refused and must not alter the upload
			badOff := received + 1 + rng.Intn(3)
			if received > 0 && rng.Chance(1, 3) {
				badOff = rng.Intn(received) // an offset BELOW what the registry holds (a retried chunk): refused just the same
			}
			lines = append(lines, "up closeresume explicit", fmt.Sprintf("up badwrite %d %s", badOff, tok(pick(rng, []string{"zz", "z", "zzzzzzzzz"}))), "up log")
			if rng.Bool() {
				// the same through the final PUT: data at a wrong offset together with the commit
				lines = append(lines, fmt.Sprintf("up badcommit %d %s %s", received+1+rng.Intn(3), tok("zz"), tok(sha256Digest(append(append([]byte{}, content[:received]...), 'z', 'z')))), "up log")
			}
		}
		if rng.Chance(1, 4) && !excluded && !flaky && received != 1 && (stack == "mem" || stack == "wire1") {
			// a refused write at a wrong offset must not disturb a later resume "where it left off"
			tail := []byte("tail")
			lines = append(lines, "up closeresume explicit", fmt.Sprintf("up badwrite %d %s", received+2, tok("zz")), "up closeresume ask", "up write "+tok(string(tail)), "up log")
			content = append(content, tail...)
		}
		good := sha256Digest(content)
		committedGood := true
		if rng.Chance(1, 6) {
			committedGood = false
			lines = append(lines, "up commit "+tok(sha256Digest(append([]byte("wrong"), content...))), "up get "+tok(good))
		} else {
			lines = append(lines, "up commit "+tok(good), "up log", "up get "+tok(good))
		}
		if rng.Chance(1, 5) && !excluded && committedGood && stack == "mem" {
			// the session stays open after a commit: more bytes, then a second commit, which is judged on
			// what the upload holds then (a wrong digest is refused, the right one stores the longer blob)
			more := []byte("-more")
			lines = append(lines, "up closeresume explicit", "up write "+tok(string(more)))
			longer := append(append([]byte{}, content...), more...)
			if rng.Bool() {
				lines = append(lines, "up commit "+tok(sha256Digest(longer)), "up get "+tok(sha256Digest(longer)))
			} else {
				lines = append(lines, "up commit "+tok(sha256Digest(content)), "up get "+tok(sha256Digest(longer)))
			}
		}
		tag := "valid"
		if excluded {
			tag = "excluded"
		}
		cases = append(cases, Case{Tag: tag, Lines: lines})
	}
	return cases
}

// ---- oracle ----

func (*c04) Oracle(c Case, impl []string) []Failure {
	var fs []Failure
	if c.Tag == "excluded" {
		return nil // outside the property's quantifier (resume by asking after exactly one byte)
	}
	var written []byte
	for i, l := range c.Lines {
		if i >= len(impl) {
			break
		}
		t := strings.Split(l, " ")
		got := impl[i]
		fail := func(class, oracle, exp string) {
			fs = append(fs, Failure{Class: class, Oracle: oracle, Index: i, Expected: exp, Observed: got})
		}
		if got == "panic" {
			fail("up-panic:"+t[1], "no_panic", "a result")
			continue
		}
		oneByte := len(written) == 1
		switch t[1] {
		case "start", "closeresume":
			if strings.HasPrefix(got, "err") {
				cl := "up-" + t[1] + "-failed"
				if oneByte {
					cl += ":one-byte"
				}
				fail(cl, "chunked_commit_exact", "ok")
			}
		case "write":
			data, _ := untok(t[2])
			if got != "n "+strconv.Itoa(len(data)) {
				cl := "up-write-failed"
				if oneByte || len(written)+len(data) == 1 {
					cl += ":one-byte"
				}
				fail(cl, "chunked_commit_exact", "n "+strconv.Itoa(len(data)))
			} else {
				written = append(written, data...)
			}
		case "badwrite":
			if strings.Contains(got, "but the upload changed") {
				fail("up-refused-write-altered-upload", "wrong_offset_refused", "err RANGE_INVALID and an upload that holds what it held")
			} else if got != "err RANGE_INVALID" {
				fail("up-wrong-offset-accepted", "wrong_offset_refused", "err RANGE_INVALID")
			}
		case "badcommit":
			if got != "err RANGE_INVALID" {
				cl := "up-wrong-offset-commit"
				if strings.HasPrefix(got, "err ") {
					cl = "up-wrong-offset-commit-code"
				}
				fail(cl, "wrong_offset_refused", "err RANGE_INVALID (HTTP 416)")
			}
		case "commit":
			dg, _ := untok(t[2])
			if dg == sha256Digest(written) {
				ok, _, rdg, rsz := parseDescOut(got)
				if !ok || rdg != dg || rsz != int64(len(written)) {
					cl := "up-commit-failed"
					if len(written) == 1 {
						cl += ":one-byte"
					}
					fail(cl, "chunked_commit_exact", "desc with the digest and size of the written bytes")
				}
			} else if !strings.HasPrefix(got, "err") {
				fail("up-wrong-digest-accepted", "wrong_digest_stores_nothing", "err")
			}
		case "get":
			dg, _ := untok(t[2])
			// committed iff the preceding commit line succeeded
			committed := i > 0 && strings.HasPrefix(impl[i-1], "desc ") || (i > 1 && strings.HasPrefix(impl[i-2], "desc "))
			ok, _, _, _, data := parseRead(got)
			if committed {
				if !ok || data != string(written) || sha256Digest([]byte(data)) != dg {
					fail("up-content-differs", "chunked_commit_exact", "exactly the concatenation of the written bytes")
				}
			} else if ok {
				fail("up-wrong-digest-stored", "wrong_digest_stores_nothing", "err (nothing stored)")
			}
		}
	}
	return fs
}

func (*c04) NonTrivial(c Case, impl []string) (bool, string) {
	t := strings.Split(c.Lines[0], " ")
	resumes := 0
	for _, l := range c.Lines {
		if strings.HasPrefix(l, "up closeresume") {
			resumes++
		}
	}
	b := t[2]
	if resumes > 0 {
		b += "+resume"
	}
	return len(c.Lines) > 4, b
}

var _ = io.EOF
