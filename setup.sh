#!/bin/bash
# Builds the framework from files on disk only (offline).
set -e
cd "$(dirname "$0")"
export GOFLAGS=-mod=mod GOPROXY=off GOSUMDB=off GOTOOLCHAIN=local GOWORK=off CGO_ENABLED=0
REPO=${VERIF_REPO:-/repo}
mkdir -p .build evidence replays
(cd translator && go build -o ../.build/translator .)
./.build/translator -repo "$REPO" -out lean/OciModel/Generated || true
(cd lean && lake build OciModel ocimodel) || echo "setup: lake build reported errors (each check reports its own obligations)"
sed "s#@REPO@#$REPO#" harness/go.mod.tmpl > harness/go.mod
cp "$REPO/ociregistry/go.sum" harness/go.sum
(cd harness && go build -tags verif -o ../.build/harness.setup .)
echo "setup done"
