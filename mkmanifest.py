#!/usr/bin/env python3
"""Writes MANIFEST.json from the per-property table below (kept in one place so the manifest stays valid)."""
import json, os
HERE = os.path.dirname(os.path.abspath(__file__))
ALL = ["C%02d" % i for i in range(1, 21)]

CLAIMED = {
 "C20": dict(
   text="Lean 4 theorems over the table regenerated from func.go on every run: for every row satisfying a decidable well-formedness predicate and every configuration (nil receiver, any subset of set fields, with/without NewError) the call delegates when set, refuses cleanly when unset, is independent of other fields and never panics; `decide` checks the regenerated table against the predicate and the Interface method set. Reflection-driven correspondence runs the real *Funcs on thousands of configurations and diffs with the model driver.",
   note="Trusted: Lean kernel; translator's extraction of the two-statement method shape (anything else is emitted as shapeKnown := false and fails the obligation); reflection harness. Function values are opaque: 'same arguments and results' is checked by the harness with distinguishable sentinels.",
   technique="Lean 4 proof over translator-regenerated method table (decide) + reflection differential",
   design="§5 C20"),
}
CLAIMED["C07"] = dict(
   text="Lean 4 theorems over an inductive model of Go error values (WireError, WireErrors, httpError, %w wrappers) with errors.Is/As as pre-order traversals: one server-to-client hop (MarshalError then makeError) is idempotent after the first hop for every error, every message text and arbitrary status/code prefix functions (hence the message is a fixed point and nothing stutters); status = table[code] else the error's own else 500; detail preserved; errors.Is against every standard value except ErrRangeInvalid is invariant for the wrapped-error shapes the property quantifies over; exact characterisation for ErrRangeInvalid (F10) and HEAD carriers (F11) with counterexample theorems. The errorStatuses table is regenerated from error.go on every run and compared with the specification's assignment by `decide`. Correspondence: generated error values sent through a real three-hop client/server chain over every carrier method, diffed with the model, plus direct oracles with an independent status table.",
   note="Trusted: Lean kernel; translator extraction of errorStatuses/Err*/httpError.Is; http.StatusText, unicode.ToLower and encoding/json (string escaping, compaction assumed idempotent) are parameters of the model; net/http framing. Known findings F10, F11 are reported as KNOWN-FINDING lines.",
   technique="Lean 4 proof (idempotence of the error hop, Is-invariance) + regenerated status table (decide) + differential over a real 3-hop chain",
   design="§5 C07")
CLAIMED["C17"] = dict(
   text="Lean 4 theorems about hand-written recognisers of the three reference regular expressions, checkTag and go-digest, and about ParseRelative modelled as the deterministic split that leftmost-first matching computes: parse_print (what parses prints back to the input), parse_parts_valid (each part satisfies its predicate and length limit), print_parse (valid parts with a non-empty host parse back to the same parts), with the host-less counterexample proved; predicates are total functions defined on the empty string. Correspondence: grammar-directed and fuzz strings compared on ParseRelative, Parse, String and the four predicates (and the deprecated aliases) between the real ociref package and the model, plus direct oracles.",
   note="Trusted: Lean kernel; equality of the recognisers with Go's regexp matching is validated by the correspondence, not proved; go-digest's algorithm registry. Agreement with the HTTP router is checked under C06/C03 (same predicates are called there).",
   technique="Lean 4 proof (parse/print round trips over recognisers) + grammar-directed differential against ociref",
   design="§5 C17")
CLAIMED["C09"] = dict(
   text="Lean 4 theorems about an executable model of ociauth.Scope (sorted repository entries with pull/push masks, catalog sentinel, sorted others): NewScope/ParseScope/Union establish the representation invariant WF; membership of the iterated items is the naive set (mem_newScope, mem_union); Iter is strictly ascending; Holds ⇔ membership; Contains ⇔ subset; Equal ⇔ same set; Len = cardinality; a union that adds nothing returns the receiver value including its original text; unlimited absorbs; repository scopes never confer the catalog scope or the reverse; print-then-parse yields an equal scope for clean fields. All for arbitrary byte-string field values, no size bound. Correspondence: all pairs of subsets of a 7-scope universe (thorough: exhaustive) plus random large universes and scope strings with Unicode white space, run on the exported API and diffed with the model; naive-set oracles in Go.",
   note="Trusted: Lean kernel; binary searches are modelled by linear searches on sorted lists; strings.Fields is modelled by byte patterns of the Unicode white-space runes; the print/parse theorem is for fields free of ASCII white space, ':' ',' and the lead bytes 0xC2/0xE1/0xE2/0xE3 (a subset of the property's clean fields).",
   technique="Lean 4 proof (set-algebra refinement of the scope representation) + exhaustive small-universe differential",
   design="§5 C09")
CLAIMED["C01"] = dict(
   text="Lean 4 theorems over the executable state-machine model of ocimem (any hash H, no collision assumption): the digest invariant (every stored blob/manifest hashes to its key) holds in every reachable state; a successful read returns exactly the stored bytes with desc.digest = requested digest and desc.size = length; a range read returns exactly the slice while describing the whole blob; a push whose digest or size disagrees is refused with the state unchanged; a commit with a wrong digest stores nothing; frame theorems give 'the bytes served are the last bytes accepted under that digest' step by step. Correspondence: generated histories on the real ocimem diffed line by line with the model (Lean-side SHA-256 checked against crypto/sha256 on every content) plus a Go reference tracker. Wire stacks and wrappers inherit integrity through C03/C04 (differential against direct ocimem).",
   note="Trusted: Lean kernel; the JSON decoder and the hash are parameters; HTTP-level corruption detection (client blobReader) is exercised by C18's fault stream rather than modelled here; slice aliasing in ocimem (Commit stores b.buf itself) is invisible in an immutable model and is covered only by the differential runs.",
   technique="Lean 4 proof (inductive digest invariant + frame theorems over the ocimem state machine) + differential histories",
   design="§5 C01")
CLAIMED["C02"] = dict(
   text="Lean 4 theorems over the ocimem state-machine model: key-uniqueness invariant; listings are exactly the keys strictly after the start point, each once, strictly ascending; referrers are exactly the stored manifests whose subject is the digest, sorted; a tag resolves to the last manifest pushed under it; a manifest is accepted only if it decodes, every referenced blob/manifest is present (a subject may dangle) and descriptors are sane; the error-code table (NAME_UNKNOWN / BLOB_UNKNOWN / MANIFEST_UNKNOWN / NAME_INVALID / RANGE_INVALID / DIGEST_INVALID / SIZE_INVALID). Correspondence: random histories over all 18 methods + BlobWriter methods in both configurations, small and large universes, diffed with the model; a reference tracker in Go states the property's clauses directly (found until deleted, tag resolves last push, referrers exact, listing complete/sorted, accepted-only-if-present).",
   note="Trusted: Lean kernel; json.Unmarshal into the ocispec types is a parameter (performed by the harness, handed to the model as the decoded reference list); repositories without content may answer NAME_UNKNOWN or empty, as the property allows.",
   technique="Lean 4 proof (invariants and characterisation theorems over the ocimem state machine) + differential histories with a reference tracker",
   design="§5 C02")
CLAIMED["C03"] = dict(
   text="Lean 4 theorems about the request codec shared by client and server: construct_parse (for all 17 request kinds and every valid repository/tag/digest, including names containing the routing words, the server classifies exactly the request the client constructed), parse_sound, exact method tables, base64url round trip proved for the concrete codec. Correspondence: generated histories of Interface calls run on ocimem directly (diffed with the Lean Mem model) and through client/server stacks (1-2 hops, four server option bits, with/without ocidebug, several client page sizes, manifests on both sides of the 128 KiB threshold), the two traces compared under the property's equivalence (outcome, OCI code — status class for HEAD —, digest, size, media type, bytes).",
   note="Trusted: Lean kernel; net/http, net/url escaping and encoding/json; the transparency of the whole stack is established by differential execution, the proved part is the routing/codec core. Known finding F3 (empty ranges cannot be expressed over HTTP) is reported as KNOWN-FINDING.",
   technique="Lean 4 proof (construct/parse round trip of the request codec) + differential traces direct vs. HTTP stack",
   design="§5 C03")
CLAIMED["C06"] = dict(
   text="Lean 4 theorems: the request classifier is total and sound (every name handed to a handler is a syntactically valid repository/tag/digest — server_args_valid), exact method tables per path family, the Content-Range codec (which ranges survive, how Content-Length disambiguates 0-0), error status = table[code] else own else 500. Correspondence: grammar-directed and unstructured raw requests (methods, paths with empty segments/reserved words/over-long names, queries, Range/Content-Range/Content-Length/Content-Type values, bodies) served in-process by ociserver over a validating/recording backend, a failing backend and ocimem; the classifier is diffed with the model through the ociverif hook; oracles: no panic, JSON error shape and status/code agreement, mandated success headers, only valid names reach the backend, every reader/writer obtained is closed.",
   note="Trusted: Lean kernel; net/http request parsing and response framing (requests net/http itself rejects never reach the handler and are skipped); handler bodies beyond the classifier are validated by the recording backend, not modelled.",
   technique="Lean 4 proof (classifier soundness, range codec) + raw-request differential and oracles against ociserver",
   design="§5 C06")
CLAIMED["C14"] = dict(
   text="Lean 4 theorems over the ocimem model in immutable-tags mode, for every history and any hash: a tag keeps its descriptor forever; the tagged manifest keeps its bytes and media type (under no-second-preimage for the bytes); refersTo with its fuel bound is exactly reachability from the tags in every state; deleting anything reachable from a tag is refused and — for all histories — everything once reachable stays stored and reachable; re-storing tagged content under another media type is refused (F19, found by this proof attempt). Correspondence: random and directed immutable-tags histories (tag chains through images, nested indexes, wrong-media-type index entries, re-typing) diffed with the model, with a monotone 'once protected, always retrievable' oracle. The read-only and immutable wrappers are checked by the C14W engine (see DESIGN).",
   note="Trusted: Lean kernel; history theorems assume the manifest decoder is a function of (bytes, media type) and no hash collision among pushed manifest bytes (explicit hypotheses); concurrency of the mode rests on C08's single-critical-section fact.",
   technique="Lean 4 proof (tag stability and reachability retention for all histories) + directed/random differential histories",
   design="§5 C14")
CLAIMED["C04"] = dict(
   text="Lean 4 theorem chunked_commit_exact over a model composing the client blobWriter (chunk/size/flushed/chunkSize, flush labelled with RangeString), the server's chunkRange/ParseRange and the in-memory buffer's offset check: for every content, every partition into writes, every chunk size (including 0 and 1) and every admissible pattern of close-and-resume in either mode (asking is excluded exactly when one byte has been received — shown necessary by a counterexample theorem), the run succeeds and committing with the right digest leaves exactly the concatenation of the written bytes; data at a wrong offset is refused (rangeInvalid), a wrong digest is refused and nothing is stored; every resume offset equals the bytes received so far. Correspondence: generated upload scripts over ocimem, one and two HTTP hops and ociunify, with a recording shim that makes the registry minimum chunk size small and logs the backend calls, diffed with the model's predicted call log.",
   note="Trusted: Lean kernel; net/http request framing (Content-Length enforcement); io.Copy's write splitting (merged before comparison); two-hop and unify stacks are checked against the abstract claim (all writes accepted, commit exact) rather than a composed model.",
   technique="Lean 4 proof (inductive invariant over upload scripts, range-codec exactness) + differential upload scripts with backend call logs",
   design="§5 C04")
CLAIMED["C05"] = dict(
   text="Lean 4 theorems: pager_lossless (for every strictly ascending listing, every page size >= 1 and every start point, the client pager over the real server truncation logic yields exactly the items strictly after the start — including exact page multiples), the script view of the pager (terminates with finite answers, never calls the consumer after it declines or after an error, yields a prefix), Mem listings are exactly the sorted keys after the start (C02), Select/Sub/Unify listing combinators (C12 listing_filtered, C13 sub_listing, C15 merge). Correspondence: generated item sets around multiples of the page size, start points (absent/equal/between/beyond/URL metacharacters), page sizes, server limits, Link on/off, 1-2 hops and 19 wrapper stacks (wire, debug, select, sub, unify and combinations), consumers stopping at every k, compared with the listing specification computed independently in Go and by the model driver.",
   note="Trusted: Lean kernel; net/url escaping of the `last` parameter and Link URL resolution; the composition of combinators across a whole stack is established by differential runs, the per-combinator statements are theorems.",
   technique="Lean 4 proof (pager losslessness by strong induction, combinator lemmas) + differential listings over wrapper/wire stacks",
   design="§5 C05")
CLAIMED["C12"] = dict(
   text="Lean 4 theorems over the guard table regenerated from select.go on every run: for every method row satisfying a decidable predicate and every policy (arbitrary function of name and access kind) and backend: a failing guard returns the policy's error with no backend call (mount guards both repositories); when all guards pass there is exactly one backend call with the same method and arguments and the result is returned unchanged; the Repositories iterator delivers exactly the allowed items in order, stops when the consumer declines and forwards a backend error last; Select's error kinds. `decide` checks the regenerated table (18 methods, expected access kinds). Correspondence: all 18 methods x every allow/deny assignment x kinds against a recording backend (exhaustive), random policies, listings with consumers stopping at every k.",
   note="Trusted: Lean kernel; translator's extraction of guards/delegations from select.go (unknown shapes fail the obligation); the literal repository name '*' is carved out (never a valid name).",
   technique="Lean 4 proof over translator-regenerated guard table (decide) + exhaustive policy enumeration against a recording backend",
   design="§5 C12")
CLAIMED["C13"] = dict(
   text="Lean 4 theorems: sub_confined (for every prefix and EVERY byte-string name the mapped name starts with prefix/), injectivity and strip/map laws, order lemma; over the table regenerated from sub.go: every repository argument and the listing start of every method is mapped and nothing else, every method rewrites scopes; the view's listing from any start point is exactly the stripped names under the prefix, ascending; repository-typed scopes are rewritten with the same map, others untouched, unlimited/empty passed through (reusing the proved scope algebra). Counterexample theorem for the old path.Join mapping. Correspondence: recording backend + ocimem with textual-prefix siblings, prefixes of 1-3 elements, dirty names (empty, dot, dot-dot, slashes, upper case), all start points, all 18 methods, context scopes incl. unlimited, diffed against the restricted Mem model.",
   note="Trusted: Lean kernel; translator's recognition of sub.go's shapes (mapScopes and repo() by normalised text: any edit fails an obligation).",
   technique="Lean 4 proof (confinement for all names, listing/scope rewriting over regenerated table) + differential against the restricted model",
   design="§5 C13")
CLAIMED["C19"] = dict(
   text="Lean 4 theorems over a model of decodeConfigFile's loop (which mutates the map it ranges over, modelled as any admissible visiting sequence), EntryForRegistry, decodeAuth and base64: decode_order_independent (any two visiting orders give equivalent lookups on every host), load_fails_iff, explicit_wins, collision_fails, single_url_key, absent_host, lookup_precedence (per-host helper final; default store final unless missing; else table), lookups_independent, decodeAuth_roundtrip with Base64 decode_encode proved; structural facts of authfile.go regenerated and checked by `decide`. Correspondence: generated config documents (host keys, URL keys, collisions, auth edge cases, helpers) loaded 32 times each through the public API with shuffled key orders and lookup orders, real docker-credential-* helper scripts, diffed with the model; independence and precedence oracles.",
   note="Trusted: Lean kernel; encoding/json (the harness parses with a mirror struct tied to the source by a generated fact); Go's map-iteration guarantee; os/exec.",
   technique="Lean 4 proof (permutation invariance via a characterising invariant; base64 round trip) + repeated-decoding differential",
   design="§5 C19")
CLAIMED["C08"] = dict(
   text="PARTIAL. Lean 4: obligations by `decide` on the lock discipline regenerated from ocimem/*.go on every run (every exported *Registry method is one critical section of the registry mutex — GetTag included; lockset: any two accesses to a mutable upload-buffer field, one a write, share a mutex), so that every call is one atomic step of the sequential model and the order of the atomic steps is a linearization; for the one two-section operation (Buffer.Commit) an interleaving model with snapshot semantics proves that the digest invariant survives every schedule (committed blob matches its digest) — proofs in Props/C08.lean. Runtime support (not proof): a harness built with the Go race detector stresses 2-16 goroutines over a small key space directly and through ociserver, a tag-swap scenario (a tag always pointing at an existing manifest is never reported missing), concurrent writers on one upload session, and a Wing-Gong linearizability search of recorded small histories against the Lean sequential model.",
   note="Partial by nature: the theorems are about interleavings of the atomic steps the extractor sees; that a Go execution is such an interleaving rests on sync.Mutex and on the extractor having seen every shared access. Freedom from data races in the Go memory model is a runtime fact supported by the race detector run, which also supplies the replay when the lockset obligation fails. Detection of reintroduced atomicity bugs by stress is probabilistic.",
   technique="Lean 4 proof over regenerated lock facts (decide) and an atomic-step interleaving model + race-detector stress and linearizability search",
   design="§5 C08")
CLAIMED["C18"] = dict(
   text="Lean 4 theorems about the client's paging loop against an ARBITRARY finite script of server answers: never reaches the Go panic site for any configured page size (a non-positive size is defaulted: F4), consumes one answer per request so it terminates with finite answers, every request that is followed by another delivered at least one item (progress), never calls the consumer after it declined or after an error. Correspondence: the pager diffed with the real client behind a scripted transport; every client operation (18 entry points incl. chunked writer, both resume modes, large-manifest tag read) against generated responses from {status classes} x {Location, Range, Content-Range, Content-Length, Docker-Content-Digest, Link, Content-Type, OCI-Chunk-Min-Length absent/empty/malformed/contradictory} x {body variants}, sequences of 1-4 responses; oracle: a result or an error, never a panic, never a hang.",
   note="Trusted: Lean kernel; only the pager is modelled, the other operations are covered by fault-sequence enumeration against the real client (no model): their totality is observed, not proved. net/http parses status lines and Content-Length before the client sees them.",
   technique="Lean 4 proof (pager totality/progress by structural recursion on the answer script) + scripted-transport fault enumeration",
   design="§5 C18")
CLAIMED["C15"] = dict(
   text="Lean 4 theorems over a transcription of ociunify's combinators and a table regenerated from its five files: read_union (a digest-addressed read succeeds iff a member succeeds, and returns a member's answer, under both policies and both answer orders), tag_rule (agree or only one ⇒ that answer; differ ⇒ error), merge_sorted_union (strictly ascending, duplicate-free union; NAME_UNKNOWN from one member ignored, other errors delivered after the items; consumer protocol), success only if both members succeeded, composite upload-ID split/join, members_stay_equal over any deterministic machine and its Mem instance for issued IDs; `decide` obligations that every Writer/Deleter/BlobWriter mutator goes to both members with its own arguments, reads use first-success, tag reads the tag rule, listers the merge. Correspondence: two ocimem members in every relation (equal, disjoint, overlapping, conflicting tags, one-sided) x all read/list calls x both policies, write histories over equal members with snapshots, chunked uploads with resume, mergeIter over scripted members.",
   note="Trusted: Lean kernel; translator's reading of ociunify (helper functions pinned by text); base64url/JSON of composite IDs as an abstract codec with a round-trip hypothesis; observable equality of members is proved for IDs the unifier issues (forged overlapping composite IDs are outside the property).",
   technique="Lean 4 proof over regenerated combinator table (decide) + differential over member-state relations",
   design="§5 C15")
CLAIMED["C16"] = dict(
   text="PARTIAL. Lean 4: a finite transition system mirroring runReadConcurrent and the reader wrapper (main's two selects, two senders, done channel, caller context, member outcomes, reader-closed and context-cancelled flags) for eight scenarios; the reachable set is computed and `decide +kernel` checks it is closed under every transition, every state is safe and every quiescent state is settled; lifted to all schedules by induction over paths: error only when both fail or the caller cancelled, returns the first success, the loser's reader is closed, the winner's context stays live until the returned reader is closed and is cancelled afterwards, no sender remains blocked, termination by a decreasing rank. Correspondence: gated fake members drive the real ociunify through all outcome pairs x completion orders x cancellation points for the five entry points, with goroutine-leak checks; observations must lie in the model's allowed set.",
   note="Partial by nature: goroutine scheduling, channels, select and context are the model's primitives (trusted); the theorem is about the protocol built from them. `select` may pick either ready case, so the comparison is set membership, not a line diff; 'context still live' is sampled.",
   technique="Lean 4 proof (kernel-checked inductive invariant of a finite transition system, lifted to all schedules) + gated-member schedule enumeration",
   design="§5 C16")
CLAIMED["C10"] = dict(
   text="Lean 4 theorems over a model of the auth transport (per-host state: challenge, cached scoped tokens with expiry, refresh token, basic credentials; logical time; the two critical sections setAuthorization and setAuthorizationFromChallenge; token acquisition with the 401 fallback and the POST/GET fallback) against a universally quantified environment (registry and token server may answer anything): an invariant J preserved by each section and along every history gives bearer_provenance (a presented token was delivered to this host's state or configured for it), bearer_fresh (>= 1 s of life when taken from the cache), bearer_covers (cached: recorded scope contains the required scope, via C09's contains_iff_subset; fresh: contains the challenge scope), cache_hit_is_silent, token_request_scope/text (challenge ∪ required ∪ wanted; the challenge's own text byte for byte when the union adds nothing, via union_noop_returns_receiver). Correspondence: a fake registry + token server as the underlying RoundTripper, generated multi-host request sequences over a scope lattice with every credential configuration and token-server behaviour, diffed message by message with the model; provenance/freshness/coverage oracles on the request log.",
   note="Trusted: Lean kernel; net/http, net/url, JSON and http.Client redirect handling are parameters; time.Now is read once per call in the model (real sleeps with 2-3 s lifetimes only in the thorough tier); atomicity of the two sections under registry.mu and sync.Once is assumed, so per-section theorems hold for every interleaving of sections.",
   technique="Lean 4 proof (inductive invariant over critical sections against an arbitrary environment) + differential against a scripted registry/token server",
   design="§5 C10")
CLAIMED["C11"] = dict(
   text="Lean 4 theorems over the same auth-transport model with secrets as atoms tagged by host: host_isolation (every message a call produces carries only its own host's secrets and goes to its own host or to the realm that host's challenge named) for all call sequences; password_confined, refresh_confined, never_basic_before_challenge, basic_only_against_basic_challenge, attempts_le_two, fresh_401_becomes_403 (exact iff); a byte-level model of the RFC 7235 challenge parser with explicit buffer bounds: parse_total (never panics), challenge_select (Basic preferred, unknown schemes ignored); source-shape obligations regenerated from auth.go/challenge.go. Correspondence: generated conversations and fault sequences over >= 2 hosts with distinct secrets, challenge headers of every shape, token servers failing in every way, failing config lookups, bodies with/without GetBody; every request reaching the underlying transport is logged and scanned for every secret; request-unmodified and body-closed oracles.",
   note="Trusted: Lean kernel; 'request unmodified' and 'body closed on every path' are oracle-only (the model has no request object; the Clone/needBodyClose skeleton is pinned by a shape obligation); redirects followed by http.Client for token requests are net/http's.",
   technique="Lean 4 proof (information-flow invariant on per-host state; total byte-level challenge parser) + differential and secret-scanning oracles",
   design="§5 C11")
NOT_YET = {}

# what later rounds added to a property's claim (sub-checks, theorems, findings), appended to the texts above
EXTRA = {
 "C01": dict(text=" Round 7: a read that names a digest and ends cleanly hashes to the digest that was ASKED for, whatever Docker-Content-Digest header the response carries (requested_digest_verified, after fix F31).",
             note=" F31 (the client verified content against the response's digest header, not the requested digest) was found and fixed."),
 "C03": dict(text=" Sub-check C03C ties the client half to the source as C06S ties the server half: every ocirequest.Request literal in ociclient is regenerated with the provenance of each field, and client_request_literal / client_request_site / client_known_digest prove that the request the model sends for each of the 17 literal-built calls is the one that literal denotes (a swapped Repo/FromRepo or a Tag sent as Digest breaks an obligation). After fix F31 the transparency theorems assume a backend that answers a read by digest with that digest (Faithful), and client_reports_requested_digest / wire_reports_requested_digest state the new guarantee unconditionally.",
             technique="Lean 4 proof (request codec round trip; response codec; composed client/wire/server model; regenerated server handler table and client request table) + differential traces direct vs. HTTP stack"),
 "C05": dict(text=" Round 7: merge_never_silently_short - a member that delivered items and then failed (NAME_UNKNOWN included) makes the unified listing end in an error (fix F34).",
             note=" F34 (the unifier dropped NAME_UNKNOWN after items: a silently shortened listing) was found and fixed."),
 "C08": dict(text=" Round 7: the commit lock added by fix F33 is in the interleaving model (regenerated fact wholeBodyLocks, obligation generated_commit_serialized, predicate CommitSerial): commit_reports_own_digest - for every schedule that respects the lock, with arbitrary other steps between, a successful Commit reports the digest it was asked for and the bytes that were checked are stored under it; dual_commit_anomaly_without_the_lock shows the hypothesis is needed.",
             note=" F33 (Commit/Commit and Commit/Cancel on one upload interleaved) was found by the new dualcommit scenario and fixed."),
 "C15": dict(text=" Round 7: merge_errors restated and merge_never_silently_short proved after fix F34; deletes of one-sided content are judged by success_only_if_both."),
 "C17": dict(text=" Sub-check C17R replaces the hash-of-the-pattern tie by proof: the translator regenerates the regexp/syntax trees of referencePat, hostPat and repoPat as Lean terms, a derivative matcher is proved to decide their textbook language (matcher_correct), and the hand-written recognisers are proved to accept exactly those languages (isRepo_iff_repoPat, isHost_iff_hostPat, matchRef_isSome_iff_referencePat, matchRef_groups, matchRef_prefers_host); the engine 'rere' compares Go's regexp (through IsValidHost / IsValidRepository / ParseRelative) with the regenerated trees on generated strings including invalid UTF-8.",
             note=" With C17R what remains trusted about the patterns is regexp/syntax's parser (the one regexp.MustCompile uses), the byte-level reading of rune classes (exact for ASCII classes and for complements under repetition; checked differentially), and leftmost-first priority of the optional host group (matchRef_prefers_host states it, the differential ties it).",
             technique="Lean 4 proof (parse/print round trips; recognisers = languages of the regenerated regular expressions, verified derivative matcher) + grammar-directed differential against ociref"),
 "C18": dict(text=" Round 7: clientDecode_never_panics_whatever_the_digest - no hypothesis on the form of the caller's digest arguments is needed any more (fix F32); the old excluded point is now the theorem clientDecode_refuses_ill_formed_digest.",
             note=" F32 (a tag-shaped digest argument panicked the client) was found and fixed."),
 "C19": dict(note=" Known finding F35: a password beginning with a NUL byte loses its leading NULs (docker-compatible Trim); judged by its own oracle class."),
}
for _p, _e in EXTRA.items():
    for _k, _v in _e.items():
        if _k == "technique": CLAIMED[_p][_k] = _v
        else: CLAIMED[_p][_k] = CLAIMED[_p][_k] + _v

def main():
    checks = []
    for p in ALL:
        if p not in CLAIMED: continue
        c = CLAIMED[p]
        checks.append({
            "property_id": p,
            "quick_cmd": "./check %s --tier quick" % p,
            "thorough_cmd": "./check %s --tier thorough" % p,
            "evidence_file": "/verif/evidence/%s.json" % p,
            "replay_cmd_template": "./check %s --replay {path}" % p,
            "engine": "lean-proof+correspondence",
            "level_claimed": {"category": "proof", "text": c["text"], "design_ref": c["design"]},
            "level_note": c["note"],
            "technique": c["technique"],
        })
    na = [{"property_id": p, "reason": NOT_YET.get(p, "not yet built in this round: the Lean model and correspondence for this property are still under construction (see DESIGN.md §8 build order); no other technique is substituted")} for p in ALL if p not in CLAIMED]
    m = {
        "version": 1,
        "setup_cmd": "./setup.sh",
        "hooks": {
            "guard": "verif",
            "enable": "go build -tags verif (the harness module replaces cuelabs.dev/go/oci/ociregistry with /repo/ociregistry)",
            "baseline_off_cmd": "for m in $(cat /w/out/gomods.txt); do MF=$(cd /repo/$m && . /w/out/goenv.sh && gomodflag); (cd /repo/$m && go test $MF -json -vet=off -count=1 -timeout 25m ./...); done",
            "source_commits": [],
            "add_only": True,
        },
        "engines": [
            {"name": "lean-model", "path": "/verif/lean", "serves_properties": sorted(CLAIMED), "kind_free_text": "Lean 4 project OciModel: executable model, property theorems (Props/Cxx.lean), core-only driver ocimodel"},
            {"name": "translator", "path": "/verif/translator", "serves_properties": sorted(CLAIMED), "kind_free_text": "Go go/ast fact extractor regenerating lean/OciModel/Generated/*.lean from /repo on every run"},
            {"name": "harness", "path": "/verif/harness", "serves_properties": sorted(CLAIMED), "kind_free_text": "Go correspondence harness: runs the real packages and the Lean driver on the same protocol lines, diffs, evaluates direct oracles"},
        ],
        "checks": checks,
        "not_applicable": na,
        "notes": "Technique: machine-checked proof in Lean 4 tied to the source by a translator (regenerated facts) and a correspondence check (differential execution). See DESIGN.md.",
    }
    hooks_file = os.path.join(HERE, "hooks_commits.txt")
    if os.path.exists(hooks_file):
        m["hooks"]["source_commits"] = [l.strip() for l in open(hooks_file) if l.strip()]
    json.dump(m, open(os.path.join(HERE, "MANIFEST.json"), "w"), indent=1)

if __name__ == "__main__":
    main()
