#!/usr/bin/env python3
"""Writes MANIFEST.json from the per-property table below (kept in one place so the manifest stays valid)."""
import json, os
HERE = os.path.dirname(os.path.abspath(__file__))
ALL = ["C%02d" % i for i in range(1, 21)]

CLAIMED = {
 "C20": dict(
   text="Lean 4 theorems over the table regenerated from func.go on every run: for every row satisfying a decidable well-formedness predicate and every configuration (nil receiver, any subset of set fields, with/without NewError) the call delegates when set, refuses cleanly when unset, is independent of other fields and never panics; `decide` checks the regenerated table against the predicate and the Interface method set. Reflection-driven correspondence runs the real *Funcs on thousands of configurations and diffs with the model driver.",
   note="Trusted: Lean kernel; translator's extraction of the two-statement method shape (anything else is emitted as shapeKnown := false and fails the obligation); reflection harness. Function values are opaque: 'same arguments and results' is checked by the harness with distinguishable sentinels.",
   technique="Lean 4 proof over translator-regenerated method table (decide) + reflection differential",
   design="§5 C20"),
}
NOT_YET = {}

def main():
    checks = []
    for p in ALL:
        if p not in CLAIMED: continue
        c = CLAIMED[p]
        checks.append({
            "property_id": p,
            "quick_cmd": "./check %s --tier quick" % p,
            "thorough_cmd": "./check %s --tier thorough" % p,
            "evidence_file": "/verif/evidence/%s.json" % p,
            "replay_cmd_template": "./check %s --replay {path}" % p,
            "engine": "lean-proof+correspondence",
            "level_claimed": {"category": "proof", "text": c["text"], "design_ref": c["design"]},
            "level_note": c["note"],
            "technique": c["technique"],
        })
    na = [{"property_id": p, "reason": NOT_YET.get(p, "not yet built in this round: the Lean model and correspondence for this property are still under construction (see DESIGN.md §8 build order); no other technique is substituted")} for p in ALL if p not in CLAIMED]
    m = {
        "version": 1,
        "setup_cmd": "./setup.sh",
        "hooks": {
            "guard": "verif",
            "enable": "go build -tags verif (the harness module replaces cuelabs.dev/go/oci/ociregistry with /repo/ociregistry)",
            "baseline_off_cmd": "for m in $(cat /w/out/gomods.txt); do MF=$(cd /repo/$m && . /w/out/goenv.sh && gomodflag); (cd /repo/$m && go test $MF -json -vet=off -count=1 -timeout 25m ./...); done",
            "source_commits": [],
            "add_only": True,
        },
        "engines": [
            {"name": "lean-model", "path": "/verif/lean", "serves_properties": sorted(CLAIMED), "kind_free_text": "Lean 4 project OciModel: executable model, property theorems (Props/Cxx.lean), core-only driver ocimodel"},
            {"name": "translator", "path": "/verif/translator", "serves_properties": sorted(CLAIMED), "kind_free_text": "Go go/ast fact extractor regenerating lean/OciModel/Generated/*.lean from /repo on every run"},
            {"name": "harness", "path": "/verif/harness", "serves_properties": sorted(CLAIMED), "kind_free_text": "Go correspondence harness: runs the real packages and the Lean driver on the same protocol lines, diffs, evaluates direct oracles"},
        ],
        "checks": checks,
        "not_applicable": na,
        "notes": "Technique: machine-checked proof in Lean 4 tied to the source by a translator (regenerated facts) and a correspondence check (differential execution). See DESIGN.md.",
    }
    hooks_file = os.path.join(HERE, "hooks_commits.txt")
    if os.path.exists(hooks_file):
        m["hooks"]["source_commits"] = [l.strip() for l in open(hooks_file) if l.strip()]
    json.dump(m, open(os.path.join(HERE, "MANIFEST.json"), "w"), indent=1)

if __name__ == "__main__":
    main()
