#!/usr/bin/env python3
"""mkmatrix.py: regenerate the table of DESIGN.md §10 from seeded/*/meta.json (between the MATRIX markers)."""
import json, os, re
rows = []
for d in sorted(os.listdir("/verif/seeded")):
    m = json.load(open("/verif/seeded/%s/meta.json" % d))
    def cut(s, n):
        s = " ".join(str(s).split()).replace("|", "/")
        return s if len(s) <= n else s[:n].rsplit(" ", 1)[0] + " …"
    rows.append("| %s | %s | %s — needs: %s | %s | %s |" % (d, m["property"], cut(m.get("summary", ""), 260), cut(m.get("needs", ""), 220),
                ", ".join(m.get("caught_by", [])) or "none", cut(m.get("note", ""), 400)))
table = "| seed | property | change | caught by | how / what was strengthened |\n|---|---|---|---|---|\n" + "\n".join(rows) + "\n"
p = "/verif/DESIGN.md"
s = open(p).read()
s2 = re.sub(r"(<!-- MATRIX -->\n).*?(<!-- /MATRIX -->)", lambda m: m.group(1) + table + m.group(2), s, flags=re.S)
open(p, "w").write(s2)
print(len(rows), "seeds")
