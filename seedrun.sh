#!/bin/bash
# seedrun.sh <slot> <worktree> <k> <pkg|main> <pattern> <checks...>
# Confirms a seeded change (demo fails with it and passes without; the three suites pass with it) and runs the given
# checks against it WITHOUT touching /repo: the patch is applied in the sub-agent's scratch worktree, and a private copy
# of /verif (/var/tmp/vw<slot>, kept in sync with rsync, own lake build) runs `./check` with VERIF_REPO=<worktree>.
# Several slots can run at once. Development aid for DESIGN §10; not a registered command.
SLOT=$1; WT=$2; K=$3; PKG=$4; PAT=$5; shift 5
P=$WT/out/$K/patch.diff
[ -f "$P" ] || { echo "no patch $P"; exit 2; }
VW=/var/tmp/vw$SLOT
# one job per worktree at a time (two patches of one property share a worktree)
exec 9>/var/tmp/lock-$(basename $WT); flock 9
mkdir -p $VW
rsync -a --delete --exclude .git --exclude replays --exclude evidence --exclude 'harness/go.mod' --exclude 'harness/go.sum' --exclude 'lean/.lake' --exclude '.build' --exclude 'lean/OciModel/Generated' /verif/ $VW/
mkdir -p $VW/replays $VW/evidence $VW/lean/OciModel/Generated
[ -d $VW/lean/.lake ] || cp -r /verif/lean/.lake $VW/lean/.lake
[ -d $VW/.build ] || cp -r /verif/.build $VW/.build
[ -n "$(ls $VW/lean/OciModel/Generated 2>/dev/null)" ] || cp /verif/lean/OciModel/Generated/*.lean $VW/lean/OciModel/Generated/
(cd $VW/translator && GOFLAGS=-mod=mod GOPROXY=off GOSUMDB=off GOTOOLCHAIN=local GOWORK=off go build -o ../.build/translator .) # the slot's own translator, current
git -C $WT checkout -q -- . ; git -C $WT clean -qfd -e out
# 1. demo
run() {
  if [ "$PKG" = main ]; then (cd $WT/ociregistry && GOPROXY=off GOSUMDB=off timeout 900 go run ../out/$K/demo/main.go >$1 2>&1)
  else (cd $WT/$PKG && GOPROXY=off GOSUMDB=off timeout 900 go test $SEEDDEMO_FLAGS -vet=off -count=1 -run "$PAT" . >$1 2>&1); fi
}
[ "$PKG" = main ] || cp $WT/out/$K/demo/*_test.go $WT/$PKG/ 2>/dev/null
run $VW/demo.clean && clean=PASS || clean=FAIL
git -C $WT apply "$P" || { echo "PATCH DOES NOT APPLY"; exit 2; }
run $VW/demo.mut && mut=PASS || mut=FAIL
echo "demo on clean tree: $clean; demo with patch: $mut"
[ "$clean" = PASS ] && [ "$mut" = FAIL ] && echo "DEMO CONFIRMED" || { echo "DEMO NOT CONFIRMED"; tail -5 $VW/demo.clean $VW/demo.mut; }
# 2. suite with the patch (demo files removed first)
git -C $WT clean -qfd -e out
suite=PASS
for m in cmd/ocisrv ociregistry ociregistry/internal/conformance; do
  (cd $WT/$m && GOPROXY=off GOSUMDB=off go test -vet=off -count=1 ./... >$VW/suite.log 2>&1) || { suite=FAIL; tail -5 $VW/suite.log; }
done
echo "suite-with-patch: $suite"
# 3. checks against the patched worktree
for c in "$@"; do
  (cd $VW && VERIF_REPO=$WT timeout 1200 ./check $c 2>&1 | grep -E "^(VIOLATION|OK|KNOWN)" | head -8 | while read l; do
    r=$(echo "$l" | sed -n 's/.*replay=\([^ ]*\).*/\1/p')
    if [ -n "$r" ]; then python3 - "$r" "$K" "$c" "$l" <<'PY'
import json,sys
d=json.load(open(sys.argv[1]))
o=d.get('oracle') or {}
nf='no-failing-input-found' in sys.argv[4]
print('  check', sys.argv[3], 'VIOLATION class=%s oracle=%s tag=%s%s' % (d.get('class'), o.get('name'), (d.get('case') or {}).get('tag'), ' NOINPUT' if nf else ''), 'broken=%s' % [b.get('name') for b in d.get('broken') or []][:3])
PY
    else echo "  check $c $l" | cut -c1-200; fi; done)
done
git -C $WT checkout -q -- . ; git -C $WT clean -qfd -e out
