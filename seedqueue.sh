#!/bin/bash
# seedqueue.sh <jobs file>: each line "<prop> <k> <checks...>"; runs seedrun.sh over 4 slots; logs /var/tmp/r7-<prop>-<k>.log
J=$1
run_slot() {
  slot=$1
  while true; do
    line=$(flock /var/tmp/r7.lock bash -c "head -1 $J; sed -i 1d $J")
    [ -z "$line" ] && break
    set -- $line; prop=$1; k=$2; shift 2
    meta=/tmp/mut/$prop/out/$k/meta.json
    pkg=$(python3 -c "import json;print(json.load(open('$meta')).get('demo_pkg','main'))")
    pat=$(python3 -c "import json;print(json.load(open('$meta')).get('demo_run','TestSeedDemo'))")
    /verif/seedrun.sh $slot /tmp/mut/$prop $k "$pkg" "$pat" "$@" > /var/tmp/r7-$prop-$k.log 2>&1
  done
}
for s in 1 2 3 4; do run_slot $s & done; wait
