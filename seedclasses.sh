#!/bin/bash
# seedclasses.sh <seeded-id> <checks...>: apply an archived seeded change to /repo, run the checks, print the
# failure classes / oracle names of the replays they write, undo. Development aid (DESIGN §10).
ID=$1; shift
P=/verif/seeded/$ID/patch.diff
[ -n "$(git -C /repo status --porcelain --untracked-files=no)" ] && { echo "/repo not clean"; exit 2; }
git -C /repo apply "$P" || { echo "PATCH DOES NOT APPLY"; exit 2; }
for c in "$@"; do
  (cd /verif && timeout 900 ./check $c 2>&1 | grep -E "^(VIOLATION|OK)" | head -8 | while read l; do
    r=$(echo "$l" | sed -n 's/.*replay=\([^ ]*\).*/\1/p')
    if [ -n "$r" ]; then python3 - "$r" "$ID" "$c" "$l" <<'PY'
import json,sys
d=json.load(open(sys.argv[1]))
o=d.get('oracle') or {}
nf='no-failing-input-found' in sys.argv[4]
print(sys.argv[2], sys.argv[3], 'class=%s oracle=%s tag=%s%s' % (d.get('class'), o.get('name'), (d.get('case') or {}).get('tag'), ' NOINPUT' if nf else ''), 'broken=%s' % [b.get('name') for b in d.get('broken') or []][:2])
PY
    else echo "$ID $c $l"; fi; done)
done
git -C /repo checkout -q -- .
git -C /verif checkout -q -- evidence 2>/dev/null
