#!/bin/bash
# harmrun.sh <slot> <worktree> <k> <checks...>: a behaviour-preserving rewrite (out/<k>/patch.diff) must leave every
# check green. Same mechanics as seedrun.sh (private copy of /verif, VERIF_REPO=<worktree>). Development aid.
SLOT=$1; WT=$2; K=$3; shift 3
P=$WT/out/$K/patch.diff
VW=/var/tmp/vw$SLOT
# one job per worktree at a time (two patches of one property share a worktree)
exec 9>/var/tmp/lock-$(basename $WT); flock 9
mkdir -p $VW
rsync -a --delete --exclude .git --exclude replays --exclude evidence --exclude 'harness/go.mod' --exclude 'harness/go.sum' --exclude 'lean/.lake' --exclude '.build' --exclude 'lean/OciModel/Generated' /verif/ $VW/
mkdir -p $VW/replays $VW/evidence $VW/lean/OciModel/Generated
[ -d $VW/lean/.lake ] || cp -r /verif/lean/.lake $VW/lean/.lake
[ -d $VW/.build ] || cp -r /verif/.build $VW/.build
[ -n "$(ls $VW/lean/OciModel/Generated 2>/dev/null)" ] || cp /verif/lean/OciModel/Generated/*.lean $VW/lean/OciModel/Generated/
(cd $VW/translator && GOFLAGS=-mod=mod GOPROXY=off GOSUMDB=off GOTOOLCHAIN=local GOWORK=off go build -o ../.build/translator .) # the slot's own translator, current
git -C $WT checkout -q -- . ; git -C $WT clean -qfd -e out
git -C $WT apply "$P" || { echo "PATCH DOES NOT APPLY"; exit 2; }
suite=PASS
for m in cmd/ocisrv ociregistry ociregistry/internal/conformance; do
  (cd $WT/$m && GOPROXY=off GOSUMDB=off go test -vet=off -count=1 ./... >$VW/suite.log 2>&1) || { suite=FAIL; tail -5 $VW/suite.log; }
done
echo "suite-with-patch: $suite"
for c in "$@"; do
  (cd $VW && VERIF_REPO=$WT timeout 1200 ./check $c 2>&1 | grep -E "^(VIOLATION|OK|KNOWN)" | head -6 | while read l; do
    r=$(echo "$l" | sed -n 's/.*replay=\([^ ]*\).*/\1/p')
    if [ -n "$r" ]; then python3 - "$r" "$K" "$c" "$l" <<'PY'
import json,sys
d=json.load(open(sys.argv[1]))
o=d.get('oracle') or {}
nf='no-failing-input-found' in sys.argv[4]
print('  check', sys.argv[3], 'FALSE-ALARM class=%s oracle=%s%s' % (d.get('class'), o.get('name'), ' NOINPUT' if nf else ''), 'broken=%s' % [(b.get('name'), (b.get('excerpt') or '')[:300]) for b in d.get('broken') or []][:3])
PY
    else echo "  check $c $l" | cut -c1-120; fi; done)
done
git -C $WT checkout -q -- . ; git -C $WT clean -qfd -e out
