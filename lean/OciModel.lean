import OciModel.Base
import OciModel.Funcs
import OciModel.Props.C20
