/-
Immutable-tags mode (C14) over the interleaving model `MemConc`: what ONE atomic step — a
registry operation, or either half of a chunked commit — does to a repository, in the vocabulary
of `MemImmutable` (`RepoStep` / `Eff`).

* `astep (.op o)` is `Mem.step`, so `step_eff` applies;
* `commitCheck` only rewrites the upload buffers of one repository (and the snapshots);
* `commitStore` only INSERTS a blob into one repository (`ainsert`).
Hence a half of a commit never touches tags or manifests (`commit_frame`, no hypothesis at all),
and — once every pending snapshot hashes to its digest (`SnapsOk`, true of the empty snapshot
list and preserved: `snapsOk_astep`) — every atomic step is an `Eff` (`astep_eff`), so everything
`MemImmutable` derives from `Eff` holds along every schedule.

This file cannot import `MemConcLemmas` (it sits on `MemLemmas`, whose names clash with those of
`MemImmutable`); the three snapshot facts it needs are proved again here, in a namespace of their own.
`H` stays a parameter; nothing is assumed about it.
-/
import OciModel.MemConc
import OciModel.MemImmutable

namespace OciModel.MemConcImm
open OciModel OciModel.Mem OciModel.MemConc

/-! ### Snapshots -/

theorem lookupSnap_eraseSnap_eq (k : Bytes × Bytes) (sn : Snaps) : lookupSnap k (eraseSnap k sn) = none := by
  induction sn with
  | nil => rfl
  | cons p rest ih =>
    obtain ⟨k', v⟩ := p
    by_cases h : k' = k
    · simp [eraseSnap, h, ih]
    · simp [eraseSnap, lookupSnap, h, ih]

theorem lookupSnap_eraseSnap_ne {k k' : Bytes × Bytes} (hne : k ≠ k') (sn : Snaps) :
    lookupSnap k' (eraseSnap k sn) = lookupSnap k' sn := by
  induction sn with
  | nil => rfl
  | cons p rest ih =>
    obtain ⟨k'', v⟩ := p
    by_cases h : k'' = k
    · subst h
      simp only [eraseSnap, lookupSnap, if_true, if_neg hne]
      exact ih
    · by_cases h2 : k'' = k'
      · subst h2
        simp only [eraseSnap, lookupSnap, if_neg h, if_true]
      · simp only [eraseSnap, lookupSnap, if_neg h, if_neg h2]
        exact ih

section
variable (H : Bytes → Bytes)

theorem snapsOk_nil : SnapsOk H [] := by
  intro k dig data h; simp [lookupSnap] at h

theorem snapsOk_erase {sn : Snaps} (k : Bytes × Bytes) (h : SnapsOk H sn) : SnapsOk H (eraseSnap k sn) := by
  intro k' dig data hl
  by_cases hk : k = k'
  · subst hk; rw [lookupSnap_eraseSnap_eq] at hl; cases hl
  · rw [lookupSnap_eraseSnap_ne hk] at hl; exact h k' dig data hl

theorem snapsOk_cons {sn : Snaps} {k : Bytes × Bytes} {dig data : Bytes} (hd : H data = dig)
    (h : SnapsOk H sn) : SnapsOk H ((k, (dig, data)) :: sn) := by
  intro k' dig' data' hl
  by_cases hk : k = k'
  · subst hk
    simp only [lookupSnap, if_true] at hl
    cases hl; exact hd
  · simp only [lookupSnap, if_neg hk] at hl; exact h k' dig' data' hl

/-! ### `astep` / `arun` in closed form -/

theorem astep_op_st (c : CState) (o : Op) : (astep H c (.op o)).1.st = (step H c.st o).1 := rfl

theorem astep_op_out (c : CState) (o : Op) : (astep H c (.op o)).2 = (step H c.st o).2 := rfl

theorem astep_op_snaps (c : CState) (o : Op) : (astep H c (.op o)).1.snaps = c.snaps := rfl

theorem arun_nil (c : CState) : arun H c [] = c := rfl

theorem arun_cons (c : CState) (a : AStep) (rest : List AStep) :
    arun H c (a :: rest) = arun H (astep H c a).1 rest := rfl

/-- Anything that holds initially and is preserved by every atomic step holds after every schedule. -/
theorem arun_induction {P : CState → Prop} (hstep : ∀ c a, P c → P (astep H c a).1)
    (c : CState) (h : P c) (sched : List AStep) : P (arun H c sched) := by
  induction sched generalizing c with
  | nil => exact h
  | cons a rest ih => rw [arun_cons]; exact ih _ (hstep c a h)

/-- The same for a schedule whose steps satisfy a side condition. -/
theorem arun_induction_sched {P : CState → Prop} {Q : AStep → Prop}
    (hstep : ∀ c a, Q a → P c → P (astep H c a).1)
    (c : CState) (h : P c) (sched : List AStep) (hs : ∀ a, a ∈ sched → Q a) : P (arun H c sched) := by
  induction sched generalizing c with
  | nil => exact h
  | cons a rest ih =>
    rw [arun_cons]
    exact ih _ (hstep c a (hs a List.mem_cons_self) h) fun b hb => hs b (List.mem_cons_of_mem _ hb)

/-! ### What a half of a chunked commit does -/

/-- The atomic step is a half of a chunked commit (not a registry operation). -/
def IsCommitHalf : AStep → Prop
  | .op _ => False
  | _ => True

/-- A half of a commit leaves the registry state alone, or rewrites the upload buffers of one
existing repository (`commitCheck`), or inserts the pending snapshot of the session as a blob into
one existing repository (`commitStore`). -/
theorem commit_cases (c : CState) (a : AStep) (ha : IsCommitHalf a) :
    (astep H c a).1.st = c.st ∨
    (∃ r rp ups, getRepo c.st r = some rp ∧
      (astep H c a).1.st = putRepo c.st r { rp with uploads := ups }) ∨
    (∃ r id rp dig data, getRepo c.st r = some rp ∧ lookupSnap (r, id) c.snaps = some (dig, data) ∧
      (astep H c a).1.st =
        putRepo c.st r { rp with blobs := ainsert dig ⟨octetStream, data, [], []⟩ rp.blobs }) := by
  cases a with
  | op o => exact absurd ha id
  | commitCheck r id dig =>
    cases hb : getBuffer c.st r id with
    | none => left; simp [astep, hb]
    | some p =>
      obtain ⟨rp, b⟩ := p
      have hg := (getBuffer_some hb).1
      cases he : b.commitErr with
      | some e => left; simp [astep, hb, he]
      | none =>
        by_cases hd : H b.buf = dig
        · exact .inr (.inl ⟨r, rp, ainsert id { b with committed := true } rp.uploads, hg,
            by simp [astep, hb, he, hd, putBuffer]⟩)
        · exact .inr (.inl ⟨r, rp, ainsert id { b with commitErr := some "DIGEST_INVALID" } rp.uploads, hg,
            by simp [astep, hb, he, hd, putBuffer]⟩)
  | commitStore r id =>
    cases hl : lookupSnap (r, id) c.snaps with
    | none => left; simp [astep, hl]
    | some p =>
      obtain ⟨dig, data⟩ := p
      cases hg : getRepo c.st r with
      | none => left; simp [astep, hl, hg]
      | some rp => exact .inr (.inr ⟨r, id, rp, dig, data, hg, hl, by simp [astep, hl, hg]⟩)

/-- Pending snapshots keep hashing to their digests: a registry operation does not touch them,
`commitCheck` adds one it has just compared, `commitStore` removes one. -/
theorem snapsOk_astep (c : CState) (a : AStep) (h : SnapsOk H c.snaps) : SnapsOk H (astep H c a).1.snaps := by
  cases a with
  | op o => exact h
  | commitCheck r id dig =>
    cases hb : getBuffer c.st r id with
    | none => simpa [astep, hb] using h
    | some p =>
      obtain ⟨rp, b⟩ := p
      cases he : b.commitErr with
      | some e => simpa [astep, hb, he] using h
      | none =>
        by_cases hd : H b.buf = dig
        · have : (astep H c (.commitCheck r id dig)).1.snaps = ((r, id), (dig, b.buf)) :: eraseSnap (r, id) c.snaps := by
            simp [astep, hb, he, hd]
          rw [this]
          exact snapsOk_cons H hd (snapsOk_erase H _ h)
        · simpa [astep, hb, he, hd] using h
  | commitStore r id =>
    cases hl : lookupSnap (r, id) c.snaps with
    | none => simpa [astep, hl] using h
    | some p =>
      obtain ⟨dig, data⟩ := p
      cases hg : getRepo c.st r with
      | none => simpa [astep, hl, hg] using h
      | some rp =>
        have : (astep H c (.commitStore r id)).1.snaps = eraseSnap (r, id) c.snaps := by
          simp [astep, hl, hg]
        rw [this]
        exact snapsOk_erase H _ h

theorem snapsOk_arun (c : CState) (sched : List AStep) (h : SnapsOk H c.snaps) :
    SnapsOk H (arun H c sched).snaps :=
  arun_induction H (P := fun c => SnapsOk H c.snaps) (fun c a hc => snapsOk_astep H c a hc) c h sched

/-- **Frame of a commit half**, without any hypothesis: every repository is still there, with the
same tags and the same manifests, and every blob key it had is still bound. -/
theorem commit_frame (c : CState) (a : AStep) (ha : IsCommitHalf a) {r : Bytes} {rp : Repo}
    (hg : getRepo c.st r = some rp) :
    ∃ rp', getRepo (astep H c a).1.st r = some rp' ∧ rp'.tags = rp.tags ∧ rp'.manifests = rp.manifests ∧
      ∀ k b, alookup k rp.blobs = some b → ∃ b', alookup k rp'.blobs = some b' := by
  rcases commit_cases H c a ha with h | ⟨r0, rp0, ups, hg0, h⟩ | ⟨r0, id, rp0, dig, data, hg0, _, h⟩
  · rw [h]; exact ⟨rp, hg, rfl, rfl, fun k b hb => ⟨b, hb⟩⟩
  · rw [h]
    by_cases e : r = r0
    · subst e
      rw [hg] at hg0; cases hg0
      exact ⟨_, getRepo_putRepo_eq _ _ _, rfl, rfl, fun k b hb => ⟨b, hb⟩⟩
    · exact ⟨rp, (getRepo_putRepo_ne _ e _).trans hg, rfl, rfl, fun k b hb => ⟨b, hb⟩⟩
  · rw [h]
    by_cases e : r = r0
    · subst e
      rw [hg] at hg0; cases hg0
      refine ⟨_, getRepo_putRepo_eq _ _ _, rfl, rfl, fun k b hb => ?_⟩
      simp only [alookup_ainsert]
      split
      · exact ⟨_, rfl⟩
      · exact ⟨b, hb⟩
    · exact ⟨rp, (getRepo_putRepo_ne _ e _).trans hg, rfl, rfl, fun k b hb => ⟨b, hb⟩⟩

/-! ### The mode -/

/-- No atomic step changes the mode. -/
theorem astep_immutable (c : CState) (a : AStep) :
    (astep H c a).1.st.immutableTags = c.st.immutableTags := by
  cases a with
  | op o => exact immutable_preserved H c.st o
  | commitCheck r id dig =>
    rcases commit_cases H c (.commitCheck r id dig) trivial with h | ⟨_, _, _, _, h⟩ | ⟨_, _, _, _, _, _, _, h⟩ <;>
      rw [h] <;> rfl
  | commitStore r id =>
    rcases commit_cases H c (.commitStore r id) trivial with h | ⟨_, _, _, _, h⟩ | ⟨_, _, _, _, _, _, _, h⟩ <;>
      rw [h] <;> rfl

theorem arun_immutable (c : CState) (sched : List AStep) :
    (arun H c sched).st.immutableTags = c.st.immutableTags := by
  induction sched generalizing c with
  | nil => rfl
  | cons a rest ih => rw [arun_cons]; exact (ih _).trans (astep_immutable H c a)

/-! ### One atomic step in immutable mode: tag and tagged manifest (no hypothesis on `H` or the snapshots) -/

theorem astep_tag_stable {c : CState} (him : c.st.immutableTags = true) {r t : Bytes} {rp : Repo} {d : Desc}
    (hg : getRepo c.st r = some rp) (ht : alookup t rp.tags = some d) (a : AStep) :
    ∃ rp', getRepo (astep H c a).1.st r = some rp' ∧ alookup t rp'.tags = some d := by
  cases a with
  | op o => exact Eff.tag_stable H him (step_eff H c.st o) hg ht
  | commitCheck r0 id dig =>
    obtain ⟨rp', hg', htags, _, _⟩ := commit_frame H c (.commitCheck r0 id dig) trivial hg
    exact ⟨rp', hg', htags ▸ ht⟩
  | commitStore r0 id =>
    obtain ⟨rp', hg', htags, _, _⟩ := commit_frame H c (.commitStore r0 id) trivial hg
    exact ⟨rp', hg', htags ▸ ht⟩

theorem astep_tagged_manifest {c : CState} (him : c.st.immutableTags = true) {r t : Bytes} {rp : Repo}
    {d : Desc} {b : Blob} (hg : getRepo c.st r = some rp) (ht : alookup t rp.tags = some d)
    (hm : alookup d.digest rp.manifests = some b) (a : AStep) :
    ∃ rp' b', getRepo (astep H c a).1.st r = some rp' ∧ alookup t rp'.tags = some d ∧
      alookup d.digest rp'.manifests = some b' ∧
      (b' = b ∨ (H b'.data = d.digest ∧ b'.mediaType = b.mediaType)) := by
  cases a with
  | op o => exact Eff.tagged_manifest H him (step_eff H c.st o) hg ht hm
  | commitCheck r0 id dig =>
    obtain ⟨rp', hg', htags, hmans, _⟩ := commit_frame H c (.commitCheck r0 id dig) trivial hg
    exact ⟨rp', b, hg', htags ▸ ht, hmans ▸ hm, .inl rfl⟩
  | commitStore r0 id =>
    obtain ⟨rp', hg', htags, hmans, _⟩ := commit_frame H c (.commitStore r0 id) trivial hg
    exact ⟨rp', b, hg', htags ▸ ht, hmans ▸ hm, .inl rfl⟩

/-! ### Every atomic step is an `Eff` -/

/-- The registry operation whose `Eff` an atomic step is filed under: itself, and for the halves
of a commit an operation that is not a `pushManifest` (they store no manifest). -/
def opOf : AStep → Op
  | .op o => o
  | .commitCheck r id _ => .wSize r id
  | .commitStore r id => .wSize r id

/-- With every pending snapshot hashing to its digest, an atomic step changes every repository by
one `RepoStep` or not at all: `commitCheck` by `uploads`, `commitStore` by `insBlob`. -/
theorem astep_eff (c : CState) (a : AStep) (hsn : SnapsOk H c.snaps) :
    Eff H c.st (opOf a) (astep H c a).1.st := by
  have hhalf : ∀ a, IsCommitHalf a → Eff H c.st (opOf a) (astep H c a).1.st := by
    intro a ha
    rcases commit_cases H c a ha with h | ⟨r0, rp0, ups, hg0, h⟩ | ⟨r0, id, rp0, dig, data, hg0, hl, h⟩
    · rw [h]; exact Eff.refl H _ _
    · rw [h]; exact Eff.put H hg0 (RepoStep.uploads rp0 ups)
    · rw [h]
      exact Eff.put H hg0
        (RepoStep.insBlob rp0 dig ⟨octetStream, data, [], []⟩ rp0.uploads (fun _ => hsn (r0, id) dig data hl))
  cases a with
  | op o => exact step_eff H c.st o
  | commitCheck r id dig => exact hhalf _ trivial
  | commitStore r id => exact hhalf _ trivial

/-- The digest invariant of `MemImmutable` over one atomic step. -/
theorem inv_astep (c : CState) (a : AStep) (hinv : Inv H c.st) (hsn : SnapsOk H c.snaps) :
    Inv H (astep H c a).1.st :=
  Eff.inv H hinv (astep_eff H c a hsn)

theorem inv_arun (c : CState) (sched : List AStep) (hinv : Inv H c.st) (hsn : SnapsOk H c.snaps) :
    Inv H (arun H c sched).st :=
  (arun_induction H (P := fun c => Inv H c.st ∧ SnapsOk H c.snaps)
    (fun c a hc => ⟨inv_astep H c a hc.1 hc.2, snapsOk_astep H c a hc.2⟩) c ⟨hinv, hsn⟩ sched).1

end

end OciModel.MemConcImm
