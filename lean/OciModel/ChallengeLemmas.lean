/-
Helper lemmas about the `Www-Authenticate` parser model (`OciModel/Challenge.lean`).
-/
import OciModel.Challenge
namespace OciModel.Challenge
open OciModel

/-- The escape loop never writes past the buffer: every byte consumed adds at
most one byte, and the buffer has room for all the bytes that are left. -/
theorem escLoop_ok (cap : Nat) : ∀ (rest : Bytes) (esc : Bool) (acc : Bytes),
    acc.length + rest.length ≤ cap → ∃ r, escLoop cap esc acc rest = .ok r := by
  intro rest
  induction rest with
  | nil => intro esc acc _; cases esc <;> exact ⟨none, rfl⟩
  | cons b rest ih =>
    intro esc acc h
    simp only [List.length_cons] at h
    cases esc with
    | true =>
      have hlt : acc.length < cap := by omega
      simp only [escLoop, hlt, if_true]
      exact ih false (b :: acc) (by simp only [List.length_cons]; omega)
    | false =>
      simp only [escLoop]
      split
      · exact ih true acc (by omega)
      · split
        · exact ⟨_, rfl⟩
        · have hlt : acc.length < cap := by omega
          simp only [hlt, if_true]
          exact ih false (b :: acc) (by simp only [List.length_cons]; omega)

theorem quotedLoop_ok (n : Nat) : ∀ (rest pre : Bytes), pre.length + rest.length = n →
    ∃ r, quotedLoop n pre rest = .ok r := by
  intro rest
  induction rest with
  | nil => intro pre _; exact ⟨none, rfl⟩
  | cons b rest ih =>
    intro pre h
    simp only [List.length_cons] at h
    simp only [quotedLoop]
    split
    · exact ⟨_, rfl⟩
    · split
      · exact escLoop_ok (n - 1) rest true pre (by omega)
      · exact ih (b :: pre) (by simp only [List.length_cons]; omega)

theorem expectTokenOrQuoted_ok (s : Bytes) : ∃ r, expectTokenOrQuoted s = .ok r := by
  unfold expectTokenOrQuoted
  split
  · rename_i rest; exact quotedLoop_ok rest.length rest [] (by simp)
  · exact ⟨_, rfl⟩

theorem paramLoop_ok : ∀ (fuel : Nat) (ps : List (Bytes × Bytes)) (s : Bytes),
    ∃ r, paramLoop fuel ps s = .ok r := by
  intro fuel
  induction fuel with
  | zero => intro ps s; exact ⟨_, rfl⟩
  | succ fuel ih =>
    intro ps s
    simp only [paramLoop]
    split
    · exact ⟨_, rfl⟩
    · split
      · exact ⟨_, rfl⟩
      · split
        · rename_i s2 _
          obtain ⟨r, hr⟩ := expectTokenOrQuoted_ok s2
          rw [hr]
          cases r with
          | none => exact ⟨_, rfl⟩
          | some p =>
            obtain ⟨pvalue, s3⟩ := p
            simp only []
            split
            · exact ⟨_, rfl⟩
            · split
              · exact ih _ _
              · exact ⟨_, rfl⟩
        · exact ⟨_, rfl⟩

/-- `parseWWWAuthenticate` never panics. -/
theorem parse_ok (header : Bytes) : ∃ r, parseWWWAuthenticate header = .ok r := by
  unfold parseWWWAuthenticate
  simp only []
  split
  · exact ⟨_, rfl⟩
  · obtain ⟨r, hr⟩ := paramLoop_ok (header.length + 1) [] (skipSpace (expectToken header).2)
    rw [hr]
    cases r with
    | none => exact ⟨_, rfl⟩
    | some p =>
      obtain ⟨ps, rest⟩ := p
      simp only []
      split <;> exact ⟨_, rfl⟩

/-- The outcome of the parser as an option (it never panics). -/
def parse? (v : Bytes) : Option AuthHeader :=
  match parseWWWAuthenticate v with
  | .ok r => r
  | _ => none

theorem parse_eq (v : Bytes) : parseWWWAuthenticate v = .ok (parse? v) := by
  obtain ⟨r, hr⟩ := parse_ok v
  simp [parse?, hr]

/-- A header `challengeFromResponse` takes into account. -/
def usable (h : AuthHeader) : Bool := h.scheme = sBasic || h.scheme = sBearer

/-- The accepted headers are the parsed Basic and Bearer ones, in order. -/
theorem accepted_eq (vs : List Bytes) :
    accepted vs = .ok (vs.filterMap fun v => (parse? v).filter usable) := by
  induction vs with
  | nil => rfl
  | cons v vs ih =>
    simp only [accepted, parse_eq, ih, List.filterMap_cons]
    cases hp : parse? v with
    | none => simp
    | some h =>
      simp only [Option.filter, usable]
      split <;> simp_all

theorem selectLoop_some_basic (h : AuthHeader) (hb : h.scheme = sBasic) (l : List AuthHeader) :
    selectLoop (some h) l = some h := by
  induction l with
  | nil => rfl
  | cons h1 rest ih =>
    have : ¬ (h1.scheme = sBasic ∧ h.scheme = sBearer) := by
      rintro ⟨_, h2⟩; rw [hb] at h2; exact absurd h2 (by decide)
    simp [selectLoop, this, ih]

theorem selectLoop_some_bearer (h : AuthHeader) (hb : h.scheme = sBearer) (l : List AuthHeader) :
    selectLoop (some h) l = some ((l.find? fun x => x.scheme = sBasic).getD h) := by
  induction l with
  | nil => rfl
  | cons h1 rest ih =>
    by_cases h1b : h1.scheme = sBasic
    · simp [selectLoop, h1b, hb, selectLoop_some_basic h1 h1b rest]
    · simp [selectLoop, h1b, ih]

/-- Selection among the accepted headers: the first Basic one if there is any,
otherwise the first (Bearer) one. -/
theorem selectLoop_spec (l : List AuthHeader) (hl : ∀ h ∈ l, usable h = true) :
    selectLoop none l = ((l.find? fun x => x.scheme = sBasic).or l.head?) := by
  cases l with
  | nil => rfl
  | cons h rest =>
    have hu := hl h (by simp)
    simp only [usable, Bool.or_eq_true, decide_eq_true_eq] at hu
    rcases hu with hb | hb
    · simp [selectLoop, selectLoop_some_basic h hb rest, hb]
    · have hnb : ¬ h.scheme = sBasic := by rw [hb]; decide
      simp only [selectLoop, selectLoop_some_bearer h hb rest, List.find?_cons, hnb, decide_false,
        List.head?_cons]
      cases rest.find? fun x => x.scheme = sBasic <;> simp

end OciModel.Challenge
