/-
The hand-written recognisers of `OciModel/Ref.lean` accept exactly the languages of the regular
expressions that the translator regenerates from ociref/reference.go (`Generated/RefRe.lean`):
helper lemmas for `Props/C17R.lean`.
Core Lean only.
-/
import OciModel.Ref
import OciModel.RefLemmas
import OciModel.RegexLemmas
import OciModel.Generated.RefRe

namespace OciModel.RefRe
open OciModel.Regex OciModel.Ref OciModel.Generated.RefRe

/-! ### Byte classes of the patterns are the character predicates of the model -/

/-- Unfolds a class-membership test and a character predicate to arithmetic on `toNat`. -/
macro "cls_arith" : tactic => `(tactic| (
  rw [Bool.eq_iff_iff]
  simp only [inClass, isAlnumLower, isAlnum, isLower, isUpper, isDigit, isIPv6Char,
    cSlash, cColon, cAt, cDot, cDash, cUnder, cNL,
    List.any_cons, List.any_nil, Bool.or_false, Bool.or_eq_true, Bool.and_eq_true,
    decide_eq_true_eq, UInt8.le_iff_toNat_le, beq_iff_eq, bne_iff_ne, ne_eq, ← UInt8.toNat_inj]
  try simp only [UInt8.toNat_ofNat]
  try omega))

theorem inClass_alnumLower (b : UInt8) : inClass [(48, 57), (97, 122)] b = isAlnumLower b := by
  cls_arith
theorem inClass_alnum (b : UInt8) : inClass [(48, 57), (65, 90), (97, 122)] b = isAlnum b := by
  cls_arith
theorem inClass_alnumDash (b : UInt8) :
    inClass [(45, 45), (48, 57), (65, 90), (97, 122)] b = (isAlnum b || b == cDash) := by
  cls_arith
theorem inClass_digit (b : UInt8) : inClass [(48, 57)] b = isDigit b := by cls_arith
theorem inClass_ipv6 (b : UInt8) : inClass [(48, 58), (65, 70), (97, 102)] b = isIPv6Char b := by
  cls_arith
theorem inClass_dotUnder (b : UInt8) :
    inClass [(46, 46), (95, 95)] b = (b == cDot || b == cUnder) := by cls_arith
theorem inClass_under (b : UInt8) : inClass [(95, 95)] b = (b == cUnder) := by cls_arith
theorem inClass_dash (b : UInt8) : inClass [(45, 45)] b = (b == cDash) := by cls_arith
theorem inClass_dot (b : UInt8) : inClass [(46, 46)] b = (b == cDot) := by cls_arith
theorem inClass_slash (b : UInt8) : inClass [(47, 47)] b = (b == cSlash) := by cls_arith
theorem inClass_colon (b : UInt8) : inClass [(58, 58)] b = (b == cColon) := by cls_arith
theorem inClass_at (b : UInt8) : inClass [(64, 64)] b = (b == cAt) := by cls_arith
theorem inClass_lbracket (b : UInt8) : inClass [(91, 91)] b = (b == 91) := by cls_arith
theorem inClass_rbracket (b : UInt8) : inClass [(93, 93)] b = (b == 93) := by cls_arith
theorem inClass_notAt (b : UInt8) : inClass [(0, 63), (65, 255)] b = (b != cAt) := by
  have := b.toNat_lt
  cls_arith
theorem inClass_notNL (b : UInt8) : inClass [(0, 9), (11, 255)] b = (b != cNL) := by
  have := b.toNat_lt
  cls_arith

/-- A single-byte class matches exactly that byte. -/
theorem lang_cls_byte {rs : List (Nat × Nat)} {c : UInt8} (h : ∀ b, inClass rs b = (b == c))
    (s : Bytes) : lang (.cls rs) s ↔ s = [c] := by
  simp only [lang, h, beq_iff_eq]
  constructor
  · rintro ⟨b, rfl, rfl⟩; rfl
  · rintro rfl; exact ⟨c, rfl, rfl⟩

/-! ### `splitOn` and separated lists -/

theorem splitOn_of_not_mem {sep : UInt8} : ∀ {s : Bytes}, sep ∉ s → splitOn sep s = [s]
  | [], _ => rfl
  | b :: rest, h => by
    simp only [List.mem_cons, not_or] at h
    have hb : b ≠ sep := fun e => h.1 e.symm
    simp [splitOn, hb, splitOn_of_not_mem h.2]

theorem splitOn_append_cons {sep : UInt8} : ∀ {x : Bytes} (y : Bytes), sep ∉ x →
    splitOn sep (x ++ sep :: y) = x :: splitOn sep y
  | [], y, _ => by simp [splitOn]
  | b :: x', y, h => by
    simp only [List.mem_cons, not_or] at h
    have hb : b ≠ sep := fun e => h.1 e.symm
    simp [splitOn, hb, splitOn_append_cons y h.2]

/-- A string either lacks the separator or splits at its first occurrence. -/
theorem split_first (sep : UInt8) (s : Bytes) :
    sep ∉ s ∨ ∃ x y, s = x ++ sep :: y ∧ sep ∉ x := by
  induction s with
  | nil => left; simp
  | cons b rest ih =>
    by_cases hb : b = sep
    · right; exact ⟨[], rest, by simp [hb], by simp⟩
    · rcases ih with h | ⟨x, y, rfl, hx⟩
      · left
        simp only [List.mem_cons, not_or]
        exact ⟨fun e => hb e.symm, h⟩
      · right
        refine ⟨b :: x, y, rfl, ?_⟩
        simp only [List.mem_cons, not_or]
        exact ⟨fun e => hb e.symm, hx⟩

/-- All parts of `splitOn sep s` are in `r`  iff  `s` is in `r (sep r)*`. -/
theorem splitOn_forall_iff_star {sep : UInt8} {r q : Re} (hq : ∀ s, lang q s ↔ s = [sep])
    (hr : ∀ p, lang r p → sep ∉ p) (s : Bytes) :
    (∀ p ∈ splitOn sep s, lang r p) ↔ lang (.cat r (.star (.cat q r))) s := by
  constructor
  · suffices H : ∀ n (s : Bytes), s.length ≤ n → (∀ p ∈ splitOn sep s, lang r p) →
        lang (.cat r (.star (.cat q r))) s from H s.length s (Nat.le_refl _)
    intro n
    induction n with
    | zero =>
      intro s hl h
      have : s = [] := List.eq_nil_of_length_eq_zero (by omega)
      subst this
      exact ⟨[], [], rfl, h [] (by simp [splitOn]), lang_star_nil _⟩
    | succ n ih =>
      intro s hl h
      rcases split_first sep s with hs | ⟨x, y, rfl, hx⟩
      · rw [splitOn_of_not_mem hs] at h
        exact ⟨s, [], by simp, h s (by simp), lang_star_nil _⟩
      · rw [splitOn_append_cons y hx] at h
        have hy := ih y (by simp at hl; omega) (fun p hp => h p (List.mem_cons_of_mem _ hp))
        obtain ⟨x', y', rfl, hx', hy'⟩ := hy
        refine ⟨x, (sep :: x') ++ y', by simp, h x List.mem_cons_self, ?_⟩
        exact lang_star_append ⟨[sep], x', rfl, (hq _).mpr rfl, hx'⟩ hy'
  · rintro ⟨x, y, rfl, hx, hy⟩
    revert x
    refine lang_star_induction (P := fun y => ∀ x, lang r x → ∀ p ∈ splitOn sep (x ++ y), lang r p)
      ?_ ?_ y hy
    · intro x hx p hp
      rw [List.append_nil, splitOn_of_not_mem (hr x hx)] at hp
      simp only [List.mem_singleton] at hp
      subst hp; exact hx
    · rintro u v ⟨u1, x', rfl, hu1, hx'⟩ _ ih x hx p hp
      rw [(hq u1).mp hu1] at hp
      have e : x ++ ([sep] ++ x' ++ v) = x ++ sep :: (x' ++ v) := by simp
      rw [e, splitOn_append_cons _ (hr x hx)] at hp
      rcases List.mem_cons.mp hp with rfl | hp
      · exact hx
      · exact ih x' hx' p hp

/-- At least two parts, all in `r`  iff  `s` is in `r (sep r)+`. -/
theorem splitOn_forall_iff_plus {sep : UInt8} {r q : Re} (hq : ∀ s, lang q s ↔ s = [sep])
    (hr : ∀ p, lang r p → sep ∉ p) (s : Bytes) :
    ((splitOn sep s).length ≥ 2 ∧ ∀ p ∈ splitOn sep s, lang r p) ↔
      lang (.cat r (.plus (.cat q r))) s := by
  constructor
  · rintro ⟨hl, h⟩
    rcases split_first sep s with hs | ⟨x, y, rfl, hx⟩
    · rw [splitOn_of_not_mem hs] at hl; simp at hl
    · rw [splitOn_append_cons y hx] at h
      have hy := (splitOn_forall_iff_star hq hr y).mp
        (fun p hp => h p (List.mem_cons_of_mem _ hp))
      obtain ⟨x', y', rfl, hx', hy'⟩ := hy
      refine ⟨x, (sep :: x') ++ y', by simp, h x List.mem_cons_self, ?_⟩
      exact lang_plus_iff.mpr ⟨sep :: x', y', rfl, ⟨[sep], x', rfl, (hq _).mpr rfl, hx'⟩, hy'⟩
  · rintro ⟨x, y, rfl, hx, hy⟩
    obtain ⟨u, v, rfl, ⟨u1, x', rfl, hu1, hx'⟩, hv⟩ := lang_plus_iff.mp hy
    rw [(hq u1).mp hu1]
    have e : x ++ ([sep] ++ x' ++ v) = x ++ sep :: (x' ++ v) := by simp
    rw [e, splitOn_append_cons _ (hr x hx)]
    have hrest := (splitOn_forall_iff_star hq hr (x' ++ v)).mpr ⟨x', v, rfl, hx', hv⟩
    constructor
    · have := splitOn_ne_nil sep (x' ++ v)
      cases hsp : splitOn sep (x' ++ v) with
      | nil => exact absurd hsp this
      | cons a l => simp
    · intro p hp
      rcases List.mem_cons.mp hp with rfl | hp
      · exact hx
      · exact hrest p hp

/-- Dropping the iterations: a member of `r q*` is in `r` or in `r q+`. -/
theorem lang_cat_star_cases {r q : Re} {s : Bytes} (h : lang (.cat r (.star q)) s) :
    lang r s ∨ lang (.cat r (.plus q)) s := by
  obtain ⟨x, y, rfl, hx, hy⟩ := h
  rcases lang_star_iff_nil_or_plus.mp hy with rfl | hy
  · left; simpa using hx
  · right; exact ⟨x, y, rfl, hx, hy⟩

/-! ### The repository pattern -/

/-- `[a-z0-9]` -/
def alnumLowerCls : Re := .cls [(48, 57), (97, 122)]
/-- `alphanumeric` = `[a-z0-9]+` -/
def alphanumericRe : Re := .plus alnumLowerCls
/-- `separator` = `[._]|__|-+` -/
def separatorRe : Re :=
  .alt (.cls [(46, 46), (95, 95)]) (.alt (.cat (.cls [(95, 95)]) (.cls [(95, 95)])) (.plus (.cls [(45, 45)])))
/-- `separator alphanumeric` -/
def sepAlnumRe : Re := .cat separatorRe alphanumericRe
/-- `pathComponent` = `alphanumeric (separator alphanumeric)*` -/
def pathComponentRe : Re := .cat alphanumericRe (.star sepAlnumRe)
def slashCls : Re := .cls [(47, 47)]
/-- What `pathTail` recognises: `[a-z0-9]* (separator alphanumeric)*`. -/
def pathTailRe : Re := .cat (.star alnumLowerCls) (.star sepAlnumRe)

/-- The regenerated tree, with its subtrees named (regexp/syntax flattens concatenations). -/
theorem repoPatRe_eq : repoPatRe =
    .cat alphanumericRe (.cat (.star sepAlnumRe)
      (.star (.cat slashCls (.cat alphanumericRe (.star sepAlnumRe))))) := rfl

theorem repoPatRe_equiv :
    Equiv repoPatRe (.cat pathComponentRe (.star (.cat slashCls pathComponentRe))) := by
  rw [repoPatRe_eq]
  exact Equiv.cat_assoc _ _ _

theorem lang_alnumLower_star {s : Bytes} :
    lang (.star alnumLowerCls) s ↔ ∀ b ∈ s, isAlnumLower b = true := by
  simp only [alnumLowerCls, lang_star_cls_iff, inClass_alnumLower]

theorem lang_alphanumeric {s : Bytes} :
    lang alphanumericRe s ↔ s ≠ [] ∧ ∀ b ∈ s, isAlnumLower b = true := by
  simp only [alphanumericRe, alnumLowerCls, lang_plus_cls_iff, inClass_alnumLower]

theorem lang_separator {s : Bytes} : lang separatorRe s ↔ isSeparator s = true := by
  simp only [separatorRe, lang_alt_iff, lang_plus_cls_iff, lang_cat_cls_iff, lang_cls_iff,
    inClass_dotUnder, inClass_under, inClass_dash, isSeparator, Bool.or_eq_true, beq_iff_eq,
    Bool.and_eq_true, bne_iff_ne, ne_eq, List.all_eq_true]
  constructor
  · rintro (⟨b, rfl, rfl | rfl⟩ | ⟨c, t, rfl, rfl, b, rfl, rfl⟩ | ⟨hne, hall⟩)
    · simp
    · simp
    · simp
    · exact Or.inr ⟨hne, hall⟩
  · rintro (((rfl | rfl) | rfl) | ⟨hne, hall⟩)
    · exact Or.inl ⟨cDot, rfl, Or.inl rfl⟩
    · exact Or.inl ⟨cUnder, rfl, Or.inr rfl⟩
    · exact Or.inr (Or.inl ⟨cUnder, [cUnder], rfl, rfl, cUnder, rfl, rfl⟩)
    · exact Or.inr (Or.inr ⟨hne, hall⟩)

/-- A separator is non-empty and contains no alphanumeric. -/
theorem isSeparator_spec {r : Bytes} (h : isSeparator r = true) :
    r ≠ [] ∧ ∀ c ∈ r, (!isAlnumLower c) = true := by
  simp only [isSeparator, Bool.or_eq_true, beq_iff_eq, Bool.and_eq_true, List.all_eq_true,
    bne_iff_ne, ne_eq] at h
  rcases h with ((h | h) | h) | h
  · subst h; exact ⟨by simp, by decide⟩
  · subst h; exact ⟨by simp, by decide⟩
  · subst h; exact ⟨by simp, by decide⟩
  · refine ⟨h.1, ?_⟩
    intro c hc
    have := h.2 c hc; subst this; decide

theorem lang_pathTail_nil : lang pathTailRe [] :=
  ⟨[], [], rfl, lang_star_nil _, lang_star_nil _⟩

/-- A member of `separator alphanumeric`, taken apart. -/
theorem lang_sepAlnum {s : Bytes} (h : lang sepAlnumRe s) :
    ∃ sp a al, s = sp ++ a :: al ∧ isSeparator sp = true ∧ isAlnumLower a = true ∧
      ∀ b ∈ al, isAlnumLower b = true := by
  obtain ⟨sp, al, rfl, hsp, hal⟩ := h
  obtain ⟨hne, hall⟩ := lang_alphanumeric.mp hal
  cases al with
  | nil => exact absurd rfl hne
  | cons a al' =>
    exact ⟨sp, a, al', rfl, lang_separator.mp hsp, hall a List.mem_cons_self,
      fun b hb => hall b (List.mem_cons_of_mem _ hb)⟩

theorem lang_pathTail_cons_alnum {c : UInt8} {t : Bytes} (hc : isAlnumLower c = true) :
    lang pathTailRe (c :: t) ↔ lang pathTailRe t := by
  constructor
  · rintro ⟨x, y, e, hx, hy⟩
    cases x with
    | nil =>
      simp only [List.nil_append] at e
      subst e
      obtain ⟨u, v, rfl, hu, _⟩ := lang_star_cons_iff.mp hy
      obtain ⟨sp, a, al, e, hsp, _, _⟩ := lang_sepAlnum hu
      obtain ⟨hne, hna⟩ := isSeparator_spec hsp
      cases sp with
      | nil => exact absurd rfl hne
      | cons d sp' =>
        simp only [List.cons_append, List.cons.injEq] at e
        have := hna d List.mem_cons_self
        rw [← e.1, hc] at this
        cases this
    | cons d x' =>
      simp only [List.cons_append, List.cons.injEq] at e
      obtain ⟨rfl, rfl⟩ := e
      refine ⟨x', y, rfl, ?_, hy⟩
      rw [lang_alnumLower_star] at hx ⊢
      exact fun b hb => hx b (List.mem_cons_of_mem _ hb)
  · rintro ⟨x, y, rfl, hx, hy⟩
    refine ⟨c :: x, y, rfl, ?_, hy⟩
    rw [lang_alnumLower_star] at hx ⊢
    intro b hb
    rcases List.mem_cons.mp hb with rfl | hb
    · exact hc
    · exact hx b hb

theorem lang_pathTail_cons_sep {c : UInt8} {t : Bytes} (hc : isAlnumLower c = false) :
    lang pathTailRe (c :: t) ↔
      ∃ sp a u, c :: t = sp ++ a :: u ∧ isSeparator sp = true ∧ isAlnumLower a = true ∧
        lang pathTailRe u := by
  constructor
  · rintro ⟨x, y, e, hx, hy⟩
    cases x with
    | cons d x' =>
      simp only [List.cons_append, List.cons.injEq] at e
      have := lang_alnumLower_star.mp hx d List.mem_cons_self
      rw [← e.1, hc] at this
      cases this
    | nil =>
      simp only [List.nil_append] at e
      subst e
      obtain ⟨u, v, rfl, hu, hv⟩ := lang_star_cons_iff.mp hy
      obtain ⟨sp, a, al, e, hsp, ha, hal⟩ := lang_sepAlnum hu
      refine ⟨sp, a, al ++ v, ?_, hsp, ha, al, v, rfl, lang_alnumLower_star.mpr hal, hv⟩
      rw [← List.cons_append, e]; simp
  · rintro ⟨sp, a, u, e, hsp, ha, x, y, rfl, hx, hy⟩
    rw [e]
    refine ⟨[], (sp ++ a :: x) ++ y, by simp, lang_star_nil _, ?_⟩
    refine lang_star_append ⟨sp, a :: x, rfl, lang_separator.mpr hsp, ?_⟩ hy
    refine lang_alphanumeric.mpr ⟨by simp, ?_⟩
    intro b hb
    rcases List.mem_cons.mp hb with rfl | hb
    · exact ha
    · exact lang_alnumLower_star.mp hx b hb

/-- `pathTail` (with enough fuel) recognises `[a-z0-9]* (separator alphanumeric)*`. -/
theorem pathTail_iff : ∀ (fuel : Nat) (s : Bytes), s.length ≤ fuel →
    (pathTail fuel s = true ↔ lang pathTailRe s)
  | _, [], _ => by simp [pathTail, lang_pathTail_nil]
  | 0, _ :: _, h => by simp at h
  | fuel + 1, c :: rest, hl => by
    have hl' : rest.length ≤ fuel := by simpa using hl
    unfold pathTail
    by_cases hc : isAlnumLower c = true
    · simp only [hc, if_true]
      rw [lang_pathTail_cons_alnum hc]
      exact pathTail_iff fuel rest hl'
    · have hc' : isAlnumLower c = false := by simpa using hc
      simp only [hc', Bool.false_eq_true, if_false]
      rw [lang_pathTail_cons_sep hc']
      have hsplit := List.takeWhile_append_dropWhile
        (p := fun c => !isAlnumLower c) (l := c :: rest)
      constructor
      · intro h
        generalize hsep : (c :: rest).takeWhile (fun c => !isAlnumLower c) = sep at h hsplit
        generalize hafter : (c :: rest).dropWhile (fun c => !isAlnumLower c) = after at h hsplit
        simp only [Bool.and_eq_true, bne_iff_ne, ne_eq] at h
        obtain ⟨⟨hs, hne⟩, ht⟩ := h
        cases after with
        | nil => exact absurd rfl hne
        | cons a after' =>
          have ha : isAlnumLower a = true := by simpa using dropWhile_head_false _ hafter
          simp only [List.drop_succ_cons, List.drop_zero] at ht
          have hlen : after'.length ≤ fuel := by
            have := congrArg List.length hsplit
            simp at this; omega
          exact ⟨sep, a, after', hsplit.symm, hs, ha, (pathTail_iff fuel after' hlen).mp ht⟩
      · rintro ⟨sp, a, u, e, hsp, ha, hu⟩
        have hspP := (isSeparator_spec hsp).2
        have haP : (!isAlnumLower a) = false := by simp [ha]
        rw [e, takeWhile_append_cons _ hspP haP, dropWhile_append_cons _ hspP haP]
        have hlen : u.length ≤ fuel := by
          have := congrArg List.length e
          simp at this; omega
        simp [hsp, (pathTail_iff fuel u hlen).mpr hu]

theorem pathComponentRe_equiv : Equiv pathComponentRe (.cat alnumLowerCls pathTailRe) := by
  unfold pathComponentRe pathTailRe alphanumericRe
  exact (Equiv.cat (Equiv.plus_unfold _) (Equiv.refl _)).trans (Equiv.cat_assoc _ _ _).symm

theorem isPathComponent_iff (s : Bytes) : isPathComponent s = true ↔ lang pathComponentRe s := by
  rw [pathComponentRe_equiv s]
  cases s with
  | nil => simp [isPathComponent, lang, alnumLowerCls]
  | cons c rest =>
    simp only [isPathComponent, Bool.and_eq_true, alnumLowerCls, lang_cat_cls_cons_iff,
      inClass_alnumLower, pathTail_iff rest.length rest (Nat.le_refl _)]

theorem lang_slashCls (s : Bytes) : lang slashCls s ↔ s = [cSlash] :=
  lang_cls_byte inClass_slash s

theorem pathComponent_no_slash (p : Bytes) (h : lang pathComponentRe p) : cSlash ∉ p :=
  not_mem_of_avoids (by decide) h

/-- `isRepo` accepts exactly the language of `pathComponent (/ pathComponent)*`. -/
theorem isRepo_iff (s : Bytes) : isRepo s = true ↔ lang repoPatRe s := by
  rw [repoPatRe_equiv s, ← splitOn_forall_iff_star lang_slashCls pathComponent_no_slash]
  simp only [isRepo, List.all_eq_true, isPathComponent_iff]

/-! ### The host pattern -/

/-- `[a-zA-Z0-9]` -/
def alnumCls : Re := .cls [(48, 57), (65, 90), (97, 122)]
/-- `[a-zA-Z0-9-]` -/
def alnumDashCls : Re := .cls [(45, 45), (48, 57), (65, 90), (97, 122)]
/-- `(?:[a-zA-Z0-9-]*[a-zA-Z0-9])?` -/
def dcTailRe : Re := .opt (.cat (.star alnumDashCls) alnumCls)
/-- `domainNameComponent` -/
def domainComponentRe : Re := .cat alnumCls dcTailRe
def dotCls : Re := .cls [(46, 46)]
def colonCls : Re := .cls [(58, 58)]
/-- `port` = `[0-9]+` -/
def portRe : Re := .plus (.cls [(48, 57)])
/-- `:port` -/
def colonPortRe : Re := .cat colonCls portRe
/-- `domainName` as regexp/syntax flattens it. -/
def domainNameRawRe : Re :=
  .cat alnumCls (.cat dcTailRe (.plus (.cat dotCls (.cat alnumCls dcTailRe))))
/-- `domainName` = `domainNameComponent (\. domainNameComponent)+` -/
def domainNameRe : Re := .cat domainComponentRe (.plus (.cat dotCls domainComponentRe))
/-- `ipv6address` = `\[[a-fA-F0-9:]+\]` -/
def ipv6Re : Re :=
  .cat (.cls [(91, 91)]) (.cat (.plus (.cls [(48, 58), (65, 70), (97, 102)])) (.cls [(93, 93)]))

/-- The regenerated tree, with its subtrees named. -/
theorem hostPatRe_eq : hostPatRe =
    .alt (.cat (.alt domainNameRawRe ipv6Re) (.opt colonPortRe))
      (.cat alnumCls (.cat dcTailRe colonPortRe)) := rfl

theorem domainNameRaw_equiv : Equiv domainNameRawRe domainNameRe :=
  Equiv.cat_assoc alnumCls dcTailRe _

/-- `hostPat` = `domainName(:port)? | ipv6address(:port)? | domainNameComponent:port`. -/
theorem lang_hostPatRe (s : Bytes) : lang hostPatRe s ↔
    (lang (.cat domainNameRe (.opt colonPortRe)) s ∨ lang (.cat ipv6Re (.opt colonPortRe)) s) ∨
      lang (.cat domainComponentRe colonPortRe) s := by
  rw [hostPatRe_eq, lang_alt_iff, lang_cat_alt_left,
    Equiv.cat domainNameRaw_equiv (Equiv.refl _) s,
    Equiv.cat_assoc alnumCls dcTailRe colonPortRe s]
  rfl

theorem lang_dcTail (rest : Bytes) : lang dcTailRe rest ↔
    (rest.all (fun c => isAlnum c || c == cDash) &&
      (match rest.getLast? with | .none => true | .some l => isAlnum l)) = true := by
  rcases List.eq_nil_or_concat rest with rfl | ⟨x, l, rfl⟩
  · simp [dcTailRe, lang_opt_iff]
  · rw [List.concat_eq_append]
    simp only [dcTailRe, alnumCls, alnumDashCls, lang_opt_iff, lang_cat_cls_right_iff,
      lang_star_cls_iff, inClass_alnum, inClass_alnumDash, List.getLast?_concat,
      List.all_append, List.all_cons, List.all_nil, Bool.and_true, Bool.and_eq_true,
      List.all_eq_true]
    constructor
    · rintro (h | ⟨x', l', e, hx, hl⟩)
      · simp at h
      · obtain ⟨rfl, e2⟩ := List.append_inj' e rfl
        cases e2
        exact ⟨⟨hx, by simp [hl]⟩, hl⟩
    · rintro ⟨⟨hx, _⟩, hl⟩
      exact Or.inr ⟨x, l, rfl, hx, hl⟩

theorem lang_domainComponent (s : Bytes) :
    lang domainComponentRe s ↔ isDomainComponent s = true := by
  cases s with
  | nil => simp [domainComponentRe, alnumCls, lang_cat_cls_iff, isDomainComponent]
  | cons c rest =>
    simp only [domainComponentRe, alnumCls, lang_cat_cls_cons_iff, inClass_alnum]
    rw [lang_dcTail]
    simp only [isDomainComponent, Bool.and_eq_true]
    exact ⟨fun ⟨a, b, c⟩ => ⟨⟨a, b⟩, c⟩, fun ⟨⟨a, b⟩, c⟩ => ⟨a, b, c⟩⟩

theorem lang_port (s : Bytes) : lang portRe s ↔ isPort s = true := by
  simp only [portRe, lang_plus_cls_iff, inClass_digit, isPort, Bool.and_eq_true, bne_iff_ne,
    ne_eq, List.all_eq_true]

theorem lang_colonPort (s : Bytes) :
    lang colonPortRe s ↔ ∃ p, s = cColon :: p ∧ isPort p = true := by
  simp only [colonPortRe, colonCls, lang_cat_cls_iff, inClass_colon, beq_iff_eq, lang_port]
  constructor
  · rintro ⟨c, t, rfl, rfl, h⟩; exact ⟨t, rfl, h⟩
  · rintro ⟨p, rfl, h⟩; exact ⟨cColon, p, rfl, rfl, h⟩

theorem lang_optColonPort (s : Bytes) :
    lang (.opt colonPortRe) s ↔ s = [] ∨ ∃ p, s = cColon :: p ∧ isPort p = true := by
  rw [lang_opt_iff, lang_colonPort]

theorem lang_ipv6 (s : Bytes) : lang ipv6Re s ↔
    ∃ body, s = 91 :: (body ++ [93]) ∧ body ≠ [] ∧ ∀ b ∈ body, isIPv6Char b = true := by
  simp only [ipv6Re, lang_cat_cls_iff, lang_cat_cls_right_iff, lang_plus_cls_iff,
    inClass_lbracket, inClass_rbracket, inClass_ipv6, beq_iff_eq]
  constructor
  · rintro ⟨c, t, rfl, rfl, x, d, rfl, ⟨hne, hall⟩, rfl⟩; exact ⟨x, rfl, hne, hall⟩
  · rintro ⟨body, rfl, hne, hall⟩; exact ⟨91, _, rfl, rfl, body, 93, rfl, ⟨hne, hall⟩, rfl⟩

/-- The `[`-branch of `isHost`. -/
def hostBracketBody (rest : Bytes) : Bool :=
  let body := rest.takeWhile (· != 93)
  match rest.dropWhile (· != 93) with
  | [] => false
  | _ :: after =>
    body != [] && body.all isIPv6Char &&
      (match after with
       | [] => true
       | c :: p => c == cColon && isPort p)

/-- The other branch of `isHost`. -/
def hostDomainBody (s : Bytes) : Bool :=
  let hostPart := s.takeWhile (· != cColon)
  let comps := splitOn cDot hostPart
  match s.dropWhile (· != cColon) with
  | [] => comps.length ≥ 2 && comps.all isDomainComponent
  | _ :: p => comps.all isDomainComponent && isPort p

theorem isHost_bracket (rest : Bytes) : isHost (91 :: rest) = hostBracketBody rest := by
  unfold isHost hostBracketBody
  split
  · rename_i r h; cases h; rfl
  · rename_i h; exact absurd rfl (h rest)

theorem isHost_nobracket {c : UInt8} (rest : Bytes) (hc : c ≠ 91) :
    isHost (c :: rest) = hostDomainBody (c :: rest) := by
  unfold isHost hostDomainBody
  split
  · rename_i r h; cases h; exact absurd rfl hc
  · rfl

theorem isIPv6Char_ne_rbracket {c : UInt8} (h : isIPv6Char c = true) : (c != 93) = true := by
  simp only [bne_iff_ne, ne_eq]; rintro rfl; revert h; decide

theorem hostBracketBody_iff (rest : Bytes) : hostBracketBody rest = true ↔
    ∃ body after, rest = body ++ 93 :: after ∧ body ≠ [] ∧ (∀ b ∈ body, isIPv6Char b = true) ∧
      (after = [] ∨ ∃ p, after = cColon :: p ∧ isPort p = true) := by
  constructor
  · intro h
    unfold hostBracketBody at h
    simp only at h
    have hsplit := List.takeWhile_append_dropWhile (p := fun c => c != 93) (l := rest)
    generalize hbody : rest.takeWhile (fun c => c != 93) = body at h hsplit
    generalize hdrop : rest.dropWhile (fun c => c != 93) = dr at h hsplit
    cases dr with
    | nil => simp at h
    | cons x after =>
      have hx : x = 93 := by simpa using dropWhile_head_false _ hdrop
      subst hx
      simp only [Bool.and_eq_true, bne_iff_ne, ne_eq, List.all_eq_true] at h
      refine ⟨body, after, hsplit.symm, h.1.1, h.1.2, ?_⟩
      cases after with
      | nil => exact Or.inl rfl
      | cons c p =>
        simp only [Bool.and_eq_true, beq_iff_eq] at h
        exact Or.inr ⟨p, by rw [h.2.1], h.2.2⟩
  · rintro ⟨body, after, rfl, hne, hall, hafter⟩
    have hP : ∀ c ∈ body, (c != 93) = true := fun c hc => isIPv6Char_ne_rbracket (hall c hc)
    have h93 : ((93 : UInt8) != 93) = false := by decide
    unfold hostBracketBody
    simp only [takeWhile_append_cons _ hP h93, dropWhile_append_cons _ hP h93]
    rcases hafter with rfl | ⟨p, rfl, hp⟩
    · simpa [hne] using hall
    · simpa [hne, hp] using hall

theorem hostDomainBody_iff (s : Bytes) : hostDomainBody s = true ↔
    ∃ hp, cColon ∉ hp ∧ (∀ p ∈ splitOn cDot hp, isDomainComponent p = true) ∧
      ((s = hp ∧ (splitOn cDot hp).length ≥ 2) ∨ ∃ p, s = hp ++ cColon :: p ∧ isPort p = true) := by
  constructor
  · intro h
    unfold hostDomainBody at h
    simp only at h
    have hsplit := List.takeWhile_append_dropWhile (p := fun c => c != cColon) (l := s)
    have hmem : cColon ∉ s.takeWhile (fun c => c != cColon) := by
      intro hm
      have := mem_takeWhile_true (fun c => c != cColon) hm
      simp at this
    generalize hbody : s.takeWhile (fun c => c != cColon) = hp at h hsplit hmem
    generalize hdrop : s.dropWhile (fun c => c != cColon) = dr at h hsplit
    cases dr with
    | nil =>
      simp only [Bool.and_eq_true, decide_eq_true_eq, List.all_eq_true] at h
      exact ⟨hp, hmem, h.2, Or.inl ⟨by simpa using hsplit.symm, h.1⟩⟩
    | cons x p =>
      have hx : x = cColon := by simpa using dropWhile_head_false _ hdrop
      subst hx
      simp only [Bool.and_eq_true, List.all_eq_true] at h
      exact ⟨hp, hmem, h.1, Or.inr ⟨p, hsplit.symm, h.2⟩⟩
  · rintro ⟨hp, hmem, hall, ⟨rfl, hlen⟩ | ⟨p, rfl, hport⟩⟩
    · have hP : ∀ c ∈ s, (c != cColon) = true := by
        intro c hc; simp only [bne_iff_ne, ne_eq]; rintro rfl; exact hmem hc
      unfold hostDomainBody
      simp only [takeWhile_all _ hP, dropWhile_all _ hP]
      simp only [Bool.and_eq_true, decide_eq_true_eq, List.all_eq_true]
      exact ⟨hlen, hall⟩
    · have hP : ∀ c ∈ hp, (c != cColon) = true := by
        intro c hc; simp only [bne_iff_ne, ne_eq]; rintro rfl; exact hmem hc
      have hcc : (cColon != cColon) = false := by decide
      unfold hostDomainBody
      simp only [takeWhile_append_cons _ hP hcc, dropWhile_append_cons _ hP hcc]
      simp only [Bool.and_eq_true, List.all_eq_true]
      exact ⟨hall, hport⟩

theorem lang_dotCls (s : Bytes) : lang dotCls s ↔ s = [cDot] := lang_cls_byte inClass_dot s

theorem domainComponent_no_dot (p : Bytes) (h : lang domainComponentRe p) : cDot ∉ p :=
  not_mem_of_avoids (by decide) h

/-- The two domain alternatives of `hostPat`, as the specification of `hostDomainBody`. -/
theorem lang_domainAlternatives (s : Bytes) :
    (lang (.cat domainNameRe (.opt colonPortRe)) s ∨ lang (.cat domainComponentRe colonPortRe) s) ↔
    ∃ hp, cColon ∉ hp ∧ (∀ p ∈ splitOn cDot hp, isDomainComponent p = true) ∧
      ((s = hp ∧ (splitOn cDot hp).length ≥ 2) ∨ ∃ p, s = hp ++ cColon :: p ∧ isPort p = true) := by
  have hstar := splitOn_forall_iff_star lang_dotCls domainComponent_no_dot
  have hplus := splitOn_forall_iff_plus lang_dotCls domainComponent_no_dot
  simp only [← lang_domainComponent]
  constructor
  · rintro (⟨x, y, rfl, hx, hy⟩ | ⟨x, y, rfl, hx, hy⟩)
    · have hcol : cColon ∉ x := not_mem_of_avoids (by decide) hx
      obtain ⟨hlen, hall⟩ := (hplus x).mpr hx
      rcases (lang_optColonPort y).mp hy with rfl | ⟨p, rfl, hp⟩
      · exact ⟨x, hcol, hall, Or.inl ⟨by simp, hlen⟩⟩
      · exact ⟨x, hcol, hall, Or.inr ⟨p, rfl, hp⟩⟩
    · have hcol : cColon ∉ x := not_mem_of_avoids (by decide) hx
      obtain ⟨p, rfl, hp⟩ := (lang_colonPort y).mp hy
      refine ⟨x, hcol, (hstar x).mpr ⟨x, [], by simp, hx, lang_star_nil _⟩, Or.inr ⟨p, rfl, hp⟩⟩
  · rintro ⟨hp, _, hall, ⟨rfl, hlen⟩ | ⟨p, rfl, hport⟩⟩
    · left
      exact ⟨s, [], by simp, (hplus s).mp ⟨hlen, hall⟩, Or.inl rfl⟩
    · have hcp : lang colonPortRe (cColon :: p) := (lang_colonPort _).mpr ⟨p, rfl, hport⟩
      rcases lang_cat_star_cases ((hstar hp).mp hall) with h | h
      · right; exact ⟨hp, _, rfl, h, hcp⟩
      · left; exact ⟨hp, _, rfl, h, Or.inr hcp⟩

/-- The `[` alternative of `hostPat`, as the specification of `hostBracketBody`. -/
theorem lang_ipv6Alternative (s : Bytes) : lang (.cat ipv6Re (.opt colonPortRe)) s ↔
    ∃ rest, s = 91 :: rest ∧ ∃ body after, rest = body ++ 93 :: after ∧ body ≠ [] ∧
      (∀ b ∈ body, isIPv6Char b = true) ∧
      (after = [] ∨ ∃ p, after = cColon :: p ∧ isPort p = true) := by
  constructor
  · rintro ⟨x, y, rfl, hx, hy⟩
    obtain ⟨body, rfl, hne, hall⟩ := (lang_ipv6 x).mp hx
    exact ⟨body ++ 93 :: y, by simp, body, y, rfl, hne, hall, (lang_optColonPort y).mp hy⟩
  · rintro ⟨_, rfl, body, after, rfl, hne, hall, hafter⟩
    exact ⟨91 :: (body ++ [93]), after, by simp, (lang_ipv6 _).mpr ⟨body, rfl, hne, hall⟩,
      (lang_optColonPort after).mpr hafter⟩

/-- `isHost` accepts exactly the language of `hostPat`. -/
theorem isHost_iff (s : Bytes) : isHost s = true ↔ lang hostPatRe s := by
  rw [lang_hostPatRe]
  cases s with
  | nil =>
    have h1 : ¬ lang (.cat domainNameRe (.opt colonPortRe)) [] := by decide
    have h2 : ¬ lang (.cat ipv6Re (.opt colonPortRe)) [] := by decide
    have h3 : ¬ lang (.cat domainComponentRe colonPortRe) [] := by decide
    simp [isHost_nil, h1, h2, h3]
  | cons c rest =>
    by_cases hc : c = 91
    · subst hc
      have h1 : ¬ lang (.cat domainNameRe (.opt colonPortRe)) (91 :: rest) :=
        not_lang_cons_of_noStart (by decide)
      have h3 : ¬ lang (.cat domainComponentRe colonPortRe) (91 :: rest) :=
        not_lang_cons_of_noStart (by decide)
      rw [isHost_bracket, hostBracketBody_iff, lang_ipv6Alternative]
      simp only [h1, h3, false_or, or_false, List.cons.injEq, true_and, exists_eq_left']
    · have h2 : ¬ lang (.cat ipv6Re (.opt colonPortRe)) (c :: rest) := by
        rw [lang_ipv6Alternative]
        rintro ⟨_, e, _⟩
        simp only [List.cons.injEq] at e
        exact hc e.1
      rw [isHost_nobracket rest hc, hostDomainBody_iff, ← lang_domainAlternatives]
      simp only [h2, or_false]

/-! ### The reference pattern -/

def atCls : Re := .cls [(64, 64)]
/-- `[^@]+` (capture 3) -/
def tagRe : Re := .plus (.cls [(0, 63), (65, 255)])
/-- `.+` (capture 4; `.` does not match a newline) -/
def digestRe : Re := .plus (.cls [(0, 9), (11, 255)])
/-- `(repoName)(?::([^@]+))?(?:@(.+))?` — `referencePat` after its optional host. -/
def restRe : Re :=
  .cat (.grp 2 repoPatRe)
    (.cat (.opt (.cat colonCls (.grp 3 tagRe))) (.opt (.cat atCls (.grp 4 digestRe))))

/-- The regenerated tree, with its subtrees named. -/
theorem referencePatRe_eq :
    referencePatRe = .cat (.opt (.cat (.grp 1 hostPatRe) slashCls)) restRe := rfl

theorem lang_tag (t : Bytes) : lang tagRe t ↔ t ≠ [] ∧ ∀ c ∈ t, c ≠ cAt := by
  simp only [tagRe, lang_plus_cls_iff, inClass_notAt, bne_iff_ne, ne_eq]

theorem lang_digest (d : Bytes) : lang digestRe d ↔ d ≠ [] ∧ ∀ c ∈ d, c ≠ cNL := by
  simp only [digestRe, lang_plus_cls_iff, inClass_notNL, bne_iff_ne, ne_eq]

/-- The tail of a reference: repository, optional `:tag`, optional `@digest`. -/
def restShape (s p t d : Bytes) : Prop :=
  s = p ++ (if t ≠ [] then cColon :: t else []) ++ (if d ≠ [] then cAt :: d else [])

theorem lang_restRe (s : Bytes) : lang restRe s ↔
    ∃ p t d, isRepo p = true ∧ (t = [] ∨ lang tagRe t) ∧ (d = [] ∨ lang digestRe d) ∧
      restShape s p t d := by
  unfold restShape
  constructor
  · rintro ⟨p, _, rfl, hp, y, z, rfl, hy, hz⟩
    have hp' : isRepo p = true := (isRepo_iff p).mpr hp
    have hy' : ∃ t, (t = [] ∨ lang tagRe t) ∧ y = if t ≠ [] then cColon :: t else [] := by
      rcases hy with rfl | hy
      · exact ⟨[], Or.inl rfl, by simp⟩
      · simp only [colonCls, lang_cat_cls_iff, inClass_colon, beq_iff_eq, lang_grp_iff] at hy
        obtain ⟨c, t, rfl, rfl, ht⟩ := hy
        have : t ≠ [] := ((lang_tag t).mp ht).1
        exact ⟨t, Or.inr ht, by simp [this]⟩
    have hz' : ∃ d, (d = [] ∨ lang digestRe d) ∧ z = if d ≠ [] then cAt :: d else [] := by
      rcases hz with rfl | hz
      · exact ⟨[], Or.inl rfl, by simp⟩
      · simp only [atCls, lang_cat_cls_iff, inClass_at, beq_iff_eq, lang_grp_iff] at hz
        obtain ⟨c, d, rfl, rfl, hd⟩ := hz
        have : d ≠ [] := ((lang_digest d).mp hd).1
        exact ⟨d, Or.inr hd, by simp [this]⟩
    obtain ⟨t, ht, rfl⟩ := hy'
    obtain ⟨d, hd, rfl⟩ := hz'
    exact ⟨p, t, d, hp', ht, hd, by simp⟩
  · rintro ⟨p, t, d, hp, ht, hd, rfl⟩
    rw [List.append_assoc]
    refine ⟨p, _, rfl, (isRepo_iff p).mp hp, _, _, rfl, ?_, ?_⟩
    · by_cases h : t = []
      · left; simp [h]
      · right
        simp only [ne_eq, h, not_false_eq_true, if_true]
        exact ⟨[cColon], t, rfl, (lang_cls_byte inClass_colon _).mpr rfl, ht.resolve_left h⟩
    · by_cases h : d = []
      · left; simp [h]
      · right
        simp only [ne_eq, h, not_false_eq_true, if_true]
        exact ⟨[cAt], d, rfl, (lang_cls_byte inClass_at _).mpr rfl, hd.resolve_left h⟩

/-- `parseRest_print` of RefLemmas with the weakest conditions on tag and digest: the ones the
pattern imposes. -/
theorem parseRest_of_shape {p t d : Bytes} (hp : isRepo p = true)
    (ht : t = [] ∨ lang tagRe t) (hd : d = [] ∨ lang digestRe d) :
    parseRest (p ++ (if t ≠ [] then cColon :: t else []) ++
      (if d ≠ [] then cAt :: d else [])) = some (p, t, d) := by
  have hpP : ∀ c ∈ p, (c != cColon && c != cAt) = true := by
    intro c hc
    have := isRepo_noColAt hp c hc
    simp [this.1, this.2]
  have hcol : (cColon != cColon && cColon != cAt) = false := by decide
  have hat : (cAt != cColon && cAt != cAt) = false := by decide
  have hdok : d ≠ [] → (d != [] && d.all (fun c => c != cNL)) = true := by
    intro hne
    rcases hd with hd | hd
    · exact absurd hd hne
    · simp only [Bool.and_eq_true, bne_iff_ne, List.all_eq_true]
      exact ⟨by simpa using hne, fun c hc => by simpa using ((lang_digest d).mp hd).2 c hc⟩
  have htP : ∀ c ∈ t, (c != cAt) = true := by
    intro c hc
    rcases ht with ht | ht
    · subst ht; simp at hc
    · simpa using ((lang_tag t).mp ht).2 c hc
  by_cases ht0 : t = [] <;> by_cases hd0 : d = []
  · subst ht0; subst hd0
    simp only [ne_eq, not_true_eq_false, if_false, List.append_nil]
    simp only [parseRest, takeWhile_all _ hpP, dropWhile_all _ hpP, hp]
    simp
  · subst ht0
    simp only [ne_eq, not_true_eq_false, if_false, List.append_nil, hd0, not_false_eq_true,
      if_true]
    simp only [parseRest, takeWhile_append_cons _ hpP hat, dropWhile_append_cons _ hpP hat, hp]
    simp [hdok hd0]
  · subst hd0
    simp only [ne_eq, not_true_eq_false, if_false, List.append_nil, ht0, not_false_eq_true,
      if_true]
    simp only [parseRest, takeWhile_append_cons _ hpP hcol, dropWhile_append_cons _ hpP hcol, hp,
      takeWhile_all _ htP, dropWhile_all _ htP]
    have : (cColon == cAt) = false := by decide
    simp [this, ht0]
  · simp only [ne_eq, ht0, hd0, not_false_eq_true, if_true, List.append_assoc,
      List.cons_append]
    have hat' : (cAt != cAt) = false := by decide
    simp only [parseRest, takeWhile_append_cons _ hpP hcol, dropWhile_append_cons _ hpP hcol, hp,
      takeWhile_append_cons _ htP hat', dropWhile_append_cons _ htP hat']
    have : (cColon == cAt) = false := by decide
    simp [this, ht0, hdok hd0]

/-- What `parseRest` returns as tag and digest satisfies the pattern's groups 3 and 4. -/
theorem parseRest_groups {s p t d : Bytes} (h : parseRest s = some (p, t, d)) :
    (t = [] ∨ lang tagRe t) ∧ (d = [] ∨ lang digestRe d) := by
  unfold parseRest at h
  simp only at h
  generalize s.takeWhile (fun c => c != cColon && c != cAt) = repo at h
  generalize s.dropWhile (fun c => c != cColon && c != cAt) = tail at h
  have hdig : ∀ d : Bytes, (d != []) = true ∧ d.all (fun c => c != cNL) = true →
      lang digestRe d := by
    intro d hok
    simp only [bne_iff_ne, ne_eq, List.all_eq_true] at hok
    exact (lang_digest d).mpr hok
  split at h
  · exact absurd h (by simp)
  · split at h
    · simp only [Option.some.injEq, Prod.mk.injEq] at h
      obtain ⟨_, rfl, rfl⟩ := h
      exact ⟨Or.inl rfl, Or.inl rfl⟩
    · rename_i c t'
      split at h
      · split at h
        · rename_i hok
          simp only [Option.some.injEq, Prod.mk.injEq] at h
          obtain ⟨_, rfl, rfl⟩ := h
          simp only [Bool.and_eq_true] at hok
          exact ⟨Or.inl rfl, Or.inr (hdig _ hok)⟩
        · exact absurd h (by simp)
      · have htag : ∀ c ∈ t'.takeWhile (fun c => c != cAt), c ≠ cAt := by
          intro c hc
          simpa using mem_takeWhile_true (fun c => c != cAt) hc
        generalize t'.takeWhile (fun c => c != cAt) = tag at h htag
        generalize t'.dropWhile (fun c => c != cAt) = dd at h
        split at h
        · split at h
          · rename_i hne
            simp only [Option.some.injEq, Prod.mk.injEq] at h
            obtain ⟨_, rfl, rfl⟩ := h
            exact ⟨Or.inr ((lang_tag _).mpr ⟨by simpa using hne, htag⟩), Or.inl rfl⟩
          · exact absurd h (by simp)
        · split at h
          · rename_i hok
            simp only [Option.some.injEq, Prod.mk.injEq] at h
            obtain ⟨_, rfl, rfl⟩ := h
            simp only [Bool.and_eq_true] at hok
            exact ⟨Or.inr ((lang_tag _).mpr ⟨by simpa using hok.1, htag⟩), Or.inr (hdig _ hok.2)⟩
          · exact absurd h (by simp)

/-- `parseRest` succeeds exactly on the language of the pattern after the optional host. -/
theorem parseRest_isSome_iff (s : Bytes) : (parseRest s).isSome = true ↔ lang restRe s := by
  rw [lang_restRe]
  constructor
  · intro h
    obtain ⟨⟨p, t, d⟩, hs⟩ := Option.isSome_iff_exists.mp h
    obtain ⟨hp, hshape⟩ := parseRest_some hs
    obtain ⟨ht, hd⟩ := parseRest_groups hs
    exact ⟨p, t, d, hp, ht, hd, hshape.symm⟩
  · rintro ⟨p, t, d, hp, ht, hd, hshape⟩
    rw [hshape, parseRest_of_shape hp ht hd]; rfl

/-- `referencePat` = the tail alone, or a host, `/`, and the tail. -/
theorem lang_referencePatRe (s : Bytes) : lang referencePatRe s ↔
    lang restRe s ∨ ∃ h rest, s = h ++ cSlash :: rest ∧ lang hostPatRe h ∧ lang restRe rest := by
  rw [referencePatRe_eq, lang_cat_opt_left]
  refine or_congr Iff.rfl ?_
  constructor
  · rintro ⟨_, rest, rfl, ⟨h, sl, rfl, hh, hsl⟩, hrest⟩
    rw [(lang_slashCls sl).mp hsl]
    exact ⟨h, rest, by simp, hh, hrest⟩
  · rintro ⟨h, rest, rfl, hh, hrest⟩
    exact ⟨h ++ [cSlash], rest, by simp, ⟨h, [cSlash], rfl, hh, (lang_slashCls _).mpr rfl⟩, hrest⟩

/-- The two ways `matchRef` succeeds. -/
theorem matchRef_cases {s : Bytes} {r : Reference} (h : matchRef s = some r) :
    (r.host = [] ∧ parseRest s = some (r.repo, r.tag, r.digest)) ∨
    (isHost r.host = true ∧ ∃ rest, s = r.host ++ cSlash :: rest ∧
      parseRest rest = some (r.repo, r.tag, r.digest)) := by
  unfold matchRef at h
  simp only at h
  have hsplit := List.takeWhile_append_dropWhile (p := fun c => c != cSlash) (l := s)
  generalize hfirst : s.takeWhile (fun c => c != cSlash) = first at h hsplit
  generalize hdrop : s.dropWhile (fun c => c != cSlash) = dr at h hsplit
  have fallback : ((parseRest s).map fun (p, t, d) => (⟨[], p, t, d⟩ : Reference)) = some r →
      (r.host = [] ∧ parseRest s = some (r.repo, r.tag, r.digest)) := by
    intro h
    cases hpr : parseRest s with
    | none => simp [hpr] at h
    | some ptd =>
      obtain ⟨p, t, d⟩ := ptd
      simp only [hpr, Option.map_some, Option.some.injEq] at h
      subst h
      exact ⟨rfl, rfl⟩
  cases dr with
  | nil => exact Or.inl (fallback (by simpa using h))
  | cons c rest =>
    have hc : c = cSlash := by simpa using dropWhile_head_false _ hdrop
    simp only at h
    by_cases hh : isHost first = true
    · simp only [hh, if_true] at h
      cases hpr : parseRest rest with
      | none => exact Or.inl (fallback (by simpa [hpr] using h))
      | some ptd =>
        obtain ⟨p, t, d⟩ := ptd
        simp only [hpr, Option.map_some, Option.some.injEq] at h
        subst h
        exact Or.inr ⟨hh, rest, by rw [← hc]; exact hsplit.symm, hpr⟩
    · simp only [hh] at h
      exact Or.inl (fallback (by simpa using h))

theorem matchRef_isSome_of_parseRest {s : Bytes} (h : (parseRest s).isSome = true) :
    (matchRef s).isSome = true := by
  unfold matchRef
  simp only
  split
  · rfl
  · simpa using h

/-- `matchRef` succeeds exactly on the language of `referencePat`. -/
theorem matchRef_isSome_iff (s : Bytes) : (matchRef s).isSome = true ↔ lang referencePatRe s := by
  rw [lang_referencePatRe]
  constructor
  · intro h
    obtain ⟨r, hr⟩ := Option.isSome_iff_exists.mp h
    rcases matchRef_cases hr with ⟨_, hp⟩ | ⟨hh, rest, hs, hp⟩
    · exact Or.inl ((parseRest_isSome_iff s).mp (by rw [hp]; rfl))
    · exact Or.inr ⟨r.host, rest, hs, (isHost_iff _).mp hh,
        (parseRest_isSome_iff rest).mp (by rw [hp]; rfl)⟩
  · rintro (h | ⟨h, rest, rfl, hh, hrest⟩)
    · exact matchRef_isSome_of_parseRest ((parseRest_isSome_iff s).mpr h)
    · obtain ⟨⟨p, t, d⟩, hp⟩ := Option.isSome_iff_exists.mp ((parseRest_isSome_iff rest).mpr hrest)
      rw [matchRef_host ((isHost_iff h).mpr hh) hp]; rfl

/-- The groups of a successful `matchRef` satisfy the pattern's groups. -/
theorem matchRef_groups {s : Bytes} {r : Reference} (h : matchRef s = some r) :
    print r = s ∧ (r.host = [] ∨ lang hostPatRe r.host) ∧ lang repoPatRe r.repo ∧
      (r.tag = [] ∨ lang tagRe r.tag) ∧ (r.digest = [] ∨ lang digestRe r.digest) := by
  obtain ⟨hhost, hrepo, hprint⟩ := matchRef_some h
  have hg : (r.tag = [] ∨ lang tagRe r.tag) ∧ (r.digest = [] ∨ lang digestRe r.digest) := by
    rcases matchRef_cases h with ⟨_, hp⟩ | ⟨_, _, _, hp⟩
    · exact parseRest_groups hp
    · exact parseRest_groups hp
  exact ⟨hprint, hhost.imp id (fun hh => (isHost_iff _).mp hh), (isRepo_iff _).mp hrepo, hg.1, hg.2⟩

/-- The optional host group is greedy: whenever the string can be decomposed with a host, the
host `matchRef` reports is that one (and so non-empty). A host contains no `/`, so it is the
text before the first `/`. -/
theorem matchRef_prefers_host {s : Bytes} {r : Reference} (h : matchRef s = some r)
    {hst rest : Bytes} (hs : s = hst ++ cSlash :: rest) (hh : lang hostPatRe hst)
    (hrest : lang restRe rest) : r.host = hst ∧ r.host ≠ [] := by
  subst hs
  have hh' := (isHost_iff hst).mpr hh
  obtain ⟨⟨p, t, d⟩, hp⟩ := Option.isSome_iff_exists.mp ((parseRest_isSome_iff rest).mpr hrest)
  rw [matchRef_host hh' hp] at h
  cases h
  exact ⟨rfl, isHost_ne_nil hh'⟩

end OciModel.RefRe
