/-
What ocimem takes a pushed manifest to reference: `manifestReferences`, `descIterForType`,
`imageDescIter`, `indexDescIter` of `ociregistry/ocimem/desciter.go`, on top of Go's
`json.Unmarshal` into `ocispec.Manifest` / `ocispec.Index` (image-spec v1.1.0).

`decodeRefs mediaType data` is the `Mem.Decoded` the registry model (`Mem.lean`) is parametrised
over; until now the harness computed it with the Go decoder and handed it to the model as a hint.

Go's struct decoding, as far as it decides the outcome here (all found by differential testing
against the real decoder, then read off `encoding/json/decode.go`):
* a member name selects the field whose JSON name is equal to it, else the field whose name is
  equal under `foldName` (ASCII case-insensitive; also U+017F `ſ` ~ `s` and U+212A `K` ~ `k`);
  members that select nothing are skipped WITHOUT looking at their value;
* members are processed in document order and a repeated member is decoded INTO the value the
  earlier one left: scalars are overwritten, structs are merged field by field, a `*Descriptor`
  keeps its pointee, and a slice reuses its backing array — element `i` of a later array is
  merged into what element `i` of an earlier (longer or equal) one left there, even after the
  slice was truncated (only `null` and `[]` start afresh);
* `null` leaves scalars and structs alone, and clears pointers, slices and maps;
* a JSON value of the wrong type is an error (`UnmarshalTypeError`; decoding goes on but the
  call fails, so the manifest is "malformed"): in every field of the structs, including the
  ones ocimem never looks at (`schemaVersion`, `annotations`, `urls`, `data`, `platform`, …);
* `int64`/`int` take exactly `-?[0-9]+` within range (`strconv.ParseInt`; `1.0`, `1e2` are errors);
* `[]byte` takes a base64 string (`StdEncoding`, see `Base64.lean`) or an array of numbers 0…255;
* the document itself may be `null` (nothing is set, no error) but no other non-object.

Core Lean only (linked into the `ocimodel` driver).
-/
import OciModel.Json
import OciModel.MemData
import OciModel.Base64
namespace OciModel.ManifestDecode
open OciModel OciModel.Json OciModel.Mem

/-! ## Member names -/

/-- `foldName`, as far as equality with an ASCII field name goes: ASCII letters to upper case,
`ſ` (C5 BF) to `S`, the Kelvin sign (E2 84 AA) to `K`; every other byte is kept (a name with any
other non-ASCII character folds to something that is not ASCII either way). -/
def foldGo : Nat → Bytes → Bytes
  | _, [] => []
  | n + 1, _ :: bs => foldGo n bs
  | 0, c :: bs =>
    if 0x61 ≤ c.toNat ∧ c.toNat ≤ 0x7A then UInt8.ofNat (c.toNat - 0x20) :: foldGo 0 bs
    else if c.toNat = 0xC5 ∧ (bs.take 1).map UInt8.toNat = [0xBF] then 0x53 :: foldGo 1 bs
    else if c.toNat = 0xE2 ∧ (bs.take 2).map UInt8.toNat = [0x84, 0xAA] then 0x4B :: foldGo 2 bs
    else c :: foldGo 0 bs

def foldKey (k : Bytes) : Bytes := foldGo 0 k

/-- `byExactName`, else `byFoldedName` (the first field in declaration order wins a collision;
there is none in these structs). -/
def lookupField {F : Type} (table : List (Bytes × F)) (k : Bytes) : Option F :=
  match table.find? (fun p => p.1 == k) with
  | some p => some p.2
  | none =>
    match table.find? (fun p => foldKey p.1 == foldKey k) with
    | some p => some p.2
    | none => none

inductive DescField where
  | mediaType | digest | size | urls | annotations | data | platform | artifactType
  deriving DecidableEq, Repr

inductive PlatField where
  | architecture | os | osVersion | osFeatures | variant
  deriving DecidableEq, Repr

/-- Fields of `ocispec.Manifest` and `ocispec.Index` (`items` is `layers`, resp. `manifests`). -/
inductive TopField where
  | schemaVersion | mediaType | artifactType | config | items | subject | annotations
  deriving DecidableEq, Repr

def descTable : List (Bytes × DescField) :=
  [(strBytes "mediaType", .mediaType), (strBytes "digest", .digest), (strBytes "size", .size),
   (strBytes "urls", .urls), (strBytes "annotations", .annotations), (strBytes "data", .data),
   (strBytes "platform", .platform), (strBytes "artifactType", .artifactType)]

def platTable : List (Bytes × PlatField) :=
  [(strBytes "architecture", .architecture), (strBytes "os", .os), (strBytes "os.version", .osVersion),
   (strBytes "os.features", .osFeatures), (strBytes "variant", .variant)]

def manifestTable : List (Bytes × TopField) :=
  [(strBytes "schemaVersion", .schemaVersion), (strBytes "mediaType", .mediaType),
   (strBytes "artifactType", .artifactType), (strBytes "config", .config), (strBytes "layers", .items),
   (strBytes "subject", .subject), (strBytes "annotations", .annotations)]

def indexTable : List (Bytes × TopField) :=
  [(strBytes "schemaVersion", .schemaVersion), (strBytes "mediaType", .mediaType),
   (strBytes "artifactType", .artifactType), (strBytes "manifests", .items),
   (strBytes "subject", .subject), (strBytes "annotations", .annotations)]

/-! ## Numbers -/

/-- Value of a non-empty all-digit text. -/
def digitsVal : Bytes → Option Nat
  | [] => none
  | cs => if cs.all isDigit then some (cs.foldl (fun acc c => acc * 10 + (c.toNat - 0x30)) 0) else none

/-- `strconv.ParseInt(text, 10, 64)` on a JSON number text. -/
def parseInt64 (t : Bytes) : Option Int :=
  match t with
  | c :: rest =>
    if c.toNat = 0x2D then
      match digitsVal rest with
      | some n => if n ≤ 9223372036854775808 then some (-(n : Int)) else none
      | none => none
    else
      match digitsVal t with
      | some n => if n ≤ 9223372036854775807 then some (n : Int) else none
      | none => none
  | [] => none

/-- `strconv.ParseUint(text, 10, 64)` within `uint8`: no sign at all (`-0` is an error). -/
def parseUint8 (t : Bytes) : Option Nat :=
  match digitsVal t with
  | some n => if n ≤ 255 then some n else none
  | none => none

/-! ## Values that are only type-checked -/

def okStr : JVal → Bool
  | .str _ => true
  | .null => true
  | _ => false

def okInt : JVal → Bool
  | .num t => (parseInt64 t).isSome
  | .null => true
  | _ => false

def okByte : JVal → Bool
  | .num t => (parseUint8 t).isSome
  | .null => true
  | _ => false

/-- `[]byte`. -/
def okBytes : JVal → Bool
  | .str s => (Base64.decode s).isSome
  | .arr xs => xs.all okByte
  | .null => true
  | _ => false

/-- `[]string`. -/
def okStrList : JVal → Bool
  | .arr xs => xs.all okStr
  | .null => true
  | _ => false

/-- `map[string]string`. -/
def okStrMap : JVal → Bool
  | .obj kvs => kvs.all fun kv => okStr kv.2
  | .null => true
  | _ => false

def okPlatMember (kv : Bytes × JVal) : Bool :=
  match lookupField platTable kv.1 with
  | some .osFeatures => okStrList kv.2
  | some _ => okStr kv.2
  | none => true

/-- `*ocispec.Platform`. -/
def okPlatform : JVal → Bool
  | .obj kvs => kvs.all okPlatMember
  | .null => true
  | _ => false

/-! ## Descriptors -/

def zeroDesc : Desc := ⟨[], [], 0⟩

/-- A `string` field holding `cur` takes the value. -/
def setStr (v : JVal) (cur : Bytes) : Option Bytes :=
  match v with
  | .str s => some s
  | .null => some cur
  | _ => none

/-- An `int64` field holding `cur` takes the value. -/
def setInt (v : JVal) (cur : Int) : Option Int :=
  match v with
  | .num t => parseInt64 t
  | .null => some cur
  | _ => none

/-- A field that is only type-checked. -/
def check {σ : Type} (ok : Bool) (s : σ) : Option σ := if ok then some s else none

/-- One member of a descriptor object decoded into `d`; `none`: a type error. -/
def descStep (d : Desc) (kv : Bytes × JVal) : Option Desc :=
  match lookupField descTable kv.1 with
  | none => some d
  | some .mediaType => (setStr kv.2 d.mediaType).map fun s => { d with mediaType := s }
  | some .digest => (setStr kv.2 d.digest).map fun s => { d with digest := s }
  | some .size => (setInt kv.2 d.size).map fun n => { d with size := n }
  | some .urls => check (okStrList kv.2) d
  | some .annotations => check (okStrMap kv.2) d
  | some .data => check (okBytes kv.2) d
  | some .platform => check (okPlatform kv.2) d
  | some .artifactType => check (okStr kv.2) d

/-- A JSON value decoded into an existing `ocispec.Descriptor`. -/
def mergeDesc (base : Desc) : JVal → Option Desc
  | .null => some base
  | .obj kvs => kvs.foldlM descStep base
  | _ => none

/-- A `[]Descriptor` field: the elements in view and what is left behind them in the backing
array (stale elements a later, longer array is merged into). -/
structure Slice where
  vis : List Desc := []
  stale : List Desc := []
  deriving DecidableEq, Repr

/-- Elements of a JSON array decoded over the backing array. -/
def mergeElems : List Desc → List JVal → Option (List Desc)
  | _, [] => some []
  | back, e :: es =>
    match mergeDesc (back.headD zeroDesc) e with
    | none => none
    | some d =>
      match mergeElems back.tail es with
      | none => none
      | some ds => some (d :: ds)

def sliceStep (s : Slice) : JVal → Option Slice
  | .null => some {}
  | .arr [] => some {}               -- `reflect.MakeSlice(t, 0, 0)`: a new, empty backing array
  | .arr es =>
    match mergeElems (s.vis ++ s.stale) es with
    | some ds => some ⟨ds, (s.vis ++ s.stale).drop es.length⟩
    | none => none
  | _ => none

/-- A `*Descriptor` field. -/
def ptrStep (p : Option Desc) : JVal → Option (Option Desc)
  | .null => some none
  | v => (mergeDesc (p.getD zeroDesc) v).map some

/-! ## Manifest and index -/

/-- The decoded struct, as far as ocimem looks at it. -/
structure Top where
  config : Desc := zeroDesc
  items : Slice := {}
  subject : Option Desc := none
  deriving DecidableEq, Repr

def topStep (table : List (Bytes × TopField)) (m : Top) (kv : Bytes × JVal) : Option Top :=
  match lookupField table kv.1 with
  | none => some m
  | some .schemaVersion => check (okInt kv.2) m
  | some .mediaType => check (okStr kv.2) m
  | some .artifactType => check (okStr kv.2) m
  | some .annotations => check (okStrMap kv.2) m
  | some .config => (mergeDesc m.config kv.2).map fun d => { m with config := d }
  | some .items => (sliceStep m.items kv.2).map fun s => { m with items := s }
  | some .subject => (ptrStep m.subject kv.2).map fun p => { m with subject := p }

/-- `json.Unmarshal(data, &x)` for a document that passed the syntax check. -/
def decodeTop (table : List (Bytes × TopField)) : JVal → Option Top
  | .null => some {}
  | .obj kvs => kvs.foldlM (topStep table) {}
  | _ => none

/-! ## References -/

def imageMT : Bytes := strBytes "application/vnd.oci.image.manifest.v1+json"
def indexMT : Bytes := strBytes "application/vnd.oci.image.index.v1+json"

/-- `imageDescIter`: layers, then the config (both blobs), then the subject if there is one. -/
def imageRefs (m : Top) : List RefInfo :=
  m.items.vis.map (fun d => ⟨0, d⟩) ++ [⟨0, m.config⟩] ++
    (match m.subject with | some d => [⟨2, d⟩] | none => [])

/-- `indexDescIter`: the manifests, then the subject if there is one. -/
def indexRefs (m : Top) : List RefInfo :=
  m.items.vis.map (fun d => ⟨1, d⟩) ++
    (match m.subject with | some d => [⟨2, d⟩] | none => [])

/-- References of a parsed document under one of the two known media types. -/
def refsOfVal (table : List (Bytes × TopField)) (refs : Top → List RefInfo) (v : JVal) : Decoded :=
  match decodeTop table v with
  | some m => .refs (refs m)
  | none => .malformed

def decodeWith (table : List (Bytes × TopField)) (refs : Top → List RefInfo) (data : Bytes) : Decoded :=
  match parse data with
  | some v => refsOfVal table refs v
  | none => .malformed

/-- `manifestReferences`: what a manifest of the given media type with the given bytes refers to. -/
def decodeRefs (mediaType data : Bytes) : Decoded :=
  if mediaType = imageMT then decodeWith manifestTable imageRefs data
  else if mediaType = indexMT then decodeWith indexTable indexRefs data
  else .opaque

/-! ## Canonical documents (the model's own rendering of a manifest / an index) -/

def digitByte (n : Nat) : UInt8 := UInt8.ofNat (0x30 + n % 10)

/-- Decimal digits of `n`, most significant first (`fuel > n` suffices). -/
def natTextF : Nat → Nat → Bytes
  | 0, _ => []
  | f + 1, n => if n < 10 then [digitByte n] else natTextF f (n / 10) ++ [digitByte n]

def natText (n : Nat) : Bytes := natTextF (n + 1) n

def intText (i : Int) : Bytes :=
  if i < 0 then 0x2D :: natText (-i).toNat else natText i.toNat

/-- A descriptor as a JSON object with the three members ocimem reads. -/
def descJ (d : Desc) : JVal :=
  .obj [(strBytes "mediaType", .str d.mediaType), (strBytes "digest", .str d.digest),
        (strBytes "size", .num (intText d.size))]

def subjectJ : Option Desc → List (Bytes × JVal)
  | some d => [(strBytes "subject", descJ d)]
  | none => []

/-- What an image manifest says, as far as references go. -/
structure Manifest where
  config : Desc
  layers : List Desc
  subject : Option Desc
  deriving DecidableEq, Repr

/-- What an image index says, as far as references go. -/
structure Index where
  manifests : List Desc
  subject : Option Desc
  deriving DecidableEq, Repr

def manifestJ (m : Manifest) : JVal :=
  .obj ([(strBytes "schemaVersion", .num [0x32]), (strBytes "mediaType", .str imageMT),
         (strBytes "config", descJ m.config), (strBytes "layers", .arr (m.layers.map descJ))] ++ subjectJ m.subject)

def indexJ (m : Index) : JVal :=
  .obj ([(strBytes "schemaVersion", .num [0x32]), (strBytes "mediaType", .str indexMT),
         (strBytes "manifests", .arr (m.manifests.map descJ))] ++ subjectJ m.subject)

/-- The references of a manifest value: `imageDescIter`'s order. -/
def Manifest.refs (m : Manifest) : List RefInfo :=
  m.layers.map (fun d => ⟨0, d⟩) ++ [⟨0, m.config⟩] ++ (match m.subject with | some d => [⟨2, d⟩] | none => [])

def Index.refs (m : Index) : List RefInfo :=
  m.manifests.map (fun d => ⟨1, d⟩) ++ (match m.subject with | some d => [⟨2, d⟩] | none => [])

/-- A descriptor the canonical printer renders faithfully: well-formed UTF-8, an `int64` size. -/
def DescOK (d : Desc) : Prop :=
  ValidUtf8 d.mediaType ∧ ValidUtf8 d.digest ∧ -9223372036854775808 ≤ d.size ∧ d.size ≤ 9223372036854775807

instance (d : Desc) : Decidable (DescOK d) := inferInstanceAs (Decidable (_ ∧ _ ∧ _ ∧ _))

def Manifest.OK (m : Manifest) : Prop :=
  DescOK m.config ∧ (∀ d ∈ m.layers, DescOK d) ∧ (∀ d, m.subject = some d → DescOK d)

def Index.OK (m : Index) : Prop :=
  (∀ d ∈ m.manifests, DescOK d) ∧ (∀ d, m.subject = some d → DescOK d)

end OciModel.ManifestDecode
