/-
Helper lemmas about the request codec model (`OciModel/ReqCodec.lean`):
byte literals of the routing words, `cutPrefix`/`cutSuffix`/`cutLastSlash`,
a decomposition of `parse` into one function per path family (`parse_eq`),
the shape lemmas saying which family a path belongs to, and the decimal
round trip `atoi (itoa n) = some n`.
-/
import OciModel.ReqCodec
import OciModel.RefLemmas

namespace OciModel.ReqCodec
open OciModel.Ref

deriving instance DecidableEq for Except

/-! ### Byte literals -/

theorem sV2_eq : sV2 = [47, 118, 50] := by decide
theorem sV2Slash_eq : sV2Slash = [47, 118, 50, 47] := by decide
theorem sCatalog_eq : sCatalog = [95, 99, 97, 116, 97, 108, 111, 103] := by decide
theorem sUploadsSlash_eq :
    sUploadsSlash = [47, 98, 108, 111, 98, 115, 47, 117, 112, 108, 111, 97, 100, 115, 47] := by decide
theorem sUploadsNoSlash_eq :
    sUploadsNoSlash = [47, 98, 108, 111, 98, 115, 47, 117, 112, 108, 111, 97, 100, 115] := by decide
theorem sBlobsSuffix_eq : sBlobsSuffix = [47, 98, 108, 111, 98, 115] := by decide
theorem wBlobs_eq : wBlobs = [98, 108, 111, 98, 115] := by decide
theorem wUploads_eq : wUploads = [117, 112, 108, 111, 97, 100, 115] := by decide
theorem wManifests_eq : wManifests = [109, 97, 110, 105, 102, 101, 115, 116, 115] := by decide
theorem wTags_eq : wTags = [116, 97, 103, 115] := by decide
theorem wReferrers_eq : wReferrers = [114, 101, 102, 101, 114, 114, 101, 114, 115] := by decide
theorem wList_eq : wList = [108, 105, 115, 116] := by decide

theorem sUploadsSlash_split : sUploadsSlash = cSlash :: wBlobs ++ cSlash :: wUploads ++ [cSlash] := by
  decide
theorem sUploadsNoSlash_split : sUploadsNoSlash = cSlash :: wBlobs ++ cSlash :: wUploads := by decide
theorem sBlobsSuffix_split : sBlobsSuffix = cSlash :: wBlobs := by decide
theorem strBlobs_split : strBytes "/blobs/" = cSlash :: wBlobs ++ [cSlash] := by decide
theorem strManifests_split : strBytes "/manifests/" = cSlash :: wManifests ++ [cSlash] := by decide
theorem strReferrers_split : strBytes "/referrers/" = cSlash :: wReferrers ++ [cSlash] := by decide
theorem strTagsList_split : strBytes "/tags/list" = cSlash :: wTags ++ cSlash :: wList := by decide
theorem strCatalog_split : strBytes "/v2/_catalog" = sV2Slash ++ sCatalog := by decide

/-- "slash-free" -/
def NoSlash (b : Bytes) : Prop := ∀ c ∈ b, c ≠ cSlash

instance (b : Bytes) : Decidable (NoSlash b) := by unfold NoSlash; infer_instance

theorem noSlash_wBlobs : NoSlash wBlobs := by decide
theorem noSlash_wUploads : NoSlash wUploads := by decide
theorem noSlash_wManifests : NoSlash wManifests := by decide
theorem noSlash_wTags : NoSlash wTags := by decide
theorem noSlash_wReferrers : NoSlash wReferrers := by decide
theorem noSlash_wList : NoSlash wList := by decide
theorem noSlash_nil : NoSlash [] := by decide
theorem noSlash_sCatalog : NoSlash sCatalog := by decide

theorem noSlash_digest {d : Bytes} (h : isDigest d = true) : NoSlash d := isDigest_no_slash h
theorem noSlash_tag {t : Bytes} (h : isTag t = true) : NoSlash t := isTag_no_slash h
theorem noSlash_of_not_mem {b : Bytes} (h : (47 : UInt8) ∉ b) : NoSlash b := by
  intro c hc e; subst e; exact h hc

/-! ### `cutPrefix`, `cutSuffix`, `cutLastSlash` -/

theorem cutPrefix_append (p s : Bytes) : cutPrefix p (p ++ s) = some s := by
  unfold cutPrefix
  have : p.isPrefixOf (p ++ s) = true := by
    rw [List.isPrefixOf_iff_prefix]; exact List.prefix_append p s
  simp [this]

theorem cutSuffix_append (p s : Bytes) : cutSuffix p (s ++ p) = some s := by
  unfold cutSuffix
  have : p.isSuffixOf (s ++ p) = true := by
    rw [List.isSuffixOf_iff_suffix]; exact List.suffix_append s p
  simp [this]

theorem cutSuffix_none {p s : Bytes} (h : ¬ p <:+ s) : cutSuffix p s = none := by
  unfold cutSuffix
  have : p.isSuffixOf s = false := by
    rw [Bool.eq_false_iff]; intro h'; exact h (List.isSuffixOf_iff_suffix.mp h')
  simp [this]

theorem cutSuffix_some {p s r : Bytes} (h : cutSuffix p s = some r) : s = r ++ p := by
  unfold cutSuffix at h
  split at h
  · rename_i hs
    obtain ⟨t, rfl⟩ := List.isSuffixOf_iff_suffix.mp hs
    simp at h
    rw [h]
  · simp at h

theorem cutLastSlash_append {a b : Bytes} (hb : NoSlash b) :
    cutLastSlash (a ++ cSlash :: b) = some (a, b) := by
  have hr : (a ++ cSlash :: b).reverse = b.reverse ++ cSlash :: a.reverse := by simp
  have hP : ∀ c ∈ b.reverse, (c != cSlash) = true := by
    intro c hc; simpa using hb c (by simpa using hc)
  have hs : (cSlash != cSlash) = false := by decide
  simp only [cutLastSlash, hr, takeWhile_append_cons _ hP hs, dropWhile_append_cons _ hP hs]
  simp

/-- What `cutLastSlash` returns: the split at the last slash. -/
theorem cutLastSlash_some {s a b : Bytes} (h : cutLastSlash s = some (a, b)) :
    s = a ++ cSlash :: b ∧ NoSlash b := by
  unfold cutLastSlash at h
  simp only at h
  have hsplit := List.takeWhile_append_dropWhile (p := fun c => c != cSlash) (l := s.reverse)
  have hall : ∀ c ∈ s.reverse.takeWhile (fun c => c != cSlash), (c != cSlash) = true :=
    fun c hc => mem_takeWhile_true (fun c => c != cSlash) hc
  generalize s.reverse.takeWhile (fun c => c != cSlash) = tk at h hsplit hall
  generalize hdw : s.reverse.dropWhile (fun c => c != cSlash) = dw at h hsplit
  cases dw with
  | nil => simp at h
  | cons x before =>
    have hx : x = cSlash := by simpa using dropWhile_head_false _ hdw
    simp only [Option.some.injEq, Prod.mk.injEq] at h
    obtain ⟨rfl, rfl⟩ := h
    constructor
    · have := congrArg List.reverse hsplit
      simp only [List.reverse_reverse, List.reverse_append, List.reverse_cons,
        List.append_assoc, List.singleton_append] at this
      rw [← this, hx]
    · intro c hc
      have := hall c (by simpa using hc)
      simpa using this

theorem cutLastSlash_none {s : Bytes} (h : NoSlash s) : cutLastSlash s = none := by
  cases hc : cutLastSlash s with
  | none => rfl
  | some ab =>
    obtain ⟨a, b⟩ := ab
    obtain ⟨rfl, _⟩ := cutLastSlash_some hc
    exact absurd rfl (h cSlash (by simp))

/-- Two splittings at the last slash agree. -/
theorem slash_split_unique {a b a' b' : Bytes} (hb : NoSlash b) (hb' : NoSlash b')
    (h : a ++ cSlash :: b = a' ++ cSlash :: b') : a = a' ∧ b = b' := by
  have h1 := cutLastSlash_append (a := a) hb
  rw [h, cutLastSlash_append hb'] at h1
  simp only [Option.some.injEq, Prod.mk.injEq] at h1
  exact ⟨h1.1.symm, h1.2.symm⟩

/-- A suffix whose last segment is slash-free determines the last segment. -/
theorem suffix_slash_split {s x t y : Bytes} (hx : NoSlash x) (hy : NoSlash y)
    (h : (t ++ cSlash :: y) <:+ (s ++ cSlash :: x)) : y = x ∧ t <:+ s := by
  obtain ⟨pre, hpre⟩ := h
  rw [← List.append_assoc] at hpre
  obtain ⟨h1, h2⟩ := slash_split_unique hy hx hpre
  exact ⟨h2, ⟨pre, h1⟩⟩

/-! ### `parse`, one function per path family -/

section
variable (unb64 : Bytes → Option Bytes) (validUTF8 : Bytes → Bool)

/-- `/v2/_catalog` -/
def parseCatalog (method : Bytes) (q : Bytes → Bytes) : Except PErr Request :=
  if method ≠ mGET then .error .methodNotAllowed
  else
    match listParams q { kind := .catalogList } with
    | .ok r => .ok r
    | .error _ => .ok { kind := .catalogList, listN := -1 }

/-- `/v2/<repo>/blobs/uploads/` and `/v2/<repo>/blobs/uploads` -/
def parseStart (method : Bytes) (q : Bytes → Bytes) (repo : Bytes) : Except PErr Request :=
  if !isRepo repo then .error .nameInvalid
  else if method ≠ mPOST then .error .methodNotAllowed
  else if q qMount ≠ [] then
    if !isDigest (q qMount) then .error .digestInvalid
    else if q qFrom = [] then .ok { kind := .blobStartUpload, repo := repo }
    else if !isRepo (q qFrom) then .error .nameInvalid
    else .ok { kind := .blobMount, repo := repo, digest := q qMount, fromRepo := q qFrom }
  else if q qDigest ≠ [] then
    if !isDigest (q qDigest) then .error .badlyFormedDigest
    else .ok { kind := .blobUploadBlob, repo := repo, digest := q qDigest }
  else .ok { kind := .blobStartUpload, repo := repo }

/-- `/v2/<path>/blobs/<last>` -/
def parseBlob (method path last : Bytes) : Except PErr Request :=
  if !isDigest last then .error .badlyFormedDigest
  else if !isRepo path then .error .nameInvalid
  else (methodKind method [(mGET, .blobGet), (mHEAD, .blobHead), (mDELETE, .blobDelete)]).map
    fun k => { kind := k, repo := path, digest := last }

/-- `/v2/<path>/uploads/<last>` -/
def parseUpload (method : Bytes) (q : Bytes → Bytes) (path last : Bytes) : Except PErr Request :=
  match cutSuffix sBlobsSuffix path with
  | none => .error .notFound
  | some repo =>
    if !isRepo repo then .error .nameInvalid
    else if last = [] then .error .notFound
    else match unb64 last with
      | none => .error .badUploadID
      | some id =>
        if !validUTF8 id then .error .badUploadID
        else if method = mGET then .ok { kind := .blobUploadInfo, repo := repo, uploadID := id }
        else if method = mPATCH then .ok { kind := .blobUploadChunk, repo := repo, uploadID := id }
        else if method = mPUT then
          if !isDigest (q qDigest) then .error .badlyFormedDigest
          else .ok { kind := .blobCompleteUpload, repo := repo, uploadID := id, digest := q qDigest }
        else .error .methodNotAllowed

/-- `/v2/<path>/manifests/<last>` -/
def parseManifest (method path last : Bytes) : Except PErr Request :=
  if !isRepo path then .error .nameInvalid
  else
    let r0 : Option Request :=
      if isDigest last then some { kind := .ping, repo := path, digest := last }
      else if isTag last then some { kind := .ping, repo := path, tag := last }
      else none
    match r0 with
    | none => .error .notFound
    | some r =>
      (methodKind method [(mGET, .manifestGet), (mHEAD, .manifestHead), (mPUT, .manifestPut), (mDELETE, .manifestDelete)]).map
        fun k => { r with kind := k }

/-- `/v2/<path>/tags/<last>` -/
def parseTags (method : Bytes) (q : Bytes → Bytes) (path last : Bytes) : Except PErr Request :=
  if last ≠ wList then .error .notFound
  else match listParams q { kind := .tagsList } with
    | .error e => .error e
    | .ok r =>
      if method ≠ mGET then .error .methodNotAllowed
      else if !isRepo path then .error .nameInvalid
      else .ok { r with repo := path }

/-- `/v2/<path>/referrers/<last>` -/
def parseReferrers (method path last : Bytes) : Except PErr Request :=
  if !isDigest last then .error .badlyFormedDigest
  else if method ≠ mGET then .error .methodNotAllowed
  else if !isRepo path then .error .nameInvalid
  else .ok { kind := .referrersList, repo := path, digest := last, listN := -1 }

/-- Dispatch on the last-but-one segment of `/v2/<path>/<lastButOne>/<last>`. -/
def parseSegs (method : Bytes) (q : Bytes → Bytes) (path last lastButOne : Bytes) :
    Except PErr Request :=
  if lastButOne = wBlobs then parseBlob method path last
  else if lastButOne = wUploads then parseUpload unb64 validUTF8 method q path last
  else if lastButOne = wManifests then parseManifest method path last
  else if lastButOne = wTags then parseTags method q path last
  else if lastButOne = wReferrers then parseReferrers method path last
  else .error .notFound

/-- The `/blobs/uploads/` or `/blobs/uploads` suffix test. -/
def upCut (path : Bytes) : Option Bytes :=
  match cutSuffix sUploadsSlash path with
  | some p => some p
  | none => cutSuffix sUploadsNoSlash path

/-- `parse` on what follows `/v2/`. -/
def parseAfter (method : Bytes) (q : Bytes → Bytes) (path : Bytes) : Except PErr Request :=
  if path = sCatalog then parseCatalog method q
  else
    match upCut path with
    | some repo => parseStart method q repo
    | none =>
      match cutLastSlash path with
      | none => .error .notFound
      | some (path, last) =>
        match cutLastSlash path with
        | none => .error .notFound
        | some (path, lastButOne) => parseSegs unb64 validUTF8 method q path last lastButOne

/-- `parse` is the composition of the family functions (by unfolding). -/
theorem parse_eq (method path : Bytes) (q : Bytes → Bytes) :
    parse unb64 validUTF8 method path q =
      if path = sV2 ∨ path = sV2Slash then .ok { kind := .ping }
      else match cutPrefix sV2Slash path with
        | none => .error .unknownPath
        | some path => parseAfter unb64 validUTF8 method q path := by
  rfl

/-! ### Which family a path belongs to -/

theorem parse_v2 (method : Bytes) (q : Bytes → Bytes) {p : Bytes} (hp : p ≠ []) :
    parse unb64 validUTF8 method (sV2Slash ++ p) q = parseAfter unb64 validUTF8 method q p := by
  rw [parse_eq, cutPrefix_append]
  have h1 : sV2Slash ++ p ≠ sV2 := by
    intro h
    have := congrArg List.length h
    simp [sV2Slash_eq, sV2_eq] at this
  have h2 : sV2Slash ++ p ≠ sV2Slash := by
    intro h
    exact hp (List.append_right_eq_self.mp h)
  simp [h1, h2]

theorem parse_ping (method : Bytes) (q : Bytes → Bytes) :
    parse unb64 validUTF8 method sV2Slash q = .ok { kind := .ping } := by
  rw [parse_eq]; simp

theorem parse_ping' (method : Bytes) (q : Bytes → Bytes) :
    parse unb64 validUTF8 method sV2 q = .ok { kind := .ping } := by
  rw [parse_eq]; simp

theorem parse_catalog_path (method : Bytes) (q : Bytes → Bytes) :
    parse unb64 validUTF8 method (sV2Slash ++ sCatalog) q = parseCatalog method q := by
  rw [parse_v2 _ _ _ _ (by decide)]
  simp [parseAfter]

theorem ne_sCatalog_of_slash {a b : Bytes} : a ++ cSlash :: b ≠ sCatalog := by
  intro h
  exact noSlash_sCatalog cSlash (by rw [← h]; simp) rfl

theorem upCut_none {R w last : Bytes} (hw : NoSlash w) (hl : NoSlash last) (hne : last ≠ [])
    (hu : last = wUploads → w ≠ wBlobs) :
    upCut ((R ++ cSlash :: w) ++ cSlash :: last) = none := by
  unfold upCut
  have h1 : ¬ sUploadsSlash <:+ ((R ++ cSlash :: w) ++ cSlash :: last) := by
    intro h
    have e : sUploadsSlash = (cSlash :: wBlobs ++ cSlash :: wUploads) ++ cSlash :: [] := by decide
    rw [e] at h
    exact hne (suffix_slash_split hl noSlash_nil h).1.symm
  have h2 : ¬ sUploadsNoSlash <:+ ((R ++ cSlash :: w) ++ cSlash :: last) := by
    intro h
    have e : sUploadsNoSlash = ([] ++ cSlash :: wBlobs) ++ cSlash :: wUploads := by decide
    rw [e] at h
    obtain ⟨h3, h4⟩ := suffix_slash_split hl noSlash_wUploads h
    exact hu h3.symm (suffix_slash_split hw noSlash_wBlobs h4).1.symm
  rw [cutSuffix_none h1, cutSuffix_none h2]

theorem parseAfter_segs (method : Bytes) (q : Bytes → Bytes) {R w last : Bytes}
    (hw : NoSlash w) (hl : NoSlash last) (hne : last ≠ []) (hu : last = wUploads → w ≠ wBlobs) :
    parseAfter unb64 validUTF8 method q (R ++ cSlash :: (w ++ cSlash :: last)) =
      parseSegs unb64 validUTF8 method q R last w := by
  have e : R ++ cSlash :: (w ++ cSlash :: last) = (R ++ cSlash :: w) ++ cSlash :: last := by simp
  unfold parseAfter
  rw [if_neg ne_sCatalog_of_slash, e, upCut_none hw hl hne hu]
  simp only [cutLastSlash_append hl, cutLastSlash_append hw]

theorem parseAfter_start (method : Bytes) (q : Bytes → Bytes) (R : Bytes) :
    parseAfter unb64 validUTF8 method q (R ++ sUploadsSlash) = parseStart method q R := by
  have hc : R ++ sUploadsSlash ≠ sCatalog := by
    rw [sUploadsSlash_split]
    simp only [List.cons_append]
    exact ne_sCatalog_of_slash
  unfold parseAfter
  rw [if_neg hc]
  simp only [upCut, cutSuffix_append]

theorem parseAfter_start' (method : Bytes) (q : Bytes → Bytes) (R : Bytes) :
    parseAfter unb64 validUTF8 method q (R ++ sUploadsNoSlash) = parseStart method q R := by
  have hc : R ++ sUploadsNoSlash ≠ sCatalog := by
    rw [sUploadsNoSlash_split]
    simp only [List.cons_append]
    exact ne_sCatalog_of_slash
  have h1 : ¬ sUploadsSlash <:+ (R ++ sUploadsNoSlash) := by
    intro h
    have e : sUploadsSlash = (cSlash :: wBlobs ++ cSlash :: wUploads) ++ cSlash :: [] := by decide
    have e' : R ++ sUploadsNoSlash = (R ++ cSlash :: wBlobs) ++ cSlash :: wUploads := by
      rw [sUploadsNoSlash_split]; simp
    rw [e, e'] at h
    exact absurd (suffix_slash_split noSlash_wUploads noSlash_nil h).1 (by decide)
  unfold parseAfter
  rw [if_neg hc]
  simp only [upCut, cutSuffix_none h1, cutSuffix_append]

/-- `/v2/<R>/blobs/uploads/` -/
theorem parse_start_path (method : Bytes) (q : Bytes → Bytes) (R : Bytes) :
    parse unb64 validUTF8 method (sV2Slash ++ (R ++ sUploadsSlash)) q = parseStart method q R := by
  rw [parse_v2 _ _ _ _ (by simp [sUploadsSlash_eq]), parseAfter_start]

/-- `/v2/<R>/blobs/uploads` -/
theorem parse_start_path' (method : Bytes) (q : Bytes → Bytes) (R : Bytes) :
    parse unb64 validUTF8 method (sV2Slash ++ (R ++ sUploadsNoSlash)) q = parseStart method q R := by
  rw [parse_v2 _ _ _ _ (by simp [sUploadsNoSlash_eq]), parseAfter_start']

/-- `/v2/<R>/<w>/<last>` with a slash-free, non-empty last segment. -/
theorem parse_segs_path (method : Bytes) (q : Bytes → Bytes) {R w last : Bytes}
    (hw : NoSlash w) (hl : NoSlash last) (hne : last ≠ []) (hu : last = wUploads → w ≠ wBlobs) :
    parse unb64 validUTF8 method (sV2Slash ++ (R ++ cSlash :: (w ++ cSlash :: last))) q =
      parseSegs unb64 validUTF8 method q R last w := by
  rw [parse_v2 _ _ _ _ (by simp), parseAfter_segs _ _ _ _ hw hl hne hu]

/-- `/v2/<R>/blobs/<last>` -/
theorem parse_blobs_path (method : Bytes) (q : Bytes → Bytes) {R last : Bytes}
    (hl : NoSlash last) (hne : last ≠ []) (hu : last ≠ wUploads) :
    parse unb64 validUTF8 method (sV2Slash ++ (R ++ cSlash :: (wBlobs ++ cSlash :: last))) q =
      parseBlob method R last := by
  rw [parse_segs_path _ _ _ _ noSlash_wBlobs hl hne (fun h => absurd h hu)]
  simp [parseSegs]

/-- `/v2/<R>/blobs/uploads/<last>` -/
theorem parse_uploads_path (method : Bytes) (q : Bytes → Bytes) {R last : Bytes}
    (hl : NoSlash last) (hne : last ≠ []) :
    parse unb64 validUTF8 method
        (sV2Slash ++ (R ++ cSlash :: (wBlobs ++ cSlash :: (wUploads ++ cSlash :: last)))) q =
      parseUpload unb64 validUTF8 method q (R ++ sBlobsSuffix) last := by
  have e : R ++ cSlash :: (wBlobs ++ cSlash :: (wUploads ++ cSlash :: last)) =
      (R ++ sBlobsSuffix) ++ cSlash :: (wUploads ++ cSlash :: last) := by
    rw [sBlobsSuffix_split]; simp
  rw [e, parse_segs_path _ _ _ _ noSlash_wUploads hl hne (fun _ => by decide)]
  have : wUploads ≠ wBlobs := by decide
  simp [parseSegs, this]

/-- `/v2/<R>/manifests/<last>` -/
theorem parse_manifests_path (method : Bytes) (q : Bytes → Bytes) {R last : Bytes}
    (hl : NoSlash last) (hne : last ≠ []) :
    parse unb64 validUTF8 method (sV2Slash ++ (R ++ cSlash :: (wManifests ++ cSlash :: last))) q =
      parseManifest method R last := by
  rw [parse_segs_path _ _ _ _ noSlash_wManifests hl hne (fun _ => by decide)]
  have h1 : wManifests ≠ wBlobs := by decide
  have h2 : wManifests ≠ wUploads := by decide
  simp [parseSegs, h1, h2]

/-- `/v2/<R>/tags/<last>` -/
theorem parse_tags_path (method : Bytes) (q : Bytes → Bytes) {R last : Bytes}
    (hl : NoSlash last) (hne : last ≠ []) :
    parse unb64 validUTF8 method (sV2Slash ++ (R ++ cSlash :: (wTags ++ cSlash :: last))) q =
      parseTags method q R last := by
  rw [parse_segs_path _ _ _ _ noSlash_wTags hl hne (fun _ => by decide)]
  have h1 : wTags ≠ wBlobs := by decide
  have h2 : wTags ≠ wUploads := by decide
  have h3 : wTags ≠ wManifests := by decide
  simp [parseSegs, h1, h2, h3]

/-- `/v2/<R>/referrers/<last>` -/
theorem parse_referrers_path (method : Bytes) (q : Bytes → Bytes) {R last : Bytes}
    (hl : NoSlash last) (hne : last ≠ []) :
    parse unb64 validUTF8 method (sV2Slash ++ (R ++ cSlash :: (wReferrers ++ cSlash :: last))) q =
      parseReferrers method R last := by
  rw [parse_segs_path _ _ _ _ noSlash_wReferrers hl hne (fun _ => by decide)]
  have h1 : wReferrers ≠ wBlobs := by decide
  have h2 : wReferrers ≠ wUploads := by decide
  have h3 : wReferrers ≠ wManifests := by decide
  have h4 : wReferrers ≠ wTags := by decide
  simp [parseSegs, h1, h2, h3, h4]

end

/-! ### Decimal printing and `atoi` -/

theorem strBytes_ofList (l : List Char) :
    strBytes (String.ofList l) = l.flatMap String.utf8EncodeChar := by
  simp [strBytes, List.utf8Encode]

theorem flatMap_utf8_digits (l : List Char) (h : ∀ c ∈ l, c.isDigit = true) :
    l.flatMap String.utf8EncodeChar = l.map (fun c => c.val.toUInt8) := by
  induction l with
  | nil => rfl
  | cons c l ih =>
    have hc : c.utf8Size = 1 := by
      have := h c (by simp)
      rw [Char.utf8Size_eq_one_iff]
      simp [Char.isDigit] at this
      have h2 := this.2
      simp only [UInt32.le_iff_toNat_le] at h2 ⊢
      exact Nat.le_trans h2 (by decide)
    simp only [List.flatMap_cons, List.map_cons, String.utf8EncodeChar_eq_singleton hc]
    rw [ih (fun c hc => h c (List.mem_cons_of_mem _ hc))]
    rfl


theorem digit_byte {c : Char} (h : c.isDigit = true) :
    isDigit c.val.toUInt8 = true ∧ c.val.toUInt8.toNat = c.toNat := by
  simp only [Char.isDigit, Bool.and_eq_true, decide_eq_true_eq, UInt32.le_iff_toNat_le] at h
  have h1 : c.val.toNat < 256 := Nat.lt_of_le_of_lt h.2 (by decide)
  have e : c.val.toUInt8.toNat = c.val.toNat := by
    rw [UInt32.toNat_toUInt8, Nat.mod_eq_of_lt h1]
  refine ⟨?_, e⟩
  have : (48 : UInt8).toNat ≤ c.val.toUInt8.toNat ∧ c.val.toUInt8.toNat ≤ (57 : UInt8).toNat := by
    rw [e]; exact h
  simp only [isDigit, Bool.and_eq_true, decide_eq_true_eq, UInt8.le_iff_toNat_le]
  exact this

theorem foldl_digits (l : List Char) (h : ∀ c ∈ l, c.isDigit = true) (init : Nat) :
    (l.map (fun c => c.val.toUInt8)).foldl (fun acc c => acc * 10 + (c.toNat - 48)) init =
      Nat.ofDigitChars 10 l init := by
  induction l generalizing init with
  | nil => rfl
  | cons c l ih =>
    simp only [List.map_cons, List.foldl_cons, Nat.ofDigitChars_cons]
    rw [ih (fun c hc => h c (List.mem_cons_of_mem _ hc)), (digit_byte (h c (by simp))).2,
      Nat.mul_comm]
    rfl

theorem atoi_digits (bs : Bytes) (hne : bs ≠ []) (hd : ∀ c ∈ bs, isDigit c = true)
    (hmax : bs.foldl (fun acc c => acc * 10 + (c.toNat - 48)) 0 ≤ 9223372036854775807) :
    atoi bs = some ((bs.foldl (fun acc c => acc * 10 + (c.toNat - 48)) 0 : Nat) : Int) := by
  have hall : bs.all isDigit = true := by simpa using hd
  unfold atoi
  split
  rename_i x neg ds heq
  have hm : (neg, ds) = (false, bs) := by
    rw [← heq]
    split
    · exact absurd (hd 43 (by simp)) (by decide)
    · exact absurd (hd 45 (by simp)) (by decide)
    · rfl
  simp only [Prod.mk.injEq] at hm
  obtain ⟨rfl, rfl⟩ := hm
  simp only [hne, hall]
  simp
  omega

theorem atoi_itoa (n : Int) (h0 : 0 ≤ n) (hmax : n ≤ 9223372036854775807) :
    atoi (itoa n) = some n := by
  obtain ⟨m, rfl⟩ := Int.eq_ofNat_of_zero_le h0
  have hd : ∀ c ∈ Nat.toDigits 10 m, c.isDigit = true :=
    fun c hc => Nat.isDigit_of_mem_toDigits (by decide) (by decide) hc
  have e : itoa (m : Int) = (Nat.toDigits 10 m).map (fun c => c.val.toUInt8) := by
    show strBytes (toString (Int.ofNat m)) = _
    rw [show toString (Int.ofNat m) = String.ofList (Nat.toDigits 10 m) from rfl,
      strBytes_ofList, flatMap_utf8_digits _ hd]
  have hf := foldl_digits _ hd 0
  rw [Nat.ofDigitChars_ten_toDigits] at hf
  rw [e, atoi_digits _ (by simp [Nat.toDigits_ne_nil]) (by
    intro c hc
    obtain ⟨c', hc', rfl⟩ := List.mem_map.mp hc
    exact (digit_byte (hd c' hc')).1) (by rw [hf]; omega), hf]


/-- The bound is needed: `ListN` is a Go `int`, the model's `listN` an unbounded `Int`. -/
theorem atoi_itoa_overflow : atoi (itoa 9223372036854775808) = none := by decide

theorem itoa_ne_nil (n : Int) (h0 : 0 ≤ n) (hmax : n ≤ 9223372036854775807) : itoa n ≠ [] := by
  intro h
  have := atoi_itoa n h0 hmax
  rw [h, show atoi [] = none from by decide] at this
  exact absurd this (by simp)

/-! ### More alphabet facts -/

theorem isWord_ne_colon {c : UInt8} (h : isWord c = true) : c ≠ cColon := by
  rintro rfl; revert h; decide

theorem isTag_no_colon {t : Bytes} (h : isTag t = true) : ∀ c ∈ t, c ≠ cColon := by
  cases t with
  | nil => simp
  | cons a rest =>
    simp only [isTag, Bool.and_eq_true, List.all_eq_true, Bool.or_eq_true, beq_iff_eq] at h
    intro c hc
    rcases List.mem_cons.mp hc with hc | hc
    · subst hc; exact isWord_ne_colon h.1.2
    · rcases h.2 c hc with (h' | h') | h'
      · exact isWord_ne_colon h'
      · subst h'; decide
      · subst h'; decide

/-- A digest contains a colon. -/
theorem isDigest_has_colon {d : Bytes} (h : isDigest d = true) : cColon ∈ d := by
  unfold isDigest at h
  simp only at h
  have hsplit := List.takeWhile_append_dropWhile (p := fun c => c != cColon) (l := d)
  generalize hdrop : d.dropWhile (fun c => c != cColon) = dr at h hsplit
  cases dr with
  | nil => simp at h
  | cons x enc =>
    have hx : x = cColon := by simpa using dropWhile_head_false _ hdrop
    rw [← hsplit, hx]; simp

/-- A tag is never a digest (so the manifest route reads a tag as a tag). -/
theorem isTag_not_isDigest {t : Bytes} (h : isTag t = true) : isDigest t = false := by
  rw [Bool.eq_false_iff]
  intro hd
  exact isTag_no_colon h _ (isDigest_has_colon hd) rfl

theorem isDigest_not_isTag {d : Bytes} (h : isDigest d = true) : isTag d = false := by
  rw [Bool.eq_false_iff]
  intro ht
  rw [isTag_not_isDigest ht] at h
  exact absurd h (by decide)

theorem isRepo_ne_nil {p : Bytes} (h : isRepo p = true) : p ≠ [] := by
  rintro rfl; revert h; decide

theorem isDigest_ne_wUploads {d : Bytes} (h : isDigest d = true) : d ≠ wUploads := by
  rintro rfl; revert h; decide

/-- A repository never starts with `_`: `_catalog` is not a repository. -/
theorem isRepo_sCatalog : isRepo sCatalog = false := by decide

/-! ### `qget` -/

theorem qget_nil (k : Bytes) : qget [] k = [] := rfl

theorem qget_cons_eq (k v : Bytes) (ps : List (Bytes × Bytes)) : qget ((k, v) :: ps) k = v := by
  simp [qget]

theorem qget_cons_ne {k' k : Bytes} (v : Bytes) (ps : List (Bytes × Bytes)) (h : k' ≠ k) :
    qget ((k', v) :: ps) k = qget ps k := by
  simp [qget, h]

/-! ### `listParams` of the query the client builds -/

def maxInt64 : Int := 9223372036854775807

theorem listParams_listQuery (r r0 : Request) (hn : r.listN ≥ -1) (hmax : r.listN ≤ maxInt64) :
    listParams (qget (listQuery r)) r0 = .ok { r0 with listN := r.listN, listLast := r.listLast } := by
  have hNL : qN ≠ qLast := by decide
  have hLN : qLast ≠ qN := by decide
  unfold maxInt64 at hmax
  by_cases h0 : r.listN ≥ 0
  · have hq : qget (listQuery r) qN = itoa r.listN := by
      simp only [listQuery, h0, if_true, List.cons_append, List.nil_append, qget_cons_eq]
    have hl : qget (listQuery r) qLast = r.listLast := by
      simp only [listQuery, h0, if_true, List.cons_append, List.nil_append, qget_cons_ne _ _ hNL]
      by_cases hl : r.listLast = []
      · simp [hl, qget_nil]
      · simp [hl, qget_cons_eq]
    simp only [listParams, hq, hl, ne_eq, itoa_ne_nil _ h0 hmax, not_false_eq_true, if_true,
      atoi_itoa _ h0 hmax]
  · have hm1 : r.listN = -1 := by omega
    have hq : qget (listQuery r) qN = [] := by
      simp only [listQuery, h0, if_false, List.nil_append]
      by_cases hl : r.listLast = []
      · simp [hl, qget_nil]
      · simp [hl, qget_cons_ne _ _ hLN, qget_nil]
    have hl : qget (listQuery r) qLast = r.listLast := by
      simp only [listQuery, h0, if_false, List.nil_append]
      by_cases hl : r.listLast = []
      · simp [hl, qget_nil]
      · simp [hl, qget_cons_eq]
    simp only [listParams, hq, hl, ne_eq, not_true_eq_false, if_false, hm1]

/-! ### Client path, then server classification: one lemma per path family -/

section
variable (b64 : Bytes → Bytes) (unb64 : Bytes → Option Bytes) (validUTF8 : Bytes → Bool)

def blobTable : List (Bytes × Kind) := [(mGET, .blobGet), (mHEAD, .blobHead), (mDELETE, .blobDelete)]
def manifestTable : List (Bytes × Kind) :=
  [(mGET, .manifestGet), (mHEAD, .manifestHead), (mPUT, .manifestPut), (mDELETE, .manifestDelete)]

theorem parse_blob_valid (m : Bytes) (q : Bytes → Bytes) {R d : Bytes}
    (hR : isRepo R = true) (hd : isDigest d = true) :
    parse unb64 validUTF8 m (sV2Slash ++ R ++ strBytes "/blobs/" ++ d) q =
      (methodKind m blobTable).map fun k => { kind := k, repo := R, digest := d } := by
  have e : sV2Slash ++ R ++ strBytes "/blobs/" ++ d =
      sV2Slash ++ (R ++ cSlash :: (wBlobs ++ cSlash :: d)) := by rw [strBlobs_split]; simp
  rw [e, parse_blobs_path _ _ _ _ (noSlash_digest hd) (isDigest_ne_nil hd) (isDigest_ne_wUploads hd)]
  simp [parseBlob, hR, hd, blobTable]

theorem parse_manifest_digest_valid (m : Bytes) (q : Bytes → Bytes) {R d : Bytes}
    (hR : isRepo R = true) (hd : isDigest d = true) :
    parse unb64 validUTF8 m (sV2Slash ++ R ++ strBytes "/manifests/" ++ d) q =
      (methodKind m manifestTable).map fun k => { kind := k, repo := R, digest := d } := by
  have e : sV2Slash ++ R ++ strBytes "/manifests/" ++ d =
      sV2Slash ++ (R ++ cSlash :: (wManifests ++ cSlash :: d)) := by rw [strManifests_split]; simp
  rw [e, parse_manifests_path _ _ _ _ (noSlash_digest hd) (isDigest_ne_nil hd)]
  simp only [parseManifest, hR, hd, manifestTable]
  cases methodKind m [(mGET, Kind.manifestGet), (mHEAD, Kind.manifestHead), (mPUT, Kind.manifestPut),
    (mDELETE, Kind.manifestDelete)] <;> rfl

theorem parse_manifest_tag_valid (m : Bytes) (q : Bytes → Bytes) {R t : Bytes}
    (hR : isRepo R = true) (ht : isTag t = true) :
    parse unb64 validUTF8 m (sV2Slash ++ R ++ strBytes "/manifests/" ++ t) q =
      (methodKind m manifestTable).map fun k => { kind := k, repo := R, tag := t } := by
  have e : sV2Slash ++ R ++ strBytes "/manifests/" ++ t =
      sV2Slash ++ (R ++ cSlash :: (wManifests ++ cSlash :: t)) := by rw [strManifests_split]; simp
  rw [e, parse_manifests_path _ _ _ _ (noSlash_tag ht) (isTag_length t ht).2]
  simp only [parseManifest, hR, ht, isTag_not_isDigest ht, manifestTable]
  cases methodKind m [(mGET, Kind.manifestGet), (mHEAD, Kind.manifestHead), (mPUT, Kind.manifestPut),
    (mDELETE, Kind.manifestDelete)] <;> rfl

theorem parse_referrers_valid (q : Bytes → Bytes) {R d : Bytes}
    (hR : isRepo R = true) (hd : isDigest d = true) :
    parse unb64 validUTF8 mGET (sV2Slash ++ R ++ strBytes "/referrers/" ++ d) q =
      .ok { kind := .referrersList, repo := R, digest := d, listN := -1 } := by
  have e : sV2Slash ++ R ++ strBytes "/referrers/" ++ d =
      sV2Slash ++ (R ++ cSlash :: (wReferrers ++ cSlash :: d)) := by rw [strReferrers_split]; simp
  rw [e, parse_referrers_path _ _ _ _ (noSlash_digest hd) (isDigest_ne_nil hd)]
  simp [parseReferrers, hR, hd]

theorem parse_tagsList_valid (q : Bytes → Bytes) {R : Bytes} (hR : isRepo R = true) :
    parse unb64 validUTF8 mGET (sV2Slash ++ R ++ strBytes "/tags/list") q =
      match listParams q { kind := .tagsList } with
      | .error e => .error e
      | .ok r => .ok { r with repo := R } := by
  have e : sV2Slash ++ R ++ strBytes "/tags/list" =
      sV2Slash ++ (R ++ cSlash :: (wTags ++ cSlash :: wList)) := by rw [strTagsList_split]; simp
  rw [e, parse_tags_path _ _ _ _ noSlash_wList (by decide)]
  simp only [parseTags, hR]
  cases listParams q { kind := .tagsList } <;> simp

/-- The upload-session path: `/v2/<R>/blobs/uploads/<b64 id>`. -/
theorem parse_upload_valid (hb : ∀ x, unb64 (b64 x) = some x) (hne : ∀ x, x ≠ [] → b64 x ≠ [])
    (hns : ∀ x, (47 : UInt8) ∉ b64 x) (m : Bytes) (q : Bytes → Bytes) {R id : Bytes}
    (hR : isRepo R = true) (hid : id ≠ []) (hu : validUTF8 id = true) :
    parse unb64 validUTF8 m (sV2Slash ++ R ++ sUploadsSlash ++ b64 id) q =
      if m = mGET then .ok { kind := .blobUploadInfo, repo := R, uploadID := id }
      else if m = mPATCH then .ok { kind := .blobUploadChunk, repo := R, uploadID := id }
      else if m = mPUT then
        if !isDigest (q qDigest) then .error .badlyFormedDigest
        else .ok { kind := .blobCompleteUpload, repo := R, uploadID := id, digest := q qDigest }
      else .error .methodNotAllowed := by
  have e : sV2Slash ++ R ++ sUploadsSlash ++ b64 id =
      sV2Slash ++ (R ++ cSlash :: (wBlobs ++ cSlash :: (wUploads ++ cSlash :: b64 id))) := by
    rw [sUploadsSlash_split]; simp
  rw [e, parse_uploads_path _ _ _ _ (noSlash_of_not_mem (hns id)) (hne id hid)]
  simp only [parseUpload, cutSuffix_append, hR, hne id hid, hb, hu]
  simp

theorem parse_start_valid (q : Bytes → Bytes) (R : Bytes) :
    parse unb64 validUTF8 mPOST (sV2Slash ++ R ++ sUploadsSlash) q = parseStart mPOST q R := by
  rw [List.append_assoc, parse_start_path]

theorem parse_catalog_valid (q : Bytes → Bytes) :
    parse unb64 validUTF8 mGET (strBytes "/v2/_catalog") q =
      match listParams q { kind := .catalogList } with
      | .ok r => .ok r
      | .error _ => .ok { kind := .catalogList, listN := -1 } := by
  rw [strCatalog_split, parse_catalog_path]
  simp [parseCatalog]

theorem methodKind_blob_GET : methodKind mGET blobTable = .ok .blobGet := by decide
theorem methodKind_blob_HEAD : methodKind mHEAD blobTable = .ok .blobHead := by decide
theorem methodKind_blob_DELETE : methodKind mDELETE blobTable = .ok .blobDelete := by decide
theorem methodKind_manifest_GET : methodKind mGET manifestTable = .ok .manifestGet := by decide
theorem methodKind_manifest_HEAD : methodKind mHEAD manifestTable = .ok .manifestHead := by decide
theorem methodKind_manifest_PUT : methodKind mPUT manifestTable = .ok .manifestPut := by decide
theorem methodKind_manifest_DELETE : methodKind mDELETE manifestTable = .ok .manifestDelete := by
  decide

/-! ### The round trip, all kinds -/

theorem construct_parse_aux (hb : ∀ x, unb64 (b64 x) = some x) (hne : ∀ x, x ≠ [] → b64 x ≠ [])
    (hns : ∀ x, (47 : UInt8) ∉ b64 x) (r : Request) (hv : ValidReq validUTF8 r)
    (hN : r.listN ≤ maxInt64) :
    parse unb64 validUTF8 (construct b64 r).1 (construct b64 r).2.1 (qget (construct b64 r).2.2) =
      .ok r := by
  obtain ⟨kind, repo, digest, tag, fromRepo, uploadID, listN, listLast⟩ := r
  have hDM : qDigest ≠ qMount := by decide
  have hMF : qMount ≠ qFrom := by decide
  cases kind <;> simp only [ValidReq, Request.mk.injEq, true_and] at hv
  case ping =>
    obtain ⟨rfl, rfl, rfl, rfl, rfl, rfl, rfl⟩ := hv
    exact parse_ping _ _ _ _
  case blobGet =>
    obtain ⟨hR, hd, rfl, rfl, rfl, rfl, rfl⟩ := hv
    simp only [construct]
    rw [parse_blob_valid _ _ _ _ hR hd, methodKind_blob_GET]; rfl
  case blobHead =>
    obtain ⟨hR, hd, rfl, rfl, rfl, rfl, rfl⟩ := hv
    simp only [construct]
    rw [parse_blob_valid _ _ _ _ hR hd, methodKind_blob_HEAD]; rfl
  case blobDelete =>
    obtain ⟨hR, hd, rfl, rfl, rfl, rfl, rfl⟩ := hv
    simp only [construct]
    rw [parse_blob_valid _ _ _ _ hR hd, methodKind_blob_DELETE]; rfl
  case blobStartUpload =>
    obtain ⟨hR, rfl, rfl, rfl, rfl, rfl, rfl⟩ := hv
    simp only [construct]
    rw [parse_start_valid]
    simp [parseStart, hR, qget_nil]
  case blobUploadBlob =>
    obtain ⟨hR, hd, rfl, rfl, rfl, rfl, rfl⟩ := hv
    simp only [construct]
    rw [parse_start_valid]
    simp [parseStart, hR, hd, qget_nil, qget_cons_eq, qget_cons_ne _ _ hDM, isDigest_ne_nil hd]
  case blobMount =>
    obtain ⟨hR, hd, hF, rfl, rfl, rfl, rfl⟩ := hv
    simp only [construct]
    rw [parse_start_valid]
    simp [parseStart, hR, hd, hF, qget_cons_eq, qget_cons_ne _ _ hMF, isDigest_ne_nil hd,
      isRepo_ne_nil hF]
  case blobUploadInfo =>
    obtain ⟨hR, hid, hu, rfl, rfl, rfl, rfl, rfl⟩ := hv
    simp only [construct, uploadPath]
    rw [parse_upload_valid b64 unb64 validUTF8 hb hne hns _ _ hR hid hu]
    simp
  case blobUploadChunk =>
    obtain ⟨hR, hid, hu, rfl, rfl, rfl, rfl, rfl⟩ := hv
    simp only [construct, uploadPath]
    rw [parse_upload_valid b64 unb64 validUTF8 hb hne hns _ _ hR hid hu]
    have : mPATCH ≠ mGET := by decide
    simp [this]
  case blobCompleteUpload =>
    obtain ⟨hR, hid, hu, hd, rfl, rfl, rfl, rfl⟩ := hv
    simp only [construct, uploadPath]
    rw [parse_upload_valid b64 unb64 validUTF8 hb hne hns _ _ hR hid hu]
    have h1 : mPUT ≠ mGET := by decide
    have h2 : mPUT ≠ mPATCH := by decide
    simp [h1, h2, qget_cons_eq, hd]
  case manifestGet =>
    obtain ⟨hR, h⟩ := hv
    rcases h with ⟨hd, rfl, rfl, rfl, rfl, rfl⟩ | ⟨ht, rfl, rfl, rfl, rfl, rfl⟩
    · simp only [construct, tagOrDigest]
      simp only [ne_eq, not_true_eq_false, if_false]
      rw [parse_manifest_digest_valid _ _ _ _ hR hd, methodKind_manifest_GET]; rfl
    · simp only [construct, tagOrDigest, ne_eq, (isTag_length _ ht).2, not_false_eq_true, if_true]
      rw [parse_manifest_tag_valid _ _ _ _ hR ht, methodKind_manifest_GET]; rfl
  case manifestHead =>
    obtain ⟨hR, h⟩ := hv
    rcases h with ⟨hd, rfl, rfl, rfl, rfl, rfl⟩ | ⟨ht, rfl, rfl, rfl, rfl, rfl⟩
    · simp only [construct, tagOrDigest]
      simp only [ne_eq, not_true_eq_false, if_false]
      rw [parse_manifest_digest_valid _ _ _ _ hR hd, methodKind_manifest_HEAD]; rfl
    · simp only [construct, tagOrDigest, ne_eq, (isTag_length _ ht).2, not_false_eq_true, if_true]
      rw [parse_manifest_tag_valid _ _ _ _ hR ht, methodKind_manifest_HEAD]; rfl
  case manifestPut =>
    obtain ⟨hR, h⟩ := hv
    rcases h with ⟨hd, rfl, rfl, rfl, rfl, rfl⟩ | ⟨ht, rfl, rfl, rfl, rfl, rfl⟩
    · simp only [construct, tagOrDigest]
      simp only [ne_eq, not_true_eq_false, if_false]
      rw [parse_manifest_digest_valid _ _ _ _ hR hd, methodKind_manifest_PUT]; rfl
    · simp only [construct, tagOrDigest, ne_eq, (isTag_length _ ht).2, not_false_eq_true, if_true]
      rw [parse_manifest_tag_valid _ _ _ _ hR ht, methodKind_manifest_PUT]; rfl
  case manifestDelete =>
    obtain ⟨hR, h⟩ := hv
    rcases h with ⟨hd, rfl, rfl, rfl, rfl, rfl⟩ | ⟨ht, rfl, rfl, rfl, rfl, rfl⟩
    · simp only [construct, tagOrDigest]
      simp only [ne_eq, not_true_eq_false, if_false]
      rw [parse_manifest_digest_valid _ _ _ _ hR hd, methodKind_manifest_DELETE]; rfl
    · simp only [construct, tagOrDigest, ne_eq, (isTag_length _ ht).2, not_false_eq_true, if_true]
      rw [parse_manifest_tag_valid _ _ _ _ hR ht, methodKind_manifest_DELETE]; rfl
  case tagsList =>
    obtain ⟨hR, hn, rfl, rfl, rfl, rfl, -⟩ := hv
    simp only [construct]
    rw [parse_tagsList_valid _ _ _ hR, listParams_listQuery _ _ hn hN]
  case referrersList =>
    obtain ⟨hR, hd, rfl, rfl, rfl, rfl, rfl⟩ := hv
    simp only [construct]
    rw [parse_referrers_valid _ _ _ hR hd]
  case catalogList =>
    obtain ⟨hn, rfl, rfl, rfl, rfl, rfl, -⟩ := hv
    simp only [construct]
    rw [parse_catalog_valid, listParams_listQuery _ _ hn hN]

end

/-! ### Soundness: the shape of every `.ok` result of `parse` -/

def minInt64 : Int := -9223372036854775808

theorem atoi_range {s : Bytes} {n : Int} (h : atoi s = some n) : minInt64 ≤ n ∧ n ≤ maxInt64 := by
  unfold atoi at h
  split at h
  rename_i x neg ds heq
  by_cases h1 : ds = [] ∨ (!ds.all isDigit) = true
  · rw [if_pos h1] at h; cases h
  · rw [if_neg h1] at h
    simp only at h
    split at h <;> split at h <;>
      cases h <;> (simp only [minInt64, maxInt64]; omega)

theorem methodKind_ok {m : Bytes} {table : List (Bytes × Kind)} {k : Kind}
    (h : methodKind m table = .ok k) : (m, k) ∈ table := by
  unfold methodKind at h
  split at h
  · rename_i m' k' hf
    simp only [Except.ok.injEq] at h
    subst h
    have h1 := List.mem_of_find?_eq_some hf
    have h2 := List.find?_some hf
    simp only [beq_iff_eq] at h2
    subst h2
    exact h1
  · simp at h

theorem methodKind_error {m : Bytes} {table : List (Bytes × Kind)} {e : PErr}
    (h : methodKind m table = .error e) : e = .methodNotAllowed ∧ ∀ k, (m, k) ∉ table := by
  unfold methodKind at h
  split at h
  · simp at h
  · rename_i hf
    simp only [Except.error.injEq] at h
    refine ⟨h.symm, ?_⟩
    intro k hk
    have := List.find?_eq_none.mp hf (m, k) hk
    simp at this

/-- The method table: the method under which each kind is classified (and sent). -/
def kindMethod : Kind → Bytes
  | .ping => mGET
  | .blobGet => mGET | .blobHead => mHEAD | .blobDelete => mDELETE
  | .blobStartUpload => mPOST | .blobUploadBlob => mPOST | .blobMount => mPOST
  | .blobUploadInfo => mGET | .blobUploadChunk => mPATCH | .blobCompleteUpload => mPUT
  | .manifestGet => mGET | .manifestHead => mHEAD | .manifestPut => mPUT | .manifestDelete => mDELETE
  | .tagsList => mGET | .referrersList => mGET | .catalogList => mGET

theorem construct_method (b64 : Bytes → Bytes) (r : Request) :
    (construct b64 r).1 = kindMethod r.kind := by
  obtain ⟨kind, repo, digest, tag, fromRepo, uploadID, listN, listLast⟩ := r
  cases kind <;> rfl

section
variable (unb64 : Bytes → Option Bytes) (validUTF8 : Bytes → Bool)

/-- What the server can classify: the shape of every `.ok` result of `parse`. -/
def ParsedReq (r : Request) : Prop :=
  match r.kind with
  | .ping => r = { kind := .ping }
  | .blobGet | .blobHead | .blobDelete =>
    isRepo r.repo = true ∧ isDigest r.digest = true ∧ r = { kind := r.kind, repo := r.repo, digest := r.digest }
  | .blobStartUpload => isRepo r.repo = true ∧ r = { kind := .blobStartUpload, repo := r.repo }
  | .blobUploadBlob => isRepo r.repo = true ∧ isDigest r.digest = true ∧ r = { kind := .blobUploadBlob, repo := r.repo, digest := r.digest }
  | .blobMount => isRepo r.repo = true ∧ isDigest r.digest = true ∧ isRepo r.fromRepo = true ∧
      r = { kind := .blobMount, repo := r.repo, digest := r.digest, fromRepo := r.fromRepo }
  | .blobUploadInfo | .blobUploadChunk =>
    isRepo r.repo = true ∧ validUTF8 r.uploadID = true ∧
      (∃ seg, seg ≠ [] ∧ unb64 seg = some r.uploadID) ∧
      r = { kind := r.kind, repo := r.repo, uploadID := r.uploadID }
  | .blobCompleteUpload =>
    isRepo r.repo = true ∧ validUTF8 r.uploadID = true ∧
      (∃ seg, seg ≠ [] ∧ unb64 seg = some r.uploadID) ∧ isDigest r.digest = true ∧
      r = { kind := .blobCompleteUpload, repo := r.repo, uploadID := r.uploadID, digest := r.digest }
  | .manifestGet | .manifestHead | .manifestPut | .manifestDelete =>
    isRepo r.repo = true ∧
      ((isDigest r.digest = true ∧ r = { kind := r.kind, repo := r.repo, digest := r.digest }) ∨
       (isTag r.tag = true ∧ r = { kind := r.kind, repo := r.repo, tag := r.tag }))
  | .tagsList => isRepo r.repo = true ∧ minInt64 ≤ r.listN ∧ r.listN ≤ maxInt64 ∧
      r = { kind := .tagsList, repo := r.repo, listN := r.listN, listLast := r.listLast }
  | .referrersList => isRepo r.repo = true ∧ isDigest r.digest = true ∧
      r = { kind := .referrersList, repo := r.repo, digest := r.digest, listN := -1 }
  | .catalogList => minInt64 ≤ r.listN ∧ r.listN ≤ maxInt64 ∧
      r = { kind := .catalogList, listN := r.listN, listLast := r.listLast }

/-- `ParsedReq` together with the method under which the request was classified. -/
def ParsedAs (m : Bytes) (r : Request) : Prop :=
  ParsedReq unb64 validUTF8 r ∧ (r.kind ≠ .ping → m = kindMethod r.kind)

theorem listParams_ok {q : Bytes → Bytes} {r0 r : Request} (h : listParams q r0 = .ok r) :
    minInt64 ≤ r.listN ∧ r.listN ≤ maxInt64 ∧ r = { r0 with listN := r.listN, listLast := r.listLast } := by
  unfold listParams at h
  simp only at h
  split at h
  · split at h
    · simp at h
    · rename_i n hn
      simp only [Except.ok.injEq] at h
      subst h
      exact ⟨(atoi_range hn).1, (atoi_range hn).2, rfl⟩
  · simp only [Except.ok.injEq] at h
    subst h
    exact ⟨by simp [minInt64], by simp [maxInt64], rfl⟩

theorem parseCatalog_ok {m : Bytes} {q : Bytes → Bytes} {r : Request}
    (h : parseCatalog m q = .ok r) : ParsedAs unb64 validUTF8 m r := by
  unfold parseCatalog at h
  split at h
  · cases h
  · rename_i hm
    simp only [ne_eq, Decidable.not_not] at hm
    split at h
    · rename_i r' hr
      cases h
      obtain ⟨h1, h2, h3⟩ := listParams_ok hr
      rw [h3]
      exact ⟨⟨h1, h2, rfl⟩, fun _ => hm⟩
    · cases h
      exact ⟨⟨by simp [minInt64], by simp [maxInt64], rfl⟩, fun _ => hm⟩

theorem parseStart_ok {m : Bytes} {q : Bytes → Bytes} {R : Bytes} {r : Request}
    (h : parseStart m q R = .ok r) : ParsedAs unb64 validUTF8 m r := by
  unfold parseStart at h
  split at h
  · cases h
  · rename_i hR
    simp only [Bool.not_eq_true', Bool.not_eq_false] at hR
    split at h
    · cases h
    · rename_i hm
      simp only [ne_eq, Decidable.not_not] at hm
      split at h
      · split at h
        · cases h
        · rename_i hd
          simp only [Bool.not_eq_true', Bool.not_eq_false] at hd
          split at h
          · cases h; exact ⟨⟨hR, rfl⟩, fun _ => hm⟩
          · split at h
            · cases h
            · rename_i hF
              simp only [Bool.not_eq_true', Bool.not_eq_false] at hF
              cases h; exact ⟨⟨hR, hd, hF, rfl⟩, fun _ => hm⟩
      · split at h
        · split at h
          · cases h
          · rename_i hd
            simp only [Bool.not_eq_true', Bool.not_eq_false] at hd
            cases h; exact ⟨⟨hR, hd, rfl⟩, fun _ => hm⟩
        · cases h; exact ⟨⟨hR, rfl⟩, fun _ => hm⟩

theorem parseBlob_ok {m R d : Bytes} {r : Request}
    (h : parseBlob m R d = .ok r) : ParsedAs unb64 validUTF8 m r := by
  unfold parseBlob at h
  split at h
  · cases h
  · rename_i hd
    simp only [Bool.not_eq_true', Bool.not_eq_false] at hd
    split at h
    · cases h
    · rename_i hR
      simp only [Bool.not_eq_true', Bool.not_eq_false] at hR
      cases hk : methodKind m [(mGET, .blobGet), (mHEAD, .blobHead), (mDELETE, .blobDelete)] with
      | error e => rw [hk] at h; cases h
      | ok k =>
        rw [hk] at h
        cases h
        have := methodKind_ok hk
        simp only [List.mem_cons, Prod.mk.injEq, List.not_mem_nil, or_false] at this
        rcases this with ⟨rfl, rfl⟩ | ⟨rfl, rfl⟩ | ⟨rfl, rfl⟩ <;>
          exact ⟨⟨hR, hd, rfl⟩, fun _ => rfl⟩

theorem parseUpload_ok {m : Bytes} {q : Bytes → Bytes} {P last : Bytes} {r : Request}
    (h : parseUpload unb64 validUTF8 m q P last = .ok r) : ParsedAs unb64 validUTF8 m r := by
  unfold parseUpload at h
  split at h
  · cases h
  · rename_i repo hcut
    split at h
    · cases h
    · rename_i hR
      simp only [Bool.not_eq_true', Bool.not_eq_false] at hR
      split at h
      · cases h
      · rename_i hne
        split at h
        · cases h
        · rename_i id hid
          split at h
          · cases h
          · rename_i hu
            simp only [Bool.not_eq_true', Bool.not_eq_false] at hu
            split at h
            · rename_i hm
              cases h; exact ⟨⟨hR, hu, ⟨last, hne, hid⟩, rfl⟩, fun _ => hm⟩
            · split at h
              · rename_i hm
                cases h; exact ⟨⟨hR, hu, ⟨last, hne, hid⟩, rfl⟩, fun _ => hm⟩
              · split at h
                · rename_i hm
                  split at h
                  · cases h
                  · rename_i hd
                    simp only [Bool.not_eq_true', Bool.not_eq_false] at hd
                    cases h; exact ⟨⟨hR, hu, ⟨last, hne, hid⟩, hd, rfl⟩, fun _ => hm⟩
                · cases h

theorem parseManifest_ok {m R last : Bytes} {r : Request}
    (h : parseManifest m R last = .ok r) : ParsedAs unb64 validUTF8 m r := by
  unfold parseManifest at h
  split at h
  · cases h
  · rename_i hR
    simp only [Bool.not_eq_true', Bool.not_eq_false] at hR
    simp only at h
    split at h
    · cases h
    · rename_i r0 hr0
      cases hk : methodKind m [(mGET, .manifestGet), (mHEAD, .manifestHead), (mPUT, .manifestPut),
        (mDELETE, .manifestDelete)] with
      | error e => rw [hk] at h; cases h
      | ok k =>
        rw [hk] at h
        cases h
        have hk' := methodKind_ok hk
        simp only [List.mem_cons, Prod.mk.injEq, List.not_mem_nil, or_false] at hk'
        split at hr0
        · rename_i hd
          cases hr0
          rcases hk' with ⟨rfl, rfl⟩ | ⟨rfl, rfl⟩ | ⟨rfl, rfl⟩ | ⟨rfl, rfl⟩ <;>
            exact ⟨⟨hR, Or.inl ⟨hd, rfl⟩⟩, fun _ => rfl⟩
        · split at hr0
          · rename_i ht
            cases hr0
            rcases hk' with ⟨rfl, rfl⟩ | ⟨rfl, rfl⟩ | ⟨rfl, rfl⟩ | ⟨rfl, rfl⟩ <;>
              exact ⟨⟨hR, Or.inr ⟨ht, rfl⟩⟩, fun _ => rfl⟩
          · cases hr0

theorem parseTags_ok {m : Bytes} {q : Bytes → Bytes} {R last : Bytes} {r : Request}
    (h : parseTags m q R last = .ok r) : ParsedAs unb64 validUTF8 m r := by
  unfold parseTags at h
  split at h
  · cases h
  · split at h
    · cases h
    · rename_i r' hr
      split at h
      · cases h
      · rename_i hm
        simp only [ne_eq, Decidable.not_not] at hm
        split at h
        · cases h
        · rename_i hR
          simp only [Bool.not_eq_true', Bool.not_eq_false] at hR
          cases h
          obtain ⟨h1, h2, h3⟩ := listParams_ok hr
          rw [h3]
          exact ⟨⟨hR, h1, h2, rfl⟩, fun _ => hm⟩

theorem parseReferrers_ok {m R last : Bytes} {r : Request}
    (h : parseReferrers m R last = .ok r) : ParsedAs unb64 validUTF8 m r := by
  unfold parseReferrers at h
  split at h
  · cases h
  · rename_i hd
    simp only [Bool.not_eq_true', Bool.not_eq_false] at hd
    split at h
    · cases h
    · rename_i hm
      simp only [ne_eq, Decidable.not_not] at hm
      split at h
      · cases h
      · rename_i hR
        simp only [Bool.not_eq_true', Bool.not_eq_false] at hR
        cases h; exact ⟨⟨hR, hd, rfl⟩, fun _ => hm⟩

theorem parseSegs_ok {m : Bytes} {q : Bytes → Bytes} {R last w : Bytes} {r : Request}
    (h : parseSegs unb64 validUTF8 m q R last w = .ok r) : ParsedAs unb64 validUTF8 m r := by
  unfold parseSegs at h
  split at h
  · exact parseBlob_ok _ _ h
  · split at h
    · exact parseUpload_ok _ _ h
    · split at h
      · exact parseManifest_ok _ _ h
      · split at h
        · exact parseTags_ok _ _ h
        · split at h
          · exact parseReferrers_ok _ _ h
          · cases h

theorem parseAfter_ok {m : Bytes} {q : Bytes → Bytes} {p : Bytes} {r : Request}
    (h : parseAfter unb64 validUTF8 m q p = .ok r) : ParsedAs unb64 validUTF8 m r := by
  unfold parseAfter at h
  split at h
  · exact parseCatalog_ok _ _ h
  · split at h
    · exact parseStart_ok _ _ h
    · split at h
      · cases h
      · split at h
        · cases h
        · exact parseSegs_ok _ _ h

/-- Every `.ok` result of `parse` has the `ParsedReq` shape, and was classified under the
method of the table. -/
theorem parse_ok {m p : Bytes} {q : Bytes → Bytes} {r : Request}
    (h : parse unb64 validUTF8 m p q = .ok r) : ParsedAs unb64 validUTF8 m r := by
  rw [parse_eq] at h
  split at h
  · cases h; exact ⟨rfl, fun hne => absurd rfl hne⟩
  · split at h
    · cases h
    · exact parseAfter_ok _ _ h

/-! ### Consequences of the `ParsedReq` shape -/

theorem parsed_repo {r : Request} (h : ParsedReq unb64 validUTF8 r) (h1 : r.kind ≠ .ping)
    (h2 : r.kind ≠ .catalogList) : isRepo r.repo = true := by
  obtain ⟨kind, repo, digest, tag, fromRepo, uploadID, listN, listLast⟩ := r
  cases kind <;> simp only [ParsedReq] at h <;> first | exact h.1 | exact absurd rfl h1 | exact absurd rfl h2

theorem parsed_digest {r : Request} (h : ParsedReq unb64 validUTF8 r) (h1 : r.digest ≠ []) :
    isDigest r.digest = true := by
  obtain ⟨kind, repo, digest, tag, fromRepo, uploadID, listN, listLast⟩ := r
  cases kind <;> simp only [ParsedReq, Request.mk.injEq, true_and] at h <;> simp only [] at h1 <;>
    first
      | exact h.2.1
      | exact h.2.2.2.1
      | exact absurd h.1 h1
      | exact absurd h.2.1 h1
      | exact absurd h.2.2.1 h1
      | exact absurd h.2.2.2.1 h1
      | (rcases h.2 with h' | h'
         · exact h'.1
         · exact absurd h'.2.1 h1)

theorem parsed_tag {r : Request} (h : ParsedReq unb64 validUTF8 r) (h1 : r.tag ≠ []) :
    isTag r.tag = true := by
  obtain ⟨kind, repo, digest, tag, fromRepo, uploadID, listN, listLast⟩ := r
  cases kind <;> simp only [ParsedReq, Request.mk.injEq, true_and] at h <;> simp_all

theorem parsed_fromRepo {r : Request} (h : ParsedReq unb64 validUTF8 r) (h1 : r.fromRepo ≠ []) :
    isRepo r.fromRepo = true := by
  obtain ⟨kind, repo, digest, tag, fromRepo, uploadID, listN, listLast⟩ := r
  cases kind <;> simp only [ParsedReq, Request.mk.injEq, true_and] at h <;> simp_all

def Kind.isManifest : Kind → Bool
  | .manifestGet | .manifestHead | .manifestPut | .manifestDelete => true
  | _ => false

def Kind.isUpload : Kind → Bool
  | .blobUploadInfo | .blobUploadChunk | .blobCompleteUpload => true
  | _ => false

/-- A manifest request names the manifest by exactly one of tag and digest. -/
theorem parsed_manifest {r : Request} (h : ParsedReq unb64 validUTF8 r)
    (h1 : r.kind.isManifest = true) :
    (isDigest r.digest = true ∧ r.tag = []) ∨ (isTag r.tag = true ∧ r.digest = []) := by
  obtain ⟨kind, repo, digest, tag, fromRepo, uploadID, listN, listLast⟩ := r
  cases kind <;> simp only [Kind.isManifest] at h1 <;> try (exact absurd h1 (by decide))
  all_goals
    simp only [ParsedReq, Request.mk.injEq, true_and] at h
    rcases h.2 with h' | h'
    · exact Or.inl ⟨h'.1, h'.2.1⟩
    · exact Or.inr ⟨h'.1, h'.2.1⟩

theorem parsed_upload {r : Request} (h : ParsedReq unb64 validUTF8 r)
    (h1 : r.kind.isUpload = true) :
    validUTF8 r.uploadID = true ∧ ∃ seg, seg ≠ [] ∧ unb64 seg = some r.uploadID := by
  obtain ⟨kind, repo, digest, tag, fromRepo, uploadID, listN, listLast⟩ := r
  cases kind <;> simp only [Kind.isUpload] at h1 <;> try (exact absurd h1 (by decide))
  all_goals
    simp only [ParsedReq] at h
    exact ⟨h.2.1, h.2.2.1⟩

/-- A classified request the client could have built: `ParsedReq` is `ValidReq` up to the two
things only the client guarantees (a non-empty upload ID, `listN ≥ -1`). -/
theorem parsed_valid {r : Request} (h : ParsedReq unb64 validUTF8 r)
    (hid : r.kind.isUpload = true → r.uploadID ≠ []) (hn : r.listN ≥ -1) :
    ValidReq validUTF8 r := by
  obtain ⟨kind, repo, digest, tag, fromRepo, uploadID, listN, listLast⟩ := r
  cases kind <;> simp only [ParsedReq] at h <;> simp only [ValidReq]
  case ping => exact h
  case blobGet => exact h
  case blobHead => exact h
  case blobDelete => exact h
  case blobStartUpload => exact h
  case blobUploadBlob => exact h
  case blobMount => exact h
  case blobUploadInfo => exact ⟨h.1, hid rfl, h.2.1, h.2.2.2⟩
  case blobUploadChunk => exact ⟨h.1, hid rfl, h.2.1, h.2.2.2⟩
  case blobCompleteUpload => exact ⟨h.1, hid rfl, h.2.1, h.2.2.2.1, h.2.2.2.2⟩
  case manifestGet => exact h
  case manifestHead => exact h
  case manifestPut => exact h
  case manifestDelete => exact h
  case tagsList => exact ⟨h.1, hn, h.2.2.2⟩
  case referrersList => exact h
  case catalogList => exact ⟨hn, h.2.2⟩

end

/-! ### Method exactness, per path family -/

theorem methodKind_cons_eq (m : Bytes) (k : Kind) (t : List (Bytes × Kind)) :
    methodKind m ((m, k) :: t) = .ok k := by
  simp [methodKind]

theorem methodKind_cons_ne {m m' : Bytes} (k : Kind) (t : List (Bytes × Kind)) (h : m ≠ m') :
    methodKind m ((m', k) :: t) = methodKind m t := by
  have : (m' == m) = false := by simpa using fun e => h e.symm
  simp [methodKind, this]

theorem methodKind_nil (m : Bytes) : methodKind m [] = .error .methodNotAllowed := rfl

theorem methodKind_blobTable (m : Bytes) :
    methodKind m blobTable =
      if m = mGET then .ok .blobGet else if m = mHEAD then .ok .blobHead
      else if m = mDELETE then .ok .blobDelete else .error .methodNotAllowed := by
  unfold blobTable
  by_cases h1 : m = mGET
  · subst h1; rw [methodKind_cons_eq]; simp
  · rw [methodKind_cons_ne _ _ h1, if_neg h1]
    by_cases h2 : m = mHEAD
    · subst h2; rw [methodKind_cons_eq]; simp
    · rw [methodKind_cons_ne _ _ h2, if_neg h2]
      by_cases h3 : m = mDELETE
      · subst h3; rw [methodKind_cons_eq]; simp
      · rw [methodKind_cons_ne _ _ h3, if_neg h3, methodKind_nil]

theorem methodKind_manifestTable (m : Bytes) :
    methodKind m manifestTable =
      if m = mGET then .ok .manifestGet else if m = mHEAD then .ok .manifestHead
      else if m = mPUT then .ok .manifestPut
      else if m = mDELETE then .ok .manifestDelete else .error .methodNotAllowed := by
  unfold manifestTable
  by_cases h1 : m = mGET
  · subst h1; rw [methodKind_cons_eq]; simp
  · rw [methodKind_cons_ne _ _ h1, if_neg h1]
    by_cases h2 : m = mHEAD
    · subst h2; rw [methodKind_cons_eq]; simp
    · rw [methodKind_cons_ne _ _ h2, if_neg h2]
      by_cases h3 : m = mPUT
      · subst h3; rw [methodKind_cons_eq]; simp
      · rw [methodKind_cons_ne _ _ h3, if_neg h3]
        by_cases h4 : m = mDELETE
        · subst h4; rw [methodKind_cons_eq]; simp
        · rw [methodKind_cons_ne _ _ h4, if_neg h4, methodKind_nil]

section
variable (unb64 : Bytes → Option Bytes) (validUTF8 : Bytes → Bool)

/-- Blobs: GET / HEAD / DELETE, anything else is 405. -/
theorem parse_blob_methods (m : Bytes) (q : Bytes → Bytes) {R d : Bytes}
    (hR : isRepo R = true) (hd : isDigest d = true) :
    parse unb64 validUTF8 m (sV2Slash ++ R ++ strBytes "/blobs/" ++ d) q =
      if m = mGET then .ok { kind := .blobGet, repo := R, digest := d }
      else if m = mHEAD then .ok { kind := .blobHead, repo := R, digest := d }
      else if m = mDELETE then .ok { kind := .blobDelete, repo := R, digest := d }
      else .error .methodNotAllowed := by
  rw [parse_blob_valid _ _ _ _ hR hd, methodKind_blobTable]
  split
  · rfl
  · split
    · rfl
    · split <;> rfl

/-- Manifests by digest: GET / HEAD / PUT / DELETE, anything else is 405. -/
theorem parse_manifest_digest_methods (m : Bytes) (q : Bytes → Bytes) {R d : Bytes}
    (hR : isRepo R = true) (hd : isDigest d = true) :
    parse unb64 validUTF8 m (sV2Slash ++ R ++ strBytes "/manifests/" ++ d) q =
      if m = mGET then .ok { kind := .manifestGet, repo := R, digest := d }
      else if m = mHEAD then .ok { kind := .manifestHead, repo := R, digest := d }
      else if m = mPUT then .ok { kind := .manifestPut, repo := R, digest := d }
      else if m = mDELETE then .ok { kind := .manifestDelete, repo := R, digest := d }
      else .error .methodNotAllowed := by
  rw [parse_manifest_digest_valid _ _ _ _ hR hd, methodKind_manifestTable]
  split
  · rfl
  · split
    · rfl
    · split
      · rfl
      · split <;> rfl

/-- Manifests by tag: GET / HEAD / PUT / DELETE, anything else is 405. -/
theorem parse_manifest_tag_methods (m : Bytes) (q : Bytes → Bytes) {R t : Bytes}
    (hR : isRepo R = true) (ht : isTag t = true) :
    parse unb64 validUTF8 m (sV2Slash ++ R ++ strBytes "/manifests/" ++ t) q =
      if m = mGET then .ok { kind := .manifestGet, repo := R, tag := t }
      else if m = mHEAD then .ok { kind := .manifestHead, repo := R, tag := t }
      else if m = mPUT then .ok { kind := .manifestPut, repo := R, tag := t }
      else if m = mDELETE then .ok { kind := .manifestDelete, repo := R, tag := t }
      else .error .methodNotAllowed := by
  rw [parse_manifest_tag_valid _ _ _ _ hR ht, methodKind_manifestTable]
  split
  · rfl
  · split
    · rfl
    · split
      · rfl
      · split <;> rfl

/-- Upload sessions, server side: GET / PATCH / PUT (PUT needs a valid `digest` parameter),
anything else is 405. `seg` is any slash-free non-empty segment that decodes to valid UTF-8. -/
theorem parse_upload_methods (m : Bytes) (q : Bytes → Bytes) {R seg id : Bytes}
    (hR : isRepo R = true) (hs : NoSlash seg) (hne : seg ≠ []) (hdec : unb64 seg = some id)
    (hu : validUTF8 id = true) :
    parse unb64 validUTF8 m (sV2Slash ++ R ++ sUploadsSlash ++ seg) q =
      if m = mGET then .ok { kind := .blobUploadInfo, repo := R, uploadID := id }
      else if m = mPATCH then .ok { kind := .blobUploadChunk, repo := R, uploadID := id }
      else if m = mPUT then
        if !isDigest (q qDigest) then .error .badlyFormedDigest
        else .ok { kind := .blobCompleteUpload, repo := R, uploadID := id, digest := q qDigest }
      else .error .methodNotAllowed := by
  have e : sV2Slash ++ R ++ sUploadsSlash ++ seg =
      sV2Slash ++ (R ++ cSlash :: (wBlobs ++ cSlash :: (wUploads ++ cSlash :: seg))) := by
    rw [sUploadsSlash_split]; simp
  rw [e, parse_uploads_path _ _ _ _ hs hne]
  simp only [parseUpload, cutSuffix_append, hR, hne, hdec, hu]
  simp

/-- Upload start (`/blobs/uploads/` and `/blobs/uploads`): POST only. -/
theorem parse_start_methods (m : Bytes) (q : Bytes → Bytes) {R : Bytes} (hR : isRepo R = true)
    (hm : m ≠ mPOST) :
    parse unb64 validUTF8 m (sV2Slash ++ R ++ sUploadsSlash) q = .error .methodNotAllowed ∧
    parse unb64 validUTF8 m (sV2Slash ++ R ++ sUploadsNoSlash) q = .error .methodNotAllowed := by
  rw [List.append_assoc, List.append_assoc, parse_start_path, parse_start_path']
  simp [parseStart, hR, hm]

/-- Upload start with POST never answers 405, and an `.ok` answer is one of the three POST kinds. -/
theorem parse_start_post (q : Bytes → Bytes) {R : Bytes} (hR : isRepo R = true) :
    parse unb64 validUTF8 mPOST (sV2Slash ++ R ++ sUploadsSlash) q ≠ .error .methodNotAllowed := by
  rw [List.append_assoc, parse_start_path]
  simp only [parseStart, hR]
  simp only [Bool.not_true, Bool.false_eq_true, if_false, ne_eq, not_true_eq_false]
  repeat' split
  all_goals simp

/-- Tag list: GET only (after the `n` parameter has been accepted). -/
theorem parse_tagsList_methods (m : Bytes) (q : Bytes → Bytes) {R : Bytes} {r' : Request}
    (hR : isRepo R = true) (hl : listParams q { kind := .tagsList } = .ok r') :
    parse unb64 validUTF8 m (sV2Slash ++ R ++ strBytes "/tags/list") q =
      if m = mGET then .ok { r' with repo := R } else .error .methodNotAllowed := by
  have e : sV2Slash ++ R ++ strBytes "/tags/list" =
      sV2Slash ++ (R ++ cSlash :: (wTags ++ cSlash :: wList)) := by rw [strTagsList_split]; simp
  rw [e, parse_tags_path _ _ _ _ noSlash_wList (by decide)]
  simp only [parseTags, hl, hR]
  by_cases hm : m = mGET <;> simp [hm]

/-- Referrers: GET only. -/
theorem parse_referrers_methods (m : Bytes) (q : Bytes → Bytes) {R d : Bytes}
    (hR : isRepo R = true) (hd : isDigest d = true) :
    parse unb64 validUTF8 m (sV2Slash ++ R ++ strBytes "/referrers/" ++ d) q =
      if m = mGET then .ok { kind := .referrersList, repo := R, digest := d, listN := -1 }
      else .error .methodNotAllowed := by
  have e : sV2Slash ++ R ++ strBytes "/referrers/" ++ d =
      sV2Slash ++ (R ++ cSlash :: (wReferrers ++ cSlash :: d)) := by rw [strReferrers_split]; simp
  rw [e, parse_referrers_path _ _ _ _ (noSlash_digest hd) (isDigest_ne_nil hd)]
  by_cases hm : m = mGET <;> simp [parseReferrers, hR, hd, hm]

/-- Catalog: GET only. -/
theorem parse_catalog_methods (m : Bytes) (q : Bytes → Bytes) (hm : m ≠ mGET) :
    parse unb64 validUTF8 m (strBytes "/v2/_catalog") q = .error .methodNotAllowed := by
  rw [strCatalog_split, parse_catalog_path]
  simp [parseCatalog, hm]

/-- `/v2/` and `/v2`: every method is a ping. -/
theorem parse_ping_any_method (m : Bytes) (q : Bytes → Bytes) :
    parse unb64 validUTF8 m sV2Slash q = .ok { kind := .ping } ∧
    parse unb64 validUTF8 m sV2 q = .ok { kind := .ping } :=
  ⟨parse_ping _ _ _ _, parse_ping' _ _ _ _⟩

end

/-- Outside the two list kinds a valid request has `listN ∈ {0, -1}`. -/
theorem validReq_listN_le {validUTF8 : Bytes → Bool} {r : Request} (hv : ValidReq validUTF8 r)
    (h1 : r.kind ≠ .tagsList) (h2 : r.kind ≠ .catalogList) : r.listN ≤ maxInt64 := by
  obtain ⟨kind, repo, digest, tag, fromRepo, uploadID, listN, listLast⟩ := r
  cases kind <;> simp only [ValidReq, Request.mk.injEq, true_and] at hv <;>
    first
      | exact absurd rfl h1
      | exact absurd rfl h2
      | skip
  all_goals simp only [maxInt64]
  all_goals first
    | (obtain ⟨_, hv | hv⟩ := hv <;> simp_all <;> omega)
    | (simp_all <;> omega)

end OciModel.ReqCodec
