/-
base64 "raw URL" encoding (RFC 4648 §5, no padding) as Go's
`base64.RawURLEncoding` implements it, and `utf8.Valid`.
Used concretely by the driver; the request-codec theorems take them as
parameters with the round-trip law as a hypothesis.
-/
import OciModel.Base

namespace OciModel.B64Url

def encChar (n : Nat) : UInt8 :=
  if n < 26 then UInt8.ofNat (65 + n)
  else if n < 52 then UInt8.ofNat (97 + (n - 26))
  else if n < 62 then UInt8.ofNat (48 + (n - 52))
  else if n = 62 then 45 else 95

def decChar (c : UInt8) : Option Nat :=
  if 65 ≤ c ∧ c ≤ 90 then some (c.toNat - 65)
  else if 97 ≤ c ∧ c ≤ 122 then some (c.toNat - 97 + 26)
  else if 48 ≤ c ∧ c ≤ 57 then some (c.toNat - 48 + 52)
  else if c = 45 then some 62
  else if c = 95 then some 63
  else none

def encode : Bytes → Bytes
  | [] => []
  | [a] => [encChar (a.toNat / 4), encChar ((a.toNat % 4) * 16)]
  | [a, b] => [encChar (a.toNat / 4), encChar ((a.toNat % 4) * 16 + b.toNat / 16), encChar ((b.toNat % 16) * 4)]
  | a :: b :: c :: rest =>
    encChar (a.toNat / 4) :: encChar ((a.toNat % 4) * 16 + b.toNat / 16) ::
      encChar ((b.toNat % 16) * 4 + c.toNat / 64) :: encChar (c.toNat % 64) :: encode rest

def decodeVals : List Nat → Option Bytes
  | [] => some []
  | [_] => none
  | [a, b] => some [UInt8.ofNat (a * 4 + b / 16)]
  | [a, b, c] => some [UInt8.ofNat (a * 4 + b / 16), UInt8.ofNat ((b % 16) * 16 + c / 4)]
  | a :: b :: c :: d :: rest =>
    (decodeVals rest).map fun r =>
      UInt8.ofNat (a * 4 + b / 16) :: UInt8.ofNat ((b % 16) * 16 + c / 4) :: UInt8.ofNat ((c % 4) * 64 + d) :: r

/-- Go's decoder skips CR and LF, rejects anything else outside the alphabet,
and (non-strict) ignores trailing bits. -/
def decode (s : Bytes) : Option Bytes :=
  let cs := s.filter fun c => c != 13 && c != 10
  match cs.mapM decChar with
  | none => none
  | some vs => decodeVals vs

/-- `utf8.Valid` -/
def validUTF8 : Bytes → Bool
  | [] => true
  | a :: rest =>
    if a < 0x80 then validUTF8 rest
    else if 0xC2 ≤ a ∧ a ≤ 0xDF then
      match rest with
      | b :: r => (0x80 ≤ b ∧ b ≤ 0xBF) && validUTF8 r
      | _ => false
    else if 0xE0 ≤ a ∧ a ≤ 0xEF then
      match rest with
      | b :: c :: r =>
        let lo : UInt8 := if a = 0xE0 then 0xA0 else 0x80
        let hi : UInt8 := if a = 0xED then 0x9F else 0xBF
        (lo ≤ b ∧ b ≤ hi) && (0x80 ≤ c ∧ c ≤ 0xBF) && validUTF8 r
      | _ => false
    else if 0xF0 ≤ a ∧ a ≤ 0xF4 then
      match rest with
      | b :: c :: d :: r =>
        let lo : UInt8 := if a = 0xF0 then 0x90 else 0x80
        let hi : UInt8 := if a = 0xF4 then 0x8F else 0xBF
        (lo ≤ b ∧ b ≤ hi) && (0x80 ≤ c ∧ c ≤ 0xBF) && (0x80 ≤ d ∧ d ≤ 0xBF) && validUTF8 r
      | _ => false
    else false

end OciModel.B64Url
