/-
Helper lemmas for the `ociauth.Scope` model (`OciModel/Scope.lean`).
Nothing here changes a definition of the model; the property theorems that
assemble these lemmas live in `OciModel/Props/C09.lean`.
-/
import OciModel.Scope

namespace OciModel.Scope

/-! ### Order basics -/

section Order
variable {α : Type} [Ord α] [Std.TransOrd α]

theorem lt_trans' {a b c : α} (h1 : compare a b = .lt) (h2 : compare b c = .lt) :
    compare a c = .lt := Std.TransCmp.lt_trans h1 h2

theorem gt_iff_lt' {a b : α} : compare a b = .gt ↔ compare b a = .lt :=
  Std.OrientedCmp.gt_iff_lt

theorem lt_irrefl' {a : α} : compare a a ≠ .lt := by
  simp

theorem lt_asymm' {a b : α} (h : compare a b = .lt) : compare b a ≠ .lt := by
  intro h2
  exact lt_irrefl' (lt_trans' h h2)

omit [Std.TransOrd α] in
theorem eq_of_cmp_eq [Std.LawfulEqOrd α] {a b : α} (h : compare a b = .eq) : a = b :=
  Std.LawfulEqCmp.compare_eq_iff_eq.mp h

theorem lt_ne' {a b : α} (h : compare a b = .lt) : a ≠ b := by
  intro e; subst e; exact lt_irrefl' h

/-- `StrictAsc` is `Pairwise (· < ·)`. -/
theorem strictAsc_iff_pairwise (l : List α) :
    StrictAsc l ↔ l.Pairwise (fun a b => compare a b = .lt) := by
  induction l with
  | nil => simp [StrictAsc]
  | cons a l ih =>
    cases l with
    | nil => simp [StrictAsc]
    | cons b rest =>
      simp only [StrictAsc]
      rw [ih, List.pairwise_cons (a := a)]
      constructor
      · rintro ⟨hab, hp⟩
        refine ⟨?_, hp⟩
        intro c hc
        rcases List.mem_cons.mp hc with rfl | hc
        · exact hab
        · exact lt_trans' hab ((List.pairwise_cons.mp hp).1 c hc)
      · rintro ⟨h, hp⟩
        exact ⟨h b (List.mem_cons_self), hp⟩

theorem strictAsc_cons {a : α} {l : List α} :
    StrictAsc (a :: l) ↔ (∀ b ∈ l, compare a b = .lt) ∧ StrictAsc l := by
  simp only [strictAsc_iff_pairwise, List.pairwise_cons]

omit [Std.TransOrd α] in
theorem strictAsc_nil : StrictAsc ([] : List α) := trivial

end Order

/-! ### `insertU` / `sortU` -/

theorem mem_insertU (r x : RS) (l : List RS) : r ∈ insertU x l ↔ r = x ∨ r ∈ l := by
  induction l with
  | nil => simp [insertU]
  | cons y ys ih =>
    simp only [insertU]
    split
    · simp
    · rename_i h
      have := eq_of_cmp_eq h
      subst this
      simp
    · simp [ih]
      grind

theorem insertU_strictAsc (x : RS) (l : List RS) (h : StrictAsc l) : StrictAsc (insertU x l) := by
  induction l with
  | nil => simp [insertU, StrictAsc]
  | cons y ys ih =>
    simp only [insertU]
    split
    · rename_i hlt
      rw [strictAsc_cons]
      refine ⟨?_, h⟩
      intro b hb
      rcases List.mem_cons.mp hb with rfl | hb
      · exact hlt
      · exact lt_trans' hlt ((strictAsc_cons.mp h).1 b hb)
    · exact h
    · rename_i hgt
      rw [strictAsc_cons] at h ⊢
      refine ⟨?_, ih h.2⟩
      intro b hb
      rcases (mem_insertU _ _ _).mp hb with rfl | hb
      · exact gt_iff_lt'.mp hgt
      · exact h.1 b hb

theorem sortU_strictAsc (l : List RS) : StrictAsc (sortU l) := by
  induction l with
  | nil => exact strictAsc_nil
  | cons a l ih => exact insertU_strictAsc a _ ih

theorem mem_sortU (r : RS) (l : List RS) : r ∈ sortU l ↔ r ∈ l := by
  induction l with
  | nil => simp [sortU]
  | cons a l ih =>
    have : sortU (a :: l) = insertU a (sortU l) := rfl
    rw [this, mem_insertU, ih]; simp


/-! ### Facts about the constants -/

theorem tyRepository_ne_tyRegistry : tyRepository ≠ tyRegistry := by decide
theorem actPull_ne_actPush : actPull ≠ actPush := by decide
theorem registry_lt_repository : compare tyRegistry tyRepository = .lt := by decide
theorem pull_lt_push : compare actPull actPush = .lt := by decide

theorem compare_pair {α β} [Ord α] [Ord β] (a c : α) (b d : β) :
    compare (a, b) (c, d) = (compare a c).then (compare b d) := rfl

theorem nil_lt_of_ne_nil {a : Bytes} (h : a ≠ []) : compare ([] : Bytes) a = .lt := by
  cases a with
  | nil => contradiction
  | cons x xs => rfl

theorem not_lt_nil {a : Bytes} : compare a ([] : Bytes) ≠ .lt := by
  cases a with
  | nil => decide
  | cons x xs => intro h; cases h

theorem ne_nil_of_lt {a b : Bytes} (h : compare a b = .lt) : b ≠ [] := by
  intro e; subst e; exact not_lt_nil h

/-! ### `expandEnt` / `expand` -/

/-- The repository name a known resource scope is filed under (`[]` = catalog). -/
def ekey (x : RS) : Bytes := if x.1 = tyRegistry then [] else x.2.1

theorem mem_expandEnt (x : RS) (e : Ent) :
    x ∈ expandEnt e ↔
      (e.name = [] ∧ x = catalog) ∨
      (e.name ≠ [] ∧ ((e.pull = true ∧ x = (tyRepository, e.name, actPull)) ∨
                      (e.push = true ∧ x = (tyRepository, e.name, actPush)))) := by
  unfold expandEnt
  by_cases hn : e.name = []
  · simp [hn]
  · cases hp : e.pull <;> cases hq : e.push <;> simp [hn]

theorem isKnown_catalog : isKnown catalog = true := by decide

theorem isKnown_repo (n a : Bytes) :
    isKnown (tyRepository, n, a) = (n ≠ [] && (a = actPull || a = actPush)) := by
  simp [isKnown]

theorem isKnown_of_mem_expandEnt {x : RS} {e : Ent} (h : x ∈ expandEnt e) : isKnown x = true := by
  rcases (mem_expandEnt x e).mp h with ⟨_, rfl⟩ | ⟨hn, ⟨_, rfl⟩ | ⟨_, rfl⟩⟩
  · exact isKnown_catalog
  · simp [isKnown_repo, hn]
  · simp [isKnown_repo, hn]

theorem ekey_of_mem_expandEnt {x : RS} {e : Ent} (h : x ∈ expandEnt e) : ekey x = e.name := by
  rcases (mem_expandEnt x e).mp h with ⟨hn, rfl⟩ | ⟨hn, ⟨_, rfl⟩ | ⟨_, rfl⟩⟩
  · simp [ekey, catalog, hn]
  · simp [ekey, tyRepository_ne_tyRegistry]
  · simp [ekey, tyRepository_ne_tyRegistry]

theorem mem_expand (x : RS) (es : List Ent) : x ∈ expand es ↔ ∃ e ∈ es, x ∈ expandEnt e := by
  simp [expand, List.mem_flatMap]

theorem isKnown_of_mem_expand {x : RS} {es : List Ent} (h : x ∈ expand es) : isKnown x = true := by
  obtain ⟨e, _, he⟩ := (mem_expand x es).mp h
  exact isKnown_of_mem_expandEnt he

theorem expandEnt_pairwise (e : Ent) : (expandEnt e).Pairwise (fun a b => compare a b = .lt) := by
  unfold expandEnt
  by_cases hn : e.name = []
  · simp [hn]
  · cases hp : e.pull <;> cases hq : e.push <;> simp [hn]
    simp [compare_pair, pull_lt_push]

theorem expandEnt_lt {e1 e2 : Ent} (h : compare e1.name e2.name = .lt) {x y : RS}
    (hx : x ∈ expandEnt e1) (hy : y ∈ expandEnt e2) : compare x y = .lt := by
  have h2 : e2.name ≠ [] := ne_nil_of_lt h
  rcases (mem_expandEnt y e2).mp hy with ⟨hn, _⟩ | ⟨_, hy'⟩
  · exact absurd hn h2
  · rcases (mem_expandEnt x e1).mp hx with ⟨hn, rfl⟩ | ⟨hn, hx'⟩
    · rcases hy' with ⟨_, rfl⟩ | ⟨_, rfl⟩ <;>
        simp [catalog, compare_pair, registry_lt_repository]
    · rcases hy' with ⟨_, rfl⟩ | ⟨_, rfl⟩ <;> rcases hx' with ⟨_, rfl⟩ | ⟨_, rfl⟩ <;>
        simp [compare_pair, h]

theorem expand_pairwise {es : List Ent} (h : StrictAsc (es.map (·.name))) :
    (expand es).Pairwise (fun a b => compare a b = .lt) := by
  rw [strictAsc_iff_pairwise, List.pairwise_map] at h
  unfold expand
  rw [List.pairwise_flatMap]
  refine ⟨fun e _ => expandEnt_pairwise e, ?_⟩
  exact h.imp (fun hlt x hx y hy => expandEnt_lt hlt hx hy)

/-! ### `mergeIter` -/

theorem mem_mergeIter (r : RS) (ks os : List RS) : r ∈ mergeIter ks os ↔ r ∈ ks ∨ r ∈ os := by
  induction ks generalizing os with
  | nil => simp [mergeIter]
  | cons k ks ih =>
    simp only [mergeIter, List.mem_append, List.mem_cons, ih]
    have := @List.takeWhile_append_dropWhile _ (fun o => compare o k == .lt) os
    have hm : r ∈ os ↔ r ∈ os.takeWhile (fun o => compare o k == .lt) ∨
        r ∈ os.dropWhile (fun o => compare o k == .lt) := by
      rw [← List.mem_append, this]
    rw [hm]
    grind

theorem length_mergeIter (ks os : List RS) : (mergeIter ks os).length = ks.length + os.length := by
  induction ks generalizing os with
  | nil => simp [mergeIter]
  | cons k ks ih =>
    simp only [mergeIter, List.length_append, List.length_cons, ih]
    have := congrArg List.length (@List.takeWhile_append_dropWhile _ (fun o => compare o k == .lt) os)
    simp only [List.length_append] at this
    omega

theorem mem_takeWhile_lt {k : RS} {os : List RS} {o : RS}
    (h : o ∈ os.takeWhile (fun o => compare o k == .lt)) : compare o k = .lt := by
  have := @List.all_takeWhile _ (fun o => compare o k == .lt) os
  rw [List.all_eq_true] at this
  simpa using this o h

theorem mem_dropWhile_not_lt {k : RS} {os : List RS}
    (hs : os.Pairwise (fun a b => compare a b = .lt)) {o : RS}
    (h : o ∈ os.dropWhile (fun o => compare o k == .lt)) : compare o k ≠ .lt := by
  induction os with
  | nil => simp at h
  | cons a os ih =>
    rw [List.pairwise_cons] at hs
    rw [List.dropWhile_cons] at h
    split at h
    · exact ih hs.2 h
    · rename_i hna
      rcases List.mem_cons.mp h with rfl | ho
      · simpa using hna
      · intro hlt
        exact hna (by simpa using lt_trans' (hs.1 o ho) hlt)

theorem mergeIter_pairwise {ks os : List RS}
    (hk : ks.Pairwise (fun a b => compare a b = .lt))
    (ho : os.Pairwise (fun a b => compare a b = .lt))
    (hd : ∀ k ∈ ks, k ∉ os) :
    (mergeIter ks os).Pairwise (fun a b => compare a b = .lt) := by
  induction ks generalizing os with
  | nil => simpa [mergeIter] using ho
  | cons k ks ih =>
    rw [List.pairwise_cons] at hk
    simp only [mergeIter]
    have hdrop_sub : os.dropWhile (fun o => compare o k == .lt) ⊆ os := List.dropWhile_subset _
    have hrest : (mergeIter ks (os.dropWhile (fun o => compare o k == .lt))).Pairwise
        (fun a b => compare a b = .lt) :=
      ih hk.2 (ho.sublist (List.dropWhile_sublist _))
        (fun k' hk' hm => hd k' (List.mem_cons_of_mem _ hk') (hdrop_sub hm))
    have hk_lt : ∀ b ∈ mergeIter ks (os.dropWhile (fun o => compare o k == .lt)),
        compare k b = .lt := by
      intro b hb
      rcases (mem_mergeIter _ _ _).mp hb with hb | hb
      · exact hk.1 b hb
      · have h1 := mem_dropWhile_not_lt ho hb
        have h2 : b ≠ k := fun e => hd k List.mem_cons_self (e ▸ hdrop_sub hb)
        rcases hc : compare b k with _ | _ | _
        · exact absurd hc h1
        · exact absurd (eq_of_cmp_eq hc) h2
        · exact gt_iff_lt'.mp hc
    rw [List.pairwise_append]
    refine ⟨ho.sublist (List.takeWhile_sublist _), ?_, ?_⟩
    · rw [List.pairwise_cons]; exact ⟨hk_lt, hrest⟩
    · intro a ha b hb
      have hak := mem_takeWhile_lt ha
      rcases List.mem_cons.mp hb with rfl | hb
      · exact hak
      · exact lt_trans' hak (hk_lt b hb)


/-! ### `iter` and `Mem` -/

theorem mem_iter {s : Scope} (hl : s.unlimited = false) (r : RS) :
    r ∈ iter s ↔ r ∈ expand s.repos ∨ r ∈ s.others := by
  simp [iter, hl, mem_mergeIter]

theorem Mem_iff {s : Scope} (hl : s.unlimited = false) (r : RS) :
    Mem r s ↔ r ∈ expand s.repos ∨ r ∈ s.others := mem_iter hl r

theorem iter_pairwise {s : Scope} (h : WF s) :
    (iter s).Pairwise (fun a b => compare a b = .lt) := by
  unfold iter
  split
  · simp
  · refine mergeIter_pairwise (expand_pairwise h.repos_sorted)
      ((strictAsc_iff_pairwise _).mp h.others_sorted) ?_
    intro k hk hko
    have h1 := isKnown_of_mem_expand hk
    have h2 := h.others_unknown k hko
    simp [h1] at h2

/-! ### `build` / `newScope` -/

theorem isKnown_iff (x : RS) :
    isKnown x = true ↔
      x = catalog ∨ (x.1 = tyRepository ∧ x.2.1 ≠ [] ∧ (x.2.2 = actPull ∨ x.2.2 = actPush)) := by
  obtain ⟨t, n, a⟩ := x
  unfold isKnown
  by_cases h1 : t = tyRepository
  · subst h1
    simp [catalog, tyRepository_ne_tyRegistry]
  · by_cases h2 : t = tyRegistry
    · subst h2; simp [h1]
    · simp [h1, h2, catalog]

theorem build_cons (r : RS) (rest : List RS) :
    build (r :: rest) =
      if isKnown r = false then ((build rest).1, r :: (build rest).2)
      else if r.1 = tyRegistry then (⟨[], true, false⟩ :: (build rest).1, (build rest).2)
      else match (build rest).1 with
        | e :: es' =>
          if e.name = r.2.1 then
            (⟨e.name, e.pull || r.2.2 = actPull, e.push || r.2.2 = actPush⟩ :: es', (build rest).2)
          else (entOf r :: e :: es', (build rest).2)
        | [] => ([entOf r], (build rest).2) := by
  rcases hb : build rest with ⟨es, os⟩
  cases es <;> simp [build, hb]

/-- Known scopes are filed in key order. -/
theorem ekey_le_of_lt {x y : RS} (hx : isKnown x = true) (hy : isKnown y = true)
    (h : compare x y = .lt) : compare (ekey x) (ekey y) ≠ .gt := by
  rcases (isKnown_iff x).mp hx with rfl | ⟨hx1, hx2, _⟩
  · have : ekey catalog = [] := by decide
    rw [this]
    intro hgt
    exact not_lt_nil (gt_iff_lt'.mp hgt)
  · rcases (isKnown_iff y).mp hy with rfl | ⟨hy1, hy2, _⟩
    · exfalso
      obtain ⟨t, n, a⟩ := x
      simp only at hx1; subst hx1
      have : compare tyRepository tyRegistry = .gt := by decide
      simp [catalog, compare_pair, this] at h
    · obtain ⟨t, n, a⟩ := x
      obtain ⟨t', n', a'⟩ := y
      simp only at hx1 hy1; subst hx1; subst hy1
      simp only [ekey, tyRepository_ne_tyRegistry, if_false]
      intro hgt
      simp [compare_pair, hgt] at h

theorem ekey_of_known_repo {x : RS} (hx : isKnown x = true) (hne : x ≠ catalog) :
    ekey x = x.2.1 ∧ x.2.1 ≠ [] ∧ x.1 = tyRepository := by
  rcases (isKnown_iff x).mp hx with rfl | ⟨hx1, hx2, _⟩
  · exact absurd rfl hne
  · simp [ekey, hx1, tyRepository_ne_tyRegistry, hx2]

theorem expandEnt_entOf {r : RS} (hk : isKnown r = true) (hne : r.1 ≠ tyRegistry) :
    expandEnt (entOf r) = [r] := by
  rcases (isKnown_iff r).mp hk with rfl | ⟨h1, h2, h3⟩
  · exact absurd rfl hne
  · obtain ⟨t, n, a⟩ := r
    simp only at h1 h2 h3; subst h1
    rcases h3 with rfl | rfl
    · simp [expandEnt, entOf, h2, actPull_ne_actPush]
    · simp [expandEnt, entOf, h2, actPull_ne_actPush.symm]

structure BuildInv (l : List RS) (p : List Ent × List RS) : Prop where
  mem : ∀ r, (r ∈ expand p.1 ∨ r ∈ p.2) ↔ r ∈ l
  unk : ∀ r ∈ p.2, isKnown r = false
  ok : ∀ e ∈ p.1, EntOk e
  key : ∀ e ∈ p.1, ∃ x ∈ l, isKnown x = true ∧ ekey x = e.name
  sorted : l.Pairwise (fun a b => compare a b = .lt) →
    (p.1.map (·.name)).Pairwise (fun a b => compare a b = .lt)

theorem build_inv (l : List RS) : BuildInv l (build l) := by
  induction l with
  | nil => constructor <;> simp [build, expand]
  | cons r rest ih =>
    rw [build_cons]
    rcases hb : build rest with ⟨es, os⟩
    rw [hb] at ih
    obtain ⟨imem, iunk, iok, ikey, isorted⟩ := ih
    simp only at imem iunk iok ikey isorted ⊢
    by_cases hk : isKnown r = false
    · -- unknown: goes to `others`
      rw [if_pos hk]
      constructor
      · intro x; simp only [List.mem_cons, ← imem x]; grind
      · intro x hx
        rcases List.mem_cons.mp hx with rfl | hx
        · exact hk
        · exact iunk x hx
      · exact iok
      · intro e he
        obtain ⟨x, hx, h⟩ := ikey e he
        exact ⟨x, List.mem_cons_of_mem _ hx, h⟩
      · intro hs; exact isorted (List.pairwise_cons.mp hs).2
    · rw [if_neg hk]
      have hk' : isKnown r = true := by simpa using hk
      by_cases hreg : r.1 = tyRegistry
      · -- the catalog scope
        rw [if_pos hreg]
        have hcat : r = catalog := by
          rcases (isKnown_iff r).mp hk' with h | ⟨h, _⟩
          · exact h
          · rw [hreg] at h; exact absurd h.symm tyRepository_ne_tyRegistry
        subst hcat
        constructor
        · intro x
          simp only [List.mem_cons, ← imem x, mem_expand, exists_eq_or_imp, mem_expandEnt]
          simp
          grind
        · exact iunk
        · intro e he
          rcases List.mem_cons.mp he with rfl | he
          · simp [EntOk]
          · exact iok e he
        · intro e he
          rcases List.mem_cons.mp he with rfl | he
          · exact ⟨catalog, List.mem_cons_self, hk', by decide⟩
          · obtain ⟨x, hx, h⟩ := ikey e he
            exact ⟨x, List.mem_cons_of_mem _ hx, h⟩
        · intro hs
          rw [List.pairwise_cons] at hs
          simp only [List.map_cons, List.pairwise_cons]
          refine ⟨?_, isorted hs.2⟩
          intro n hn
          obtain ⟨e, he, rfl⟩ := List.mem_map.mp hn
          obtain ⟨x, hx, hxk, hxe⟩ := ikey e he
          have hlt := hs.1 x hx
          have := ekey_of_known_repo hxk (lt_ne' hlt).symm
          rw [← hxe, this.1]
          exact nil_lt_of_ne_nil this.2.1
      · -- a known repository scope
        rw [if_neg hreg]
        have hrne : r ≠ catalog := by
          intro e; subst e; exact hreg rfl
        obtain ⟨hrk, hrn, hrt⟩ := ekey_of_known_repo hk' hrne
        have hexp := expandEnt_entOf hk' hreg
        -- every later entry has a name ≥ r's
        have hle : rest.Pairwise (fun a b => compare a b = .lt) → (∀ b ∈ rest, compare r b = .lt) →
            ∀ e ∈ es, compare r.2.1 e.name ≠ .gt := by
          intro _ h1 e he
          obtain ⟨x, hx, hxk, hxe⟩ := ikey e he
          have := ekey_le_of_lt hk' hxk (h1 x hx)
          rwa [hrk, hxe] at this
        cases es with
        | nil =>
          simp only
          constructor
          · intro x
            simp only [List.mem_cons, ← imem x, mem_expand]
            simp [hexp]
          · exact iunk
          · intro e he
            simp only [List.mem_singleton] at he
            subst he
            rcases (isKnown_iff r).mp hk' with h | ⟨_, _, h3⟩
            · exact absurd h hrne
            · simp [EntOk, entOf, hrn]; exact h3
          · intro e he
            simp only [List.mem_singleton] at he
            subst he
            exact ⟨r, List.mem_cons_self, hk', hrk⟩
          · intro _; simp
        | cons e es' =>
          simp only
          by_cases hname : e.name = r.2.1
          · rw [if_pos hname]
            have heok := iok e List.mem_cons_self
            constructor
            · intro x
              rw [List.mem_cons, ← imem x]
              simp only [mem_expand, List.mem_cons, exists_eq_or_imp, mem_expandEnt]
              have hx : x = r ↔ (x = (tyRepository, r.2.1, actPull) ∧ r.2.2 = actPull) ∨
                  (x = (tyRepository, r.2.1, actPush) ∧ r.2.2 = actPush) := by
                obtain ⟨t, n, a⟩ := r
                simp only at hrt; subst hrt
                rcases (isKnown_iff _).mp hk' with h | ⟨_, _, h3⟩
                · exact absurd h hrne
                · simp only at h3
                  rcases h3 with rfl | rfl
                  · simp [actPull_ne_actPush]
                  · simp [actPull_ne_actPush.symm]
              rw [hx, hname]
              simp [hrn]
              grind
            · exact iunk
            · intro e' he'
              rcases List.mem_cons.mp he' with rfl | he'
              · have hen : e.name ≠ [] := by rw [hname]; exact hrn
                rcases (isKnown_iff r).mp hk' with h | ⟨_, _, h3⟩
                · exact absurd h hrne
                · rcases h3 with h3 | h3 <;> simp [EntOk, hen, h3]
              · exact iok e' (List.mem_cons_of_mem _ he')
            · intro e' he'
              rcases List.mem_cons.mp he' with rfl | he'
              · exact ⟨r, List.mem_cons_self, hk', hrk.trans hname.symm⟩
              · obtain ⟨x, hx, h⟩ := ikey e' (List.mem_cons_of_mem _ he')
                exact ⟨x, List.mem_cons_of_mem _ hx, h⟩
            · intro hs
              rw [List.pairwise_cons] at hs
              have := isorted hs.2
              simpa [hname] using this
          · rw [if_neg hname]
            constructor
            · intro x
              rw [List.mem_cons, ← imem x]
              simp only [mem_expand, List.mem_cons]
              simp [hexp, or_assoc]
            · exact iunk
            · intro e' he'
              rcases List.mem_cons.mp he' with rfl | he'
              · rcases (isKnown_iff r).mp hk' with h | ⟨_, _, h3⟩
                · exact absurd h hrne
                · simp [EntOk, entOf, hrn]; exact h3
              · exact iok e' he'
            · intro e' he'
              rcases List.mem_cons.mp he' with rfl | he'
              · exact ⟨r, List.mem_cons_self, hk', hrk⟩
              · obtain ⟨x, hx, h⟩ := ikey e' he'
                exact ⟨x, List.mem_cons_of_mem _ hx, h⟩
            · intro hs
              rw [List.pairwise_cons] at hs
              have hsorted := isorted hs.2
              have hle' := hle hs.2 hs.1
              rw [List.map_cons, List.pairwise_cons]
              refine ⟨?_, hsorted⟩
              have hhead : compare r.2.1 e.name = .lt := by
                have h1 := hle' e List.mem_cons_self
                rcases hc : compare r.2.1 e.name with _ | _ | _
                · rfl
                · exact absurd (eq_of_cmp_eq hc).symm hname
                · exact absurd hc h1
              intro n hn
              simp only [List.map_cons, List.mem_cons] at hn
              rcases hn with rfl | hn
              · exact hhead
              · simp only [List.map_cons, List.pairwise_cons] at hsorted
                exact lt_trans' hhead (hsorted.1 n hn)


/-! ### `newScope` -/

theorem newScope_eq (l : List RS) :
    newScope l = ⟨[], false, (build (sortU l)).1, sortU (build (sortU l)).2⟩ := by
  rcases h : build (sortU l) with ⟨es, os⟩
  simp [newScope, h]

theorem newScope_unlimited (l : List RS) : (newScope l).unlimited = false := by
  rw [newScope_eq]

theorem newScope_wf (l : List RS) : WF (newScope l) := by
  rw [newScope_eq]
  have inv := build_inv (sortU l)
  have hs := (strictAsc_iff_pairwise _).mp (sortU_strictAsc l)
  constructor
  · exact (strictAsc_iff_pairwise _).mpr (inv.sorted hs)
  · exact inv.ok
  · exact sortU_strictAsc _
  · intro r hr
    exact inv.unk r ((mem_sortU _ _).mp hr)
  · intro h; cases h

theorem mem_newScope (r : RS) (l : List RS) : Mem r (newScope l) ↔ r ∈ l := by
  rw [Mem_iff (newScope_unlimited l), newScope_eq]
  simp only [mem_sortU]
  rw [(build_inv (sortU l)).mem r, mem_sortU]

theorem parseScope_wf (s : Bytes) : WF (parseScope s) := by
  have h := newScope_wf ((fields s).flatMap parseField)
  exact ⟨h.1, h.2, h.3, h.4, h.5⟩

/-- `ParseScope` keeps the text only for printing: the scope denotes what `NewScope` of
the parsed fields denotes. -/
theorem mem_parseScope (r : RS) (s : Bytes) :
    Mem r (parseScope s) ↔ ∃ w ∈ fields s, r ∈ parseField w := by
  have h : iter (parseScope s) = iter (newScope ((fields s).flatMap parseField)) := rfl
  unfold Mem
  rw [h]
  exact (mem_newScope r _).trans List.mem_flatMap

/-! ### `holds` -/

theorem eq_of_name_eq {es : List Ent} (h : StrictAsc (es.map (·.name))) {e1 e2 : Ent}
    (h1 : e1 ∈ es) (h2 : e2 ∈ es) (hn : e1.name = e2.name) : e1 = e2 := by
  rw [strictAsc_iff_pairwise, List.pairwise_map] at h
  induction es with
  | nil => cases h1
  | cons e es ih =>
    rw [List.pairwise_cons] at h
    rcases List.mem_cons.mp h1 with rfl | h1' <;> rcases List.mem_cons.mp h2 with rfl | h2'
    · rfl
    · exact absurd hn (lt_ne' (h.1 e2 h2'))
    · exact absurd hn.symm (lt_ne' (h.1 e1 h1'))
    · exact ih h.2 h1' h2'

theorem not_mem_others_of_known {s : Scope} (h : WF s) {r : RS} (hk : isKnown r = true) :
    r ∉ s.others := by
  intro hm
  have := h.others_unknown r hm
  simp [hk] at this

theorem holds_iff_mem (s : Scope) (h : WF s) (hl : s.unlimited = false) (r : RS) :
    holds s r = true ↔ Mem r s := by
  rw [Mem_iff hl]
  unfold holds
  rw [hl]
  simp only [Bool.false_eq_true, if_false]
  by_cases hc : r = catalog
  · subst hc
    simp only [if_true, List.any_eq_true, decide_eq_true_eq]
    constructor
    · rintro ⟨e, he, hn⟩
      left
      exact (mem_expand _ _).mpr ⟨e, he, (mem_expandEnt _ _).mpr (Or.inl ⟨hn, rfl⟩)⟩
    · rintro (hm | hm)
      · obtain ⟨e, he, hx⟩ := (mem_expand _ _).mp hm
        refine ⟨e, he, ?_⟩
        rw [← ekey_of_mem_expandEnt hx]; decide
      · exact absurd hm (not_mem_others_of_known h isKnown_catalog)
  · rw [if_neg hc]
    split
    · rename_i hrepo
      simp only [Bool.and_eq_true, decide_eq_true_eq, Bool.or_eq_true, ne_eq] at hrepo
      obtain ⟨⟨ht, hn⟩, ha⟩ := hrepo
      obtain ⟨t, n, a⟩ := r
      simp only at ht hn ha; subst ht
      have hk : isKnown (tyRepository, n, a) = true := by
        rw [isKnown_iff]; right; exact ⟨rfl, hn, ha⟩
      have hno := not_mem_others_of_known h hk
      simp only [hno, or_false]
      split
      · rename_i e hfind
        have he := List.mem_of_find?_eq_some hfind
        have hen : e.name = n := by simpa using List.find?_some hfind
        have key : (tyRepository, n, a) ∈ expand s.repos ↔ (tyRepository, n, a) ∈ expandEnt e := by
          constructor
          · intro hm
            obtain ⟨e', he', hx⟩ := (mem_expand _ _).mp hm
            have : e'.name = n := by
              rw [← ekey_of_mem_expandEnt hx]; simp [ekey, tyRepository_ne_tyRegistry]
            have := eq_of_name_eq h.repos_sorted he' he (this.trans hen.symm)
            rwa [this] at hx
          · intro hx; exact (mem_expand _ _).mpr ⟨e, he, hx⟩
        rw [key, mem_expandEnt]
        subst hen
        rcases ha with rfl | rfl
        · simp [hn, catalog, tyRepository_ne_tyRegistry, actPull_ne_actPush]
        · simp [hn, catalog, tyRepository_ne_tyRegistry, actPull_ne_actPush.symm]
      · rename_i hfind
        rw [List.find?_eq_none] at hfind
        simp only [Bool.false_eq_true, false_iff]
        intro hm
        obtain ⟨e', he', hx⟩ := (mem_expand _ _).mp hm
        have : e'.name = n := by
          rw [← ekey_of_mem_expandEnt hx]; simp [ekey, tyRepository_ne_tyRegistry]
        exact hfind e' he' (by simpa using this)
    · rename_i hrepo
      rw [List.contains_iff_mem]
      constructor
      · exact Or.inr
      · rintro (hm | hm)
        · exfalso
          rcases (isKnown_iff r).mp (isKnown_of_mem_expand hm) with h1 | ⟨h1, h2, h3⟩
          · exact hc h1
          · apply hrepo
            simp [h1, h2, h3]
        · exact hm

/-! ### `len` -/

theorem length_expandEnt {e : Ent} (h : EntOk e) : (expandEnt e).length = entCount e := by
  unfold EntOk at h
  unfold expandEnt entCount
  by_cases hn : e.name = []
  · simp [hn] at h ⊢
    simp [h.1, h.2]
  · cases hp : e.pull <;> cases hq : e.push <;> simp [hn]

theorem length_expand {es : List Ent} (h : ∀ e ∈ es, EntOk e) :
    (expand es).length = (es.map entCount).sum := by
  induction es with
  | nil => simp [expand]
  | cons e es ih =>
    have : expand (e :: es) = expandEnt e ++ expand es := by simp [expand]
    rw [this, List.length_append, length_expandEnt (h e List.mem_cons_self),
      ih (fun e' he' => h e' (List.mem_cons_of_mem _ he'))]
    simp

theorem len_eq (s : Scope) (h : WF s) (hl : s.unlimited = false) :
    len s = .ok (iter s).length := by
  simp only [len, iter, hl, Bool.false_eq_true, if_false, length_mergeIter,
    length_expand h.repos_ok]
  rw [Nat.add_comm]


/-! ### Sortedness abbreviations -/

/-- Strictly ascending list of resource scopes, as a `Pairwise`. -/
abbrev Asc (l : List RS) : Prop := l.Pairwise (fun a b => compare a b = .lt)
/-- Entries strictly ascending by name, as a `Pairwise`. -/
abbrev NameAsc (l : List Ent) : Prop := l.Pairwise (fun a b => compare a.name b.name = .lt)

theorem WF.nameAsc {s : Scope} (h : WF s) : NameAsc s.repos := by
  have := h.repos_sorted
  rwa [strictAsc_iff_pairwise, List.pairwise_map] at this

theorem WF.asc {s : Scope} (h : WF s) : Asc s.others :=
  (strictAsc_iff_pairwise _).mp h.others_sorted

theorem strictAsc_names_of_nameAsc {l : List Ent} (h : NameAsc l) : StrictAsc (l.map (·.name)) := by
  rw [strictAsc_iff_pairwise, List.pairwise_map]; exact h

/-! ### `unionOthers` -/

theorem mem_unionOthers (x : RS) (l1 l2 : List RS) :
    x ∈ unionOthers l1 l2 ↔ x ∈ l1 ∨ x ∈ l2 := by
  fun_induction unionOthers l1 l2 with
  | case1 l2 => simp
  | case2 l1 => simp
  | case3 a1 r1 a2 r2 heq ih =>
    have := eq_of_cmp_eq heq
    subst this
    simp [ih]; grind
  | case4 a1 r1 a2 r2 hlt ih => simp [ih]; grind
  | case5 a1 r1 a2 r2 hgt ih => simp [ih]; grind

theorem unionOthers_asc {l1 l2 : List RS} (h1 : Asc l1) (h2 : Asc l2) :
    Asc (unionOthers l1 l2) := by
  fun_induction unionOthers l1 l2 with
  | case1 l2 => exact h2
  | case2 l1 => exact h1
  | case3 a1 r1 a2 r2 heq ih =>
    have := eq_of_cmp_eq heq
    subst this
    rw [Asc, List.pairwise_cons] at h1 h2 ⊢
    refine ⟨?_, ih h1.2 h2.2⟩
    intro b hb
    rcases (mem_unionOthers _ _ _).mp hb with hb | hb
    · exact h1.1 b hb
    · exact h2.1 b hb
  | case4 a1 r1 a2 r2 hlt ih =>
    have h2' := h2
    rw [Asc, List.pairwise_cons] at h1 h2 ⊢
    refine ⟨?_, ih h1.2 h2'⟩
    intro b hb
    rcases (mem_unionOthers _ _ _).mp hb with hb | hb
    · exact h1.1 b hb
    · rcases List.mem_cons.mp hb with rfl | hb
      · exact hlt
      · exact lt_trans' hlt (h2.1 b hb)
  | case5 a1 r1 a2 r2 hgt ih =>
    have h1' := h1
    have hlt := gt_iff_lt'.mp hgt
    rw [Asc, List.pairwise_cons] at h1 h2 ⊢
    refine ⟨?_, ih h1' h2.2⟩
    intro b hb
    rcases (mem_unionOthers _ _ _).mp hb with hb | hb
    · rcases List.mem_cons.mp hb with rfl | hb
      · exact hlt
      · exact lt_trans' hlt (h1.1 b hb)
    · exact h2.1 b hb

/-! ### `unionRepos` -/

theorem mem_expandEnt_orEnt {e1 e2 : Ent} (hn : e1.name = e2.name) (x : RS) :
    x ∈ expandEnt (orEnt e1 e2) ↔ x ∈ expandEnt e1 ∨ x ∈ expandEnt e2 := by
  simp only [mem_expandEnt, orEnt, ← hn, Bool.or_eq_true]
  grind

theorem entOk_orEnt {e1 e2 : Ent} (hn : e1.name = e2.name) (h1 : EntOk e1) (h2 : EntOk e2) :
    EntOk (orEnt e1 e2) := by
  unfold EntOk orEnt at *
  rw [← hn] at h2
  by_cases h : e1.name = []
  · simp [h] at h1 h2 ⊢
    simp [h1, h2]
  · simp [h] at h1 h2 ⊢
    rcases h1 with h1 | h1 <;> simp [h1]

theorem expand_cons (e : Ent) (es : List Ent) : expand (e :: es) = expandEnt e ++ expand es := by
  simp [expand]

theorem mem_expand_unionRepos (x : RS) (l1 l2 : List Ent) :
    x ∈ expand (unionRepos l1 l2) ↔ x ∈ expand l1 ∨ x ∈ expand l2 := by
  fun_induction unionRepos l1 l2 with
  | case1 l2 => simp [expand]
  | case2 l1 => simp [expand]
  | case3 e1 r1 e2 r2 heq ih =>
    have hn := eq_of_cmp_eq heq
    simp only [expand_cons, List.mem_append, mem_expandEnt_orEnt hn, ih]; grind
  | case4 e1 r1 e2 r2 hlt ih => simp only [expand_cons, List.mem_append, ih]; grind
  | case5 e1 r1 e2 r2 hgt ih => simp only [expand_cons, List.mem_append, ih]; grind

theorem name_mem_unionRepos {e : Ent} {l1 l2 : List Ent} (h : e ∈ unionRepos l1 l2) :
    (∃ e' ∈ l1, e'.name = e.name) ∨ (∃ e' ∈ l2, e'.name = e.name) := by
  fun_induction unionRepos l1 l2 with
  | case1 l2 => exact Or.inr ⟨e, h, rfl⟩
  | case2 l1 => exact Or.inl ⟨e, h, rfl⟩
  | case3 e1 r1 e2 r2 heq ih =>
    rcases List.mem_cons.mp h with rfl | h
    · exact Or.inl ⟨e1, List.mem_cons_self, rfl⟩
    · rcases ih h with ⟨e', h1, h2⟩ | ⟨e', h1, h2⟩
      · exact Or.inl ⟨e', List.mem_cons_of_mem _ h1, h2⟩
      · exact Or.inr ⟨e', List.mem_cons_of_mem _ h1, h2⟩
  | case4 e1 r1 e2 r2 hlt ih =>
    rcases List.mem_cons.mp h with rfl | h
    · exact Or.inl ⟨e, List.mem_cons_self, rfl⟩
    · rcases ih h with ⟨e', h1, h2⟩ | ⟨e', h1, h2⟩
      · exact Or.inl ⟨e', List.mem_cons_of_mem _ h1, h2⟩
      · exact Or.inr ⟨e', h1, h2⟩
  | case5 e1 r1 e2 r2 hgt ih =>
    rcases List.mem_cons.mp h with rfl | h
    · exact Or.inr ⟨e, List.mem_cons_self, rfl⟩
    · rcases ih h with ⟨e', h1, h2⟩ | ⟨e', h1, h2⟩
      · exact Or.inl ⟨e', h1, h2⟩
      · exact Or.inr ⟨e', List.mem_cons_of_mem _ h1, h2⟩

theorem unionRepos_nameAsc {l1 l2 : List Ent} (h1 : NameAsc l1) (h2 : NameAsc l2) :
    NameAsc (unionRepos l1 l2) := by
  fun_induction unionRepos l1 l2 with
  | case1 l2 => exact h2
  | case2 l1 => exact h1
  | case3 e1 r1 e2 r2 heq ih =>
    have hn := eq_of_cmp_eq heq
    rw [NameAsc, List.pairwise_cons] at h1 h2 ⊢
    refine ⟨?_, ih h1.2 h2.2⟩
    intro b hb
    show compare e1.name b.name = .lt
    rcases name_mem_unionRepos hb with ⟨e', hb, hbn⟩ | ⟨e', hb, hbn⟩
    · rw [← hbn]; exact h1.1 e' hb
    · rw [← hbn, hn]; exact h2.1 e' hb
  | case4 e1 r1 e2 r2 hlt ih =>
    have h2' := h2
    rw [NameAsc, List.pairwise_cons] at h1 h2 ⊢
    refine ⟨?_, ih h1.2 h2'⟩
    intro b hb
    rcases name_mem_unionRepos hb with ⟨e', hb, hbn⟩ | ⟨e', hb, hbn⟩
    · rw [← hbn]; exact h1.1 e' hb
    · rw [← hbn]
      rcases List.mem_cons.mp hb with rfl | hb
      · exact hlt
      · exact lt_trans' hlt (h2.1 e' hb)
  | case5 e1 r1 e2 r2 hgt ih =>
    have h1' := h1
    have hlt := gt_iff_lt'.mp hgt
    rw [NameAsc, List.pairwise_cons] at h1 h2 ⊢
    refine ⟨?_, ih h1' h2.2⟩
    intro b hb
    rcases name_mem_unionRepos hb with ⟨e', hb, hbn⟩ | ⟨e', hb, hbn⟩
    · rw [← hbn]
      rcases List.mem_cons.mp hb with rfl | hb
      · exact hlt
      · exact lt_trans' hlt (h1.1 e' hb)
    · rw [← hbn]; exact h2.1 e' hb

theorem unionRepos_ok {l1 l2 : List Ent} (h1 : ∀ e ∈ l1, EntOk e) (h2 : ∀ e ∈ l2, EntOk e) :
    ∀ e ∈ unionRepos l1 l2, EntOk e := by
  fun_induction unionRepos l1 l2 with
  | case1 l2 => exact h2
  | case2 l1 => exact h1
  | case3 e1 r1 e2 r2 heq ih =>
    have hn := eq_of_cmp_eq heq
    intro e he
    rcases List.mem_cons.mp he with rfl | he
    · exact entOk_orEnt hn (h1 _ List.mem_cons_self) (h2 _ List.mem_cons_self)
    · exact ih (fun e he => h1 e (List.mem_cons_of_mem _ he))
        (fun e he => h2 e (List.mem_cons_of_mem _ he)) e he
  | case4 e1 r1 e2 r2 hlt ih =>
    intro e he
    rcases List.mem_cons.mp he with rfl | he
    · exact h1 _ List.mem_cons_self
    · exact ih (fun e he => h1 e (List.mem_cons_of_mem _ he)) h2 e he
  | case5 e1 r1 e2 r2 hgt ih =>
    intro e he
    rcases List.mem_cons.mp he with rfl | he
    · exact h2 _ List.mem_cons_self
    · exact ih h1 (fun e he => h2 e (List.mem_cons_of_mem _ he)) e he


/-! ### `containsOthers` -/

theorem containsOthers_iff {l1 l2 : List RS} (h1 : Asc l1) (h2 : Asc l2) :
    containsOthers l1 l2 = true ↔ ∀ x ∈ l2, x ∈ l1 := by
  fun_induction containsOthers l1 l2 with
  | case1 t => simp
  | case2 a r =>
    simp only [Bool.false_eq_true, false_iff]
    intro hall
    exact absurd (hall a List.mem_cons_self) (by simp)
  | case3 a1 r1 a2 r2 hgt =>
    have hlt := gt_iff_lt'.mp hgt
    rw [Asc, List.pairwise_cons] at h1
    simp only [Bool.false_eq_true, false_iff]
    intro hall
    rcases List.mem_cons.mp (hall a2 List.mem_cons_self) with e | hm
    · subst e; exact lt_irrefl' hlt
    · exact lt_asymm' hlt (h1.1 a2 hm)
  | case4 a1 r1 a2 r2 heq ih =>
    have := eq_of_cmp_eq heq
    subst this
    rw [Asc, List.pairwise_cons] at h1 h2
    rw [ih h1.2 h2.2]
    constructor
    · intro hall x hx
      rcases List.mem_cons.mp hx with rfl | hx
      · exact List.mem_cons_self
      · exact List.mem_cons_of_mem _ (hall x hx)
    · intro hall x hx
      rcases List.mem_cons.mp (hall x (List.mem_cons_of_mem _ hx)) with e | hm
      · subst e; exact absurd (h2.1 x hx) lt_irrefl'
      · exact hm
  | case5 a1 r1 a2 r2 hlt ih =>
    have h2' := h2
    rw [Asc, List.pairwise_cons] at h1 h2
    rw [ih h1.2 h2']
    constructor
    · intro hall x hx
      exact List.mem_cons_of_mem _ (hall x hx)
    · intro hall x hx
      rcases List.mem_cons.mp (hall x hx) with e | hm
      · subst e
        rcases List.mem_cons.mp hx with e | hx
        · subst e; exact absurd hlt lt_irrefl'
        · exact absurd (lt_trans' hlt (h2.1 x hx)) lt_irrefl'
      · exact hm

theorem containsOthers_antisymm {l1 l2 : List RS}
    (h12 : containsOthers l1 l2 = true) (h21 : containsOthers l2 l1 = true) : l1 = l2 := by
  fun_induction containsOthers l1 l2 with
  | case1 t =>
    cases t with
    | nil => rfl
    | cons a r => simp [containsOthers] at h21
  | case2 a r => simp at h12
  | case3 a1 r1 a2 r2 hgt => simp at h12
  | case4 a1 r1 a2 r2 heq ih =>
    have := eq_of_cmp_eq heq
    subst this
    simp only [containsOthers, heq] at h21
    rw [ih h12 h21]
  | case5 a1 r1 a2 r2 hlt ih =>
    have hgt : compare a2 a1 = .gt := gt_iff_lt'.mpr hlt
    simp [containsOthers, hgt] at h21

theorem unionOthers_of_contains {l1 l2 : List RS} (h : containsOthers l1 l2 = true) :
    unionOthers l1 l2 = l1 := by
  fun_induction containsOthers l1 l2 with
  | case1 t => cases t <;> simp [unionOthers]
  | case2 a r => simp at h
  | case3 a1 r1 a2 r2 hgt => simp at h
  | case4 a1 r1 a2 r2 heq ih => simp [unionOthers, heq, ih h]
  | case5 a1 r1 a2 r2 hlt ih => simp [unionOthers, hlt, ih h]

/-! ### `containsRepos` -/

theorem expandEnt_nonempty {e : Ent} (h : EntOk e) : ∃ x, x ∈ expandEnt e := by
  unfold EntOk at h
  by_cases hn : e.name = []
  · exact ⟨catalog, (mem_expandEnt _ _).mpr (Or.inl ⟨hn, rfl⟩)⟩
  · simp only [hn, if_false] at h
    rcases h with h | h
    · exact ⟨_, (mem_expandEnt _ _).mpr (Or.inr ⟨hn, Or.inl ⟨h, rfl⟩⟩)⟩
    · exact ⟨_, (mem_expandEnt _ _).mpr (Or.inr ⟨hn, Or.inr ⟨h, rfl⟩⟩)⟩

theorem covers_iff {e1 e2 : Ent} (hn : e1.name = e2.name) (h1 : EntOk e1) (h2 : EntOk e2) :
    covers e1 e2 = true ↔ ∀ x ∈ expandEnt e2, x ∈ expandEnt e1 := by
  obtain ⟨n1, p1, q1⟩ := e1
  obtain ⟨n2, p2, q2⟩ := e2
  simp only at hn; subst hn
  by_cases h : n1 = []
  · subst h
    simp [EntOk] at h1 h2
    simp [covers, expandEnt, h1, h2]
  · cases p1 <;> cases q1 <;> cases p2 <;> cases q2 <;> simp [EntOk, h] at h1 h2 <;>
      simp [covers, expandEnt, h, actPull_ne_actPush, actPull_ne_actPush.symm]

theorem covers_antisymm {e1 e2 : Ent} (hn : e1.name = e2.name)
    (h12 : covers e1 e2 = true) (h21 : covers e2 e1 = true) : e1 = e2 := by
  obtain ⟨n1, p1, q1⟩ := e1
  obtain ⟨n2, p2, q2⟩ := e2
  simp only at hn; subst hn
  cases p1 <;> cases q1 <;> cases p2 <;> cases q2 <;> simp_all [covers]

theorem orEnt_of_covers {e1 e2 : Ent} (h : covers e1 e2 = true) : orEnt e1 e2 = e1 := by
  obtain ⟨n1, p1, q1⟩ := e1
  obtain ⟨n2, p2, q2⟩ := e2
  cases p1 <;> cases q1 <;> cases p2 <;> cases q2 <;> simp_all [covers, orEnt]

/-- A member of `expand l` sits in the entry whose name is its key. -/
theorem mem_expand_key {x : RS} {l : List Ent} (h : x ∈ expand l) :
    ∃ e ∈ l, e.name = ekey x ∧ x ∈ expandEnt e := by
  obtain ⟨e, he, hx⟩ := (mem_expand _ _).mp h
  exact ⟨e, he, (ekey_of_mem_expandEnt hx).symm, hx⟩

/-- In a name-sorted list, a member of `expand (e :: r)` with `e`'s key is in `expandEnt e`. -/
theorem mem_head_of_key {x : RS} {e : Ent} {r : List Ent} (hs : NameAsc (e :: r))
    (h : x ∈ expand (e :: r)) (hk : ekey x = e.name) : x ∈ expandEnt e := by
  obtain ⟨e', he', hn, hx⟩ := mem_expand_key h
  rcases List.mem_cons.mp he' with rfl | he'
  · exact hx
  · rw [NameAsc, List.pairwise_cons] at hs
    have := hs.1 e' he'
    rw [hn, hk] at this
    exact absurd this lt_irrefl'

/-- ... and a member with a larger key is in the tail. -/
theorem mem_tail_of_key {x : RS} {e : Ent} {r : List Ent}
    (h : x ∈ expand (e :: r)) (hk : ekey x ≠ e.name) : x ∈ expand r := by
  rw [expand_cons, List.mem_append] at h
  rcases h with h | h
  · exact absurd (ekey_of_mem_expandEnt h) hk
  · exact h

theorem key_gt_of_mem {x : RS} {e : Ent} {r : List Ent} (hs : NameAsc (e :: r))
    (h : x ∈ expand r) : compare e.name (ekey x) = .lt := by
  obtain ⟨e', he', hn, _⟩ := mem_expand_key h
  rw [NameAsc, List.pairwise_cons] at hs
  rw [← hn]; exact hs.1 e' he'

theorem containsRepos_iff {l1 l2 : List Ent} (h1 : NameAsc l1) (h2 : NameAsc l2)
    (ok1 : ∀ e ∈ l1, EntOk e) (ok2 : ∀ e ∈ l2, EntOk e) :
    containsRepos l1 l2 = true ↔ ∀ x ∈ expand l2, x ∈ expand l1 := by
  fun_induction containsRepos l1 l2 with
  | case1 t => simp [expand]
  | case2 e r =>
    obtain ⟨x, hx⟩ := expandEnt_nonempty (ok2 e List.mem_cons_self)
    simp only [Bool.false_eq_true, false_iff]
    intro hall
    have := hall x (by rw [expand_cons]; exact List.mem_append_left _ hx)
    simp [expand] at this
  | case3 e1 r1 e2 r2 hgt =>
    have hlt := gt_iff_lt'.mp hgt
    obtain ⟨x, hx⟩ := expandEnt_nonempty (ok2 e2 List.mem_cons_self)
    have hk := ekey_of_mem_expandEnt hx
    simp only [Bool.false_eq_true, false_iff]
    intro hall
    have hm := hall x (by rw [expand_cons]; exact List.mem_append_left _ hx)
    obtain ⟨e', he', hn, _⟩ := mem_expand_key hm
    rw [hk] at hn
    rcases List.mem_cons.mp he' with rfl | he'
    · rw [hn] at hlt; exact lt_irrefl' hlt
    · rw [NameAsc, List.pairwise_cons] at h1
      have := h1.1 e' he'
      rw [hn] at this
      exact lt_asymm' hlt this
  | case4 e1 r1 e2 r2 heq hcov ih =>
    have hn := eq_of_cmp_eq heq
    have hc := (covers_iff hn (ok1 _ List.mem_cons_self) (ok2 _ List.mem_cons_self)).mp hcov
    rw [ih (List.pairwise_cons.mp h1).2 (List.pairwise_cons.mp h2).2
      (fun e he => ok1 e (List.mem_cons_of_mem _ he)) (fun e he => ok2 e (List.mem_cons_of_mem _ he))]
    constructor
    · intro hall x hx
      rw [expand_cons, List.mem_append] at hx ⊢
      rcases hx with hx | hx
      · exact Or.inl (hc x hx)
      · exact Or.inr (hall x hx)
    · intro hall x hx
      have hgt := key_gt_of_mem h2 hx
      apply mem_tail_of_key (hall x (by rw [expand_cons]; exact List.mem_append_right _ hx))
      rw [hn]; exact (lt_ne' hgt).symm
  | case5 e1 r1 e2 r2 heq hcov =>
    have hn := eq_of_cmp_eq heq
    simp only [Bool.false_eq_true, false_iff]
    intro hall
    apply hcov
    rw [covers_iff hn (ok1 _ List.mem_cons_self) (ok2 _ List.mem_cons_self)]
    intro x hx
    apply mem_head_of_key h1 (hall x (by rw [expand_cons]; exact List.mem_append_left _ hx))
    rw [ekey_of_mem_expandEnt hx, hn]
  | case6 e1 r1 e2 r2 hlt ih =>
    rw [ih (List.pairwise_cons.mp h1).2 h2
      (fun e he => ok1 e (List.mem_cons_of_mem _ he)) ok2]
    constructor
    · intro hall x hx
      rw [expand_cons]; exact List.mem_append_right _ (hall x hx)
    · intro hall x hx
      apply mem_tail_of_key (hall x hx)
      obtain ⟨e', he', hn', _⟩ := mem_expand_key hx
      rw [← hn']
      rcases List.mem_cons.mp he' with rfl | he'
      · exact (lt_ne' hlt).symm
      · exact (lt_ne' (lt_trans' hlt ((List.pairwise_cons.mp h2).1 e' he'))).symm

theorem containsRepos_antisymm {l1 l2 : List Ent}
    (h12 : containsRepos l1 l2 = true) (h21 : containsRepos l2 l1 = true) : l1 = l2 := by
  fun_induction containsRepos l1 l2 with
  | case1 t =>
    cases t with
    | nil => rfl
    | cons a r => simp [containsRepos] at h21
  | case2 a r => simp at h12
  | case3 e1 r1 e2 r2 hgt => simp at h12
  | case4 e1 r1 e2 r2 heq hcov ih =>
    have hn := eq_of_cmp_eq heq
    have heq' : compare e2.name e1.name = .eq := by rw [hn]; exact Std.ReflCmp.compare_self
    simp only [containsRepos, heq'] at h21
    split at h21
    · rename_i hcov'
      rw [ih h12 h21, covers_antisymm hn hcov hcov']
    · simp at h21
  | case5 e1 r1 e2 r2 heq hcov => simp at h12
  | case6 e1 r1 e2 r2 hlt ih =>
    have hgt : compare e2.name e1.name = .gt := gt_iff_lt'.mpr hlt
    simp [containsRepos, hgt] at h21

theorem unionRepos_of_contains {l1 l2 : List Ent} (h : containsRepos l1 l2 = true) :
    unionRepos l1 l2 = l1 := by
  fun_induction containsRepos l1 l2 with
  | case1 t => cases t <;> simp [unionRepos]
  | case2 a r => simp at h
  | case3 e1 r1 e2 r2 hgt => simp at h
  | case4 e1 r1 e2 r2 heq hcov ih => simp [unionRepos, heq, ih h, orEnt_of_covers hcov]
  | case5 e1 r1 e2 r2 heq hcov => simp at h
  | case6 e1 r1 e2 r2 hlt ih => simp [unionRepos, hlt, ih h]


/-! ### Top-level operations -/

theorem wf_unlimitedScope : WF unlimitedScope := by
  constructor <;> simp [unlimitedScope, StrictAsc]

theorem wf_empty : WF empty := by
  constructor <;> simp [empty, StrictAsc]

theorem equal_iff_fields (a b : Scope) :
    equal a b = true ↔ a.unlimited = b.unlimited ∧ a.repos = b.repos ∧ a.others = b.others := by
  simp [equal, and_assoc]

theorem iter_congr {a b : Scope} (h1 : a.unlimited = b.unlimited) (h2 : a.repos = b.repos)
    (h3 : a.others = b.others) : iter a = iter b := by
  simp [iter, h1, h2, h3]

theorem isEmpty_iff (s : Scope) :
    isEmpty s = true ↔ s.repos = [] ∧ s.others = [] ∧ s.unlimited = false := by
  simp [isEmpty, and_assoc]

/-- The scope `Union` builds when it cannot return the receiver. -/
def unionRaw (a b : Scope) : Scope :=
  ⟨[], false, unionRepos a.repos b.repos, unionOthers a.others b.others⟩

theorem union_eq (a b : Scope) :
    union a b =
      if a.unlimited || b.unlimited then unlimitedScope
      else if isEmpty b || equal a b then a
      else if equal (unionRaw a b) a then a else unionRaw a b := rfl

theorem wf_unionRaw {a b : Scope} (ha : WF a) (hb : WF b) : WF (unionRaw a b) := by
  constructor
  · exact strictAsc_names_of_nameAsc (unionRepos_nameAsc ha.nameAsc hb.nameAsc)
  · exact unionRepos_ok ha.repos_ok hb.repos_ok
  · exact (strictAsc_iff_pairwise _).mpr (unionOthers_asc ha.asc hb.asc)
  · intro r hr
    rcases (mem_unionOthers _ _ _).mp hr with h | h
    · exact ha.others_unknown r h
    · exact hb.others_unknown r h
  · intro h; cases h

theorem mem_unionRaw {a b : Scope} (la : a.unlimited = false) (lb : b.unlimited = false) (r : RS) :
    Mem r (unionRaw a b) ↔ Mem r a ∨ Mem r b := by
  rw [Mem_iff la, Mem_iff lb, Mem_iff (s := unionRaw a b) rfl]
  simp only [unionRaw, mem_expand_unionRepos, mem_unionOthers]
  grind

theorem union_wf (a b : Scope) (ha : WF a) (hb : WF b) : WF (union a b) := by
  rw [union_eq]
  split
  · exact wf_unlimitedScope
  · split
    · exact ha
    · split
      · exact ha
      · exact wf_unionRaw ha hb

theorem mem_union' {a b : Scope} (la : a.unlimited = false) (lb : b.unlimited = false) (r : RS) :
    Mem r (union a b) ↔ Mem r a ∨ Mem r b := by
  rw [union_eq]
  simp only [la, lb, Bool.or_self, Bool.false_eq_true, if_false]
  split
  · rename_i h
    rw [Bool.or_eq_true] at h
    rcases h with h | h
    · obtain ⟨h1, h2, _⟩ := (isEmpty_iff b).mp h
      have : ¬ Mem r b := by
        rw [Mem_iff lb, h1, h2]; simp [expand]
      simp [this]
    · obtain ⟨h1, h2, h3⟩ := (equal_iff_fields a b).mp h
      have : Mem r b ↔ Mem r a := by unfold Mem; rw [iter_congr h1 h2 h3]
      simp [this]
  · split
    · rename_i h
      obtain ⟨h1, h2, h3⟩ := (equal_iff_fields _ _).mp h
      have : Mem r a ↔ Mem r (unionRaw a b) := by unfold Mem; rw [iter_congr h1 h2 h3]
      exact this.trans (mem_unionRaw la lb r)
    · exact mem_unionRaw la lb r

/-- Set inclusion splits into inclusion of the known and of the unknown parts. -/
theorem subset_split {a b : Scope} (ha : WF a) (hb : WF b)
    (la : a.unlimited = false) (lb : b.unlimited = false) :
    (∀ r, Mem r b → Mem r a) ↔
      (∀ x ∈ expand b.repos, x ∈ expand a.repos) ∧ (∀ x ∈ b.others, x ∈ a.others) := by
  constructor
  · intro h
    constructor
    · intro x hx
      rcases (Mem_iff la x).mp (h x ((Mem_iff lb x).mpr (Or.inl hx))) with h' | h'
      · exact h'
      · exact absurd h' (not_mem_others_of_known ha (isKnown_of_mem_expand hx))
    · intro x hx
      rcases (Mem_iff la x).mp (h x ((Mem_iff lb x).mpr (Or.inr hx))) with h' | h'
      · exact absurd hx (not_mem_others_of_known hb (isKnown_of_mem_expand h'))
      · exact h'
  · rintro ⟨h1, h2⟩ r hr
    rw [Mem_iff la]
    rcases (Mem_iff lb r).mp hr with h | h
    · exact Or.inl (h1 r h)
    · exact Or.inr (h2 r h)

theorem contains_iff_parts {a b : Scope} (la : a.unlimited = false) (lb : b.unlimited = false) :
    contains a b = true ↔
      containsRepos a.repos b.repos = true ∧ containsOthers a.others b.others = true := by
  simp [contains, la, lb]

theorem contains_iff_subset (a b : Scope) (ha : WF a) (hb : WF b)
    (la : a.unlimited = false) (lb : b.unlimited = false) :
    contains a b = true ↔ ∀ r, Mem r b → Mem r a := by
  rw [contains_iff_parts la lb, subset_split ha hb la lb,
    containsRepos_iff ha.nameAsc hb.nameAsc ha.repos_ok hb.repos_ok,
    containsOthers_iff ha.asc hb.asc]

theorem equal_iff (a b : Scope) (ha : WF a) (hb : WF b) :
    equal a b = true ↔ (a.unlimited = b.unlimited ∧ ∀ r, Mem r a ↔ Mem r b) := by
  rw [equal_iff_fields]
  constructor
  · rintro ⟨h1, h2, h3⟩
    refine ⟨h1, fun r => ?_⟩
    unfold Mem; rw [iter_congr h1 h2 h3]
  · rintro ⟨h1, h2⟩
    refine ⟨h1, ?_⟩
    cases la : a.unlimited with
    | true =>
      have lb : b.unlimited = true := by rw [← h1, la]
      obtain ⟨a1, a2⟩ := ha.unlimited_empty la
      obtain ⟨b1, b2⟩ := hb.unlimited_empty lb
      rw [a1, a2, b1, b2]; exact ⟨rfl, rfl⟩
    | false =>
      have lb : b.unlimited = false := by rw [← h1, la]
      have c1 := (contains_iff_parts la lb).mp
        ((contains_iff_subset a b ha hb la lb).mpr (fun r hr => (h2 r).mpr hr))
      have c2 := (contains_iff_parts lb la).mp
        ((contains_iff_subset b a hb ha lb la).mpr (fun r hr => (h2 r).mp hr))
      exact ⟨containsRepos_antisymm c1.1 c2.1, containsOthers_antisymm c1.2 c2.2⟩

theorem union_noop_returns_receiver (a b : Scope) (ha : WF a) (hb : WF b)
    (la : a.unlimited = false) (lb : b.unlimited = false)
    (hsub : ∀ r, Mem r b → Mem r a) : union a b = a := by
  have c := (contains_iff_parts la lb).mp ((contains_iff_subset a b ha hb la lb).mpr hsub)
  have hraw : equal (unionRaw a b) a = true := by
    rw [equal_iff_fields]
    exact ⟨la.symm, unionRepos_of_contains c.1, unionOthers_of_contains c.2⟩
  rw [union_eq]
  simp [la, lb, hraw]

theorem unlimited_holds (r : RS) : holds unlimitedScope r = true := by
  simp [holds, unlimitedScope]

theorem union_unlimited_left (s : Scope) : union unlimitedScope s = unlimitedScope := by
  simp [union_eq, unlimitedScope]

theorem union_unlimited_right (s : Scope) : union s unlimitedScope = unlimitedScope := by
  simp [union_eq, unlimitedScope]

theorem not_contains_unlimited (s : Scope) (hl : s.unlimited = false) :
    contains s unlimitedScope = false := by
  simp [contains, hl, unlimitedScope]

end OciModel.Scope
