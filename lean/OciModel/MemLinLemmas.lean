/-
Lemmas for `MemLin`: every execution of the atomic-step model has a linearizable history; the
linearization is the order of the `step` events. The proof carries the invariant `LInv` along the
execution (history so far, shared state, what every client is doing, linearization so far).
-/
import OciModel.MemLin
import OciModel.MemConcLemmas

namespace OciModel.MemLin
open OciModel OciModel.Mem OciModel.MemConc

/-! ### lists -/

theorem get_lt {α} {l : List α} {i : Nat} {a : α} (h : l[i]? = some a) : i < l.length := by
  rcases Nat.lt_or_ge i l.length with hlt | hge
  · exact hlt
  · rw [List.getElem?_eq_none hge] at h; cases h

theorem get_snoc_lt {α} (l : List α) (a : α) {i : Nat} (hi : i < l.length) : (l ++ [a])[i]? = l[i]? :=
  List.getElem?_append_left hi

theorem get_snoc_len {α} (l : List α) (a : α) : (l ++ [a])[l.length]? = some a := by
  simp

theorem get_snoc_some {α} {l : List α} {a e : α} {k : Nat} (h : (l ++ [a])[k]? = some e) :
    (k < l.length ∧ l[k]? = some e) ∨ (k = l.length ∧ e = a) := by
  rcases Nat.lt_or_ge k l.length with hlt | hge
  · left; rw [get_snoc_lt l a hlt] at h; exact ⟨hlt, h⟩
  · right
    have hk := get_lt h
    simp at hk
    have : k = l.length := by omega
    subst this
    rw [get_snoc_len] at h
    exact ⟨rfl, (Option.some.inj h).symm⟩

/-! ### `Resp` and `Last` -/

/-- client `c` has no event after position `i` -/
def Last (h : History) (i : Nat) (c : Client) : Prop := ∀ k e, i < k → h[k]? = some e → e.client ≠ c

theorem Resp.snoc {h : History} {i j : Nat} {c : Client} {out : Out} (ev : HEv) (r : Resp h i c j out) :
    Resp (h ++ [ev]) i c j out := by
  obtain ⟨hij, hj, hb⟩ := r
  have hjl := get_lt hj
  refine ⟨hij, by rw [get_snoc_lt h ev hjl]; exact hj, fun k e hik hkj hk => ?_⟩
  rw [get_snoc_lt h ev (by omega)] at hk
  exact hb k e hik hkj hk

theorem Resp.of_snoc {h : History} {i j : Nat} {c : Client} {out : Out} {ev : HEv}
    (r : Resp (h ++ [ev]) i c j out) (hjl : j < h.length) : Resp h i c j out := by
  obtain ⟨hij, hj, hb⟩ := r
  rw [get_snoc_lt h ev hjl] at hj
  refine ⟨hij, hj, fun k e hik hkj hk => hb k e hik hkj ?_⟩
  rw [get_snoc_lt h ev (by omega)]; exact hk

theorem Resp.unique {h : History} {i j j' : Nat} {c : Client} {out out' : Out}
    (r : Resp h i c j out) (r' : Resp h i c j' out') : j = j' ∧ out = out' := by
  obtain ⟨hij, hj, hb⟩ := r
  obtain ⟨hij', hj', hb'⟩ := r'
  have e : j = j' := by
    rcases Nat.lt_trichotomy j j' with hlt | heq | hgt
    · exact absurd rfl (hb' j _ hij hlt hj)
    · exact heq
    · exact absurd rfl (hb j' _ hij' hgt hj')
  subst e
  rw [hj] at hj'
  cases hj'
  exact ⟨rfl, rfl⟩

theorem Last.snoc {h : History} {i : Nat} {c : Client} {ev : HEv} (l : Last h i c) (hne : ev.client ≠ c) :
    Last (h ++ [ev]) i c := by
  intro k e hik hk
  rcases get_snoc_some hk with ⟨_, hk'⟩ | ⟨_, rfl⟩
  · exact l k e hik hk'
  · exact hne

theorem Last.of_snoc {h : History} {i : Nat} {c : Client} {ev : HEv} (l : Last (h ++ [ev]) i c) : Last h i c := by
  intro k e hik hk
  refine l k e hik ?_
  rw [get_snoc_lt h ev (get_lt hk)]; exact hk

theorem Last.len (h : History) (ev : HEv) (c : Client) : Last (h ++ [ev]) h.length c := by
  intro k e hik hk
  have := get_lt hk
  simp at this
  omega

theorem Last.noResp {h : History} {i j : Nat} {c : Client} {out : Out} (l : Last h i c) : ¬ Resp h i c j out :=
  fun r => l j _ r.1 r.2.1 rfl

theorem Last.unique {h : History} {i i' : Nat} {c : Client} {e e' : HEv} (l : Last h i c) (l' : Last h i' c)
    (hi : h[i]? = some e) (he : e.client = c) (hi' : h[i']? = some e') (he' : e'.client = c) : i = i' := by
  rcases Nat.lt_trichotomy i i' with hlt | heq | hgt
  · exact absurd he' (l i' e' hlt hi')
  · exact heq
  · exact absurd he (l' i e hgt hi)

/-- closing an operation: the response appended to the history matches the client's last invocation -/
theorem Last.resp_snoc {h : History} {i : Nat} {c : Client} {e : HEv} (l : Last h i c) (hi : h[i]? = some e)
    (out : Out) : Resp (h ++ [.ret c out]) i c h.length out := by
  refine ⟨get_lt hi, get_snoc_len _ _, fun k e' hik hk hk' => ?_⟩
  rw [get_snoc_lt h _ hk] at hk'
  exact l k e' hik hk'

/-! ### `run`, `xrun`, `hist` -/

section
variable (H : Bytes → Bytes)

theorem run_snoc (s : State) (ops : List Op) (o : Op) :
    run H s (ops ++ [o]) =
      ((step H (run H s ops).1 o).1, (run H s ops).2 ++ [(step H (run H s ops).1 o).2]) := by
  induction ops generalizing s with
  | nil => rfl
  | cons a rest ih =>
    show ((run H (step H s a).1 (rest ++ [o])).1, (step H s a).2 :: (run H (step H s a).1 (rest ++ [o])).2) = _
    rw [ih]
    rfl

theorem xrun_cons (x : XState) (e : XEv) (rest : List XEv) :
    xrun H x (e :: rest) = (xstep H x e).bind fun x' => xrun H x' rest := rfl

end

theorem hist_cons (e : XEv) (rest : List XEv) : hist (e :: rest) = hist [e] ++ hist rest := by
  cases e <;> rfl

theorem hist_append (l1 l2 : List XEv) : hist (l1 ++ l2) = hist l1 ++ hist l2 := by
  induction l1 with
  | nil => rfl
  | cons e rest ih =>
    rw [List.cons_append, hist_cons, ih, hist_cons e rest, List.append_assoc]

theorem setAt_same {α} (f : Client → α) (c : Client) (v : α) : setAt f c v c = v := by
  simp [setAt]

theorem setAt_other {α} (f : Client → α) {c c' : Client} (v : α) (h : c' ≠ c) : setAt f c v c' = f c' := by
  simp [setAt, h]

/-! ### the invariant -/

section
variable (H : Bytes → Bytes)

/-- What holds of the history `h` so far, the execution state `x` and the linearization `lin` so far
(= the operations that have taken their step, in step order). -/
structure LInv (s0 : State) (h : History) (x : XState) (lin : List LinOp) : Prop where
  seq : run H s0 (lin.map (·.op)) = (x.c.st, lin.map (·.out))
  nodup : (lin.map (·.inv)).Nodup
  pIdle : ∀ c, x.pend c = .idle → ∀ i o, h[i]? = some (.inv c o) → ¬ Last h i c
  pInv : ∀ c o, x.pend c = .invoked o → ∃ i, h[i]? = some (.inv c o) ∧ Last h i c ∧ ∀ e ∈ lin, e.inv ≠ i
  pStep : ∀ c o out, x.pend c = .stepped o out → ∃ i, h[i]? = some (.inv c o) ∧ Last h i c ∧ ⟨i, o, out⟩ ∈ lin
  invs : ∀ i c o, h[i]? = some (.inv c o) → (∃ j out, Resp h i c j out ∧ ⟨i, o, out⟩ ∈ lin) ∨ Last h i c
  ents : ∀ e ∈ lin, ∃ c, h[e.inv]? = some (.inv c e.op) ∧
    ((∃ j, Resp h e.inv c j e.out) ∨ (Last h e.inv c ∧ x.pend c = .stepped e.op e.out))
  rt : ∀ (p q : Nat) (a b : LinOp), lin[p]? = some a → lin[q]? = some b →
    (∃ c j out, Resp h a.inv c j out ∧ h[a.inv]? = some (.inv c a.op) ∧ j < b.inv) → p < q

theorem linv_init (c0 : CState) : LInv H c0.st [] (xinit c0) [] where
  seq := rfl
  nodup := List.nodup_nil
  pIdle := fun _ _ i o hi => by simp at hi
  pInv := fun c o hp => by simp [xinit] at hp
  pStep := fun c o out hp => by simp [xinit] at hp
  invs := fun i c o hi => by simp at hi
  ents := fun e he => by simp at he
  rt := fun p q a b hp => by simp at hp

/-- the real-time clause survives an event appended to the history (the linearization unchanged) -/
theorem rt_snoc {h : History} {lin : List LinOp} (ev : HEv)
    (hb : ∀ e ∈ lin, e.inv < h.length)
    (rt : ∀ (p q : Nat) (a b : LinOp), lin[p]? = some a → lin[q]? = some b →
      (∃ c j out, Resp h a.inv c j out ∧ h[a.inv]? = some (.inv c a.op) ∧ j < b.inv) → p < q) :
    ∀ (p q : Nat) (a b : LinOp), lin[p]? = some a → lin[q]? = some b →
      (∃ c j out, Resp (h ++ [ev]) a.inv c j out ∧ (h ++ [ev])[a.inv]? = some (.inv c a.op) ∧ j < b.inv) → p < q := by
  intro p q a b hp hq ⟨c, j, out, r, ha, hjb⟩
  have hbl := hb b (List.mem_of_getElem? hq)
  have hal := hb a (List.mem_of_getElem? hp)
  refine rt p q a b hp hq ⟨c, j, out, r.of_snoc (by omega), ?_, hjb⟩
  rw [get_snoc_lt h ev hal] at ha; exact ha

theorem LInv.bound {s0 : State} {h : History} {x : XState} {lin : List LinOp} (I : LInv H s0 h x lin) :
    ∀ e ∈ lin, e.inv < h.length := fun e he => by
  obtain ⟨c, hc, _⟩ := I.ents e he
  exact get_lt hc

/-- invocation -/
theorem linv_inv {s0 : State} {h : History} {x : XState} {lin : List LinOp} (I : LInv H s0 h x lin)
    (c : Client) (o : Op) (hp : x.pend c = .idle) :
    LInv H s0 (h ++ [.inv c o]) { x with pend := setAt x.pend c (.invoked o) } lin where
  seq := I.seq
  nodup := I.nodup
  pIdle := by
    intro c' hc' i o' hi hl
    have hne : c' ≠ c := by
      intro e; subst e; simp [setAt_same] at hc'
    simp only [setAt_other _ _ hne] at hc'
    rcases get_snoc_some hi with ⟨_, hi'⟩ | ⟨_, e⟩
    · exact I.pIdle c' hc' i o' hi' hl.of_snoc
    · cases e; exact hne rfl
  pInv := by
    intro c' o' hc'
    by_cases hcc : c' = c
    · subst hcc
      simp only [setAt_same] at hc'
      cases hc'
      exact ⟨h.length, get_snoc_len _ _, Last.len _ _ _, fun e he => Nat.ne_of_lt (I.bound H e he)⟩
    · simp only [setAt_other _ _ hcc] at hc'
      obtain ⟨i, hi, hl, hn⟩ := I.pInv c' o' hc'
      exact ⟨i, by rw [get_snoc_lt _ _ (get_lt hi)]; exact hi, hl.snoc (fun e => hcc e.symm), hn⟩
  pStep := by
    intro c' o' out hc'
    have hcc : c' ≠ c := by
      intro e; subst e; simp [setAt_same] at hc'
    simp only [setAt_other _ _ hcc] at hc'
    obtain ⟨i, hi, hl, hm⟩ := I.pStep c' o' out hc'
    exact ⟨i, by rw [get_snoc_lt _ _ (get_lt hi)]; exact hi, hl.snoc (fun e => hcc e.symm), hm⟩
  invs := by
    intro i c' o' hi
    rcases get_snoc_some hi with ⟨_, hi'⟩ | ⟨rfl, e⟩
    · rcases I.invs i c' o' hi' with ⟨j, out, r, hm⟩ | hl
      · exact Or.inl ⟨j, out, r.snoc _, hm⟩
      · by_cases hcc : c' = c
        · subst hcc; exact absurd hl (I.pIdle c' hp i o' hi')
        · exact Or.inr (hl.snoc (fun e => hcc e.symm))
    · cases e; exact Or.inr (Last.len _ _ _)
  ents := by
    intro e he
    obtain ⟨c', hc', hd⟩ := I.ents e he
    refine ⟨c', by rw [get_snoc_lt _ _ (get_lt hc')]; exact hc', ?_⟩
    rcases hd with ⟨j, r⟩ | ⟨hl, hs⟩
    · exact Or.inl ⟨j, r.snoc _⟩
    · have hcc : c' ≠ c := by
        intro e'; subst e'; rw [hp] at hs; cases hs
      exact Or.inr ⟨hl.snoc (fun e => hcc e.symm), by simp only [setAt_other _ _ hcc]; exact hs⟩
  rt := rt_snoc _ (I.bound H) I.rt

/-- the atomic step: the operation is appended to the linearization -/
theorem linv_step {s0 : State} {h : History} {x : XState} {lin : List LinOp} (I : LInv H s0 h x lin)
    (c : Client) (o : Op) (hp : x.pend c = .invoked o) :
    ∃ i, LInv H s0 h { c := (astep H x.c (.op o)).1, pend := setAt x.pend c (.stepped o (astep H x.c (.op o)).2) }
      (lin ++ [⟨i, o, (astep H x.c (.op o)).2⟩]) := by
  obtain ⟨i, hi, hl, hn⟩ := I.pInv c o hp
  refine ⟨i, ?_⟩
  exact {
    seq := by
      simp only [List.map_append, List.map_cons, List.map_nil]
      rw [run_snoc, I.seq]
      rfl
    nodup := by
      simp only [List.map_append, List.map_cons, List.map_nil]
      rw [List.nodup_append]
      refine ⟨I.nodup, by simp, ?_⟩
      intro a ha b hb
      simp at hb; subst hb
      obtain ⟨e, he, rfl⟩ := List.mem_map.1 ha
      exact hn e he
    pIdle := by
      intro c' hc' i' o' hi' hl'
      have hne : c' ≠ c := by
        intro e; subst e; simp [setAt_same] at hc'
      simp only [setAt_other _ _ hne] at hc'
      exact I.pIdle c' hc' i' o' hi' hl'
    pInv := by
      intro c' o' hc'
      have hne : c' ≠ c := by
        intro e; subst e; simp [setAt_same] at hc'
      simp only [setAt_other _ _ hne] at hc'
      obtain ⟨i', hi', hl', hn'⟩ := I.pInv c' o' hc'
      refine ⟨i', hi', hl', fun e he => ?_⟩
      rcases List.mem_append.1 he with he | he
      · exact hn' e he
      · simp at he; subst he
        intro e'
        simp only at e'
        subst e'
        rw [hi] at hi'
        cases hi'
        exact hne rfl
    pStep := by
      intro c' o' out hc'
      by_cases hcc : c' = c
      · subst hcc
        simp only [setAt_same] at hc'
        cases hc'
        exact ⟨i, hi, hl, List.mem_append.2 (Or.inr (List.mem_singleton.2 rfl))⟩
      · simp only [setAt_other _ _ hcc] at hc'
        obtain ⟨i', hi', hl', hm⟩ := I.pStep c' o' out hc'
        exact ⟨i', hi', hl', List.mem_append.2 (Or.inl hm)⟩
    invs := by
      intro i' c' o' hi'
      rcases I.invs i' c' o' hi' with ⟨j, out, r, hm⟩ | hl'
      · exact Or.inl ⟨j, out, r, List.mem_append.2 (Or.inl hm)⟩
      · exact Or.inr hl'
    ents := by
      intro e he
      rcases List.mem_append.1 he with he | he
      · obtain ⟨c', hc', hd⟩ := I.ents e he
        refine ⟨c', hc', ?_⟩
        rcases hd with ⟨j, r⟩ | ⟨hl', hs⟩
        · exact Or.inl ⟨j, r⟩
        · have hcc : c' ≠ c := by
            intro e'; subst e'; rw [hp] at hs; cases hs
          exact Or.inr ⟨hl', by simp only [setAt_other _ _ hcc]; exact hs⟩
      · simp at he; subst he
        exact ⟨c, hi, Or.inr ⟨hl, by simp only [setAt_same]⟩⟩
    rt := by
      intro p q a b hpa hqb hr
      rcases Nat.lt_or_ge p lin.length with hpl | hpl
      · rcases Nat.lt_or_ge q lin.length with hql | hql
        · rw [List.getElem?_append_left hpl] at hpa
          rw [List.getElem?_append_left hql] at hqb
          exact I.rt p q a b hpa hqb hr
        · omega
      · -- `a` is the new entry: its invocation has no response yet
        exfalso
        have hpl' := get_lt hpa
        simp at hpl'
        have : p = lin.length := by omega
        subst this
        simp at hpa
        subst hpa
        obtain ⟨c', j, out, r, ha, _⟩ := hr
        simp only at ha r
        rw [hi] at ha
        cases ha
        exact hl.noResp r }

/-- response -/
theorem linv_ret {s0 : State} {h : History} {x : XState} {lin : List LinOp} (I : LInv H s0 h x lin)
    (c : Client) (o : Op) (out : Out) (hp : x.pend c = .stepped o out) :
    LInv H s0 (h ++ [.ret c out]) { x with pend := setAt x.pend c .idle } lin := by
  obtain ⟨i, hi, hl, hm⟩ := I.pStep c o out hp
  exact {
    seq := I.seq
    nodup := I.nodup
    pIdle := by
      intro c' hc' i' o' hi' hl'
      rcases get_snoc_some hi' with ⟨hlt, hi''⟩ | ⟨_, e⟩
      · by_cases hcc : c' = c
        · subst hcc
          exact hl' h.length _ hlt (get_snoc_len _ _) rfl
        · simp only [setAt_other _ _ hcc] at hc'
          exact I.pIdle c' hc' i' o' hi'' hl'.of_snoc
      · cases e
    pInv := by
      intro c' o' hc'
      have hcc : c' ≠ c := by
        intro e; subst e; simp [setAt_same] at hc'
      simp only [setAt_other _ _ hcc] at hc'
      obtain ⟨i', hi', hl', hn⟩ := I.pInv c' o' hc'
      exact ⟨i', by rw [get_snoc_lt _ _ (get_lt hi')]; exact hi', hl'.snoc (fun e => hcc e.symm), hn⟩
    pStep := by
      intro c' o' out' hc'
      have hcc : c' ≠ c := by
        intro e; subst e; simp [setAt_same] at hc'
      simp only [setAt_other _ _ hcc] at hc'
      obtain ⟨i', hi', hl', hm'⟩ := I.pStep c' o' out' hc'
      exact ⟨i', by rw [get_snoc_lt _ _ (get_lt hi')]; exact hi', hl'.snoc (fun e => hcc e.symm), hm'⟩
    invs := by
      intro i' c' o' hi'
      rcases get_snoc_some hi' with ⟨_, hi''⟩ | ⟨_, e⟩
      · rcases I.invs i' c' o' hi'' with ⟨j, out', r, hm'⟩ | hl'
        · exact Or.inl ⟨j, out', r.snoc _, hm'⟩
        · by_cases hcc : c' = c
          · subst hcc
            have := hl.unique hl' hi rfl hi'' rfl
            subst this
            rw [hi] at hi''
            cases hi''
            exact Or.inl ⟨h.length, out, hl.resp_snoc hi out, hm⟩
          · exact Or.inr (hl'.snoc (fun e => hcc e.symm))
      · cases e
    ents := by
      intro e he
      obtain ⟨c', hc', hd⟩ := I.ents e he
      refine ⟨c', by rw [get_snoc_lt _ _ (get_lt hc')]; exact hc', ?_⟩
      rcases hd with ⟨j, r⟩ | ⟨hl', hs⟩
      · exact Or.inl ⟨j, r.snoc _⟩
      · by_cases hcc : c' = c
        · subst hcc
          rw [hp] at hs
          cases hs
          exact Or.inl ⟨h.length, hl'.resp_snoc hc' _⟩
        · exact Or.inr ⟨hl'.snoc (fun e => hcc e.symm), by simp only [setAt_other _ _ hcc]; exact hs⟩
    rt := rt_snoc _ (I.bound H) I.rt }

/-- the call a client has made and not yet run -/
def pendOp : Pend → Option Op
  | .invoked o => some o
  | _ => none

def isBusy : Pend → Bool
  | .idle => false
  | _ => true

/-- One event of an execution preserves the invariant; the linearization grows at the end, by the
operation that took its step (if the event is a `step`) — so it is `stepOps`, and the shared state moves
by that operation as in `MemConc.arun`. -/
theorem linv_xstep {s0 : State} {h : History} {x x' : XState} {lin : List LinOp} (I : LInv H s0 h x lin)
    (e : XEv) (hx : xstep H x e = some x') (p : Client → Option Op) (hpp : ∀ c, p c = pendOp (x.pend c)) :
    ∃ ext p', LInv H s0 (h ++ hist [e]) x' (lin ++ ext) ∧ (∀ c, p' c = pendOp (x'.pend c)) ∧
      (∀ rest, stepOpsFrom p (e :: rest) = ext.map (·.op) ++ stepOpsFrom p' rest) ∧
      x'.c = arun H x.c ((ext.map (·.op)).map .op) := by
  cases e with
  | inv c o =>
    simp only [xstep] at hx
    split at hx
    · next hp =>
      cases hx
      refine ⟨[], setAt p c (some o), by simpa [hist] using linv_inv H I c o hp, fun c' => ?_, fun rest => rfl, rfl⟩
      by_cases hcc : c' = c
      · subst hcc; simp [setAt_same, pendOp]
      · simp only [setAt_other _ _ hcc]; exact hpp c'
    · cases hx
  | step c =>
    simp only [xstep] at hx
    split at hx
    · next o hp =>
      cases hx
      obtain ⟨i, hI⟩ := linv_step H I c o hp
      have hpc : p c = some o := by rw [hpp c, hp]; rfl
      refine ⟨[⟨i, o, (astep H x.c (.op o)).2⟩], setAt p c none, by simpa [hist] using hI, fun c' => ?_, fun rest => ?_, rfl⟩
      · by_cases hcc : c' = c
        · subst hcc; simp [setAt_same, pendOp]
        · simp only [setAt_other _ _ hcc]; exact hpp c'
      · simp only [stepOpsFrom, hpc]; rfl
    · cases hx
  | ret c out =>
    simp only [xstep] at hx
    split at hx
    · next o out' hp =>
      split at hx
      · next e =>
        subst e
        cases hx
        refine ⟨[], p, by simpa [hist] using linv_ret H I c o out hp, fun c' => ?_, fun rest => rfl, rfl⟩
        by_cases hcc : c' = c
        · subst hcc; rw [hpp c', hp]; simp [setAt_same, pendOp]
        · simp only [setAt_other _ _ hcc]; exact hpp c'
      · cases hx
    · cases hx

theorem linv_xrun {s0 : State} (ex : List XEv) {h : History} {x x' : XState} {lin : List LinOp}
    (I : LInv H s0 h x lin) (hx : xrun H x ex = some x') (p : Client → Option Op) (hpp : ∀ c, p c = pendOp (x.pend c)) :
    ∃ ext, LInv H s0 (h ++ hist ex) x' (lin ++ ext) ∧ ext.map (·.op) = stepOpsFrom p ex ∧
      x'.c = arun H x.c ((stepOpsFrom p ex).map .op) := by
  induction ex generalizing h x lin p with
  | nil =>
    cases hx
    exact ⟨[], by simpa [hist] using I, rfl, rfl⟩
  | cons e rest ih =>
    rw [xrun_cons] at hx
    cases h1 : xstep H x e with
    | none => rw [h1] at hx; cases hx
    | some x1 =>
      rw [h1] at hx
      obtain ⟨ext1, p1, I1, hp1, hs1, hc1⟩ := linv_xstep H I e h1 p hpp
      obtain ⟨ext2, I2, hs2, hc2⟩ := ih I1 hx p1 hp1
      refine ⟨ext1 ++ ext2, ?_, ?_, ?_⟩
      · rw [hist_cons, ← List.append_assoc, ← List.append_assoc]
        exact I2
      · rw [hs1 rest, List.map_append, hs2]
      · rw [hc2, hc1, hs1 rest, List.map_append, arun_append]

/-- the history of an execution is well formed: every client alternates invocations and responses -/
theorem wf_xrun (ex : List XEv) {x x' : XState} (hx : xrun H x ex = some x') (busy : Client → Bool)
    (hb : ∀ c, busy c = isBusy (x.pend c)) : wfFrom busy (hist ex) = true := by
  induction ex generalizing x busy with
  | nil => rfl
  | cons e rest ih =>
    rw [xrun_cons] at hx
    cases h1 : xstep H x e with
    | none => rw [h1] at hx; cases hx
    | some x1 =>
      rw [h1] at hx
      cases e with
      | inv c o =>
        simp only [xstep] at h1
        split at h1
        · next hp =>
          cases h1
          have hbc : busy c = false := by rw [hb c, hp]; rfl
          simp only [hist, wfFrom, hbc, Bool.not_false, Bool.true_and]
          refine ih hx _ fun c' => ?_
          by_cases hcc : c' = c
          · subst hcc; simp [setAt_same, isBusy]
          · simp only [setAt_other _ _ hcc]; exact hb c'
        · cases h1
      | step c =>
        simp only [xstep] at h1
        split at h1
        · next o hp =>
          cases h1
          simp only [hist]
          refine ih hx _ fun c' => ?_
          by_cases hcc : c' = c
          · subst hcc; rw [hb c', hp]; simp [setAt_same, isBusy]
          · simp only [setAt_other _ _ hcc]; exact hb c'
        · cases h1
      | ret c out =>
        simp only [xstep] at h1
        split at h1
        · next o out' hp =>
          split at h1
          · cases h1
            have hbc : busy c = true := by rw [hb c, hp]; rfl
            simp only [hist, wfFrom, hbc, Bool.true_and]
            refine ih hx _ fun c' => ?_
            by_cases hcc : c' = c
            · subst hcc; simp [setAt_same, isBusy]
            · simp only [setAt_other _ _ hcc]; exact hb c'
          · cases h1
        · cases h1

/-- the invariant gives a linearization -/
theorem LInv.isLinearization {s0 : State} {h : History} {x : XState} {lin : List LinOp} (I : LInv H s0 h x lin) :
    IsLinearization H s0 h lin where
  nodup := I.nodup
  isInv := by
    intro e he
    obtain ⟨c, hc, hd⟩ := I.ents e he
    refine ⟨c, hc, fun j out r => ?_⟩
    rcases hd with ⟨j', r'⟩ | ⟨hl, _⟩
    · exact (r.unique r').2
    · exact absurd r hl.noResp
  complete := by
    intro i c o j out hi r
    rcases I.invs i c o hi with ⟨j', out', r', hm⟩ | hl
    · obtain ⟨_, rfl⟩ := r.unique r'
      exact hm
    · exact absurd r hl.noResp
  realtime := I.rt
  sequential := by rw [I.seq]

/-- **Every execution of the atomic-step model is linearizable**: the operations that took their atomic
step, in the order of the `step` events (`stepOps ex`), are a linearization of its history, and running them
sequentially ends in the shared state the execution ends in — which is the state of the schedule
`(stepOps ex).map .op` of `MemConc.arun`. -/
theorem exec_linearization (c0 : CState) (ex : List XEv) {x : XState} (hx : xrun H (xinit c0) ex = some x) :
    ∃ lin, IsLinearization H c0.st (hist ex) lin ∧ lin.map (·.op) = stepOps ex ∧
      (run H c0.st (stepOps ex)).1 = x.c.st ∧ x.c = arun H c0 ((stepOps ex).map .op) := by
  obtain ⟨ext, I, hs, hc⟩ := linv_xrun H ex (linv_init H c0) hx (fun _ => none) (fun _ => rfl)
  simp only [List.nil_append] at I
  refine ⟨ext, I.isLinearization H, hs, ?_, hc⟩
  have := I.seq
  rw [hs] at this
  rw [show stepOps ex = stepOpsFrom (fun _ => none) ex from rfl, this]

end

/-! ### A concrete execution: three clients, overlapping operations, one still open at the end -/

namespace Demo
open TwoStep

def c0 : CState := ⟨Mem.init false, []⟩

/-- Client 0 pushes manifest `m1` under the tag; client 1's `ResolveTag` is invoked after that call and
OVERLAPS it, and takes its step first (so it answers NAME_UNKNOWN although it was called later); client 2
calls `ResolveTag` after client 0's push has RETURNED (so it must see the tag), while client 1 is still
inside its call; then client 0 pushes `m2`, which has taken effect but not returned when the execution is
cut, and client 1 has called `GetTag`, which has not run yet. -/
def ex : List XEv :=
  [.inv 0 (.pushManifest rT tT m1 mtT .opaque),
   .inv 1 (.resolveTag rT tT),
   .step 1,
   .step 0,
   .ret 0 (.okDesc d1),
   .inv 2 (.resolveTag rT tT),
   .ret 1 (.err "NAME_UNKNOWN"),
   .step 2,
   .ret 2 (.okDesc d1),
   .inv 0 (.pushManifest rT tT m2 mtT .opaque),
   .step 0,
   .inv 1 (.getTag rT tT)]

/-- what the clients see of `ex` -/
def h : History :=
  [.inv 0 (.pushManifest rT tT m1 mtT .opaque),   -- 0
   .inv 1 (.resolveTag rT tT),                    -- 1
   .ret 0 (.okDesc d1),                           -- 2
   .inv 2 (.resolveTag rT tT),                    -- 3
   .ret 1 (.err "NAME_UNKNOWN"),                  -- 4
   .ret 2 (.okDesc d1),                           -- 5
   .inv 0 (.pushManifest rT tT m2 mtT .opaque),   -- 6  (open: has taken effect)
   .inv 1 (.getTag rT tT)]                        -- 7  (open: has not run)

/-- the linearization of `h` that `ex` gives: the order of its `step` events -/
def lin : List LinOp :=
  [⟨1, .resolveTag rT tT, .err "NAME_UNKNOWN"⟩,
   ⟨0, .pushManifest rT tT m1 mtT .opaque, .okDesc d1⟩,
   ⟨3, .resolveTag rT tT, .okDesc d1⟩,
   ⟨6, .pushManifest rT tT m2 mtT .opaque, .okDesc d2⟩]

/-- a history that is NOT linearizable: the push has returned before `ResolveTag` is called, and
`ResolveTag` nevertheless says NAME_UNKNOWN -/
def bad : History :=
  [.inv 0 (.pushManifest rT tT m1 mtT .opaque),
   .ret 0 (.okDesc d1),
   .inv 1 (.resolveTag rT tT),
   .ret 1 (.err "NAME_UNKNOWN")]

end Demo

end OciModel.MemLin
