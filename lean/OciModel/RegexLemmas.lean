/-
General facts about `OciModel.Regex`: the derivative matcher decides the language
(`matches_iff_lang`), plus the characterisations of the language of the usual shapes
(star/plus of a byte class, concatenation with one byte, associativity, …) that the proofs
about ociref's three patterns use (RefReLemmas.lean).
Core Lean only.
-/
import OciModel.Regex

namespace OciModel.Regex

/-! ### Star and plus, inductively -/

theorem lang_star_nil (a : Re) : lang (.star a) [] :=
  ⟨[], rfl, by simp⟩

theorem lang_star_append {a : Re} {x y : Bytes} (hx : lang a x) (hy : lang (.star a) y) :
    lang (.star a) (x ++ y) := by
  obtain ⟨parts, rfl, hp⟩ := hy
  refine ⟨x :: parts, by simp, ?_⟩
  intro p hp'
  rcases List.mem_cons.mp hp' with h | h
  · subst h; exact hx
  · exact hp p h

/-- Induction over the iterations of a star. -/
theorem lang_star_induction {a : Re} {P : Bytes → Prop} (nil : P [])
    (app : ∀ x y, lang a x → lang (.star a) y → P y → P (x ++ y)) :
    ∀ s, lang (.star a) s → P s := by
  intro s ⟨parts, hs, hp⟩
  subst hs
  induction parts with
  | nil => exact nil
  | cons p ps ih =>
    have hps : ∀ q ∈ ps, lang a q := fun q hq => hp q (List.mem_cons_of_mem _ hq)
    simpa using app p ps.flatten (hp p List.mem_cons_self) ⟨ps, rfl, hps⟩ (ih hps)

/-- A non-empty member of a star starts with a non-empty iteration. -/
theorem lang_star_cons_iff {a : Re} {c : UInt8} {s : Bytes} :
    lang (.star a) (c :: s) ↔ ∃ x y, s = x ++ y ∧ lang a (c :: x) ∧ lang (.star a) y := by
  constructor
  · intro h
    suffices H : ∀ t, lang (.star a) t → ∀ c s, t = c :: s →
        ∃ x y, s = x ++ y ∧ lang a (c :: x) ∧ lang (.star a) y from H _ h c s rfl
    refine lang_star_induction ?_ ?_
    · intro c s e; cases e
    · intro x y hx hy ih c s e
      cases x with
      | nil => exact ih c s (by simpa using e)
      | cons b x' =>
        simp only [List.cons_append, List.cons.injEq] at e
        obtain ⟨rfl, rfl⟩ := e
        exact ⟨x', y, rfl, hx, hy⟩
  · rintro ⟨x, y, rfl, hx, hy⟩
    exact lang_star_append (x := c :: x) hx hy

theorem lang_plus_iff {a : Re} {s : Bytes} :
    lang (.plus a) s ↔ ∃ x y, s = x ++ y ∧ lang a x ∧ lang (.star a) y := by
  constructor
  · rintro ⟨parts, hne, rfl, hp⟩
    cases parts with
    | nil => exact absurd rfl hne
    | cons p ps =>
      exact ⟨p, ps.flatten, by simp, hp p List.mem_cons_self,
        ps, rfl, fun q hq => hp q (List.mem_cons_of_mem _ hq)⟩
  · rintro ⟨x, y, rfl, hx, parts, rfl, hp⟩
    refine ⟨x :: parts, by simp, by simp, ?_⟩
    intro p hp'
    rcases List.mem_cons.mp hp' with h | h
    · subst h; exact hx
    · exact hp p h

theorem lang_star_of_plus {a : Re} {s : Bytes} (h : lang (.plus a) s) : lang (.star a) s := by
  obtain ⟨x, y, rfl, hx, hy⟩ := lang_plus_iff.mp h
  exact lang_star_append hx hy

/-- A member of a star is empty or a member of the plus. -/
theorem lang_star_iff_nil_or_plus {a : Re} {s : Bytes} :
    lang (.star a) s ↔ s = [] ∨ lang (.plus a) s := by
  constructor
  · intro h
    cases s with
    | nil => exact Or.inl rfl
    | cons c s =>
      obtain ⟨x, y, rfl, hx, hy⟩ := lang_star_cons_iff.mp h
      exact Or.inr (lang_plus_iff.mpr ⟨c :: x, y, rfl, hx, hy⟩)
  · rintro (rfl | h)
    · exact lang_star_nil a
    · exact lang_star_of_plus h

theorem lang_plus_cons_iff {a : Re} {c : UInt8} {s : Bytes} :
    lang (.plus a) (c :: s) ↔ ∃ x y, s = x ++ y ∧ lang a (c :: x) ∧ lang (.star a) y := by
  rw [← lang_star_cons_iff]
  constructor
  · exact lang_star_of_plus
  · intro h
    rcases lang_star_iff_nil_or_plus.mp h with h | h
    · cases h
    · exact h

/-! ### The matcher decides the language -/

theorem nullable_iff (r : Re) : nullable r = true ↔ lang r [] := by
  induction r with
  | eps => simp [nullable, lang]
  | cls rs => simp [nullable, lang]
  | cat a b iha ihb =>
    simp only [nullable, Bool.and_eq_true, iha, ihb, lang]
    constructor
    · rintro ⟨ha, hb⟩; exact ⟨[], [], rfl, ha, hb⟩
    · rintro ⟨x, y, e, ha, hb⟩
      have e' := e.symm
      simp only [List.append_eq_nil_iff] at e'
      obtain ⟨rfl, rfl⟩ := e'
      exact ⟨ha, hb⟩
  | alt a b iha ihb => simp [nullable, lang, iha, ihb]
  | star a _ => simp only [nullable, true_iff]; exact lang_star_nil a
  | plus a iha =>
    simp only [nullable, iha]
    constructor
    · intro h; exact lang_plus_iff.mpr ⟨[], [], rfl, h, lang_star_nil a⟩
    · intro h
      obtain ⟨x, y, e, hx, _⟩ := lang_plus_iff.mp h
      have e' := e.symm
      simp only [List.append_eq_nil_iff] at e'
      obtain ⟨rfl, rfl⟩ := e'
      exact hx
  | opt a _ => simp [nullable, lang]
  | grp n a iha => simpa [nullable, lang] using iha

theorem lang_none (s : Bytes) : ¬ lang none s := by
  simp [none, lang, inClass]

theorem lang_cat_cons_iff {a b : Re} {c : UInt8} {s : Bytes} :
    lang (.cat a b) (c :: s) ↔
      (∃ x y, s = x ++ y ∧ lang a (c :: x) ∧ lang b y) ∨ (lang a [] ∧ lang b (c :: s)) := by
  simp only [lang]
  constructor
  · rintro ⟨x, y, e, ha, hb⟩
    cases x with
    | nil => right; simp only [List.nil_append] at e; subst e; exact ⟨ha, hb⟩
    | cons d x' =>
      simp only [List.cons_append, List.cons.injEq] at e
      obtain ⟨rfl, rfl⟩ := e
      exact Or.inl ⟨x', y, rfl, ha, hb⟩
  · rintro (⟨x, y, rfl, ha, hb⟩ | ⟨ha, hb⟩)
    · exact ⟨c :: x, y, rfl, ha, hb⟩
    · exact ⟨[], c :: s, rfl, ha, hb⟩

theorem deriv_iff (c : UInt8) (r : Re) : ∀ s : Bytes, lang (deriv c r) s ↔ lang r (c :: s) := by
  induction r with
  | eps => intro s; simp [deriv, lang_none, lang]
  | cls rs =>
    intro s
    simp only [deriv]
    split
    · rename_i h
      simp only [lang, List.cons.injEq]
      constructor
      · rintro rfl; exact ⟨c, ⟨rfl, rfl⟩, h⟩
      · rintro ⟨b, ⟨rfl, rfl⟩, _⟩; rfl
    · rename_i h
      simp only [lang_none, false_iff, lang, List.cons.injEq, not_exists, not_and]
      rintro b ⟨rfl, _⟩; exact h
  | cat a b iha ihb =>
    intro s
    rw [lang_cat_cons_iff]
    simp only [deriv]
    split
    · rename_i hn
      simp only [lang, iha, ihb]
      have := (nullable_iff a).mp hn
      simp [this]
    · rename_i hn
      have : ¬ lang a [] := fun h => hn ((nullable_iff a).mpr h)
      simp only [lang, iha]
      simp [this]
  | alt a b iha ihb => intro s; simp [deriv, lang, iha, ihb]
  | star a iha =>
    intro s
    rw [lang_star_cons_iff]
    simp only [deriv, lang, iha]
  | plus a iha =>
    intro s
    rw [lang_plus_cons_iff]
    simp only [deriv, lang, iha]
  | opt a iha => intro s; simp [deriv, lang, iha]
  | grp n a iha => intro s; simp [deriv, lang, iha]

/-- The derivative matcher decides membership in the language. -/
theorem matches_iff_lang (r : Re) (s : Bytes) : r.matches s = true ↔ lang r s := by
  induction s generalizing r with
  | nil => simpa [Re.matches] using nullable_iff r
  | cons c s ih => simp only [Re.matches, ih, deriv_iff]

instance (r : Re) (s : Bytes) : Decidable (lang r s) :=
  decidable_of_iff _ (matches_iff_lang r s)

/-! ### Languages of the usual shapes -/

/-- Two expressions with the same language. -/
def Equiv (a b : Re) : Prop := ∀ s, lang a s ↔ lang b s

theorem Equiv.refl (a : Re) : Equiv a a := fun _ => Iff.rfl
theorem Equiv.symm {a b : Re} (h : Equiv a b) : Equiv b a := fun s => (h s).symm
theorem Equiv.trans {a b c : Re} (h₁ : Equiv a b) (h₂ : Equiv b c) : Equiv a c :=
  fun s => (h₁ s).trans (h₂ s)

theorem Equiv.cat {a a' b b' : Re} (ha : Equiv a a') (hb : Equiv b b') :
    Equiv (.cat a b) (.cat a' b') := by
  intro s; simp only [lang]
  constructor
  · rintro ⟨x, y, e, h1, h2⟩; exact ⟨x, y, e, (ha x).mp h1, (hb y).mp h2⟩
  · rintro ⟨x, y, e, h1, h2⟩; exact ⟨x, y, e, (ha x).mpr h1, (hb y).mpr h2⟩

theorem Equiv.alt {a a' b b' : Re} (ha : Equiv a a') (hb : Equiv b b') :
    Equiv (.alt a b) (.alt a' b') := by
  intro s; simp only [lang, ha s, hb s]

theorem Equiv.opt {a a' : Re} (ha : Equiv a a') : Equiv (.opt a) (.opt a') := by
  intro s; simp only [lang, ha s]

theorem Equiv.grp (n : Nat) (a : Re) : Equiv (.grp n a) a := fun _ => Iff.rfl

theorem Equiv.star {a a' : Re} (ha : Equiv a a') : Equiv (.star a) (.star a') := by
  intro s; simp only [lang]
  constructor
  · rintro ⟨parts, e, h⟩; exact ⟨parts, e, fun p hp => (ha p).mp (h p hp)⟩
  · rintro ⟨parts, e, h⟩; exact ⟨parts, e, fun p hp => (ha p).mpr (h p hp)⟩

theorem Equiv.plus {a a' : Re} (ha : Equiv a a') : Equiv (.plus a) (.plus a') := by
  intro s; simp only [lang]
  constructor
  · rintro ⟨parts, n, e, h⟩; exact ⟨parts, n, e, fun p hp => (ha p).mp (h p hp)⟩
  · rintro ⟨parts, n, e, h⟩; exact ⟨parts, n, e, fun p hp => (ha p).mpr (h p hp)⟩

/-- Concatenation is associative. -/
theorem Equiv.cat_assoc (a b c : Re) : Equiv (.cat a (.cat b c)) (.cat (.cat a b) c) := by
  intro s; simp only [lang]
  constructor
  · rintro ⟨x, _, rfl, ha, y, z, rfl, hb, hc⟩
    exact ⟨x ++ y, z, by simp, ⟨x, y, rfl, ha, hb⟩, hc⟩
  · rintro ⟨_, z, rfl, ⟨x, y, rfl, ha, hb⟩, hc⟩
    exact ⟨x, y ++ z, by simp, ha, y, z, rfl, hb, hc⟩

theorem lang_cat_intro {a b : Re} {x y : Bytes} (hx : lang a x) (hy : lang b y) :
    lang (.cat a b) (x ++ y) := ⟨x, y, rfl, hx, hy⟩

/-- One byte of a class. -/
theorem lang_cls_iff {rs : List (Nat × Nat)} {s : Bytes} :
    lang (.cls rs) s ↔ ∃ b, s = [b] ∧ inClass rs b = true := Iff.rfl

theorem lang_cls_cons_iff {rs : List (Nat × Nat)} {c : UInt8} {s : Bytes} :
    lang (.cls rs) (c :: s) ↔ s = [] ∧ inClass rs c = true := by
  simp only [lang, List.cons.injEq]
  constructor
  · rintro ⟨b, ⟨rfl, rfl⟩, h⟩; exact ⟨rfl, h⟩
  · rintro ⟨rfl, h⟩; exact ⟨c, ⟨rfl, rfl⟩, h⟩

theorem not_lang_cls_nil {rs : List (Nat × Nat)} : ¬ lang (.cls rs) [] := by
  simp [lang]

/-- Star of a byte class: every byte is in the class. -/
theorem lang_star_cls_iff {rs : List (Nat × Nat)} {s : Bytes} :
    lang (.star (.cls rs)) s ↔ ∀ b ∈ s, inClass rs b = true := by
  induction s with
  | nil => simp [lang_star_nil]
  | cons c s ih =>
    rw [lang_star_cons_iff]
    simp only [lang_cls_cons_iff, List.mem_cons, forall_eq_or_imp]
    constructor
    · rintro ⟨x, y, rfl, ⟨rfl, hc⟩, hy⟩
      exact ⟨hc, by simpa using ih.mp (by simpa using hy)⟩
    · rintro ⟨hc, hs⟩
      exact ⟨[], s, rfl, ⟨rfl, hc⟩, ih.mpr hs⟩

/-- Plus of a byte class: non-empty, every byte in the class. -/
theorem lang_plus_cls_iff {rs : List (Nat × Nat)} {s : Bytes} :
    lang (.plus (.cls rs)) s ↔ s ≠ [] ∧ ∀ b ∈ s, inClass rs b = true := by
  cases s with
  | nil =>
    simp only [ne_eq, not_true_eq_false, false_and, iff_false]
    intro h
    have := (nullable_iff (.plus (.cls rs))).mpr h
    simp [nullable] at this
  | cons c s =>
    rw [lang_plus_cons_iff]
    simp only [lang_cls_cons_iff, ne_eq, reduceCtorEq, not_false_eq_true, true_and, List.mem_cons,
      forall_eq_or_imp]
    constructor
    · rintro ⟨x, y, rfl, ⟨rfl, hc⟩, hy⟩
      exact ⟨hc, by simpa using lang_star_cls_iff.mp hy⟩
    · rintro ⟨hc, hs⟩
      exact ⟨[], s, rfl, ⟨rfl, hc⟩, lang_star_cls_iff.mpr hs⟩

/-- A class in front: the first byte is in the class, the rest in the tail's language. -/
theorem lang_cat_cls_iff {rs : List (Nat × Nat)} {b : Re} {s : Bytes} :
    lang (.cat (.cls rs) b) s ↔ ∃ c t, s = c :: t ∧ inClass rs c = true ∧ lang b t := by
  simp only [lang]
  constructor
  · rintro ⟨_, y, rfl, ⟨c, rfl, hc⟩, hy⟩; exact ⟨c, y, rfl, hc, hy⟩
  · rintro ⟨c, t, rfl, hc, ht⟩; exact ⟨[c], t, rfl, ⟨c, rfl, hc⟩, ht⟩

theorem lang_cat_cls_cons_iff {rs : List (Nat × Nat)} {b : Re} {c : UInt8} {t : Bytes} :
    lang (.cat (.cls rs) b) (c :: t) ↔ inClass rs c = true ∧ lang b t := by
  rw [lang_cat_cls_iff]
  constructor
  · rintro ⟨c', t', e, hc, ht⟩
    simp only [List.cons.injEq] at e
    obtain ⟨rfl, rfl⟩ := e
    exact ⟨hc, ht⟩
  · rintro ⟨hc, ht⟩; exact ⟨c, t, rfl, hc, ht⟩

/-- A class at the end. -/
theorem lang_cat_cls_right_iff {a : Re} {rs : List (Nat × Nat)} {s : Bytes} :
    lang (.cat a (.cls rs)) s ↔ ∃ x c, s = x ++ [c] ∧ lang a x ∧ inClass rs c = true := by
  simp only [lang]
  constructor
  · rintro ⟨x, _, rfl, hx, c, rfl, hc⟩; exact ⟨x, c, rfl, hx, hc⟩
  · rintro ⟨x, c, rfl, hx, hc⟩; exact ⟨x, [c], rfl, hx, c, rfl, hc⟩

/-- Membership in a single-byte class. -/
theorem inClass_single {n : Nat} {b : UInt8} : inClass [(n, n)] b = true ↔ b.toNat = n := by
  simp only [inClass, List.any_cons, List.any_nil, Bool.or_false, Bool.and_eq_true,
    decide_eq_true_eq]
  omega

theorem lang_opt_iff {a : Re} {s : Bytes} : lang (.opt a) s ↔ s = [] ∨ lang a s := Iff.rfl

theorem lang_alt_iff {a b : Re} {s : Bytes} : lang (.alt a b) s ↔ lang a s ∨ lang b s := Iff.rfl

theorem lang_cat_iff {a b : Re} {s : Bytes} :
    lang (.cat a b) s ↔ ∃ x y, s = x ++ y ∧ lang a x ∧ lang b y := Iff.rfl

theorem lang_grp_iff {n : Nat} {a : Re} {s : Bytes} : lang (.grp n a) s ↔ lang a s := Iff.rfl

/-- `plus a` is `a` followed by `star a`. -/
theorem Equiv.plus_unfold (a : Re) : Equiv (.plus a) (.cat a (.star a)) :=
  fun _ => lang_plus_iff

/-! ### Bytes an expression never uses -/

/-- No byte class of the expression contains `c`. -/
def avoids (c : UInt8) : Re → Bool
  | .eps => true
  | .cls rs => !inClass rs c
  | .cat a b => avoids c a && avoids c b
  | .alt a b => avoids c a && avoids c b
  | .star a => avoids c a
  | .plus a => avoids c a
  | .opt a => avoids c a
  | .grp _ a => avoids c a

theorem not_mem_of_avoids {c : UInt8} {r : Re} (h : avoids c r = true) :
    ∀ {s : Bytes}, lang r s → c ∉ s := by
  induction r with
  | eps => intro s hs; simp only [lang] at hs; subst hs; simp
  | cls rs =>
    rintro s ⟨b, rfl, hb⟩
    simp only [avoids, Bool.not_eq_true'] at h
    simp only [List.mem_singleton]
    rintro rfl
    rw [h] at hb; cases hb
  | cat a b iha ihb =>
    simp only [avoids, Bool.and_eq_true] at h
    rintro s ⟨x, y, rfl, hx, hy⟩
    simp only [List.mem_append, not_or]
    exact ⟨iha h.1 hx, ihb h.2 hy⟩
  | alt a b iha ihb =>
    simp only [avoids, Bool.and_eq_true] at h
    rintro s (hs | hs)
    · exact iha h.1 hs
    · exact ihb h.2 hs
  | star a iha =>
    rintro s ⟨parts, rfl, hp⟩
    simp only [List.mem_flatten, not_exists, not_and]
    intro p hpm
    exact iha h (hp p hpm)
  | plus a iha =>
    rintro s ⟨parts, _, rfl, hp⟩
    simp only [List.mem_flatten, not_exists, not_and]
    intro p hpm
    exact iha h (hp p hpm)
  | opt a iha =>
    rintro s (rfl | hs)
    · simp
    · exact iha h hs
  | grp n a iha => intro s hs; exact iha h hs

/-! ### Bytes no member of the language starts with -/

/-- No member of the language starts with `c` (a sufficient syntactic check). -/
def noStart (c : UInt8) : Re → Bool
  | .eps => true
  | .cls rs => !inClass rs c
  | .cat a b => noStart c a && (!nullable a || noStart c b)
  | .alt a b => noStart c a && noStart c b
  | .star a => noStart c a
  | .plus a => noStart c a
  | .opt a => noStart c a
  | .grp _ a => noStart c a

theorem not_lang_cons_of_noStart {c : UInt8} {r : Re} (h : noStart c r = true) :
    ∀ {s : Bytes}, ¬ lang r (c :: s) := by
  induction r with
  | eps => intro s hs; simp [lang] at hs
  | cls rs =>
    intro s hs
    simp only [noStart, Bool.not_eq_true'] at h
    have := (lang_cls_cons_iff.mp hs).2
    rw [h] at this; cases this
  | cat a b iha ihb =>
    simp only [noStart, Bool.and_eq_true, Bool.or_eq_true, Bool.not_eq_true'] at h
    intro s hs
    rcases lang_cat_cons_iff.mp hs with ⟨x, y, _, hx, _⟩ | ⟨hn, hb⟩
    · exact iha h.1 hx
    · rcases h.2 with h2 | h2
      · have := (nullable_iff a).mpr hn
        rw [h2] at this; cases this
      · exact ihb h2 hb
  | alt a b iha ihb =>
    simp only [noStart, Bool.and_eq_true] at h
    rintro s (hs | hs)
    · exact iha h.1 hs
    · exact ihb h.2 hs
  | star a iha =>
    intro s hs
    obtain ⟨x, y, _, hx, _⟩ := lang_star_cons_iff.mp hs
    exact iha h hx
  | plus a iha =>
    intro s hs
    obtain ⟨x, y, _, hx, _⟩ := lang_plus_cons_iff.mp hs
    exact iha h hx
  | opt a iha =>
    rintro s (hs | hs)
    · cases hs
    · exact iha h hs
  | grp n a iha => intro s hs; exact iha h hs

theorem lang_cat_alt_left {a b c : Re} {s : Bytes} :
    lang (.cat (.alt a b) c) s ↔ lang (.cat a c) s ∨ lang (.cat b c) s := by
  simp only [lang]
  constructor
  · rintro ⟨x, y, e, h | h, hc⟩
    · exact Or.inl ⟨x, y, e, h, hc⟩
    · exact Or.inr ⟨x, y, e, h, hc⟩
  · rintro (⟨x, y, e, h, hc⟩ | ⟨x, y, e, h, hc⟩)
    · exact ⟨x, y, e, Or.inl h, hc⟩
    · exact ⟨x, y, e, Or.inr h, hc⟩

theorem lang_cat_opt_left {a b : Re} {s : Bytes} :
    lang (.cat (.opt a) b) s ↔ lang b s ∨ lang (.cat a b) s := by
  simp only [lang]
  constructor
  · rintro ⟨x, y, e, rfl | h, hb⟩
    · left; simpa [e] using hb
    · exact Or.inr ⟨x, y, e, h, hb⟩
  · rintro (hb | ⟨x, y, e, h, hb⟩)
    · exact ⟨[], s, rfl, Or.inl rfl, hb⟩
    · exact ⟨x, y, e, Or.inr h, hb⟩

end OciModel.Regex
