/-
Lemmas about the JSON reader (`Json.lean`): skipping, strings, numbers, the canonical printer.
-/
import OciModel.Json
set_option linter.unusedSimpArgs false
namespace OciModel.Json

/-! ## Skip counters -/

theorem lexGo_drop (n : Nat) (bs : Bytes) : lexGo n bs = lexGo 0 (bs.drop n) := by
  induction n generalizing bs with
  | zero => simp
  | succ n ih =>
    cases bs with
    | nil => simp [lexGo]
    | cons c bs => simp [lexGo, ih bs]

theorem lexGo_skip (pre r : Bytes) : lexGo pre.length (pre ++ r) = lexGo 0 r := by
  rw [lexGo_drop]; simp

theorem unqGo_drop (n : Nat) (bs : Bytes) : unqGo n bs = unqGo 0 (bs.drop n) := by
  induction n generalizing bs with
  | zero => simp
  | succ n ih =>
    cases bs with
    | nil => simp [unqGo]
    | cons c bs => simp [unqGo, ih bs]

theorem validGo_drop (n : Nat) (bs : Bytes) : validGo n bs = validGo 0 (bs.drop n) := by
  induction n generalizing bs with
  | zero => simp
  | succ n ih =>
    cases bs with
    | nil => simp [validGo]
    | cons c bs => simp [validGo, ih bs]

/-! ## Hex digits -/

theorem hexDigit_toNat : ∀ n, n < 16 → (hexDigit n).toNat = if n < 10 then 48 + n else 87 + n := by decide

theorem hexVal_hexDigit : ∀ n, n < 16 → hexVal (hexDigit n) = some n := by decide

theorem hexVal_zero : hexVal 0x30 = some 0 := by decide

/-! ## UTF-8 -/

theorem isCont_ge {c : UInt8} (h : isCont c = true) : 0x80 ≤ c.toNat := by
  simp [isCont] at h; omega

private theorem ite_len {b : Bool} {m k : Nat} (h : (if b = true then m + 2 else 0) = k + 2) : b = true ∧ k = m := by
  cases b <;> simp at h ⊢ <;> omega

theorem seqLen_spec (c : UInt8) (bs : Bytes) (k : Nat) (h : seqLen c bs = k + 2) :
    ∃ pre t, bs = pre ++ t ∧ pre.length = k + 1 ∧ (∀ x ∈ pre, 0x80 ≤ x.toNat) ∧ 0x80 ≤ c.toNat ∧
      ∀ t', seqLen c (pre ++ t') = k + 2 := by
  unfold seqLen at h
  simp only at h
  split at h
  · omega
  split at h
  · omega
  split at h
  · -- two bytes
    split at h
    · rename_i c1 t
      obtain ⟨hc, hk⟩ := ite_len (m := 0) h
      subst hk
      refine ⟨[c1], t, rfl, rfl, ?_, by omega, ?_⟩
      · intro x hx; simp at hx; subst hx; exact isCont_ge hc
      · intro t'; clear h; unfold seqLen; simp [*]
    · omega
  split at h
  · split at h
    · rename_i c1 c2 t
      obtain ⟨hc, hk⟩ := ite_len (m := 1) h
      subst hk
      have hc' := hc
      simp only [Bool.and_eq_true, decide_eq_true_eq] at hc'
      refine ⟨[c1, c2], t, rfl, rfl, ?_, by omega, ?_⟩
      · intro x hx
        simp at hx
        rcases hx with rfl | rfl
        · have := hc'.1.1; split at this <;> omega
        · exact isCont_ge hc'.2
      · intro t'; clear h; unfold seqLen; simp [*]
    · omega
  split at h
  · split at h
    · rename_i c1 c2 c3 t
      obtain ⟨hc, hk⟩ := ite_len (m := 2) h
      subst hk
      have hc' := hc
      simp only [Bool.and_eq_true, decide_eq_true_eq] at hc'
      refine ⟨[c1, c2, c3], t, rfl, rfl, ?_, by omega, ?_⟩
      · intro x hx
        simp at hx
        rcases hx with rfl | rfl | rfl
        · have := hc'.1.1.1; split at this <;> omega
        · exact isCont_ge hc'.1.2
        · exact isCont_ge hc'.2
      · intro t'; clear h; unfold seqLen; simp [*]
    · omega
  · omega
/-! ## Strings: quoting and unquoting -/

theorem escByte_plain {c : UInt8} (h : 0x80 ≤ c.toNat) : escByte c = [c] := by
  unfold escByte
  rw [if_neg (by omega), if_neg (by omega), if_neg (by omega)]

theorem escape_plain_prefix (pre t : Bytes) (h : ∀ x ∈ pre, 0x80 ≤ x.toNat) :
    escape (pre ++ t) = pre ++ escape t := by
  induction pre with
  | nil => rfl
  | cons c pre ih =>
    have hc := h c (by simp)
    simp [escape, escByte_plain hc, ih (fun x hx => h x (by simp [hx]))]

theorem seqLen_ascii {c : UInt8} (h : c.toNat < 0x80) (bs : Bytes) : seqLen c bs = 1 := by
  unfold seqLen; simp [h]

theorem escAt_u00 (c : UInt8) (hc : c.toNat < 0x20) (r : Bytes) :
    escAt (0x75 :: 0x30 :: 0x30 :: hexDigit (c.toNat / 16) :: hexDigit (c.toNat % 16) :: r) = ([c], 5) := by
  have h1 : hexVal (hexDigit (c.toNat / 16)) = some (c.toNat / 16) := hexVal_hexDigit _ (by omega)
  have h2 : hexVal (hexDigit (c.toNat % 16)) = some (c.toNat % 16) := hexVal_hexDigit _ (by omega)
  have h4 : hex4 (0x30 :: 0x30 :: hexDigit (c.toNat / 16) :: hexDigit (c.toNat % 16) :: r) = some c.toNat := by
    simp only [hex4, hexVal_zero, h1, h2]
    congr 1; omega
  unfold escAt
  simp only [h4]
  have : (0x75 : UInt8).toNat = 0x75 := by decide
  simp [this]
  have hne : ¬ (0xD800 ≤ c.toNat ∧ c.toNat < 0xE000) := by omega
  simp [hne, encodeRune]
  intro h; omega


theorem escAt_simple (e : UInt8) (r : Bytes) (h : e.toNat ≠ 0x75) (hs : isSimpleEsc e = true) :
    escAt (e :: r) = ([simpleEsc e], 1) := by
  unfold escAt; simp [h, hs]

theorem unq_escape : ∀ (s : Bytes) (n : Nat), (∀ x ∈ s.take n, 0x80 ≤ x.toNat) → n ≤ s.length →
    validGo n s = true → unqGo n (escape s) = s.drop n := by
  intro s
  induction s with
  | nil => intro n _ hn _; simp at hn; subst hn; simp [escape, unqGo]
  | cons c s ih =>
    intro n hpre hn hv
    cases n with
    | succ m =>
      have hc : 0x80 ≤ c.toNat := hpre c (by simp)
      simp only [escape, escByte_plain hc, List.cons_append, List.nil_append, unqGo, List.drop_succ_cons]
      apply ih m
      · intro x hx; exact hpre x (by simp [hx])
      · simpa using hn
      · simpa [validGo] using hv
    | zero =>
      simp only [List.drop_zero]
      by_cases h80 : c.toNat < 0x80
      · -- ASCII
        have hv' : validGo 0 s = true := by
          simp only [validGo, seqLen_ascii h80] at hv; exact hv
        have ih0 := ih 0 (by simp) (by simp) hv'
        simp only [List.drop_zero] at ih0
        by_cases hq : c.toNat = 0x22
        · have : escByte c = [0x5C, 0x22] := by simp [escByte, hq]
          simp only [escape, this, List.cons_append, List.nil_append]
          rw [unqGo]
          simp only [show (0x5C : UInt8).toNat = 0x5C from by decide, if_true]
          rw [escAt_simple _ _ (by decide) (by decide)]
          simp only [unqGo, ih0, simpleEsc]
          have : c = 0x22 := UInt8.toNat_inj.mp (by simpa using hq)
          subst this; rfl
        by_cases hb : c.toNat = 0x5C
        · have : escByte c = [0x5C, 0x5C] := by simp [escByte, hb]
          simp only [escape, this, List.cons_append, List.nil_append]
          rw [unqGo]
          simp only [show (0x5C : UInt8).toNat = 0x5C from by decide, if_true]
          rw [escAt_simple _ _ (by decide) (by decide)]
          simp only [unqGo, ih0, simpleEsc]
          have : c = 0x5C := UInt8.toNat_inj.mp (by simpa using hb)
          subst this; rfl
        by_cases hctl : c.toNat < 0x20
        · have : escByte c = [0x5C, 0x75, 0x30, 0x30, hexDigit (c.toNat / 16), hexDigit (c.toNat % 16)] := by
            simp [escByte, hq, hb, hctl]
          simp only [escape, this, List.cons_append, List.nil_append]
          rw [unqGo]
          simp only [show (0x5C : UInt8).toNat = 0x5C from by decide, if_true]
          rw [escAt_u00 c hctl]
          simp only [unqGo, ih0]
          rfl
        · have : escByte c = [c] := by simp [escByte, hq, hb, hctl]
          simp only [escape, this, List.cons_append, List.nil_append]
          rw [unqGo]
          simp only [hb, if_false, seqLen_ascii h80, List.take_zero, ih0]
          rfl
      · -- a multi-byte sequence
        have h80' : 0x80 ≤ c.toNat := by omega
        simp only [escape, escByte_plain h80', List.cons_append, List.nil_append]
        rw [unqGo]
        have hb : ¬ c.toNat = 0x5C := by omega
        simp only [hb, if_false]
        rw [validGo] at hv
        match hlen : seqLen c s with
        | 0 => simp [hlen] at hv
        | 1 =>
          exfalso
          unfold seqLen at hlen
          simp only at hlen
          split at hlen
          · omega
          all_goals (repeat' split at hlen) <;> simp_all
        | k + 2 =>
          simp only [hlen] at hv
          obtain ⟨pre, t, hs, hlenp, hplain, _, hall⟩ := seqLen_spec c s k hlen
          subst hs
          rw [escape_plain_prefix pre t hplain, hall (escape t)]
          simp only
          have hi := ih (k + 1) (by simpa [← hlenp] using hplain) (by simp [hlenp]) hv
          rw [escape_plain_prefix pre t hplain] at hi
          rw [hi]
          simp [← hlenp]

theorem unquote_escape (s : Bytes) (h : ValidUtf8 s) : unquote (escape s) = s := by
  have := unq_escape s 0 (by simp) (by simp) h
  simpa [unquote] using this

theorem spanGo_skip (pre r : Bytes) :
    spanGo pre.length (pre ++ r) = (spanGo 0 r).map (· + pre.length) := by
  induction pre with
  | nil => simp
  | cons c pre ih =>
    simp only [List.length_cons, List.cons_append, spanGo, ih, Option.map_map]
    congr 1

theorem hex4_u00 (c : UInt8) (hc : c.toNat < 0x20) (r : Bytes) :
    hex4 (0x30 :: 0x30 :: hexDigit (c.toNat / 16) :: hexDigit (c.toNat % 16) :: r) = some c.toNat := by
  have h1 : hexVal (hexDigit (c.toNat / 16)) = some (c.toNat / 16) := hexVal_hexDigit _ (by omega)
  have h2 : hexVal (hexDigit (c.toNat % 16)) = some (c.toNat % 16) := hexVal_hexDigit _ (by omega)
  simp only [hex4, hexVal_zero, h1, h2]
  congr 1; omega

theorem spanStr_escape (s r : Bytes) : spanGo 0 (escape s ++ 0x22 :: r) = some (escape s).length := by
  induction s with
  | nil => simp [escape, spanGo]
  | cons c s ih =>
    by_cases hq : c.toNat = 0x22
    · have : escByte c = [0x5C, 0x22] := by simp [escByte, hq]
      simp only [escape, this, List.cons_append, List.nil_append]
      rw [spanGo]
      simp [escLen, isSimpleEsc, spanGo, ih]
    by_cases hb : c.toNat = 0x5C
    · have : escByte c = [0x5C, 0x5C] := by simp [escByte, hb]
      simp only [escape, this, List.cons_append, List.nil_append]
      rw [spanGo]
      simp [escLen, isSimpleEsc, spanGo, ih]
    by_cases hctl : c.toNat < 0x20
    · have : escByte c = [0x5C, 0x75, 0x30, 0x30, hexDigit (c.toNat / 16), hexDigit (c.toNat % 16)] := by
        simp [escByte, hq, hb, hctl]
      simp only [escape, this, List.cons_append, List.nil_append]
      rw [spanGo]
      simp [escLen, hex4_u00 c hctl, spanGo, ih]
    · have : escByte c = [c] := by simp [escByte, hq, hb, hctl]
      simp only [escape, this, List.cons_append, List.nil_append]
      rw [spanGo]
      simp [ih, hq, hb, hctl]

theorem lexGo_str (s r : Bytes) (h : ValidUtf8 s) :
    lexGo 0 (printStr s ++ r) = consTok (.str s) (lexGo 0 r) := by
  unfold printStr
  simp only [List.cons_append, List.append_assoc, List.nil_append]
  rw [lexGo]
  simp only [show isWs 0x22 = false from by decide, show (0x22 : UInt8).toNat = 0x22 from by decide]
  simp only [spanStr, spanStr_escape, List.take_left', unquote_escape s h]
  have := lexGo_skip (escape s ++ [0x22]) r
  simp only [List.length_append, List.length_cons, List.length_nil, List.append_assoc, List.cons_append, List.nil_append] at this
  simp [this]

/-! ## Numbers -/

theorem numStep_noCont {c : UInt8} (h : isNumCont c = false) (st : NumSt) : numStep st c = none := by
  have hd : ¬ (0x30 ≤ c.toNat ∧ c.toNat ≤ 0x39) := by
    intro hd; simp [isNumCont, isDigit, hd.1, hd.2] at h
  have h1 : ¬ c.toNat = 0x2E := by intro e; simp [isNumCont, e] at h
  have h2 : ¬ c.toNat = 0x65 := by intro e; simp [isNumCont, e] at h
  have h3 : ¬ c.toNat = 0x45 := by intro e; simp [isNumCont, e] at h
  have h4 : ¬ c.toNat = 0x2B := by intro e; simp [isNumCont, e] at h
  have h5 : ¬ c.toNat = 0x2D := by intro e; simp [isNumCont, e] at h
  have h6 : ¬ c.toNat = 0x30 := by omega
  cases st <;> simp [numStep, hd, h1, h2, h3, h4, h5, h6]

theorem numGo_append {r : Bytes} (hr : NoCont r) (st : NumSt) (a : Bytes) :
    numGo st (a ++ r) = numGo st a := by
  induction a generalizing st with
  | nil =>
    cases r with
    | nil => rfl
    | cons c r =>
      have := numStep_noCont (hr c rfl) st
      simp [numGo, this]
  | cons c a ih => simp [numGo, ih]

theorem numGo_append_inner (r : Bytes) (st : NumSt) (a : Bytes) (k : Nat)
    (h : numGo st a = some k) (hk : k < a.length) : numGo st (a ++ r) = some k := by
  induction a generalizing st k with
  | nil => simp at hk
  | cons c a ih =>
    simp only [numGo, List.cons_append] at h ⊢
    cases hs : numStep st c with
    | none => simpa [hs] using h
    | some st' =>
      simp only [hs] at h ⊢
      cases hg : numGo st' a with
      | none => simp [hg] at h
      | some k' =>
        simp [hg] at h
        subst h
        simp at hk
        simp [ih st' k' hg hk]

theorem numGo_le (st : NumSt) (a : Bytes) (k : Nat) (h : numGo st a = some k) : k ≤ a.length := by
  induction a generalizing st k with
  | nil => simp [numGo] at h; obtain ⟨_, rfl⟩ := h; simp
  | cons c a ih =>
    simp only [numGo] at h
    cases hs : numStep st c with
    | none => simp [hs] at h; obtain ⟨_, rfl⟩ := h; simp
    | some st' =>
      simp only [hs] at h
      cases hg : numGo st' a with
      | none => simp [hg] at h
      | some k' =>
        simp [hg] at h
        have := ih st' k' hg
        simp; omega

theorem numStart {c : UInt8} {st : NumSt} (h : numStep .begin c = some st) :
    c.toNat = 0x2D ∨ (0x30 ≤ c.toNat ∧ c.toNat ≤ 0x39) := by
  simp only [numStep] at h
  split at h
  · left; assumption
  · split at h
    · right; omega
    · split at h
      · right; assumption
      · simp at h

theorem lexGo_num (t r : Bytes) (h : NumOK t) (hr : NoCont r) :
    lexGo 0 (t ++ r) = consTok (.num t) (lexGo 0 r) := by
  unfold NumOK spanNum at h
  cases t with
  | nil => simp [numGo, NumSt.accepting] at h
  | cons c t =>
    have hsp : spanNum (c :: (t ++ r)) = some (t.length + 1) := by
      have := numGo_append hr .begin (c :: t)
      simpa [spanNum, h] using this
    have hstart : c.toNat = 0x2D ∨ (0x30 ≤ c.toNat ∧ c.toNat ≤ 0x39) := by
      simp only [numGo] at h
      cases hs : numStep .begin c with
      | none => simp [hs, NumSt.accepting] at h
      | some st => exact numStart hs
    simp only [List.cons_append]
    rw [lexGo]
    have hws : isWs c = false := by simp [isWs]; omega
    have e1 : ¬ c.toNat = 0x7B := by omega
    have e2 : ¬ c.toNat = 0x7D := by omega
    have e3 : ¬ c.toNat = 0x5B := by omega
    have e4 : ¬ c.toNat = 0x5D := by omega
    have e5 : ¬ c.toNat = 0x3A := by omega
    have e6 : ¬ c.toNat = 0x2C := by omega
    have e7 : ¬ c.toNat = 0x22 := by omega
    have e8 : ¬ c.toNat = 0x74 := by omega
    have e9 : ¬ c.toNat = 0x66 := by omega
    have e10 : ¬ c.toNat = 0x6E := by omega
    simp only [hws, hsp, e1, e2, e3, e4, e5, e6, e7, e8, e9, e10, if_false, Bool.false_eq_true]
    simp [lexGo_skip]

/-! ## The lexer on canonical text -/

theorem consTok_map (t : Tok) (ts : List Tok) (o : Option (List Tok)) :
    consTok t (o.map (ts ++ ·)) = o.map ((t :: ts) ++ ·) := by
  cases o <;> simp [consTok]

theorem lexGo_punct (c : UInt8) (tk : Tok) (r : Bytes)
    (h : (c.toNat = 0x7B ∧ tk = .lbrace) ∨ (c.toNat = 0x7D ∧ tk = .rbrace) ∨ (c.toNat = 0x5B ∧ tk = .lbrack) ∨
      (c.toNat = 0x5D ∧ tk = .rbrack) ∨ (c.toNat = 0x3A ∧ tk = .colon) ∨ (c.toNat = 0x2C ∧ tk = .comma)) :
    lexGo 0 (c :: r) = consTok tk (lexGo 0 r) := by
  rw [lexGo]
  rcases h with ⟨h, rfl⟩ | ⟨h, rfl⟩ | ⟨h, rfl⟩ | ⟨h, rfl⟩ | ⟨h, rfl⟩ | ⟨h, rfl⟩ <;> simp [isWs, h]

theorem lexGo_null (r : Bytes) : lexGo 0 (0x6E :: 0x75 :: 0x6C :: 0x6C :: r) = consTok .null (lexGo 0 r) := by
  rw [lexGo]; simp [isWs, litUll, lexGo]
theorem lexGo_true (r : Bytes) : lexGo 0 (0x74 :: 0x72 :: 0x75 :: 0x65 :: r) = consTok .tru (lexGo 0 r) := by
  rw [lexGo]; simp [isWs, litRue, lexGo]
theorem lexGo_false (r : Bytes) : lexGo 0 (0x66 :: 0x61 :: 0x6C :: 0x73 :: 0x65 :: r) = consTok .fls (lexGo 0 r) := by
  rw [lexGo]; simp [isWs, litAlse, lexGo]

theorem noCont_cons {c : UInt8} (h : isNumCont c = false) (r : Bytes) : NoCont (c :: r) := by
  intro x hx; simp at hx; subst hx; exact h

mutual
theorem lex_print : ∀ (v : JVal) (r : Bytes), WF v → NoCont r →
    lexGo 0 (print v ++ r) = (lexGo 0 r).map (toks v ++ ·)
  | .null, r, _, _ => by simp [print, toks, lexGo_null, consTok]
  | .bool true, r, _, _ => by simp [print, toks, lexGo_true, consTok]
  | .bool false, r, _, _ => by simp [print, toks, lexGo_false, consTok]
  | .num t, r, h, hr => by simp [print, toks, lexGo_num t r h hr, consTok]
  | .str s, r, h, _ => by simp [print, toks, lexGo_str s r h, consTok]
  | .arr [], r, _, _ => by
    simp only [print, toks, List.cons_append, List.nil_append]
    rw [lexGo_punct 0x5B .lbrack _ (by decide), lexGo_punct 0x5D .rbrack _ (by decide)]
    cases lexGo 0 r <;> simp [consTok]
  | .arr (x :: xs), r, h, hr => by
    simp only [print, toks, List.cons_append, List.append_assoc]
    rw [lexGo_punct 0x5B .lbrack _ (by decide)]
    have hx : WF x := h.1
    have hxs : WFL xs := h.2
    rw [lex_print x (printTail xs ++ r) hx (by cases xs <;> exact noCont_cons (by decide) _)]
    rw [lex_printTail xs r hxs hr]
    cases lexGo 0 r <;> simp [consTok]
  | .obj [], r, _, _ => by
    simp only [print, toks, List.cons_append, List.nil_append]
    rw [lexGo_punct 0x7B .lbrace _ (by decide), lexGo_punct 0x7D .rbrace _ (by decide)]
    cases lexGo 0 r <;> simp [consTok]
  | .obj ((k, x) :: kvs), r, h, hr => by
    simp only [print, toks, List.cons_append, List.append_assoc]
    rw [lexGo_punct 0x7B .lbrace _ (by decide), lexGo_str k _ h.1, lexGo_punct 0x3A .colon _ (by decide)]
    rw [lex_print x (printMTail kvs ++ r) h.2.1 (by cases kvs <;> exact noCont_cons (by decide) _)]
    rw [lex_printMTail kvs r h.2.2 hr]
    cases lexGo 0 r <;> simp [consTok]
theorem lex_printTail : ∀ (xs : List JVal) (r : Bytes), WFL xs → NoCont r →
    lexGo 0 (printTail xs ++ r) = (lexGo 0 r).map (toksTail xs ++ ·)
  | [], r, _, _ => by
    simp only [printTail, toksTail, List.cons_append, List.nil_append]
    rw [lexGo_punct 0x5D .rbrack _ (by decide)]
    cases lexGo 0 r <;> simp [consTok]
  | x :: xs, r, h, hr => by
    simp only [printTail, toksTail, List.cons_append, List.append_assoc]
    rw [lexGo_punct 0x2C .comma _ (by decide)]
    rw [lex_print x (printTail xs ++ r) h.1 (by cases xs <;> exact noCont_cons (by decide) _)]
    rw [lex_printTail xs r h.2 hr]
    cases lexGo 0 r <;> simp [consTok]
theorem lex_printMTail : ∀ (kvs : List (Bytes × JVal)) (r : Bytes), WFM kvs → NoCont r →
    lexGo 0 (printMTail kvs ++ r) = (lexGo 0 r).map (toksMTail kvs ++ ·)
  | [], r, _, _ => by
    simp only [printMTail, toksMTail, List.cons_append, List.nil_append]
    rw [lexGo_punct 0x7D .rbrace _ (by decide)]
    cases lexGo 0 r <;> simp [consTok]
  | (k, x) :: kvs, r, h, hr => by
    simp only [printMTail, toksMTail, List.cons_append, List.append_assoc]
    rw [lexGo_punct 0x2C .comma _ (by decide), lexGo_str k _ h.1, lexGo_punct 0x3A .colon _ (by decide)]
    rw [lex_print x (printMTail kvs ++ r) h.2.1 (by cases kvs <;> exact noCont_cons (by decide) _)]
    rw [lex_printMTail kvs r h.2.2 hr]
    cases lexGo 0 r <;> simp [consTok]
end

/-! ## The parser on canonical tokens -/

theorem prun_append (st : PState) (a b : List Tok) : prun st (a ++ b) = prun (prun st a) b := by
  simp [prun, List.foldl_append]

theorem prun_cons (st : PState) (t : Tok) (ts : List Tok) : prun st (t :: ts) = prun (pstep st t) ts := rfl

theorem prun_nil (st : PState) : prun st [] = st := rfl

/-- Modes in which a value may start. -/
def Mode.startsValue : Mode → Bool
  | .val | .valOrClose => true
  | _ => false

theorem pstep_scalar (m : Mode) (hm : m.startsValue = true) (S : List Frame) (t : Tok) (v : JVal)
    (h : startValue t S = complete v S) (hnb : t ≠ .rbrack) : pstep ⟨m, S⟩ t = complete v S := by
  cases m <;> simp [Mode.startsValue] at hm
  · simp [pstep, pstepM, h]
  · simp [pstep, pstepM, h, hnb]

mutual
theorem prun_toks : ∀ (v : JVal) (m : Mode) (S : List Frame) (r : List Tok), m.startsValue = true →
    S.length + depth v ≤ maxDepth → prun ⟨m, S⟩ (toks v ++ r) = prun (complete v S) r
  | .null, m, S, r, hm, _ => by
    simp only [toks, List.cons_append, List.nil_append, prun_cons]
    rw [pstep_scalar m hm S _ .null rfl (by simp)]
  | .bool true, m, S, r, hm, _ => by
    simp only [toks, List.cons_append, List.nil_append, prun_cons]
    rw [pstep_scalar m hm S _ (.bool true) rfl (by simp)]
  | .bool false, m, S, r, hm, _ => by
    simp only [toks, List.cons_append, List.nil_append, prun_cons]
    rw [pstep_scalar m hm S _ (.bool false) rfl (by simp)]
  | .num t, m, S, r, hm, _ => by
    simp only [toks, List.cons_append, List.nil_append, prun_cons]
    rw [pstep_scalar m hm S _ (.num t) rfl (by simp)]
  | .str s, m, S, r, hm, _ => by
    simp only [toks, List.cons_append, List.nil_append, prun_cons]
    rw [pstep_scalar m hm S _ (.str s) rfl (by simp)]
  | .arr [], m, S, r, hm, hd => by
    have hS : S.length < maxDepth := by simp [depth, depthL] at hd; omega
    have h1 : pstep ⟨m, S⟩ .lbrack = ⟨.valOrClose, .arr [] :: S⟩ := by
      cases m <;> simp [Mode.startsValue] at hm <;> simp [pstep, pstepM, startValue, hS]
    simp only [toks, List.cons_append, List.nil_append, prun_cons, h1]
    simp [pstep, pstepM, sepStep, closeArr]
  | .arr (x :: xs), m, S, r, hm, hd => by
    have hd' : S.length + 1 + max (depth x) (depthL xs) ≤ maxDepth := by simp [depth, depthL] at hd; omega
    have hS : S.length < maxDepth := by omega
    have h1 : pstep ⟨m, S⟩ .lbrack = ⟨.valOrClose, .arr [] :: S⟩ := by
      cases m <;> simp [Mode.startsValue] at hm <;> simp [pstep, pstepM, startValue, hS]
    simp only [toks, List.cons_append, List.append_assoc, prun_cons, h1]
    rw [prun_toks x .valOrClose (.arr [] :: S) _ rfl (by simp; omega)]
    rw [show complete x (Frame.arr [] :: S) = ⟨.sep, .arr [x] :: S⟩ from rfl]
    rw [prun_toksTail xs [x] S r (by omega)]
    simp
  | .obj [], m, S, r, hm, hd => by
    have hS : S.length < maxDepth := by simp [depth, depthM] at hd; omega
    have h1 : pstep ⟨m, S⟩ .lbrace = ⟨.keyOrClose, .obj [] :: S⟩ := by
      cases m <;> simp [Mode.startsValue] at hm <;> simp [pstep, pstepM, startValue, hS]
    simp only [toks, List.cons_append, List.nil_append, prun_cons, h1]
    simp [pstep, pstepM, sepStep, closeObj]
  | .obj ((k, x) :: kvs), m, S, r, hm, hd => by
    have hd' : S.length + 1 + max (depth x) (depthM kvs) ≤ maxDepth := by simp [depth, depthM] at hd; omega
    have hS : S.length < maxDepth := by omega
    have h1 : pstep ⟨m, S⟩ .lbrace = ⟨.keyOrClose, .obj [] :: S⟩ := by
      cases m <;> simp [Mode.startsValue] at hm <;> simp [pstep, pstepM, startValue, hS]
    simp only [toks, List.cons_append, List.append_assoc, prun_cons, h1]
    have h2 : pstep ⟨.keyOrClose, .obj [] :: S⟩ (.str k) = ⟨.colon, .key [] k :: S⟩ := by simp [pstep, pstepM, startKey]
    have h3 : pstep ⟨.colon, .key [] k :: S⟩ .colon = ⟨.val, .key [] k :: S⟩ := by simp [pstep, pstepM, sepStep]
    rw [h2, h3, prun_toks x .val (.key [] k :: S) _ rfl (by simp; omega)]
    rw [show complete x (Frame.key [] k :: S) = ⟨.sep, .obj [(k, x)] :: S⟩ from rfl]
    rw [prun_toksMTail kvs [(k, x)] S r (by omega)]
    simp
theorem prun_toksTail : ∀ (xs : List JVal) (acc : List JVal) (S : List Frame) (r : List Tok),
    S.length + 1 + depthL xs ≤ maxDepth →
    prun ⟨.sep, .arr acc :: S⟩ (toksTail xs ++ r) = prun (complete (.arr (acc.reverse ++ xs)) S) r
  | [], acc, S, r, _ => by
    simp only [toksTail, List.cons_append, List.nil_append, prun_cons]
    simp [pstep, pstepM, sepStep, closeArr]
  | x :: xs, acc, S, r, hd => by
    have hd' : S.length + 1 + max (depth x) (depthL xs) ≤ maxDepth := by simpa [depthL] using hd
    simp only [toksTail, List.cons_append, List.append_assoc, prun_cons]
    have h1 : pstep ⟨.sep, .arr acc :: S⟩ .comma = ⟨.val, .arr acc :: S⟩ := by simp [pstep, pstepM, sepStep]
    rw [h1, prun_toks x .val (.arr acc :: S) _ rfl (by simp; omega)]
    rw [show complete x (Frame.arr acc :: S) = ⟨.sep, .arr (x :: acc) :: S⟩ from rfl]
    rw [prun_toksTail xs (x :: acc) S r (by omega)]
    simp
theorem prun_toksMTail : ∀ (kvs : List (Bytes × JVal)) (acc : List (Bytes × JVal)) (S : List Frame) (r : List Tok),
    S.length + 1 + depthM kvs ≤ maxDepth →
    prun ⟨.sep, .obj acc :: S⟩ (toksMTail kvs ++ r) = prun (complete (.obj (acc.reverse ++ kvs)) S) r
  | [], acc, S, r, _ => by
    simp only [toksMTail, List.cons_append, List.nil_append, prun_cons]
    simp [pstep, pstepM, sepStep, closeObj]
  | (k, x) :: kvs, acc, S, r, hd => by
    have hd' : S.length + 1 + max (depth x) (depthM kvs) ≤ maxDepth := by simpa [depthM] using hd
    simp only [toksMTail, List.cons_append, List.append_assoc, prun_cons]
    have h1 : pstep ⟨.sep, .obj acc :: S⟩ .comma = ⟨.key, .obj acc :: S⟩ := by simp [pstep, pstepM, sepStep]
    have h2 : pstep ⟨.key, .obj acc :: S⟩ (.str k) = ⟨.colon, .key acc k :: S⟩ := by simp [pstep, pstepM, startKey]
    have h3 : pstep ⟨.colon, .key acc k :: S⟩ .colon = ⟨.val, .key acc k :: S⟩ := by simp [pstep, pstepM, sepStep]
    rw [h1, h2, h3, prun_toks x .val (.key acc k :: S) _ rfl (by simp; omega)]
    rw [show complete x (Frame.key acc k :: S) = ⟨.sep, .obj ((k, x) :: acc) :: S⟩ from rfl]
    rw [prun_toksMTail kvs ((k, x) :: acc) S r (by omega)]
    simp
end

theorem parseToks_toks (v : JVal) (hd : depth v ≤ maxDepth) : parseToks (toks v) = some v := by
  have := prun_toks v .val [] [] rfl (by simpa using hd)
  simp only [List.append_nil] at this
  simp [parseToks, pinit, this, complete, prun_nil]


theorem parse_print (v : JVal) (hwf : WF v) (hd : depth v ≤ maxDepth) : parse (print v) = some v := by
  have h := lex_print v [] hwf (by intro c hc; simp at hc)
  simp only [List.append_nil, lexGo, Option.map_some] at h
  simp [parse, lex, h, parseToks_toks v hd]

/-! ## White space -/

theorem lexGo_ws (ws r : Bytes) (h : ws.all isWs = true) : lexGo 0 (ws ++ r) = lexGo 0 r := by
  induction ws with
  | nil => rfl
  | cons c ws ih =>
    simp only [List.all_cons, Bool.and_eq_true] at h
    simp only [List.cons_append]
    rw [lexGo]; simp [h.1, ih h.2]

theorem isWs_noCont {c : UInt8} (h : isWs c = true) : isNumCont c = false := by
  simp [isWs] at h
  simp [isNumCont, isDigit]
  omega

theorem noCont_ws (ws : Bytes) (h : ws.all isWs = true) : NoCont ws := by
  intro c hc
  cases ws with
  | nil => simp at hc
  | cons x ws =>
    simp at hc; subst hc
    simp only [List.all_cons, Bool.and_eq_true] at h
    exact isWs_noCont h.1

theorem parse_print_ws (v : JVal) (hwf : WF v) (hd : depth v ≤ maxDepth) (ws1 ws2 : Bytes)
    (h1 : ws1.all isWs = true) (h2 : ws2.all isWs = true) : parse (ws1 ++ print v ++ ws2) = some v := by
  have h := lex_print v ws2 hwf (noCont_ws ws2 h2)
  have h3 : lexGo 0 ws2 = some [] := by
    have := lexGo_ws ws2 [] h2
    simpa [lexGo] using this
  simp only [h3, Option.map_some, List.append_nil] at h
  simp [parse, lex, List.append_assoc, lexGo_ws ws1 _ h1, h, parseToks_toks v hd]

/-! ## Nothing after the value -/

theorem prun_failed (ts : List Tok) (S : List Frame) : (prun ⟨.fail, S⟩ ts).mode = .fail := by
  induction ts generalizing S with
  | nil => rfl
  | cons t ts ih => simp only [prun_cons, pstep, pstepM, failed]; exact ih []

theorem parseToks_append_none (ta tb : List Tok) (v : JVal) (h : parseToks ta = some v) (hb : tb ≠ []) :
    parseToks (ta ++ tb) = none := by
  unfold parseToks at h ⊢
  rw [prun_append]
  cases tb with
  | nil => exact absurd rfl hb
  | cons t tb =>
    rw [prun_cons]
    generalize prun pinit ta = st at h
    obtain ⟨m, S⟩ := st
    cases m <;> simp at h
    simp only [pstep, pstepM, failed]
    rw [prun_failed]

/-- Does the token list end with a number? -/
def endsNum (ts : List Tok) : Bool :=
  match ts.getLast? with
  | some (.num _) => true
  | _ => false

theorem endsNum_tail (t : Tok) (ts : List Tok) (h : endsNum (t :: ts) = false) : endsNum ts = false := by
  cases ts with
  | nil => rfl
  | cons t' ts => simpa [endsNum, List.getLast?_cons_cons] using h

theorem consTok_some {tk : Tok} {o : Option (List Tok)} {ts : List Tok} (h : consTok tk o = some ts) :
    ∃ ts', ts = tk :: ts' ∧ o = some ts' := by
  cases o with
  | none => simp [consTok] at h
  | some ts' => simp [consTok] at h; exact ⟨ts', h.symm, rfl⟩

theorem hex4_append (rest junk : Bytes) (x : Nat) (h : hex4 rest = some x) : hex4 (rest ++ junk) = some x := by
  match rest, h with
  | a :: b :: c :: d :: rest', h => simpa [hex4] using h

theorem escLen_append (d junk : Bytes) (k : Nat) (h : escLen d = some k) : escLen (d ++ junk) = some k := by
  cases d with
  | nil => simp [escLen] at h
  | cons e rest =>
    simp only [escLen, List.cons_append] at h ⊢
    by_cases hu : e.toNat = 0x75
    · simp only [hu, if_true] at h ⊢
      cases hx : hex4 rest with
      | none => simp [hx] at h
      | some x => simp [hx] at h; simp [hex4_append rest junk x hx, h]
    · simpa [hu] using h

theorem spanGo_append (junk : Bytes) : ∀ (d : Bytes) (n m : Nat), spanGo n d = some m →
    spanGo n (d ++ junk) = some m ∧ m < d.length := by
  intro d
  induction d with
  | nil => intro n m h; simp [spanGo] at h
  | cons c d ih =>
    intro n m h
    cases n with
    | succ n =>
      simp only [spanGo, List.cons_append] at h ⊢
      cases hg : spanGo n d with
      | none => simp [hg] at h
      | some m' =>
        simp [hg] at h; subst h
        have := ih n m' hg
        simp [this.1]; omega
    | zero =>
      simp only [List.cons_append]
      rw [spanGo] at h ⊢
      by_cases hq : c.toNat = 0x22
      · simp [hq] at h ⊢; omega
      simp only [hq, if_false] at h ⊢
      by_cases hb : c.toNat = 0x5C
      · simp only [hb, if_true] at h ⊢
        cases he : escLen d with
        | none => simp [he] at h
        | some k =>
          simp only [he, escLen_append d junk k he] at h ⊢
          cases hg : spanGo k d with
          | none => simp [hg] at h
          | some m' =>
            simp [hg] at h; subst h
            have := ih k m' hg
            simp [this.1]; omega
      simp only [hb, if_false] at h ⊢
      by_cases hctl : c.toNat < 0x20
      · simp [hctl] at h
      simp only [hctl, if_false] at h ⊢
      cases hg : spanGo 0 d with
      | none => simp [hg] at h
      | some m' =>
        simp [hg] at h; subst h
        have := ih 0 m' hg
        simp [this.1]; omega


theorem take_append_of_le {α : Type} (a b : List α) (n : Nat) (h : n ≤ a.length) : (a ++ b).take n = a.take n := by
  rw [List.take_append_of_le_length h]

theorem lex_append (junk : Bytes) : ∀ (d : Bytes) (n : Nat) (ts : List Tok), lexGo n d = some ts → n ≤ d.length →
    (endsNum ts = false ∨ NoCont junk) → lexGo n (d ++ junk) = (lexGo 0 junk).map (ts ++ ·) := by
  intro d
  induction d with
  | nil =>
    intro n ts h hn _
    simp at hn; subst hn
    simp [lexGo] at h; subst h
    simp only [List.nil_append]
    cases lexGo 0 junk <;> simp
  | cons c d ih =>
    intro n ts h hn hc
    -- a branch that emits `tk` and goes on after `k` more bytes
    have branch : ∀ (tk : Tok) (k : Nat), consTok tk (lexGo k d) = some ts → k ≤ d.length →
        consTok tk (lexGo k (d ++ junk)) = (lexGo 0 junk).map (ts ++ ·) := by
      intro tk k hk hle
      obtain ⟨ts', rfl, hts'⟩ := consTok_some hk
      have hc' : endsNum ts' = false ∨ NoCont junk := hc.elim (fun h => Or.inl (endsNum_tail _ _ h)) Or.inr
      rw [ih k ts' hts' hle hc']
      cases lexGo 0 junk <;> simp [consTok]
    cases n with
    | succ n =>
      simp only [lexGo, List.cons_append] at h ⊢
      exact ih n ts h (by simpa using hn) hc
    | zero =>
      simp only [List.cons_append]
      rw [lexGo] at h ⊢
      by_cases hws : isWs c = true
      · simp only [hws, if_true] at h ⊢; exact ih 0 ts h (by simp) hc
      simp only [hws, Bool.false_eq_true, if_false] at h ⊢
      by_cases h1 : c.toNat = 0x7B
      · simp only [h1, if_true] at h ⊢; exact branch _ 0 h (by simp)
      simp only [h1, if_false] at h ⊢
      by_cases h2 : c.toNat = 0x7D
      · simp only [h2, if_true] at h ⊢; exact branch _ 0 h (by simp)
      simp only [h2, if_false] at h ⊢
      by_cases h3 : c.toNat = 0x5B
      · simp only [h3, if_true] at h ⊢; exact branch _ 0 h (by simp)
      simp only [h3, if_false] at h ⊢
      by_cases h4 : c.toNat = 0x5D
      · simp only [h4, if_true] at h ⊢; exact branch _ 0 h (by simp)
      simp only [h4, if_false] at h ⊢
      by_cases h5 : c.toNat = 0x3A
      · simp only [h5, if_true] at h ⊢; exact branch _ 0 h (by simp)
      simp only [h5, if_false] at h ⊢
      by_cases h6 : c.toNat = 0x2C
      · simp only [h6, if_true] at h ⊢; exact branch _ 0 h (by simp)
      simp only [h6, if_false] at h ⊢
      by_cases h7 : c.toNat = 0x22
      · simp only [h7, if_true] at h ⊢
        cases hs : spanStr d with
        | none => simp [hs] at h
        | some m =>
          have ha := spanGo_append junk d 0 m hs
          simp only [hs] at h
          simp only [spanStr, ha.1, take_append_of_le d junk m (by omega)]
          exact branch _ (m + 1) h (by omega)
      simp only [h7, if_false] at h ⊢
      by_cases h8 : c.toNat = 0x74
      · simp only [h8, if_true] at h ⊢
        by_cases hl : d.take 3 = litRue
        · have hlen : 3 ≤ d.length := by
            have := congrArg List.length hl; simp [litRue] at this; omega
          simp only [hl, if_true, take_append_of_le d junk 3 hlen] at h ⊢
          exact branch _ 3 h hlen
        · simp [hl] at h
      simp only [h8, if_false] at h ⊢
      by_cases h9 : c.toNat = 0x66
      · simp only [h9, if_true] at h ⊢
        by_cases hl : d.take 4 = litAlse
        · have hlen : 4 ≤ d.length := by
            have := congrArg List.length hl; simp [litAlse] at this; omega
          simp only [hl, if_true, take_append_of_le d junk 4 hlen] at h ⊢
          exact branch _ 4 h hlen
        · simp [hl] at h
      simp only [h9, if_false] at h ⊢
      by_cases h10 : c.toNat = 0x6E
      · simp only [h10, if_true] at h ⊢
        by_cases hl : d.take 3 = litUll
        · have hlen : 3 ≤ d.length := by
            have := congrArg List.length hl; simp [litUll] at this; omega
          simp only [hl, if_true, take_append_of_le d junk 3 hlen] at h ⊢
          exact branch _ 3 h hlen
        · simp [hl] at h
      simp only [h10, if_false] at h ⊢
      -- a number
      cases hs : spanNum (c :: d) with
      | none => simp [hs] at h
      | some k =>
        cases k with
        | zero => simp [hs] at h
        | succ k =>
          simp only [hs] at h
          have hle : k + 1 ≤ (c :: d).length := numGo_le _ _ _ hs
          have hkd : k ≤ d.length := by simpa using hle
          have hs' : spanNum (c :: (d ++ junk)) = some (k + 1) := by
            by_cases hin : k + 1 < (c :: d).length
            · exact numGo_append_inner junk .begin (c :: d) (k + 1) hs hin
            · -- the number runs to the end of `d`: it is the last token
              have hkeq : k = d.length := by simp at hin hle; omega
              obtain ⟨ts', rfl, hts'⟩ := consTok_some h
              rw [lexGo_drop, hkeq] at hts'
              simp [lexGo] at hts'
              subst hts'
              have hnc : NoCont junk := by
                rcases hc with hc | hc
                · simp [endsNum] at hc
                · exact hc
              have := numGo_append hnc .begin (c :: d)
              rw [spanNum] at hs ⊢
              rw [← hs]; simpa using this
          simp only [hs', take_append_of_le d junk k hkd]
          exact branch _ k h hkd


theorem lex_nil_ws : ∀ (junk : Bytes) (n : Nat), lexGo n junk = some [] → (junk.drop n).all isWs = true := by
  intro junk
  induction junk with
  | nil => intro n _; simp
  | cons c junk ih =>
    intro n h
    cases n with
    | succ n => simp only [lexGo] at h; simpa using ih n h
    | zero =>
      rw [lexGo] at h
      by_cases hws : isWs c = true
      · simp only [hws, if_true] at h
        simpa [hws] using ih 0 h
      · exfalso
        simp only [hws, Bool.false_eq_true, if_false] at h
        have ne : ∀ tk o, consTok tk o ≠ some [] := by
          intro tk o h'; obtain ⟨_, h'', _⟩ := consTok_some h'; simp at h''
        by_cases h1 : c.toNat = 0x7B
        · simp only [h1, if_true] at h; exact ne _ _ h
        simp only [h1, if_false] at h
        by_cases h2 : c.toNat = 0x7D
        · simp only [h2, if_true] at h; exact ne _ _ h
        simp only [h2, if_false] at h
        by_cases h3 : c.toNat = 0x5B
        · simp only [h3, if_true] at h; exact ne _ _ h
        simp only [h3, if_false] at h
        by_cases h4 : c.toNat = 0x5D
        · simp only [h4, if_true] at h; exact ne _ _ h
        simp only [h4, if_false] at h
        by_cases h5 : c.toNat = 0x3A
        · simp only [h5, if_true] at h; exact ne _ _ h
        simp only [h5, if_false] at h
        by_cases h6 : c.toNat = 0x2C
        · simp only [h6, if_true] at h; exact ne _ _ h
        simp only [h6, if_false] at h
        by_cases h7 : c.toNat = 0x22
        · simp only [h7, if_true] at h
          split at h
          · exact ne _ _ h
          · simp at h
        simp only [h7, if_false] at h
        by_cases h8 : c.toNat = 0x74
        · simp only [h8, if_true] at h
          split at h
          · exact ne _ _ h
          · simp at h
        simp only [h8, if_false] at h
        by_cases h9 : c.toNat = 0x66
        · simp only [h9, if_true] at h
          split at h
          · exact ne _ _ h
          · simp at h
        simp only [h9, if_false] at h
        by_cases h10 : c.toNat = 0x6E
        · simp only [h10, if_true] at h
          split at h
          · exact ne _ _ h
          · simp at h
        simp only [h10, if_false] at h
        split at h
        · exact ne _ _ h
        · simp at h

theorem lex_junk_ne (junk : Bytes) (tb : List Tok) (hj : junk.all isWs = false) (h : lexGo 0 junk = some tb) : tb ≠ [] := by
  intro e; subst e
  have := lex_nil_ws junk 0 h
  simp at this hj
  obtain ⟨c, hc, hcw⟩ := hj
  simp [this c hc] at hcw

/-- What may precede extra input for the reader to be sure to reject the whole: the tokens read so
far do not end in a number, or the extra input does not start like the continuation of one. -/
theorem parse_append_none (d junk : Bytes) (ts : List Tok) (v : JVal) (hl : lex d = some ts)
    (hp : parseToks ts = some v) (hj : junk.all isWs = false) (hb : endsNum ts = false ∨ NoCont junk) :
    parse (d ++ junk) = none := by
  have h := lex_append junk d 0 ts hl (by simp) hb
  simp only [parse, lex, h]
  cases hlj : lexGo 0 junk with
  | none => rfl
  | some tb =>
    simp only [Option.map_some]
    exact parseToks_append_none ts tb v hp (lex_junk_ne junk tb hj hlj)

theorem pstepM_num_done (m : Mode) (S : List Frame) (x : Bytes) (v : JVal) (S' : List Frame)
    (h : pstepM m S (.num x) = ⟨.done v, S'⟩) : v = .num x := by
  have hc : ∀ S, complete (.num x) S = ⟨.done v, S'⟩ → v = .num x := by
    intro S hS
    cases S with
    | nil => simp [complete] at hS; exact hS.1.symm
    | cons f S => cases f <;> simp [complete, failed] at hS
  cases m <;> simp [pstepM, startValue, startKey, sepStep, failed] at h
  · exact hc _ h
  · exact hc _ h

theorem parseToks_endsNum (ts : List Tok) (v : JVal) (h : parseToks ts = some v) (hv : ∀ x, v ≠ .num x) :
    endsNum ts = false := by
  cases hl : ts.getLast? with
  | none => simp [endsNum, hl]
  | some t =>
    cases t with
    | num x =>
      exfalso
      obtain ⟨ts0, rfl⟩ : ∃ ts0, ts = ts0 ++ [.num x] := by
        have := List.getLast?_eq_some_iff.mp hl
        obtain ⟨ys, rfl⟩ := this; exact ⟨ys, rfl⟩
      unfold parseToks at h
      rw [prun_append, prun_cons, prun_nil] at h
      generalize prun pinit ts0 = st at h
      obtain ⟨m, S⟩ := st
      simp only [pstep] at h
      cases hst : pstepM m S (.num x) with
      | mk m' S' =>
        rw [hst] at h
        cases m' <;> simp at h
        subst h
        exact hv x (pstepM_num_done m S x _ S' hst)
    | _ => simp [endsNum, hl]

/-! ## What the reader yields is well-formed -/

theorem ofNat_toNat_lt {n : Nat} (h : n < 256) : (UInt8.ofNat n).toNat = n := by
  simp [UInt8.toNat_ofNat']; omega

/-- A chunk that is one complete well-formed sequence does not affect what follows. -/
theorem validGo_chunk (c : UInt8) (pre rest : Bytes) (h : seqLen c (pre ++ rest) = pre.length + 1) :
    validGo 0 (c :: pre ++ rest) = validGo 0 rest := by
  simp only [List.cons_append]
  rw [validGo]
  simp only [h]
  rw [validGo_drop]; simp

theorem validGo_ascii (c : UInt8) (rest : Bytes) (h : c.toNat < 0x80) : validGo 0 (c :: rest) = validGo 0 rest := by
  have := validGo_chunk c [] rest (by simpa using seqLen_ascii h rest)
  simpa using this

theorem validGo_replacement (rest : Bytes) : validGo 0 (replacement ++ rest) = validGo 0 rest := by
  have h : seqLen 0xEF ([0xBF, 0xBD] ++ rest) = 3 := by
    unfold seqLen; simp [isCont]
  exact validGo_chunk 0xEF [0xBF, 0xBD] rest h

theorem validGo_encodeRune (r : Nat) (hr : r < 0x110000) (hs : ¬ (0xD800 ≤ r ∧ r < 0xE000)) (rest : Bytes) :
    validGo 0 (encodeRune r ++ rest) = validGo 0 rest := by
  unfold encodeRune
  by_cases h1 : r < 0x80
  · simp only [h1, if_true, List.cons_append, List.nil_append]
    exact validGo_ascii _ rest (by rw [ofNat_toNat_lt (by omega)]; exact h1)
  simp only [h1, if_false]
  by_cases h2 : r < 0x800
  · simp only [h2, if_true]
    apply validGo_chunk _ [_] rest
    have a : (UInt8.ofNat (0xC0 + r / 64)).toNat = 0xC0 + r / 64 := ofNat_toNat_lt (by omega)
    have b : (UInt8.ofNat (0x80 + r % 64)).toNat = 0x80 + r % 64 := ofNat_toNat_lt (by omega)
    unfold seqLen
    simp only [a, List.cons_append, List.nil_append, isCont, b]
    rw [if_neg (by omega), if_neg (by omega), if_pos (by omega)]
    simp; omega
  simp only [h2, if_false]
  by_cases h3 : r < 0x10000
  · simp only [h3, if_true]
    apply validGo_chunk _ [_, _] rest
    have a : (UInt8.ofNat (0xE0 + r / 4096)).toNat = 0xE0 + r / 4096 := ofNat_toNat_lt (by omega)
    have b : (UInt8.ofNat (0x80 + r / 64 % 64)).toNat = 0x80 + r / 64 % 64 := ofNat_toNat_lt (by omega)
    have c : (UInt8.ofNat (0x80 + r % 64)).toNat = 0x80 + r % 64 := ofNat_toNat_lt (by omega)
    unfold seqLen
    simp only [a, List.cons_append, List.nil_append, isCont, b, c]
    rw [if_neg (by omega), if_neg (by omega), if_neg (by omega), if_pos (by omega)]
    have hlo : (if 0xE0 + r / 4096 = 0xE0 then 0xA0 else 0x80) ≤ 0x80 + r / 64 % 64 := by split <;> omega
    have hhi : 0x80 + r / 64 % 64 ≤ (if 0xE0 + r / 4096 = 0xED then 0x9F else 0xBF) := by split <;> omega
    rw [if_pos]
    · rfl
    · simp only [Bool.and_eq_true, decide_eq_true_eq]
      exact ⟨⟨hlo, hhi⟩, by omega, by omega⟩
  · simp only [h3, if_false]
    apply validGo_chunk _ [_, _, _] rest
    have a : (UInt8.ofNat (0xF0 + r / 262144)).toNat = 0xF0 + r / 262144 := ofNat_toNat_lt (by omega)
    have b : (UInt8.ofNat (0x80 + r / 4096 % 64)).toNat = 0x80 + r / 4096 % 64 := ofNat_toNat_lt (by omega)
    have c : (UInt8.ofNat (0x80 + r / 64 % 64)).toNat = 0x80 + r / 64 % 64 := ofNat_toNat_lt (by omega)
    have d : (UInt8.ofNat (0x80 + r % 64)).toNat = 0x80 + r % 64 := ofNat_toNat_lt (by omega)
    unfold seqLen
    simp only [a, List.cons_append, List.nil_append, isCont, b, c, d]
    rw [if_neg (by omega), if_neg (by omega), if_neg (by omega), if_neg (by omega), if_pos (by omega)]
    have hlo : (if 0xF0 + r / 262144 = 0xF0 then 0x90 else 0x80) ≤ 0x80 + r / 4096 % 64 := by split <;> omega
    have hhi : 0x80 + r / 4096 % 64 ≤ (if 0xF0 + r / 262144 = 0xF4 then 0x8F else 0xBF) := by split <;> omega
    rw [if_pos]
    · rfl
    · simp only [Bool.and_eq_true, decide_eq_true_eq]
      exact ⟨⟨⟨hlo, hhi⟩, by omega, by omega⟩, by omega, by omega⟩


theorem seqLen_one {c : UInt8} {bs : Bytes} (h : seqLen c bs = 1) : c.toNat < 0x80 := by
  by_cases h80 : c.toNat < 0x80
  · exact h80
  · exfalso
    unfold seqLen at h
    simp only at h
    split at h
    · omega
    all_goals (repeat' split at h) <;> simp_all

theorem hexVal_lt {c : UInt8} {x : Nat} (h : hexVal c = some x) : x < 16 := by
  unfold hexVal at h
  simp only at h
  split at h
  · simp at h; omega
  · split at h
    · simp at h; omega
    · split at h
      · simp at h; omega
      · simp at h

theorem hex4_lt {bs : Bytes} {r : Nat} (h : hex4 bs = some r) : r < 65536 := by
  match bs, h with
  | a :: b :: c :: d :: _, h =>
    simp only [hex4] at h
    cases ha : hexVal a <;> cases hb : hexVal b <;> cases hc : hexVal c <;> cases hd : hexVal d <;>
      simp [ha, hb, hc, hd] at h
    have := hexVal_lt ha; have := hexVal_lt hb; have := hexVal_lt hc; have := hexVal_lt hd
    omega

theorem simpleEsc_ascii {e : UInt8} (h : isSimpleEsc e = true) : (simpleEsc e).toNat < 0x80 := by
  simp only [isSimpleEsc, Bool.or_eq_true, beq_iff_eq] at h
  unfold simpleEsc
  simp only
  repeat' split
  all_goals first | decide | omega

theorem validGo_escAt (bs rest : Bytes) : validGo 0 ((escAt bs).1 ++ rest) = validGo 0 rest := by
  unfold escAt
  split
  · rfl
  · rename_i e tl
    split
    · split
      · rfl
      · rename_i r hr
        have hlt := hex4_lt hr
        split
        · split
          · split
            · split
              · rename_i r2 hr2
                have hlt2 := hex4_lt hr2
                split
                · rename_i hc
                  dsimp only
                  generalize hx : (r - 55296) * 1024 + (r2 - 56320) + 65536 = x
                  exact validGo_encodeRune x (by omega) (by omega) rest
                · exact validGo_replacement rest
              · exact validGo_replacement rest
            · exact validGo_replacement rest
          · exact validGo_replacement rest
        · rename_i hs
          exact validGo_encodeRune r (by omega) hs rest
    · split
      · rename_i hs
        exact validGo_ascii _ rest (simpleEsc_ascii hs)
      · rfl

theorem valid_unqGo : ∀ (raw : Bytes) (n : Nat), validGo 0 (unqGo n raw) = true := by
  intro raw
  induction raw with
  | nil => intro n; simp [unqGo, validGo]
  | cons c bs ih =>
    intro n
    cases n with
    | succ n => simp only [unqGo]; exact ih n
    | zero =>
      rw [unqGo]
      split
      · rw [validGo_escAt]; exact ih _
      · split
        · rw [validGo_replacement]; exact ih 0
        · rename_i k hk
          cases k with
          | zero =>
            simp only [List.take_zero, List.nil_append]
            have h80 : c.toNat < 0x80 := seqLen_one hk
            show validGo 0 (c :: unqGo 0 bs) = true
            rw [validGo_ascii c _ h80]; exact ih 0
          | succ k =>
            obtain ⟨pre, t, hs, hlen, _, _, hall⟩ := seqLen_spec c bs k hk
            have htake : bs.take (k + 1) = pre := by rw [hs, ← hlen]; simp
            rw [htake]
            rw [validGo_chunk c pre (unqGo (k + 1) bs) (by rw [hall, hlen])]; exact ih _

theorem valid_unquote (raw : Bytes) : ValidUtf8 (unquote raw) := valid_unqGo raw 0


theorem numGo_take (st : NumSt) (a : Bytes) (k : Nat) (h : numGo st a = some k) : numGo st (a.take k) = some k := by
  induction a generalizing st k with
  | nil => simpa using h
  | cons c a ih =>
    simp only [numGo] at h
    cases hs : numStep st c with
    | none =>
      simp only [hs] at h
      split at h
      · rename_i hacc
        simp at h; subst h
        simp [numGo, hacc]
      · simp at h
    | some st' =>
      simp only [hs] at h
      cases hg : numGo st' a with
      | none => simp [hg] at h
      | some k' =>
        simp [hg] at h; subst h
        simp [numGo, hs, ih st' k' hg]

/-- Tokens the canonical printer can render faithfully. -/
def TokOK : Tok → Prop
  | .num t => NumOK t
  | .str s => ValidUtf8 s
  | _ => True

theorem lexGo_ok : ∀ (bs : Bytes) (n : Nat) (ts : List Tok), lexGo n bs = some ts → ∀ t ∈ ts, TokOK t := by
  intro bs
  induction bs with
  | nil => intro n ts h; simp [lexGo] at h; subst h; simp
  | cons c bs ih =>
    intro n ts h
    have branch : ∀ (tk : Tok) (k : Nat), consTok tk (lexGo k bs) = some ts → TokOK tk → ∀ t ∈ ts, TokOK t := by
      intro tk k hk hok
      obtain ⟨ts', rfl, hts'⟩ := consTok_some hk
      intro t ht
      rcases List.mem_cons.mp ht with rfl | ht'
      · exact hok
      · exact ih k ts' hts' t ht'
    cases n with
    | succ n => simp only [lexGo] at h; exact ih n ts h
    | zero =>
      rw [lexGo] at h
      by_cases hws : isWs c = true
      · simp only [hws, if_true] at h; exact ih 0 ts h
      simp only [hws, Bool.false_eq_true, if_false] at h
      by_cases h1 : c.toNat = 0x7B
      · simp only [h1, if_true] at h; exact branch _ 0 h trivial
      simp only [h1, if_false] at h
      by_cases h2 : c.toNat = 0x7D
      · simp only [h2, if_true] at h; exact branch _ 0 h trivial
      simp only [h2, if_false] at h
      by_cases h3 : c.toNat = 0x5B
      · simp only [h3, if_true] at h; exact branch _ 0 h trivial
      simp only [h3, if_false] at h
      by_cases h4 : c.toNat = 0x5D
      · simp only [h4, if_true] at h; exact branch _ 0 h trivial
      simp only [h4, if_false] at h
      by_cases h5 : c.toNat = 0x3A
      · simp only [h5, if_true] at h; exact branch _ 0 h trivial
      simp only [h5, if_false] at h
      by_cases h6 : c.toNat = 0x2C
      · simp only [h6, if_true] at h; exact branch _ 0 h trivial
      simp only [h6, if_false] at h
      by_cases h7 : c.toNat = 0x22
      · simp only [h7, if_true] at h
        split at h
        · exact branch _ _ h (valid_unquote _)
        · simp at h
      simp only [h7, if_false] at h
      by_cases h8 : c.toNat = 0x74
      · simp only [h8, if_true] at h
        split at h
        · exact branch _ _ h trivial
        · simp at h
      simp only [h8, if_false] at h
      by_cases h9 : c.toNat = 0x66
      · simp only [h9, if_true] at h
        split at h
        · exact branch _ _ h trivial
        · simp at h
      simp only [h9, if_false] at h
      by_cases h10 : c.toNat = 0x6E
      · simp only [h10, if_true] at h
        split at h
        · exact branch _ _ h trivial
        · simp at h
      simp only [h10, if_false] at h
      split at h
      · rename_i k hs
        refine branch _ _ h ?_
        have hle : k + 1 ≤ (c :: bs).length := numGo_le _ _ _ hs
        have := numGo_take .begin (c :: bs) (k + 1) hs
        simp only [List.take_succ_cons] at this
        show NumOK (c :: bs.take k)
        unfold NumOK spanNum
        rw [this]
        simp at hle
        simp [List.length_take]; omega
      · simp at h


theorem wfl_iff (xs : List JVal) : WFL xs ↔ ∀ x ∈ xs, WF x := by
  induction xs with
  | nil => simp [WFL]
  | cons x xs ih => simp [WFL, ih]

theorem wfm_iff (kvs : List (Bytes × JVal)) : WFM kvs ↔ ∀ kv ∈ kvs, ValidUtf8 kv.1 ∧ WF kv.2 := by
  induction kvs with
  | nil => simp [WFM]
  | cons kv kvs ih => obtain ⟨k, v⟩ := kv; simp [WFM, ih, and_assoc]

theorem depthL_le (xs : List JVal) (k : Nat) : depthL xs ≤ k ↔ ∀ x ∈ xs, depth x ≤ k := by
  induction xs with
  | nil => simp [depthL]
  | cons x xs ih => simp [depthL, Nat.max_le, ih]

theorem depthM_le (kvs : List (Bytes × JVal)) (k : Nat) : depthM kvs ≤ k ↔ ∀ kv ∈ kvs, depth kv.2 ≤ k := by
  induction kvs with
  | nil => simp [depthM]
  | cons kv kvs ih => obtain ⟨k', v⟩ := kv; simp [depthM, Nat.max_le, ih]

/-- The members read so far are well-formed and leave room for the `lvl` containers around them. -/
def FrameOK (lvl : Nat) : Frame → Prop
  | .arr acc => ∀ x ∈ acc, WF x ∧ depth x + lvl ≤ maxDepth
  | .obj acc => ∀ kv ∈ acc, ValidUtf8 kv.1 ∧ WF kv.2 ∧ depth kv.2 + lvl ≤ maxDepth
  | .key acc k => ValidUtf8 k ∧ ∀ kv ∈ acc, ValidUtf8 kv.1 ∧ WF kv.2 ∧ depth kv.2 + lvl ≤ maxDepth

def StackOK : List Frame → Prop
  | [] => True
  | f :: s => FrameOK (s.length + 1) f ∧ s.length + 1 ≤ maxDepth ∧ StackOK s

def StateOK (st : PState) : Prop :=
  StackOK st.stack ∧ ∀ v, st.mode = .done v → WF v ∧ depth v ≤ maxDepth

theorem stateOK_failed : StateOK failed := ⟨trivial, by simp [failed]⟩

theorem stack_len_le {S : List Frame} (h : StackOK S) : S.length ≤ maxDepth := by
  cases S with
  | nil => simp
  | cons f s => exact h.2.1

theorem complete_ok (v : JVal) (S : List Frame) (hw : WF v) (hd : depth v + S.length ≤ maxDepth)
    (hS : StackOK S) : StateOK (complete v S) := by
  cases S with
  | nil => exact ⟨trivial, by intro v' hv'; simp [complete] at hv'; subst hv'; exact ⟨hw, by simpa using hd⟩⟩
  | cons f s =>
    obtain ⟨hf, hl, hs⟩ := hS
    cases f with
    | arr acc =>
      refine ⟨⟨?_, hl, hs⟩, by simp [complete]⟩
      intro x hx
      rcases List.mem_cons.mp hx with rfl | hx'
      · exact ⟨hw, by simpa using hd⟩
      · exact hf x hx'
    | obj acc => exact stateOK_failed
    | key acc k =>
      refine ⟨⟨?_, hl, hs⟩, by simp [complete]⟩
      intro kv hkv
      rcases List.mem_cons.mp hkv with rfl | hkv'
      · exact ⟨hf.1, hw, by simpa using hd⟩
      · exact hf.2 kv hkv'

theorem startValue_ok (t : Tok) (S : List Frame) (ht : TokOK t) (hS : StackOK S) : StateOK (startValue t S) := by
  have hl := stack_len_le hS
  cases t with
  | null => exact complete_ok _ S (by simp [WF]) (by simpa [depth] using hl) hS
  | tru => exact complete_ok _ S (by simp [WF]) (by simpa [depth] using hl) hS
  | fls => exact complete_ok _ S (by simp [WF]) (by simpa [depth] using hl) hS
  | num x => exact complete_ok _ S (by simp only [WF]; exact ht) (by simpa [depth] using hl) hS
  | str x => exact complete_ok _ S (by simp only [WF]; exact ht) (by simpa [depth] using hl) hS
  | lbrack =>
    simp only [startValue]
    split
    · rename_i hlt
      exact ⟨⟨by intro x hx; simp at hx, by omega, hS⟩, by simp⟩
    · exact stateOK_failed
  | lbrace =>
    simp only [startValue]
    split
    · rename_i hlt
      exact ⟨⟨by intro x hx; simp at hx, by omega, hS⟩, by simp⟩
    · exact stateOK_failed
  | _ => exact stateOK_failed

theorem closeArr_ok (S : List Frame) (hS : StackOK S) : StateOK (closeArr S) := by
  cases S with
  | nil => exact stateOK_failed
  | cons f s =>
    cases f with
    | arr acc =>
      obtain ⟨hf, hl, hs⟩ := hS
      apply complete_ok _ s _ _ hs
      · simp only [WF]; rw [wfl_iff]; intro x hx; exact (hf x (by simpa using hx)).1
      · have : depthL acc.reverse ≤ maxDepth - (s.length + 1) := by
          rw [depthL_le]; intro x hx
          have := (hf x (by simpa using hx)).2
          omega
        simp only [depth]; omega
    | _ => exact stateOK_failed

theorem closeObj_ok (S : List Frame) (hS : StackOK S) : StateOK (closeObj S) := by
  cases S with
  | nil => exact stateOK_failed
  | cons f s =>
    cases f with
    | obj acc =>
      obtain ⟨hf, hl, hs⟩ := hS
      apply complete_ok _ s _ _ hs
      · simp only [WF]; rw [wfm_iff]; intro kv hkv
        have := hf kv (by simpa using hkv); exact ⟨this.1, this.2.1⟩
      · have : depthM acc.reverse ≤ maxDepth - (s.length + 1) := by
          rw [depthM_le]; intro kv hkv
          have := (hf kv (by simpa using hkv)).2.2
          omega
        simp only [depth]; omega
    | _ => exact stateOK_failed

theorem startKey_ok (t : Tok) (S : List Frame) (ht : TokOK t) (hS : StackOK S) : StateOK (startKey t S) := by
  unfold startKey
  split
  · rename_i k acc s
    obtain ⟨hf, hl, hs⟩ := hS
    exact ⟨⟨⟨ht, hf⟩, hl, hs⟩, by simp⟩
  · exact stateOK_failed

theorem sepStep_ok (t : Tok) (S : List Frame) (hS : StackOK S) : StateOK (sepStep t S) := by
  unfold sepStep
  split
  · split
    · exact ⟨hS, by simp⟩
    · exact ⟨hS, by simp⟩
    · exact stateOK_failed
  · exact closeArr_ok S hS
  · exact closeObj_ok S hS
  · exact stateOK_failed

theorem pstep_ok (st : PState) (t : Tok) (ht : TokOK t) (h : StateOK st) : StateOK (pstep st t) := by
  obtain ⟨m, S⟩ := st
  have hS : StackOK S := h.1
  simp only [pstep, pstepM]
  cases m with
  | val => exact startValue_ok t S ht hS
  | valOrClose => simp only; split; exact closeArr_ok S hS; exact startValue_ok t S ht hS
  | keyOrClose => simp only; split; exact closeObj_ok S hS; exact startKey_ok t S ht hS
  | key => exact startKey_ok t S ht hS
  | colon => simp only; split; exact ⟨hS, by simp⟩; exact stateOK_failed
  | sep => exact sepStep_ok t S hS
  | done v => exact stateOK_failed
  | fail => exact stateOK_failed

theorem prun_ok (ts : List Tok) (st : PState) (hts : ∀ t ∈ ts, TokOK t) (h : StateOK st) : StateOK (prun st ts) := by
  induction ts generalizing st with
  | nil => exact h
  | cons t ts ih =>
    rw [prun_cons]
    exact ih _ (fun t' ht' => hts t' (by simp [ht'])) (pstep_ok st t (hts t (by simp)) h)

/-- Whatever the reader yields is well-formed and within the nesting limit. -/
theorem parse_wf (b : Bytes) (v : JVal) (h : parse b = some v) : WF v ∧ depth v ≤ maxDepth := by
  unfold parse at h
  cases hl : lex b with
  | none => simp [hl] at h
  | some ts =>
    simp only [hl, parseToks] at h
    have hok := prun_ok ts pinit (lexGo_ok b 0 ts hl) ⟨trivial, by simp [pinit]⟩
    cases hm : (prun pinit ts).mode <;> simp [hm] at h
    subst h
    exact hok.2 _ hm

/-- Reading is stable: the canonical rendering of what was read reads back as the same tree. -/
theorem parse_print_parse (b : Bytes) (v : JVal) (h : parse b = some v) : parse (print v) = some v :=
  parse_print v (parse_wf b v h).1 (parse_wf b v h).2

end OciModel.Json
