/-
Line protocol for the handler execution model (sub-check C06S).

  srvh outcomes <Kind> <tag 0|1> <options that are on, comma separated | ->
      every outcome the regenerated table allows for a request of that kind (named by tag or not)
      under exactly those options, separated by `|`. One outcome is
        <events>;err                      the handler returned an error (WriteError answers)
        <events>;ok;<status>;<headers>    the handler returned nil
        <events>;bad                      the run left the abstracted code
      <events>: comma separated, `M+` / `M-` a backend call that succeeded / failed,
      `closeN` a Close of the N-th reader/writer acquired in the run (`close?`: of none).
      <headers>: the names set before the status line, comma separated, in order.
  srvh provs <Kind> <tag 0|1> <options>
      every call site a run can reach, as `Method(p1,…,pn)` separated by `|`, where `pi` is the
      provenance of the i-th argument after ctx: `F` the request field F, `F?` that field or the
      empty string, `=<hex token>` a literal, `desc:p` a Descriptor whose Digest is `p`, `*` anything else.
  srvh handler <Kind>     the function the dispatch table names for the kind
  srvh req …              a request served by the real handlers (harness/c06s.go): `skip`
-/
import OciModel.SrvHandlers
namespace OciModel.Driver.SrvHandlers
open OciModel.SrvIR OciModel.SrvHandlers OciModel.Generated.SrvHandlers

def renderTrace : List Ev → Nat → List (String × Nat) → List String
  | [], _, _ => []
  | .call c ok :: t, n, m => (c.method ++ (if ok then "+" else "-")) :: renderTrace t n m
  | .acq v :: t, n, m => renderTrace t (n + 1) ((v, n + 1) :: m)
  | .close v :: t, n, m =>
    ("close" ++ (match m.lookup v with | some i => toString i | none => "?")) :: renderTrace t n m

def renderProv : Prov → String
  | .field f => f
  | .fieldOrEmpty f => f ++ "?"
  | .lit s => "=" ++ Hex.encodeTok (strBytes s)
  | .desc p => "desc:" ++ renderProv p
  | .other _ => "*"

def renderCall (c : Call) : String := c.method ++ "(" ++ ",".intercalate (c.args.map renderProv) ++ ")"

def traceCalls : List Ev → List Call
  | [] => []
  | .call c _ :: t => c :: traceCalls t
  | _ :: t => traceCalls t

def renderOutcome (f : St × Bool) : String :=
  let evs := ",".intercalate (renderTrace f.1.trace 0 [])
  if f.1.bad then evs ++ ";bad"
  else if f.2 then evs ++ ";err"
  else s!"{evs};ok;{f.1.finalStatus};{",".intercalate f.1.hdrs}"

def drive : List String → String
  | ["outcomes", k, tag, opts] =>
    match allKinds.find? (fun x => kindName x == k) with
    | none => "no-such-kind"
    | some kind =>
      let on := if opts == "-" then [] else opts.splitOn ","
      let env : Env := { tagSet := tag == "1", opt := fun n => on.contains n }
      "|".intercalate ((serve handlers dispatch (envOracle env) kind).map renderOutcome).eraseDups
  | ["provs", k, tag, opts] =>
    match allKinds.find? (fun x => kindName x == k) with
    | none => "no-such-kind"
    | some kind =>
      let on := if opts == "-" then [] else opts.splitOn ","
      let env : Env := { tagSet := tag == "1", opt := fun n => on.contains n }
      "|".intercalate (((serve handlers dispatch (envOracle env) kind).flatMap fun f => (traceCalls f.1.trace).map renderCall).eraseDups)
  | ["handler", k] =>
    match allKinds.find? (fun x => kindName x == k) with
    | none => "no-such-kind"
    | some kind => handlerOf dispatch kind
  | "req" :: _ => "skip"   -- a full request: judged by the harness oracle against `outcomes`
  | _ => "bad-op"

end OciModel.Driver.SrvHandlers
