import OciModel.ErrCodecInst
namespace OciModel.Driver.Err
open OciModel OciModel.ErrCodec

/-- Prefix notation: `W code msg detail|-`, `M n (code msg detail|-)*`, `P msg`, `N st`, `H st e`, `F pre post e`. -/
partial def parseErr : List String → Option (Err × List String)
  | "W" :: c :: m :: d :: rest => do
    let c ← Hex.decodeTok c; let m ← Hex.decodeTok m
    let d ← if d == "-" then some none else (Hex.decodeTok d).map some
    pure (.wire (c, m, d), rest)
  | "P" :: m :: rest => do
    let m ← Hex.decodeTok m
    pure (.plain m, rest)
  | "N" :: st :: rest => do
    let st ← st.toNat?
    pure (.httpNil st, rest)
  | "H" :: st :: rest => do
    let st ← st.toNat?
    let (e, rest) ← parseErr rest
    pure (.http st e, rest)
  | "F" :: pre :: post :: rest => do
    let pre ← Hex.decodeTok pre; let post ← Hex.decodeTok post
    let (e, rest) ← parseErr rest
    pure (.wrapf pre e post, rest)
  | _ => none

def b01 (b : Bool) : String := if b then "1" else "0"

/-- `mask`: message and text replaced by `~` (carriers for which only identity is compared). -/
def observe (e : Err) (mask : Bool := false) : String :=
  let st := match asHTTP e with | some s => toString s | none => "-"
  let (code, msg, detail) := match asOci e with
    | some w => (Hex.encodeTok w.1, if mask then "~" else Hex.encodeTok w.2.1, match w.2.2 with | some d => Hex.encodeTok d | none => "-")
    | none => ("-", "-", "-")
  let isv := String.join (stdCodes.map fun c => b01 (is c e))
  s!"{st} {code} {msg} {detail} {if mask then "~" else Hex.encodeTok (text S C e)} {isv}"

/-- `hop <n> <carrier> <err…>`: carriers whose name starts with `Resolve` are HEAD-based; for
carriers whose name starts with `Writer` (errors out of a `BlobWriter`) the message is masked
after the first hop: client and server add context to it on purpose. -/
def driveHop (n carrier : String) (rest : List String) : String :=
  match n.toNat?, parseErr rest with
  | some n, some (e, []) =>
    let head := carrier.startsWith "Resolve"
    observe (hops S C compactJSON genTable stdMsg head n e) (carrier.startsWith "Writer" && n > 0)
  | _, _ => "bad-op"

def drive : List String → String
  | "hop" :: n :: carrier :: rest => driveHop n carrier rest
  -- the same chain with challenging registries and the auth transport (no credentials) in the clients
  | "hopa" :: n :: carrier :: rest => driveHop n carrier rest
  -- clients that page (the error arrives with the second request); servers that know external locations
  | "hopp" :: n :: carrier :: rest => driveHop n carrier rest
  | "hopl" :: n :: carrier :: rest =>
    -- such a server asks `ResolveBlob` before a blob read: from the second hop on the error is HEAD-carried
    if (carrier == "GetBlob" || carrier == "GetBlobRange") && n.toNat?.getD 0 ≥ 2 then "skip"
    else driveHop n carrier rest
  | "hopbig" :: _ => "skip"     -- error bodies beyond the client's size limit: not modelled
  | _ => "bad-op"

end OciModel.Driver.Err
