import OciModel.Funcs
namespace OciModel.Driver.Funcs
open OciModel.Funcs OciModel.Generated.Funcs

def idxOf (ps : List String) (a : String) : String :=
  match ps.findIdx? (· == a) with
  | some i => toString i
  | none => a

def render (r : Row) : Out → String
  | .delegated f args => s!"delegated {f} {",".intercalate (args.map (idxOf r.params))}"
  | .unset n repo custom shape =>
    -- the default constructor does not reveal the repo argument
    s!"unset {n} {if custom then idxOf r.params repo else "*"} {if custom then 1 else 0} {shape}"
  | .panic _ => "panic"

/-- `funcs <method> <nilRecv 0|1> <hasNewError 0|1> <comma-separated set fields|->` -/
def drive (toks : List String) : String :=
  match toks with
  | [m, n, e, fs] =>
    match table.find? (·.method == m) with
    | none => "no-such-method"
    | some r =>
      let setL := if fs == "-" then [] else fs.splitOn ","
      let c : Cfg := { nilRecv := n == "1", hasNewError := e == "1", set := fun f => setL.contains f }
      render r (call c r)
  | _ => "bad-op"

end OciModel.Driver.Funcs
