import OciModel.Iter
namespace OciModel.Driver.Iter
open OciModel OciModel.Iter OciModel.Generated.Debug

/-- position of a printed argument among the method's parameters -/
def idxOf (ps : List String) (a : String) : String :=
  match ps.findIdx? (· == a) with
  | some i => toString i
  | none => "?"

/-- `ok` = (value, nil), `err` = (nil/zero, error), `both` = (value, error) -/
def variantRes : String → Option (Res Unit Unit)
  | "ok" => some ⟨some (), none⟩
  | "err" => some ⟨none, some ()⟩
  | "both" => some ⟨some (), some ()⟩
  | _ => none

def showVal : WVal Unit → String
  | .absent => "-"
  | .iter => "iter"
  | .same (some _) => "same"
  | .same none => "nil"
  | .writer (some _) => "wrapped"
  | .writer none => "wrapped-nil"

def showErr : Option (Option Unit) → String
  | none => "-"
  | some none => "nil"
  | some (some _) => "E"

def showCall (r : Row) (c : Call String) : String :=
  s!"{c.recv}.{c.method}({",".intercalate (c.args.map (idxOf r.params))}) ctx={if c.ctx then 1 else 0}"

def driveCall (t : List Row) (m v : String) : String :=
  match t.find? (·.method == m), variantRes v with
  | some r, some res =>
    -- argument values are the parameter names: the output shows at which position each one was passed
    match call (V := String) (E := Unit) (fun _ => ⟨res.val.map fun _ => "v", res.err⟩) id r with
    | none => "stuck"
    | some o =>
      let val : WVal Unit := match o.val with
        | .absent => .absent | .iter => .iter
        | .same v => .same (v.map fun _ => ()) | .writer v => .writer (v.map fun _ => ())
      s!"calls={"+".intercalate (o.calls.map (showCall r))} val={showVal val} err={showErr o.err}"
  | _, _ => "bad-op"

/-- events: `i<tok>` = (item, nil); `e<tok>` = (item, the error of this position) -/
def parseEvs (ts : List String) : Option (List (Ev Bytes Nat)) :=
  ts.zipIdx.mapM fun (t, i) =>
    match t.toList with
    | 'i' :: cs => (Hex.decodeTok (String.ofList cs)).map fun b => ⟨b, none⟩
    | 'e' :: cs => (Hex.decodeTok (String.ofList cs)).map fun b => ⟨b, some i⟩
    | _ => none

def parseK (k : String) : Option Nat := if k == "-" then some 0 else k.toNat?.bind fun n => if n == 0 then none else some n

def showEv (e : Ev Bytes Nat) : String :=
  match e.err with
  | none => "i" ++ Hex.encodeTok e.item
  | some p => s!"e{p}/{Hex.encodeTok e.item}"

def showTrace (tr : Trace Bytes Nat) : String :=
  "[" ++ " ".intercalate (tr.map fun (e, a) => showEv e ++ (if a then ":1" else ":0")) ++ "]"

def showItems (xs : List Bytes) : String := "[" ++ " ".intercalate (xs.map Hex.encodeTok) ++ "]"

def showAll (r : List Bytes × Option Nat) : String :=
  s!"items={showItems r.1} err={match r.2 with | none => "nil" | some p => s!"e{p}"}"

def isListing (m : String) : Bool := m == "Repositories" || m == "Tags" || m == "Referrers"

/-- events the wrapped sequence is asked for during one run of the wrapper's iterator -/
def pulled (evs : List (Ev Bytes Nat)) (k : Nat) : Option Nat :=
  if iterKind == "logcb" then
    some (trace (ofEvents evs) (logCb [] (declineAt k)) ⟨0, [], none⟩).length
  else if iterKind == "range" then some (trace (ofEvents evs) (declineAt k) 0).length
  else none

def drive : List String → String
  | ["call", m, v] => driveCall table m v
  | ["wcall", m, v] => driveCall writerTable m v
  | "compose" :: _ => "skip"        -- judged by the composition oracle of the harness
  | "iter" :: m :: k :: evs =>
    match isListing m, parseK k, parseEvs evs with
    | true, some k, some evs =>
      -- the wrapped value is re-iterable: every iteration of it produces `evs`
      match wrapClosure (α := Bytes) (ε := Nat) iterKind [] (countingSource fun _ => evs), pulled evs k with
      | some c, some p =>
        let (a, b) := c.twice 0 (declineAt k) 0
        s!"t1={showTrace a} pulled={p} t2={showTrace b} pulled={p} logged=1"
      | _, _ => "stuck"
    | _, _, _ => "bad-op"
  | "slice" :: k :: items =>
    match parseK k, items.mapM Hex.decodeTok with
    | some k, some xs =>
      let (a, b) := (sliceClosure (α := Bytes) (ε := Nat)).twice xs (declineAt k) 0
      s!"t1={showTrace a} t2={showTrace b}"
    | _, _ => "bad-op"
  | ["errseq", k, e] =>
    match parseK k, (if e == "1" then some (some 0) else if e == "0" then some none else none) with
    | some k, some err =>
      let (a, b) := (errorClosure (α := Bytes) (ε := Nat) []).twice err (declineAt k) 0
      s!"t1={showTrace a} t2={showTrace b}"
    | _, _ => "bad-op"
  | "all" :: src :: evs =>
    match parseEvs evs with
    | none => "bad-op"
    | some evs =>
      if src == "raw" then showAll (all (ofEvents evs))
      else if src == "slice" then
        if evs.all (·.err.isNone) then showAll (all (sliceSeq (ε := Nat) (evs.map (·.item)))) else "bad-op"
      else if src == "errseq" then
        match evs with
        | [e] => if e.item == [] then showAll (all (errorSeq [] e.err)) else "bad-op"
        | _ => "bad-op"
      else if isListing src then
        match debugIter (α := Bytes) (ε := Nat) [] (ofEvents evs) with
        | some it => showAll (all it)
        | none => "stuck"
      else "bad-op"
  | _ => "bad-op"

end OciModel.Driver.Iter
