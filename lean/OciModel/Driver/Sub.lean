import OciModel.Sub
import OciModel.Driver.Scope
import OciModel.Driver.Mem
import OciModel.Driver.Select
namespace OciModel.Driver.Sub
open OciModel OciModel.Sub OciModel.Generated.Sub OciModel.Generated
open OciModel.Select (Call Env Ev feed collectCb)

structure SubState where
  pfx : Bytes := []
  mem : Mem.State := Mem.init false

/-- the name map of the current source (identity for the empty prefix: `Sub` returns `r`) -/
def nameMap (p : Bytes) : Bytes → Bytes :=
  if p.isEmpty then id else fun n => (mapNameBy repoMap p n).getD (strBytes "?stuck")

def startMapped : Bool :=
  match table.find? (·.method == "Repositories") with
  | some r => r.callArgs.any (·.mapped)
  | none => false

def envOf (m : String) (ps : List String) (r1 r2 : Bytes) : Env :=
  let ips := (ifaceParamNames m).getD []
  let vals : List (String × Bytes) := (ps.zip ips).zipIdx.map fun ((p, ip), i) =>
    (p, if ip == "repo" || ip == "fromRepo" || (m == "Repositories" && ip == "startAfter") then r1 else if ip == "toRepo" then r2 else strBytes s!"arg{i}")
  fun p => (vals.lookup p).getD (strBytes ("unbound:" ++ p))

def showScope (s : Scope.Scope) : String :=
  if s.unlimited then "*"
  else match Scope.iter s with
    | [] => "-"
    | items => "[" ++ " ".intercalate (items.map Driver.Scope.showRS) ++ "]"

/-- string-typed parameters print as tokens, the others as `=` (passed on as is) -/
def showArgs (m : String) (r : Row) (args : List Bytes) : String :=
  let tys := ((Iface.methodParams.lookup m).getD []).map (·.2)
  ",".intercalate (((args.zip r.callArgs).zip tys).map fun ((v, a), ty) =>
    if ty == "string" then Hex.encodeTok v else if a.mapped then "!" else "=")

def parseScope : List String → Option Scope.Scope
  | ["absent"] => some Scope.empty
  | ["unlimited"] => some Scope.unlimitedScope
  | "new" :: rest => (Driver.Scope.triples rest).map Scope.newScope
  | _ => none

def runCall (p : Bytes) (env : Env) (sc : Scope.Scope) (r : Row) : Res :=
  if p.isEmpty then
    (if constructorKnown then .ok ⟨r.method, r.params.map env⟩ sc else .stuck)
  else call p env sc r

def mapOp (f : Bytes → Bytes) : Mem.Op → Mem.Op
  | .getBlob r d => .getBlob (f r) d
  | .getBlobRange r d a b => .getBlobRange (f r) d a b
  | .getManifest r d => .getManifest (f r) d
  | .getTag r t => .getTag (f r) t
  | .resolveBlob r d => .resolveBlob (f r) d
  | .resolveManifest r d => .resolveManifest (f r) d
  | .resolveTag r t => .resolveTag (f r) t
  | .pushBlob r d x => .pushBlob (f r) d x
  | .pushChunked r => .pushChunked (f r)
  | .resume r i o => .resume (f r) i o
  | .wWrite r i x => .wWrite (f r) i x
  | .wSize r i => .wSize (f r) i
  | .wCancel r i => .wCancel (f r) i
  | .wCommit r i d => .wCommit (f r) i d
  | .mount a b d => .mount (f a) (f b) d
  | .pushManifest r t x m dec => .pushManifest (f r) t x m dec
  | .deleteBlob r d => .deleteBlob (f r) d
  | .deleteManifest r d => .deleteManifest (f r) d
  | .deleteTag r t => .deleteTag (f r) t
  | .repositories s => .repositories (if startMapped then f s else s)
  | .tags r s => .tags (f r) s
  | .referrers r d => .referrers (f r) d

def isRepositories : Mem.Op → Bool
  | .repositories _ => true
  | _ => false

def insertU (k : Bytes) : List Bytes → List Bytes
  | [] => [k]
  | x :: xs => match compare k x with
    | .lt => k :: x :: xs
    | .eq => x :: xs
    | .gt => x :: insertU k xs

def insertAt {α} (x : α) : Nat → List α → List α
  | 0, l => x :: l
  | _ + 1, [] => []
  | n + 1, y :: l => y :: insertAt x n l

/--
`sub call <prefix> <Method> <n1> <n2> absent|unlimited|new <t r a>*`
`sub list <prefix> <start> <stop> <errAt|-1> <names|->`
`sub meminit <prefix>` · `sub memraw <mem op…>` · `sub mem <mem op…>` -/
def drive (st : SubState) : List String → SubState × String
  | "uploadid" :: _ => (st, "skip")   -- the view over an HTTP client whose upload IDs are URLs: judged by the oracle (F45)
  | "call" :: p :: m :: n1 :: n2 :: scope =>
    (st, match Hex.decodeTok p, table.find? (·.method == m), Hex.decodeTok n1, Hex.decodeTok n2, parseScope scope with
      | some p, some r, some n1, some n2, some sc =>
        match runCall p (envOf m r.params n1 n2) sc r with
        | .ok c sc' => s!"call={c.method}({showArgs m r c.args}) scope={showScope sc'}"
        | .panic => "panic"
        | .stuck => "stuck"
      | _, _, _, _, _ => "bad-op")
  | ["list", p, start, stop, errAt, names] =>
    (st, match Hex.decodeTok p, Hex.decodeTok start, stop.toNat?, errAt.toInt?, (Driver.Select.commaList names).mapM Hex.decodeTok,
          table.find? (·.method == "Repositories") with
      | some p, some start, some k, some errAt, some names, some r =>
        match runCall p (fun _ => start) Scope.empty r with
        | .ok c _ =>
          let bstart := c.args.headD []
          let items : List (Ev String) := ((names.foldr insertU []).filter fun x => compare bstart x == .lt).map .item
          let evs := if errAt < 0 then items else insertAt (.error "!b") errAt.toNat items
          let got :=
            if p.isEmpty then (feed (collectCb k) evs []).1
            else if r.shape == "strip" then (feed (stripCb p (collectCb k)) evs []).1 else []
          s!"start={Hex.encodeTok bstart} events=[{" ".intercalate (got.map Driver.Select.showEv)}]"
        | .panic => "panic"
        | .stuck => "stuck"
      | _, _, _, _, _, _ => "bad-op")
  | ["meminit", p] =>
    match Hex.decodeTok p with
    | some p => ({ pfx := p, mem := Mem.init false }, "ok")
    | none => (st, "bad-op")
  | "memraw" :: toks =>
    match Driver.Mem.parseOp toks with
    | none => (st, "bad-op")
    | some op =>
      let (m, out) := Mem.step Driver.Mem.H st.mem op
      ({ st with mem := m }, Driver.Mem.showOut out)
  | "mem" :: toks =>
    match Driver.Mem.parseOp toks with
    | none => (st, "bad-op")
    | some op =>
      let (m, out) := Mem.step Driver.Mem.H st.mem (mapOp (nameMap st.pfx) op)
      let out' := match out with
        | .okList items =>
          if isRepositories op && !st.pfx.isEmpty then .okList (items.filterMap (stripName st.pfx)) else out
        | o => o
      ({ st with mem := m }, Driver.Mem.showOut out')
  | _ => (st, "bad-op")

end OciModel.Driver.Sub
