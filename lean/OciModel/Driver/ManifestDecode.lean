/-
Line protocol for the manifest decoder (token `mjson`); the state is the registry model's.

  mjson decode <mediaType> <data>          refs <n> {<kind> <mediaType> <digest> <size>} | malformed | opaque
                                           (the text of the hint the harness computes with the Go decoder)
  mjson push <repo> <tag> <data> <mt>      `mem pushmanifest` with the references decoded by the MODEL
  mjson valid <data>                       1 | 0           (`json.Valid`)
  mjson tree <data>                        the value tree  | invalid
-/
import OciModel.ManifestDecode
import OciModel.Driver.Mem
namespace OciModel.Driver.ManifestDecode
open OciModel OciModel.Json OciModel.Mem OciModel.ManifestDecode

def showDecoded : Decoded → String
  | .opaque => "opaque"
  | .malformed => "malformed"
  | .refs rs =>
    s!"refs {rs.length}" ++ String.join (rs.map fun r =>
      s!" {r.kind} {Hex.encodeTok r.desc.mediaType} {Hex.encodeTok r.desc.digest} {r.desc.size}")

mutual
def showTree : JVal → String
  | .null => "n"
  | .bool true => "t"
  | .bool false => "f"
  | .num t => "#" ++ Hex.encodeTok t
  | .str s => "s" ++ Hex.encodeTok s
  | .arr xs => "[" ++ showTreeL xs ++ "]"
  | .obj kvs => "{" ++ showTreeM kvs ++ "}"
def showTreeL : List JVal → String
  | [] => ""
  | x :: xs => showTree x ++ " " ++ showTreeL xs
def showTreeM : List (Bytes × JVal) → String
  | [] => ""
  | (k, v) :: kvs => Hex.encodeTok k ++ ":" ++ showTree v ++ " " ++ showTreeM kvs
end

def drive (st : State) : List String → State × String
  | ["decode", mt, data] =>
    match Hex.decodeTok mt, Hex.decodeTok data with
    | some mt, some data => (st, showDecoded (decodeRefs mt data))
    | _, _ => (st, "bad-op")
  | ["push", r, t, data, mt] =>
    match Hex.decodeTok r, Hex.decodeTok t, Hex.decodeTok data, Hex.decodeTok mt with
    | some r, some t, some data, some mt =>
      let (st', out) := step OciModel.Driver.Mem.H st (.pushManifest r t data mt (decodeRefs mt data))
      (st', OciModel.Driver.Mem.showOut out)
    | _, _, _, _ => (st, "bad-op")
  | ["valid", data] =>
    match Hex.decodeTok data with
    | some data => (st, if (parse data).isSome then "1" else "0")
    | none => (st, "bad-op")
  | ["tree", data] =>
    match Hex.decodeTok data with
    | some data =>
      match parse data with
      | some v => (st, showTree v)
      | none => (st, "invalid")
    | none => (st, "bad-op")
  | _ => (st, "bad-op")

end OciModel.Driver.ManifestDecode
