import OciModel.WrapRO
import OciModel.Driver.Mem
namespace OciModel.Driver.WrapRO
open OciModel OciModel.WrapRO
open OciModel.Mem (Op Out)

structure WrapState where
  kind : String := "ro"
  mem  : Mem.State := Mem.init false
  /-- `wrap race <pushmanifest …>`: a competitor's push, performed directly on the underlying
  registry right after the next `PushManifest` that reaches it through the wrapper. -/
  pending : Option Op := none

def B : Backend Mem.State := Mem.step Driver.Mem.H

/-- The underlying registry with the armed competitor in front of it. -/
def Braced : Backend (Mem.State × Option Op) := fun s op =>
  match op, s.2 with
  | .pushManifest _ _ _ _ _, some c => (((B (B s.1 op).1 c).1, none), (B s.1 op).2)
  | _, _ => (((B s.1 op).1, s.2), (B s.1 op).2)

def snapRepo (digests : List Bytes) (name : Bytes) (rp : Mem.Repo) : String :=
  let tags := (Mem.keysAfter rp.tags []).map fun t =>
    Hex.encodeTok t ++ "=" ++ (match Mem.alookup t rp.tags with
      | some d => Hex.encodeTok d.digest
      | none => "?")
  let blobs := (digests.filter fun d => (Mem.alookup d rp.blobs).isSome).map Hex.encodeTok
  let mans := (digests.filter fun d => (Mem.alookup d rp.manifests).isSome).map Hex.encodeTok
  s!"{Hex.encodeTok name}:t[{",".intercalate tags}]:b[{",".intercalate blobs}]:m[{",".intercalate mans}]"

/--
`wrap init ro|imm` · `wrap raw <mem op…>` (on the underlying registry) ·
`wrap via <mem op…>` (through the wrapper) · `wrap snap <digest>*` (dump of the underlying registry) -/
def drive (st : WrapState) : List String → WrapState × String
  | ["init", k] => if k == "ro" || k == "imm" then ({ kind := k, mem := Mem.init false, pending := none }, "ok") else (st, "bad-op")
  | "raw" :: toks =>
    match Driver.Mem.parseOp toks with
    | none => (st, "bad-op")
    | some op =>
      let (m, out) := B st.mem op
      ({ st with mem := m }, Driver.Mem.showOut out)
  | ["rofuncs", _] => (st, "skip")   -- ReadOnly over a function table: judged by the oracle
  | "race" :: toks =>
    match Driver.Mem.parseOp toks with
    | some (.pushManifest r t d mt dec) => ({ st with pending := some (.pushManifest r t d mt dec) }, "ok")
    | _ => (st, "bad-op")
  | "via" :: toks =>
    match Driver.Mem.parseOp toks with
    | none => (st, "bad-op")
    | some op =>
      if st.kind == "ro" then
        match methodOf op with
        | none => (st, "err NO-WRITER")      -- no writer can have been obtained through the wrapper
        | some _ =>
          match roStep B st.mem op with
          | (m, some out, _) => ({ st with mem := m }, Driver.Mem.showOut out)
          | (_, none, _) => (st, "stuck")
      else
        match immStep Driver.Mem.H Braced (st.mem, st.pending) op with
        | ((m, p), some out, _) =>
          ({ st with mem := m, pending := p },
            Driver.Mem.showOut out ++ (if st.pending.isSome && p.isNone then " +raced" else ""))
        | (_, none, _) => (st, "stuck")
  | "snap" :: toks =>
    match toks.mapM Hex.decodeTok with
    | none => (st, "bad-op")
    | some ds =>
      let parts := (Mem.keysAfter st.mem.repos []).map fun r =>
        match Mem.getRepo st.mem r with
        | some rp => snapRepo ds r rp
        | none => "?"
      (st, "snap " ++ " ".intercalate parts)
  | _ => (st, "bad-op")

end OciModel.Driver.WrapRO
