import OciModel.WrapRO
import OciModel.Driver.Mem
namespace OciModel.Driver.WrapRO
open OciModel OciModel.WrapRO
open OciModel.Mem (Op Out)

structure WrapState where
  kind : String := "ro"
  mem  : Mem.State := Mem.init false

def B : Backend Mem.State := Mem.step Driver.Mem.H

def snapRepo (digests : List Bytes) (name : Bytes) (rp : Mem.Repo) : String :=
  let tags := (Mem.keysAfter rp.tags []).map fun t =>
    Hex.encodeTok t ++ "=" ++ (match Mem.alookup t rp.tags with
      | some d => Hex.encodeTok d.digest
      | none => "?")
  let blobs := (digests.filter fun d => (Mem.alookup d rp.blobs).isSome).map Hex.encodeTok
  let mans := (digests.filter fun d => (Mem.alookup d rp.manifests).isSome).map Hex.encodeTok
  s!"{Hex.encodeTok name}:t[{",".intercalate tags}]:b[{",".intercalate blobs}]:m[{",".intercalate mans}]"

/--
`wrap init ro|imm` · `wrap raw <mem op…>` (on the underlying registry) ·
`wrap via <mem op…>` (through the wrapper) · `wrap snap <digest>*` (dump of the underlying registry) -/
def drive (st : WrapState) : List String → WrapState × String
  | ["init", k] => if k == "ro" || k == "imm" then ({ kind := k, mem := Mem.init false }, "ok") else (st, "bad-op")
  | "raw" :: toks =>
    match Driver.Mem.parseOp toks with
    | none => (st, "bad-op")
    | some op =>
      let (m, out) := B st.mem op
      ({ st with mem := m }, Driver.Mem.showOut out)
  | "via" :: toks =>
    match Driver.Mem.parseOp toks with
    | none => (st, "bad-op")
    | some op =>
      if st.kind == "ro" then
        match methodOf op with
        | none => (st, "err NO-WRITER")      -- no writer can have been obtained through the wrapper
        | some _ =>
          match roStep B st.mem op with
          | (m, some out, _) => ({ st with mem := m }, Driver.Mem.showOut out)
          | (_, none, _) => (st, "stuck")
      else
        match immStep Driver.Mem.H B st.mem op with
        | (m, some out, _) => ({ st with mem := m }, Driver.Mem.showOut out)
        | (_, none, _) => (st, "stuck")
  | "snap" :: toks =>
    match toks.mapM Hex.decodeTok with
    | none => (st, "bad-op")
    | some ds =>
      let parts := (Mem.keysAfter st.mem.repos []).map fun r =>
        match Mem.getRepo st.mem r with
        | some rp => snapRepo ds r rp
        | none => "?"
      (st, "snap " ++ " ".intercalate parts)
  | _ => (st, "bad-op")

end OciModel.Driver.WrapRO
