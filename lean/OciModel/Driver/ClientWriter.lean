import OciModel.ClientWriter
/-
Line protocol of sub-check C04W (token `cw`); an answer is four tokens
`<status> <Location> <Range> <OCI-Chunk-Min-Length>` (status 0 = the transport fails; `-` = header absent):

  cw start <hint> <answer>
  cw resume <id|@> <offset|@> <hint> <answer>      `@` = the current writer's ID() / Size()
  cw write <data> <answer>
  cw commit <digest> <answer>
  cw close <answer>
  cw cancel

Output: `<result> | <size=… cs=… id=…|nowriter> |( <METHOD> <url> <content-range|-> <body>)*`.

`net/url` is instantiated by a small parser that agrees with `url.Parse` / `ResolveReference` /
`URL.String` on the values the generator uses: `[scheme://authority]/path[?query]` without escapes
or fragments (a value containing `%` does not parse), and relative paths without a query.
-/
namespace OciModel.Driver.ClientWriter
open OciModel OciModel.ClientWriter

def ownHost : Bytes := strBytes "https://registry.example"

/-- split at the first `?` -/
def splitQuery (s : Bytes) : Bytes × Bytes × Bool :=
  match s.dropWhile (· != 63) with
  | [] => (s, [], false)
  | [_] => (s.takeWhile (· != 63), [], true)
  | _ :: q => (s.takeWhile (· != 63), q, false)

def schemeLen (s : Bytes) : Option Nat :=
  if (strBytes "https://").isPrefixOf s then some 8
  else if (strBytes "http://").isPrefixOf s then some 7
  else none

/-- `url.Parse`: whether the value names a host itself, and the URL -/
def parseURL (s : Bytes) : Option (Bool × Loc) :=
  if s.any (fun c => c == 37 || c < 33 || c == 35 || c == 127) then none
  else
    match schemeLen s with
    | some n =>
      let auth := (s.drop n).takeWhile (fun c => c != 47 && c != 63)
      let host := s.take (n + auth.length)
      let (p, q, f) := splitQuery (s.drop (n + auth.length))
      some (true, { host := if host = ownHost then [] else host, path := p, rawQuery := q, forceQuery := f })
    | none =>
      let (p, q, f) := splitQuery s
      some (false, { host := [], path := p, rawQuery := q, forceQuery := f })

def hexDigitUp (n : Nat) : UInt8 := if n < 10 then UInt8.ofNat (48 + n) else UInt8.ofNat (55 + n)

/-- `url.QueryEscape` -/
def queryEscape (s : Bytes) : Bytes :=
  s.flatMap fun c =>
    if (48 ≤ c && c ≤ 57) || (65 ≤ c && c ≤ 90) || (97 ≤ c && c ≤ 122) || c == 45 || c == 95 || c == 46 || c == 126 then [c]
    else if c == 32 then [43]
    else [37, hexDigitUp (c.toNat / 16), hexDigitUp (c.toNat % 16)]

def env : UrlEnv :=
  { resolve := fun base h =>
      match parseURL h with
      | none => none
      | some (true, u) => some u
      | some (false, u) => some { u with host := base.host }
    parseID := fun id =>
      match parseURL id with
      | none => none
      | some (_, u) => some (u, (strBytes "/").isPrefixOf u.path)
    qesc := queryEscape }

def startURL : Loc := { path := strBytes "/v2/foo/blobs/uploads/" }

/-- `URL.String()` with the client's own scheme and host left out -/
def showLoc (u : Loc) : Bytes :=
  u.host ++ u.path ++ (if u.forceQuery || u.rawQuery != [] then [63] ++ u.rawQuery else [])

structure St where
  w : Option W := none

def showErr : WErr → String
  | .http s => s!"err http:{s}"
  | _ => "err"

def showState : Option W → String
  | none => "nowriter"
  | some w => s!"size={w.size} cs={w.chunkSize} id={Hex.encodeTok (showLoc w.location)}"

def showMethod : Method → String
  | .post => "POST" | .get => "GET" | .patch => "PATCH" | .put => "PUT"

def showReq (r : Req) : String :=
  let cr := match r.contentRange with
    | none => "-"
    | some (a, b) => s!"{a}-{b}"
  s!" {showMethod r.method} {Hex.encodeTok (showLoc r.url)} {cr} {Hex.encodeTok r.body}"

def render (res : String) (w : Option W) (reqs : List Req) : String :=
  res ++ " | " ++ showState w ++ " |" ++ String.join (reqs.map showReq)

def hdr (t : String) : Option Bytes := if t == "-" then some [] else Hex.decodeTok t

def parseAnswer : List String → Option Answer
  | [st, l, r, m] =>
    match st.toNat?, hdr l, hdr r, hdr m with
    | some s, some l, some r, some m => some { status := s, location := l, range := r, chunkMin := m }
    | _, _, _, _ => none
  | _ => none

def drive (st : St) : List String → St × String
  | "start" :: hint :: ans =>
    match hint.toInt?, parseAnswer ans with
    | some h, some a =>
      match start env startURL h a with
      | (.error e, reqs, _) => ({ w := none }, render (showErr e) none reqs)
      | (.ok w, reqs, _) => ({ w := some w }, render "ok" (some w) reqs)
    | _, _ => (st, "bad-op")
  | "resume" :: id :: off :: hint :: ans =>
    let idB : Option Bytes := if id == "@" then st.w.map (fun w => showLoc w.location) else Hex.decodeTok id
    let offI : Option Int := if off == "@" then st.w.map (·.size) else off.toInt?
    if (id == "@" || off == "@") && st.w.isNone then (st, "nowriter")
    else
      match idB, offI, hint.toInt?, parseAnswer ans with
      | some i, some o, some h, some a =>
        match resume env i o h a with
        | (.error e, reqs) => ({ w := none }, render (showErr e) none reqs)
        | (.ok w, reqs) => ({ w := some w }, render "ok" (some w) reqs)
      | _, _, _, _ => (st, "bad-op")
  | "write" :: d :: ans =>
    match st.w, Hex.decodeTok d, parseAnswer ans with
    | none, some _, some _ => (st, "nowriter")
    | some w, some buf, some a =>
      let r := write env w buf a
      let res := match r.out with
        | .ok n => s!"n {n}"
        | .error e => showErr e
      ({ w := some r.w }, render res (some r.w) r.reqs)
    | _, _, _ => (st, "bad-op")
  | "commit" :: d :: ans =>
    match st.w, Hex.decodeTok d, parseAnswer ans with
    | none, some _, some _ => (st, "nowriter")
    | some w, some dg, some a =>
      let r := commit env w dg a
      let res := match r.out with
        | .ok n => s!"desc {n}"
        | .error e => showErr e
      ({ w := some r.w }, render res (some r.w) r.reqs)
    | _, _, _ => (st, "bad-op")
  | "close" :: ans =>
    match st.w, parseAnswer ans with
    | none, some _ => (st, "nowriter")
    | some w, some a =>
      let r := close env w a
      let res := match r.out with
        | .ok _ => "ok"
        | .error e => showErr e
      ({ w := some r.w }, render res (some r.w) r.reqs)
    | _, _ => (st, "bad-op")
  | ["cancel"] =>
    match st.w with
    | none => (st, "nowriter")
    | some w =>
      let r := cancel w
      ({ w := some r.w }, render "ok" (some r.w) r.reqs)
  | _ => (st, "bad-op")

end OciModel.Driver.ClientWriter
