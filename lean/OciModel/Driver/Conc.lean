import OciModel.Driver.Mem
namespace OciModel.Driver.Conc
open OciModel

/-- One completed operation of a concurrent history. -/
structure HOp where
  inv : Nat
  ret : Nat
  out : String
  op  : List String     -- protocol tokens after `mem`
  deriving BEq

/-- Wing–Gong search: pick any pending operation that no other pending operation
strictly precedes in real time, run it on the sequential model, require the
recorded result, recurse. (Bounded exploration in support of the correspondence,
not a proof.) -/
partial def search (st : Mem.State) (pending : List HOp) : Bool :=
  pending.isEmpty ||
  pending.any fun o =>
    (pending.all fun p => !(p.ret < o.inv)) &&
    (let (st', out) := Driver.Mem.drive st o.op
     out == o.out && search st' (pending.filter (· != o)))

/-- split a token list at the markers `|P|`, `|E|` (fuel = number of tokens) -/
def sectionsAux : Nat → List String → List (String × List String)
  | 0, _ => []
  | _, [] => []
  | fuel + 1, t :: rest =>
    if t == "|P|" ∨ t == "|E|" then
      let body := rest.takeWhile fun x => x != "|P|" && x != "|E|"
      (t, body) :: sectionsAux fuel (rest.dropWhile fun x => x != "|P|" && x != "|E|")
    else sectionsAux fuel rest

def sections (l : List String) : List (String × List String) := sectionsAux l.length l

def parseEvent (body : List String) : Option HOp :=
  match body with
  | inv :: ret :: "|O|" :: rest =>
    let out := rest.takeWhile (· != "|L|")
    match rest.dropWhile (· != "|L|") with
    | _ :: "mem" :: op => do
      let i ← inv.toNat?; let r ← ret.toNat?
      pure ⟨i, r, " ".intercalate out, op⟩
    | _ => none
  | _ => none

/-- `conc linhist |P| mem … |E| inv ret |O| out… |L| mem …` -/
def drive : List String → String
  | "linhist" :: rest =>
    let secs := sections rest
    let st := (secs.filter (·.1 == "|P|")).foldl (fun st s =>
      match s.2 with
      | "mem" :: op => (Driver.Mem.drive st op).1
      | _ => st) (Mem.init false)
    match (secs.filter (·.1 == "|E|")).mapM (fun s => parseEvent s.2) with
    | none => "bad-op"
    | some evs => if search st evs then "linearizable" else "not-linearizable"
  | _ => "skip"

end OciModel.Driver.Conc
