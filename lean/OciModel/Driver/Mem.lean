import OciModel.Mem
import OciModel.Sha256
namespace OciModel.Driver.Mem
open OciModel OciModel.Mem

def H : Bytes → Bytes := Sha256.digest

def showDesc (d : Desc) : String := s!"{Hex.encodeTok d.mediaType} {Hex.encodeTok d.digest} {d.size}"

def showOut : Out → String
  | .err c => "err " ++ c
  | .okDesc d => "desc " ++ showDesc d
  | .okRead d data => "read " ++ showDesc d ++ " " ++ Hex.encodeTok data
  | .okList items => "list [" ++ " ".intercalate (items.map Hex.encodeTok) ++ "]"
  | .okDescs items => "descs [" ++ " ".intercalate (items.map fun d => s!"{Hex.encodeTok d.mediaType}:{Hex.encodeTok d.digest}:{d.size}") ++ "]"
  | .okWriter id => "writer " ++ Hex.encodeTok id
  | .okN n => s!"n {n}"
  | .okUnit => "ok"

def parseRefs : Nat → List String → Option (List RefInfo)
  | 0, [] => some []
  | n + 1, k :: mt :: dg :: sz :: rest => do
    let k ← k.toNat?
    let mt ← Hex.decodeTok mt
    let dg ← Hex.decodeTok dg
    let sz ← sz.toInt?
    let rs ← parseRefs n rest
    pure (⟨k, ⟨mt, dg, sz⟩⟩ :: rs)
  | _, _ => none

def parseDecoded : List String → Option Decoded
  | ["opaque"] => some .opaque
  | ["malformed"] => some .malformed
  | "refs" :: n :: rest => do
    let n ← n.toNat?
    let rs ← parseRefs n rest
    pure (.refs rs)
  | _ => none

def parseOp : List String → Option Op
  | ["getblob", r, d] => do pure (.getBlob (← Hex.decodeTok r) (← Hex.decodeTok d))
  | ["getblobrange", r, d, o0, o1] => do pure (.getBlobRange (← Hex.decodeTok r) (← Hex.decodeTok d) (← o0.toInt?) (← o1.toInt?))
  | ["getmanifest", r, d] => do pure (.getManifest (← Hex.decodeTok r) (← Hex.decodeTok d))
  | ["gettag", r, t] => do pure (.getTag (← Hex.decodeTok r) (← Hex.decodeTok t))
  | ["resolveblob", r, d] => do pure (.resolveBlob (← Hex.decodeTok r) (← Hex.decodeTok d))
  | ["resolvemanifest", r, d] => do pure (.resolveManifest (← Hex.decodeTok r) (← Hex.decodeTok d))
  | ["resolvetag", r, t] => do pure (.resolveTag (← Hex.decodeTok r) (← Hex.decodeTok t))
  | ["pushblob", r, mt, dg, sz, data] => do
    pure (.pushBlob (← Hex.decodeTok r) ⟨← Hex.decodeTok mt, ← Hex.decodeTok dg, ← sz.toInt?⟩ (← Hex.decodeTok data))
  | ["pushchunked", r] => do pure (.pushChunked (← Hex.decodeTok r))
  | ["resume", r, id, off] => do pure (.resume (← Hex.decodeTok r) (← Hex.decodeTok id) (← off.toInt?))
  | ["wwrite", r, id, data] => do pure (.wWrite (← Hex.decodeTok r) (← Hex.decodeTok id) (← Hex.decodeTok data))
  | ["wsize", r, id] => do pure (.wSize (← Hex.decodeTok r) (← Hex.decodeTok id))
  | ["wcancel", r, id] => do pure (.wCancel (← Hex.decodeTok r) (← Hex.decodeTok id))
  | ["wcommit", r, id, dg] => do pure (.wCommit (← Hex.decodeTok r) (← Hex.decodeTok id) (← Hex.decodeTok dg))
  | ["mount", f, t, d] => do pure (.mount (← Hex.decodeTok f) (← Hex.decodeTok t) (← Hex.decodeTok d))
  | "pushmanifest" :: r :: t :: data :: mt :: dec => do
    pure (.pushManifest (← Hex.decodeTok r) (← Hex.decodeTok t) (← Hex.decodeTok data) (← Hex.decodeTok mt) (← parseDecoded dec))
  | ["deleteblob", r, d] => do pure (.deleteBlob (← Hex.decodeTok r) (← Hex.decodeTok d))
  | ["deletemanifest", r, d] => do pure (.deleteManifest (← Hex.decodeTok r) (← Hex.decodeTok d))
  | ["deletetag", r, t] => do pure (.deleteTag (← Hex.decodeTok r) (← Hex.decodeTok t))
  | ["repositories", s] => do pure (.repositories (← Hex.decodeTok s))
  | ["tags", r, s] => do pure (.tags (← Hex.decodeTok r) (← Hex.decodeTok s))
  | ["referrers", r, d] => do pure (.referrers (← Hex.decodeTok r) (← Hex.decodeTok d))
  | _ => none

def drive (st : State) : List String → State × String
  | ["init", imm] => (init (imm == "1"), "ok")
  | ["sha256", data] =>
    match Hex.decodeTok data with
    | some b => (st, Hex.encodeTok (H b))
    | none => (st, "bad-op")
  | "bigpush" :: _ => (st, "skip")   -- multi-megabyte manifests: judged by the direct/stack comparison only
  | "bigget" :: _ => (st, "skip")
  | "biggetd" :: _ => (st, "skip")
  | "slowget" :: _ => (st, "skip")
  | toks =>
    match parseOp toks with
    | none => (st, "bad-op")
    | some op =>
      let (st', out) := step H st op
      (st', showOut out)

end OciModel.Driver.Mem
