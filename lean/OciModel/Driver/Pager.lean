import OciModel.Pager
namespace OciModel.Driver.Pager
open OciModel OciModel.Pager

def endName : End → String
  | .done => "done" | .error => "error" | .stopped => "stopped" | .exhausted => "exhausted" | .panic => "panic"

/-- answers: `F` | `P <link -|1|0> <n> <item>*` -/
partial def parseAnswers : List String → Option (List Answer)
  | [] => some []
  | "F" :: rest => (parseAnswers rest).map (Answer.fail :: ·)
  | "P" :: link :: n :: rest => do
    let n ← n.toNat?
    let items ← (rest.take n).mapM Hex.decodeTok
    if items.length ≠ n then none
    let lk : Option Bool := if link == "-" then none else some (link == "1")
    let more ← parseAnswers (rest.drop n)
    pure (Answer.page items lk :: more)
  | _ => none

/-- `pg <pagesize> <k|-> <answers…>` -/
def drive : List String → String
  | n :: k :: rest =>
    match n.toInt?, parseAnswers rest with
    | some n, some as =>
      let kk : Option Nat := if k == "-" then none else k.toNat?
      let r := pagerScript (effectivePageSize n) as kk
      if r.fin == .panic then "panic"
      else s!"yield [{" ".intercalate (r.yielded.map Hex.encodeTok)}] requests={r.requests} end={endName r.fin}"
    | _, _ => "bad-op"
  | _ => "bad-op"

end OciModel.Driver.Pager
