/-
Line protocol for the token-response decoder and its consumer (first token `tokdec`); stateless.

  tokdec doc <body>                    ok <token> <access_token> <refresh_token> <expires_in>
                                       | err-syntax | err-type
                                       (`json.Unmarshal(body, &wireToken{})`)
  tokdec use <body> <elapsedMs> <old>  <first> <second>
        A fresh transport whose configuration holds the refresh token <old> (`x`: none) makes a
        request, is challenged (Bearer), asks the token server and gets <body> with status 200;
        <elapsedMs> later it makes the same request again (the token server then answers with
        another, well-formed document).
        <first>   err            the first call failed (body not decodable, or no access token in it)
                  sent:<tok>     the retried request carried `Bearer <tok>`
        <second>  reuse:<tok>    the second call presented the cached token without asking again
                  ask:<rt>       it asked the token server again: POST with refresh token <rt>,
                                 or GET (`-`) when it holds none
        `skip` when the token's remaining lifetime at the second call is within 600 ms of the
        1 s margin (real time decides, the model has no opinion).
-/
import OciModel.TokenDecode
namespace OciModel.Driver.TokenDecode
open OciModel OciModel.TokenDecode

def showDoc : Except DecodeErr WireToken → String
  | .ok w => s!"ok {Hex.encodeTok w.token} {Hex.encodeTok w.accessToken} {Hex.encodeTok w.refreshToken} {w.expiresIn}"
  | .error .syntax => "err-syntax"
  | .error .type => "err-type"

/-- Tolerated lateness of the second call, in nanoseconds. -/
def slackNs : Int := 600000000

def showRefresh (r : Bytes) : String := if r = [] then "-" else Hex.encodeTok r

/-- The second call at `now2` against state `st`. -/
def secondCall (st : RegSt) (now2 : Int) : String :=
  match (prune now2 st).toks with
  | t :: _ => "reuse:" ++ Hex.encodeTok t.1
  | [] => "ask:" ++ showRefresh st.refresh

/-- Does real time decide? (a cached token whose margin over `now2 + 1 s` is positive but smaller
than the tolerated lateness of the second call) -/
def tooClose (st : RegSt) (now2 : Int) : Bool :=
  st.toks.any fun t => decide (0 < t.2 - (now2 + OciModel.TokenDecode.second)) && decide (t.2 - (now2 + OciModel.TokenDecode.second) < slackNs)

def use (body : Bytes) (elapsedMs : Nat) (old : Bytes) : String :=
  let st0 : RegSt := { refresh := old }
  -- the second call is strictly later than the acquisition, by at least the declared time
  let now2 : Int := (elapsedMs : Int) * 1000000 + 1
  match acquireFromBody st0 body 0 with
  | none => "err " ++ secondCall st0 now2
  | some (st1, .error _) => "err " ++ secondCall st1 now2
  | some (st1, .ok t) =>
    if tooClose st1 now2 then "skip" else "sent:" ++ Hex.encodeTok t ++ " " ++ secondCall st1 now2

def drive : List String → String
  | ["doc", body] =>
    match Hex.decodeTok body with
    | some b => showDoc (decodeToken b)
    | none => "bad-op"
  | ["use", body, el, old] =>
    match Hex.decodeTok body, el.toNat?, Hex.decodeTok old with
    | some b, some e, some o => use b e o
    | _, _, _ => "bad-op"
  | _ => "bad-op"

end OciModel.Driver.TokenDecode
