import OciModel.AuthTransport
/-!
Line protocol for the auth transport model (engines C10 and C11).

  auth cfg <host> <user> <pass> <refresh> <access>      configuration entry (hex tokens)
  auth cfg <host> fail                                  EntryForRegistry fails for host
  auth req <host> <now> <required> <want> <body> <reg0> <reg1> <t000> <t001> <t010> <t011> <t100> <t101> <t110> <t111>
      scopes: hex token of the text given to ParseScope, `-` (none), `*` (unlimited)
      body: n (no body) | g (body with GetBody) | b (body without GetBody)
      registry replies: f | s<status>[,<hex header value>]*
      token replies t<phase><attempt><method>: f | m | s<status> | j,<token>,<access_token>,<refresh_token>,<expires_in>
  auth parse <hex header value>*                        what challengeFromResponse selects

Answer to `req`: `<result> <body> <request> <messages…>`, result = resp:<status> | denied | err.
-/
namespace OciModel.Driver.Auth
open OciModel OciModel.Auth

structure St where
  cfg : List (Bytes × Option ConfigEntry) := []
  sys : Sys := []

def tokS (b : Bytes) : String := Hex.encodeTok b

def parseScopeTok (s : String) : Option Scope.Scope :=
  if s = "-" then some Scope.empty
  else if s = "*" then some Scope.unlimitedScope
  else (Hex.decodeTok s).map Scope.parseScope

def decodeAll : List String → Option (List Bytes)
  | [] => some []
  | s :: rest => do
    let b ← Hex.decodeTok s
    let bs ← decodeAll rest
    pure (b :: bs)

def parseReg (s : String) : Option RegReply :=
  if s = "f" then some .fail else
  match s.splitOn "," with
  | st :: hdrs =>
    match st.toList with
    | 's' :: ds => do
      let n ← (String.ofList ds).toNat?
      let hs ← decodeAll hdrs
      pure (.resp n hs)
    | _ => none
  | [] => none

def parseTok (s : String) : Option TokReply :=
  if s = "f" then some .fail
  else if s = "m" then some .malformed
  else match s.splitOn "," with
  | ["j", t, a, r, e] => do
    let t ← Hex.decodeTok t
    let a ← Hex.decodeTok a
    let r ← Hex.decodeTok r
    let e ← e.toNat?
    pure (.json t a r e)
  | [st] =>
    match st.toList with
    | 's' :: ds => do
      let n ← (String.ofList ds).toNat?
      if n = 200 then none else pure (.status n)
    | _ => none
  | _ => none

/-- The one realm of the generator's table that `url.Parse` refuses starts with ':'. -/
def realmOk (r : Bytes) : Bool := r.head? != some 58

/-- The text `net/url` prints for a realm it has parsed: the realms of the generator's table print back
unchanged except that a backslash (in the path) comes out as `%5C`. -/
def urlText : Bytes → Bytes
  | [] => []
  | c :: r => if c = 92 then 37 :: 53 :: 67 :: urlText r else c :: urlText r

def showAuth : AuthHdr → String
  | .none => "-"
  | .bearer t => "B," ++ tokS t.val
  | .basic u p => "U," ++ tokS u.val ++ "," ++ tokS p.val

def showMsg : Msg → String
  | .registry h a => "R," ++ tokS h ++ "," ++ showAuth a
  | .tokenPOST realm _ rt sc sv => "P," ++ tokS (urlText realm) ++ "," ++ tokS rt.val ++ "," ++ tokS sc ++ "," ++ tokS sv
  | .tokenGET realm _ b sc sv =>
    "G," ++ tokS (urlText realm) ++ "," ++
      (match b with
        | some (u, p) => "U," ++ tokS u.val ++ "," ++ tokS p.val
        | none => "-") ++ "," ++ tokS sc ++ "," ++ tokS sv

def showResult : Result → String
  | .resp n => "resp:" ++ toString n
  | .denied => "denied"
  | .err => "err"

/-- What a transport with Basic credentials visibly does with the selected challenge
(the harness can only observe the unexported parser through the transport). -/
def showHeader : Option Challenge.AuthHeader → String
  | none => "none"
  | some h =>
    if h.scheme = Challenge.sBearer then
      let realm := Challenge.param h Challenge.kRealm
      if realm = [] || !realmOk realm then "bearer-unusable"
      else "bearer " ++ tokS (urlText realm) ++ " " ++ tokS (Challenge.param h Challenge.kService) ++ " " ++
        tokS (Challenge.param h Challenge.kScope)
    else "basic"

def drive (st : St) : List String → St × String
  | ["cfg", host, "fail"] =>
    match Hex.decodeTok host with
    | some h => ({ st with cfg := (h, none) :: st.cfg }, "ok")
    | none => (st, "bad-op")
  | ["cfg", host, u, p, r, a] =>
    match Hex.decodeTok host, Hex.decodeTok u, Hex.decodeTok p, Hex.decodeTok r, Hex.decodeTok a with
    | some h, some u, some p, some r, some a =>
      ({ st with cfg := (h, some ⟨r, a, u, p⟩) :: st.cfg }, "ok")
    | _, _, _, _, _ => (st, "bad-op")
  | "parse" :: hdrs =>
    match decodeAll hdrs with
    | some hs =>
      (st, match Challenge.challengeFromResponse hs with
        | .ok r => showHeader r
        | .err e => "err " ++ e
        | .panic _ => "panic")
    | none => (st, "bad-op")
  | ["req", host, now, required, want, body, r0, r1, t000, t001, t010, t011, t100, t101, t110, t111] =>
    let parsed : Option (Bytes × Nat × ReqInfo × Env) := do
      let h ← Hex.decodeTok host
      let now ← now.toNat?
      let rq ← parseScopeTok required
      let wt ← parseScopeTok want
      let r0 ← parseReg r0
      let r1 ← parseReg r1
      let a ← parseTok t000; let b ← parseTok t001; let c ← parseTok t010; let d ← parseTok t011
      let e ← parseTok t100; let f ← parseTok t101; let g ← parseTok t110; let i ← parseTok t111
      let env : Env :=
        { reg := fun n => if n = 0 then r0 else r1
          tok := fun ph att m =>
            match ph, att, m with
            | 0, 0, 0 => a | 0, 0, _ => b | 0, _, 0 => c | 0, _, _ => d
            | _, 0, 0 => e | _, 0, _ => f | _, _, 0 => g | _, _, _ => i
          realmOk := realmOk }
      pure (h, now, ⟨rq, wt⟩, env)
    match parsed with
    | none => (st, "bad-op")
    | some (h, now, req, env) =>
      if body != "n" && body != "g" && body != "b" then (st, "bad-op") else
      let cfg : Config := fun host => (st.cfg.lookup host).getD (some ⟨[], [], [], []⟩)
      let (sys', ms, r) := sysStep cfg env now st.sys h req
      -- a token server that answers 307/308: the model takes it for what it is to the flow, a failed
      -- token request (the state is the same), but net/http follows the redirect on its own and the
      -- messages differ: the line is left to the oracle (recorded finding F28)
      let redirects := [t000, t001, t010, t011, t100, t101, t110, t111].any fun t => t == "s307" || t == "s308"
      ({ st with sys := sys' },
        if redirects then "skip" else
        " ".intercalate ([showResult r, if body = "n" then "nobody" else "closed", "same"] ++ ms.map showMsg))
  | ["sleep", _] => (st, "ok")
  | ["batch", _] => (st, "ok")
  | ["batch", _, "hold", _] => (st, "ok")
  | "breq" :: _ => (st, "batched")
  | "areq" :: _ => (st, "skip")   -- a request after a concurrent batch: the state then depends on the schedule
  | _ => (st, "bad-op")

end OciModel.Driver.Auth
