import OciModel.AuthFile
/-!
Line protocol for the C19 model (first token `authfile` already removed).

  json <raw>                         start a document (raw text is for the implementation only)
  nofile                             start a case without any config file
  parsed err | parsed ok <credsStore>   what the JSON parser (a parameter) made of the raw text
  auth <key> <username> <password> <auth> <identitytoken> <registrytoken>
  helper <host> <name>               credHelpers entry
  run <name> <host> ok <user> <pass> <refresh> <access> | notfound | missing | error
                                     behaviour of the helper runner (default: notfound)
  order <key>*                       visiting sequence for the loop over the map (default: auth lines in order)
  b64 <user> <pass>                  → base64(user ":" pass) as a token
  load <docker|home|xdg> <seed>      → ok | err | nodoc (no json/nofile line yet)
  get <host>                         → ok <user> <pass> <refresh> <access> | err | noload
  exec <name> <host> missing | noexec | fail <code 1..255> <output> | done <output> bad
       | done <output> creds <Username> <Secret> | echo
                                     `ExecHelperWithEnv(env)(name, host)` when the helper program is absent /
                                     cannot be executed / prints <output> and exits <code> / prints <output>
                                     (parsed by the JSON parameter) and exits 0 / prints its standard input as
                                     Username and "echo-secret" as Secret
                                     → ok <user> <pass> <refresh> <access> | missing | err
-/
namespace OciModel.Driver.AuthFile
open OciModel OciModel.AuthFile

structure St where
  started : Bool := false
  parseErr : Bool := false
  store : Bytes := []
  auths : List (Bytes × Entry) := []
  helpers : List (Bytes × Bytes) := []
  runs : List ((Bytes × Bytes) × HelperResult) := []
  order : Option (List Bytes) := none
  /-- `none`: no load yet; `some none`: the load failed; otherwise the configuration and the
  runner table as they were when `load` ran -/
  loaded : Option (Option (Config × List ((Bytes × Bytes) × HelperResult))) := none

def runner (runs : List ((Bytes × Bytes) × HelperResult)) : Runner := fun name host =>
  (runs.lookup (name, host)).getD (.ok {})

def toks (ts : List String) : Option (List Bytes) := ts.mapM Hex.decodeTok

def showEntry : Option ConfigEntry → String
  | none => "err"
  | some e => "ok " ++ Hex.encodeTok e.username ++ " " ++ Hex.encodeTok e.password ++ " " ++
      Hex.encodeTok e.refreshToken ++ " " ++ Hex.encodeTok e.accessToken

def alnum (c : UInt8) : Bool := (48 ≤ c && c ≤ 57) || (65 ≤ c && c ≤ 90) || (97 ≤ c && c ≤ 122)
/-- names the harness can use as a file name / echo through a shell script -/
def safeName (b : Bytes) : Bool := !b.isEmpty && b.all fun c => alnum c || c == 46 || c == 95 || c == 45
def safeHost (b : Bytes) : Bool := b.all fun c => alnum c || c == 46 || c == 58 || c == 45

def showHelper : HelperResult → String
  | .ok e => showEntry (some e)
  | .notFound => "missing"
  | .otherErr => "err"

def echoSecret : Bytes := [101, 99, 104, 111, 45, 115, 101, 99, 114, 101, 116]   -- "echo-secret"

def driveExec (_name host : Bytes) : List String → String
  | ["missing"] => showHelper (execHelper .notFound)
  | ["noexec"] => showHelper (execHelper .cannotRun)
  | ["fail", code, out] =>
    match code.toNat?, Hex.decodeTok out with
    | some n, some out => if 1 ≤ n && n ≤ 255 then showHelper (execHelper (.exitError out)) else "bad-op"
    | _, _ => "bad-op"
  | ["done", out, "bad"] => if (Hex.decodeTok out).isSome then showHelper (execHelper (.exited none)) else "bad-op"
  | ["done", out, "creds", u, s] =>
    match Hex.decodeTok out, Hex.decodeTok u, Hex.decodeTok s with
    | some _, some u, some s => showHelper (execHelper (.exited (some (u, s))))
    | _, _, _ => "bad-op"
  | ["echo"] => if safeHost host then showHelper (execHelper (.exited (some (host, echoSecret)))) else "bad-op"
  | _ => "bad-op"

def drive (st : St) : List String → St × String
  | ["json", raw] => if (Hex.decodeTok raw).isSome then ({ started := true }, "ok") else (st, "bad-op")
  | ["nofile"] => ({ started := true }, "ok")
  | ["parsed", "err"] => ({ st with parseErr := true }, "ok")
  | ["parsed", "ok", s] =>
    match Hex.decodeTok s with
    | some s => ({ st with parseErr := false, store := s }, "ok")
    | none => (st, "bad-op")
  | "auth" :: rest =>
    match toks rest with
    | some [k, u, p, a, i, r] =>
      ({ st with auths := st.auths ++ [(k, { username := u, password := p, auth := a,
                                              identityToken := i, registryToken := r })] }, "ok")
    | _ => (st, "bad-op")
  | "helper" :: rest =>
    match toks rest with
    | some [h, n] => ({ st with helpers := st.helpers ++ [(h, n)] }, "ok")
    | _ => (st, "bad-op")
  | "run" :: n :: h :: beh =>
    match Hex.decodeTok n, Hex.decodeTok h with
    | some n, some h =>
      let add (r : HelperResult) : St × String := ({ st with runs := st.runs ++ [((n, h), r)] }, "ok")
      match beh with
      | ["notfound"] => add (.ok {})
      | ["missing"] => add .notFound
      | ["error"] => add .otherErr
      | "ok" :: rest =>
        match toks rest with
        | some [u, p, r, a] => add (.ok { username := u, password := p, refreshToken := r, accessToken := a })
        | _ => (st, "bad-op")
      | _ => (st, "bad-op")
    | _, _ => (st, "bad-op")
  | "order" :: rest =>
    match toks rest with
    | some ks => ({ st with order := some ks }, "ok")
    | none => (st, "bad-op")
  | ["b64", u, p] =>
    match Hex.decodeTok u, Hex.decodeTok p with
    | some u, some p => (st, Hex.encodeTok (Base64.encode (u ++ 58 :: p)))
    | _, _ => (st, "bad-op")
  | ["load", loc, _] =>
    if !(loc == "docker" || loc == "home" || loc == "xdg") then (st, "bad-op")
    else if !st.started then (st, "nodoc")
    else if st.parseErr then ({ st with loaded := some none }, "err")
    else
      let v := st.order.getD (st.auths.map Prod.fst)
      match decodeWith st.auths v with
      | some m =>
        ({ st with loaded := some (some ({ auths := m, credsStore := st.store, credHelpers := st.helpers }, st.runs)) }, "ok")
      | none => ({ st with loaded := some none }, "err")
  | ["get", h] =>
    match Hex.decodeTok h with
    | none => (st, "bad-op")
    | some h =>
      match st.loaded with
      | some (some (c, runs)) => (st, showEntry (entryForRegistry c (runner runs) h))
      | _ => (st, "noload")
  | "exec" :: n :: h :: rest =>
    match Hex.decodeTok n, Hex.decodeTok h with
    | some n, some h => if safeName n then (st, driveExec n h rest) else (st, "bad-op")
    | _, _ => (st, "bad-op")
  | _ => (st, "bad-op")

end OciModel.Driver.AuthFile
