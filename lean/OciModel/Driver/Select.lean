import OciModel.Select
namespace OciModel.Driver.Select
open OciModel OciModel.Select OciModel.Generated.Select OciModel.Generated

def kindLetter : Kind → String
  | .read => "r" | .write => "w" | .delete => "d" | .list => "l"

def commaList (s : String) : List String := if s == "-" then [] else s.splitOn ","

/-- `ac` policies: a list of denied cells `<nametok>.<r|w|d|l>`; the error is the cell. -/
def cellPolicy (cells : List String) : Policy String := fun name k =>
  let c := Hex.encodeTok name ++ "." ++ kindLetter k
  if cells.contains c then some c else none

/-- `sel` policies: the list of allowed names. -/
def allowOf (names : List String) : Bytes → Bool := fun n => names.contains (Hex.encodeTok n)

def policyOf (wrapper pol : String) : Policy String :=
  if wrapper == "sel" then selectPolicy (allowOf (commaList pol)) else cellPolicy (commaList pol)

/-- Parameter values of a call: repository parameters (by the interface's names)
get the given names, every other parameter a value unique to its position. -/
def envOf (m : String) (ps : List String) (r1 r2 : Bytes) : Env :=
  let ips := (ifaceParamNames m).getD []
  let vals : List (String × Bytes) := (ps.zip ips).zipIdx.map fun ((p, ip), i) =>
    (p, if ip == "repo" || ip == "fromRepo" then r1 else if ip == "toRepo" then r2 else strBytes s!"arg{i}")
  fun p => (vals.lookup p).getD (strBytes ("unbound:" ++ p))

def showCalls (r : Row) (env : Env) (cs : List Call) : String :=
  if cs.isEmpty then "-"
  else "+".intercalate (cs.map fun c => c.method ++ (if c.args == r.params.map env then "(same)" else "(differ)"))

def showEv : Ev String → String
  | .item n => Hex.encodeTok n
  | .error e => if e == "!b" then "!b" else "!p:" ++ e

def parseEvs (s : String) : Option (List (Ev String)) :=
  (commaList s).mapM fun t => if t == "!" then some (.error "!b") else (Hex.decodeTok t).map .item

/--
`<ac|sel> call <Method> <repo1> <repo2> <policy>`
`<ac|sel> list <start> <stop> <backend events> <policy>` -/
def drive (wrapper : String) : List String → String
  | ["call", m, r1, r2, pol] =>
    if m == "Repositories" then "bad-op" else
    match table.find? (·.method == m), Hex.decodeTok r1, Hex.decodeTok r2 with
    | some r, some r1, some r2 =>
      let env := envOf m r.params r1 r2
      let out := call (policyOf wrapper pol) (fun (_ : Call) => ()) env r
      match out.res with
      | .rejected e => s!"rejected {e} calls={showCalls r env out.calls}"
      | .returned _ => s!"returned backend calls={showCalls r env out.calls}"
      | .stuck => "stuck"
    | _, _, _ => "bad-op"
  | ["list", start, stop, evs, pol] =>
    match table.find? (·.method == "Repositories"), Hex.decodeTok start, stop.toNat?, parseEvs evs with
    | some r, some start, some k, some evs =>
      let env : Env := fun _ => start
      match repositories (policyOf wrapper pol) (fun _ => evs) env r (collectCb k) [] with
      | none => "stuck"
      | some (got, calls, pulled) =>
        s!"events=[{" ".intercalate (got.map showEv)}] pulled={pulled} call={showCalls r env calls}"
    | _, _, _, _ => "bad-op"
  | "nest" :: _ => "skip"   -- two wrappers stacked: judged by the composition oracle of the harness
  | _ => "bad-op"

end OciModel.Driver.Select
