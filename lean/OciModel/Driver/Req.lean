import OciModel.ReqCodec
import OciModel.B64Url
namespace OciModel.Driver.Req
open OciModel OciModel.ReqCodec

def kindName : Kind → String
  | .ping => "ReqPing" | .blobGet => "ReqBlobGet" | .blobHead => "ReqBlobHead" | .blobDelete => "ReqBlobDelete"
  | .blobStartUpload => "ReqBlobStartUpload" | .blobUploadBlob => "ReqBlobUploadBlob" | .blobMount => "ReqBlobMount"
  | .blobUploadInfo => "ReqBlobUploadInfo" | .blobUploadChunk => "ReqBlobUploadChunk" | .blobCompleteUpload => "ReqBlobCompleteUpload"
  | .manifestGet => "ReqManifestGet" | .manifestHead => "ReqManifestHead" | .manifestPut => "ReqManifestPut"
  | .manifestDelete => "ReqManifestDelete" | .tagsList => "ReqTagsList" | .referrersList => "ReqReferrersList"
  | .catalogList => "ReqCatalogList"

def allKinds : List Kind := [.ping, .blobGet, .blobHead, .blobDelete, .blobStartUpload, .blobUploadBlob, .blobMount,
  .blobUploadInfo, .blobUploadChunk, .blobCompleteUpload, .manifestGet, .manifestHead, .manifestPut, .manifestDelete,
  .tagsList, .referrersList, .catalogList]

def errName : PErr → String
  | .unknownPath => "unknown-path" | .methodNotAllowed => "method-not-allowed" | .nameInvalid => "name-invalid"
  | .digestInvalid => "digest-invalid" | .notFound => "not-found" | .badlyFormedDigest => "badly-formed-digest"
  | .badRequest => "bad-request" | .badUploadID => "bad-upload-id" | .badQuery => "bad-query"

def showReq (r : Request) : String :=
  s!"ok {kindName r.kind} {Hex.encodeTok r.repo} {Hex.encodeTok r.digest} {Hex.encodeTok r.tag} {Hex.encodeTok r.fromRepo} {Hex.encodeTok r.uploadID} {r.listN} {Hex.encodeTok r.listLast}"

def pairs : List String → Option (List (Bytes × Bytes))
  | [] => some []
  | k :: v :: rest => do
    let k ← Hex.decodeTok k; let v ← Hex.decodeTok v
    let r ← pairs rest
    pure ((k, v) :: r)
  | _ => none

/-- `parse <method> <path> <queryerr 0|1> (<key> <value>)*`
    `construct <kind> <repo> <digest> <tag> <from> <uploadID> <n> <last>` → `<method> <path> (<key> <value>)*`
    `parserange <a> <b>`, `rangestring <s> <e>`, `chunkrange <hdr: - | a b> <contentLength>` -/
def drive : List String → String
  | "parse" :: m :: p :: qerr :: rest =>
    match Hex.decodeTok m, Hex.decodeTok p, pairs rest with
    | some m, some p, some ps =>
      if qerr == "1" then "err bad-query"
      else match parse B64Url.decode B64Url.validUTF8 m p (qget ps) with
        | .ok r => showReq r
        | .error e => "err " ++ errName e
    | _, _, _ => "bad-op"
  | ["construct", k, repo, dg, tag, fr, id, n, last] =>
    match allKinds.find? (fun x => kindName x == k), Hex.decodeTok repo, Hex.decodeTok dg, Hex.decodeTok tag,
          Hex.decodeTok fr, Hex.decodeTok id, n.toInt?, Hex.decodeTok last with
    | some k, some repo, some dg, some tag, some fr, some id, some n, some last =>
      let (m, p, q) := construct B64Url.encode ⟨k, repo, dg, tag, fr, id, n, last⟩
      s!"{Hex.encodeTok m} {Hex.encodeTok p}" ++ String.join (q.map fun (k, v) => s!" {Hex.encodeTok k} {Hex.encodeTok v}")
    | _, _, _, _, _, _, _, _ => "bad-op"
  | ["parserange", a, b] =>
    match a.toInt?, b.toInt? with
    | some a, some b => let (s, e) := parseRange a b; s!"{s} {e}"
    | _, _ => "bad-op"
  | ["rangestring", s, e] =>
    match s.toInt?, e.toInt? with
    | some s, some e => let (a, b) := rangeString s e; s!"{a}-{b}"
    | _, _ => "bad-op"
  | ["chunkrange", "-", cl] =>
    match cl.toInt? with
    | some cl => match chunkRange none cl with | some (s, e) => s!"{s} {e}" | none => "err"
    | none => "bad-op"
  | ["chunkrange", a, b, cl] =>
    match a.toInt?, b.toInt?, cl.toInt? with
    | some a, some b, some cl => match chunkRange (some (a, b)) cl with | some (s, e) => s!"{s} {e}" | none => "err"
    | _, _, _ => "bad-op"
  | _ => "bad-op"

end OciModel.Driver.Req
