import OciModel.UnifyConc
namespace OciModel.Driver.UnifyConc
open OciModel.UnifyConc

/-! `conc allowed <style r|d> <ok0> <ok1> <stub0> <stub1> <events>`

The harness (`harness/c16.go`) drives the real `ociunify` with gated members and
issues environment events in a fixed order:

    R0 R1  open the gate of member 0 / 1 (the member's call may return from now on)
    X      the caller cancels its context
    W      wait until the call has returned
    C      the caller closes the reader it was given
    P      R0 and R1 issued from two goroutines at the same moment
    PX0    R0 and X at the same moment;  PX1: R1 and X at the same moment
           (a trailing `r` — Pr, PX0r, PX1r — only swaps the order in which the harness starts
           its two goroutines: the same event for the model)

Two simultaneous events are two events in either order with any number of steps of
the code between them: the set of states after `P` is the union over both orders.

A stubborn member (`stub = 1`) also returns, gate or no gate, once its context
is cancelled. Between two events any number of steps of the code may happen. The
answer is the set of observations the model allows when, after the last event,
the call has returned, the reader (if any) has been closed and nothing can move
any more: `ret=<ok0|ok1|e0|e1|ctx> closed=<c0><c1> ctx=<x0><x1>` joined by `|`,
plus `hang` if some schedule cannot satisfy a `W`. -/

structure X where
  s : St
  g0 : Bool
  g1 : Bool
  deriving DecidableEq

structure Scn where
  cfg : Cfg
  stub0 : Bool
  stub1 : Bool

def gateOpen (sc : Scn) (x : X) (i : Bool) : Bool :=
  (if i then x.g1 else x.g0) || ((if i then sc.stub1 else sc.stub0) && (x.s.cancel i || x.s.callerCancelled))

/-- Steps of the code, with a member returning only when its gate allows it. -/
def sys (sc : Scn) (x : X) : List X :=
  ((if gateOpen sc x false then memberReturn x.s false else []) ++
   (if gateOpen sc x true then memberReturn x.s true else []) ++
   deliver sc.cfg x.s false ++ deliver sc.cfg x.s true ++
   release sc.cfg x.s false ++ release sc.cfg x.s true ++ mainCtxDone x.s).map fun s => { x with s := s }

def addNewX (acc : List X) (x : X) : List X := if acc.contains x then acc else x :: acc

/-- Everything reachable by steps of the code. -/
def star (sc : Scn) : Nat → List X → List X → List X
  | 0, seen, _ => seen
  | _ + 1, seen, [] => seen
  | n + 1, seen, frontier =>
    let next := (frontier.flatMap (sys sc)).foldl (fun acc x => if acc.contains x || seen.contains x then acc else x :: acc) []
    star sc n (seen ++ next) next

def closure (sc : Scn) (xs : List X) : List X :=
  let xs := xs.foldl addNewX []
  star sc 16 xs xs

/-- One environment event over a set of possible states; the flag reports a possible hang. -/
def event (sc : Scn) (xs : List X) : String → List X × Bool
  | "R0" => ((closure sc xs).map fun x => { x with g0 := true }, false)
  | "R1" => ((closure sc xs).map fun x => { x with g1 := true }, false)
  | "X" => ((closure sc xs).map fun x => { x with s := { x.s with callerCancelled := true } }, false)
  | "W" =>
    let all := closure sc xs
    (all.filter (·.s.main == .returned), all.any fun x => x.s.main != .returned && (sys sc x).isEmpty)
  | "C" =>
    ((closure sc xs).map fun x =>
      match callerClose sc.cfg x.s false ++ callerClose sc.cfg x.s true with
      | s' :: _ => { x with s := s' }
      | [] => x, false)
  | _ => (xs, false)

/-- Two events issued at the same moment: either order, steps of the code in between. -/
def simul (sc : Scn) (xs : List X) (a b : String) : List X × Bool :=
  let ab := event sc (event sc xs a).1 b
  let ba := event sc (event sc xs b).1 a
  (ab.1 ++ ba.1, false)

/-- `event`, plus the simultaneous events. -/
def eventP (sc : Scn) (xs : List X) : String → List X × Bool
  | "P" | "Pr" => simul sc xs "R0" "R1"
  | "PX0" | "PX0r" => simul sc xs "R0" "X"
  | "PX1" | "PX1r" => simul sc xs "R1" "X"
  | ev => event sc xs ev

def b01 (b : Bool) : String := if b then "1" else "0"

def showObs (cfg : Cfg) (s : St) : String :=
  let ret := match s.ret with
    | .none => "none"
    | .res0 => if cfg.ok0 then "ok0" else "e0"
    | .res1 => if cfg.ok1 then "ok1" else "e1"
    | .ctxErr => "ctx"
  s!"ret={ret} closed={b01 s.closed0}{b01 s.closed1} ctx={b01 (s.cancel0 || s.callerCancelled)}{b01 (s.cancel1 || s.callerCancelled)}"

def insertStr (x : String) : List String → List String
  | [] => [x]
  | y :: ys => if x < y then x :: y :: ys else if x == y then y :: ys else y :: insertStr x ys

def allowed (sc : Scn) (events : List String) : String :=
  let (xs, hang) := (events ++ ["W", "C"]).foldl (fun (acc : List X × Bool) ev =>
    let (xs', h) := eventP sc acc.1 ev
    (xs', acc.2 || h)) ([⟨init, false, false⟩], false)
  let final := (closure sc xs).filter fun x => (sys sc x).isEmpty
  let obs := (final.map fun x => showObs sc.cfg x.s).foldr insertStr []
  "|".intercalate (if hang then obs ++ ["hang"] else obs)

def drive : List String → String
  | ["allowed", style, ok0, ok1, stub0, stub1, evs] =>
    let sc : Scn := ⟨⟨ok0 == "1", ok1 == "1", style == "d"⟩, stub0 == "1", stub1 == "1"⟩
    allowed sc (evs.splitOn ",")
  | _ => "bad-op"

end OciModel.Driver.UnifyConc
