import OciModel.Wire
import OciModel.ErrCodecInst
import OciModel.Sha256
import OciModel.Driver.Resp
import OciModel.Driver.Err
/-!
Line protocol of the composed client/server model (engine `C03W`, token `wire1`):

* `wire1 call <opts> <pageSize> <call> <nans> <ans>*` — one interface call on the client, whose transport is the
  server in front of a scripted backend that answers its calls, in order, with `<ans>*`.
  Output: `calls <n> <call>* | <result>` — the calls the backend received and what the caller got.

`<opts>` as in `Driver/Resp.lean`: `<4 bits: referrers-off single-post-off omit-digest omit-link> <max page size>`
`<call>` = `getBlob repo dg | getBlobRange repo dg o0 o1 | getManifest repo dg | getTag repo tag | resolveBlob repo dg
  | resolveManifest repo dg | resolveTag repo tag | pushBlob repo mt dg size content | pushManifest repo tag content mt
  | mountBlob from to dg | deleteBlob repo dg | deleteManifest repo dg | deleteTag repo tag | startUpload repo cs
  | uploadInfo repo id cs | uploadChunk repo id start hint data | uploadCommit repo id start hint data dg
  | tags repo start | repositories start | referrers repo dg`
`<ans>` = `ok <bres>` (as in `Driver/Resp.lean`) `| err <error expression>` (as in `Driver/Err.lean`)
-/
namespace OciModel.Driver.Wire
open OciModel OciModel.RespCodec OciModel.ReqCodec OciModel.Wire
open OciModel.Driver.Resp (P tokS tokB tokI tokN rep liftO pDesc pBRes pOpts showDesc)

def pCall : P Wire.Call := do
  let t ← tokS
  match t with
  | "getBlob" => do let r ← tokB; let d ← tokB; pure (.getBlob r d)
  | "getBlobRange" => do let r ← tokB; let d ← tokB; let a ← tokI; let b ← tokI; pure (.getBlobRange r d a b)
  | "getManifest" => do let r ← tokB; let d ← tokB; pure (.getManifest r d)
  | "getTag" => do let r ← tokB; let t ← tokB; pure (.getTag r t)
  | "resolveBlob" => do let r ← tokB; let d ← tokB; pure (.resolveBlob r d)
  | "resolveManifest" => do let r ← tokB; let d ← tokB; pure (.resolveManifest r d)
  | "resolveTag" => do let r ← tokB; let t ← tokB; pure (.resolveTag r t)
  | "pushBlob" => do
    let r ← tokB; let d ← pDesc; let c ← tokB
    pure (.pushBlob r d c)
  | "pushManifest" => do let r ← tokB; let t ← tokB; let c ← tokB; let mt ← tokB; pure (.pushManifest r t c mt)
  | "mountBlob" => do let f ← tokB; let t ← tokB; let d ← tokB; pure (.mountBlob f t d)
  | "deleteBlob" => do let r ← tokB; let d ← tokB; pure (.deleteBlob r d)
  | "deleteManifest" => do let r ← tokB; let d ← tokB; pure (.deleteManifest r d)
  | "deleteTag" => do let r ← tokB; let t ← tokB; pure (.deleteTag r t)
  | "startUpload" => do let r ← tokB; let cs ← tokI; pure (.startUpload r cs)
  | "uploadInfo" => do let r ← tokB; let id ← tokB; let cs ← tokI; pure (.uploadInfo r id cs)
  | "uploadChunk" => do
    let r ← tokB; let id ← tokB; let s ← tokI; let h ← tokI; let d ← tokB
    pure (.uploadChunk r id s h d)
  | "uploadCommit" => do
    let r ← tokB; let id ← tokB; let s ← tokI; let h ← tokI; let d ← tokB; let dg ← tokB
    pure (.uploadCommit r id s h d dg)
  | "tags" => do let r ← tokB; let s ← tokB; pure (.tags r s)
  | "repositories" => do let s ← tokB; pure (.repositories s)
  | "referrers" => do let r ← tokB; let d ← tokB; pure (.referrers r d)
  | _ => liftO none

def tk (b : Bytes) : String := Hex.encodeTok b

def showCall : Wire.Call → String
  | .getBlob r d => s!"getBlob:{tk r}:{tk d}"
  | .getBlobRange r d a b => s!"getBlobRange:{tk r}:{tk d}:{a}:{b}"
  | .getManifest r d => s!"getManifest:{tk r}:{tk d}"
  | .getTag r t => s!"getTag:{tk r}:{tk t}"
  | .resolveBlob r d => s!"resolveBlob:{tk r}:{tk d}"
  | .resolveManifest r d => s!"resolveManifest:{tk r}:{tk d}"
  | .resolveTag r t => s!"resolveTag:{tk r}:{tk t}"
  | .pushBlob r d c => s!"pushBlob:{tk r}:{tk d.mediaType}:{tk d.digest}:{d.size}:{tk c}"
  | .pushManifest r t c mt => s!"pushManifest:{tk r}:{tk t}:{tk c}:{tk mt}"
  | .mountBlob f t d => s!"mountBlob:{tk f}:{tk t}:{tk d}"
  | .deleteBlob r d => s!"deleteBlob:{tk r}:{tk d}"
  | .deleteManifest r d => s!"deleteManifest:{tk r}:{tk d}"
  | .deleteTag r t => s!"deleteTag:{tk r}:{tk t}"
  | .startUpload r cs => s!"startUpload:{tk r}:{cs}"
  | .uploadInfo r id cs => s!"uploadInfo:{tk r}:{tk id}:{cs}"
  | .uploadChunk r id s h d => s!"uploadChunk:{tk r}:{tk id}:{s}:{h}:{tk d}"
  | .uploadCommit r id s h d dg => s!"uploadCommit:{tk r}:{tk id}:{s}:{h}:{tk d}:{tk dg}"
  | .tags r s => s!"tags:{tk r}:{tk s}"
  | .repositories s => s!"repositories:{tk s}"
  | .referrers r d => s!"referrers:{tk r}:{tk d}"

def pAns : P Answer := do
  let t ← tokS
  match t with
  | "ok" => do let b ← pBRes; pure (.ok b)
  | "err" => fun ts =>
    match Driver.Err.parseErr ts with
    | some (e, rest) => some (.err e, rest)
    | none => none
  | _ => liftO none

/-- an error as the harness observes it: the status of an `HTTPError` in the chain, the code of an
`ociregistry.Error` in the chain -/
def showFault : Fault → String
  | .reg e =>
    let st := match ErrCodec.asHTTP e with | some s => toString s | none => "-"
    let code := match ErrCodec.asOci e with | some w => tk w.1 | none => "-"
    s!"err st={st} code={code}"
  | .cli _ => "err st=- code=-"

def showResult (c : Wire.Call) : Result → String
  | .desc d => Driver.Resp.showCRes (.desc d)
  | .reader d v b => Driver.Resp.showCRes (.reader d v b)
  | .writer loc cs off =>
    match c with
    | .uploadChunk .. => s!"writer {tk loc}"             -- only the location is the writer's afterwards
    | _ => s!"writer {tk loc} {cs} {off}"
  | .unit => "ok"
  | .items l fin =>
    s!"items [{" ".intercalate (l.map tk)}] end=" ++ (match fin with | none => "done" | some f => showFault f)
  | .descs ds => s!"descs {ds.length}" ++ String.join (ds.map fun d => " " ++ showDesc d)
  | .fail f => showFault f
  | .panic => "panic"

/-- the scripted backend: its state is the answers still to give -/
def scripted : SBackend (List Answer) := fun q _ =>
  match q with
  | a :: rest => (rest, a)
  | [] => ([], .err (.plain (strBytes "scripted backend: no answers left")))

def mkCfg (o : SrvOpts) (pageSize : Int) (answers : List Answer) : Cfg :=
  { H := Sha256.digest, o := o,
    -- the harness scripts no subject: a body that is not JSON has none either way
    decSubject := fun _ => some none,
    S := ErrCodec.S, C := ErrCodec.C, compact := ErrCodec.compactJSON, table := ErrCodec.genTable,
    stdMsg := ErrCodec.stdMsg, errBody := errBodyJSON, pageSize := pageSize,
    decTags := decTagsImage, decCatalog := decCatalogImage,
    decIndex := fun body =>
      (answers.findSome? fun a => match a with
        | .ok (.descs ds) => if body = encIndex ds then some ds else none
        | _ => none) }

def drive (ts : List String) : String :=
  match ts with
  | "call" :: rest =>
    (match (do
        let o ← pOpts; let ps ← tokI; let c ← pCall; let n ← tokN; let as ← rep pAns n
        pure (o, ps, c, as) : P _) rest with
     | some ((o, ps, c, as), []) =>
       let cfg := mkCfg o ps as
       let r := hopS cfg (as.length + 1) scripted (as, []) c
       let out := showResult c r.2
       if out == "skip" then "skip"
       else s!"calls {r.1.2.length}" ++ String.join (r.1.2.map fun x => " " ++ showCall x) ++ " | " ++ out
     | _ => "bad-op")
  | _ => "bad-op"

end OciModel.Driver.Wire
