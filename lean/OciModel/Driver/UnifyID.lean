import OciModel.UnifyID
import OciModel.ReqCodec
import OciModel.B64Url
namespace OciModel.Driver.UnifyID
open OciModel OciModel.UnifyID OciModel.ReqCodec

/-! Line protocol of the C15I engine (`harness/c15i.go`); `a`, `b` are the upload IDs the two members
hand out, `id` is an ID a client resumes with (all hex tokens):

    uid enc <a> <b>            the composite ID of a fresh upload                    → id <id>
    uid dec <id>               which member sessions a resumption addresses          → pair <a> <b> | malformed
    uid rt <a> <b>             a fresh upload resumed with the ID it reported        → id <id> pair <a'> <b'>
    uid json <a> <b>           the JSON text inside the composite ID                 → json <text>
    uid http <repo> <a> <b>    the same as rt with ociclient and ociserver in front  → refused | id <id> got <id'> (then <id''> pair … | malformed)
    uid httpres <repo> <id>    a client resumes with <id> through ociclient/ociserver → refused | got <id'> (then <id''> pair … | malformed)

`refused`: the request never reaches the unifier (the HTTP layer has no route for it). `got` is the ID
the unifier is resumed with by the client's first request, `then` the ID of the later requests: the
server answers with the ID of the resumed unified writer (the re-encoding of the pair), and the
client follows it. -/

/-- A resumption over HTTP, from the ID that reaches the unifier. -/
def showHTTP (id : Bytes) : String :=
  match decodeID id with
  | some (a, b) => s!"got {Hex.encodeTok id} then {Hex.encodeTok (encodeID a b)} pair {Hex.encodeTok a} {Hex.encodeTok b}"
  | none => s!"got {Hex.encodeTok id} malformed"

def showDec (id : Bytes) : String :=
  match decodeID id with
  | some (a, b) => s!"pair {Hex.encodeTok a} {Hex.encodeTok b}"
  | none => "malformed"

/-- What the server hands to its backend for the upload-info request a client builds for `id`
(`construct` on the client side, `parse` on the server side, both with the real base64url codec). -/
def throughHTTP (repo id : Bytes) : Option Bytes :=
  let (m, p, q) := construct B64Url.encode { kind := .blobUploadInfo, repo := repo, uploadID := id }
  match parse B64Url.decode B64Url.validUTF8 m p (qget q) with
  | .ok r => if r.kind = .blobUploadInfo ∧ r.repo = repo then some r.uploadID else none
  | .error _ => none

/-- Is `POST /v2/<repo>/blobs/uploads/` routed to the backend? -/
def startRouted (repo : Bytes) : Bool :=
  let (m, p, q) := construct B64Url.encode { kind := .blobStartUpload, repo := repo }
  match parse B64Url.decode B64Url.validUTF8 m p (qget q) with
  | .ok r => r.kind = .blobStartUpload ∧ r.repo = repo
  | .error _ => false

def drive : List String → String
  | ["enc", a, b] =>
    match Hex.decodeTok a, Hex.decodeTok b with
    | some a, some b => "id " ++ Hex.encodeTok (encodeID a b)
    | _, _ => "bad-op"
  | ["json", a, b] =>
    match Hex.decodeTok a, Hex.decodeTok b with
    | some a, some b => "json " ++ Hex.encodeTok (goStrList [a, b])
    | _, _ => "bad-op"
  | ["dec", id] =>
    match Hex.decodeTok id with
    | some id => showDec id
    | none => "bad-op"
  | ["rt", a, b] =>
    match Hex.decodeTok a, Hex.decodeTok b with
    | some a, some b => s!"id {Hex.encodeTok (encodeID a b)} {showDec (encodeID a b)}"
    | _, _ => "bad-op"
  | ["http", repo, a, b] =>
    match Hex.decodeTok repo, Hex.decodeTok a, Hex.decodeTok b with
    | some repo, some a, some b =>
      if !startRouted repo then "refused"
      else
        let id := encodeID a b
        match throughHTTP repo id with
        | some id' => s!"id {Hex.encodeTok id} {showHTTP id'}"
        | none => "refused"
    | _, _, _ => "bad-op"
  | ["httpres", repo, id] =>
    match Hex.decodeTok repo, Hex.decodeTok id with
    | some repo, some id =>
      match throughHTTP repo id with
      | some id' => showHTTP id'
      | none => "refused"
    | _, _ => "bad-op"
  | _ => "bad-op"

end OciModel.Driver.UnifyID
