import OciModel.Pager
import OciModel.Mem
namespace OciModel.Driver.Listing
open OciModel OciModel.Pager

def dedup : List Bytes → List Bytes
  | [] => []
  | x :: xs => x :: dedup (xs.filter (· != x))
termination_by l => l.length
decreasing_by
  simp_wf
  exact Nat.lt_succ_of_le (List.length_filter_le _ _)

/-- `ls <what> <stack> <page size> <server max> <omit link> <k|-> <start> <n> <item>*`:
the listing specification: the visible items strictly after the start point, ascending,
each once, delivered to a consumer that declines at its k-th item; a server page limit
below the client's page size fails the first request. -/
def drive : List String → String
  | "held" :: _ => "skip"
  | "refserr" :: _ => "skip"   -- a backend whose referrers listing fails part-way: complete or an error, judged by the oracle
  | "refs" :: _ => "skip"   -- referrers through the stacks: judged by the oracle against what was pushed
  | "big" :: _ => "skip"    -- ten thousand and more items through the wire: compared with the direct listing by the oracle   -- a listing obtained, the registry changed, the listing then consumed: judged by the oracle
  | what :: stack :: ps :: mx :: _omit :: k :: start :: n :: rest =>
    match ps.toInt?, mx.toNat?, Hex.decodeTok start, n.toNat?, rest.mapM Hex.decodeTok with
    | some ps, some mx, some start, some n, some items =>
      if items.length ≠ n then "bad-op" else
      let layers := stack.splitOn "+"
      let hidden (b : Bytes) : Bool := what == "repos" && layers.contains "select" && b.contains 104
      let L := Mem.sortBytes ((dedup items).filter fun b => !hidden b)
      let vis := after L (some start)
      let eff := effectivePageSize ps
      if layers.contains "wire" ∧ mx > 0 ∧ eff > (mx : Int) then "yield [] end=error calls=1"
      -- a failing member below the wire: the server cannot send half a listing; the request fails
      else if layers.contains "unifyerr" ∧ (layers.dropWhile (· != "unifyerr")).contains "wire" then "yield [] end=error calls=1"
      else
        let kk : Option Nat := if k == "-" then none else k.toNat?
        let (d, _, stop) := deliver vis kk
        -- a member whose listing breaks off: the merged items, then the error, unless the consumer stopped
        -- "unifynf": the second member (items 1 and 2 of every three) ends with NAME_UNKNOWN after its items (F34): an
        -- error unless it delivered nothing, in which case it simply does not know the repository
        let bItems := (items.zipIdx.filter fun p => p.2 % 3 != 0).map (·.1)
        let failing := layers.contains "unifyerr" ||
          (layers.contains "unifynf" && !(after (Mem.sortBytes (dedup bItems)) (some start)).isEmpty)
        let endS := if stop then "stopped" else if failing then "error" else "done"
        let calls := if !stop && failing then d.length + 1 else d.length
        s!"yield [{" ".intercalate (d.map Hex.encodeTok)}] end={endS} calls={calls}"
    | _, _, _, _, _ => "bad-op"
  | _ => "bad-op"

end OciModel.Driver.Listing
