import OciModel.Ref
import OciModel.Generated.RefRe
namespace OciModel.Driver.Ref
open OciModel OciModel.Ref

def b01 (b : Bool) : String := if b then "1" else "0"

def showRef : Option Reference → String
  | none => "err"
  | some r => s!"ok {Hex.encodeTok r.host} {Hex.encodeTok r.repo} {Hex.encodeTok r.tag} {Hex.encodeTok r.digest}"

def drive : List String → String
  | [op, s] =>
    match Hex.decodeTok s with
    | none => "bad-op"
    | some b =>
      match op with
      | "host" => b01 (isHost b)
      | "repo" => b01 (isRepo b)
      | "tag" => b01 (isTag b)
      | "digest" => b01 (isDigest b)
      | "parserel" => showRef (parseRelative b)
      | "parse" => showRef (parse b)
      | _ => "bad-op"
  | [op, h, r, t, d] =>
    match Hex.decodeTok h, Hex.decodeTok r, Hex.decodeTok t, Hex.decodeTok d with
    | some h, some r, some t, some d =>
      match op with
      | "print" => Hex.encodeTok (print ⟨h, r, t, d⟩)
      | "roundtrip" => showRef (parseRelative (print ⟨h, r, t, d⟩))
      | _ => "bad-op"
    | _, _, _, _ => "bad-op"
  | _ => "bad-op"

/-- `rere host|repo|ref <s>`: the regenerated syntax trees of ociref's three patterns run by the derivative
matcher (`matcher_correct`: it decides `lang`). -/
def driveRe : List String → String
  | [op, s] =>
    match Hex.decodeTok s with
    | none => "bad-op"
    | some b =>
      match op with
      | "host" => b01 (OciModel.Generated.RefRe.hostPatRe.matches b)
      | "repo" => b01 (OciModel.Generated.RefRe.repoPatRe.matches b)
      | "ref" => b01 (OciModel.Generated.RefRe.referencePatRe.matches b)
      | _ => "bad-op"
  | _ => "bad-op"

end OciModel.Driver.Ref
