import OciModel.Unify
import OciModel.Driver.Mem
namespace OciModel.Driver.Unify
open OciModel OciModel.Unify

/-! Line protocol of the C15 engine (`harness/c15.go`):

    uni init <policy 0|1> <immutable 0|1>
    uni m0|m1|mb mem <op…>     the operation applied to member 0 / member 1 / both, directly
    uni p0|p1 mem <op…>        same as m0|m1 (marks a probe that follows a write through the unifier)
    uni u mem <op…>            the operation through the unifier (policy of the case)
    uni alt mem <op…>          a read through a unifier with the other policy
    uni snap                   are the members observably equal?
    uni fault <method> <member> <n> <code>   impl-only: the n-th call of one method on one member fails (answer `skip`)
    uni merge <k> <events0> <events1>   mergeIter over two scripted listings, consumer declining call k

Upload IDs: the composite ID of the real unifier is base64url(JSON [id0,id1]);
the protocol writes it `&id0&id1` (the harness translates), and fresh IDs are
`@n` in order of creation on both sides. -/

def amp : UInt8 := 38

def splitAmp (b : Bytes) : List Bytes :=
  (b.foldr (fun c acc => if c = amp then [] :: acc else
    match acc with
    | cur :: rest => (c :: cur) :: rest
    | [] => [[c]]) [[]])

/-- The protocol's stand-in for base64url ∘ JSON: `&a&b&…`. -/
def codec : Codec where
  b64enc := id
  b64dec := some
  jsonEnc := fun l => l.flatMap (fun b => amp :: b)
  jsonDec := fun b =>
    match splitAmp b with
    | [] :: parts => if parts.isEmpty then none else some parts
    | _ => none

structure St where
  u : UState := uinit false
  pol : Policy := .sequential
  canon : List (Bytes × Bytes) := []     -- canonical `@n` ↦ composite ID of the model
  nFresh : Nat := 0

def H := OciModel.Driver.Mem.H

def other : Policy → Policy
  | .sequential => .concurrent
  | .concurrent => .sequential

/-- canonical → model -/
def realID (st : St) (id : Bytes) : Bytes := (Mem.alookup id st.canon).getD id

/-- model → canonical (existing mapping, else allocate when `fresh`) -/
def canonID (st : St) (id : Bytes) (fresh : Bool) : St × Bytes :=
  match st.canon.find? (·.2 = id) with
  | some (c, _) => (st, c)
  | none =>
    if fresh then
      let c := Mem.freshID st.nFresh
      ({ st with canon := (c, id) :: st.canon, nFresh := st.nFresh + 1 }, c)
    else (st, id)

def mapID (f : Bytes → Bytes) : Mem.Op → Mem.Op
  | .resume r id off => .resume r (f id) off
  | .wWrite r id d => .wWrite r (f id) d
  | .wSize r id => .wSize r (f id)
  | .wCancel r id => .wCancel r (f id)
  | .wCommit r id dg => .wCommit r (f id) dg
  | op => op

def isDigestRead : Mem.Op → Bool
  | .getBlob .. | .getBlobRange .. | .getManifest .. | .resolveBlob .. | .resolveManifest .. => true
  | _ => false

/-- Under the concurrent policy either member may answer first: the media type
of a blob both members hold, and the error when both fail, are not determined,
and are not printed. -/
def showLoose : Mem.Out → String
  | .err _ => "err *"
  | .okDesc d => s!"desc * {Hex.encodeTok d.digest} {d.size}"
  | .okRead d data => s!"read * {Hex.encodeTok d.digest} {d.size} {Hex.encodeTok data}"
  | o => OciModel.Driver.Mem.showOut o

def showU (loose : Bool) : UOut → String
  | .out o => if loose then showLoose o else OciModel.Driver.Mem.showOut o
  | .listErr n c => s!"err-after {n} {c}"

def parseEvents (s : String) : Option (Events Bytes) :=
  if s == "-" then some ⟨[], none⟩ else
  (s.splitOn ",").foldr (fun t acc => do
    let ev ← acc
    if t.startsWith "!" then
      (if ev.items.isEmpty && ev.err.isNone then some ⟨[], some (t.drop 1).toString⟩ else none)
    else
      let b ← Hex.decodeTok t
      pure ⟨b :: ev.items, ev.err⟩) (some ⟨[], none⟩)

def showEv : Ev Bytes → String
  | .item x => Hex.encodeTok x
  | .error c => "!" ++ c

def drive (st : St) : List String → St × String
  | ["init", pol, imm] =>
    ({ u := uinit (imm == "1"), pol := if pol == "1" then .concurrent else .sequential }, "ok")
  | "p0" :: "mem" :: rest | "m0" :: "mem" :: rest =>
    let (m, out) := OciModel.Driver.Mem.drive st.u.m0 rest
    ({ st with u := { st.u with m0 := m } }, out)
  | "p1" :: "mem" :: rest | "m1" :: "mem" :: rest =>
    let (m, out) := OciModel.Driver.Mem.drive st.u.m1 rest
    ({ st with u := { st.u with m1 := m } }, out)
  | "mb" :: "mem" :: rest =>
    let (m0, out0) := OciModel.Driver.Mem.drive st.u.m0 rest
    let (m1, out1) := OciModel.Driver.Mem.drive st.u.m1 rest
    ({ st with u := { st.u with m0 := m0, m1 := m1 } }, out0 ++ " | " ++ out1)
  | ["u", "mem", "wclose", r, id] =>
    match Hex.decodeTok r, Hex.decodeTok id with
    | some r, some id =>
      (st, if (Mem.alookup (wkey r (realID st id)) st.u.writers).isSome then "ok" else "err NO-WRITER")
    | _, _ => (st, "bad-op")
  | "u" :: "mem" :: rest =>
    match OciModel.Driver.Mem.parseOp rest with
    | none => (st, "bad-op")
    | some op =>
      let op := mapID (realID st) op
      let (u', out) := step H codec st.pol true st.u op
      let st := { st with u := u' }
      match out, op with
      | .out (.okWriter id), .pushChunked _ =>
        let (st, c) := canonID st id true
        (st, "writer " ++ Hex.encodeTok c)
      | .out (.okWriter id), _ =>
        let (st, c) := canonID st id false
        (st, "writer " ++ Hex.encodeTok c)
      | _, _ => (st, showU (st.pol == .concurrent && isDigestRead op) out)
  | "alt" :: "mem" :: rest =>
    match OciModel.Driver.Mem.parseOp rest with
    | none => (st, "bad-op")
    | some op =>
      let (_, out) := step H codec (other st.pol) true st.u op
      (st, showU (other st.pol == .concurrent && isDigestRead op) out)
  | ["diverge", _, _] => (st, "skip")   -- a one-sided member fault: judged by the oracle
  | "rfault" :: _ => (st, "skip")       -- one member refuses every call, the other holds the content: impl-only, judged by the oracle
  | "fault" :: _ => (st, "skip")        -- a fault injected into ONE member's n-th call: impl-only, judged by the oracle
  | ["snap"] => (st, if obs st.u.m0 == obs st.u.m1 then "equal" else "differ")
  | ["merge", k, e0, e1] =>
    match k.toNat?, parseEvents e0, parseEvents e1 with
    | some k, some e0, some e1 =>
      let calls := (mergeIter cmpBytes e0 e1).calls
      (st, "[" ++ " ".intercalate ((feed (fun hist => hist.length < k) [] calls).map showEv) ++ "]")
    | _, _, _ => (st, "bad-op")
  | _ => (st, "bad-op")

end OciModel.Driver.Unify
