import OciModel.BlobReader
import OciModel.Sha256
import OciModel.Ref
namespace OciModel.Driver.BlobReader
open OciModel OciModel.BlobReader

/-- `rd <verify 0|1|2> <size> <digest> <chunk>*` → `eof <data>` | `err <relayed>`;
`2` = the whole blob asked for through the range call (`GetBlobRange(…, 0, -1)`), `3` = a manifest read
through its tag, `4` = a manifest by digest: all verified like `1`. -/
def driveAsked : List String → String
  | _ :: size :: hdr :: asked :: chunks =>
    match size.toNat?, Hex.decodeTok hdr, Hex.decodeTok asked, chunks.mapM Hex.decodeTok with
    | some size, some hdr, some asked, some cs =>
      -- a header that is not a digest is refused before any reader exists
      if hdr ≠ [] ∧ Ref.isDigest hdr = false then "open-error" else
      match readAll Sha256.digest true size (descDigest asked hdr) [] cs with
      | .eof b => "eof " ++ Hex.encodeTok b
      | r => "err " ++ Hex.encodeTok r.relayed
    | _, _, _, _ => "bad-op"
  | _ => "bad-op"

def drive : List String → String
  | v :: size :: dg :: chunks =>
    match size.toNat?, Hex.decodeTok dg, chunks.mapM Hex.decodeTok with
    | some size, some dg, some cs =>
      -- the driver realises H by SHA-256 only; other algorithms are judged by the oracle
      if !(strBytes "sha256:").isPrefixOf dg then "skip" else
      match readAll Sha256.digest (v != "0") size dg [] cs with
      | .eof b => "eof " ++ Hex.encodeTok b
      | r => "err " ++ Hex.encodeTok r.relayed
    | _, _, _ => "bad-op"
  | _ => "bad-op"

end OciModel.Driver.BlobReader
