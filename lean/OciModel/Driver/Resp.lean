import OciModel.RespCodec
import OciModel.Sha256
import OciModel.Driver.Req
/-!
Line protocol of the response codec (engine `C03R`, token `resp`):

* `resp srv <opts> <req> <bres>` — what the server writes for a backend answer
* `resp cli <call> <nresp> <answer>*` — what the client makes of scripted answers
* `resp clilist <tags|catalog> <n> <start> <nresp> (<answer> <dec>)*` — the pager over scripted answers
* `resp rt <opts> <call> <bres> [<bres>]` — client over server, one call
* `resp rtlist <opts> <tags|catalog> <n> <start> <count> <item>*` — pager over server over a listing
* `resp clirefs <answer> <dec>` / `resp rtrefs <opts> <n> <desc>*` — Referrers against a scripted answer / over the server
* `resp qesc|qunesc|jsonstr|parsequery|encquery …` — the std-lib pieces modelled concretely

`<opts>` = `<4 bits: referrers-off single-post-off omit-digest omit-link> <max page size>`
`<req>` = `<kind> <repo> <digest> <tag> <from> <uploadID> <listN> <listLast> <range> <ctype> <body> <subject -|!|tok> <path> <nq> (<k> <v>)*`
`<bres>` = `desc mt dg size | reader mt dg size content | writer id size chunk | commit id mt dg size | unit | items n x* | descs n (mt dg size)*`
`<answer>` = `<status> <contentLength> <body> <nh> (<k> <v>)* <resolved - | tok>`
-/
namespace OciModel.Driver.Resp
open OciModel OciModel.RespCodec OciModel.ReqCodec

abbrev P := StateT (List String) Option

def tokS : P String := fun ts => match ts with
  | [] => none
  | t :: ts => some (t, ts)

def liftO {α} (o : Option α) : P α := fun ts => o.map (·, ts)

def tokB : P Bytes := do let t ← tokS; liftO (Hex.decodeTok t)
def tokI : P Int := do let t ← tokS; liftO t.toInt?
def tokN : P Nat := do let t ← tokS; liftO t.toNat?

def rep {α} (p : P α) : Nat → P (List α)
  | 0 => pure []
  | n + 1 => do let x ← p; let xs ← rep p n; pure (x :: xs)

def pPairs : P (List (Bytes × Bytes)) := do
  let n ← tokN
  rep (do let k ← tokB; let v ← tokB; pure (k, v)) n

def pDesc : P Desc := do
  let mt ← tokB; let dg ← tokB; let sz ← tokI
  pure { mediaType := mt, digest := dg, size := sz }

def pOpts : P SrvOpts := do
  let bits ← tokS
  let mx ← tokI
  match bits.toList with
  | [a, b, c, d] =>
    pure { disableReferrers := a == '1', disableSinglePost := b == '1', omitDigest := c == '1', omitLink := d == '1',
           maxListPageSize := mx }
  | _ => liftO none

def pKind : P Kind := do
  let k ← tokS
  liftO (Driver.Req.allKinds.find? fun x => Driver.Req.kindName x == k)

def pReq : P SrvReq := do
  let kind ← pKind
  let repo ← tokB; let dg ← tokB; let tag ← tokB; let fr ← tokB; let id ← tokB
  let n ← tokI; let last ← tokB
  let range ← tokB; let ct ← tokB; let body ← tokB
  let subjT ← tokS
  let subject : Option (Option Bytes) ←
    if subjT == "-" then pure (some none)
    else if subjT == "!" then pure none
    else do let b ← liftO (Hex.decodeTok subjT); pure (some (some b))
  let path ← tokB
  let query ← pPairs
  pure { r := { kind := kind, repo := repo, digest := dg, tag := tag, fromRepo := fr, uploadID := id, listN := n, listLast := last },
         range := range, contentType := ct, body := body, subject := subject, path := path, query := query }

def pBRes : P BRes := do
  let t ← tokS
  match t with
  | "desc" => do let d ← pDesc; pure (.desc d)
  | "reader" => do let d ← pDesc; let c ← tokB; pure (.reader d c)
  | "writer" => do let id ← tokB; let sz ← tokI; let cs ← tokI; pure (.writer id sz cs)
  | "commit" => do let id ← tokB; let d ← pDesc; pure (.commit id d)
  | "unit" => pure .unit
  | "items" => do let n ← tokN; let l ← rep tokB n; pure (.items l)
  | "descs" => do let n ← tokN; let l ← rep pDesc n; pure (.descs l)
  | _ => liftO none

/-- an answer and what `net/url` makes of its `Location` (`none` = `url.Parse` fails) -/
def pAnswer : P (Resp × Option Bytes) := do
  let st ← tokN; let cl ← tokI; let body ← tokB
  let hdr ← pPairs
  let resT ← tokS
  let res : Option Bytes ← if resT == "-" then pure none else do let b ← liftO (Hex.decodeTok resT); pure (some b)
  pure ({ status := st, hdr := hdr, contentLength := cl, body := body }, res)

def showHdr (h : Header) : String :=
  s!"{h.length}" ++ String.join ((sortKeys h).map fun kv => s!" {Hex.encodeTok kv.1} {Hex.encodeTok kv.2}")

def showResp (r : Resp) : String :=
  s!"resp {r.status} {r.contentLength} {Hex.encodeTok r.body} {showHdr r.hdr}"

def serrName : SErr → String
  | .range416 => "range416" | .pageTooLarge => "page-too-large" | .referrersDisabled => "referrers-disabled"
  | .digestInvalid => "digest-invalid" | .badManifestJSON => "bad-manifest-json" | .shape => "shape"

def showSOut : SOut → String
  | .resp r => showResp r
  | .err e => s!"err {e.status}"
  | .panic => "panic"

def H : Bytes → Bytes := Sha256.digest

/-- error classes as the harness can observe them: an `HTTPError`'s status, `ErrUnsupported`, anything else -/
partial def cerrClass : CErr → String
  | .http st => s!"http:{st}"
  | .mountUnsupported => "unsupported"
  | _ => "other"

def showDesc (d : Desc) : String := s!"{Hex.encodeTok d.mediaType} {Hex.encodeTok d.digest} {d.size}"

def isSha256 (dg : Bytes) : Bool := (strBytes "sha256:").isPrefixOf dg

/-- the result of a call, and of reading the reader it returned to the end -/
def showCRes : CRes → String
  | .desc d => "desc " ++ showDesc d
  | .reader d verify body =>
    -- the driver realises H by SHA-256 only: under another algorithm it has no opinion on the digest check itself
    if verify && !isSha256 d.digest && (body.length : Int) = d.size then "skip"
    else match readAll H d verify [body] with
      | .eof b => s!"reader {showDesc d} eof {Hex.encodeTok b}"
      | .digestMismatch _ => s!"reader {showDesc d} readerr ERR"
      | _ => s!"reader {showDesc d} readerr SIZE_INVALID"
  | .writer loc cs off => s!"writer {Hex.encodeTok loc} {cs} {off}"
  | .unit => "ok"
  | .err e => "err " ++ cerrClass e
  | .panic => "panic"

def pCall : P Call := do
  let t ← tokS
  match t with
  | "getBlob" => do let d ← tokB; pure (.getBlob d)
  | "getBlobRange" => do let d ← tokB; let a ← tokI; let b ← tokI; pure (.getBlobRange d a b)
  | "getManifest" => do let d ← tokB; pure (.getManifest d)
  | "getTag" => pure .getTag
  | "resolveBlob" => do let d ← tokB; pure (.resolveBlob d)
  | "resolveManifest" => do let d ← tokB; pure (.resolveManifest d)
  | "resolveTag" => pure .resolveTag
  | "pushManifest" => do
    let mt ← tokB; let c ← tokB
    pure (.pushManifest { mediaType := mt, digest := H c, size := c.length })
  | "mountBlob" => do let d ← tokB; pure (.mountBlob d)
  | "pushBlob" => do
    let mt ← tokB; let c ← tokB
    pure (.pushBlob { mediaType := mt, digest := H c, size := c.length })
  | "pushBlobChunked" => do let c ← tokI; pure (.pushBlobChunked c)
  | "resumeAsk" => do let c ← tokI; pure (.resumeAsk c)
  | "flushPatch" => pure .flushPatch
  | "commit" => do let sz ← tokI; let d ← tokB; pure (.commit sz d)
  | "delete" => pure .delete
  | _ => liftO none

def mkResolve (as : List (Resp × Option Bytes)) : Bytes → Option Bytes := fun loc =>
  match as.find? fun a => hget a.1.hdr hLocation == loc with
  | some (_, res) => res
  | none => none

/-- request URI (`path?query`) of an absolute URL -/
def uriOfURL (u : Bytes) : Bytes :=
  let rec go : Bytes → Bytes
    | 58 :: 47 :: 47 :: rest => rest.dropWhile fun c => c != 47 && c != 63
    | _ :: rest => go rest
    | [] => u
  match go u with
  | [] => [47]
  | r => r

/-- the request-side text a call puts on the wire that the answers determine: the `Range` header of a
ranged read, the URI of the PUT that follows a POST or commits an upload -/
def callExtra (resolve : Bytes → Option Bytes) (c : Call) (rs : List Resp) : String :=
  match c with
  | .getBlobRange _ o0 o1 => if o0 = 0 ∧ o1 < 0 then "-" else Hex.encodeTok (cliRangeHdr o0 o1)
  | .pushBlob own =>
    (match rs with
     | r1 :: _ =>
       (match gate [202] r1.status, locationFromResponse resolve r1 with
        | none, .ok loc => Hex.encodeTok (urlWithDigest (uriOfURL loc) own.digest)
        | _, _ => "-")
     | [] => "-")
  | .commit _ dg => Hex.encodeTok (urlWithDigest (strBytes "/v2/foo/blobs/uploads/abc") dg)
  | _ => "-"

/-! ### composed runs -/

def repoFoo : Bytes := strBytes "foo"
def tagLatest : Bytes := strBytes "latest"

/-- `http://H` stands for the test server's base URL -/
def resolveH (loc : Bytes) : Option Bytes :=
  match loc with
  | 47 :: _ => some (strBytes "http://H" ++ loc)
  | _ => none

/-- the request a call sends (repository `foo`, tag `latest`, mounts from `bar`) -/
def reqOfCall (c : Call) (extra : SrvReq) : SrvReq :=
  let base : Request := { kind := c.kind, repo := repoFoo }
  match c with
  | .getBlob dg => { extra with r := { base with digest := dg } }
  | .getBlobRange dg o0 o1 =>
    { extra with r := { base with digest := dg }, range := if o0 = 0 ∧ o1 < 0 then [] else cliRangeHdr o0 o1 }
  | .getManifest dg | .resolveBlob dg | .resolveManifest dg => { extra with r := { base with digest := dg } }
  | .getTag | .resolveTag => { extra with r := { base with tag := tagLatest } }
  | .mountBlob dg => { extra with r := { base with digest := dg, fromRepo := strBytes "bar" } }
  | _ => { extra with r := base }

/-- the path of a resolved location `http://H/...?…` -/
def uriOfLocation (loc : Bytes) : Bytes := loc.drop 8

def rtCall (o : SrvOpts) (c : Call) (q0 : SrvReq) (b1 : BRes) (b2 : Option BRes) : String :=
  let q := reqOfCall c q0
  let q := match b1, c with
    | .writer id _ _, .resumeAsk _ | .writer id _ _, .flushPatch => { q with r := { q.r with uploadID := id } }
    | .commit id _, .commit _ dg => { q with r := { q.r with uploadID := id, digest := dg } }
    | _, _ => q
  match c with
  | .pushBlob own =>
    -- POST, then PUT to the location with the digest
    match (serverResp H o q b1).wire with
    | none => "err other"
    | some r1 =>
      match gate [202] r1.status, locationFromResponse resolveH r1 with
      | none, .ok loc =>
        let target := urlWithDigest (uriOfLocation loc) own.digest
        (match classifyTarget mPUT target, b2 with
         | .ok r2, some b2 =>
           (match (serverResp H o { q0 with r := r2 } b2).wire with
            | none => "err other"
            | some r2' => showCRes (clientDecode H resolveH c [r1, r2']) ++ s!" id={Hex.encodeTok r2.uploadID}")
         | _, _ => "bad-op")
      | _, _ => showCRes (clientDecode H resolveH c [r1])
  | _ =>
    match (serverResp H o q b1).wire with
    | none => "err other"
    | some r1 =>
      let r2 : List Resp := match b2 with
        | some b2 =>
          -- the HEAD that follows a digest-less tag GET
          match (serverResp H o { q with r := { q.r with kind := .manifestHead } } b2).wire with
          | some r => [r]
          | none => []
        | none => []
      showCRes (clientDecode H resolveH c (r1 :: r2))

def showListRun (items : List Bytes) (fin : Option CErr) : String :=
  s!"items [{" ".intercalate (items.map Hex.encodeTok)}] end=" ++ (match fin with | none => "done" | some e => "error:" ++ cerrClass e)

def drive (ts : List String) : String :=
  match ts with
  | "srv" :: rest =>
    (match (do let o ← pOpts; let q ← pReq; let b ← pBRes; pure (o, q, b) : P _) rest with
     | some ((o, q, b), []) =>
       let call := if q.r.kind == .blobGet then
           (match blobCall q.range with
            | none => "none" | some .full => "full" | some (.range s e) => s!"range:{s}:{e}")
         else "-"
       s!"call={call} " ++ showSOut (serverResp H o q b)
     | _ => "bad-op")
  | "cli" :: rest =>
    (match (do let c ← pCall; let n ← tokN; let as ← rep pAnswer n; pure (c, as) : P _) rest with
     | some ((c, as), []) =>
       let resolve := mkResolve as
       let rs := as.map (·.1)
       let out := showCRes (clientDecode H resolve c rs)
       if out == "skip" then "skip" else out ++ s!" nreq={requestsMade resolve c rs} extra={callExtra resolve c rs}"
     | _ => "bad-op")
  | "clilist" :: what :: rest =>
    (match (do
        let n ← tokI; let start ← tokB; let k ← tokN
        let as ← rep (do
          let a ← pAnswer
          let d ← tokS
          let dec : Option (List Bytes) ← if d == "-" then pure none else do
            let m ← liftO d.toNat?
            let l ← rep tokB m
            pure (some l)
          pure (a, dec)) k
        pure (n, start, as) : P _) rest with
     | some ((n, start, as), []) =>
       let n := Pager.effectivePageSize n      -- ociclient/client.go:105-107
       let r0 : Request := if what == "tags" then { kind := .tagsList, repo := repoFoo, listN := n, listLast := start }
         else { kind := .catalogList, listN := n, listLast := start }
       let dec : Bytes → Option (List Bytes) := fun body =>
         match as.find? fun a => a.1.1.body == body with
         | some (_, d) => d
         | none => none
       let resolveURI : Bytes → Option Bytes := fun t =>
         match as.find? fun a => (match hget a.1.1.hdr hLink with
             | 60 :: l => (cutByte 62 l).map (·.1) == some t
             | _ => false) with
         | some ((_, res), _) => res
         | none => none
       let run := listRun dec resolveURI n (fun l => listURI { r0 with listLast := l }) (listURI r0) (as.map (·.1.1))
       showListRun run.items run.fin ++ s!" uris=[{" ".intercalate (run.uris.map Hex.encodeTok)}]"
     | _ => "bad-op")
  | "rt" :: rest =>
    (match (do
        let o ← pOpts; let c ← pCall
        let ct ← tokB; let body ← tokB; let subjT ← tokS
        let subject : Option (Option Bytes) ←
          if subjT == "-" then pure (some none) else if subjT == "!" then pure none
          else do let b ← liftO (Hex.decodeTok subjT); pure (some (some b))
        let byTag ← tokS
        let b1 ← pBRes
        pure (o, c, ct, body, subject, byTag, b1) : P _) rest with
     | some ((o, c, ct, body, subject, byTag, b1), rest') =>
       let b2 : Option (Option BRes) := match rest' with
         | [] => some none
         | _ => match pBRes rest' with
           | some (b, []) => some (some b)
           | _ => none
       (match b2 with
        | none => "bad-op"
        | some b2 =>
          let q0 : SrvReq := { r := { kind := .ping }, contentType := ct, body := body, subject := subject }
          let q0 := match c with
            | .pushManifest own =>
              { q0 with r := { kind := .manifestPut, repo := repoFoo,
                               tag := if byTag == "1" then tagLatest else [], digest := own.digest } }
            | _ => q0
          (match c with
           | .pushManifest own =>
             if own.mediaType = [] then showCRes (clientDecode H resolveH c [])
             else (match (serverResp H o q0 b1).wire with
               | none => "err other"
               | some r1 => showCRes (clientDecode H resolveH c [r1]))
           | _ => rtCall o c q0 b1 b2))
     | _ => "bad-op")
  | "rtlist" :: rest =>
    (match (do
        let o ← pOpts; let what ← tokS; let n ← tokI; let start ← tokB
        let k ← tokN; let l ← rep tokB k
        pure (o, what, n, start, l) : P _) rest with
     | some ((o, what, n, start, l), []) =>
       let n := Pager.effectivePageSize n
       let r0 : Request := if what == "tags" then { kind := .tagsList, repo := repoFoo, listN := n, listLast := start }
         else { kind := .catalogList, listN := n, listLast := start }
       let (_, p, qs) := construct B64Url.encode r0
       let q0 : SrvReq := { r := r0, path := p, query := qs }
       let dec := if what == "tags" then decTagsImage else decCatalogImage
       let (items, fin) := rtList H o dec n l (l.length + 2) q0
       showListRun items fin
     | _ => "bad-op")
  | "clirefs" :: rest =>
    (match (do
        let a ← pAnswer
        let d ← tokS
        let dec : Option (List Desc) ← if d == "-" then pure none else do
          let m ← liftO d.toNat?
          let l ← rep pDesc m
          pure (some l)
        pure (a, dec) : P _) rest with
     | some ((a, dec), []) =>
       (match clientReferrers (fun _ => dec) a.1 with
        | .ok ds => s!"descs {ds.length}" ++ String.join (ds.map fun d => " " ++ showDesc d)
        | .error e => "err " ++ cerrClass e)
     | _ => "bad-op")
  | "rtrefs" :: rest =>
    (match (do
        let o ← pOpts; let k ← tokN; let ds ← rep pDesc k
        pure (o, ds) : P _) rest with
     | some ((o, ds), []) =>
       let q : SrvReq := { r := { kind := .referrersList, repo := repoFoo, digest := Sha256.digest [], listN := -1 } }
       (match (serverResp H o q (.descs ds)).wire with
        | none => "err other"
        | some r =>
          (match clientReferrers (fun body => if body = encIndex ds then some ds else none) r with
           | .ok ds => s!"descs {ds.length}" ++ String.join (ds.map fun d => " " ++ showDesc d)
           | .error e => "err " ++ cerrClass e))
     | _ => "bad-op")
  | ["qesc", t] => (match Hex.decodeTok t with | some b => Hex.encodeTok (queryEscape b) | none => "bad-op")
  | ["qunesc", t] =>
    (match Hex.decodeTok t with
     | some b => (match queryUnescape b with | some r => "ok " ++ Hex.encodeTok r | none => "err")
     | none => "bad-op")
  | ["jsonstr", t] => (match Hex.decodeTok t with | some b => Hex.encodeTok (jsonStr b) | none => "bad-op")
  | ["parsequery", t] =>
    (match Hex.decodeTok t with
     | some b =>
       (match parseQuery b with
        | some ps => "ok" ++ String.join (ps.map fun kv => s!" {Hex.encodeTok kv.1} {Hex.encodeTok kv.2}")
        | none => "err")
     | none => "bad-op")
  | "encquery" :: rest =>
    (match pPairs rest with
     | some (ps, []) => Hex.encodeTok (encodeQuery ps)
     | _ => "bad-op")
  | _ => "bad-op"

end OciModel.Driver.Resp
