import OciModel.Scope
namespace OciModel.Driver.Scope
open OciModel OciModel.Scope

abbrev Regs := List (String × Scope)

def get (rs : Regs) (k : String) : Scope := (rs.lookup k).getD empty
def put (rs : Regs) (k : String) (s : Scope) : Regs := (k, s) :: rs.filter (·.1 != k)

def triples : List String → Option (List RS)
  | [] => some []
  | t :: r :: a :: rest => do
    let t ← Hex.decodeTok t; let r ← Hex.decodeTok r; let a ← Hex.decodeTok a
    let xs ← triples rest
    pure ((t, r, a) :: xs)
  | _ => none

def showRS (r : RS) : String := Hex.encodeTok r.1 ++ ":" ++ Hex.encodeTok r.2.1 ++ ":" ++ Hex.encodeTok r.2.2
def b01 (b : Bool) : String := if b then "1" else "0"

def drive (rs : Regs) : List String → Regs × String
  | "new" :: k :: rest =>
    match triples rest with
    | some l => (put rs k (newScope l), "ok")
    | none => (rs, "bad-op")
  | ["parse", k, s] =>
    match Hex.decodeTok s with
    | some b => (put rs k (parseScope b), "ok")
    | none => (rs, "bad-op")
  | ["unlimited", k] => (put rs k unlimitedScope, "ok")
  | ["union", k, a, b] => (put rs k (union (get rs a) (get rs b)), "ok")
  | ["canonical", k, a] => (put rs k { get rs a with original := [] }, "ok")
  | ["str", a] => (rs, Hex.encodeTok (toStr (get rs a)))
  | ["iter", a] => (rs, "[" ++ " ".intercalate ((iter (get rs a)).map showRS) ++ "]")
  | ["len", a] =>
    (rs, match len (get rs a) with
      | .ok n => toString n
      | .err e => "err " ++ e
      | .panic _ => "panic")
  | ["holds", a, t, r, act] =>
    match Hex.decodeTok t, Hex.decodeTok r, Hex.decodeTok act with
    | some t, some r, some act => (rs, b01 (holds (get rs a) (t, r, act)))
    | _, _, _ => (rs, "bad-op")
  | ["contains", a, b] => (rs, b01 (contains (get rs a) (get rs b)))
  | ["equal", a, b] => (rs, b01 (equal (get rs a) (get rs b)))
  | ["isempty", a] => (rs, b01 (isEmpty (get rs a)))
  | ["isunlimited", a] => (rs, b01 (get rs a).unlimited)
  | _ => (rs, "bad-op")

end OciModel.Driver.Scope
