import OciModel.Upload
import OciModel.Sha256
namespace OciModel.Driver.Upload
open OciModel OciModel.Upload

structure UState where
  stack   : String := "mem"
  hint    : Int := 0
  minCh   : Nat := 8192
  w       : CW := start 8192
  sv      : Srv := ⟨[], false⟩
  written : Bytes := []       -- what the caller has written so far (all stacks)
  log     : List BOp := []
  failed  : Bool := false

def H : Bytes → Bytes := Sha256.digest

def errName : Err → String
  | .rangeInvalid => "RANGE_INVALID"
  | .badRange => "UNSUPPORTED"
  | .digestInvalid => "DIGEST_INVALID"
  | .poisoned => "DIGEST_INVALID"

def showLog (l : List BOp) : String :=
  " ".intercalate (l.map fun
    | .resume o => s!"resume:{o}"
    | .write n => s!"write:{n}"
    | .commit => "commit")

def octet : String := Hex.encodeTok (strBytes "application/octet-stream")

def driveOk (u : UState) : List String → UState × String
  | ["flaky", _] => (u, "ok")   -- the registry turns one request down (429) and the caller retries: invisible to the model
  | ["init", stack, hint, minc] =>
    match hint.toInt?, minc.toNat? with
    | some h, some m => ({ stack := stack, hint := h, minCh := m }, "ok")
    | _, _ => (u, "bad-op")
  | ["start"] =>
    if u.stack == "wire1" then
      let base : Nat := if u.hint ≤ 0 then 65536 else u.hint.toNat
      let eff := if u.minCh > base then u.minCh else base
      ({ u with w := start eff, sv := ⟨[], false⟩, written := [], log := [], failed := false }, s!"ok {eff}")
    else if u.stack == "mem" then ({ u with sv := ⟨[], false⟩, written := [], failed := false }, "ok 8192")
    else ({ u with written := [], failed := false }, "skip")
  | ["write", d] =>
    match Hex.decodeTok d with
    | none => (u, "bad-op")
    | some data =>
      if u.stack == "wire1" then
        match write H u.w u.sv data with
        | .error e => ({ u with failed := true }, "err " ++ errName e)
        | .ok (w1, sv1, log) => ({ u with w := w1, sv := sv1, log := u.log ++ log, written := u.written ++ data }, s!"n {data.length}")
      else ({ u with written := u.written ++ data, sv := { u.sv with buf := u.sv.buf ++ data } }, s!"n {data.length}")
  | ["closeresume", mode] =>
    if u.stack == "wire1" then
      let op := if mode == "ask" then Op.closeResumeAsk else Op.closeResumeExplicit
      match step H u.w u.sv op with
      | .error e => ({ u with failed := true }, "err " ++ errName e)
      | .ok (w1, sv1, log) => ({ u with w := w1, sv := sv1, log := u.log ++ log }, s!"ok {w1.size}")
    else (u, s!"ok {u.written.length}")
  | ["commit", d] =>
    match Hex.decodeTok d with
    | none => (u, "bad-op")
    | some dig =>
      if u.stack == "wire1" then
        match commit H u.w u.sv dig with
        | .error e =>
          -- the refused PUT still reached the backend: resume (and a write of the last chunk)
          let extra := [BOp.resume u.w.flushed] ++ (if u.w.chunk ≠ [] then [BOp.write u.w.chunk.length] else [])
          ({ u with failed := true, sv := { u.sv with poisoned := true, buf := u.sv.buf ++ u.w.chunk }, log := u.log ++ extra },
            "err " ++ errName e)
        | .ok (sv1, log) => ({ u with sv := sv1, log := u.log ++ log }, s!"desc {octet} {d} {u.w.size}")
      else if H u.written == dig then (u, s!"desc {octet} {d} {u.written.length}")
      else (u, "err DIGEST_INVALID")
  | ["log"] =>
    if u.stack == "wire1" then ({ u with log := [] }, "log " ++ showLog u.log) else (u, "skip")
  | ["badwrite", off, d] =>
    match off.toInt?, Hex.decodeTok d with
    | some o, some data =>
      -- the refused PATCH still reached the backend as a resume at that offset (the upload itself goes on);
      -- the harness repeats a Write that was refused: when the data exceeds the chunk size it is Write
      -- itself that sends the PATCH (twice then), otherwise Close sends it (once)
      let rs := if data.length > u.w.chunkSize then [BOp.resume o, BOp.resume o] else [BOp.resume o]
      ({ u with log := if u.stack == "wire1" then u.log ++ rs else u.log }, "err RANGE_INVALID")
    | _, _ => (u, "bad-op")
  | ["badcommit", off, d, _] =>
    match off.toInt?, Hex.decodeTok d with
    | some o, some _ =>
      ({ u with log := if u.stack == "wire1" then u.log ++ [BOp.resume o] else u.log }, "err RANGE_INVALID")
    | _, _ => (u, "bad-op")
  | ["get", _] => (u, "skip")
  | ["size"] =>
    if u.stack == "wire1" then (u, s!"n {u.sv.buf.length}") else (u, s!"n {u.written.length}")
  | _ => (u, "bad-op")

/-- After a refused request the real writer's state is no longer the script's
business (the property is about uploads that proceed): the model stops predicting. -/
def drive (u : UState) (toks : List String) : UState × String :=
  match toks with
  | "init" :: _ => driveOk u toks
  | "start" :: _ => driveOk u toks
  | _ => if u.failed then (u, "skip") else driveOk u toks

end OciModel.Driver.Upload
