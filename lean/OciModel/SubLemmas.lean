/-
Helper lemmas for C13 (model in `OciModel/Sub.lean`).
-/
import OciModel.Sub
import OciModel.ScopeLemmas

namespace OciModel.Sub
open OciModel.Generated.Sub OciModel.Generated OciModel.Scope
open OciModel.Select (Call Env Ev feed)

variable {ε σ : Type}

theorem cutPrefix_append (pre s : Bytes) : cutPrefix pre (pre ++ s) = some s := by
  induction pre with
  | nil => simp [cutPrefix]
  | cons a pre ih => simp [cutPrefix, ih]

theorem cutPrefix_eq_some (pre x s : Bytes) : cutPrefix pre x = some s ↔ x = pre ++ s := by
  induction pre generalizing x with
  | nil => simp [cutPrefix, eq_comm]
  | cons a pre ih =>
    cases x with
    | nil => simp [cutPrefix]
    | cons b x =>
      simp only [cutPrefix, List.cons_append, List.cons.injEq]
      by_cases h : a = b
      · simp [h, ih]
      · simp [h, Ne.symm h]

theorem mapName_eq (p n : Bytes) : mapName p n = (p ++ [47]) ++ n := by simp [mapName]

theorem stripName_mapName (p n : Bytes) : stripName p (mapName p n) = some n := by
  rw [stripName, mapName_eq, cutPrefix_append]

theorem stripName_eq_some (p x n : Bytes) : stripName p x = some n ↔ x = mapName p n := by
  rw [stripName, cutPrefix_eq_some, mapName_eq]

theorem compare_append_left (p a b : Bytes) : compare (p ++ a) (p ++ b) = compare a b := by
  induction p with
  | nil => rfl
  | cons x xs ih => simp [List.compare_cons_cons, ih]

/-- The order lemma: prefixing both names does not change how they compare. -/
theorem compare_mapName (p a b : Bytes) : compare (mapName p a) (mapName p b) = compare a b := by
  rw [mapName_eq, mapName_eq, compare_append_left]

theorem mapName_injective (p a b : Bytes) (h : mapName p a = mapName p b) : a = b := by
  have := stripName_mapName p a
  rw [h, stripName_mapName] at this
  exact (Option.some.inj this).symm

/-! ### Listings -/

theorem mem_viewList (p : Bytes) (L : Bytes → List Bytes) (repos : List Bytes) (hL : ListsSpec L repos)
    (start x : Bytes) :
    x ∈ viewList p L start ↔ mapName p x ∈ repos ∧ compare start x = .lt := by
  simp only [viewList, List.mem_filterMap]
  constructor
  · rintro ⟨y, hy, hs⟩
    have hy' := (stripName_eq_some p y x).mp hs
    subst hy'
    have := (hL.mem _ _).mp hy
    rw [compare_mapName] at this
    exact this
  · rintro ⟨hr, hc⟩
    refine ⟨mapName p x, (hL.mem _ _).mpr ⟨hr, ?_⟩, stripName_mapName p x⟩
    rw [compare_mapName]; exact hc

theorem viewList_sorted (p : Bytes) (L : Bytes → List Bytes) (repos : List Bytes) (hL : ListsSpec L repos)
    (start : Bytes) : (viewList p L start).Pairwise fun a b => compare a b = .lt := by
  unfold viewList
  refine List.Pairwise.filterMap _ ?_ (hL.sorted _)
  intro a a' hlt b hb b' hb'
  rw [(stripName_eq_some p a b).mp hb, (stripName_eq_some p a' b').mp hb', compare_mapName] at hlt
  exact hlt

theorem feed_stripCb (p : Bytes) (cb : σ → Ev ε → σ × Bool) (evs : List (Ev ε)) (s : σ) :
    (feed (stripCb p cb) evs s).1 = (feed cb (visible p evs) s).1 := by
  induction evs generalizing s with
  | nil => simp [feed, visible]
  | cons e es ih =>
    cases e with
    | error e =>
      simp only [feed, stripCb, visible]
      cases hcb : cb s (.error e) with
      | mk s' go => cases go <;> simp
    | item n =>
      simp only [visible]
      cases hc : stripName p n with
      | none => simp [feed, stripCb, hc, ih]
      | some x =>
        simp only [feed, stripCb, hc]
        cases hcb : cb s (.item x) with
        | mk s' go => cases go <;> simp [ih]

theorem visible_no_error (p : Bytes) (names : List Bytes) :
    visible (ε := ε) p (names.map .item) = (names.filterMap (stripName p)).map .item := by
  induction names with
  | nil => simp [visible]
  | cons n ns ih =>
    simp only [List.map_cons, visible, List.filterMap_cons]
    cases h : stripName p n <;> simp [ih]

theorem visible_error (p : Bytes) (names : List Bytes) (e : ε) (rest : List (Ev ε)) :
    visible p (names.map .item ++ .error e :: rest) = (names.filterMap (stripName p)).map .item ++ [.error e] := by
  induction names with
  | nil => simp [visible]
  | cons n ns ih =>
    simp only [List.map_cons, List.cons_append, visible, List.filterMap_cons]
    cases h : stripName p n <;> simp [ih]

/-! ### Scopes -/

theorem iter_of_isEmpty (s : Scope) (h : Scope.isEmpty s = true) : iter s = [] := by
  simp only [Scope.isEmpty, Bool.and_eq_true, List.isEmpty_iff, Bool.not_eq_true'] at h
  obtain ⟨⟨hr, ho⟩, hu⟩ := h
  simp [iter, hu, hr, ho, expand, mergeIter]

theorem mem_mapScopes (p : Bytes) (s : Scope) (hl : s.unlimited = false) (r : RS) :
    Mem r (mapScopes p s) ↔ ∃ r0, Mem r0 s ∧ r = mapRS (mapName p) r0 := by
  unfold mapScopes
  by_cases he : Scope.isEmpty s = true
  · simp [he, Mem, iter_of_isEmpty s he]
  · simp only [he, hl, Bool.or_self, Bool.false_eq_true, if_false]
    rw [mem_newScope]
    simp [Mem, List.mem_map, eq_comm]

theorem mapScopes_unlimited (p : Bytes) (s : Scope) (h : s.unlimited = true) : mapScopes p s = s := by
  simp [mapScopes, h]

theorem mapScopes_empty (p : Bytes) (s : Scope) (h : Scope.isEmpty s = true) : mapScopes p s = s := by
  simp [mapScopes, h]

theorem mapScopes_wf (p : Bytes) (s : Scope) (h : WF s) : WF (mapScopes p s) := by
  unfold mapScopes
  split
  · exact h
  · exact newScope_wf _

theorem mapScopesBy_fixed (g : String) (hg : guardPassesUnlimited g = true) (p : Bytes) (s : Scope) :
    mapScopesBy g (mapName p) s = .ok (mapScopes p s) := by
  have hk : guardKnown g = true := by simp [guardKnown, hg]
  unfold mapScopesBy mapScopes
  by_cases he : Scope.isEmpty s = true
  · simp [hk, he]
  · cases s.unlimited <;> simp [hk, he, hg]

/-! ### Methods -/

def CodeOk : Bool :=
  repoMap == "concat" && guardPassesUnlimited mapScopesGuard && mapScopesBodyKnown && constructorKnown

theorem args_eq (p : Bytes) (env : Env) (m : String) :
    ∀ (as : List Arg) (ips ps : List String), as.map (·.name) = ps →
      as.map (·.mapped) = ips.map (specMapped m) →
      as.map (fun a => if a.mapped then mapName p (env a.name) else env a.name) = specArgs p env m ips ps := by
  intro as
  induction as with
  | nil =>
    intro ips ps h1 h2
    cases ps <;> cases ips <;> simp_all [specArgs]
  | cons a as ih =>
    intro ips ps h1 h2
    cases ps with
    | nil => simp at h1
    | cons x ps =>
      cases ips with
      | nil => simp at h2
      | cons i ips =>
        simp only [List.map_cons, List.cons.injEq] at h1 h2
        have := ih ips ps h1.2 h2.2
        simp only [specArgs, List.zip_cons_cons, List.map_cons] at this ⊢
        rw [this, h1.1, h2.1]

end OciModel.Sub
