/-
A total JSON reader over byte strings that accepts what Go's `encoding/json.Unmarshal`
accepts as a document, and the value tree it yields.

What is mirrored (Go 1.23 `encoding/json`: `scanner.go` `checkValid`, `decode.go` `unquoteBytes`):
* a document is one RFC 8259 value surrounded by optional white space (space, \t, \n, \r) and
  NOTHING else (`checkValid` runs over the whole input before anything is decoded);
* numbers `-?(0|[1-9][0-9]*)(\.[0-9]+)?([eE][+-]?[0-9]+)?`, kept as their text;
* strings: any byte ≥ 0x20 except `"` and `\` (ill-formed UTF-8 is *accepted*), the escapes
  `\" \\ \/ \b \f \n \r \t` and `\uXXXX` (hex digits of either case); decoding replaces every
  byte that does not start a well-formed UTF-8 sequence by U+FFFD (one byte at a time, as
  `utf8.DecodeRune`), joins a `\uD800–\uDBFF` escape with an immediately following
  `\uDC00–\uDFFF` escape, and replaces every other surrogate escape by U+FFFD;
* object members are kept in document order, duplicates included (what a duplicate means is
  decided by the consumer, see `ManifestDecode`);
* the nesting limit: at most 10000 open containers (`maxNestingDepth`), modelled exactly.

Structure: `lex` (bytes → tokens; structural recursion with a skip counter) and `parseToks`
(a push-down machine folded over the tokens; its stack is the nesting depth). Both are plain
structural recursions, so the reader is total by construction and reduces under `decide`/`rfl`.

Core Lean only (linked into the `ocimodel` driver).
-/
import OciModel.Base
namespace OciModel.Json

inductive JVal where
  | null
  | bool (b : Bool)
  | num (text : Bytes)
  | str (s : Bytes)
  | arr (xs : List JVal)
  | obj (kvs : List (Bytes × JVal))
  deriving Repr

instance : Inhabited JVal := ⟨.null⟩

inductive Tok where
  | lbrace | rbrace | lbrack | rbrack | colon | comma
  | null | tru | fls
  | num (text : Bytes)
  | str (s : Bytes)
  deriving Repr, DecidableEq

/-! ## Bytes -/

def isWs (c : UInt8) : Bool :=
  c.toNat == 0x20 || c.toNat == 0x09 || c.toNat == 0x0A || c.toNat == 0x0D

def isDigit (c : UInt8) : Bool := 0x30 ≤ c.toNat && c.toNat ≤ 0x39

def hexVal (c : UInt8) : Option Nat :=
  let n := c.toNat
  if 0x30 ≤ n ∧ n ≤ 0x39 then some (n - 0x30)
  else if 0x61 ≤ n ∧ n ≤ 0x66 then some (n - 0x57)
  else if 0x41 ≤ n ∧ n ≤ 0x46 then some (n - 0x37)
  else none

/-- Value of the four hex digits at the head (`getu4` without the `\u`). -/
def hex4 : Bytes → Option Nat
  | a :: b :: c :: d :: _ =>
    match hexVal a, hexVal b, hexVal c, hexVal d with
    | some x, some y, some z, some w => some (x * 4096 + y * 256 + z * 16 + w)
    | _, _, _, _ => none
  | _ => none

/-! ## UTF-8 -/

/-- U+FFFD. -/
def replacement : Bytes := [0xEF, 0xBF, 0xBD]

/-- `utf8.EncodeRune` for a scalar value (`r < 0x110000`, not a surrogate). -/
def encodeRune (r : Nat) : Bytes :=
  if r < 0x80 then [UInt8.ofNat r]
  else if r < 0x800 then [UInt8.ofNat (0xC0 + r / 64), UInt8.ofNat (0x80 + r % 64)]
  else if r < 0x10000 then
    [UInt8.ofNat (0xE0 + r / 4096), UInt8.ofNat (0x80 + r / 64 % 64), UInt8.ofNat (0x80 + r % 64)]
  else
    [UInt8.ofNat (0xF0 + r / 262144), UInt8.ofNat (0x80 + r / 4096 % 64),
     UInt8.ofNat (0x80 + r / 64 % 64), UInt8.ofNat (0x80 + r % 64)]

def isCont (c : UInt8) : Bool := 0x80 ≤ c.toNat && c.toNat ≤ 0xBF

/-- Length of the well-formed UTF-8 sequence that starts with lead byte `c` followed by `bs`
(`utf8.DecodeRune`'s table: no overlong forms, no surrogates, nothing above U+10FFFF); `0` when
there is none (Go then consumes ONE byte and yields U+FFFD). -/
def seqLen (c : UInt8) (bs : Bytes) : Nat :=
  let n := c.toNat
  if n < 0x80 then 1
  else if n < 0xC2 then 0
  else if n < 0xE0 then
    match bs with
    | c1 :: _ => if isCont c1 then 2 else 0
    | _ => 0
  else if n < 0xF0 then
    match bs with
    | c1 :: c2 :: _ =>
      let lo := if n = 0xE0 then 0xA0 else 0x80
      let hi := if n = 0xED then 0x9F else 0xBF
      if lo ≤ c1.toNat && c1.toNat ≤ hi && isCont c2 then 3 else 0
    | _ => 0
  else if n < 0xF5 then
    match bs with
    | c1 :: c2 :: c3 :: _ =>
      let lo := if n = 0xF0 then 0x90 else 0x80
      let hi := if n = 0xF4 then 0x8F else 0xBF
      if lo ≤ c1.toNat && c1.toNat ≤ hi && isCont c2 && isCont c3 then 4 else 0
    | _ => 0
  else 0

/-- Well-formed UTF-8 (`skip` bytes of the input belong to a sequence already checked). -/
def validGo : Nat → Bytes → Bool
  | _, [] => true
  | n + 1, _ :: bs => validGo n bs
  | 0, c :: bs =>
    match seqLen c bs with
    | 0 => false
    | n + 1 => validGo n bs

/-- Well-formed UTF-8: the strings Go's decoding leaves as they are. -/
def ValidUtf8 (s : Bytes) : Prop := validGo 0 s = true

instance (s : Bytes) : Decidable (ValidUtf8 s) := inferInstanceAs (Decidable (validGo 0 s = true))

/-! ## Strings -/

def isSimpleEsc (c : UInt8) : Bool :=
  let n := c.toNat
  n == 0x22 || n == 0x5C || n == 0x2F || n == 0x62 || n == 0x66 || n == 0x6E || n == 0x72 || n == 0x74

def simpleEsc (c : UInt8) : UInt8 :=
  let n := c.toNat
  if n = 0x62 then 0x08 else if n = 0x66 then 0x0C else if n = 0x6E then 0x0A
  else if n = 0x72 then 0x0D else if n = 0x74 then 0x09 else c

/-- Length of the escape whose bytes after the backslash are `bs`; `none`: not an escape. -/
def escLen : Bytes → Option Nat
  | [] => none
  | e :: rest =>
    if e.toNat = 0x75 then (if (hex4 rest).isSome then some 5 else none)
    else if isSimpleEsc e then some 1
    else none

/-- The scanner's view of a string: the length of the raw content up to the closing quote (the
first argument counts bytes of an escape still to be passed over); `none` for an unterminated
string, a control character, or a bad escape. -/
def spanGo : Nat → Bytes → Option Nat
  | _, [] => none
  | n + 1, _ :: bs => (spanGo n bs).map (· + 1)
  | 0, c :: bs =>
    if c.toNat = 0x22 then some 0
    else if c.toNat = 0x5C then
      match escLen bs with
      | some k => (spanGo k bs).map (· + 1)
      | none => none
    else if c.toNat < 0x20 then none
    else (spanGo 0 bs).map (· + 1)

/-- Given the bytes after the opening quote. -/
def spanStr (bs : Bytes) : Option Nat := spanGo 0 bs

/-- One escape: `bs` are the bytes after the backslash; result: decoded bytes and how many bytes
of `bs` the escape occupies. -/
def escAt (bs : Bytes) : Bytes × Nat :=
  match bs with
  | [] => ([], 0)
  | e :: rest =>
    if e.toNat = 0x75 then
      match hex4 rest with
      | none => ([], 1)                       -- excluded by `spanStr`
      | some r =>
        if 0xD800 ≤ r ∧ r < 0xE000 then
          -- a surrogate: valid only as a high one directly followed by an escaped low one
          match rest.drop 4 with
          | b :: u :: rest2 =>
            if b.toNat = 0x5C ∧ u.toNat = 0x75 then
              match hex4 rest2 with
              | some r2 =>
                if r < 0xDC00 ∧ 0xDC00 ≤ r2 ∧ r2 < 0xE000 then
                  (encodeRune ((r - 0xD800) * 1024 + (r2 - 0xDC00) + 0x10000), 11)
                else (replacement, 5)
              | none => (replacement, 5)
            else (replacement, 5)
          | _ => (replacement, 5)
        else (encodeRune r, 5)
    else if isSimpleEsc e then ([simpleEsc e], 1)
    else ([], 1)                              -- excluded by `spanStr`

/-- `unquoteBytes` on the raw content of a string the scanner accepted. -/
def unqGo : Nat → Bytes → Bytes
  | _, [] => []
  | n + 1, _ :: bs => unqGo n bs
  | 0, c :: bs =>
    if c.toNat = 0x5C then
      (escAt bs).1 ++ unqGo (escAt bs).2 bs
    else
      match seqLen c bs with
      | 0 => replacement ++ unqGo 0 bs
      | n + 1 => c :: bs.take n ++ unqGo n bs

def unquote (raw : Bytes) : Bytes := unqGo 0 raw

/-! ## Numbers -/

/-- Where the scanner is inside a number literal. -/
inductive NumSt where
  | begin   -- nothing read
  | neg     -- `-`
  | zero    -- `0` (no further digit may follow)
  | int     -- `[1-9][0-9]*`
  | dot     -- `.`
  | frac    -- `.[0-9]+`
  | e       -- `e` / `E`
  | esign   -- `e+` / `e-`
  | exp     -- exponent digits
  deriving DecidableEq, Repr

/-- States in which the literal read so far is a complete number. -/
def NumSt.accepting : NumSt → Bool
  | .zero | .int | .frac | .exp => true
  | _ => false

/-- The scanner's transition; `none`: this byte does not continue the literal. -/
def numStep (st : NumSt) (c : UInt8) : Option NumSt :=
  let n := c.toNat
  let digit := 0x30 ≤ n ∧ n ≤ 0x39
  let isE := n = 0x65 ∨ n = 0x45
  match st with
  | .begin => if n = 0x2D then some .neg else if n = 0x30 then some .zero else if digit then some .int else none
  | .neg => if n = 0x30 then some .zero else if digit then some .int else none
  | .zero => if n = 0x2E then some .dot else if isE then some .e else none
  | .int => if digit then some .int else if n = 0x2E then some .dot else if isE then some .e else none
  | .dot => if digit then some .frac else none
  | .frac => if digit then some .frac else if isE then some .e else none
  | .e => if n = 0x2B ∨ n = 0x2D then some .esign else if digit then some .exp else none
  | .esign => if digit then some .exp else none
  | .exp => if digit then some .exp else none

/-- Length of the literal at the head of the input, read from state `st`: it ends at the first
byte that does not continue it, and must be complete there. -/
def numGo : NumSt → Bytes → Option Nat
  | st, [] => if st.accepting then some 0 else none
  | st, c :: bs =>
    match numStep st c with
    | some st' => (numGo st' bs).map (· + 1)
    | none => if st.accepting then some 0 else none

/-- Length of the number literal at the head of the input. -/
def spanNum (bs : Bytes) : Option Nat := numGo .begin bs

/-- Bytes that can continue a number literal. -/
def isNumCont (c : UInt8) : Bool :=
  isDigit c || c.toNat == 0x2E || c.toNat == 0x65 || c.toNat == 0x45 || c.toNat == 0x2B || c.toNat == 0x2D

/-- The input does not start with a byte that could continue a number literal. -/
def NoCont (r : Bytes) : Prop := ∀ c, r.head? = some c → isNumCont c = false

/-! ## Lexer -/

def consTok (t : Tok) (o : Option (List Tok)) : Option (List Tok) := o.map (t :: ·)

def litRue : Bytes := [0x72, 0x75, 0x65]
def litAlse : Bytes := [0x61, 0x6C, 0x73, 0x65]
def litUll : Bytes := [0x75, 0x6C, 0x6C]

/-- Tokens of the input; the first argument counts bytes that belong to the token just emitted. -/
def lexGo : Nat → Bytes → Option (List Tok)
  | _, [] => some []
  | n + 1, _ :: bs => lexGo n bs
  | 0, c :: bs =>
    if isWs c then lexGo 0 bs
    else if c.toNat = 0x7B then consTok .lbrace (lexGo 0 bs)
    else if c.toNat = 0x7D then consTok .rbrace (lexGo 0 bs)
    else if c.toNat = 0x5B then consTok .lbrack (lexGo 0 bs)
    else if c.toNat = 0x5D then consTok .rbrack (lexGo 0 bs)
    else if c.toNat = 0x3A then consTok .colon (lexGo 0 bs)
    else if c.toNat = 0x2C then consTok .comma (lexGo 0 bs)
    else if c.toNat = 0x22 then
      match spanStr bs with
      | some n => consTok (.str (unquote (bs.take n))) (lexGo (n + 1) bs)
      | none => none
    else if c.toNat = 0x74 then
      if bs.take 3 = litRue then consTok .tru (lexGo 3 bs) else none
    else if c.toNat = 0x66 then
      if bs.take 4 = litAlse then consTok .fls (lexGo 4 bs) else none
    else if c.toNat = 0x6E then
      if bs.take 3 = litUll then consTok .null (lexGo 3 bs) else none
    else
      match spanNum (c :: bs) with
      | some (n + 1) => consTok (.num (c :: bs.take n)) (lexGo n bs)
      | _ => none

def lex (b : Bytes) : Option (List Tok) := lexGo 0 b

/-! ## Parser: a push-down machine over the tokens -/

/-- An open container. `key` is an object whose member name has been read and whose value is
being read. Accumulators are reversed. -/
inductive Frame where
  | arr (acc : List JVal)
  | obj (acc : List (Bytes × JVal))
  | key (acc : List (Bytes × JVal)) (k : Bytes)
  deriving Repr

inductive Mode where
  | val          -- a value must follow
  | valOrClose   -- just after `[`
  | keyOrClose   -- just after `{`
  | key          -- just after `,` in an object
  | colon        -- just after a member name
  | sep          -- just after a value inside a container
  | done (v : JVal)
  | fail
  deriving Repr

structure PState where
  mode : Mode
  stack : List Frame
  deriving Repr

/-- Go's `maxNestingDepth`. -/
def maxDepth : Nat := 10000

def failed : PState := ⟨.fail, []⟩

/-- A value has been read completely. -/
def complete (v : JVal) : List Frame → PState
  | [] => ⟨.done v, []⟩
  | .arr acc :: s => ⟨.sep, .arr (v :: acc) :: s⟩
  | .key acc k :: s => ⟨.sep, .obj ((k, v) :: acc) :: s⟩
  | .obj _ :: _ => failed

/-- A value starts with token `t`. -/
def startValue (t : Tok) (stack : List Frame) : PState :=
  match t with
  | .null => complete .null stack
  | .tru => complete (.bool true) stack
  | .fls => complete (.bool false) stack
  | .num x => complete (.num x) stack
  | .str s => complete (.str s) stack
  | .lbrack => if stack.length < maxDepth then ⟨.valOrClose, .arr [] :: stack⟩ else failed
  | .lbrace => if stack.length < maxDepth then ⟨.keyOrClose, .obj [] :: stack⟩ else failed
  | _ => failed

def startKey (t : Tok) (stack : List Frame) : PState :=
  match t, stack with
  | .str k, .obj acc :: s => ⟨.colon, .key acc k :: s⟩
  | _, _ => failed

def closeArr : List Frame → PState
  | .arr acc :: s => complete (.arr acc.reverse) s
  | _ => failed

def closeObj : List Frame → PState
  | .obj acc :: s => complete (.obj acc.reverse) s
  | _ => failed

/-- After a value inside a container. -/
def sepStep (t : Tok) (stack : List Frame) : PState :=
  match t with
  | .comma =>
    match stack with
    | .arr acc :: s => ⟨.val, .arr acc :: s⟩
    | .obj acc :: s => ⟨.key, .obj acc :: s⟩
    | _ => failed
  | .rbrack => closeArr stack
  | .rbrace => closeObj stack
  | _ => failed

def pstepM (m : Mode) (stack : List Frame) (t : Tok) : PState :=
  match m with
  | .val => startValue t stack
  | .valOrClose => if t = .rbrack then closeArr stack else startValue t stack
  | .keyOrClose => if t = .rbrace then closeObj stack else startKey t stack
  | .key => startKey t stack
  | .colon => if t = .colon then ⟨.val, stack⟩ else failed
  | .sep => sepStep t stack
  | .done _ => failed          -- nothing may follow the value
  | .fail => failed

def pstep (st : PState) (t : Tok) : PState := pstepM st.mode st.stack t

def prun (st : PState) (ts : List Tok) : PState := ts.foldl pstep st

def pinit : PState := ⟨.val, []⟩

def parseToks (ts : List Tok) : Option JVal :=
  match (prun pinit ts).mode with
  | .done v => some v
  | _ => none

/-- The reader: `none` iff `json.Unmarshal` reports a syntax error for these bytes. -/
def parse (b : Bytes) : Option JVal :=
  match lex b with
  | some ts => parseToks ts
  | none => none

/-! ## Canonical printer -/

def hexDigit (n : Nat) : UInt8 := if n < 10 then UInt8.ofNat (48 + n) else UInt8.ofNat (87 + n)

def escByte (c : UInt8) : Bytes :=
  if c.toNat = 0x22 then [0x5C, 0x22]
  else if c.toNat = 0x5C then [0x5C, 0x5C]
  else if c.toNat < 0x20 then [0x5C, 0x75, 0x30, 0x30, hexDigit (c.toNat / 16), hexDigit (c.toNat % 16)]
  else [c]

def escape : Bytes → Bytes
  | [] => []
  | c :: s => escByte c ++ escape s

def printStr (s : Bytes) : Bytes := 0x22 :: (escape s ++ [0x22])

mutual
/-- Compact rendering: no white space, members in order, strings with the minimal escapes. -/
def print : JVal → Bytes
  | .null => [0x6E, 0x75, 0x6C, 0x6C]
  | .bool true => [0x74, 0x72, 0x75, 0x65]
  | .bool false => [0x66, 0x61, 0x6C, 0x73, 0x65]
  | .num t => t
  | .str s => printStr s
  | .arr [] => [0x5B, 0x5D]
  | .arr (x :: xs) => 0x5B :: (print x ++ printTail xs)
  | .obj [] => [0x7B, 0x7D]
  | .obj ((k, v) :: kvs) => 0x7B :: (printStr k ++ 0x3A :: (print v ++ printMTail kvs))
def printTail : List JVal → Bytes
  | [] => [0x5D]
  | x :: xs => 0x2C :: (print x ++ printTail xs)
def printMTail : List (Bytes × JVal) → Bytes
  | [] => [0x7D]
  | (k, v) :: kvs => 0x2C :: (printStr k ++ 0x3A :: (print v ++ printMTail kvs))
end

mutual
/-- The tokens of the canonical rendering. -/
def toks : JVal → List Tok
  | .null => [.null]
  | .bool true => [.tru]
  | .bool false => [.fls]
  | .num t => [.num t]
  | .str s => [.str s]
  | .arr [] => [.lbrack, .rbrack]
  | .arr (x :: xs) => .lbrack :: (toks x ++ toksTail xs)
  | .obj [] => [.lbrace, .rbrace]
  | .obj ((k, v) :: kvs) => .lbrace :: .str k :: .colon :: (toks v ++ toksMTail kvs)
def toksTail : List JVal → List Tok
  | [] => [.rbrack]
  | x :: xs => .comma :: (toks x ++ toksTail xs)
def toksMTail : List (Bytes × JVal) → List Tok
  | [] => [.rbrace]
  | (k, v) :: kvs => .comma :: .str k :: .colon :: (toks v ++ toksMTail kvs)
end

/-! ## Well-formed trees (what the canonical printer can render faithfully) -/

/-- A number text the reader recognises as exactly one number. -/
def NumOK (t : Bytes) : Prop := spanNum t = some t.length

instance (t : Bytes) : Decidable (NumOK t) := inferInstanceAs (Decidable (_ = _))

mutual
/-- Nesting depth: the largest number of containers open at once. -/
def depth : JVal → Nat
  | .arr xs => depthL xs + 1
  | .obj kvs => depthM kvs + 1
  | _ => 0
def depthL : List JVal → Nat
  | [] => 0
  | x :: xs => max (depth x) (depthL xs)
def depthM : List (Bytes × JVal) → Nat
  | [] => 0
  | (_, v) :: kvs => max (depth v) (depthM kvs)
end

mutual
/-- Strings are well-formed UTF-8, numbers are number literals. -/
def WF : JVal → Prop
  | .num t => NumOK t
  | .str s => ValidUtf8 s
  | .arr xs => WFL xs
  | .obj kvs => WFM kvs
  | _ => True
def WFL : List JVal → Prop
  | [] => True
  | x :: xs => WF x ∧ WFL xs
def WFM : List (Bytes × JVal) → Prop
  | [] => True
  | (k, v) :: kvs => ValidUtf8 k ∧ WF v ∧ WFM kvs
end

mutual
def decWF : (v : JVal) → Decidable (WF v)
  | .null => isTrue (by simp [WF])
  | .bool _ => isTrue (by simp [WF])
  | .num t => decidable_of_iff (NumOK t) (by simp [WF])
  | .str s => decidable_of_iff (ValidUtf8 s) (by simp [WF])
  | .arr xs => @decidable_of_iff _ (WFL xs) (by simp [WF]) (decWFL xs)
  | .obj kvs => @decidable_of_iff _ (WFM kvs) (by simp [WF]) (decWFM kvs)
def decWFL : (xs : List JVal) → Decidable (WFL xs)
  | [] => isTrue (by simp [WFL])
  | x :: xs => @decidable_of_iff _ (WF x ∧ WFL xs) (by simp [WFL]) (@instDecidableAnd _ _ (decWF x) (decWFL xs))
def decWFM : (kvs : List (Bytes × JVal)) → Decidable (WFM kvs)
  | [] => isTrue (by simp [WFM])
  | (k, v) :: kvs => @decidable_of_iff _ (ValidUtf8 k ∧ WF v ∧ WFM kvs) (by simp [WFM])
      (@instDecidableAnd _ _ _ (@instDecidableAnd _ _ (decWF v) (decWFM kvs)))
end

instance (v : JVal) : Decidable (WF v) := decWF v

/-- `NoCont` as a test. -/
def noContB : Bytes → Bool
  | [] => true
  | c :: _ => !isNumCont c

theorem noCont_iff (r : Bytes) : NoCont r ↔ noContB r = true := by
  cases r with
  | nil => simp [NoCont, noContB]
  | cons c r => simp [NoCont, noContB]

instance (r : Bytes) : Decidable (NoCont r) :=
  decidable_of_iff _ (noCont_iff r).symm

/-! ## Occurrences -/

mutual
/-- The string `s` is a string VALUE somewhere in the tree (member names do not count). -/
def HasStr (s : Bytes) : JVal → Prop
  | .str t => t = s
  | .arr xs => HasStrL s xs
  | .obj kvs => HasStrM s kvs
  | _ => False
def HasStrL (s : Bytes) : List JVal → Prop
  | [] => False
  | x :: xs => HasStr s x ∨ HasStrL s xs
def HasStrM (s : Bytes) : List (Bytes × JVal) → Prop
  | [] => False
  | (_, v) :: kvs => HasStr s v ∨ HasStrM s kvs
end

mutual
/-- The number text `t` is a number somewhere in the tree. -/
def HasNum (t : Bytes) : JVal → Prop
  | .num u => u = t
  | .arr xs => HasNumL t xs
  | .obj kvs => HasNumM t kvs
  | _ => False
def HasNumL (t : Bytes) : List JVal → Prop
  | [] => False
  | x :: xs => HasNum t x ∨ HasNumL t xs
def HasNumM (t : Bytes) : List (Bytes × JVal) → Prop
  | [] => False
  | (_, v) :: kvs => HasNum t v ∨ HasNumM t kvs
end

end OciModel.Json
