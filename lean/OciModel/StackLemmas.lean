/-
Lemmas for CSTK (model in `OciModel/Stack.lean`): the adapters agree with the wrappers' own
models, each layer does what its wrapper's theorems (C12, C13, C05D, C14W) say, and the
induction over the stack.
-/
import OciModel.Stack
import OciModel.Props.C12
import OciModel.Props.C13
import OciModel.Props.C05D
import OciModel.Props.C14W

namespace OciModel.Stack
open OciModel.Select (Call Env Kind Policy)
open OciModel.Scope (Scope)
open OciModel.Generated

variable {ε ρ : Type}

/-! ### Positional arguments -/

theorem lookup_some_mem {α β : Type} [BEq α] [LawfulBEq α] (l : List (α × β)) (k : α) (v : β)
    (h : l.lookup k = some v) : (k, v) ∈ l := by
  induction l with
  | nil => simp at h
  | cons x xs ih =>
    obtain ⟨a, b⟩ := x
    simp only [List.lookup_cons] at h
    by_cases hk : (k == a) = true
    · simp only [hk] at h
      have : k = a := by simpa using hk
      subst this
      simp at h
      subst h
      exact List.mem_cons_self
    · have hk' : (k == a) = false := by simpa using hk
      simp only [hk'] at h
      exact List.mem_cons_of_mem _ (ih h)

theorem bindArgs_cons_self (p : String) (ps : List String) (a : Bytes) (args : List Bytes) :
    bindArgs (p :: ps) (a :: args) p = a := by
  simp [bindArgs]

theorem bindArgs_cons_ne (p q : String) (ps : List String) (a : Bytes) (args : List Bytes) (h : q ≠ p) :
    bindArgs (p :: ps) (a :: args) q = bindArgs ps args q := by
  have : (q == p) = false := by simpa using h
  simp [bindArgs, List.lookup_cons, this]

/-- Binding the parameters to the arguments by position and reading them back in order gives the arguments. -/
theorem map_bindArgs (ps : List String) (args : List Bytes) (hnd : ps.Nodup) (hlen : ps.length = args.length) :
    ps.map (bindArgs ps args) = args := by
  induction ps generalizing args with
  | nil => cases args <;> simp_all
  | cons p ps ih =>
    cases args with
    | nil => simp at hlen
    | cons a args =>
      simp only [List.nodup_cons] at hnd
      simp only [List.length_cons, Nat.add_right_cancel_iff] at hlen
      simp only [List.map_cons, bindArgs_cons_self, List.cons.injEq, true_and]
      have h1 : ps.map (bindArgs (p :: ps) (a :: args)) = ps.map (bindArgs ps args) := by
        apply List.map_congr_left
        intro q hq
        exact bindArgs_cons_ne p q ps a args (fun h => hnd.1 (h ▸ hq))
      rw [h1]
      exact ih args hnd.2 hlen

/-- `Sub.specArgs` is `subArgs` of the argument values. -/
theorem specArgs_eq_subArgs (p : Bytes) (env : Env) (m : String) (ips ps : List String) :
    Sub.specArgs p env m ips ps = subArgs p m ips (ps.map env) := by
  simp [Sub.specArgs, subArgs, List.zip_map_right, Function.comp_def]

theorem subArgs_length (p : Bytes) (m : String) (ips : List String) (args : List Bytes)
    (h : ips.length = args.length) : (subArgs p m ips args).length = args.length := by
  simp [subArgs, h]

/-- `Select.specGuards`, evaluated, is `selChecks` of the argument values. -/
theorem specGuards_eq_selChecks (env : Env) (m : String) (ips ps : List String) (gs : List Select.RGuard)
    (h : Select.specGuards m ips ps = some gs) :
    gs.map (fun g => (g.val env, g.kind)) = selChecks m ips (ps.map env) := by
  unfold Select.specGuards at h
  unfold selChecks
  cases hk : Select.groupKind m with
  | none => simp [hk] at h
  | some k =>
    simp only [hk] at h ⊢
    by_cases hm : (m == "Repositories") = true
    · simp only [hm, if_true, Option.some.injEq] at h ⊢
      subst h
      simp [Select.RGuard.val]
    · simp only [hm, Bool.false_eq_true, if_false, Option.some.injEq] at h ⊢
      subst h
      simp [Select.RGuard.val, List.zip_map_right, List.filter_map, Function.comp_def]

theorem firstFail_eq_firstReject (check : Policy ε) (env : Env) (gs : List Select.RGuard) :
    Select.firstFail check env gs = firstReject check (gs.map fun g => (g.val env, g.kind)) := by
  induction gs with
  | nil => rfl
  | cons g gs ih =>
    simp only [Select.firstFail, List.map_cons, firstReject]
    cases check (g.val env) g.kind <;> simp [ih]

theorem firstReject_none_iff (check : Policy ε) (xs : List (Bytes × Kind)) :
    firstReject check xs = none ↔ ∀ x ∈ xs, check x.1 x.2 = none := by
  induction xs with
  | nil => simp [firstReject]
  | cons x xs ih =>
    simp only [firstReject, List.mem_cons, forall_eq_or_imp]
    cases h : check x.1 x.2 <;> simp [ih]

theorem firstReject_some_mem (check : Policy ε) (xs : List (Bytes × Kind)) (e : ε)
    (h : firstReject check xs = some e) : ∃ x ∈ xs, check x.1 x.2 = some e := by
  induction xs with
  | nil => simp [firstReject] at h
  | cons x xs ih =>
    simp only [firstReject] at h
    cases hc : check x.1 x.2 with
    | none =>
      rw [hc] at h
      obtain ⟨y, hy, hy'⟩ := ih h
      exact ⟨y, List.mem_cons_of_mem _ hy, hy'⟩
    | some e' =>
      rw [hc] at h
      simp at h
      exact ⟨x, List.mem_cons_self, by rw [hc, h]⟩

/-! ### The facts about the regenerated tables the stack theorems rest on -/

/-- For one method of `ociregistry.Interface`: each wrapper's table has a well-formed row for it
(`Select.RowOk`, `Sub.RowOk`, `Iter.RowOk`) with distinct parameter names and the interface's arity,
and `opTable` names an operation of that method. -/
def MethodOk (mp : String × List (String × String)) : Bool :=
  (match selRow mp.1 with
   | some r => Select.RowOk r && decide r.params.Nodup
   | none => false) &&
  (match subRow mp.1 with
   | some r => Sub.RowOk r && decide r.params.Nodup
   | none => false) &&
  (match dbgRow mp.1 with
   | some r => Iter.RowOk "r.r" r && decide r.params.Nodup && r.params.length == mp.2.length
   | none => false) &&
  (match opOf mp.1 with
   | some op => WrapRO.methodOf op == some mp.1
   | none => false)

/-- The seven Reader methods: the debug wrapper passes their results back as they are, their only
repository argument is the first one, it is checked for read access, and `ReadOnly` lets them through. -/
def ReadersOk : Bool :=
  Iface.readerMethods.all fun m => plainMethod m && repoFirst m .read && !WrapRO.isMutatorMethod m

def TablesOk : Bool := Iface.methodParams.all MethodOk && ReadersOk && Sub.CodeOk && WrapRO.ReadOnlyOk

theorem wf_unfold (c : Call) (h : wf c = true) :
    ∃ ips, ifaceArgs c.method = some ips ∧ ips.length = c.args.length := by
  unfold wf at h
  cases hi : ifaceArgs c.method with
  | none => simp [hi] at h
  | some ips => exact ⟨ips, rfl, by simpa [hi] using h⟩

theorem methodOk_of_iface (hok : TablesOk = true) (m : String) (ips : List String)
    (hips : ifaceArgs m = some ips) :
    ∃ ps, MethodOk (m, ps) = true ∧ ps.length = ips.length := by
  simp only [ifaceArgs, Select.ifaceParamNames] at hips
  cases hl : Iface.methodParams.lookup m with
  | none => simp [hl] at hips
  | some ps =>
    simp only [hl, Option.map_some, Option.some.injEq] at hips
    have hmem := lookup_some_mem _ _ _ hl
    simp only [TablesOk, Bool.and_eq_true, List.all_eq_true] at hok
    exact ⟨ps, hok.1.1.1 _ hmem, by rw [← hips]; simp⟩

/-! ### What `TablesOk` says about one method -/

theorem sel_facts (hok : TablesOk = true) (m : String) (ips : List String) (hips : ifaceArgs m = some ips) :
    ∃ r, selRow m = some r ∧ r.method = m ∧ Select.RowOk r = true ∧ r.params.Nodup ∧
      r.params.length = ips.length := by
  obtain ⟨ps, hmo, _⟩ := methodOk_of_iface hok m ips hips
  simp only [MethodOk, Bool.and_eq_true] at hmo
  obtain ⟨⟨⟨hsel, _⟩, _⟩, _⟩ := hmo
  cases hr : selRow m with
  | none => simp [hr] at hsel
  | some r =>
    simp only [hr, Bool.and_eq_true, decide_eq_true_eq] at hsel
    have hrm : r.method = m := by
      have := List.find?_some hr
      simpa using this
    refine ⟨r, rfl, hrm, hsel.1, hsel.2, ?_⟩
    have hips' : Select.ifaceParamNames r.method = some ips := by rw [hrm]; exact hips
    have h := hsel.1
    simp only [Select.RowOk, hips', Bool.and_eq_true, beq_iff_eq] at h
    exact h.1.2.1.1.symm

theorem sub_facts (hok : TablesOk = true) (m : String) (ips : List String) (hips : ifaceArgs m = some ips) :
    ∃ r, subRow m = some r ∧ r.method = m ∧ Sub.RowOk r = true ∧ r.params.Nodup ∧
      r.params.length = ips.length ∧ (m ≠ "Repositories" → r.shape = "direct") := by
  obtain ⟨ps, hmo, _⟩ := methodOk_of_iface hok m ips hips
  simp only [MethodOk, Bool.and_eq_true] at hmo
  obtain ⟨⟨⟨_, hsub⟩, _⟩, _⟩ := hmo
  cases hr : subRow m with
  | none => simp [hr] at hsub
  | some r =>
    simp only [hr, Bool.and_eq_true, decide_eq_true_eq] at hsub
    have hrm : r.method = m := by
      have := List.find?_some hr
      simpa using this
    have hips' : Sub.ifaceParamNames r.method = some ips := by rw [hrm]; exact hips
    have h := hsub.1
    simp only [Sub.RowOk, hips', Bool.and_eq_true, beq_iff_eq] at h
    refine ⟨r, rfl, hrm, hsub.1, hsub.2, h.1.2.1.symm, ?_⟩
    intro hne
    have := h.2
    rw [hrm] at this
    simpa [hne] using this

theorem dbg_facts (hok : TablesOk = true) (m : String) (ips : List String) (hips : ifaceArgs m = some ips) :
    ∃ r, dbgRow m = some r ∧ r.method = m ∧ Iter.RowOk "r.r" r = true ∧ r.params.Nodup ∧
      r.params.length = ips.length := by
  obtain ⟨ps, hmo, hlen⟩ := methodOk_of_iface hok m ips hips
  simp only [MethodOk, Bool.and_eq_true] at hmo
  obtain ⟨⟨⟨_, _⟩, hdbg⟩, _⟩ := hmo
  cases hr : dbgRow m with
  | none => simp [hr] at hdbg
  | some r =>
    simp only [hr, Bool.and_eq_true, decide_eq_true_eq, beq_iff_eq] at hdbg
    have hrm : r.method = m := by
      have := List.find?_some hr
      simpa using this
    exact ⟨r, rfl, hrm, hdbg.1.1, hdbg.1.2, by rw [hdbg.2]; exact hlen⟩

theorem op_facts (hok : TablesOk = true) (m : String) (ips : List String) (hips : ifaceArgs m = some ips) :
    ∃ op, opOf m = some op ∧ WrapRO.methodOf op = some m := by
  obtain ⟨ps, hmo, _⟩ := methodOk_of_iface hok m ips hips
  simp only [MethodOk, Bool.and_eq_true] at hmo
  obtain ⟨_, hop⟩ := hmo
  cases hr : opOf m with
  | none => simp [hr] at hop
  | some op => exact ⟨op, rfl, by simpa [hr] using hop⟩

theorem codeOk_of (hok : TablesOk = true) : Sub.CodeOk = true := by
  simp only [TablesOk, Bool.and_eq_true] at hok
  exact hok.1.2

theorem readersOk_of (hok : TablesOk = true) (m : String) (hm : m ∈ Iface.readerMethods) :
    plainMethod m = true ∧ repoFirst m .read = true ∧ WrapRO.isMutatorMethod m = false := by
  simp only [TablesOk, Bool.and_eq_true] at hok
  have h := hok.1.1.2
  simp only [ReadersOk, List.all_eq_true, Bool.and_eq_true, Bool.not_eq_true'] at h
  exact ⟨(h m hm).1.1, (h m hm).1.2, (h m hm).2⟩

theorem readOnlyOk_of (hok : TablesOk = true) : WrapRO.ReadOnlyOk = true := by
  simp only [TablesOk, Bool.and_eq_true] at hok
  exact hok.2

/-! ### One layer -/

/-- `select`: by C12 `allowed_transparent` when the policy allows every repository involved — the same
call goes down and its answer comes back — and otherwise the first refusal, with no call made. -/
theorem selectLayer_eq (hok : TablesOk = true) (chk : Policy ε) (next : Backend ε ρ) (sc : Scope) (c : Call)
    (hwf : wf c = true) (hm : c.method ≠ "Repositories") :
    selectLayer chk next sc c =
      match firstReject chk (callChecks c) with
      | some e => ⟨.rejected e, []⟩
      | none => next sc c := by
  obtain ⟨ips, hips, hlen⟩ := wf_unfold c hwf
  obtain ⟨r, hr, hrm, hrok, hnd, hrl⟩ := sel_facts hok _ _ hips
  have hips' : Select.ifaceParamNames r.method = some ips := by rw [hrm]; exact hips
  obtain ⟨hk, _, _, ⟨gs, hres, hspec⟩, hsh⟩ := Select.rowOk_unfold r hrok ips hips'
  have hm' : r.method ≠ "Repositories" := by rw [hrm]; exact hm
  simp only [hm', if_false] at hsh
  have henv : r.params.map (bindArgs r.params c.args) = c.args := map_bindArgs _ _ hnd (by omega)
  have hchecks : gs.map (fun g => (g.val (bindArgs r.params c.args), g.kind)) = callChecks c := by
    rw [specGuards_eq_selChecks _ r.method ips r.params gs hspec, henv, callChecks, hips, hrm]
    rfl
  have hff : Select.firstFail chk (bindArgs r.params c.args) gs = firstReject chk (callChecks c) := by
    rw [firstFail_eq_firstReject, hchecks]
  have harity : (r.params.length != c.args.length) = false := by simp; omega
  unfold selectLayer
  simp only [hr, harity, Bool.false_eq_true, if_false]
  cases hfr : firstReject chk (callChecks c) with
  | none =>
    have hallow := (Select.firstFail_none_iff chk _ gs).mp (hff.trans hfr)
    rw [Props.C12.allowed_transparent r hrok hm' chk (next sc) _ ips hips' gs hspec hallow, henv, hrm]
  | some e =>
    rw [hfr] at hff
    simp [Select.call, hk, hsh, hres, hff]

/-- `sub`: by C13 `sub_name_map`, the one call made is the same method with the repository arguments
under the prefix and the scopes mapped; its answer comes back. -/
theorem subLayer_eq (hok : TablesOk = true) (p : Bytes) (next : Backend ε ρ) (sc : Scope) (c : Call)
    (hwf : wf c = true) (hm : c.method ≠ "Repositories") :
    subLayer p next sc c = next (Sub.mapScopes p sc) (subCall p c) := by
  obtain ⟨ips, hips, hlen⟩ := wf_unfold c hwf
  obtain ⟨r, hr, hrm, hrok, hnd, hrl, hshape⟩ := sub_facts hok _ _ hips
  have hips' : Sub.ifaceParamNames r.method = some ips := by rw [hrm]; exact hips
  have henv : r.params.map (bindArgs r.params c.args) = c.args := map_bindArgs _ _ hnd (by omega)
  have harity : (r.params.length != c.args.length) = false := by simp; omega
  have hsh : (r.shape != "direct") = false := by simp [hshape hm]
  unfold subLayer
  simp only [hr, harity, hsh, Bool.or_self, Bool.false_eq_true, if_false]
  rw [Props.C13.sub_name_map (codeOk_of hok) r hrok ips hips' p _ sc, specArgs_eq_subArgs, henv, hrm]
  simp [subCall, hips]

/-- A plain row of the debug wrapper makes its one call and hands the error result back as it is. -/
theorem plain_call {V E : Type} (r : Generated.Debug.Row) (h : Iter.RowOk "r.r" r = true) (hp : plainRow r = true)
    (backend : Iter.Call V → Iter.Res V E) (env : String → V) :
    ∃ v, Iter.call backend env r =
      some ⟨[⟨"r.r", r.method, true, r.params.map env⟩], v,
        some (backend ⟨"r.r", r.method, true, r.params.map env⟩).err⟩ := by
  simp only [Iter.RowOk, Bool.and_eq_true, Bool.or_eq_true, beq_iff_eq] at h
  obtain ⟨⟨⟨⟨⟨⟨hk, hrecv⟩, hn⟩, hcallee⟩, hargs⟩, hctx⟩, _⟩ := h
  simp only [plainRow, Bool.and_eq_true, Bool.or_eq_true, beq_iff_eq] at hp
  obtain ⟨hg, hp⟩ := hp
  rcases hp with ⟨hv, he⟩ | ⟨hv, he⟩
  · exact ⟨.same (backend ⟨"r.r", r.method, true, r.params.map env⟩).val,
      by simp [Iter.call, hk, hn, hrecv, hcallee, hargs, hctx, hg, hv, he]⟩
  · exact ⟨.absent, by simp [Iter.call, hk, hn, hrecv, hcallee, hargs, hctx, hv, he]⟩

/-- `debug`: a plain method goes down unchanged, with the caller's context, and its answer comes back. -/
theorem debugLayer_eq (hok : TablesOk = true) (next : Backend ε ρ) (sc : Scope) (c : Call)
    (hwf : wf c = true) (hpl : plainMethod c.method = true) :
    debugLayer next sc c = next sc c := by
  obtain ⟨ips, hips, hlen⟩ := wf_unfold c hwf
  obtain ⟨r, hr, hrm, hrok, hnd, hrl⟩ := dbg_facts hok _ _ hips
  have hplain : plainRow r = true := by simpa [plainMethod, hr] using hpl
  have henv : r.params.map (bindArgs r.params c.args) = c.args := map_bindArgs _ _ hnd (by omega)
  have harity : (r.params.length != c.args.length) = false := by simp; omega
  unfold debugLayer
  simp only [hr, harity, hplain, Bool.not_true, Bool.or_self, Bool.false_eq_true, if_false]
  obtain ⟨v, hv⟩ := plain_call (V := Bytes) (E := Out ε ρ) r hrok hplain
    (fun dc => ⟨none, some (next (if dc.ctx then sc else Scope.empty) ⟨dc.method, dc.args⟩)⟩)
    (bindArgs r.params c.args)
  rw [hv]
  simp [henv, hrm]

/-- `readOnly`: by C14W, a Writer or Deleter method is refused with no call made, a Reader or Lister
method goes down unchanged. -/
theorem roLayer_eq (hok : TablesOk = true) (e : ε) (next : Backend ε ρ) (sc : Scope) (c : Call)
    (hwf : wf c = true) :
    roLayer e next sc c = if WrapRO.isMutatorMethod c.method then ⟨.rejected e, []⟩ else next sc c := by
  obtain ⟨ips, hips, _⟩ := wf_unfold c hwf
  obtain ⟨op, hop, hmo⟩ := op_facts hok _ _ hips
  have hro := readOnlyOk_of hok
  unfold roLayer
  simp only [hop]
  by_cases hmut : WrapRO.isMutatorMethod c.method = true
  · rw [Props.C14W.readonly_mutators_unsupported hro _ () op _ hmo hmut]
    simp [hmut]
  · have hread : WrapRO.isReadMethod c.method = true := by
      rcases Props.C14W.generated_alphabet_ok op _ hmo with h | h
      · exact h
      · exact absurd h hmut
    rw [Props.C14W.readonly_reads_transparent hro _ () op _ hmo hread]
    simp [hmut]

/-! ### What a layer hands down is again a well-formed call of the same method -/

theorem layerCall_method (l : Layer ε) (c : Call) : (layerCall l c).method = c.method := by
  cases l <;> simp [layerCall]
  split <;> simp [subCall]

theorem layerCall_wf (l : Layer ε) (c : Call) (h : wf c = true) : wf (layerCall l c) = true := by
  obtain ⟨ips, hips, hlen⟩ := wf_unfold c h
  cases l <;> simp only [layerCall, h]
  split
  · exact h
  · simp [wf, subCall, hips, subArgs, hlen]

theorem layer_eq (hok : TablesOk = true) (l : Layer ε) (next : Backend ε ρ) (sc : Scope) (c : Call)
    (hwf : wf c = true) (hm : c.method ≠ "Repositories")
    (hpl : isDebug l = true → plainMethod c.method = true) :
    layer l next sc c =
      match layerVerdict l c with
      | some e => ⟨.rejected e, []⟩
      | none => next (layerScope l sc) (layerCall l c) := by
  cases l with
  | debug => simpa [layer, layerVerdict, layerScope, layerCall] using debugLayer_eq hok next sc c hwf (hpl rfl)
  | select chk => simpa [layer, layerVerdict, layerScope, layerCall] using selectLayer_eq hok chk next sc c hwf hm
  | sub p =>
    by_cases hp : p = []
    · simp [layer, layerVerdict, layerScope, layerCall, hp]
    · simpa [layer, layerVerdict, layerScope, layerCall, hp] using subLayer_eq hok p next sc c hwf hm
  | readOnly e =>
    rw [show layer (.readOnly e) next = roLayer e next from rfl, roLayer_eq hok e next sc c hwf]
    by_cases hmut : WrapRO.isMutatorMethod c.method = true <;> simp [layerVerdict, layerScope, layerCall, hmut]

/-! ### The stack -/

/-- The whole behaviour of a stack on a well-formed call whose result the wrappers pass back as it is:
the outermost refusal, with no call made on `B`; or, when no layer refuses, `B`'s answer to the call
with the `sub` prefixes prepended. By induction on the stack from the four layer lemmas. -/
theorem interp_eq (hok : TablesOk = true) (stack : List (Layer ε)) (B : Backend ε ρ) (sc : Scope) (c : Call)
    (hwf : wf c = true) (hm : c.method ≠ "Repositories")
    (hpl : hasDebug stack = true → plainMethod c.method = true) :
    interp stack B sc c =
      match verdict stack c with
      | some e => ⟨.rejected e, []⟩
      | none => B (stackScope stack sc) (stackCall stack c) := by
  induction stack generalizing sc c with
  | nil => simp [interp, verdict, stackScope, stackCall]
  | cons l ls ih =>
    have hpl1 : isDebug l = true → plainMethod c.method = true := fun h => hpl (by simp [hasDebug, h])
    have hpl2 : hasDebug ls = true → plainMethod (layerCall l c).method = true := fun h => by
      rw [layerCall_method]
      exact hpl (by simp only [hasDebug, List.any_cons, Bool.or_eq_true]; exact Or.inr h)
    simp only [interp, verdict, stackScope, stackCall]
    rw [layer_eq hok l _ sc c hwf hm hpl1]
    cases hv : layerVerdict l c with
    | some e => rfl
    | none =>
      simp only []
      exact ih (layerScope l sc) (layerCall l c) (layerCall_wf l c hwf) (by rw [layerCall_method]; exact hm) hpl2

/-! ### Methods whose only repository argument is the first one -/

theorem repoFirst_unfold (m : String) (k : Kind) (h : repoFirst m k = true) :
    m ≠ "MountBlob" ∧ m ≠ "Repositories" ∧ Select.groupKind m = some k ∧
    ∃ ips, ifaceArgs m = some ("repo" :: ips) ∧
      (∀ i ∈ ips, Select.isRepoParam i = false) ∧ (∀ i ∈ ips, Sub.specMapped m i = false) := by
  unfold repoFirst at h
  cases hi : ifaceArgs m with
  | none => simp [hi] at h
  | some l =>
    cases l with
    | nil => simp [hi] at h
    | cons i ips =>
      simp only [hi, Bool.and_eq_true, bne_iff_ne, ne_eq, beq_iff_eq, List.all_eq_true,
        Bool.not_eq_true'] at h
      obtain ⟨⟨⟨h1, h2⟩, h3⟩, h4, h5⟩ := h
      subst h4
      exact ⟨h1, h2, h3, ips, rfl, fun i hi' => (h5 i hi').1, fun i hi' => (h5 i hi').2⟩

theorem filter_zip_nil (ips : List String) (rest : List Bytes) (h : ∀ i ∈ ips, Select.isRepoParam i = false) :
    ((ips.zip rest).filter fun x => Select.isRepoParam x.1) = [] := by
  rw [List.filter_eq_nil_iff]
  intro x hx
  obtain ⟨a, b⟩ := x
  have := (List.of_mem_zip hx).1
  simp [h a this]

theorem map_zip_unmapped (p : Bytes) (m : String) (ips : List String) (rest : List Bytes)
    (hlen : ips.length = rest.length) (h : ∀ i ∈ ips, Sub.specMapped m i = false) :
    ((ips.zip rest).map fun x => if Sub.specMapped m x.1 then Sub.mapName p x.2 else x.2) = rest := by
  induction ips generalizing rest with
  | nil => cases rest <;> simp_all
  | cons i ips ih =>
    cases rest with
    | nil => simp at hlen
    | cons a rest =>
      simp only [List.length_cons, Nat.add_right_cancel_iff] at hlen
      simp only [List.zip_cons_cons, List.map_cons, h i List.mem_cons_self, Bool.false_eq_true, if_false,
        List.cons.injEq, true_and]
      exact ih rest hlen (fun j hj => h j (List.mem_cons_of_mem _ hj))

/-- The policy is asked one question about such a call: the first argument, for the method's kind. -/
theorem callChecks_repoFirst (m : String) (k : Kind) (h : repoFirst m k = true) (n : Bytes) (rest : List Bytes) :
    callChecks ⟨m, n :: rest⟩ = [(n, k)] := by
  obtain ⟨h1, h2, h3, ips, hips, hr, _⟩ := repoFirst_unfold m k h
  have e1 : (m == "Repositories") = false := by simpa using h2
  have e2 : (m == "MountBlob") = false := by simpa using h1
  have e3 : Select.isRepoParam "repo" = true := by decide
  simp [callChecks, hips, selChecks, h3, e1, e2, e3, filter_zip_nil ips rest hr]

/-- `Sub` puts the prefix on that argument and leaves the others alone. -/
theorem subCall_repoFirst (p : Bytes) (m : String) (k : Kind) (h : repoFirst m k = true) (n : Bytes)
    (rest : List Bytes) (hwf : wf ⟨m, n :: rest⟩ = true) :
    subCall p ⟨m, n :: rest⟩ = ⟨m, Sub.mapName p n :: rest⟩ := by
  obtain ⟨_, _, _, ips, hips, _, hs⟩ := repoFirst_unfold m k h
  obtain ⟨ips', hips', hlen⟩ := wf_unfold _ hwf
  simp only [hips, Option.some.injEq] at hips'
  subst hips'
  simp only [List.length_cons, Nat.add_right_cancel_iff] at hlen
  have e3 : Sub.specMapped m "repo" = true := by simp [Sub.specMapped, Sub.isRepoParam]
  simp [subCall, hips, subArgs, e3, map_zip_unmapped p m ips rest hlen hs]

theorem layerCall_repoFirst (l : Layer ε) (m : String) (k : Kind) (h : repoFirst m k = true) (n : Bytes)
    (rest : List Bytes) (hwf : wf ⟨m, n :: rest⟩ = true) :
    layerCall l ⟨m, n :: rest⟩ = ⟨m, layerName l n :: rest⟩ := by
  cases l with
  | sub p =>
    by_cases hp : p = []
    · simp [layerCall, layerName, hp]
    · simp [layerCall, layerName, hp, subCall_repoFirst p m k h n rest hwf]
  | _ => rfl

/-- The call that reaches the bottom has the view's name replaced by the repository it stands for. -/
theorem stackCall_repoFirst (stack : List (Layer ε)) (m : String) (k : Kind) (h : repoFirst m k = true)
    (n : Bytes) (rest : List Bytes) (hwf : wf ⟨m, n :: rest⟩ = true) :
    stackCall stack ⟨m, n :: rest⟩ = ⟨m, stackName stack n :: rest⟩ := by
  induction stack generalizing n with
  | nil => rfl
  | cons l ls ih =>
    have hc := layerCall_repoFirst l m k h n rest hwf
    simp only [stackCall, stackName, hc]
    exact ih _ (by rw [← hc]; exact layerCall_wf l _ hwf)

/-- No layer refuses a Reader call on a name every `select` layer allows to be read. -/
theorem verdict_none_of_allowed (stack : List (Layer ε)) (m : String) (h : repoFirst m .read = true)
    (hmut : WrapRO.isMutatorMethod m = false) (n : Bytes) (rest : List Bytes)
    (hwf : wf ⟨m, n :: rest⟩ = true) (hallow : Allowed .read stack n) :
    verdict stack ⟨m, n :: rest⟩ = none := by
  induction stack generalizing n with
  | nil => rfl
  | cons l ls ih =>
    have hc := layerCall_repoFirst l m .read h n rest hwf
    have hwf' : wf ⟨m, layerName l n :: rest⟩ = true := by rw [← hc]; exact layerCall_wf l _ hwf
    simp only [verdict, hc]
    cases l with
    | select chk =>
      simp only [Allowed] at hallow
      simp only [layerVerdict, callChecks_repoFirst m .read h, firstReject, hallow.1]
      exact ih _ hwf' hallow.2
    | debug => exact ih _ hwf' hallow
    | sub p => exact ih _ hwf' hallow
    | readOnly e =>
      simp only [layerVerdict, hmut, Bool.false_eq_true, if_false]
      exact ih _ hwf' hallow

/-- Some layer refuses a call on a name that some `select` layer refuses (for the method's kind). -/
theorem verdict_isSome_of_refused (stack : List (Layer ε)) (m : String) (k : Kind) (h : repoFirst m k = true)
    (n : Bytes) (rest : List Bytes) (hwf : wf ⟨m, n :: rest⟩ = true) (href : Refused k stack n) :
    (verdict stack ⟨m, n :: rest⟩).isSome = true := by
  induction stack generalizing n with
  | nil => exact absurd href (by simp [Refused])
  | cons l ls ih =>
    have hc := layerCall_repoFirst l m k h n rest hwf
    have hwf' : wf ⟨m, layerName l n :: rest⟩ = true := by rw [← hc]; exact layerCall_wf l _ hwf
    simp only [verdict, hc]
    cases l with
    | select chk =>
      simp only [Refused] at href
      simp only [layerVerdict, callChecks_repoFirst m k h, firstReject]
      cases hchk : chk n k with
      | some e => rfl
      | none =>
        rcases href with href | href
        · simp [hchk] at href
        · exact ih _ hwf' href
    | debug => exact ih _ hwf' href
    | sub p => exact ih _ hwf' href
    | readOnly e =>
      simp only [layerVerdict]
      split
      · rfl
      · exact ih _ hwf' href

/-- Where a refusal comes from: the policy of a `select` layer, or a `readOnly` layer. -/
def errorsOf : List (Layer ε) → ε → Prop
  | [], _ => False
  | .select chk :: ls, e => (∃ n k, chk n k = some e) ∨ errorsOf ls e
  | .readOnly u :: ls, e => e = u ∨ errorsOf ls e
  | _ :: ls, e => errorsOf ls e

theorem verdict_origin (stack : List (Layer ε)) (c : Call) (e : ε) (h : verdict stack c = some e) :
    errorsOf stack e := by
  induction stack generalizing c with
  | nil => simp [verdict] at h
  | cons l ls ih =>
    simp only [verdict] at h
    cases l with
    | select chk =>
      simp only [layerVerdict] at h
      simp only [errorsOf]
      cases hfr : firstReject chk (callChecks c) with
      | some e' =>
        rw [hfr] at h
        simp only [Option.some.injEq] at h
        subst h
        obtain ⟨x, _, hx⟩ := firstReject_some_mem chk _ _ hfr
        exact Or.inl ⟨x.1, x.2, hx⟩
      | none =>
        rw [hfr] at h
        exact Or.inr (ih _ h)
    | debug => exact ih _ h
    | sub p => exact ih _ h
    | readOnly u =>
      simp only [errorsOf]
      by_cases hmut : WrapRO.isMutatorMethod c.method = true
      · simp only [layerVerdict, hmut, if_true, Option.some.injEq] at h
        exact Or.inl h.symm
      · simp only [layerVerdict, hmut, Bool.false_eq_true, if_false] at h
        exact Or.inr (ih _ h)

/-! ### Names: nested prefixes are one prefix (C13 `sub_sub_name`) -/

theorem stackName_eq_foldl (stack : List (Layer ε)) (n : Bytes) :
    stackName stack n = (prefixes stack).foldl (fun acc p => Sub.mapName p acc) n := by
  induction stack generalizing n with
  | nil => rfl
  | cons l ls ih =>
    cases l with
    | sub p =>
      by_cases hp : p = []
      · simp [stackName, layerName, prefixes, hp, ih]
      · simp [stackName, layerName, prefixes, hp, ih]
    | debug => simp [stackName, layerName, prefixes, ih]
    | select chk => simp [stackName, layerName, prefixes, ih]
    | readOnly e => simp [stackName, layerName, prefixes, ih]

theorem foldl_mapName_join (p : Bytes) (ps : List Bytes) (n : Bytes) :
    (p :: ps).foldl (fun acc q => Sub.mapName q acc) n = Sub.mapName (joinPrefixes (p :: ps)) n := by
  induction ps generalizing p n with
  | nil => rfl
  | cons q ps ih =>
    have := ih q (Sub.mapName p n)
    simp only [List.foldl_cons] at this ⊢
    rw [this, Props.C13.sub_sub_name]
    rfl

/-- A stack with at least one (non-empty) prefix maps names as the single view `Sub(B, joined prefix)`
does; one with none leaves them alone. -/
theorem stackName_eq_join (stack : List (Layer ε)) (n : Bytes) :
    stackName stack n =
      if prefixes stack = [] then n else Sub.mapName (joinPrefixes (prefixes stack)) n := by
  rw [stackName_eq_foldl]
  cases h : prefixes stack with
  | nil => simp
  | cons p ps => simp only [reduceCtorEq, if_false]; exact foldl_mapName_join p ps n

/-- Hence whatever name is asked for, the repository addressed at the bottom is under the joined prefix. -/
theorem stackName_confined (stack : List (Layer ε)) (n : Bytes) (h : prefixes stack ≠ []) :
    (joinPrefixes (prefixes stack) ++ [47]) <+: stackName stack n := by
  rw [stackName_eq_join, if_neg h]
  exact Props.C13.sub_confined _ _

/-! ### Listings -/

theorem debugList_items (ns : List Bytes) : debugList (ε := ε) (ns.map .item) = ns.map .item := by
  induction ns with
  | nil => rfl
  | cons n ns ih =>
    simp only [debugList, List.map_cons, toIterEv, Iter.cut, ofIterEv] at ih ⊢
    rw [ih]

/-- Through any stack whose `select` layers allow listing, an error-free listing of the bottom registry
(asked with the scopes and the start point mapped by the `sub` layers) shows as `stackView` of it. -/
theorem interpList_items (stack : List (Layer ε)) (L : Lister ε) (sc : Scope) (start : Bytes) (ns : List Bytes)
    (hallow : ListAllowed stack) (hL : L (stackScope stack sc) (stackName stack start) = ns.map .item) :
    interpList stack L sc start = (stackView stack ns).map .item := by
  induction stack generalizing sc start with
  | nil => exact hL
  | cons l ls ih =>
    cases l with
    | debug =>
      simp only [interpList, layerList, stackView, layerView]
      rw [ih sc start hallow hL, debugList_items]
    | select chk =>
      simp only [ListAllowed] at hallow
      simp only [interpList, layerList, stackView, layerView, hallow.1]
      rw [ih sc start hallow.2 hL, Props.C12.visible_is_filter]
    | sub p =>
      by_cases hp : p = []
      · simp only [interpList, layerList, stackView, layerView, hp, if_true]
        exact ih sc start hallow (by simpa [stackScope, stackName, layerScope, layerName, hp] using hL)
      · simp only [interpList, layerList, stackView, layerView, hp, if_false]
        rw [ih (Sub.mapScopes p sc) (Sub.mapName p start) hallow
          (by simpa [stackScope, stackName, layerScope, layerName, hp] using hL), Props.C13.sub_visible_names]
    | readOnly e =>
      simp only [interpList, layerList, stackView, layerView]
      exact ih sc start hallow hL

/-- A name shows at the top iff the repository it stands for is in the bottom listing and every
`select` layer allows reading it (as that layer names it). -/
theorem mem_stackView (stack : List (Layer ε)) (ns : List Bytes) (x : Bytes) :
    x ∈ stackView stack ns ↔ stackName stack x ∈ ns ∧ Allowed .read stack x := by
  induction stack generalizing x with
  | nil => simp [stackView, stackName, Allowed]
  | cons l ls ih =>
    cases l with
    | debug => simp [stackView, layerView, stackName, layerName, Allowed, ih]
    | readOnly e => simp [stackView, layerView, stackName, layerName, Allowed, ih]
    | select chk =>
      simp only [stackView, layerView, List.mem_filter, ih, stackName, layerName, Allowed, Option.isNone_iff_eq_none]
      constructor
      · rintro ⟨⟨h1, h2⟩, h3⟩; exact ⟨h1, h3, h2⟩
      · rintro ⟨h1, h3, h2⟩; exact ⟨⟨h1, h2⟩, h3⟩
    | sub p =>
      by_cases hp : p = []
      · simp [stackView, layerView, stackName, layerName, Allowed, hp, ih]
      · simp only [stackView, layerView, hp, if_false, List.mem_filterMap, stackName, layerName, Allowed]
        constructor
        · rintro ⟨y, hy, hs⟩
          rw [(Props.C13.sub_strip_iff p y x).mp hs] at hy
          exact (ih _).mp hy
        · intro h
          exact ⟨Sub.mapName p x, (ih _).mpr h, Props.C13.sub_strip_map p x⟩

/-- The listing at the top is strictly ascending when the one at the bottom is. -/
theorem stackView_sorted (stack : List (Layer ε)) (ns : List Bytes)
    (h : ns.Pairwise fun a b => compare a b = .lt) :
    (stackView stack ns).Pairwise fun a b => compare a b = .lt := by
  induction stack with
  | nil => exact h
  | cons l ls ih =>
    cases l with
    | debug => exact ih
    | readOnly e => exact ih
    | select chk => exact ih.sublist List.filter_sublist
    | sub p =>
      by_cases hp : p = []
      · simpa [stackView, layerView, hp] using ih
      · simp only [stackView, layerView, hp, if_false]
        refine List.Pairwise.filterMap _ ?_ ih
        intro a a' hlt b hb b' hb'
        rw [(Props.C13.sub_strip_iff p a b).mp hb, (Props.C13.sub_strip_iff p a' b').mp hb',
          Props.C13.sub_order] at hlt
        exact hlt

theorem nodup_of_sorted (l : List Bytes) (h : l.Pairwise fun a b => compare a b = .lt) : l.Nodup := by
  refine List.Pairwise.imp ?_ h
  intro a b hlt hab
  subst hab
  have := Std.ReflCmp.compare_self (cmp := (compare : Bytes → Bytes → Ordering)) (a := a)
  rw [this] at hlt
  cases hlt

/-! ### The adapters agree with the wrappers' own models

Each statement names the run of the wrapper's own model that the layer is read from, says what that
run is by the wrapper's own theorem, and says that the layer's answer is the corresponding one. -/

/-- `select`: `Select.call` on the method's row either makes exactly the call `c` on the next layer and
returns its answer (C12 `allowed_transparent`) — and that answer is the layer's —, or is the policy's
refusal with no call (C12 `denied_no_backend_call`) — and that refusal is the layer's. -/
theorem select_adapter_eq (hok : TablesOk = true) (chk : Policy ε) (next : Backend ε ρ) (sc : Scope) (c : Call)
    (hwf : wf c = true) (hm : c.method ≠ "Repositories") :
    ∃ r, selRow c.method = some r ∧
      ((Select.call chk (next sc) (bindArgs r.params c.args) r = ⟨.returned (next sc c), [c]⟩ ∧
          selectLayer chk next sc c = next sc c) ∨
       (∃ e, Select.call chk (next sc) (bindArgs r.params c.args) r = ⟨.rejected e, []⟩ ∧
          selectLayer chk next sc c = ⟨.rejected e, []⟩)) := by
  obtain ⟨ips, hips, hlen⟩ := wf_unfold c hwf
  obtain ⟨r, hr, hrm, hrok, hnd, hrl⟩ := sel_facts hok _ _ hips
  have hips' : Select.ifaceParamNames r.method = some ips := by rw [hrm]; exact hips
  obtain ⟨_, _, _, ⟨gs, _, hspec⟩, _⟩ := Select.rowOk_unfold r hrok ips hips'
  have hm' : r.method ≠ "Repositories" := by rw [hrm]; exact hm
  have henv : r.params.map (bindArgs r.params c.args) = c.args := map_bindArgs _ _ hnd (by omega)
  have harity : (r.params.length != c.args.length) = false := by simp; omega
  refine ⟨r, hr, ?_⟩
  cases hff : Select.firstFail chk (bindArgs r.params c.args) gs with
  | none =>
    have hallow := (Select.firstFail_none_iff chk _ gs).mp hff
    have h := Props.C12.allowed_transparent r hrok hm' chk (next sc) _ ips hips' gs hspec hallow
    rw [henv, hrm] at h
    exact Or.inl ⟨h, by simp [selectLayer, hr, harity, h]⟩
  | some e0 =>
    obtain ⟨g, hg, hge⟩ := Select.firstFail_some chk _ gs e0 hff
    obtain ⟨e, he, _⟩ := Props.C12.denied_no_backend_call r hrok hm' chk (next sc) _ ips hips' gs hspec
      ⟨g, hg, by rw [hge]; rfl⟩
    exact Or.inr ⟨e, he, by simp [selectLayer, hr, harity, he]⟩

/-- `sub`: `Sub.call` on the method's row is one call, `subCall p c`, with the scopes mapped (C13
`sub_name_map`), and the layer's answer is the next layer's answer to it. -/
theorem sub_adapter_eq (hok : TablesOk = true) (p : Bytes) (next : Backend ε ρ) (sc : Scope) (c : Call)
    (hwf : wf c = true) (hm : c.method ≠ "Repositories") :
    ∃ r, subRow c.method = some r ∧
      Sub.call p (bindArgs r.params c.args) sc r = .ok (subCall p c) (Sub.mapScopes p sc) ∧
      subLayer p next sc c = next (Sub.mapScopes p sc) (subCall p c) := by
  obtain ⟨ips, hips, hlen⟩ := wf_unfold c hwf
  obtain ⟨r, hr, hrm, hrok, hnd, hrl, _⟩ := sub_facts hok _ _ hips
  have hips' : Sub.ifaceParamNames r.method = some ips := by rw [hrm]; exact hips
  have henv : r.params.map (bindArgs r.params c.args) = c.args := map_bindArgs _ _ hnd (by omega)
  refine ⟨r, hr, ?_, subLayer_eq hok p next sc c hwf hm⟩
  rw [Props.C13.sub_name_map (codeOk_of hok) r hrok ips hips' p _ sc, specArgs_eq_subArgs, henv, hrm]
  simp [subCall, hips]

/-- `debug`: `Iter.call` on the method's row is one call of the same method with the caller's context and
arguments, transparent in the sense of C05D (`debug_call_transparent`); for a plain method the layer's
answer is the next layer's answer to that call. -/
theorem debug_adapter_eq (hok : TablesOk = true) (next : Backend ε ρ) (sc : Scope) (c : Call)
    (hwf : wf c = true) (hpl : plainMethod c.method = true) :
    ∃ r o, dbgRow c.method = some r ∧
      Iter.call (V := Bytes) (E := Out ε ρ)
        (fun dc => ⟨none, some (next (if dc.ctx then sc else Scope.empty) ⟨dc.method, dc.args⟩)⟩)
        (bindArgs r.params c.args) r = some o ∧
      Iter.Transparent ⟨"r.r", c.method, true, c.args⟩ ⟨none, some (next sc c)⟩ o ∧
      debugLayer next sc c = next sc c := by
  obtain ⟨ips, hips, hlen⟩ := wf_unfold c hwf
  obtain ⟨r, hr, hrm, hrok, hnd, hrl⟩ := dbg_facts hok _ _ hips
  have henv : r.params.map (bindArgs r.params c.args) = c.args := map_bindArgs _ _ hnd (by omega)
  obtain ⟨o, ho, htr⟩ := Props.C05D.debug_call_transparent (V := Bytes) (E := Out ε ρ) "r.r" r hrok
    (fun dc => ⟨none, some (next (if dc.ctx then sc else Scope.empty) ⟨dc.method, dc.args⟩)⟩)
    (bindArgs r.params c.args)
  refine ⟨r, o, hr, ho, ?_, debugLayer_eq hok next sc c hwf hpl⟩
  simpa [henv, hrm] using htr

/-- `readOnly`: whatever registry `ReadOnly` wraps, `roStep` on the method's operation either hands the
operation on, one call (C14W `readonly_reads_transparent`) — then the layer hands the call on —, or answers
"unsupported" without a call (C14W `readonly_mutators_unsupported`) — then the layer refuses. -/
theorem readOnly_adapter_eq (hok : TablesOk = true) (e : ε) (next : Backend ε ρ) (sc : Scope) (c : Call)
    (hwf : wf c = true) :
    ∃ op, opOf c.method = some op ∧ WrapRO.methodOf op = some c.method ∧
      ∀ (S : Type) (B : WrapRO.Backend S) (s : S),
        (WrapRO.roStep B s op = ((B s op).1, some (B s op).2, [op]) ∧ roLayer e next sc c = next sc c) ∨
        (WrapRO.roStep B s op = (s, some (.err "UNSUPPORTED"), []) ∧
          roLayer e next sc c = ⟨.rejected e, []⟩) := by
  obtain ⟨ips, hips, _⟩ := wf_unfold c hwf
  obtain ⟨op, hop, hmo⟩ := op_facts hok _ _ hips
  have hro := readOnlyOk_of hok
  refine ⟨op, hop, hmo, fun S B s => ?_⟩
  have hl := roLayer_eq hok e next sc c hwf
  by_cases hmut : WrapRO.isMutatorMethod c.method = true
  · exact Or.inr ⟨Props.C14W.readonly_mutators_unsupported hro B s op _ hmo hmut, by simpa [hmut] using hl⟩
  · have hread : WrapRO.isReadMethod c.method = true := by
      rcases Props.C14W.generated_alphabet_ok op _ hmo with h | h
      · exact h
      · exact absurd h hmut
    exact Or.inl ⟨Props.C14W.readonly_reads_transparent hro B s op _ hmo hread, by simpa [hmut] using hl⟩

end OciModel.Stack
