/-
`Mem` (the model of ocimem's code) refines `MemSpec` (the reference registry of C02):
`abs` commutes with every step, with equal outputs, for every state whose association lists
have unique keys (`Mem.KeysUnique`, an invariant of `Mem.step`: `ku_step`); hence equal outputs
over every history from the initial state. All 22 operations of `Mem.Op` are covered.

Equality of abstract states is equality of structures whose map fields are functions, i.e.
extensional equality of the maps (`funext`) plus equality of the domain lists.
-/
import OciModel.MemSpec
import OciModel.MemLemmas

namespace OciModel.MemSpec
open OciModel.Mem (alookup aerase ainsert KU KeysUnique RepoKU)

/-! ### Association lists denote partial maps -/

section AList
variable {β γ : Type}

theorem keys_aerase (k : Bytes) (m : List (Bytes × β)) :
    (aerase k m).map (·.1) = (m.map (·.1)).filter (fun x => x != k) := by
  induction m with
  | nil => rfl
  | cons p m ih =>
    obtain ⟨k', v⟩ := p
    by_cases h : k' = k
    · simp [Mem.aerase_cons, h, ih]
    · simp [Mem.aerase_cons, h, ih]

@[simp] theorem absMap_get (f : β → γ) (m : List (Bytes × β)) (k : Bytes) :
    (absMap f m).get k = (alookup k m).map f := rfl

@[simp] theorem absMap_dom (f : β → γ) (m : List (Bytes × β)) : (absMap f m).dom = m.map (·.1) := rfl

theorem absMap_nil (f : β → γ) : absMap f [] = PMap.empty := rfl

theorem absMap_aerase (f : β → γ) (k : Bytes) (m : List (Bytes × β)) :
    absMap f (aerase k m) = (absMap f m).del k := by
  simp only [absMap, PMap.del, keys_aerase]
  congr 1
  funext x
  rw [Mem.alookup_aerase]
  by_cases h : x = k
  · simp [h]
  · have : ¬ k = x := fun e => h e.symm
    simp [h, this]

theorem absMap_ainsert (f : β → γ) (k : Bytes) (v : β) (m : List (Bytes × β)) :
    absMap f (ainsert k v m) = (absMap f m).set k (f v) := by
  simp only [absMap, PMap.set]
  congr 1
  · funext x
    rw [Mem.alookup_ainsert]
    by_cases h : x = k
    · simp [h]
    · have : ¬ k = x := fun e => h e.symm
      simp [h, this]
  · simp [ainsert, keys_aerase]

theorem filterMap_congr' {α δ : Type} {g g' : α → Option δ} :
    ∀ {l : List α}, (∀ x ∈ l, g x = g' x) → l.filterMap g = l.filterMap g'
  | [], _ => rfl
  | a :: l, h => by
    have h1 : g a = g' a := h a (List.mem_cons_self ..)
    have h2 := filterMap_congr' (l := l) fun x hx => h x (List.mem_cons_of_mem _ hx)
    simp [List.filterMap_cons, h1, h2]

@[simp] theorem absFun_apply (f : β → γ) (m : List (Bytes × β)) (k : Bytes) :
    absFun f m k = (alookup k m).map f := rfl

theorem absFun_nil (f : β → γ) : absFun f [] = FMap.empty := rfl

theorem absFun_aerase (f : β → γ) (k : Bytes) (m : List (Bytes × β)) :
    absFun f (aerase k m) = (absFun f m).del k := by
  funext x
  simp only [absFun, FMap.del]
  rw [Mem.alookup_aerase]
  by_cases h : x = k
  · simp [h]
  · have : ¬ k = x := fun e => h e.symm
    simp [h, this]

theorem absFun_ainsert (f : β → γ) (k : Bytes) (v : β) (m : List (Bytes × β)) :
    absFun f (ainsert k v m) = (absFun f m).set k (f v) := by
  funext x
  simp only [absFun, FMap.set]
  rw [Mem.alookup_ainsert]
  by_cases h : x = k
  · simp [h]
  · have : ¬ k = x := fun e => h e.symm
    simp [h, this]

theorem FMap.set_same {p : FMap γ} {k : Bytes} {v : γ} (h : p k = some v) : p.set k v = p := by
  funext x
  by_cases hx : x = k
  · simp [FMap.set, hx, h]
  · simp [FMap.set, hx]

/-- Re-binding a key to a value with the same image does not change the function. -/
theorem absFun_ainsert_same (f : β → γ) {k : Bytes} {v v' : β} {m : List (Bytes × β)}
    (h : alookup k m = some v) (hf : f v' = f v) : absFun f (ainsert k v' m) = absFun f m := by
  funext x
  simp only [absFun]
  rw [Mem.alookup_ainsert]
  by_cases hx : k = x
  · subst hx; simp [h, hf]
  · simp [hx]

/-- With unique keys, the bound values are the stored values, in order. -/
theorem absMap_values (f : β → γ) {m : List (Bytes × β)} (hku : KU m) :
    (absMap f m).values = m.map (fun p => f p.2) := by
  induction m with
  | nil => rfl
  | cons p m ih =>
    obtain ⟨k, v⟩ := p
    have hk : k ∉ m.map (·.1) := (List.nodup_cons.mp hku).1
    have hm : KU m := (List.nodup_cons.mp hku).2
    have ih' := ih hm
    show ((k :: m.map (·.1)).filterMap fun x => (alookup x ((k, v) :: m)).map f) = f v :: m.map (fun p => f p.2)
    rw [List.filterMap_cons]
    simp only [Mem.alookup_cons, if_true, Option.map_some]
    congr 1
    rw [← ih']
    show _ = (m.map (·.1)).filterMap fun x => (alookup x m).map f
    apply filterMap_congr'
    intro x hx
    have : ¬ k = x := fun e => hk (e ▸ hx)
    simp [this]

theorem absMap_wf (f : β → γ) {m : List (Bytes × β)} (hku : KU m) : (absMap f m).WF := by
  refine ⟨hku, fun k => ?_⟩
  simp only [absMap_dom, absMap_get, Option.isSome_map]
  exact Mem.alookup_isSome_iff.symm

theorem absMap_keysAfter (f : β → γ) (m : List (Bytes × β)) (start : Bytes) :
    (absMap f m).keysAfter start = Mem.keysAfter m start := rfl

end AList

/-! ### Well-formedness of the spec's maps is kept by `set` and `del` -/

section WF
variable {β : Type}

theorem PMap.wf_empty : (PMap.empty : PMap β).WF := ⟨List.nodup_nil, fun k => by simp [PMap.empty]⟩

theorem PMap.wf_set {p : PMap β} (h : p.WF) (k : Bytes) (v : β) : (p.set k v).WF := by
  refine ⟨?_, fun x => ?_⟩
  · simp only [PMap.set, List.nodup_cons]
    exact ⟨by simp, h.1.filter _⟩
  · by_cases hx : x = k
    · simp [PMap.set, hx]
    · simp [PMap.set, hx, h.2 x]

theorem PMap.wf_del {p : PMap β} (h : p.WF) (k : Bytes) : (p.del k).WF := by
  refine ⟨h.1.filter _, fun x => ?_⟩
  by_cases hx : x = k
  · simp [PMap.del, hx]
  · simp [PMap.del, hx, h.2 x]

end WF

/-! ### State-level laws -/

theorem abs_init (imm : Bool) : abs (Mem.init imm) = init imm := rfl

@[simp] theorem abs_nextID (s : Mem.State) : (abs s).nextID = s.nextID := rfl
@[simp] theorem abs_immutableTags (s : Mem.State) : (abs s).immutableTags = s.immutableTags := rfl

theorem abs_repos_get (s : Mem.State) (r : Bytes) : (abs s).repos.get r = (Mem.getRepo s r).map absRepo := rfl

theorem abs_putRepo (s : Mem.State) (r : Bytes) (rp : Mem.Repo) :
    abs (Mem.putRepo s r rp) = (abs s).put r (absRepo rp) := by
  simp [abs, Mem.putRepo, State.put, absMap_ainsert]

theorem abs_setNextID (s : Mem.State) (n : Nat) : abs { s with nextID := n } = { abs s with nextID := n } := rfl

theorem absRepo_empty : absRepo Mem.emptyRepo = emptyRepo := rfl

theorem abs_putBuffer (s : Mem.State) (r : Bytes) (rp : Mem.Repo) (id : Bytes) (b : Mem.Buffer) :
    abs (Mem.putBuffer s r rp id b) = (abs s).putSession r (absRepo rp) id (absBuffer b) := by
  simp [Mem.putBuffer, abs_putRepo, State.putSession, absRepo, absFun_ainsert]

theorem ensureRepo_abs (s : Mem.State) (r : Bytes) :
    ensureRepo (abs s) r = (Mem.makeRepo s r).map fun p => (abs p.1, absRepo p.2) := by
  unfold ensureRepo Mem.makeRepo
  by_cases hr : Ref.isRepo r
  · simp only [hr, Bool.not_true, Bool.false_eq_true, if_false, abs_repos_get]
    cases Mem.getRepo s r with
    | none => simp [abs_putRepo, absRepo_empty]
    | some rp => simp
  · simp [hr]

theorem findBlob_abs (s : Mem.State) (r d : Bytes) :
    findBlob (abs s) r d = match Mem.blobFor s r d with
      | .error e => .error e
      | .ok b => .ok (absBlob b) := by
  unfold findBlob Mem.blobFor
  rw [abs_repos_get]
  cases Mem.getRepo s r with
  | none => rfl
  | some rp =>
    simp only [Option.map_some, absRepo, absFun_apply]
    cases alookup d rp.blobs <;> rfl

theorem findManifest_abs (s : Mem.State) (r d : Bytes) :
    findManifest (abs s) r d = match Mem.manifestFor s r d with
      | .error e => .error e
      | .ok b => .ok (absManifest b) := by
  unfold findManifest Mem.manifestFor
  rw [abs_repos_get]
  cases Mem.getRepo s r with
  | none => rfl
  | some rp =>
    simp only [Option.map_some, absRepo, absMap_get]
    cases alookup d rp.manifests <;> rfl

theorem findSession_abs (s : Mem.State) (r id : Bytes) :
    findSession (abs s) r id = (Mem.getBuffer s r id).map fun p => (absRepo p.1, absBuffer p.2) := by
  unfold findSession Mem.getBuffer
  rw [abs_repos_get]
  cases Mem.getRepo s r with
  | none => rfl
  | some rp =>
    simp only [Option.map_some, absRepo, absFun_apply]
    cases alookup id rp.uploads <;> rfl

section
variable (H : Bytes → Bytes)

theorem absBlob_desc (b : Mem.Blob) : (absBlob b).desc H = Mem.descOf H b := rfl
theorem absManifest_desc (b : Mem.Blob) : (absManifest b).desc H = Mem.descOf H b := rfl

end

theorem checkRefs_abs (rp : Mem.Repo) (rs : List Mem.RefInfo) (subj : Bytes) :
    checkRefs (absRepo rp) rs subj = Mem.checkRefs rp rs subj := by
  induction rs generalizing subj with
  | nil => rfl
  | cons r rest ih =>
    simp only [checkRefs, Mem.checkRefs, ih]
    simp [absRepo]

theorem refsAs_abs (b : Mem.Blob) (mt : Bytes) : refsAs (absManifest b) mt = Mem.refsAs b mt := rfl

theorem reaches_abs (rp : Mem.Repo) (target : Bytes) (fuel : Nat) (refs : List Mem.RefInfo) :
    reaches (absMap absManifest rp.manifests).get target fuel refs = Mem.refersTo rp target fuel refs := by
  induction fuel generalizing refs with
  | zero => simp [reaches, Mem.refersTo]
  | succ n ih =>
    induction refs with
    | nil => simp [reaches, Mem.refersTo]
    | cons r rest ihl =>
      rw [Mem.refersTo, ← ihl]
      simp only [reaches, List.any_cons, absMap_get]
      cases hb : alookup r.desc.digest rp.manifests with
      | none =>
        by_cases hd : r.desc.digest = target <;> by_cases hk : (r.kind = 1 ∨ r.kind = 2) <;> simp [hd, hk]
      | some b =>
        simp only [Option.map_some]
        rw [← ih b.refs, ← ih (Mem.refsAs b r.desc.mediaType)]
        by_cases hd : r.desc.digest = target <;> by_cases hk : (r.kind = 1 ∨ r.kind = 2) <;>
          (simp [hd, hk, absManifest]) <;> rfl

theorem tagged_abs {rp : Mem.Repo} (hku : RepoKU rp) (target : Bytes) :
    tagged (absRepo rp) target = Mem.taggedRefersTo rp target := by
  unfold tagged Mem.taggedRefersTo Mem.tagRefs
  have hv : (absRepo rp).tags.values = rp.tags.map (fun p => p.2) := by
    simp [absRepo, absMap_values id hku.1]
  rw [hv]
  simp only [absRepo, absMap_dom, List.length_map, List.map_map]
  exact reaches_abs rp target _ _

/-! ### The refinement, one step -/

section Step
variable (H : Bytes → Bytes)

set_option hygiene false in
/-- The tail of `pushManifest` (descriptor check, decoding, reference check, store), shared by two branches. -/
local macro "pm_rest" : tactic => `(tactic|
  (by_cases hc2 : (Mem.checkDescData H ⟨mt, H data, data.length⟩ data).isSome = true
   · simp only [hc2, if_true]
   · simp only [hc2, Bool.false_eq_true, if_false]
     cases dec with
     | malformed => rfl
     | «opaque» =>
       simp only [decRefs, hcr]
       cases Mem.checkRefs rp [] [] with
       | none => rfl
       | some subj =>
         by_cases hte : t = [] <;> simp [hte, abs_putRepo, absRepo, absMap_ainsert, absManifest]
     | refs rs =>
       simp only [decRefs, hcr]
       cases Mem.checkRefs rp rs [] with
       | none => rfl
       | some subj =>
         by_cases hte : t = [] <;> simp [hte, abs_putRepo, absRepo, absMap_ainsert, absManifest]))

/-- `abs` commutes with every operation, and the outputs are equal. -/
theorem step_abs {s : Mem.State} (hs : KeysUnique s) (op : Mem.Op) :
    step H (abs s) op = (abs (Mem.step H s op).1, (Mem.step H s op).2) := by
  cases op with
  | getBlob r d =>
    simp only [step, Mem.step, findBlob_abs]
    cases Mem.blobFor s r d <;> rfl
  | getBlobRange r d o0 o1 =>
    simp only [step, Mem.step, findBlob_abs]
    cases Mem.blobFor s r d with
    | error e => rfl
    | ok b =>
      by_cases h : o0 < 0 ∨ o0 > (if o1 < 0 ∨ o1 > (b.data.length : Int) then (b.data.length : Int) else o1)
      · simp [range, absBlob, h]
      · simp [range, absBlob, h, Content.desc, Mem.descOf]
  | getManifest r d =>
    simp only [step, Mem.step, findManifest_abs]
    cases Mem.manifestFor s r d <;> rfl
  | getTag r t =>
    simp only [step, Mem.step, abs_repos_get]
    cases Mem.getRepo s r with
    | none => rfl
    | some rp =>
      simp only [Option.map_some, absRepo, absMap_get]
      cases alookup t rp.tags with
      | none => rfl
      | some d =>
        simp only [Option.map_some, id]
        cases alookup d.digest rp.manifests <;> rfl
  | resolveBlob r d =>
    simp only [step, Mem.step, findBlob_abs]
    cases Mem.blobFor s r d <;> rfl
  | resolveManifest r d =>
    simp only [step, Mem.step, findManifest_abs]
    cases Mem.manifestFor s r d <;> rfl
  | resolveTag r t =>
    simp only [step, Mem.step, abs_repos_get]
    cases Mem.getRepo s r with
    | none => rfl
    | some rp =>
      simp only [Option.map_some, absRepo, absMap_get]
      cases alookup t rp.tags <;> rfl
  | pushBlob r desc data =>
    simp only [step, Mem.step, ensureRepo_abs]
    cases Mem.checkDescData H desc data with
    | some e => rfl
    | none =>
      cases Mem.makeRepo s r with
      | none => rfl
      | some p =>
        obtain ⟨s1, rp⟩ := p
        simp [abs_putRepo, absRepo, absFun_ainsert, absBlob]
  | pushChunked r =>
    simp only [step, Mem.step, ensureRepo_abs]
    cases Mem.makeRepo s r with
    | none => rfl
    | some p =>
      obtain ⟨s1, rp⟩ := p
      simp [abs_setNextID, abs_putBuffer, absBuffer]
  | resume r id offset =>
    simp only [step, Mem.step, ensureRepo_abs]
    cases Mem.makeRepo s r with
    | none => rfl
    | some p =>
      obtain ⟨s1, rp⟩ := p
      cases hu : alookup id rp.uploads with
      | some b => simp [hu, abs_putBuffer, absBuffer, absRepo]
      | none =>
        by_cases hid : id = []
        · subst hid; simp [hu, abs_setNextID, abs_putBuffer, absBuffer, absRepo]
        · simp [hu, hid, abs_putBuffer, absBuffer, absRepo]
  | wWrite r id data =>
    simp only [step, Mem.step, findSession_abs]
    cases Mem.getBuffer s r id with
    | none => rfl
    | some p =>
      obtain ⟨rp, b⟩ := p
      simp only [Option.map_some, absBuffer]
      split
      · rfl
      · simp [abs_putBuffer, absBuffer]
  | wSize r id =>
    simp only [step, Mem.step, findSession_abs]
    cases Mem.getBuffer s r id with
    | none => rfl
    | some p => rfl
  | wCancel r id =>
    simp only [step, Mem.step, findSession_abs]
    cases Mem.getBuffer s r id with
    | none => rfl
    | some p =>
      obtain ⟨rp, b⟩ := p
      simp [abs_putBuffer, absBuffer]
  | wCommit r id dig =>
    simp only [step, Mem.step, findSession_abs]
    cases hgb : Mem.getBuffer s r id with
    | none => rfl
    | some p =>
      obtain ⟨rp, b⟩ := p
      have hu : alookup id rp.uploads = some b := (Mem.getBuffer_spec hgb).2
      simp only [Option.map_some, absBuffer]
      cases hce : b.commitErr with
      | some e => rfl
      | none =>
        by_cases hd : H b.buf = dig
        · have hsame : (absFun absBuffer rp.uploads).set id
              (absBuffer { buf := b.buf, checkStart := b.checkStart, committed := true, commitErr := none })
              = absFun absBuffer rp.uploads := FMap.set_same (by simp [hu, absBuffer, hce])
          simp [hd, abs_putRepo, absRepo, absFun_ainsert, absBlob, hsame]
        · simp [hd, abs_putBuffer, absBuffer]
  | mount fromR toR d =>
    simp only [step, Mem.step, ensureRepo_abs]
    cases Mem.makeRepo s toR with
    | none => rfl
    | some p =>
      obtain ⟨s1, rp0⟩ := p
      simp only [Option.map_some, findBlob_abs]
      cases Mem.blobFor s1 fromR d with
      | error e => rfl
      | ok b =>
        simp only [abs_repos_get]
        cases Mem.getRepo s1 toR with
        | none => rfl
        | some rto => simp [abs_putRepo, absRepo, absFun_ainsert, absBlob_desc]
  | pushManifest r t data mt dec =>
    simp only [step, Mem.step, ensureRepo_abs]
    cases hm : Mem.makeRepo s r with
    | none => rfl
    | some p =>
      obtain ⟨s1, rp⟩ := p
      have hku := (Mem.ku_makeRepo hs hm).2
      have htg := tagged_abs hku (H data)
      simp only [absRepo] at htg
      simp only [Option.map_some, absRepo, absMap_get, abs_immutableTags, Option.map_id_fun, id, htg]
      by_cases ht : t ≠ [] ∧ (!Ref.isTag t) = true
      · rw [if_pos ht, if_pos ht]
      · rw [if_neg ht, if_neg ht]
        generalize (if t ≠ [] ∧ s1.immutableTags = true then alookup t rp.tags else none) = ex
        cases ex with
        | some cur =>
          by_cases h1 : cur.digest = H data <;> by_cases h2 : cur.mediaType = mt <;> simp [h1, h2]
        | none =>
          simp only []
          have hcr := fun rs => checkRefs_abs rp rs []
          simp only [absRepo] at hcr
          cases hb : alookup (H data) rp.manifests with
          | none =>
            simp only [Option.map_none, Bool.and_false, Bool.false_eq_true, if_false]
            pm_rest
          | some b =>
            simp only [Option.map_some, absManifest]
            by_cases hc : (s1.immutableTags && (b.mediaType != mt && Mem.taggedRefersTo rp (H data))) = true
            · simp only [hc, if_true]
            · simp only [hc, Bool.false_eq_true, if_false]
              pm_rest
  | deleteBlob r d =>
    simp only [step, Mem.step, Mem.blobFor, abs_repos_get]
    cases hg : Mem.getRepo s r with
    | none => rfl
    | some rp =>
      have hku := Mem.ku_getRepo hs hg
      simp only [Option.map_some, absRepo, absFun_apply]
      cases hb : alookup d rp.blobs with
      | none => rfl
      | some b =>
        have ht := tagged_abs hku d
        simp only [absRepo] at ht
        simp only [Option.map_some, Option.isNone_some, Bool.false_eq_true, if_false, abs_immutableTags, ht]
        split
        · rfl
        · simp [abs_putRepo, absRepo, absFun_aerase]
  | deleteManifest r d =>
    simp only [step, Mem.step, Mem.manifestFor, abs_repos_get]
    cases hg : Mem.getRepo s r with
    | none => rfl
    | some rp =>
      have hku := Mem.ku_getRepo hs hg
      simp only [Option.map_some, absRepo, absMap_get]
      cases hb : alookup d rp.manifests with
      | none => rfl
      | some b =>
        have ht := tagged_abs hku d
        simp only [absRepo] at ht
        simp only [Option.map_some, Option.isNone_some, Bool.false_eq_true, if_false, abs_immutableTags, ht]
        split
        · rfl
        · simp [abs_putRepo, absRepo, absMap_aerase]
  | deleteTag r t =>
    simp only [step, Mem.step, abs_repos_get]
    cases hg : Mem.getRepo s r with
    | none => rfl
    | some rp =>
      by_cases hn : (alookup t rp.tags).isNone <;> by_cases hi : s.immutableTags <;>
        simp [hn, hi, absRepo, abs_putRepo, absMap_aerase]
  | repositories start => rfl
  | tags r start =>
    simp only [step, Mem.step, abs_repos_get]
    cases Mem.getRepo s r <;> rfl
  | referrers r d =>
    simp only [step, Mem.step, abs_repos_get]
    cases hg : Mem.getRepo s r with
    | none => rfl
    | some rp =>
      have hku := Mem.ku_getRepo hs hg
      simp only [Option.map_some, absRepo, absMap_values absManifest hku.2.1]
      simp [List.filter_map, List.map_map, Function.comp_def, absManifest, Manifest.desc, Mem.descOf]

theorem step_out {s : Mem.State} (hs : KeysUnique s) (op : Mem.Op) :
    (step H (abs s) op).2 = (Mem.step H s op).2 := by rw [step_abs H hs op]

theorem step_state {s : Mem.State} (hs : KeysUnique s) (op : Mem.Op) :
    (step H (abs s) op).1 = abs (Mem.step H s op).1 := by rw [step_abs H hs op]

/-! ### The refinement, whole histories -/

theorem run_abs {s : Mem.State} (hs : KeysUnique s) (ops : List Mem.Op) :
    run H (abs s) ops = (abs (Mem.run H s ops).1, (Mem.run H s ops).2) := by
  induction ops generalizing s with
  | nil => rfl
  | cons op rest ih =>
    simp only [run, Mem.run, step_abs H hs op, ih (Mem.ku_step H s op hs)]

theorem run_init (imm : Bool) (ops : List Mem.Op) :
    run H (init imm) ops = (abs (Mem.run H (Mem.init imm) ops).1, (Mem.run H (Mem.init imm) ops).2) := by
  rw [← abs_init]; exact run_abs H (Mem.ku_init imm) ops

end Step

/-! ### The spec's own invariant: every enumerated domain is the support of its map -/

/-- Every enumerated map of the state (repositories; per repository manifests and tags) has as
domain exactly the keys it binds, each once. -/
def State.WF (s : State) : Prop :=
  s.repos.WF ∧ ∀ r rp, s.repos.get r = some rp → rp.manifests.WF ∧ rp.tags.WF

theorem abs_wf {s : Mem.State} (hs : KeysUnique s) : (abs s).WF := by
  refine ⟨absMap_wf absRepo hs.1, fun r rp h => ?_⟩
  rw [abs_repos_get] at h
  cases hg : Mem.getRepo s r with
  | none => rw [hg] at h; cases h
  | some rp0 =>
    rw [hg] at h
    cases h
    have hku := Mem.ku_getRepo hs hg
    exact ⟨absMap_wf absManifest hku.2.1, absMap_wf id hku.1⟩

theorem run_wf (H : Bytes → Bytes) (imm : Bool) (ops : List Mem.Op) : (run H (init imm) ops).1.WF := by
  rw [run_init]; exact abs_wf (Mem.ku_run H _ ops (Mem.ku_init imm))

end OciModel.MemSpec
