/-
Lemmas about the JSON compaction model (`ErrCodec.compactAux`): compacting twice is compacting once.
-/
import OciModel.ErrCodecInst

namespace OciModel.ErrCodec

theorem hex_lt : hexDigit ((60 : UInt8) >>> 4) = 51 ∧ hexDigit ((60 : UInt8) &&& 15) = 99 := by decide
theorem hex_gt : hexDigit ((62 : UInt8) >>> 4) = 51 ∧ hexDigit ((62 : UInt8) &&& 15) = 101 := by decide
theorem hex_amp : hexDigit ((38 : UInt8) >>> 4) = 50 ∧ hexDigit ((38 : UInt8) &&& 15) = 54 := by decide
theorem hex_ls : hexDigit ((0xA8 : UInt8) &&& 15) = 56 ∧ hexDigit ((0xA9 : UInt8) &&& 15) = 57 := by decide

/-- What the string-mode step can put first is the byte itself or a backslash. -/
theorem lsAhead_cons_ne (c : UInt8) (r : Bytes) (h : c ≠ 0x80) : lsAhead (c :: r) = none := by
  cases r with
  | nil => rfl
  | cons d r => simp [lsAhead, h]

theorem lsAhead_80_cons_ne (c : UInt8) (r : Bytes) (h : c ≠ 0xA8 ∧ c ≠ 0xA9) : lsAhead (0x80 :: c :: r) = none := by
  simp [lsAhead, h]

theorem lsAhead_80_nil : lsAhead [0x80] = none := rfl

/-- The first byte the string-mode step writes is the byte it read or a backslash. -/
theorem compact_str_head (c : UInt8) (r : Bytes) :
    ∃ d t, compactAux .str 0 (c :: r) = d :: t ∧ (d = c ∨ d = 92) := by
  simp only [compactAux]
  split
  · exact ⟨_, _, rfl, Or.inr rfl⟩
  · split
    · split
      · exact ⟨_, _, rfl, Or.inr rfl⟩
      · exact ⟨_, _, rfl, Or.inl rfl⟩
    · split
      · exact ⟨_, _, rfl, Or.inl rfl⟩
      · split <;> exact ⟨_, _, rfl, Or.inl rfl⟩

theorem lsAhead_compact_str (rest : Bytes) (h : lsAhead rest = none) :
    lsAhead (compactAux .str 0 rest) = none := by
  cases rest with
  | nil => simp [compactAux, lsAhead]
  | cons c1 r =>
    by_cases h1 : c1 = 0x80
    · subst h1
      have e : compactAux .str 0 ((0x80 : UInt8) :: r) = 0x80 :: compactAux .str 0 r := by
        simp [compactAux]
      rw [e]
      cases r with
      | nil => simp [compactAux, lsAhead]
      | cons c2 r2 =>
        have hc2 : c2 ≠ 0xA8 ∧ c2 ≠ 0xA9 := by
          constructor <;> intro hh <;> subst hh <;> simp [lsAhead] at h
        obtain ⟨d, t, hd, hor⟩ := compact_str_head c2 r2
        rw [hd]
        apply lsAhead_80_cons_ne
        rcases hor with hh | hh <;> subst hh
        · exact hc2
        · decide
    · obtain ⟨d, t, hd, hor⟩ := compact_str_head c1 r
      rw [hd]
      apply lsAhead_cons_ne
      rcases hor with hh | hh <;> subst hh
      · exact h1
      · decide

theorem compactAux_idem (m : CMode) (k : Nat) (b : Bytes) :
    compactAux m 0 (compactAux m k b) = compactAux m k b := by
  induction b generalizing m k with
  | nil => simp [compactAux]
  | cons c rest ih =>
    cases k with
    | succ k => simpa [compactAux] using ih m k
    | zero =>
      cases m with
      | bad => simp [compactAux, ih]
      | esc => simp [compactAux, ih]
      | out =>
        simp only [compactAux]
        split
        · rename_i h; simp [compactAux, h, ih]
        · rename_i h1
          split
          · exact ih _ _
          · rename_i h2
            split
            · rename_i h3; subst h3; simp [compactAux, ih]
            · rename_i h3; simp [compactAux, h1, h2, h3, ih]
      | str =>
        simp only [compactAux]
        split
        · rename_i h
          rcases h with h | h | h <;> subst h <;> simp [compactAux, hex_lt, hex_gt, hex_amp, ih]
        · rename_i h1
          split
          · rename_i h2
            subst h2
            split
            · rename_i c2 hc2
              have : c2 = 0xA8 ∨ c2 = 0xA9 := by
                unfold lsAhead at hc2
                split at hc2
                · split at hc2
                  · rename_i hh; simp at hc2; subst hc2; exact hh.2
                  · simp at hc2
                · simp at hc2
              rcases this with h | h <;> subst h <;> simp [compactAux, hex_ls, ih]
            · rename_i hn
              have := lsAhead_compact_str rest hn
              simp [compactAux, this, ih]
          · rename_i h2
            split
            · rename_i h3; subst h3; simp [compactAux, ih]
            · rename_i h3
              split
              · rename_i h4; subst h4; simp [compactAux, ih]
              · rename_i h4; simp [compactAux, h1, h2, h3, h4, ih]

end OciModel.ErrCodec
