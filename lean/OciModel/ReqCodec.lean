/-
Model of `internal/ocirequest`: `parse` (request.go) classifies an HTTP method,
URL path and query into a `Request`; `construct` (create.go) renders a `Request`
as method, path and query. The URL layer (`net/url`: escaping of the path and of
query values, `url.ParseQuery`) is a parameter: the model works on the decoded
path and on a query lookup function, which is what the Go code sees.

`ParseRange`/`RangeString` (Content-Range / Range codec) are modelled on
integers.
-/
import OciModel.Base
import OciModel.Ref

namespace OciModel.ReqCodec
open OciModel.Ref

inductive Kind where
  | ping | blobGet | blobHead | blobDelete | blobStartUpload | blobUploadBlob | blobMount
  | blobUploadInfo | blobUploadChunk | blobCompleteUpload
  | manifestGet | manifestHead | manifestPut | manifestDelete
  | tagsList | referrersList | catalogList
  deriving DecidableEq, Repr

structure Request where
  kind     : Kind
  repo     : Bytes := []
  digest   : Bytes := []
  tag      : Bytes := []
  fromRepo : Bytes := []
  uploadID : Bytes := []
  listN    : Int := 0
  listLast : Bytes := []
  deriving DecidableEq, Repr

inductive PErr where
  | unknownPath        -- NAME_UNKNOWN "unknown URL path"
  | methodNotAllowed
  | nameInvalid
  | digestInvalid      -- ErrDigestInvalid (mount)
  | notFound
  | badlyFormedDigest
  | badRequest         -- n is not an integer
  | badUploadID
  | badQuery           -- url.ParseQuery failed
  deriving DecidableEq, Repr

def mGET : Bytes := strBytes "GET"
def mHEAD : Bytes := strBytes "HEAD"
def mPUT : Bytes := strBytes "PUT"
def mPOST : Bytes := strBytes "POST"
def mPATCH : Bytes := strBytes "PATCH"
def mDELETE : Bytes := strBytes "DELETE"

def sV2 : Bytes := strBytes "/v2"
def sV2Slash : Bytes := strBytes "/v2/"
def sCatalog : Bytes := strBytes "_catalog"
def sUploadsSlash : Bytes := strBytes "/blobs/uploads/"
def sUploadsNoSlash : Bytes := strBytes "/blobs/uploads"
def sBlobsSuffix : Bytes := strBytes "/blobs"
def wBlobs : Bytes := strBytes "blobs"
def wUploads : Bytes := strBytes "uploads"
def wManifests : Bytes := strBytes "manifests"
def wTags : Bytes := strBytes "tags"
def wReferrers : Bytes := strBytes "referrers"
def wList : Bytes := strBytes "list"
def qMount : Bytes := strBytes "mount"
def qFrom : Bytes := strBytes "from"
def qDigest : Bytes := strBytes "digest"
def qN : Bytes := strBytes "n"
def qLast : Bytes := strBytes "last"

/-- `strings.CutPrefix` -/
def cutPrefix (p s : Bytes) : Option Bytes := if p.isPrefixOf s then some (s.drop p.length) else none

/-- `strings.CutSuffix` -/
def cutSuffix (p s : Bytes) : Option Bytes :=
  if p.isSuffixOf s then some (s.take (s.length - p.length)) else none

/-- `cutLast(s, "/")`: split at the last slash. -/
def cutLastSlash (s : Bytes) : Option (Bytes × Bytes) :=
  let r := s.reverse
  let after := (r.takeWhile (· != cSlash)).reverse
  match r.dropWhile (· != cSlash) with
  | [] => none
  | _ :: before => some (before.reverse, after)

/-- `strconv.Atoi` (base 10, optional sign, int64 range). -/
def atoi (s : Bytes) : Option Int :=
  let (neg, ds) := match s with
    | 43 :: rest => (false, rest)
    | 45 :: rest => (true, rest)
    | _ => (false, s)
  if ds = [] ∨ !ds.all isDigit then none
  else
    let n : Nat := ds.foldl (fun acc c => acc * 10 + (c.toNat - 48)) 0
    let v : Int := if neg then -(n : Int) else n
    if v < -9223372036854775808 ∨ v > 9223372036854775807 then none else some v

section
-- Parameters: base64url (raw) codec of upload IDs and UTF-8 validity.
variable (b64 : Bytes → Bytes) (unb64 : Bytes → Option Bytes) (validUTF8 : Bytes → Bool)

/-- `setListQueryParams` -/
def listParams (q : Bytes → Bytes) (r : Request) : Except PErr Request :=
  let nstr := q qN
  if nstr ≠ [] then
    match atoi nstr with
    | none => .error .badRequest
    | some n => .ok { r with listN := n, listLast := q qLast }
  else .ok { r with listN := -1, listLast := q qLast }

def methodKind (method : Bytes) (table : List (Bytes × Kind)) : Except PErr Kind :=
  match table.find? (·.1 == method) with
  | some (_, k) => .ok k
  | none => .error .methodNotAllowed

/-- `parse(method, u)` after `url.ParseQuery` succeeded; `q k` is `urlq.Get(k)`. -/
def parse (method path : Bytes) (q : Bytes → Bytes) : Except PErr Request :=
  if path = sV2 ∨ path = sV2Slash then .ok { kind := .ping }
  else match cutPrefix sV2Slash path with
  | none => .error .unknownPath
  | some path =>
    if path = sCatalog then
      if method ≠ mGET then .error .methodNotAllowed
      else
        -- the error of setListQueryParams is ignored here: a bad `n` leaves ListN = -1 and ListLast unset
        match listParams q { kind := .catalogList } with
        | .ok r => .ok r
        | .error _ => .ok { kind := .catalogList, listN := -1 }
    else
      let up := match cutSuffix sUploadsSlash path with
        | some p => some p
        | none => cutSuffix sUploadsNoSlash path
      match up with
      | some repo =>
        if !isRepo repo then .error .nameInvalid
        else if method ≠ mPOST then .error .methodNotAllowed
        else if q qMount ≠ [] then
          if !isDigest (q qMount) then .error .digestInvalid
          else if q qFrom = [] then .ok { kind := .blobStartUpload, repo := repo }
          else if !isRepo (q qFrom) then .error .nameInvalid
          else .ok { kind := .blobMount, repo := repo, digest := q qMount, fromRepo := q qFrom }
        else if q qDigest ≠ [] then
          if !isDigest (q qDigest) then .error .badlyFormedDigest
          else .ok { kind := .blobUploadBlob, repo := repo, digest := q qDigest }
        else .ok { kind := .blobStartUpload, repo := repo }
      | none =>
        match cutLastSlash path with
        | none => .error .notFound
        | some (path, last) =>
          match cutLastSlash path with
          | none => .error .notFound
          | some (path, lastButOne) =>
            if lastButOne = wBlobs then
              if !isDigest last then .error .badlyFormedDigest
              else if !isRepo path then .error .nameInvalid
              else (methodKind method [(mGET, .blobGet), (mHEAD, .blobHead), (mDELETE, .blobDelete)]).map
                fun k => { kind := k, repo := path, digest := last }
            else if lastButOne = wUploads then
              match cutSuffix sBlobsSuffix path with
              | none => .error .notFound
              | some repo =>
                if !isRepo repo then .error .nameInvalid
                else if last = [] then .error .notFound
                else match unb64 last with
                  | none => .error .badUploadID
                  | some id =>
                    if !validUTF8 id then .error .badUploadID
                    else if method = mGET then .ok { kind := .blobUploadInfo, repo := repo, uploadID := id }
                    else if method = mPATCH then .ok { kind := .blobUploadChunk, repo := repo, uploadID := id }
                    else if method = mPUT then
                      if !isDigest (q qDigest) then .error .badlyFormedDigest
                      else .ok { kind := .blobCompleteUpload, repo := repo, uploadID := id, digest := q qDigest }
                    else .error .methodNotAllowed
            else if lastButOne = wManifests then
              if !isRepo path then .error .nameInvalid
              else
                let r0 : Option Request :=
                  if isDigest last then some { kind := .ping, repo := path, digest := last }
                  else if isTag last then some { kind := .ping, repo := path, tag := last }
                  else none
                match r0 with
                | none => .error .notFound
                | some r =>
                  (methodKind method [(mGET, .manifestGet), (mHEAD, .manifestHead), (mPUT, .manifestPut), (mDELETE, .manifestDelete)]).map
                    fun k => { r with kind := k }
            else if lastButOne = wTags then
              if last ≠ wList then .error .notFound
              else match listParams q { kind := .tagsList } with
                | .error e => .error e
                | .ok r =>
                  if method ≠ mGET then .error .methodNotAllowed
                  else if !isRepo path then .error .nameInvalid
                  else .ok { r with repo := path }
            else if lastButOne = wReferrers then
              if !isDigest last then .error .badlyFormedDigest
              else if method ≠ mGET then .error .methodNotAllowed
              else if !isRepo path then .error .nameInvalid
              else .ok { kind := .referrersList, repo := path, digest := last, listN := -1 }
            else .error .notFound

def tagOrDigest (r : Request) : Bytes := if r.tag ≠ [] then r.tag else r.digest

def uploadPath (r : Request) : Bytes := sV2Slash ++ r.repo ++ sUploadsSlash ++ b64 r.uploadID

/-- decimal rendering of an integer, as bytes -/
def itoa (n : Int) : Bytes := strBytes (toString n)

/-- `listParams()`: the query of a list request. -/
def listQuery (r : Request) : List (Bytes × Bytes) :=
  (if r.listN ≥ 0 then [(qN, itoa r.listN)] else []) ++ (if r.listLast ≠ [] then [(qLast, r.listLast)] else [])

/-- `construct()`: method, decoded path, query parameters. -/
def construct (r : Request) : Bytes × Bytes × List (Bytes × Bytes) :=
  match r.kind with
  | .ping => (mGET, sV2Slash, [])
  | .blobGet => (mGET, sV2Slash ++ r.repo ++ strBytes "/blobs/" ++ r.digest, [])
  | .blobHead => (mHEAD, sV2Slash ++ r.repo ++ strBytes "/blobs/" ++ r.digest, [])
  | .blobDelete => (mDELETE, sV2Slash ++ r.repo ++ strBytes "/blobs/" ++ r.digest, [])
  | .blobStartUpload => (mPOST, sV2Slash ++ r.repo ++ sUploadsSlash, [])
  | .blobUploadBlob => (mPOST, sV2Slash ++ r.repo ++ sUploadsSlash, [(qDigest, r.digest)])
  | .blobMount => (mPOST, sV2Slash ++ r.repo ++ sUploadsSlash, [(qMount, r.digest), (qFrom, r.fromRepo)])
  | .blobUploadInfo => (mGET, uploadPath b64 r, [])
  | .blobUploadChunk => (mPATCH, uploadPath b64 r, [])
  | .blobCompleteUpload => (mPUT, uploadPath b64 r, [(qDigest, r.digest)])
  | .manifestGet => (mGET, sV2Slash ++ r.repo ++ strBytes "/manifests/" ++ tagOrDigest r, [])
  | .manifestHead => (mHEAD, sV2Slash ++ r.repo ++ strBytes "/manifests/" ++ tagOrDigest r, [])
  | .manifestPut => (mPUT, sV2Slash ++ r.repo ++ strBytes "/manifests/" ++ tagOrDigest r, [])
  | .manifestDelete => (mDELETE, sV2Slash ++ r.repo ++ strBytes "/manifests/" ++ tagOrDigest r, [])
  | .tagsList => (mGET, sV2Slash ++ r.repo ++ strBytes "/tags/list", listQuery r)
  | .referrersList => (mGET, sV2Slash ++ r.repo ++ strBytes "/referrers/" ++ r.digest, [])
  | .catalogList => (mGET, strBytes "/v2/_catalog", listQuery r)

/-- `urlq.Get` over a parameter list (first value wins; absent = empty). -/
def qget (ps : List (Bytes × Bytes)) (k : Bytes) : Bytes :=
  match ps.find? (·.1 == k) with
  | some (_, v) => v
  | none => []

/-- What the client may hand to `construct`: the well-formedness the property
quantifies over ("well-formed names"). -/
def ValidReq (r : Request) : Prop :=
  match r.kind with
  | .ping => r = { kind := .ping }
  | .blobGet | .blobHead | .blobDelete =>
    isRepo r.repo = true ∧ isDigest r.digest = true ∧ r = { kind := r.kind, repo := r.repo, digest := r.digest }
  | .blobStartUpload => isRepo r.repo = true ∧ r = { kind := .blobStartUpload, repo := r.repo }
  | .blobUploadBlob => isRepo r.repo = true ∧ isDigest r.digest = true ∧ r = { kind := .blobUploadBlob, repo := r.repo, digest := r.digest }
  | .blobMount => isRepo r.repo = true ∧ isDigest r.digest = true ∧ isRepo r.fromRepo = true ∧
      r = { kind := .blobMount, repo := r.repo, digest := r.digest, fromRepo := r.fromRepo }
  | .blobUploadInfo | .blobUploadChunk =>
    isRepo r.repo = true ∧ r.uploadID ≠ [] ∧ validUTF8 r.uploadID = true ∧
      r = { kind := r.kind, repo := r.repo, uploadID := r.uploadID }
  | .blobCompleteUpload =>
    isRepo r.repo = true ∧ r.uploadID ≠ [] ∧ validUTF8 r.uploadID = true ∧ isDigest r.digest = true ∧
      r = { kind := .blobCompleteUpload, repo := r.repo, uploadID := r.uploadID, digest := r.digest }
  | .manifestGet | .manifestHead | .manifestPut | .manifestDelete =>
    isRepo r.repo = true ∧
      ((isDigest r.digest = true ∧ r = { kind := r.kind, repo := r.repo, digest := r.digest }) ∨
       (isTag r.tag = true ∧ r = { kind := r.kind, repo := r.repo, tag := r.tag }))
  | .tagsList => isRepo r.repo = true ∧ r.listN ≥ -1 ∧ r = { kind := .tagsList, repo := r.repo, listN := r.listN, listLast := r.listLast }
  | .referrersList => isRepo r.repo = true ∧ isDigest r.digest = true ∧
      r = { kind := .referrersList, repo := r.repo, digest := r.digest, listN := -1 }
  | .catalogList => r.listN ≥ -1 ∧ r = { kind := .catalogList, listN := r.listN, listLast := r.listLast }

end

/-! ### Content-Range / Range codec -/

/-- `RangeString(start, end)`: the two numbers printed as `start-end'`. -/
def rangeString (s e : Int) : Int × Int := (s, if e - 1 < 0 then 0 else e - 1)

/-- `ParseRange` on the two numbers of a well-formed `a-b` header: `b` is made
exclusive, except that `0-0` is the empty range (what an upload that has received
nothing reports). -/
def parseRange (a b : Int) : Int × Int := (a, if b > 0 ∨ a > 0 then b + 1 else b)

/-- `chunkRange`: start and end (exclusive) for the backend from the parsed
Content-Range (if any) and Content-Length (`-1` unknown); `none` is the 400
"Content-Range implies a length of … but Content-Length is …". The header `0-0`
denotes both the empty range and the first byte: Content-Length decides. -/
def chunkRange (hdr : Option (Int × Int)) (contentLength : Int) : Option (Int × Int) :=
  match hdr with
  | some (a, b) =>
    let (s, e) := parseRange a b
    let e := if contentLength = 1 ∧ s = 0 ∧ e = 0 then 1 else e
    if contentLength ≥ 0 ∧ e - s ≠ contentLength then none else some (s, e)
  | none => some (0, if contentLength ≥ 0 then contentLength else 0)

end OciModel.ReqCodec
