/-
Helper lemmas for the pager model (`OciModel/Pager.lean`): unfolding equations,
closed forms for `deliver`, the order facts about `after`, and the key
"continue after the final item of a full page = drop the page" lemma.
Used by `Props/C18.lean` and `Props/C05.lean`.
-/
import OciModel.Pager

namespace OciModel.Pager

/-! ### Order on byte strings -/

abbrev BLt (a b : Bytes) : Prop := compare a b = .lt

theorem blt_trans {a b c : Bytes} (h1 : BLt a b) (h2 : BLt b c) : BLt a c :=
  Std.TransCmp.lt_trans h1 h2

theorem blt_irrefl (a : Bytes) : ¬ BLt a a := by
  unfold BLt; rw [Std.ReflOrd.compare_self]; decide

theorem blt_asymm {a b : Bytes} (h : BLt a b) : ¬ BLt b a := by
  intro h'; exact blt_irrefl a (blt_trans h h')

/-- `StrictAsc` (adjacent pairs ascending) is the same as all pairs ascending. -/
theorem strictAsc_iff_pairwise (l : List Bytes) : StrictAsc l ↔ l.Pairwise BLt := by
  induction l with
  | nil => simp [StrictAsc]
  | cons a t ih =>
    cases t with
    | nil => simp [StrictAsc]
    | cons b r =>
      unfold StrictAsc
      rw [ih, List.pairwise_cons (a := a)]
      constructor
      · rintro ⟨hab, hp⟩
        refine ⟨?_, hp⟩
        intro c hc
        rcases List.mem_cons.mp hc with rfl | hc
        · exact hab
        · exact blt_trans hab ((List.pairwise_cons.mp hp).1 c hc)
      · rintro ⟨h, hp⟩
        exact ⟨h b List.mem_cons_self, hp⟩

instance decStrictAsc : (l : List Bytes) → Decidable (StrictAsc l)
  | [] => isTrue trivial
  | [_] => isTrue trivial
  | a :: b :: rest =>
    have := decStrictAsc (b :: rest)
    inferInstanceAs (Decidable (compare a b = .lt ∧ StrictAsc (b :: rest)))

/-! ### `deliver` in closed form -/

theorem deliver_none (items : List Bytes) : deliver items none = (items, none, false) := by
  induction items with
  | nil => rfl
  | cons x xs ih => simp [deliver, ih]

theorem deliver_zero (items : List Bytes) :
    deliver items (some 0) = ([], some 0, !items.isEmpty) := by
  cases items <;> rfl

theorem deliver_succ (items : List Bytes) (j : Nat) :
    deliver items (some (j + 1)) =
      (items.take (j + 1), some (j + 1 - items.length), decide (j + 1 ≤ items.length)) := by
  induction items generalizing j with
  | nil => simp [deliver]
  | cons x xs ih =>
    cases j with
    | zero => simp [deliver]
    | succ j =>
      simp only [deliver, ih]
      simp

/-! ### `pagerScript` unfolding -/

theorem pagerScript_nil (n : Int) (k : Option Nat) : pagerScript n [] k = ⟨[], 0, .exhausted⟩ := rfl

theorem pagerScript_fail (n : Int) (rest : List Answer) (k : Option Nat) :
    pagerScript n (.fail :: rest) k = ⟨[], 1, .error⟩ := rfl

theorem pagerScript_page (n : Int) (items : List Bytes) (link : Option Bool)
    (rest : List Answer) (k : Option Nat) :
    pagerScript n (.page items link :: rest) k =
      if (deliver items k).2.2 then ⟨(deliver items k).1, 1, .stopped⟩
      else if (items.length : Int) < n then ⟨(deliver items k).1, 1, .done⟩
      else if items = [] then ⟨(deliver items k).1, 1, .panic⟩
      else if link = some false then ⟨(deliver items k).1, 1, .error⟩
      else
        ⟨(deliver items k).1 ++ (pagerScript n rest (deliver items k).2.1).yielded,
         (pagerScript n rest (deliver items k).2.1).requests + 1,
         (pagerScript n rest (deliver items k).2.1).fin⟩ := rfl

theorem pagerOver_zero (L : List Bytes) (n : Nat) (last : Option Bytes) :
    pagerOver L n 0 last = [] := rfl

theorem pagerOver_succ (L : List Bytes) (n fuel : Nat) (last : Option Bytes) :
    pagerOver L n (fuel + 1) last =
      if ((after L last).take n).length < n then (after L last).take n
      else match ((after L last).take n).getLast? with
        | none => (after L last).take n
        | some l => (after L last).take n ++ pagerOver L n fuel (some l) := rfl

/-! ### `after` -/

theorem mem_after_some {L : List Bytes} {s x : Bytes} :
    x ∈ after L (some s) ↔ x ∈ L ∧ compare s x = .lt := by
  simp [after, List.mem_filter]

theorem after_sublist (L : List Bytes) (s : Option Bytes) : (after L s).Sublist L := by
  cases s with
  | none => exact List.Sublist.refl _
  | some s => exact List.filter_sublist

theorem after_pairwise {L : List Bytes} (h : L.Pairwise BLt) (s : Option Bytes) :
    (after L s).Pairwise BLt :=
  h.sublist (after_sublist L s)

/-- In a strictly ascending list, the items strictly after an element `x` are exactly
the items that follow `x` in the list. -/
theorem filter_gt_split {pre post : List Bytes} {x : Bytes}
    (h : (pre ++ x :: post).Pairwise BLt) :
    (pre ++ x :: post).filter (fun y => compare x y == .lt) = post := by
  rw [List.pairwise_append] at h
  obtain ⟨_, hxp, hpre⟩ := h
  rw [List.pairwise_cons] at hxp
  rw [List.filter_append, List.filter_cons]
  have h1 : pre.filter (fun y => compare x y == .lt) = [] := by
    rw [List.filter_eq_nil_iff]
    intro a ha hlt
    have hax : BLt a x := hpre a ha x List.mem_cons_self
    exact blt_asymm hax (by simpa using hlt)
  have h2 : (compare x x == Ordering.lt) = false := by
    rw [Std.ReflOrd.compare_self]; rfl
  have h3 : post.filter (fun y => compare x y == .lt) = post := by
    rw [List.filter_eq_self]
    intro a ha
    simpa using hxp.1 a ha
  rw [h1, h2, h3]; simp

/-- Restricting first to "after `s`" and then to "after `x`" is the same as "after `x`"
when `x` itself is after `s`. -/
theorem after_after {L : List Bytes} {s : Option Bytes} {x : Bytes}
    (hx : x ∈ after L s) :
    after L (some x) = (after L s).filter (fun y => compare x y == .lt) := by
  cases s with
  | none => rfl
  | some s =>
    have hsx : BLt s x := (mem_after_some.mp hx).2
    simp only [after, List.filter_filter]
    apply List.filter_congr
    intro y _
    cases hxy : (compare x y == Ordering.lt) with
    | false => simp
    | true =>
      have : BLt x y := by simpa using hxy
      have : BLt s y := blt_trans hsx this
      simp [this]

/-- Key step of lossless paging: continuing after the final item of a full page of size `n`
yields exactly the rest of the listing. -/
theorem after_last_of_page {L : List Bytes} (hL : L.Pairwise BLt) (s : Option Bytes)
    {n : Nat} {x : Bytes} (hlast : ((after L s).take n).getLast? = some x) :
    after L (some x) = (after L s).drop n := by
  have hmem : x ∈ (after L s).take n := List.mem_of_getLast? hlast
  have hx : x ∈ after L s := List.mem_of_mem_take hmem
  rw [after_after hx]
  obtain ⟨ys, hsplit⟩ := List.getLast?_eq_some_iff.mp hlast
  have hl : after L s = ys ++ x :: (after L s).drop n := by
    conv => lhs; rw [← List.take_append_drop n (after L s), hsplit]
    simp
  have hp := after_pairwise hL s
  rw [hl] at hp
  have := filter_gt_split hp
  rw [← hl] at this
  exact this

end OciModel.Pager
