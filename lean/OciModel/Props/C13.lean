/-
C13 — A sub-registry view is confined to its prefix and equals the restricted registry.

The model of `*subRegistry` is the table regenerated from `ocifilter/sub.go`
(`OciModel.Generated.Sub.table`) together with the regenerated shapes of `repo`
(the name map), `mapScopes` and the constructor; semantics in `OciModel/Sub.lean`.
The general theorems are about the name map `mapName p n = p ++ "/" ++ n`, for
every prefix `p` and every byte string `n`; the `generated_*` obligations check
that the current source uses exactly that map, for every repository argument of
every one of the 18 methods and for nothing else.
-/
import OciModel.SubLemmas
import OciModel.SubMemLemmas

namespace OciModel.Props.C13
open OciModel OciModel.Sub OciModel.Generated.Sub OciModel.Generated OciModel.Scope
open OciModel.Select (Call Env Ev feed)

variable {ε σ : Type}

/-! ### The name map -/

/-- Whatever the caller supplies — empty, dots, dot-dot segments, slashes — the
name handed to the wrapped registry is textually under `prefix/`. -/
theorem sub_confined (p n : Bytes) : (p ++ [47]) <+: mapName p n :=
  ⟨n, by simp [mapName]⟩

/-- Distinct view names are distinct repositories below (an operation on `n` acts
on `prefix/n` and on nothing else), and stripping undoes the map. -/
theorem sub_name_injective (p a b : Bytes) (h : mapName p a = mapName p b) : a = b :=
  mapName_injective p a b h

theorem sub_strip_map (p n : Bytes) : stripName p (mapName p n) = some n := stripName_mapName p n

/-- A backend name shows in the view iff it is `prefix/x`; a sibling sharing only
a textual prefix (`fooey` for `foo`) does not. -/
theorem sub_strip_iff (p x n : Bytes) : stripName p x = some n ↔ x = mapName p n :=
  stripName_eq_some p x n

/-- A view of a view is the view of the joined prefix: `Sub(Sub(r, a), b)` hands the wrapped
registry the name `Sub(r, a/b)` would, and shows the same backend names under the same view names. -/
theorem sub_sub_name (a b n : Bytes) : mapName a (mapName b n) = mapName (a ++ 47 :: b) n := by
  simp [mapName]

theorem sub_sub_strip (a b x : Bytes) :
    (stripName a x).bind (stripName b) = stripName (a ++ 47 :: b) x := by
  cases h : stripName (a ++ 47 :: b) x with
  | some n =>
    have hx : x = mapName (a ++ 47 :: b) n := (stripName_eq_some _ x n).1 h
    rw [hx, ← sub_sub_name, stripName_mapName]
    simp [stripName_mapName]
  | none =>
    cases h1 : stripName a x with
    | none => rfl
    | some y =>
      cases h2 : stripName b y with
      | none => simp [h2]
      | some n =>
        have hy : y = mapName b n := (stripName_eq_some _ y n).1 h2
        have hx : x = mapName a y := (stripName_eq_some _ x y).1 h1
        rw [hx, hy, sub_sub_name, stripName_mapName] at h
        cases h

/-- Prefixing preserves the order of names (Go's `strings.Compare`). -/
theorem sub_order (p a b : Bytes) : compare (mapName p a) (mapName p b) = compare a b :=
  compare_mapName p a b

/-! ### Every method -/

/-- For a well-formed row of well-formed code, the wrapper makes exactly one call
on the wrapped registry: the same method, every repository argument (and the
start point of a repository listing) mapped to `prefix/arg`, every other argument
unchanged, with the context's scopes mapped. -/
theorem sub_name_map (hcode : CodeOk = true) (r : Row) (h : RowOk r = true)
    (ips : List String) (hips : ifaceParamNames r.method = some ips)
    (p : Bytes) (env : Env) (sc : Scope) :
    call p env sc r = .ok ⟨r.method, specArgs p env r.method ips r.params⟩ (Sub.mapScopes p sc) := by
  simp only [CodeOk, Bool.and_eq_true, beq_iff_eq] at hcode
  obtain ⟨⟨⟨hmap, hguard⟩, hbody⟩, _⟩ := hcode
  simp only [RowOk, hips, Bool.and_eq_true, beq_iff_eq] at h
  obtain ⟨⟨⟨⟨⟨⟨hk, hms⟩, hcal⟩, hnames⟩, hknown⟩, ⟨_, hmapped⟩⟩, _⟩ := h
  have hf : (fun n => (mapNameBy repoMap p n).getD []) = mapName p := by
    funext n; simp [mapNameBy, hmap]
  simp only [call, hk, hknown, hbody, hms, hmap, hcal]
  simp only [mapNameBy, hmap] at hf ⊢
  simp only [beq_self_eq_true, if_true, Bool.not_true, Bool.or_self, Bool.false_eq_true, if_false,
    Option.getD_some, mapScopesBy_fixed _ hguard]
  rw [args_eq p env r.method r.callArgs ips r.params hnames hmapped]

/-- Hence every repository argument that reaches the wrapped registry is under
the prefix: mapped positions of `specArgs` are `mapName`s. -/
theorem sub_calls_confined (p : Bytes) (env : Env) (m : String) (ips ps : List String)
    (i : Nat) (hi : i < (specArgs p env m ips ps).length)
    (hrepo : ∃ h : i < ips.length, specMapped m ips[i] = true) :
    (p ++ [47]) <+: (specArgs p env m ips ps)[i] := by
  obtain ⟨hi', hm⟩ := hrepo
  simp only [specArgs, List.length_map, List.length_zip] at hi
  have hps : i < ps.length := by omega
  simp only [specArgs, List.getElem_map, List.getElem_zip, hm, if_true]
  exact sub_confined p _

/-! ### Listings -/

/-- Over a wrapped registry whose listing meets the contract (ascending, strictly
after the given start point, complete), the view's listing from any start point
contains exactly the stripped names of the repositories under `prefix/` that are
strictly after `start`, … -/
theorem sub_listing_mem (p : Bytes) (L : Bytes → List Bytes) (repos : List Bytes) (hL : ListsSpec L repos)
    (start x : Bytes) :
    x ∈ viewList p L start ↔ mapName p x ∈ repos ∧ compare start x = .lt :=
  mem_viewList p L repos hL start x

/-- … in strictly ascending order (so the list is determined by its members). -/
theorem sub_listing_sorted (p : Bytes) (L : Bytes → List Bytes) (repos : List Bytes) (hL : ListsSpec L repos)
    (start : Bytes) : (viewList p L start).Pairwise fun a b => compare a b = .lt :=
  viewList_sorted p L repos hL start

/-- The view's own listing meets the same contract over the restricted, stripped
repository set: the view is itself a lawful registry listing. -/
theorem sub_listing (p : Bytes) (L : Bytes → List Bytes) (repos : List Bytes) (hL : ListsSpec L repos) :
    ListsSpec (viewList p L) (repos.filterMap (stripName p)) where
  sorted := viewList_sorted p L repos hL
  mem := fun s x => by
    rw [mem_viewList p L repos hL, List.mem_filterMap]
    constructor
    · rintro ⟨hr, hc⟩; exact ⟨⟨_, hr, stripName_mapName p x⟩, hc⟩
    · rintro ⟨⟨y, hy, hs⟩, hc⟩
      rw [(stripName_eq_some p y x).mp hs] at hy; exact ⟨hy, hc⟩

/-- Event level: consuming the view's iterator is consuming the stripped names
under the prefix, up to and including the first backend error; it stops when the
consumer declines. -/
theorem sub_listing_events (p : Bytes) (cb : σ → Ev ε → σ × Bool) (evs : List (Ev ε)) (s : σ) :
    (feed (stripCb p cb) evs s).1 = (feed cb (Sub.visible p evs) s).1 := feed_stripCb p cb evs s

theorem sub_visible_names (p : Bytes) (names : List Bytes) :
    Sub.visible (ε := ε) p (names.map .item) = (names.filterMap (stripName p)).map .item :=
  Sub.visible_no_error p names

/-! ### Scopes -/

/-- Repository-typed scopes in the context are rewritten with the same name map,
all other scopes are untouched: the mapped scope stands for exactly the images of
the original scope's members. -/
theorem sub_scopes (p : Bytes) (s : Scope) (hl : s.unlimited = false) (r : RS) :
    Mem r (Sub.mapScopes p s) ↔ ∃ r0, Mem r0 s ∧ r = mapRS (mapName p) r0 :=
  mem_mapScopes p s hl r

theorem sub_scopes_repository (p n a : Bytes) :
    mapRS (mapName p) (tyRepository, n, a) = (tyRepository, mapName p n, a) := by simp [mapRS]

theorem sub_scopes_other (p : Bytes) (r : RS) (h : r.1 ≠ tyRepository) : mapRS (mapName p) r = r := by
  simp [mapRS, h]

/-- The unlimited scope and the empty scope pass through unchanged (no panic). -/
theorem sub_scopes_unlimited (p : Bytes) (s : Scope) (h : s.unlimited = true) : Sub.mapScopes p s = s :=
  mapScopes_unlimited p s h

theorem sub_scopes_empty (p : Bytes) (s : Scope) (h : Scope.isEmpty s = true) : Sub.mapScopes p s = s :=
  mapScopes_empty p s h

theorem sub_scopes_wf (p : Bytes) (s : Scope) (h : WF s) : WF (Sub.mapScopes p s) := mapScopes_wf p s h

/-! ### The view equals the restricted registry (over the `ocimem` model)

`OciModel/SubMem.lean`: `restrict p s` keeps the repositories of `s` named `p/n`, under the
name `n`, with all they hold (upload sessions too), and drops the rest; `mapOp p` is the
view's name mapping on each of the 22 operations of `Mem.Op` (what `C13_holds` says of the
regenerated table: every repository name, both names of a mount, the start point of a
repository listing); `mapOut p op` is the view's treatment of the answer (a repository
listing keeps the names under `p/`, stripped — `sub_listing_events`; everything else,
a TAG listing included, is handed back as it is).

`Ref.isRepo p` is needed only where a repository may be created (`creates`): `p/n` is a
valid name iff `p` and `n` both are (`sub_name_valid`), so a view under an invalid prefix
creates nothing while the restricted registry would (`sub_invalid_prefix_differs`). It
implies `p ≠ ""` (`Sub` treats the empty prefix as no view at all). -/

section Restriction
open OciModel.SubMem

variable (H : Bytes → Bytes)

/-- `p/n` is a valid repository name iff both parts are: `ocimem` puts no bound on the length. -/
theorem sub_name_valid (p n : Bytes) : Ref.isRepo (mapName p n) = (Ref.isRepo p && Ref.isRepo n) :=
  isRepo_mapName p n

/-- What the view answers is what the restricted registry answers, and the restricted state
evolves as the restricted registry would: every operation, every state, every hash. -/
theorem sub_equals_restriction {p : Bytes} (hp : Ref.isRepo p = true) (s : Mem.State) (op : Mem.Op) :
    (Mem.step H (restrict p s) op).2 = mapOut p op (Mem.step H s (mapOp p op)).2 ∧
    restrict p (Mem.step H s (mapOp p op)).1 = (Mem.step H (restrict p s) op).1 := by
  rw [step_restrict H s op (fun _ => hp)]
  exact ⟨rfl, rfl⟩

/-- For the 17 operations that cannot create a repository (all but `pushBlob`, `pushChunked`,
`resume`, `mount`, `pushManifest`) the prefix may be any byte string, the empty one included. -/
theorem sub_equals_restriction_no_create (p : Bytes) (s : Mem.State) (op : Mem.Op) (hop : creates op = false) :
    (Mem.step H (restrict p s) op).2 = mapOut p op (Mem.step H s (mapOp p op)).2 ∧
    restrict p (Mem.step H s (mapOp p op)).1 = (Mem.step H (restrict p s) op).1 := by
  rw [step_restrict H s op (fun h => by rw [hop] at h; cases h)]
  exact ⟨rfl, rfl⟩

/-- The hypothesis on the prefix is needed: under the prefix `A` (not a repository name) the
view refuses to start an upload in `a`, which the restricted registry accepts. -/
theorem sub_invalid_prefix_differs :
    (Mem.step H (restrict [65] (Mem.init false)) (.pushChunked [97])).2 = .okWriter (Mem.freshID 0) ∧
    mapOut [65] (.pushChunked [97]) (Mem.step H (Mem.init false) (mapOp [65] (.pushChunked [97]))).2
      = .err "NAME_INVALID" := by
  constructor <;> rfl

/-- The frame: repositories that are not under `p/` — same names, same contents, same order —
are untouched by whatever is done through the view (no hypothesis on `p`, `s` or the names). -/
theorem sub_frame (p : Bytes) (s : Mem.State) (op : Mem.Op) :
    outsideRepos p (Mem.step H s (mapOp p op)).1.repos = outsideRepos p s.repos :=
  step_outside H p s op

/-- The same, read through `getRepo`: a name that is not `p/…` finds what it found before. -/
theorem sub_frame_lookup (p : Bytes) (s : Mem.State) (op : Mem.Op) (k : Bytes) (hk : stripName p k = none) :
    Mem.getRepo (Mem.step H s (mapOp p op)).1 k = Mem.getRepo s k :=
  getRepo_of_outside hk (step_outside H p s op)

/-- `restrict` and `outsideRepos` split the registry: a repository is in exactly one of them. -/
theorem sub_restrict_partition (p : Bytes) (s : Mem.State) (k : Bytes) (rp : Mem.Repo) :
    (k, rp) ∈ s.repos ↔
      ((k, rp) ∈ outsideRepos p s.repos ∧ stripName p k = none) ∨
      (∃ n, k = mapName p n ∧ (n, rp) ∈ (restrict p s).repos) := by
  simp only [outsideRepos, restrict, restrictRepos, List.mem_filter, List.mem_filterMap, Option.isNone_iff_eq_none,
    Option.map_eq_some_iff, Prod.mk.injEq, Prod.exists]
  constructor
  · intro h
    cases hs : stripName p k with
    | none => exact Or.inl ⟨⟨h, rfl⟩, rfl⟩
    | some n =>
      exact Or.inr ⟨n, (stripName_eq_some p k n).mp hs, k, rp, h, n, hs, rfl, rfl⟩
  · rintro (⟨⟨h, _⟩, _⟩ | ⟨n, hk, k', rp', h, n', hs, hn, hrp⟩)
    · exact h
    · subst hn hrp
      rw [hk, ← (stripName_eq_some p k' n').mp hs]; exact h

/-- Histories: any sequence of operations through the view, from any state. -/
theorem sub_equals_restriction_history {p : Bytes} (hp : Ref.isRepo p = true) (s : Mem.State) (ops : List Mem.Op) :
    (Mem.run H (restrict p s) ops).2 = mapOuts p ops (Mem.run H s (ops.map (mapOp p))).2 ∧
    restrict p (Mem.run H s (ops.map (mapOp p))).1 = (Mem.run H (restrict p s) ops).1 := by
  rw [run_restrict H s ops (fun _ => hp)]
  exact ⟨rfl, rfl⟩

theorem sub_frame_history (p : Bytes) (s : Mem.State) (ops : List Mem.Op) :
    outsideRepos p (Mem.run H s (ops.map (mapOp p))).1.repos = outsideRepos p s.repos :=
  run_outside H p s ops

/-- A view over a fresh registry answers as a fresh registry. -/
theorem sub_of_fresh_registry {p : Bytes} (hp : Ref.isRepo p = true) (imm : Bool) (ops : List Mem.Op) :
    (Mem.run H (Mem.init imm) ops).2 = mapOuts p ops (Mem.run H (Mem.init imm) (ops.map (mapOp p))).2 :=
  (sub_equals_restriction_history H hp (Mem.init imm) ops).1

end Restriction

/-! ### Obligations on the regenerated facts -/

/-- `repo` is plain concatenation, `mapScopes` passes empty and unlimited scopes
through and otherwise has the modelled body, the constructor is as modelled. -/
theorem generated_code_ok : CodeOk = true := by decide

/-- Every method maps its scopes, delegates to its own method, maps every
repository argument (and the listing start point) and nothing else. -/
theorem generated_table_ok : TableOk table = true := by decide

/-- The table has exactly one row per method of `ociregistry.Interface`. -/
theorem generated_covers_interface :
    (table.map (·.method)).Nodup ∧
    (∀ m ∈ Iface.methodParams.map (·.1), m ∈ table.map (·.method)) ∧
    (∀ m ∈ table.map (·.method), m ∈ Iface.methodParams.map (·.1)) ∧
    Iface.methodParams.length = 18 := by decide

/-- The property for the code as it is now. -/
theorem C13_holds (r : Row) (hr : r ∈ table) (ips : List String) (hips : ifaceParamNames r.method = some ips)
    (p : Bytes) (env : Env) (sc : Scope) :
    call p env sc r = .ok ⟨r.method, specArgs p env r.method ips r.params⟩ (Sub.mapScopes p sc) := by
  have h : RowOk r = true := by
    have := generated_table_ok
    simp [TableOk, List.all_eq_true] at this
    exact this r hr
  exact sub_name_map generated_code_ok r h ips hips p env sc

/-! ### Why the older name map was not confined

`mapNameOld` models `path.Join(prefix, name)` (with Go's `path.Clean`): a dot-dot
segment climbs out of the prefix. -/

/-- `Sub(r, "a")` asked for "../secret" addressed repository "secret". -/
theorem old_map_escapes :
    mapNameOld (strBytes "a") (strBytes "../secret") = strBytes "secret" ∧
    mapNameOld (strBytes "foo/bar") (strBytes "../../x") = strBytes "x" ∧
    mapNameOld (strBytes "a") (strBytes "b/../../c") = strBytes "c" := by decide

/-! ### Non-vacuity -/

/-- A lister meeting `ListsSpec`: the three names a/b, a/c, a/d and a sibling ab. -/
def exRepos : List Bytes := [strBytes "a/b", strBytes "a/c", strBytes "a/d", strBytes "ab"]

def exL (s : Bytes) : List Bytes := exRepos.filter fun x => compare s x == .lt

example : exL (strBytes "a/b") = [strBytes "a/c", strBytes "a/d", strBytes "ab"] := by decide
example : viewList (strBytes "a") exL (strBytes "b") = [strBytes "c", strBytes "d"] := by decide
example : viewList (strBytes "a") exL [] = [strBytes "b", strBytes "c", strBytes "d"] := by decide

theorem exL_spec : ListsSpec exL exRepos where
  sorted := fun s => by
    have h : exRepos.Pairwise fun a b => compare a b = .lt := by decide
    exact h.sublist List.filter_sublist
  mem := fun s x => by simp [exL, List.mem_filter]

theorem nonvacuous_row : ∃ r ∈ table, r.method = "MountBlob" ∧ RowOk r = true ∧
    ifaceParamNames r.method = some ["fromRepo", "toRepo", "digest"] := by decide

/-- A limited, non-empty scope: repository:x:pull and an opaque scope. -/
example :
    let s := newScope [(tyRepository, [120], actPull), ([102], [], [])]
    s.unlimited = false ∧ Scope.isEmpty s = false ∧
    iter (Sub.mapScopes [97] s) = [([102], [], []), (tyRepository, [97, 47, 120], actPull)] := by decide

/-! The restriction on a registry holding `p/a`, the sibling `p-x/b` and `q`. -/
section RestrictionExample
open OciModel.SubMem

def exBlob : Mem.Blob := ⟨Mem.octetStream, [1, 2, 3], [], []⟩
def exRepoA : Mem.Repo := ⟨[(strBytes "v1", ⟨[109], [100], 3⟩)], [([100], exBlob)], [([7], exBlob)], [([64, 48], ⟨[9], -1, false, none⟩)]⟩
def exRepoB : Mem.Repo := ⟨[], [], [([8], exBlob)], []⟩
def exState : Mem.State :=
  ⟨false, [(strBytes "p-x/b", exRepoB), (strBytes "p/a", exRepoA), (strBytes "q", Mem.emptyRepo)], 1⟩
def exH : Bytes → Bytes := fun b => 104 :: b

example : Ref.isRepo (strBytes "p") = true := by decide
example : creates (.getBlob (strBytes "a") [7]) = false ∧ creates (.wCommit (strBytes "a") [64, 48] []) = false := by decide
example : stripName (strBytes "p") (strBytes "p-x/b") = none ∧ stripName (strBytes "p") (strBytes "q") = none := by decide
example : restrict (strBytes "p") exState = ⟨false, [(strBytes "a", exRepoA)], 1⟩ := by decide
example : outsideRepos (strBytes "p") exState.repos = [(strBytes "p-x/b", exRepoB), (strBytes "q", Mem.emptyRepo)] := by decide
/-- the whole registry lists three repositories, the view one -/
example : (Mem.step exH exState (.repositories [])).2 = .okList [strBytes "p-x/b", strBytes "p/a", strBytes "q"] := by decide
example : mapOut (strBytes "p") (.repositories []) (Mem.step exH exState (mapOp (strBytes "p") (.repositories []))).2
    = .okList [strBytes "a"] := by decide
example : (Mem.step exH (restrict (strBytes "p") exState) (.repositories [])).2 = .okList [strBytes "a"] := by decide
/-- a tag listing is an `okList` too and is not stripped -/
example : mapOut (strBytes "p") (.tags (strBytes "a") []) (Mem.step exH exState (mapOp (strBytes "p") (.tags (strBytes "a") []))).2
    = .okList [strBytes "v1"] := by decide
/-- the sibling's blob is not reachable through the view, whatever name is tried -/
example : (Mem.step exH exState (mapOp (strBytes "p") (.getBlob (strBytes "../p-x/b") [8]))).2 = .err "NAME_UNKNOWN" := by decide
/-- a push through the view creates `p/c` below and `c` in the restriction, and leaves the rest -/
example :
    let s' := (Mem.step exH exState (mapOp (strBytes "p") (.pushChunked (strBytes "c")))).1
    (restrict (strBytes "p") s').repos.map (·.1) = [strBytes "c", strBytes "a"] ∧
    outsideRepos (strBytes "p") s'.repos = outsideRepos (strBytes "p") exState.repos := by decide

end RestrictionExample

end OciModel.Props.C13
