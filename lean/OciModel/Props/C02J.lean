/-
C02J (part of C02 and C14): what a pushed manifest references is decided by a JSON decoder.
The decoder is now part of the model (`Json.lean`, `ManifestDecode.lean`) instead of a hint
the harness computes; these are its properties, for ALL byte strings / value trees.

The correspondence with Go's `encoding/json` + `ocimem/desciter.go` is checked by differential
execution (`harness/c02j.go`); the theorems below are about the model.
-/
import OciModel.ManifestDecodeLemmas
import OciModel.Generated.DescIter
namespace OciModel.Props.C02J
open OciModel OciModel.Json OciModel.Mem OciModel.ManifestDecode

/-! ## The reader -/

/-- The reader is a total function (plain structural recursion: no fuel, no partiality): every
byte string is either rejected or yields exactly one value tree. -/
theorem reader_total (b : Bytes) : parse b = none ∨ ∃ v, parse b = some v := by
  cases parse b with
  | none => exact Or.inl rfl
  | some v => exact Or.inr ⟨v, rfl⟩

/-- So is the decoder: opaque, malformed, or a list of references. -/
theorem decoder_total (mt data : Bytes) :
    decodeRefs mt data = .opaque ∨ decodeRefs mt data = .malformed ∨ ∃ rs, decodeRefs mt data = .refs rs := by
  generalize decodeRefs mt data = r
  cases r <;> simp

/-- Round trip on the model's own documents: reading the canonical rendering of a tree gives
the tree back (strings well-formed UTF-8, numbers number literals, at most 10000 levels). -/
theorem parse_print_roundtrip (v : JVal) (hwf : WF v) (hd : depth v ≤ maxDepth) :
    parse (print v) = some v :=
  parse_print v hwf hd

/-- …also with white space around it. -/
theorem surrounding_whitespace_accepted (v : JVal) (hwf : WF v) (hd : depth v ≤ maxDepth) (ws1 ws2 : Bytes)
    (h1 : ws1.all isWs = true) (h2 : ws2.all isWs = true) : parse (ws1 ++ print v ++ ws2) = some v :=
  parse_print_ws v hwf hd ws1 ws2 h1 h2

/-- Whatever the reader yields satisfies those hypotheses (its strings are well-formed UTF-8 — ill-
formed input bytes have been replaced —, its numbers are number literals, it is at most 10000 deep) … -/
theorem reader_output_well_formed (b : Bytes) (v : JVal) (h : parse b = some v) : WF v ∧ depth v ≤ maxDepth :=
  parse_wf b v h

/-- … so reading is stable: the canonical rendering of ANY document that was read reads back as
the same tree. -/
theorem rereading_is_stable (b : Bytes) (v : JVal) (h : parse b = some v) : parse (print v) = some v :=
  parse_print_parse b v h

/-- The hypotheses are satisfiable by a tree with every kind of node, escapes and non-ASCII text. -/
example : WF (.obj [(strBytes "k\"\n", .arr [.null, .bool true, .num (strBytes "-1.5e+3"), .str (strBytes "é\\€😀")]),
      (strBytes "", .obj [])]) ∧
    depth (.obj [(strBytes "k\"\n", .arr [.null, .bool true, .num (strBytes "-1.5e+3"), .str (strBytes "é\\€😀")]),
      (strBytes "", .obj [])]) ≤ maxDepth := by decide

/-- Nothing but white space may follow the value: a document that the reader accepts, followed by
anything that is not white space and does not start like the continuation of a number literal
(digits, `.`, `e`, `E`, `+`, `-`), is rejected. -/
theorem nothing_after_the_value (d junk : Bytes) (v : JVal) (h : parse d = some v)
    (hj : junk.all isWs = false) (hb : NoCont junk) : parse (d ++ junk) = none := by
  unfold parse at h
  cases hl : lex d with
  | none => simp [hl] at h
  | some ts =>
    simp only [hl] at h
    exact parse_append_none d junk ts v hl h hj (Or.inr hb)

/-- …and when the value is not a bare number (every manifest is an object) there is no condition
on how the extra bytes start. -/
theorem nothing_after_a_container (d junk : Bytes) (v : JVal) (h : parse d = some v) (hv : ∀ t, v ≠ .num t)
    (hj : junk.all isWs = false) : parse (d ++ junk) = none := by
  unfold parse at h
  cases hl : lex d with
  | none => simp [hl] at h
  | some ts =>
    simp only [hl] at h
    exact parse_append_none d junk ts v hl h hj (Or.inl (parseToks_endsNum ts v h hv))

example : parse (strBytes "{\"a\":[1]} ") = some (.obj [(strBytes "a", .arr [.num (strBytes "1")])]) ∧
    (strBytes "}garbage").all isWs = false ∧ NoCont (strBytes "}garbage") := by
  refine ⟨rfl, by decide, by decide⟩

/-! ## The decoder -/

/-- A manifest that decodes to references stops decoding as soon as anything but white space is
appended: `json.Unmarshal` validates the whole input (a `json.Decoder` would not). -/
theorem trailing_bytes_malformed (mt d junk : Bytes) (rs : List RefInfo) (h : decodeRefs mt d = .refs rs)
    (hj : junk.all isWs = false) : decodeRefs mt (d ++ junk) = .malformed :=
  decodeRefs_trailing mt d junk rs h hj

example : decodeRefs imageMT (strBytes "{\"config\":{\"digest\":\"d\"}}") =
    .refs [⟨0, ⟨[], strBytes "d", 0⟩⟩] := by decide

/-- Media types other than the two OCI ones are opaque: nothing is decoded, nothing referenced. -/
theorem other_media_types_opaque (mt data : Bytes) (h1 : mt ≠ imageMT) (h2 : mt ≠ indexMT) :
    decodeRefs mt data = .opaque := by
  simp [decodeRefs, h1, h2]

/-- Members whose name selects no field (exactly or under case folding) are ignored, whatever
their value: in the manifest / index object … -/
theorem unknown_members_ignored (table : List (Bytes × TopField)) (refs : Top → List RefInfo)
    (l₁ l₂ : List (Bytes × JVal)) (k : Bytes) (v : JVal) (hk : lookupField table k = none) :
    refsOfVal table refs (.obj (l₁ ++ (k, v) :: l₂)) = refsOfVal table refs (.obj (l₁ ++ l₂)) := by
  simp only [refsOfVal, decodeTop_unknown table l₁ l₂ k v hk]

/-- … and in every descriptor object. -/
theorem unknown_descriptor_members_ignored (base : Desc) (l₁ l₂ : List (Bytes × JVal)) (k : Bytes) (v : JVal)
    (hk : lookupField descTable k = none) :
    mergeDesc base (.obj (l₁ ++ (k, v) :: l₂)) = mergeDesc base (.obj (l₁ ++ l₂)) :=
  mergeDesc_unknown base l₁ l₂ k v hk

example : lookupField manifestTable (strBytes "layer") = none ∧ lookupField descTable (strBytes "size ") = none ∧
    lookupField descTable (strBytes "sıze") = none := by decide

/-- What does select a field: the exact name, any other case, and the two non-ASCII letters that
fold to ASCII ones (U+017F, U+212A). -/
example : lookupField descTable (strBytes "size") = some .size ∧ lookupField descTable (strBytes "SiZe") = some .size ∧
    lookupField descTable (strBytes "ſIZE") = some .size ∧ lookupField manifestTable (strBytes "LAYERſ") = some .items ∧
    lookupField platTable (strBytes "OS.Version") = some .osVersion := by decide

instance {F : Type} [DecidableEq F] (table : List (Bytes × F)) : DecidableRel (Indep table) :=
  fun _ _ => inferInstanceAs (Decidable (_ ∨ _))

/-- Member order does not matter, as long as no two members select the same field (members that
select no field may repeat): in the manifest / index object … -/
theorem member_order_irrelevant (table : List (Bytes × TopField)) (refs : Top → List RefInfo)
    {l₁ l₂ : List (Bytes × JVal)} (p : l₁.Perm l₂) (hp : l₁.Pairwise (Indep table)) :
    refsOfVal table refs (.obj l₁) = refsOfVal table refs (.obj l₂) := by
  simp only [refsOfVal, decodeTop_perm table p hp]

/-- … and in every descriptor object. -/
theorem descriptor_member_order_irrelevant (base : Desc) {l₁ l₂ : List (Bytes × JVal)} (p : l₁.Perm l₂)
    (hp : l₁.Pairwise (Indep descTable)) : mergeDesc base (.obj l₁) = mergeDesc base (.obj l₂) :=
  mergeDesc_perm base p hp

example : [(strBytes "size", JVal.num (strBytes "3")), (strBytes "x", .null), (strBytes "Digest", .str (strBytes "d")),
      (strBytes "x", .bool true)].Pairwise (Indep descTable) := by decide

/-- Without that condition order DOES matter (a later member is decoded into what an earlier one
left), which is why the condition is there. -/
example : mergeDesc zeroDesc (.obj [(strBytes "size", .num (strBytes "1")), (strBytes "Size", .num (strBytes "2"))]) ≠
    mergeDesc zeroDesc (.obj [(strBytes "Size", .num (strBytes "2")), (strBytes "size", .num (strBytes "1"))]) := by decide

/-- Completeness on canonical documents: the canonical rendering of an image manifest (config,
layers, optional subject; any white space around it) decodes to exactly its references, in
ocimem's order: layers, config, subject. -/
theorem canonical_manifest_complete (m : Manifest) (h : m.OK) (ws1 ws2 : Bytes)
    (h1 : ws1.all isWs = true) (h2 : ws2.all isWs = true) :
    decodeRefs imageMT (ws1 ++ print (manifestJ m) ++ ws2) = .refs m.refs :=
  decodeRefs_manifest m h ws1 ws2 h1 h2

/-- The same for an image index: manifests, then the subject. -/
theorem canonical_index_complete (m : Index) (h : m.OK) (ws1 ws2 : Bytes)
    (h1 : ws1.all isWs = true) (h2 : ws2.all isWs = true) :
    decodeRefs indexMT (ws1 ++ print (indexJ m) ++ ws2) = .refs m.refs :=
  decodeRefs_index m h ws1 ws2 h1 h2

example : Manifest.OK ⟨⟨strBytes "application/octet-stream", strBytes "sha256:é", 7⟩,
    [⟨strBytes "a", strBytes "b", 0⟩, ⟨[], [], -1⟩], some ⟨strBytes "m", strBytes "sha256:0", 9223372036854775807⟩⟩ := by
  refine ⟨by decide, ?_, ?_⟩
  · intro d hd; simp at hd; rcases hd with rfl | rfl <;> decide
  · intro d hd; cases hd; decide

/-- Soundness, for EVERY byte string: whatever the decoder returns as a reference was written in
the document — each of its three fields is either the zero value (an absent member) or occurs in
the parsed document as a string value, resp. as a number whose text is that `int64`. Nothing is
made up, also not by the merging of repeated members. -/
theorem references_occur_in_document (mt data : Bytes) (rs : List RefInfo) (h : decodeRefs mt data = .refs rs) :
    ∃ doc, parse data = some doc ∧ ∀ r ∈ rs,
      (r.desc.mediaType = [] ∨ HasStr r.desc.mediaType doc) ∧ (r.desc.digest = [] ∨ HasStr r.desc.digest doc) ∧
      (r.desc.size = 0 ∨ ∃ t, HasNum t doc ∧ parseInt64 t = some r.desc.size) :=
  decodeRefs_from mt data rs h

/-- The kinds of the references are fixed by the media type: an image manifest references blobs
(kind 0) and at most one subject (kind 2), an index manifests (kind 1) and at most one subject. -/
theorem reference_kinds (mt data : Bytes) (rs : List RefInfo) (h : decodeRefs mt data = .refs rs) :
    (mt = imageMT ∧ ∀ r ∈ rs, r.kind = 0 ∨ r.kind = 2) ∨ (mt = indexMT ∧ ∀ r ∈ rs, r.kind = 1 ∨ r.kind = 2) := by
  unfold decodeRefs at h
  by_cases h1 : mt = imageMT
  · left
    refine ⟨h1, ?_⟩
    simp only [h1, if_true, decodeWith] at h
    cases hp : parse data with
    | none => simp [hp] at h
    | some v =>
      simp only [hp, refsOfVal] at h
      cases hd : decodeTop manifestTable v with
      | none => simp [hd] at h
      | some m =>
        simp [hd] at h; subst h
        intro r hr
        simp only [imageRefs, List.mem_append, List.mem_map, List.mem_singleton] at hr
        rcases hr with (⟨d, _, rfl⟩ | rfl) | hr
        · exact Or.inl rfl
        · exact Or.inl rfl
        · cases hs : m.subject with
          | none => simp [hs] at hr
          | some d => simp [hs] at hr; subst hr; exact Or.inr rfl
  · simp only [h1, if_false] at h
    by_cases h2 : mt = indexMT
    · right
      refine ⟨h2, ?_⟩
      simp only [h2, if_true, decodeWith] at h
      cases hp : parse data with
      | none => simp [hp] at h
      | some v =>
        simp only [hp, refsOfVal] at h
        cases hd : decodeTop indexTable v with
        | none => simp [hd] at h
        | some m =>
          simp [hd] at h; subst h
          intro r hr
          simp only [indexRefs, List.mem_append, List.mem_map] at hr
          rcases hr with ⟨d, _, rfl⟩ | hr
          · exact Or.inl rfl
          · cases hs : m.subject with
            | none => simp [hs] at hr
            | some d => simp [hs] at hr; subst hr; exact Or.inr rfl
    · simp [h2] at h

/-! ## The quirks, pinned (each one observed on the Go decoder by the differential check) -/

set_option maxRecDepth 20000 in
/-- A repeated list member reuses the backing array: elements are merged into what an earlier,
longer occurrence left behind, even after the list was cut short in between. -/
example : decodeRefs imageMT (strBytes
    "{\"layers\":[{\"digest\":\"A\"},{\"digest\":\"B\"},{\"digest\":\"C\"}],\"layers\":[{\"size\":1}],\"layers\":[{},{}]}") =
    .refs [⟨0, ⟨[], strBytes "A", 1⟩⟩, ⟨0, ⟨[], strBytes "B", 0⟩⟩, ⟨0, zeroDesc⟩] := by decide

/-- `[]` and `null` start afresh. -/
example : decodeRefs imageMT (strBytes "{\"layers\":[{\"digest\":\"A\"}],\"layers\":[],\"layers\":[{}]}") =
    .refs [⟨0, zeroDesc⟩, ⟨0, zeroDesc⟩] := by decide

/-- `null` as the document: nothing set, no error. Sizes must be plain integers within `int64`. -/
example : decodeRefs indexMT (strBytes "null") = .refs [] ∧
    decodeRefs imageMT (strBytes "{\"config\":{\"size\":1.0}}") = .malformed ∧
    decodeRefs imageMT (strBytes "{\"config\":{\"size\":9223372036854775808}}") = .malformed ∧
    decodeRefs imageMT (strBytes "{\"config\":{\"size\":-9223372036854775808}}") =
      .refs [⟨0, ⟨[], [], -9223372036854775808⟩⟩] := by decide

/-- A type error in a field ocimem never reads still makes the manifest malformed; under a name
no field has, anything goes. -/
example : decodeRefs imageMT (strBytes "{\"annotations\":{\"a\":1}}") = .malformed ∧
    decodeRefs imageMT (strBytes "{\"annotation\":{\"a\":1},\"config\":{\"data\":\"QQ==\"}}") = .refs [⟨0, zeroDesc⟩] ∧
    decodeRefs imageMT (strBytes "{\"config\":{\"data\":\"QQ=\"}}") = .malformed := by decide

/-! ## The source has the shape the model was written for (facts regenerated from the working tree) -/

open OciModel.Generated in
/-- `desciter.go`: the two OCI media types and nothing else are looked into, an unknown media type
yields nothing, and the bytes are decoded with `json.Unmarshal` (which validates the WHOLE input),
failing closed. -/
theorem desciter_decoding_as_modelled :
    DescIter.iteratorTable = [("ocispec.MediaTypeImageManifest", "imageDescIter"), ("ocispec.MediaTypeImageIndex", "indexDescIter")] ∧
    DescIter.iteratorTableKnown = true ∧ DescIter.manifestReferencesKnown = true ∧
    DescIter.decodeCall = "json.Unmarshal(data, &x)" ∧ DescIter.decodeShapeKnown = true := by decide

open OciModel.Generated in
/-- `imageDescIter` yields every layer and the config as blobs, then the subject if there is one;
`indexDescIter` every manifest, then the subject: unconditionally, in this order. -/
theorem desciter_yields_as_modelled :
    DescIter.imageDescIterYields = [("each", "Layers", "kindBlob", ""), ("one", "Config", "kindBlob", ""),
      ("ptr", "Subject", "kindSubjectManifest", "m.Subject != nil")] ∧ DescIter.imageDescIterKnown = true ∧
    DescIter.indexDescIterYields = [("each", "Manifests", "kindManifest", ""),
      ("ptr", "Subject", "kindSubjectManifest", "m.Subject != nil")] ∧ DescIter.indexDescIterKnown = true ∧
    DescIter.imageDescIterParam = "ociregistry.Manifest" ∧ DescIter.manifestAlias = "ocispec.Manifest" ∧
    DescIter.indexDescIterParam = "ocispec.Index" ∧ DescIter.descriptorAlias = "ocispec.Descriptor" := by decide

/-- The reference kind a yield carries, as `checkManifest` / `refersTo` treat it (`Mem.lean`:
0 looked up among the blobs, 1 among the manifests, 2 the subject, which may dangle). -/
def kindNo : String → Nat
  | "kindBlob" => 0
  | "kindManifest" => 1
  | "kindSubjectManifest" => 2
  | _ => 99

/-- What one extracted yield statement contributes to the references of a decoded struct. -/
def yieldRefs (m : Top) (y : String × String × String × String) : List RefInfo :=
  if y.1 = "each" then m.items.vis.map (fun d => ⟨kindNo y.2.2.1, d⟩)
  else if y.1 = "one" then [⟨kindNo y.2.2.1, m.config⟩]
  else if y.1 = "ptr" then (match m.subject with | some d => [⟨kindNo y.2.2.1, d⟩] | none => [])
  else []

open OciModel.Generated in
/-- The model's reference lists are the extracted yield sequences, read off one by one. -/
theorem model_refs_follow_the_yields (m : Top) :
    imageRefs m = DescIter.imageDescIterYields.flatMap (yieldRefs m) ∧
    indexRefs m = DescIter.indexDescIterYields.flatMap (yieldRefs m) := by
  constructor
  · simp [imageRefs, DescIter.imageDescIterYields, yieldRefs, kindNo]
    cases m.subject <;> rfl
  · simp [indexRefs, DescIter.indexDescIterYields, yieldRefs, kindNo]
    cases m.subject <;> rfl

open OciModel.Generated in
/-- The structs `json.Unmarshal` fills (image-spec as pinned by go.mod): fields, JSON names and Go
types are the ones the model's `descStep` / `okPlatMember` / `topStep` were written for, and no
type involved decodes itself (`digest.Digest` is a plain string). -/
theorem decoded_types_as_modelled :
    DescIter.structDescriptor = [("MediaType", "mediaType", "string"), ("Digest", "digest", "digest.Digest"),
      ("Size", "size", "int64"), ("URLs", "urls", "[]string"), ("Annotations", "annotations", "map[string]string"),
      ("Data", "data", "[]byte"), ("Platform", "platform", "*Platform"), ("ArtifactType", "artifactType", "string")] ∧
    DescIter.structPlatform = [("Architecture", "architecture", "string"), ("OS", "os", "string"),
      ("OSVersion", "os.version", "string"), ("OSFeatures", "os.features", "[]string"), ("Variant", "variant", "string")] ∧
    DescIter.structVersioned = [("SchemaVersion", "schemaVersion", "int")] ∧
    DescIter.structManifest = [("<embedded>", "", "specs.Versioned"), ("MediaType", "mediaType", "string"),
      ("ArtifactType", "artifactType", "string"), ("Config", "config", "Descriptor"), ("Layers", "layers", "[]Descriptor"),
      ("Subject", "subject", "*Descriptor"), ("Annotations", "annotations", "map[string]string")] ∧
    DescIter.structIndex = [("<embedded>", "", "specs.Versioned"), ("MediaType", "mediaType", "string"),
      ("ArtifactType", "artifactType", "string"), ("Manifests", "manifests", "[]Descriptor"),
      ("Subject", "subject", "*Descriptor"), ("Annotations", "annotations", "map[string]string")] ∧
    DescIter.digestType = "string" ∧ DescIter.customUnmarshal = false ∧ DescIter.specSourcesRead = true := by decide

open OciModel.Generated in
/-- The model's member-name tables are exactly the JSON names of those structs, in declaration
order (the embedded `specs.Versioned` contributing its field first). -/
theorem model_tables_are_the_struct_tags :
    descTable.map (·.1) = DescIter.structDescriptor.map (fun f => strBytes f.2.1) ∧
    platTable.map (·.1) = DescIter.structPlatform.map (fun f => strBytes f.2.1) ∧
    manifestTable.map (·.1) = (DescIter.structVersioned ++ DescIter.structManifest.tail).map (fun f => strBytes f.2.1) ∧
    indexTable.map (·.1) = (DescIter.structVersioned ++ DescIter.structIndex.tail).map (fun f => strBytes f.2.1) := by decide

end OciModel.Props.C02J
