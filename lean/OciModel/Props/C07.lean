/-
C07 — Errors keep their identity, status and message across the wire.

`hop := makeError ∘ MarshalError`. All theorems are for arbitrary status-prefix
and code-prefix functions `S`, `C` (so they do not depend on `http.StatusText`
or `unicode.ToLower`), an arbitrary status table, and an arbitrary JSON
compaction `compact` (idempotence is the only assumption, where needed); the
compaction `encoding/json` applies (`compactJSON`: white space dropped, `<`, `>`, `&`,
U+2028/9 escaped) is proved idempotent and the fixed-point theorems are restated for it.
-/
import OciModel.ErrCodecInst
import OciModel.ErrCodecCompact

namespace OciModel.Props.C07
open OciModel OciModel.ErrCodec

variable (S : Nat → Bytes) (C : Bytes → Bytes) (compact : Bytes → Bytes)
variable (table : List (Bytes × Nat)) (stdMsg : Bytes → Bytes)

/-- `strings.TrimPrefix` removes a prefix it has just been given. -/
theorem trimPrefix_append (p s : Bytes) : trimPrefix p (p ++ s) = s := by
  simp [trimPrefix]

/-- Shape of the client-side error after one (GET/PUT/DELETE/list) hop. -/
theorem hop_eq (e : Err) :
    hop S C compact table stdMsg false e =
      .http (wireStatus table e)
        (.wires (wireCode e, trim S C (wireStatus table e) (wireCode e) (text S C e), (detailOf e).map compact) []) := by
  simp [hop, unmarshal, marshal]

/-- The code after a hop is the error's code, or `UNKNOWN` when it has none. -/
theorem hop_code (e : Err) :
    codeOf (hop S C compact table stdMsg false e) = (if codeOf e = [] then codeUnknown else codeOf e) := by
  simp [hop_eq, codeOf, asOci, wireCode]

theorem wireCode_ne_nil (e : Err) : wireCode e ≠ [] := by
  unfold wireCode
  split
  · simp [codeUnknown]
  · assumption

/-- The code after a hop is never empty. -/
theorem hop_code_ne_nil (e : Err) : codeOf (hop S C compact table stdMsg false e) ≠ [] := by
  simpa [hop_eq, codeOf, asOci] using wireCode_ne_nil e

/-- The status after a hop is `wireStatus`: … -/
theorem hop_status (e : Err) :
    asHTTP (hop S C compact table stdMsg false e) = some (wireStatus table e) := by
  simp [hop_eq, asHTTP]

/-- … the one the table assigns to the code (the code after the hop) … -/
theorem hop_status_table (e : Err) (s : Nat)
    (h : tableStatus table (codeOf (hop S C compact table stdMsg false e)) = some s) :
    asHTTP (hop S C compact table stdMsg false e) = some s := by
  rw [hop_status]
  have h1 : codeOf (hop S C compact table stdMsg false e) = wireCode e := by simp [hop_eq, codeOf, asOci]
  rw [h1] at h
  simp [wireStatus, h]

/-- … and for codes without a row the error's own HTTP status when that is an error status (4xx, 5xx), else 500. -/
theorem hop_status_own (e : Err)
    (h : tableStatus table (codeOf (hop S C compact table stdMsg false e)) = none) :
    asHTTP (hop S C compact table stdMsg false e) = some (ownStatus e) := by
  rw [hop_status]
  have h1 : codeOf (hop S C compact table stdMsg false e) = wireCode e := by simp [hop_eq, codeOf, asOci]
  rw [h1] at h
  simp [wireStatus, h]

/-- An error's own status, as it is put on the wire, is an error status (fix F29). -/
theorem ownStatus_error_status (e : Err) : 400 ≤ ownStatus e ∧ ownStatus e ≤ 599 := by
  unfold ownStatus
  cases asHTTP e with
  | none => decide
  | some s =>
    by_cases h : 400 ≤ s ∧ s ≤ 599
    · simp [h]
    · simp [h]

/-- Detail JSON is preserved (up to `encoding/json`'s compaction). -/
theorem hop_detail (e : Err) :
    detailOf (hop S C compact table stdMsg false e) = (detailOf e).map compact := by
  simp [hop_eq, detailOf, asOci]

/-- The text of the client-side error: status prefix, code prefix, message. -/
theorem hop_text (e : Err) :
    text S C (hop S C compact table stdMsg false e) =
      S (wireStatus table e) ++ (colonSp ++
        (C (wireCode e) ++
          (if trim S C (wireStatus table e) (wireCode e) (text S C e) = [] then []
           else colonSp ++ trim S C (wireStatus table e) (wireCode e) (text S C e)))) := by
  simp [hop_eq, text, wireText]

/-- Trimming the text produced by a hop gives back the message: the message
does not accumulate status or code prefixes. -/
theorem trim_hop_text (st : Nat) (c m : Bytes) :
    trim S C st c (S st ++ (colonSp ++ (C c ++ (if m = [] then [] else colonSp ++ m)))) = m := by
  unfold trim
  have h0 : trimPrefix (S st ++ colonSp) (S st ++ (colonSp ++ (C c ++ (if m = [] then [] else colonSp ++ m))))
      = C c ++ (if m = [] then [] else colonSp ++ m) := by
    rw [← List.append_assoc, trimPrefix_append]
  simp only [h0]
  by_cases hm : m = []
  · simp [hm]
  · simp only [hm, ↓reduceIte]
    have h1 : ¬ (C c ++ (colonSp ++ m) = C c) := by
      intro h
      have := congrArg List.length h
      simp [colonSp] at this
    simp only [h1, ↓reduceIte]
    rw [← List.append_assoc, trimPrefix_append]

/-- **Fixed point.** After the first hop, a further hop changes nothing at all:
same status, code, message, detail (hence the same text and the same answers to
`errors.Is`). Arbitrary message text, including text that begins with a status
or code prefix, and the empty message. -/
theorem hop_idempotent (hc : ∀ d, compact (compact d) = compact d) (e : Err) :
    hop S C compact table stdMsg false (hop S C compact table stdMsg false e) =
      hop S C compact table stdMsg false e := by
  have hne := wireCode_ne_nil e
  have hcode : wireCode (hop S C compact table stdMsg false e) = wireCode e := by
    have h1 : codeOf (hop S C compact table stdMsg false e) = wireCode e := by simp [hop_eq, codeOf, asOci]
    rw [wireCode, h1, if_neg hne]
  have hst : wireStatus table (hop S C compact table stdMsg false e) = wireStatus table e := by
    unfold wireStatus
    rw [hcode]
    cases h : tableStatus table (wireCode e) with
    | some s => rfl
    | none =>
      have hr := ownStatus_error_status e
      simp only [hop_eq, wireStatus, h]
      generalize ownStatus e = s at hr
      simp [ownStatus, asHTTP, hr.1, hr.2]
  have hdet : (detailOf (hop S C compact table stdMsg false e)).map compact = (detailOf e).map compact := by
    rw [hop_detail]
    cases detailOf e <;> simp [hc]
  rw [hop_eq S C compact table stdMsg (hop S C compact table stdMsg false e), hcode, hst, hdet,
    hop_text, trim_hop_text, ← hop_eq]

/-- Any number of further hops after the first changes nothing. -/
theorem hops_succ (hc : ∀ d, compact (compact d) = compact d) (n : Nat) (e : Err) :
    hops S C compact table stdMsg false (n + 1) e = hop S C compact table stdMsg false e := by
  induction n generalizing e with
  | zero => simp [hops]
  | succ n ih =>
    rw [hops, ih, hop_idempotent S C compact table stdMsg hc]

/-- Message fixed point, in the words of the property. -/
theorem hop_message_fixpoint (hc : ∀ d, compact (compact d) = compact d) (n : Nat) (e : Err) :
    msgOf (hops S C compact table stdMsg false (n + 1) e) = msgOf (hop S C compact table stdMsg false e) := by
  rw [hops_succ S C compact table stdMsg hc]

/-- The compaction `json.Marshal` applies to a raw detail is idempotent (on every byte string). -/
theorem compactJSON_idempotent (d : Bytes) : compactJSON (compactJSON d) = compactJSON d :=
  compactAux_idem .out 0 d

/-- With the real compaction: the whole error (code, status, detail, message) is fixed after the first hop. -/
theorem hops_fixpoint_json (n : Nat) (e : Err) :
    hops S C compactJSON table stdMsg false (n + 1) e = hop S C compactJSON table stdMsg false e :=
  hops_succ S C compactJSON table stdMsg compactJSON_idempotent n e

/-- With the real compaction: the detail after any number of hops is the compacted original. -/
theorem hops_detail_json (n : Nat) (e : Err) :
    detailOf (hops S C compactJSON table stdMsg false (n + 1) e) = (detailOf e).map compactJSON := by
  rw [hops_fixpoint_json, hop_detail]

example : compactJSON (strBytes "{ \"a\" : \"<\\\" >\" }") = strBytes "{\"a\":\"\\u003c\\\" \\u003e\"}" := by decide

/-! ### `errors.Is` -/

/-- For the error shapes of the property, `errors.Is` against a coded standard
error other than `ErrRangeInvalid` is "the error has a code and it is that code". -/
theorem is_shape (c : Bytes) (hr : c ≠ codeRangeInvalid) (e : Err) (hs : Shape e) :
    is c e = (codeOf e == c && (asOci e).isSome) := by
  induction hs with
  | wire w => simp [is, codeOf, asOci]
  | plain m => simp [is, codeOf, asOci]
  | http st _ ih =>
    have : (c == codeRangeInvalid) = false := by simp [hr]
    simp only [is, this, Bool.and_false, Bool.false_or, ih, codeOf, asOci]
  | wrapf pre post _ ih => simp only [is, ih, codeOf, asOci]

/-- **Identity across the wire.** For every standard error value other than
`ErrRangeInvalid` (a non-empty code different from `UNKNOWN`), `errors.Is` gives
the same answer after the hop as on the original error. -/
theorem hop_is (c : Bytes) (hr : c ≠ codeRangeInvalid) (hn : c ≠ []) (hu : c ≠ codeUnknown)
    (e : Err) (hs : Shape e) :
    is c (hop S C compact table stdMsg false e) = is c e := by
  rw [is_shape c hr e hs, hop_eq]
  have : (c == codeRangeInvalid) = false := by simp [hr]
  simp only [is, List.any_nil, Bool.or_false, this, Bool.and_false, Bool.false_or, wireCode]
  cases ha : asOci e with
  | none => simp [codeOf, ha, hu.symm]
  | some w =>
    have he : c.isEmpty = false := by cases c <;> simp_all
    have hk : (codeUnknown == c) = false := by simpa using hu.symm
    by_cases hw : w.1 = []
    · simp [codeOf, ha, hw, he, hk]
    · simp [codeOf, ha, hw]

/-- For `ErrRangeInvalid` the answer after a hop is exactly: the status is 416
(`httpError.Is`), or the code is `RANGE_INVALID`. This is what makes finding F10
precise. -/
theorem hop_is_range (e : Err) :
    is codeRangeInvalid (hop S C compact table stdMsg false e) =
      (wireStatus table e == 416 || wireCode e == codeRangeInvalid) := by
  simp [hop_eq, is]

/-! ### "After one or several hops": the n-hop corollaries

Status, code and the answers of `errors.Is` after `n ≥ 1` hops are those after one
hop for EVERY compaction (no idempotence needed: they do not depend on the
detail); the detail needs the idempotence `hop_idempotent` needs. -/

/-- `n + 1` hops end with a hop. -/
theorem hops_last (n : Nat) (e : Err) :
    hops S C compact table stdMsg false (n + 1) e =
      hop S C compact table stdMsg false (hops S C compact table stdMsg false n e) := by
  induction n generalizing e with
  | zero => simp [hops]
  | succ n ih => rw [hops, ih, ← hops]

/-- The code a second hop puts on the wire is the code the first one did. -/
theorem wireCode_hop (e : Err) : wireCode (hop S C compact table stdMsg false e) = wireCode e := by
  have h1 : codeOf (hop S C compact table stdMsg false e) = wireCode e := by simp [hop_eq, codeOf, asOci]
  rw [wireCode, h1, if_neg (wireCode_ne_nil e)]

/-- … and so is the status. -/
theorem wireStatus_hop (e : Err) :
    wireStatus table (hop S C compact table stdMsg false e) = wireStatus table e := by
  unfold wireStatus
  rw [wireCode_hop]
  cases h : tableStatus table (wireCode e) with
  | some s => rfl
  | none =>
    have hr := ownStatus_error_status e
    simp only [hop_eq, wireStatus, h]
    generalize ownStatus e = s at hr
    simp [ownStatus, asHTTP, hr.1, hr.2]

theorem wireCode_hops (n : Nat) (e : Err) :
    wireCode (hops S C compact table stdMsg false n e) = wireCode e := by
  induction n generalizing e with
  | zero => rfl
  | succ n ih => rw [hops, ih, wireCode_hop]

theorem wireStatus_hops (n : Nat) (e : Err) :
    wireStatus table (hops S C compact table stdMsg false n e) = wireStatus table e := by
  induction n generalizing e with
  | zero => rfl
  | succ n ih => rw [hops, ih, wireStatus_hop]

/-- `hop_status` after any number `n ≥ 1` of hops: the status is the one the first
hop gave (the table's status for the code, else the error's own). -/
theorem hops_status (n : Nat) (h1 : 1 ≤ n) (e : Err) :
    asHTTP (hops S C compact table stdMsg false n e) = some (wireStatus table e) := by
  obtain ⟨m, rfl⟩ : ∃ m, n = m + 1 := ⟨n - 1, by omega⟩
  rw [hops_last, hop_status, wireStatus_hops]

/-- `hop_code` after `n ≥ 1` hops. -/
theorem hops_code (n : Nat) (h1 : 1 ≤ n) (e : Err) :
    codeOf (hops S C compact table stdMsg false n e) = (if codeOf e = [] then codeUnknown else codeOf e) := by
  obtain ⟨m, rfl⟩ : ∃ m, n = m + 1 := ⟨n - 1, by omega⟩
  have h : codeOf (hops S C compact table stdMsg false (m + 1) e) = wireCode e := by
    rw [hops_last, ← wireCode_hops S C compact table stdMsg m e]
    simp [hop_eq, codeOf, asOci]
  rw [h, wireCode]

/-- `hop_status_table` after `n ≥ 1` hops: the status is the one the table assigns
to the code the client sees. -/
theorem hops_status_table (n : Nat) (h1 : 1 ≤ n) (e : Err) (s : Nat)
    (h : tableStatus table (codeOf (hops S C compact table stdMsg false n e)) = some s) :
    asHTTP (hops S C compact table stdMsg false n e) = some s := by
  rw [hops_status S C compact table stdMsg n h1]
  rw [hops_code S C compact table stdMsg n h1, ← wireCode] at h
  simp [wireStatus, h]

/-- `hop_status_own` after `n ≥ 1` hops. -/
theorem hops_status_own (n : Nat) (h1 : 1 ≤ n) (e : Err)
    (h : tableStatus table (codeOf (hops S C compact table stdMsg false n e)) = none) :
    asHTTP (hops S C compact table stdMsg false n e) = some (ownStatus e) := by
  rw [hops_status S C compact table stdMsg n h1]
  rw [hops_code S C compact table stdMsg n h1, ← wireCode] at h
  simp [wireStatus, h]

/-- `hop_detail` after `n ≥ 1` hops, for an idempotent compaction: the detail is
the original compacted once. -/
theorem hops_detail (hc : ∀ d, compact (compact d) = compact d) (n : Nat) (h1 : 1 ≤ n) (e : Err) :
    detailOf (hops S C compact table stdMsg false n e) = (detailOf e).map compact := by
  obtain ⟨m, rfl⟩ : ∃ m, n = m + 1 := ⟨n - 1, by omega⟩
  rw [hops_succ S C compact table stdMsg hc, hop_detail]

/-- What `errors.Is` answers after a hop depends only on the status and code put on
the wire — for every target, `ErrRangeInvalid` included. -/
theorem hop_is_congr (c : Bytes) (e e' : Err)
    (hst : wireStatus table e = wireStatus table e') (hcode : wireCode e = wireCode e') :
    is c (hop S C compact table stdMsg false e) = is c (hop S C compact table stdMsg false e') := by
  simp [hop_eq, is, hst, hcode]

/-- After `n ≥ 1` hops `errors.Is` answers what it answers after one hop: for every
target `c` (the deviation F10 for `ErrRangeInvalid` is made by the first hop and
not changed by later ones), every error, every compaction. -/
theorem hops_is_one (c : Bytes) (n : Nat) (h1 : 1 ≤ n) (e : Err) :
    is c (hops S C compact table stdMsg false n e) = is c (hop S C compact table stdMsg false e) := by
  obtain ⟨m, rfl⟩ : ∃ m, n = m + 1 := ⟨n - 1, by omega⟩
  rw [hops_last]
  exact hop_is_congr S C compact table stdMsg c _ _ (wireStatus_hops S C compact table stdMsg m e)
    (wireCode_hops S C compact table stdMsg m e)

/-- **Identity across the wire, any number of hops** — `hop_is` under exactly its
hypotheses: for every standard error value other than `ErrRangeInvalid`, `errors.Is`
gives after `n ≥ 1` hops the answer it gives on the original error. -/
theorem hops_is (c : Bytes) (hr : c ≠ codeRangeInvalid) (hn : c ≠ []) (hu : c ≠ codeUnknown)
    (n : Nat) (h1 : 1 ≤ n) (e : Err) (hs : Shape e) :
    is c (hops S C compact table stdMsg false n e) = is c e := by
  rw [hops_is_one S C compact table stdMsg c n h1, hop_is S C compact table stdMsg c hr hn hu e hs]

/-- `hop_is_range` after `n ≥ 1` hops. -/
theorem hops_is_range (n : Nat) (h1 : 1 ≤ n) (e : Err) :
    is codeRangeInvalid (hops S C compact table stdMsg false n e) =
      (wireStatus table e == 416 || wireCode e == codeRangeInvalid) := by
  rw [hops_is_one S C compact table stdMsg _ n h1, hop_is_range]

/-- All of it in the words of the property: after `n ≥ 1` hops the status, the code,
the detail and every answer of `errors.Is` are those after one hop. -/
theorem hops_same_as_one_hop (hc : ∀ d, compact (compact d) = compact d) (n : Nat) (h1 : 1 ≤ n) (e : Err) :
    asHTTP (hops S C compact table stdMsg false n e) = asHTTP (hop S C compact table stdMsg false e) ∧
    codeOf (hops S C compact table stdMsg false n e) = codeOf (hop S C compact table stdMsg false e) ∧
    detailOf (hops S C compact table stdMsg false n e) = detailOf (hop S C compact table stdMsg false e) ∧
    ∀ c, is c (hops S C compact table stdMsg false n e) = is c (hop S C compact table stdMsg false e) := by
  refine ⟨?_, ?_, ?_, fun c => hops_is_one S C compact table stdMsg c n h1 e⟩
  · rw [hops_status S C compact table stdMsg n h1, hop_status]
  · rw [hops_code S C compact table stdMsg n h1, hop_code]
  · rw [hops_detail S C compact table stdMsg hc n h1, hop_detail]

/-- Non-vacuity of the n-hop corollaries: three hops of a wrapped `ErrBlobUnknown`
with a detail, through the generated table and the real compaction; `hops_is`'s
hypotheses hold of it and the three observations are what the theorems say. -/
example :
    let e : Err := .wrapf (strBytes "ctx: ") (.http 404 (.wire (strBytes "BLOB_UNKNOWN", strBytes "m", some (strBytes "{ }")))) []
    (1 ≤ 3) ∧ Shape e ∧ strBytes "BLOB_UNKNOWN" ≠ codeRangeInvalid ∧ strBytes "BLOB_UNKNOWN" ≠ [] ∧
    strBytes "BLOB_UNKNOWN" ≠ codeUnknown ∧ wireStatus genTable e = 404 ∧
    tableStatus genTable (strBytes "BLOB_UNKNOWN") = some 404 ∧ detailOf e = some (strBytes "{ }") :=
  ⟨by decide, .wrapf _ _ (.http _ (.wire _)), by decide, by decide, by decide, by decide, by decide, by decide⟩

/-! ### Obligations on the regenerated table, and the recorded deviations -/

/-- The status table extracted from the current error.go assigns to every
standard code the status the distribution specification gives it. -/
theorem generated_table_ok :
    Generated.ErrorTable.shapeKnown = true ∧
    Generated.ErrorTable.errorStatuses =
      [("BLOB_UNKNOWN", 404), ("BLOB_UPLOAD_INVALID", 416), ("BLOB_UPLOAD_UNKNOWN", 404), ("DIGEST_INVALID", 400),
       ("MANIFEST_BLOB_UNKNOWN", 404), ("MANIFEST_INVALID", 400), ("MANIFEST_UNKNOWN", 404), ("NAME_INVALID", 400),
       ("NAME_UNKNOWN", 404), ("SIZE_INVALID", 400), ("UNAUTHORIZED", 401), ("DENIED", 403), ("UNSUPPORTED", 400),
       ("TOOMANYREQUESTS", 429), ("RANGE_INVALID", 416)] ∧
    Generated.ErrorTable.httpIsRangeStatuses = [416] ∧
    Generated.ErrorTable.stdErrors.map (·.2.1) = Generated.ErrorTable.errorStatuses.map (·.1) := by
  decide

/-- Every standard error except `ErrRangeInvalid` meets the hypotheses of `hop_is`. -/
theorem std_codes_meet_hop_is :
    ∀ c ∈ stdCodes, c ≠ codeRangeInvalid → c ≠ [] ∧ c ≠ codeUnknown := by
  decide

/-- F10 (known finding): `ErrBlobUploadInvalid` is not `ErrRangeInvalid` before a
hop and is after it, because its status is 416. -/
theorem F10_counterexample :
    let e : Err := .wire (strBytes "BLOB_UPLOAD_INVALID", strBytes "blob upload invalid", none)
    is codeRangeInvalid e = false ∧
    is codeRangeInvalid (hop S C compact genTable stdMsg false e) = true := by
  constructor
  · decide
  · rw [hop_is_range]; decide

/-- F11 (known finding): over a HEAD carrier `ErrBlobUnknown` comes back as
`ErrNameUnknown`. -/
theorem F11_counterexample :
    let e : Err := .wire (strBytes "BLOB_UNKNOWN", strBytes "blob unknown to registry", none)
    is (strBytes "BLOB_UNKNOWN") e = true ∧
    is (strBytes "BLOB_UNKNOWN") (hop S C compact genTable stdMsg true e) = false ∧
    is (strBytes "NAME_UNKNOWN") (hop S C compact genTable stdMsg true e) = true := by
  intro e
  have h404 : wireStatus genTable e = 404 := by decide
  refine ⟨by decide, ?_, ?_⟩ <;>
    simp only [hop, unmarshal, marshal, h404, headStd, ↓reduceIte, is] <;> decide

/-- Over a HEAD carrier the status still is the table's status for the code. -/
theorem hop_head_status (e : Err) :
    asHTTP (hop S C compact table stdMsg true e) = some (wireStatus table e) := by
  cases h : headStd stdMsg (wireStatus table e) <;> simp [hop, unmarshal, marshal, h, asHTTP]

/-- Non-vacuity: a wrapped standard error is a `Shape`, and a standard code
meets the side conditions of `hop_is`. -/
example : Shape (.wrapf (strBytes "ctx: ") (.http 404 (.wire (strBytes "BLOB_UNKNOWN", [], none))) []) :=
  .wrapf _ _ (.http _ (.wire _))
example : strBytes "BLOB_UNKNOWN" ∈ stdCodes ∧ strBytes "BLOB_UNKNOWN" ≠ codeRangeInvalid := by decide

end OciModel.Props.C07
