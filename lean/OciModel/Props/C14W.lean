/-
C14 (wrapper part) — read-only and immutable wrappers.

"Through the read-only wrapper no sequence of calls changes the underlying
registry and every mutating call fails as unsupported. Through the immutable
wrapper once a tag has been observed to resolve to a digest it resolves to that
digest and the same bytes forever; nothing is ever deleted through the immutable
wrapper."

Model: `OciModel/WrapRO.lean`, over an arbitrary deterministic backend
`B : S → Op → S × Out` and an arbitrary hash `H`. The facts about the source
(`ReadOnlyOk`: which embedded field supplies each method of `ReadOnly`'s struct;
`ImmutableOk`: which methods `immutable` overrides and with what) are regenerated
from readonly.go / immutable.go / interface.go / func.go on every run and checked
by the `generated_*` obligations; the general theorems take them as hypotheses.
-/
import OciModel.WrapROLemmas

namespace OciModel.Props.C14W
open OciModel OciModel.WrapRO OciModel.Generated OciModel.Generated.WrapRO
open OciModel.Mem (Op Out)

variable {S α : Type}

/-! ### Read-only wrapper -/

/-- Every mutating call (the 5 Writer and 3 Deleter methods) fails as
`<method>: unsupported`, makes no call on the wrapped registry and leaves its
state alone. -/
theorem readonly_mutators_unsupported (hok : ReadOnlyOk = true) (B : Backend S) (s : S) (op : Op) (m : String)
    (hm : methodOf op = some m) (hmut : isMutatorMethod m = true) :
    roStep B s op = (s, some (.err "UNSUPPORTED"), []) := by
  obtain ⟨hs, row, hrow, hrok⟩ := readOnlyOk_mut hok m hmut
  exact ro_nilFuncs B s op m hm hs row hrow hrok

/-- Every Reader and Lister call behaves exactly as on the wrapped registry. -/
theorem readonly_reads_transparent (hok : ReadOnlyOk = true) (B : Backend S) (s : S) (op : Op) (m : String)
    (hm : methodOf op = some m) (hread : isReadMethod m = true) :
    roStep B s op = ((B s op).1, some (B s op).2, [op]) :=
  ro_wrapped B s op m hm (readOnlyOk_read hok m hread)

/-- Each interface method is a read or a mutator (the 18 methods are the 7 Reader,
3 Lister, 5 Writer and 3 Deleter methods). -/
theorem generated_alphabet_ok (op : Op) (m : String) (hm : methodOf op = some m) :
    isReadMethod m = true ∨ isMutatorMethod m = true := by
  cases op <;> simp only [methodOf, Option.some.injEq, reduceCtorEq] at hm <;> subst hm <;> decide

/-- The wrapped registry only ever sees Reader and Lister calls. -/
theorem readonly_backend_sees_only_reads (hok : ReadOnlyOk = true) (B : Backend S) (s : S) (op : Op) :
    ∀ c ∈ (roStep B s op).2.2, isReadOp c = true := by
  cases hm : methodOf op with
  | none => simp [roStep, hm]
  | some m =>
    rcases generated_alphabet_ok op m hm with hr | hmut
    · rw [readonly_reads_transparent hok B s op m hm hr]
      simp [isReadOp, hm, hr]
    · rw [readonly_mutators_unsupported hok B s op m hm hmut]
      simp

/-- No sequence of calls through the wrapper changes the underlying registry,
for any backend whose Reader and Lister methods do not change its state. -/
theorem readonly_state_unchanged (hok : ReadOnlyOk = true) (B : Backend S)
    (hB : ∀ s op, isReadOp op = true → (B s op).1 = s) (ops : List Op) (s : S) :
    (roRun B s ops).1 = s := by
  induction ops generalizing s with
  | nil => rfl
  | cons op ops ih =>
    have h1 : (roStep B s op).1 = s := by
      cases hm : methodOf op with
      | none => simp [roStep, hm]
      | some m =>
        rcases generated_alphabet_ok op m hm with hr | hmut
        · rw [readonly_reads_transparent hok B s op m hm hr]
          exact hB s op (by simp [isReadOp, hm, hr])
        · rw [readonly_mutators_unsupported hok B s op m hm hmut]
    simp only [roRun, h1, ih]

/-- … and, with no assumption on the backend at all, the calls it receives over
a whole history are Reader and Lister calls only. -/
theorem readonly_history_calls_are_reads (hok : ReadOnlyOk = true) (B : Backend S) (ops : List Op) (s : S) :
    ∀ c ∈ (roRun B s ops).2, isReadOp c = true := by
  induction ops generalizing s with
  | nil => simp [roRun]
  | cons op ops ih =>
    intro c hc
    simp only [roRun, List.mem_append] at hc
    rcases hc with hc | hc
    · exact readonly_backend_sees_only_reads hok B s op c hc
    · exact ih _ c hc

/-! ### Immutable wrapper -/

/-- The three delete methods return DENIED without touching the wrapped registry. -/
theorem immutable_deletes_denied (hok : ImmutableOk = true) (H : Bytes → Bytes) (B : Backend S) (s : S) (op : Op)
    (hd : isDeleteOp op = true) : immStep H B s op = (s, some (.err "DENIED"), []) :=
  immStep_delete hok H B s op hd

/-- No call through the wrapper ever makes a Delete* call on the wrapped registry. -/
theorem immutable_never_deletes (hok : ImmutableOk = true) (H : Bytes → Bytes) (B : Backend S) (s : S) (op : Op) :
    ∀ c ∈ (immStep H B s op).2.2, isDeleteOp c = false := by
  by_cases hd : isDeleteOp op = true
  · rw [immStep_delete hok H B s op hd]; simp
  · have hd' : isDeleteOp op = false := by simpa using hd
    by_cases hp : methodOf op = some "PushManifest"
    · cases op <;> simp [methodOf] at hp
      case pushManifest r t data mt dec =>
        rw [immStep_pushManifest hok]
        split
        · simp [isDeleteOp]
        · intro c hc
          rcases immPush_calls H B s r t data mt dec c hc with rfl | rfl <;> rfl
    · rw [immStep_other hok H B s op hd' hp]
      intro c hc
      simp at hc; subst hc; exact hd'

theorem immutable_history_never_deletes (hok : ImmutableOk = true) (H : Bytes → Bytes) (B : Backend S)
    (ops : List Op) (s : S) : ∀ c ∈ (immRun H B s ops).2, isDeleteOp c = false := by
  induction ops generalizing s with
  | nil => simp [immRun]
  | cons op ops ih =>
    intro c hc
    simp only [immRun, List.mem_append] at hc
    rcases hc with hc | hc
    · exact immutable_never_deletes hok H B s op c hc
    · exact ih _ c hc

/-- Tag stability, in general form. Let `obs` be any observation of the backend
state that only a `PushManifest` of tag `t` in repository `r` can change (for
instance what `ResolveTag r t` answers, or the bytes `GetTag r t` returns), and
assume the same of the answer of `ResolveTag r t` itself. If `ResolveTag r t`
currently answers a descriptor `d`, then after any call through the wrapper —
any method, any arguments, in particular a `PushManifest r t` with different
content — `obs` is unchanged and `ResolveTag r t` still answers `d`. -/
theorem immutable_obs_stable (hok : ImmutableOk = true) (H : Bytes → Bytes) (B : Backend S)
    (r t : Bytes) (ht : t ≠ []) (obs : S → α)
    (hobs : ∀ s c, isPushTo r t c = false → obs (B s c).1 = obs s)
    (hans : ∀ s c, isPushTo r t c = false → (B (B s c).1 (.resolveTag r t)).2 = (B s (.resolveTag r t)).2)
    (s : S) (d : Mem.Desc) (hcur : (B s (.resolveTag r t)).2 = .okDesc d) (op : Op) :
    obs (immStep H B s op).1 = obs s ∧ (B (immStep H B s op).1 (.resolveTag r t)).2 = .okDesc d := by
  -- one backend call that is not a push to (r, t) preserves both facts
  have keep : ∀ s' c, isPushTo r t c = false → obs s' = obs s → (B s' (.resolveTag r t)).2 = .okDesc d →
      obs (B s' c).1 = obs s ∧ (B (B s' c).1 (.resolveTag r t)).2 = .okDesc d :=
    fun s' c hc h1 h2 => ⟨(hobs s' c hc).trans h1, (hans s' c hc).trans h2⟩
  by_cases hd : isDeleteOp op = true
  · rw [immStep_delete hok H B s op hd]; exact ⟨rfl, hcur⟩
  have hd' : isDeleteOp op = false := by simpa using hd
  by_cases hp : methodOf op = some "PushManifest"
  case neg =>
    rw [immStep_other hok H B s op hd' hp]
    have hne : isPushTo r t op = false := by
      cases op <;> simp [methodOf] at hp <;> rfl
    exact keep s op hne rfl hcur
  cases op <;> simp [methodOf] at hp
  case pushManifest r' t' data mt dec =>
    rw [immStep_pushManifest hok]
    by_cases ht' : t' = []
    · subst ht'
      have hne : isPushTo r t (.pushManifest r' [] data mt dec) = false := by
        simp only [isPushTo, Bool.and_eq_false_imp, beq_iff_eq, beq_eq_false_iff_ne]
        intro _ h; exact ht h.symm
      simp only [if_true]
      exact keep s _ hne rfl hcur
    · simp only [ht', if_false]
      have hrt : isPushTo r t (.resolveTag r' t') = false := rfl
      have k1 := keep s (.resolveTag r' t') hrt rfl hcur
      by_cases hsame : r' = r ∧ t' = t
      · -- the very tag: it resolves, so nothing is pushed
        obtain ⟨rfl, rfl⟩ := hsame
        simp only [immPush, hcur]
        split <;> exact k1
      · have hpush : isPushTo r t (.pushManifest r' t' data mt dec) = false := by
          simp only [isPushTo, Bool.and_eq_false_imp, beq_iff_eq, beq_eq_false_iff_ne]
          intro h1 h2; exact hsame ⟨h1, h2⟩
        have k2 := keep _ (.pushManifest r' t' data mt dec) hpush k1.1 k1.2
        have k3 := keep _ (.resolveTag r' t') hrt k2.1 k2.2
        simp only [immPush]
        split
        · split <;> exact k1
        · split
          · exact k2
          · split
            · split <;> exact k3
            · exact k3

/-- Once a tag resolves to a descriptor it resolves to that descriptor after any
history of calls through the wrapper, and any observation that only a push to
that tag can change (e.g. the bytes behind the tag) stays what it was. -/
theorem immutable_tag_stable (hok : ImmutableOk = true) (H : Bytes → Bytes) (B : Backend S)
    (r t : Bytes) (ht : t ≠ []) (obs : S → α)
    (hobs : ∀ s c, isPushTo r t c = false → obs (B s c).1 = obs s)
    (hans : ∀ s c, isPushTo r t c = false → (B (B s c).1 (.resolveTag r t)).2 = (B s (.resolveTag r t)).2)
    (d : Mem.Desc) (ops : List Op) (s : S) (hcur : (B s (.resolveTag r t)).2 = .okDesc d) :
    obs (immRun H B s ops).1 = obs s ∧ (B (immRun H B s ops).1 (.resolveTag r t)).2 = .okDesc d := by
  induction ops generalizing s with
  | nil => exact ⟨rfl, hcur⟩
  | cons op ops ih =>
    have h1 := immutable_obs_stable hok H B r t ht obs hobs hans s d hcur op
    have h2 := ih (immStep H B s op).1 h1.2
    exact ⟨h2.1.trans h1.1, h2.2⟩

/-- A `PushManifest` of different content to a tag that resolves is refused with
DENIED after one `ResolveTag` and no push. -/
theorem immutable_retag_denied (hok : ImmutableOk = true) (H : Bytes → Bytes) (B : Backend S)
    (s : S) (r t data mt : Bytes) (dec : Mem.Decoded) (ht : t ≠ []) (d : Mem.Desc)
    (hcur : (B s (.resolveTag r t)).2 = .okDesc d) (hdiff : d.digest ≠ H data) :
    immStep H B s (.pushManifest r t data mt dec) =
      ((B s (.resolveTag r t)).1, some (.err "DENIED"), [.resolveTag r t]) := by
  rw [immStep_pushManifest hok]
  simp [ht, immPush, hcur, hdiff]

/-- Whatever the backend does in between (another client may win the race for the tag):
when a tagged `PushManifest` through the wrapper reports success, the descriptor it returns
names the pushed content and is the answer of a `ResolveTag` made as the last step of the
call — a lost race is never reported as a success. -/
theorem immutable_push_ok_is_resolved (hok : ImmutableOk = true) (H : Bytes → Bytes) (B : Backend S)
    (s : S) (r t data mt : Bytes) (dec : Mem.Decoded) (ht : t ≠ []) (d : Mem.Desc)
    (h : (immStep H B s (.pushManifest r t data mt dec)).2.1 = some (.okDesc d)) :
    d.digest = H data ∧
    ∃ s', (B s' (.resolveTag r t)).2 = .okDesc d ∧
      (immStep H B s (.pushManifest r t data mt dec)).1 = (B s' (.resolveTag r t)).1 ∧
      (immStep H B s (.pushManifest r t data mt dec)).2.2.getLast? = some (.resolveTag r t) := by
  rw [immStep_pushManifest hok] at h ⊢
  simp only [ht, if_false] at h ⊢
  unfold immPush at h ⊢
  simp only at h ⊢
  split at h
  · rename_i d0 hd0
    split at h
    · rename_i hdig
      simp only [Option.some.injEq, Out.okDesc.injEq] at h
      subst h
      exact ⟨hdig, s, hd0, by simp [hdig], by simp [hdig]⟩
    · simp at h
  · split at h
    · simp at h
    · split at h
      · rename_i d1 hd1
        split at h
        · simp at h
        · rename_i hdig
          simp only [Option.some.injEq, Out.okDesc.injEq] at h
          subst h
          have hdig' : d1.digest = H data := by simpa using hdig
          exact ⟨hdig', (B (B s (.resolveTag r t)).1 (.pushManifest r t data mt dec)).1, hd1,
            by simp [hdig'], by simp [hdig']⟩
      · simp at h

/-- Every method other than `PushManifest` and the deletes goes straight to the
wrapped registry. -/
theorem immutable_others_transparent (hok : ImmutableOk = true) (H : Bytes → Bytes) (B : Backend S) (s : S) (op : Op)
    (h1 : isDeleteOp op = false) (h2 : methodOf op ≠ some "PushManifest") :
    immStep H B s op = ((B s op).1, some (B s op).2, [op]) :=
  immStep_other hok H B s op h1 h2

/-! ### Obligations on the regenerated facts -/

/-- In `ReadOnly`'s struct all 7 Reader and 3 Lister methods resolve to the wrapped
registry (depth 1) and all 5 Writer and 3 Deleter methods to the nil `*Funcs`
(depth 2), whose rows in func.go are well-formed. -/
theorem generated_readonly_ok : ReadOnlyOk = true := by decide

theorem generated_readonly_covers : readOnlySource.map (·.1) = Iface.methodParams.map (·.1) ∧
    readOnlySource.length = 18 := by decide

/-- `immutable` embeds the registry, overrides exactly `PushManifest` (with the
modelled body) and the three deletes (each `return ociregistry.ErrDenied`). -/
theorem generated_immutable_ok : ImmutableOk = true := by decide

/-! ### Non-vacuity: a concrete backend meeting the hypotheses

A toy registry whose state is one tag table: `pushManifest r t data …` sets tag
`(r, t)` to the descriptor of `data`, `resolveTag` looks it up, every other call
changes nothing. -/

def toyB : Backend (Bytes × Bytes → Option Mem.Desc) := fun s op =>
  match op with
  | .pushManifest r t data mt _ =>
    let d : Mem.Desc := ⟨mt, data, data.length⟩
    ((fun k => if k = (r, t) then some d else s k), .okDesc d)
  | .resolveTag r t =>
    match s (r, t) with
    | some d => (s, .okDesc d)
    | none => (s, .err "MANIFEST_UNKNOWN")
  | _ => (s, .okUnit)

/-- Its Reader and Lister methods do not change its state (hypothesis of
`readonly_state_unchanged`). -/
theorem toyB_reads (s : Bytes × Bytes → Option Mem.Desc) (op : Op) (h : isReadOp op = true) : (toyB s op).1 = s := by
  cases op
  case pushManifest =>
    exact absurd h (by simp [isReadOp, methodOf, isReadMethod, Iface.readerMethods, Iface.listerMethods])
  case resolveTag r t => simp only [toyB]; split <;> rfl
  all_goals rfl

theorem toyB_lookup (r t : Bytes) (s : Bytes × Bytes → Option Mem.Desc) (c : Op) (hc : isPushTo r t c = false) :
    (toyB s c).1 (r, t) = s (r, t) := by
  cases c
  case pushManifest r' t' data mt dec =>
    have hne : (r, t) ≠ (r', t') := by
      simp only [isPushTo, Bool.and_eq_false_imp, beq_iff_eq, beq_eq_false_iff_ne] at hc
      intro h; cases h; exact hc rfl rfl
    simp [toyB, hne]
  case resolveTag r' t' => simp only [toyB]; split <;> rfl
  all_goals rfl

/-- The hypotheses of `immutable_tag_stable` hold for the toy backend (with
`obs` = what `ResolveTag r t` answers), … -/
theorem toyB_hans (r t : Bytes) (s : Bytes × Bytes → Option Mem.Desc) (c : Op) (hc : isPushTo r t c = false) :
    (toyB (toyB s c).1 (.resolveTag r t)).2 = (toyB s (.resolveTag r t)).2 := by
  have h := toyB_lookup r t s c hc
  generalize (toyB s c).1 = s' at h
  simp only [toyB, h]
  cases s (r, t) <;> rfl

/-- … so through `Immutable(toyB)` a tag set to "v1" survives a history that tries
to move it to "v2" and to delete it: the second push is refused, while a new
tag can still be created. -/
theorem nonvacuous_immutable_toy :
    let s0 := (toyB (fun _ => none) (.pushManifest [97] [116] [118, 49] [] .opaque)).1
    let ops := [Op.pushManifest [97] [116] [118, 50] [] .opaque, .deleteTag [97] [116], .pushManifest [97] [117] [118, 50] [] .opaque]
    (toyB (immRun (fun b => b) toyB s0 ops).1 (.resolveTag [97] [116])).2 = .okDesc ⟨[], [118, 49], 2⟩ ∧
    (toyB (immRun (fun b => b) toyB s0 ops).1 (.resolveTag [97] [117])).2 = .okDesc ⟨[], [118, 50], 2⟩ ∧
    (immStep (fun b => b) toyB s0 (.pushManifest [97] [116] [118, 50] [] .opaque)).2.1 = some (.err "DENIED") := by
  decide

/-- The read-only wrapper over the toy backend: a push is refused and the state stays. -/
theorem nonvacuous_readonly_toy : (roStep toyB (fun _ => none) (.pushManifest [97] [116] [118] [] .opaque)).2.1 = some (.err "UNSUPPORTED") ∧
    (roStep toyB (fun _ => none) (.pushManifest [97] [116] [118] [] .opaque)).2.2.length = 0 := by
  decide

end OciModel.Props.C14W
