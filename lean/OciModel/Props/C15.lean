/-
C15 — Unified registry is the union view and replicates every write.

The combinators of `ociunify` are modelled in `OciModel.Unify`; which method is
built from which combinator is regenerated from the source on every run
(`OciModel.Generated.Unify`) and checked here by `decide`.

Trusted base of this file: the translator's reading of the five source files;
base64url and encoding/json as an abstract codec with the stated round-trip
hypothesis (`CodecLawful`; for the real codec it holds for IDs that are valid
UTF-8, which is what registries issue); Go's `slices.SortFunc` sorts.
-/
import OciModel.Unify
import OciModel.UnifyLemmas
import OciModel.Generated.Unify
import OciModel.Generated.Funcs

namespace OciModel.Props.C15
open OciModel OciModel.Unify

/-! ### 1. Digest-addressed reads: the union, under both policies -/

/-- A read succeeds exactly when a member has the content, and the answer is a
member's answer; for every policy and every order of the members' answers. -/
theorem read_union {α} (pol : Policy) (a0 a1 r : Res α) (hr : r ∈ readAllowed pol a0 a1) :
    (r.isOk = true ↔ a0.isOk = true ∨ a1.isOk = true) ∧ (r = a0 ∨ r = a1) := by
  cases pol <;> cases a0 <;> cases a1 <;> simp [readAllowed, readFirst] at hr <;>
    (try rcases hr with rfl | rfl) <;> (try subst hr) <;> simp [Res.isOk]

/-- The two policies give `≈` results whenever the members' successful answers
describe the same content (same digest ⇒ same size and bytes; media types may
differ and are not compared). -/
theorem policies_agree {α κ} (key : α → κ) (a0 a1 : Res α)
    (hcontent : ∀ x y, a0 = .ok x → a1 = .ok y → key x = key y)
    (r r' : Res α) (hr : r ∈ readAllowed .concurrent a0 a1) (hr' : r' ∈ readAllowed .sequential a0 a1) :
    Res.equiv key r r' := by
  cases a0 <;> cases a1 <;> simp [readAllowed, readFirst] at hr hr' <;> subst hr' <;>
    (try rcases hr with rfl | rfl) <;> (try subst hr) <;> simp [Res.equiv]
  · rename_i x y
    exact (hcontent x y rfl rfl).symm

/-- The hypothesis is satisfiable with two successful, differently labelled answers. -/
example : ∃ (a0 a1 : Res (String × Nat)), a0 ≠ a1 ∧ a0.isOk ∧ a1.isOk ∧
    ∀ x y, a0 = .ok x → a1 = .ok y → x.2 = y.2 :=
  ⟨.ok ("text/a", 7), .ok ("text/b", 7), by decide, rfl, rfl, by
    intro x y h0 h1; cases h0; cases h1; rfl⟩

/-! ### 2. Tags -/

/-- Both members have the tag: the answer is member 0's when the digests agree
and an error when they differ — never a silent choice. -/
theorem tag_rule_both {α} (dig : α → Bytes) (x y : α) :
    (dig x = dig y → tagRule dig (.ok x) (.ok y) = .ok x) ∧
    (dig x ≠ dig y → (tagRule dig (.ok x) (.ok y)).isOk = false) := by
  constructor <;> intro h <;> simp [tagRule, h, Res.isOk]

/-- Exactly one member has the tag: that member's answer. Neither: an error. -/
theorem tag_rule_one {α} (dig : α → Bytes) (x : α) (e e' : String) :
    tagRule dig (.ok x) (.err e) = .ok x ∧ tagRule dig (.err e) (.ok x) = .ok x ∧
    tagRule dig (.err e) (.err e') = (.err e : Res α) := by
  simp [tagRule]

/-- Summary: a tag read succeeds iff some member has the tag and the members do
not disagree; a successful answer is a member's answer. -/
theorem tag_rule {α} (dig : α → Bytes) (r0 r1 : Res α) :
    ((tagRule dig r0 r1).isOk = true ↔
      (r0.isOk = true ∨ r1.isOk = true) ∧ ∀ x y, r0 = .ok x → r1 = .ok y → dig x = dig y) ∧
    ((tagRule dig r0 r1).isOk = true → tagRule dig r0 r1 = r0 ∨ tagRule dig r0 r1 = r1) := by
  cases r0 <;> cases r1 <;> simp [tagRule, Res.isOk]
  rename_i x y
  by_cases h : dig x = dig y <;> simp [h]

/-! ### 3. Listings -/

section lists
variable {α : Type} (cmp : α → α → Ordering) [Std.TransCmp cmp]

/-- `mergeIter` yields a strictly ascending (hence duplicate-free) list that
contains nothing but members' items, and a representative of every item; for
ANY two inputs (they need not be sorted). -/
theorem merge_sorted_union_general (e0 e1 : Events α)
    (hnf : ¬ (isNameUnknown e0.err = true ∧ isNameUnknown e1.err = true)) :
    StrictAsc cmp (mergeIter cmp e0 e1).items ∧
    (∀ x ∈ (mergeIter cmp e0 e1).items, x ∈ e0.items ∨ x ∈ e1.items) ∧
    (∀ x, x ∈ e0.items ∨ x ∈ e1.items → ∃ y ∈ (mergeIter cmp e0 e1).items, cmp y x = .eq) := by
  have hif : (isNameUnknown e0.err && isNameUnknown e1.err) = false := by
    cases h0 : isNameUnknown e0.err <;> cases h1 : isNameUnknown e1.err <;> simp_all
  simp only [mergeIter, hif, Bool.false_eq_true, if_false]
  refine ⟨strictAsc_compactBy _ (asc_sortBy _), ?_, ?_⟩
  · intro x hx
    have := (mem_sortBy x _).1 (mem_compactBy _ _ hx)
    simpa using this
  · intro x hx
    apply compactBy_covers
    rw [mem_sortBy]; simpa using hx

/-- The statement of the property: for an order whose `eq` is equality (byte
strings under `strings.Compare`), the listing is the strictly ascending,
duplicate-free union of the members' listings. -/
theorem merge_sorted_union [Std.LawfulEqCmp cmp] (e0 e1 : Events α)
    (hnf : ¬ (isNameUnknown e0.err = true ∧ isNameUnknown e1.err = true)) :
    StrictAsc cmp (mergeIter cmp e0 e1).items ∧
    ∀ x, x ∈ (mergeIter cmp e0 e1).items ↔ x ∈ e0.items ∨ x ∈ e1.items := by
  obtain ⟨h1, h2, h3⟩ := merge_sorted_union_general cmp e0 e1 hnf
  refine ⟨h1, fun x => ⟨h2 x, fun hx => ?_⟩⟩
  obtain ⟨y, hy, hyx⟩ := h3 x hx
  rwa [← Std.LawfulEqCmp.eq_of_compare hyx]

/-- Because a strictly ascending list is determined by its members, the result
does not depend on how `slices.SortFunc` arranges equal elements: any list with
the two properties above IS the model's output. -/
theorem merge_unique [Std.LawfulEqCmp cmp] (e0 e1 : Events α) (out : List α)
    (hnf : ¬ (isNameUnknown e0.err = true ∧ isNameUnknown e1.err = true))
    (hs : StrictAsc cmp out) (hm : ∀ x, x ∈ out ↔ x ∈ e0.items ∨ x ∈ e1.items) :
    out = (mergeIter cmp e0 e1).items := by
  obtain ⟨h1, h2⟩ := merge_sorted_union cmp e0 e1 hnf
  exact strictAsc_unique out _ hs h1 (fun x => by rw [hm, h2])

omit [Std.TransCmp cmp] in
/-- Errors: a repository unknown to both members is reported as such, with no
items; a member that does not know the repository — it answered NAME_UNKNOWN and delivered nothing — is
otherwise ignored; any other error is delivered (member 0's first), after the items. F34: a member that
delivered items and THEN answered NAME_UNKNOWN (its repository vanished while it was being listed) has
failed like any other: its error is delivered. -/
theorem merge_errors (e0 e1 : Events α) :
    (isNameUnknown e0.err = true → isNameUnknown e1.err = true →
      mergeIter cmp e0 e1 = ⟨[], e0.err⟩) ∧
    (isNameUnknown e0.err = true → isNameUnknown e1.err = false →
      (e0.items = [] → (mergeIter cmp e0 e1).err = e1.err) ∧
      (e0.items ≠ [] → (mergeIter cmp e0 e1).err = e0.err)) ∧
    (isNameUnknown e0.err = false → isNameUnknown e1.err = true →
      (∀ e, e0.err = some e → (mergeIter cmp e0 e1).err = some e) ∧
      (e0.err = none → e1.items = [] → (mergeIter cmp e0 e1).err = none) ∧
      (e0.err = none → e1.items ≠ [] → (mergeIter cmp e0 e1).err = e1.err)) ∧
    (isNameUnknown e0.err = false → isNameUnknown e1.err = false →
      (∀ e, e0.err = some e → (mergeIter cmp e0 e1).err = some e) ∧
      (e0.err = none → (mergeIter cmp e0 e1).err = e1.err)) := by
  refine ⟨?_, ?_, ?_, ?_⟩ <;> intro h0 h1
  · simp [mergeIter, h0, h1]
  · constructor
    · intro hi; simp [mergeIter, h0, h1, hi]
    · intro hi
      cases hc : e0.err with
      | none => rw [hc] at h0; simp [isNameUnknown] at h0
      | some c => rw [hc] at h0; simp [mergeIter, h0, h1, hi, hc]
  · refine ⟨?_, ?_, ?_⟩
    · intro e he; rw [he] at h0; simp [mergeIter, h0, h1, he]
    · intro he hi; rw [he] at h0; simp [mergeIter, h0, h1, he, hi]
    · intro he hi; rw [he] at h0; simp [mergeIter, h0, h1, he, hi]
  · constructor
    · intro e he; rw [he] at h0; simp [mergeIter, h0, h1, he]
    · intro he; rw [he] at h0; simp [mergeIter, h0, h1, he]

omit [Std.TransCmp cmp] in
/-- **Never a silently shortened union (F34).** If a member delivered at least one item and then an error —
whatever the error, NAME_UNKNOWN included — the merged listing ends in an error. -/
theorem merge_never_silently_short (e0 e1 : Events α)
    (h : (e0.items ≠ [] ∧ e0.err.isSome = true) ∨ (e1.items ≠ [] ∧ e1.err.isSome = true)) :
    (mergeIter cmp e0 e1).err.isSome = true := by
  rcases h with ⟨hi, he⟩ | ⟨hi, he⟩
  · obtain ⟨c, hc⟩ := Option.isSome_iff_exists.mp he
    cases hn0 : isNameUnknown e0.err <;> cases hn1 : isNameUnknown e1.err <;>
      (rw [hc] at hn0; simp [mergeIter, hn0, hn1, hi, hc])
  · obtain ⟨c, hc⟩ := Option.isSome_iff_exists.mp he
    cases hn0 : isNameUnknown e0.err <;> cases hn1 : isNameUnknown e1.err <;>
      (rw [hc] at hn1; cases h0 : e0.err <;> (rw [h0] at hn0; simp_all [mergeIter, isNameUnknown]) <;>
        (try (split <;> simp_all)))

end lists

/-- The calls made to the consumer are a prefix of "items, then the error": the
error comes last and at most once, and nothing is delivered after it. -/
theorem consumer_sees_prefix {α} (accept : List (Ev α) → Bool) (e : Events α) :
    feed accept [] e.calls <+: e.calls :=
  feed_prefix _ _ _

/-- Call number `i` is made exactly when the consumer accepted every earlier
call: iteration stops as soon as the consumer declines. -/
theorem consumer_stop {α} (accept : List (Ev α) → Bool) (e : Events α) (i : Nat) (hi : i < e.calls.length) :
    i < (feed accept [] e.calls).length ↔ ∀ j < i, accept (histAt [] e.calls j) = true :=
  feed_length _ _ _ _ hi

/-- `List UInt8` under core `compare` (= Go's `strings.Compare` on the bytes)
meets the hypotheses of the listing theorems. -/
example : StrictAsc cmpBytes (mergeIter cmpBytes ⟨[[2], [1], [2]], none⟩ ⟨[[3], [1]], some "NAME_UNKNOWN"⟩).items ∧
    -- F34: the second member delivered items before its NAME_UNKNOWN, so the union ends with that error …
    (mergeIter cmpBytes ⟨[[2], [1], [2]], none⟩ ⟨[[3], [1]], some "NAME_UNKNOWN"⟩) = ⟨[[1], [2], [3]], some "NAME_UNKNOWN"⟩ ∧
    -- … while a member that delivered nothing simply does not know the repository
    (mergeIter cmpBytes ⟨[[2], [1], [2]], none⟩ ⟨[], some "NAME_UNKNOWN"⟩) = ⟨[[1], [2]], none⟩ := by
  have : Std.TransCmp cmpBytes := inferInstanceAs (Std.TransCmp (compare : Bytes → Bytes → Ordering))
  have : Std.LawfulEqCmp cmpBytes := inferInstanceAs (Std.LawfulEqCmp (compare : Bytes → Bytes → Ordering))
  exact ⟨(merge_sorted_union cmpBytes _ _ (by decide)).1, by decide, by decide⟩

/-! ### 4. Writes -/

/-- `bothResults` reports success only if both members succeeded. -/
theorem bothResults_ok_iff {α} (r0 r1 : Res α) :
    (bothResults r0 r1).isOk = true ↔ r0.isOk = true ∧ r1.isOk = true := by
  cases r0 <;> cases r1 <;> simp [bothResults, Res.isOk]

/-- So does the test used by PushBlob and PushManifest. -/
theorem eqOk_ok_iff {α} (r0 r1 : Res α) :
    (eqOk r0 r1).isOk = true ↔ r0.isOk = true ∧ r1.isOk = true := by
  cases r0 <;> cases r1 <;> simp [eqOk, Res.isOk]

/-- A successful combined answer is member 0's answer. -/
theorem write_answer {α} (r0 r1 : Res α) :
    ((bothResults r0 r1).isOk = true → bothResults r0 r1 = r0) ∧
    ((eqOk r0 r1).isOk = true → eqOk r0 r1 = r0) := by
  cases r0 <;> cases r1 <;> simp [bothResults, eqOk, Res.isOk]

/-! ### 5. Composite upload IDs -/

/-- The stated hypothesis on base64url / JSON (trusted). -/
def CodecLawful (C : Codec) : Prop :=
  (∀ x, C.b64dec (C.b64enc x) = some x) ∧ (∀ l, C.jsonDec (C.jsonEnc l) = some l)

/-- Resuming with the ID the unified writer reported reaches the same two
member uploads. -/
theorem split_join (C : Codec) (h : CodecLawful C) (id0 id1 : Bytes) :
    splitID C (joinID C id0 id1) = some (id0, id1) := by
  simp [splitID, joinID, h.1, h.2]

/-- A codec satisfying the hypothesis (base64 the identity, the list coded by
escaping: every byte `c` as `1 c`, every end of string as `0`). -/
def escEnc : List Bytes → Bytes
  | [] => []
  | b :: rest => b.flatMap (fun c => [1, c]) ++ 0 :: escEnc rest

def escDecAux : Bytes → Bytes → Option (List Bytes)
  | cur, [] => if cur.isEmpty then some [] else none
  | cur, x :: rest =>
    if x = 0 then (escDecAux [] rest).map (cur.reverse :: ·)
    else match rest with
      | [] => none
      | c :: rest' => if x = 1 then escDecAux (c :: cur) rest' else none

def escCodec : Codec := ⟨id, some, escEnc, escDecAux []⟩

theorem escDecAux_enc (b : Bytes) (t : Bytes) (cur : Bytes) :
    escDecAux cur (b.flatMap (fun c => [1, c]) ++ 0 :: t) =
      (escDecAux [] t).map ((cur.reverse ++ b) :: ·) := by
  induction b generalizing cur with
  | nil => cases t <;> simp [escDecAux]
  | cons c cs ih => simp [escDecAux, ih]

theorem escDec_enc (l : List Bytes) : escDecAux [] (escEnc l) = some l := by
  induction l with
  | nil => simp [escEnc, escDecAux]
  | cons b rest ih => simp [escEnc, escDecAux_enc, ih]

example : CodecLawful escCodec := ⟨fun _ => rfl, escDec_enc⟩

/-! ### 6. Replication keeps the members equal -/

/-- Two members related by `R` stay related when every write is applied to both
with related arguments — whatever the machine. -/
theorem members_stay_related (M : Machine) (R : M.σ → M.σ → Prop) (Rop : M.Op → M.Op → Prop)
    (hstep : ∀ s0 s1 o0 o1, R s0 s1 → Rop o0 o1 → R (M.step s0 o0).1 (M.step s1 o1).1)
    (s : M.σ × M.σ) (hs : R s.1 s.2) (hist : List (M.Op × M.Op)) (hh : ∀ p ∈ hist, Rop p.1 p.2) :
    R (runPair M s hist).1 (runPair M s hist).2 := by
  induction hist generalizing s with
  | nil => exact hs
  | cons p rest ih =>
    obtain ⟨o0, o1⟩ := p
    simp only [runPair]
    apply ih
    · exact hstep _ _ _ _ hs (hh (o0, o1) (by simp))
    · intro q hq; exact hh q (by simp [hq])

/-- Two copies of a deterministic machine that start equal are equal after any
history of writes applied to both with the same arguments, and gave the same
outputs at every step. -/
theorem members_stay_equal (M : Machine) (s : M.σ) (hist : List (M.Op × M.Op)) (hh : ∀ p ∈ hist, p.1 = p.2) :
    (runPair M (s, s) hist).1 = (runPair M (s, s) hist).2 :=
  members_stay_related M (· = ·) (· = ·) (by intro s0 s1 o0 o1 h1 h2; rw [h1, h2]) (s, s) rfl hist hh

section mem
variable (H : Bytes → Bytes) (C : Codec)

/-- In the unifier over two `ocimem` models every operation either leaves both
members as they were or steps both, each with its half of the fanned-out call. -/
theorem step_members (pol : Policy) (f : Bool) (s : UState) (op : Mem.Op) :
    ((step H C pol f s op).1.m0 = s.m0 ∧ (step H C pol f s op).1.m1 = s.m1) ∨
    ∃ op0 op1, fan C op = some (op0, op1) ∧
      (step H C pol f s op).1.m0 = (Mem.step H s.m0 op0).1 ∧
      (step H C pol f s op).1.m1 = (Mem.step H s.m1 op1).1 := by
  unfold step
  split
  · split <;> simp
  · rename_i op0 op1 hfan
    simp only
    split <;> (repeat' split) <;>
      first
        | exact Or.inl ⟨rfl, rfl⟩
        | exact Or.inr ⟨op0, op1, hfan, rfl, rfl⟩

/-- An operation whose two halves are the same call (everything except a
composite upload ID naming two different member uploads). -/
def Diagonal (op : Mem.Op) : Prop := ∀ op0 op1, fan C op = some (op0, op1) → op0 = op1

/-- The full statement for the executable model: two equal `ocimem` members are
observably equal after ANY history of operations through the unifier.

It is NOT claimed: it fails for histories in which the client forges composite
upload IDs that share a member upload (`ocimem` accepts unknown IDs on resume):
resume `[A,B]`, resume `[A,C]`, write `x` through the first, `y` through the
second, commit the second with the digest of `y` — member 0 refuses (upload `A`
holds `xy`), member 1 commits (upload `C` holds `y`); the unifier reports the
failure but member 1 now has a blob member 0 lacks. The model and the real
code agree on this history (replay kept in `findings/`). IDs issued by the
unifier never share a member upload; for those, and for composite IDs naming
disjoint member uploads, the correspondence check compares the two members'
observable state after every history. What is proved below is the part in which
both halves of every fanned-out call are the same call. -/
def mem_members_stay_equal_statement : Prop :=
  ∀ (pol : Policy) (s : UState), s.m0 = s.m1 → ∀ ops : List Mem.Op,
    obs (run H C pol s ops).m0 = obs (run H C pol s ops).m1

/-- `members_stay_equal` for the executable model: two equal `ocimem` members
remain equal (hence observably equal) under any history of operations through
the unifier (reads, pushes, mounts, deletes, chunked uploads with resume) whose
composite upload IDs name the same upload in both members — which is what the
unified writer of equal model members reports — under either policy. -/
theorem mem_members_stay_equal_partial (pol : Policy) (s : UState) (hs : s.m0 = s.m1) (ops : List Mem.Op)
    (hd : ∀ op ∈ ops, Diagonal C op) :
    (run H C pol s ops).m0 = (run H C pol s ops).m1 := by
  induction ops generalizing s with
  | nil => exact hs
  | cons op rest ih =>
    simp only [run]
    apply ih
    · rcases step_members H C pol true s op with ⟨h0, h1⟩ | ⟨op0, op1, hf, h0, h1⟩
      · rw [h0, h1, hs]
      · have := hd op (by simp) op0 op1 hf
        rw [h0, h1, hs, this]
    · intro o ho; exact hd o (by simp [ho])

/-- The IDs the unified writer reports over equal members ARE diagonal: a fresh
chunked upload through the unifier over equal members yields `joinID id id`. -/
theorem fresh_upload_id_diagonal (pol : Policy) (f : Bool) (s : UState) (hs : s.m0 = s.m1) (r : Bytes) (id : Bytes)
    (h : (step H C pol f s (.pushChunked r)).2 = .out (.okWriter id)) :
    ∃ a, id = joinID C a a := by
  unfold step at h
  simp only [fan] at h
  rw [hs] at h
  split at h
  · rename_i id0 id1 h0 h1
    simp only [UOut.out.injEq, Mem.Out.okWriter.injEq] at h
    have : id0 = id1 := by
      have := h0.symm.trans h1
      simpa using this
    exact ⟨id0, by rw [← h, this]⟩
  · rename_i hne
    simp only [UOut.out.injEq] at h
    generalize (Mem.step H s.m1 (Mem.Op.pushChunked r)).snd = o at h hne
    cases o <;> simp_all [ofOut, bothResults, toOut]

/-- Operations that carry no upload ID are diagonal; so are resumptions and
writer calls with an ID of the form the unified writer of equal members reports. -/
example (r t d : Bytes) (desc : Mem.Desc) : Diagonal C (.pushBlob r desc d) ∧ Diagonal C (.deleteTag r t) ∧
    Diagonal C (.pushChunked r) := by
  refine ⟨?_, ?_, ?_⟩ <;> intro a b h <;> simp [fan] at h <;> rw [← h.1, ← h.2]

example (h : CodecLawful C) (r id d : Bytes) : Diagonal C (.wWrite r (joinID C id id) d) := by
  intro a b hf
  simp [fan, split_join C h] at hf
  rw [← hf.1, ← hf.2]

end mem

/-! ### 7. Obligations on the facts regenerated from the source -/

open OciModel.Generated.Unify in
/-- The helper functions the model transcribes (bothResults, both, runRead,
runReadWithCancel, runReadSequential, runReadConcurrent, runReadBlobReader,
blobReader.Close, t2.close, mergeIter, compareDescriptor) still have the text
they were transcribed from. -/
theorem generated_helpers_pinned : helpers.all (·.2) = true ∧ helpers.length = 12 := by decide

def rowsOf (recv : String) : List Generated.Unify.Row := Generated.Unify.table.filter (·.recv = recv)

def findRow (recv method : String) : Option Generated.Unify.Row :=
  (rowsOf recv).find? (·.method = method)

/-- The unifier implements every method of `ociregistry.Interface` itself (the
embedded nil `*Funcs` is never reached), once. -/
theorem generated_covers_interface :
    (∀ m ∈ Generated.Funcs.interfaceMethods, m ∈ (rowsOf "unifier").map (·.method)) ∧
    ((rowsOf "unifier").map (·.method)).Nodup ∧
    (∀ m ∈ ["Write", "Close", "Cancel", "Commit", "Size", "ChunkSize", "ID"], m ∈ (rowsOf "unifiedBlobWriter").map (·.method)) := by
  decide

/-- Every Writer and Deleter method, and every mutating method of the unified
blob writer, calls the same method on BOTH members (`both`, or the two pipes of
PushBlob) with its own arguments, and combines the two answers with a
success-only-if-both rule (`bothResults` or `eqOk`). -/
def writeRowOk (r : Generated.Unify.Row) : Bool :=
  (r.callee == "both" || r.callee == "pipe2") &&
  r.member == r.method &&
  (r.memberRecv == (if r.recv == "unifier" then "member" else "w.w[i]")) &&
  (r.args == r.params ||
    -- the upload ID is split: each member gets its own half
    (r.method == "PushBlobChunkedResume" && r.args == ["repo", "ids[i]", "offset", "chunkSize"]) ||
    -- the content is teed into one pipe per member
    (r.method == "PushBlob" && r.args == ["repo", "desc", "pipe"])) &&
  (r.combine == "bothResults" || r.combine == "eqOk" || r.combine == "pipe2:eqOk" ||
    r.combine == "chunked:bothResults" || r.combine == "resume:splitID,bothResults,sameSize" ||
    r.combine == "write:bothResults")

def writeMethods : List (String × String) :=
  [("unifier", "PushBlob"), ("unifier", "PushBlobChunked"), ("unifier", "PushBlobChunkedResume"),
   ("unifier", "MountBlob"), ("unifier", "PushManifest"),
   ("unifier", "DeleteBlob"), ("unifier", "DeleteManifest"), ("unifier", "DeleteTag"),
   ("unifiedBlobWriter", "Write"), ("unifiedBlobWriter", "Close"), ("unifiedBlobWriter", "Cancel"),
   ("unifiedBlobWriter", "Commit")]

theorem generated_writes_go_to_both :
    ∀ p ∈ writeMethods, ((findRow p.1 p.2).map writeRowOk) = some true := by decide

/-- Which success-only-if-both rule each write uses (so that `step` applies the
right one). -/
theorem generated_write_combinators :
    (["PushBlob", "PushManifest"].map fun m => (findRow "unifier" m).map (·.combine)) = [some "pipe2:eqOk", some "eqOk"] ∧
    (["MountBlob", "DeleteBlob", "DeleteManifest", "DeleteTag"].all fun m =>
      (findRow "unifier" m).map (·.combine) == some "bothResults") = true ∧
    (["Close", "Cancel", "Commit"].all fun m =>
      (findRow "unifiedBlobWriter" m).map (·.combine) == some "bothResults") = true ∧
    (findRow "unifiedBlobWriter" "ID").map (·.combine) = some "local:joinID" ∧
    (findRow "unifiedBlobWriter" "Size").map (·.combine) = some "local:size" := by decide

/-- Every digest-addressed read is a first-success read of the same member
method with the same arguments, run under the closure's own context. -/
theorem generated_reads_first_success :
    ∀ p ∈ [("GetBlob", "runReadBlobReader"), ("GetBlobRange", "runReadBlobReader"), ("GetManifest", "runReadBlobReader"),
           ("ResolveBlob", "runRead"), ("ResolveManifest", "runRead")],
      (findRow "unifier" p.1).map (fun r =>
        r.combine == "firstSuccess" && r.member == p.1 && r.args == r.params && r.memberRecv == "member" &&
        r.callee == p.2) = some true := by decide

/-- Tag reads ask both members and apply the tag rule. -/
theorem generated_tags_use_rule :
    ∀ m ∈ ["GetTag", "ResolveTag"],
      (findRow "unifier" m).map (fun r =>
        r.combine == "tagRule" && r.callee == "both" && r.member == m && r.args == r.params && r.memberRecv == "member") = some true := by
  decide

/-- Listings ask both members and merge; names by `strings.Compare`, referrers by digest. -/
theorem generated_lists_merge :
    (∀ m ∈ ["Repositories", "Tags"],
      (findRow "unifier" m).map (fun r =>
        r.combine == "mergeIter:strings.Compare" && r.callee == "both" && r.member == m && r.args == r.params) = some true) ∧
    (findRow "unifier" "Referrers").map (fun r =>
        r.combine == "mergeIter:compareDescriptor" && r.callee == "both" && r.member == "Referrers" && r.args == r.params) = some true := by
  decide


/-! ### 8. The machine the engine drives: `Unify.step` over two `ocimem` members

§§1–4 are about the combinators. This section states the same clauses for `Unify.step` itself (two `Mem` members,
policy, upload-ID codec), as equations on the stepped state and on the answer, so that a step that dropped a
write, or reported a success one member did not have, would contradict a theorem here (`step_members` above is a
disjunction such a step would satisfy).

What `step` does NOT do, and is therefore not claimed: it does not roll back. Every write that reaches the members
steps BOTH of them whatever the two answers are (`write_steps_both`), so after a write that failed on one member
only, the other member keeps the effect (witness `one_sided_delete` below); and a resume that the unifier refuses
because the two writers disagree on the size has nevertheless resumed both member uploads
(`write_ok_iff_both_ok_open`). `Close` is not an operation of the `Mem` model (the driver answers it from the table
of live writers); `Size` is answered locally (`generated_write_combinators`: `local:size`). -/

/-- A member's answer is a success. -/
def okM (o : Mem.Out) : Bool := (ofOut o).isOk

/-- The unifier's answer is a success (`listErr` is a listing that ended in an error). -/
def okU : UOut → Bool
  | .out o => okM o
  | .listErr .. => false

/-- The operations that change a registry: Writer and Deleter methods and the mutating methods of a blob writer. -/
def isWrite : Mem.Op → Bool
  | .pushBlob .. | .pushManifest .. | .mount .. | .deleteBlob .. | .deleteManifest .. | .deleteTag ..
  | .pushChunked .. | .resume .. | .wWrite .. | .wCancel .. | .wCommit .. => true
  | _ => false

/-- Writes whose answer is a member's answer (everything except the two calls that open a writer). -/
def isAnswerWrite : Mem.Op → Bool
  | .pushBlob .. | .pushManifest .. | .mount .. | .deleteBlob .. | .deleteManifest .. | .deleteTag ..
  | .wWrite .. | .wCancel .. | .wCommit .. => true
  | _ => false

/-- A method of a unified blob writer can only be called on an object the client holds. -/
def Live (s : UState) : Mem.Op → Prop
  | .wWrite r id _ | .wCancel r id | .wCommit r id _ | .wSize r id => (Mem.alookup (wkey r id) s.writers).isSome = true
  | _ => True

/-- The upload ID an operation carries. -/
def idOf : Mem.Op → Option Bytes
  | .resume _ id _ | .wWrite _ id _ | .wSize _ id | .wCancel _ id | .wCommit _ id _ => some id
  | _ => none

/-- The same operation, same arguments, on another upload ID. -/
def withID (x : Bytes) : Mem.Op → Mem.Op
  | .resume r _ off => .resume r x off
  | .wWrite r _ d => .wWrite r x d
  | .wSize r _ => .wSize r x
  | .wCancel r _ => .wCancel r x
  | .wCommit r _ dg => .wCommit r x dg
  | op => op

section stepthms
variable (H : Bytes → Bytes) (C : Codec)

/-- What the two member calls are: the call itself when it carries no upload ID; otherwise the same call with the
same arguments on each half of the composite ID. -/
theorem fan_spec (op : Mem.Op) :
    fan C op = match idOf op with
      | none => some (op, op)
      | some id => (splitID C id).map fun ab => (withID ab.1 op, withID ab.2 op) := by
  cases op <;> simp [fan, idOf, withID]

theorem write_steps_both (pol : Policy) (f : Bool) (s : UState) (op op0 op1 : Mem.Op)
    (hw : isWrite op = true) (hl : Live s op) (hf : fan C op = some (op0, op1)) :
    (step H C pol f s op).1.m0 = (Mem.step H s.m0 op0).1 ∧
    (step H C pol f s op).1.m1 = (Mem.step H s.m1 op1).1 := by
  cases op with
  | wWrite r id d | wCancel r id | wCommit r id dg =>
    obtain ⟨sz, hsz⟩ := Option.isSome_iff_exists.mp hl
    unfold step; simp only [hf, hsz]; (repeat' split) <;> (first | exact ⟨rfl, rfl⟩ | simp)
  | _ =>
    first
      | (simp [isWrite] at hw; done)
      | (unfold step; simp only [hf]; (repeat' split) <;> (first | exact ⟨rfl, rfl⟩ | simp))


/-- When the call never reaches the members — a composite ID that does not decode, or a writer method on an
object the client does not hold — nothing changes and the answer is an error. -/
theorem write_not_fanned (pol : Policy) (f : Bool) (s : UState) (op : Mem.Op)
    (h : fan C op = none ∨ ¬ Live s op) :
    (step H C pol f s op).1 = s ∧ okU (step H C pol f s op).2 = false := by
  rcases h with h | h
  · unfold step; simp only [h]; split <;> exact ⟨rfl, rfl⟩
  · cases op with
    | wWrite r id d | wCancel r id | wCommit r id dg | wSize r id =>
      have hn : Mem.alookup (wkey r id) s.writers = none := by
        simpa [Live] using h
      unfold step
      split
      · split <;> exact ⟨rfl, rfl⟩
      · simp [hn, okU, okM, ofOut, Res.isOk]
    | _ => exact absurd trivial h


/-- Which success-only-if-both rule `step` applies to a write (cf. `generated_write_combinators`). -/
def combOf : Mem.Op → Res Mem.Out → Res Mem.Out → Res Mem.Out
  | .pushBlob .. | .pushManifest .. => eqOk
  | _ => bothResults

/-- The link between the machine and the combinators of §4: the answer of `step` to a write IS the combinator
applied to the two members' answers (`Write` returns the length of its argument when the combinator succeeds),
so `bothResults_ok_iff`, `eqOk_ok_iff` and `write_answer` speak about `step`. -/
theorem write_out_is_combinator (pol : Policy) (f : Bool) (s : UState) (op op0 op1 : Mem.Op)
    (hw : isAnswerWrite op = true) (hl : Live s op) (hf : fan C op = some (op0, op1)) :
    (step H C pol f s op).2 = .out
      (match op with
       | .wWrite _ _ d =>
         (match bothResults (ofOut (Mem.step H s.m0 op0).2) (ofOut (Mem.step H s.m1 op1).2) with
          | .ok _ => .okN d.length
          | .err c => .err c)
       | _ => toOut (combOf op (ofOut (Mem.step H s.m0 op0).2) (ofOut (Mem.step H s.m1 op1).2))) := by
  cases op with
  | wWrite r id d =>
    obtain ⟨sz, hsz⟩ := Option.isSome_iff_exists.mp hl
    unfold step; simp only [hf, hsz]; split <;> simp_all
  | wCancel r id | wCommit r id dg =>
    obtain ⟨sz, hsz⟩ := Option.isSome_iff_exists.mp hl
    unfold step; simp only [hf, hsz, combOf]
  | _ =>
    first
      | (simp [isAnswerWrite] at hw; done)
      | (unfold step; simp only [hf, combOf])

/-- **Success only if both.** For every write whose answer is a member's answer, the unifier's answer is a
success iff both members' answers are, and it is then member 0's. -/
theorem write_ok_iff_both_ok (pol : Policy) (f : Bool) (s : UState) (op op0 op1 : Mem.Op)
    (hw : isAnswerWrite op = true) (hl : Live s op) (hf : fan C op = some (op0, op1)) :
    (okU (step H C pol f s op).2 = true ↔
      okM (Mem.step H s.m0 op0).2 = true ∧ okM (Mem.step H s.m1 op1).2 = true) ∧
    (okU (step H C pol f s op).2 = true → (step H C pol f s op).2 = .out (Mem.step H s.m0 op0).2) := by
  cases op with
  | wWrite r id d =>
    obtain ⟨sz, hsz⟩ := Option.isSome_iff_exists.mp hl
    have hf' := hf
    simp only [fan, Option.map_eq_some_iff] at hf'
    obtain ⟨⟨a, b⟩, -, hab⟩ := hf'
    simp only [Prod.mk.injEq] at hab
    obtain ⟨rfl, rfl⟩ := hab
    have h0 := mem_write_out H s.m0 r a d
    unfold step; simp only [hf, hsz]
    generalize (Mem.step H s.m0 (Mem.Op.wWrite r a d)).2 = o0 at h0 ⊢
    generalize (Mem.step H s.m1 (Mem.Op.wWrite r b d)).2 = o1
    rcases h0 with ⟨c, rfl⟩ | rfl <;> cases o1 <;> simp [ofOut, bothResults, okU, okM, Res.isOk]
  | wCancel r id | wCommit r id dg =>
    obtain ⟨sz, hsz⟩ := Option.isSome_iff_exists.mp hl
    unfold step; simp only [hf, hsz]
    generalize (Mem.step H s.m0 op0).2 = o0
    generalize (Mem.step H s.m1 op1).2 = o1
    cases o0 <;> cases o1 <;> simp [ofOut, toOut, bothResults, okU, okM, Res.isOk]
  | _ =>
    first
      | (simp [isAnswerWrite] at hw; done)
      | (unfold step; simp only [hf]
         generalize (Mem.step H s.m0 op0).2 = o0
         generalize (Mem.step H s.m1 op1).2 = o1
         cases o0 <;> cases o1 <;> simp [ofOut, toOut, bothResults, eqOk, okU, okM, Res.isOk])


/-- The size a member reports for an upload (what `w.Size()` returns on the member's writer). -/
def msize (m : Mem.State) (r id : Bytes) : Int :=
  match (Mem.step H m (.wSize r id)).2 with | .okN n => n | _ => 0

/-- The repository argument of the two calls that open a writer. -/
def openRepo : Mem.Op → Option Bytes
  | .pushChunked r | .resume r _ _ => some r
  | _ => none

/-- **Success only if both, for the calls that open a writer.** `PushBlobChunked` succeeds iff both members hand
out a writer; `PushBlobChunkedResume` iff, in addition, the two writers report the same size — here `step` is
STRICTER than "iff both succeeded": two members that both resume, at different sizes, make the unifier fail
("registries do not agree on upload size") although both member calls succeeded and (by `write_steps_both`) both
members have been stepped. On success the answer is the composite of the two members' IDs. -/
theorem write_ok_iff_both_ok_open (pol : Policy) (f : Bool) (s : UState) (op op0 op1 : Mem.Op) (r : Bytes)
    (hr : openRepo op = some r) (hf : fan C op = some (op0, op1)) :
    (okU (step H C pol f s op).2 = true ↔
      ∃ id0 id1, (Mem.step H s.m0 op0).2 = .okWriter id0 ∧ (Mem.step H s.m1 op1).2 = .okWriter id1 ∧
        ((∃ id off, op = .resume r id off) →
          msize H (Mem.step H s.m0 op0).1 r id0 = msize H (Mem.step H s.m1 op1).1 r id1)) ∧
    (okU (step H C pol f s op).2 = true → okM (Mem.step H s.m0 op0).2 = true ∧ okM (Mem.step H s.m1 op1).2 = true) ∧
    (∀ id0 id1, okU (step H C pol f s op).2 = true →
      (Mem.step H s.m0 op0).2 = .okWriter id0 → (Mem.step H s.m1 op1).2 = .okWriter id1 →
      (step H C pol f s op).2 = .out (.okWriter (joinID C id0 id1))) := by
  cases op with
  | pushChunked r' =>
    simp only [openRepo, Option.some.injEq] at hr; subst hr
    have hf' := hf
    simp only [fan, Option.some.injEq, Prod.mk.injEq] at hf'
    obtain ⟨rfl, rfl⟩ := hf'
    have h0 := mem_open_out H s.m0 (.pushChunked r') ⟨r', Or.inl rfl⟩
    have h1 := mem_open_out H s.m1 (.pushChunked r') ⟨r', Or.inl rfl⟩
    unfold step; simp only [hf]
    generalize Mem.step H s.m0 (Mem.Op.pushChunked r') = p0 at h0 ⊢
    generalize Mem.step H s.m1 (Mem.Op.pushChunked r') = p1 at h1 ⊢
    obtain ⟨m0', o0⟩ := p0
    obtain ⟨m1', o1⟩ := p1
    simp only at h0 h1 ⊢
    rcases h0 with ⟨c0, rfl⟩ | ⟨i0, rfl⟩ <;> rcases h1 with ⟨c1, rfl⟩ | ⟨i1, rfl⟩ <;>
      simp [ofOut, toOut, bothResults, okU, okM, Res.isOk]
  | resume r' id off =>
    simp only [openRepo, Option.some.injEq] at hr; subst hr
    have hf' := hf
    simp only [fan, Option.map_eq_some_iff] at hf'
    obtain ⟨⟨a, b⟩, -, hab⟩ := hf'
    simp only [Prod.mk.injEq] at hab
    obtain ⟨rfl, rfl⟩ := hab
    have h0 := mem_open_out H s.m0 (.resume r' a off) ⟨r', Or.inr ⟨a, off, rfl⟩⟩
    have h1 := mem_open_out H s.m1 (.resume r' b off) ⟨r', Or.inr ⟨b, off, rfl⟩⟩
    unfold step; simp only [hf]
    generalize Mem.step H s.m0 (Mem.Op.resume r' a off) = p0 at h0 ⊢
    generalize Mem.step H s.m1 (Mem.Op.resume r' b off) = p1 at h1 ⊢
    obtain ⟨m0', o0⟩ := p0
    obtain ⟨m1', o1⟩ := p1
    simp only at h0 h1 ⊢
    rcases h0 with ⟨c0, rfl⟩ | ⟨i0, rfl⟩ <;> rcases h1 with ⟨c1, rfl⟩ | ⟨i1, rfl⟩
    · simp [ofOut, toOut, bothResults, okU, okM, Res.isOk]
    · simp [ofOut, toOut, bothResults, okU, okM, Res.isOk]
    · simp [ofOut, toOut, bothResults, okU, okM, Res.isOk]
    · have hex : ∀ P : Bytes → Bytes → Prop,
          (∃ id0 id1, Mem.Out.okWriter i0 = Mem.Out.okWriter id0 ∧ Mem.Out.okWriter i1 = Mem.Out.okWriter id1 ∧ P id0 id1) ↔ P i0 i1 := by
        intro P
        constructor
        · rintro ⟨x, y, hx, hy, hp⟩
          cases hx; cases hy; exact hp
        · intro hp; exact ⟨i0, i1, rfl, rfl, hp⟩
      rw [hex]
      simp only [msize]
      generalize (Mem.step H m0' (Mem.Op.wSize r' i0)).2 = w0
      generalize (Mem.step H m1' (Mem.Op.wSize r' i1)).2 = w1
      cases w0 <;> cases w1 <;> dsimp only <;> split <;> simp_all [okU, okM, ofOut, Res.isOk]
  | _ => simp [openRepo] at hr

/-! Reads -/

def isDigestRead : Mem.Op → Bool
  | .getBlob .. | .getBlobRange .. | .getManifest .. | .resolveBlob .. | .resolveManifest .. => true
  | _ => false

def isTagRead : Mem.Op → Bool
  | .getTag .. | .resolveTag .. => true
  | _ => false

/-- A read leaves an `ocimem` member as it was (so it is immaterial that `step` does not thread the members
through reads, and that the sequential policy does not ask member 1 after a success). -/
theorem read_leaves_member (m : Mem.State) (op : Mem.Op) (h : isDigestRead op = true ∨ isTagRead op = true) :
    (Mem.step H m op).1 = m := by
  cases op <;> simp [isDigestRead, isTagRead] at h <;> simp only [Mem.step] <;> (repeat' split) <;> rfl

/-- **Digest reads are the union.** The unifier's answer to a digest-addressed read is a success iff one
member's answer is, and it is the answer of the member examined first (member 0 under the sequential policy,
whichever answers first under the concurrent one) if that is a success, otherwise the other member's answer. -/
theorem read_is_union_step (pol : Policy) (f : Bool) (s : UState) (op : Mem.Op) (hr : isDigestRead op = true) :
    (step H C pol f s op).1 = s ∧
    (okU (step H C pol f s op).2 = true ↔
      okM (Mem.step H s.m0 op).2 = true ∨ okM (Mem.step H s.m1 op).2 = true) ∧
    (step H C pol f s op).2 = .out
      (if pol = .sequential ∨ f = true
       then (if okM (Mem.step H s.m0 op).2 then (Mem.step H s.m0 op).2 else (Mem.step H s.m1 op).2)
       else (if okM (Mem.step H s.m1 op).2 then (Mem.step H s.m1 op).2 else (Mem.step H s.m0 op).2)) := by
  cases op <;> simp [isDigestRead] at hr <;>
    (unfold step; simp only [fan]
     generalize (Mem.step H s.m0 _).2 = o0
     generalize (Mem.step H s.m1 _).2 = o1
     cases pol <;> cases f <;> cases o0 <;> cases o1 <;>
       simp [ofOut, toOut, readFirst, okU, okM, Res.isOk])

/-- **Tag reads follow the tag rule** of the two members' answers … -/
theorem tag_read_is_tagRule_step (pol : Policy) (f : Bool) (s : UState) (op : Mem.Op) (hr : isTagRead op = true) :
    (step H C pol f s op).1 = s ∧
    (step H C pol f s op).2 =
      .out (toOut (tagRule outDigest (ofOut (Mem.step H s.m0 op).2) (ofOut (Mem.step H s.m1 op).2))) := by
  cases op <;> simp [isTagRead] at hr <;> (unfold step; simp [fan])

/-- … hence: a tag read succeeds iff some member has the tag and the two do not disagree on its digest, and a
successful answer is a member's answer. -/
theorem tag_read_step (pol : Policy) (f : Bool) (s : UState) (op : Mem.Op) (hr : isTagRead op = true) :
    (okU (step H C pol f s op).2 = true ↔
      (okM (Mem.step H s.m0 op).2 = true ∨ okM (Mem.step H s.m1 op).2 = true) ∧
      (okM (Mem.step H s.m0 op).2 = true → okM (Mem.step H s.m1 op).2 = true →
        outDigest (Mem.step H s.m0 op).2 = outDigest (Mem.step H s.m1 op).2)) ∧
    (okU (step H C pol f s op).2 = true →
      (step H C pol f s op).2 = .out (Mem.step H s.m0 op).2 ∨ (step H C pol f s op).2 = .out (Mem.step H s.m1 op).2) := by
  rw [(tag_read_is_tagRule_step H C pol f s op hr).2]
  generalize (Mem.step H s.m0 op).2 = o0
  generalize (Mem.step H s.m1 op).2 = o1
  cases o0 <;> cases o1 <;> simp only [ofOut, tagRule] <;> (try split) <;>
    simp_all [toOut, okU, okM, ofOut, Res.isOk]


/-- Writes that carry no upload ID: both members make the call itself. -/
theorem write_steps_both_plain (pol : Policy) (f : Bool) (s : UState) (op : Mem.Op)
    (hw : isWrite op = true) (hid : idOf op = none) :
    (step H C pol f s op).1.m0 = (Mem.step H s.m0 op).1 ∧
    (step H C pol f s op).1.m1 = (Mem.step H s.m1 op).1 := by
  have hf := fan_spec C op
  rw [hid] at hf
  have hl : Live s op := by cases op <;> simp [idOf] at hid <;> trivial
  exact write_steps_both H C pol f s op op op hw hl hf

/-- Writes on a composite upload ID (lawful codec): member 0 makes the call on the first half, member 1 the same
call, same arguments, on the second half. -/
theorem write_steps_both_id (hC : CodecLawful C) (pol : Policy) (f : Bool) (s : UState) (op : Mem.Op) (a b : Bytes)
    (hw : isWrite op = true) (hl : Live s op) (hid : idOf op = some (joinID C a b)) :
    (step H C pol f s op).1.m0 = (Mem.step H s.m0 (withID a op)).1 ∧
    (step H C pol f s op).1.m1 = (Mem.step H s.m1 (withID b op)).1 := by
  have hf := fan_spec C op
  rw [hid] at hf
  simp only [split_join C hC, Option.map_some] at hf
  exact write_steps_both H C pol f s op _ _ hw hl hf

end stepthms

/-! Witnesses: the hypotheses of the theorems of this section hold on non-trivial instances, and the
weaker-than-one-might-hope behaviours named above really occur. (`wH`: the identity as the hash; `escCodec`.) -/

def wH : Bytes → Bytes := fun b => b
def wr : Bytes := strBytes "a"
def wtag : Bytes := strBytes "v1"

/-- After `PushBlobChunked("a")` through the unifier over two empty members: one live writer. -/
def wS1 : UState := (step wH escCodec .sequential true (uinit false) (.pushChunked wr)).1
def wid : Bytes := joinID escCodec (Mem.freshID 0) (Mem.freshID 0)

/-- `write_steps_both`, `write_ok_iff_both_ok`, `write_out_is_combinator`, `write_steps_both_id`: a `Write` on the
live writer is a write with a live writer whose ID splits; it succeeds and changes both members. -/
example : isWrite (.wWrite wr wid [1, 2]) = true ∧ isAnswerWrite (.wWrite wr wid [1, 2]) = true ∧
    Live wS1 (.wWrite wr wid [1, 2]) ∧ idOf (.wWrite wr wid [1, 2]) = some wid ∧
    (fan escCodec (.wWrite wr wid [1, 2])).isSome = true ∧
    (step wH escCodec .sequential true wS1 (.wWrite wr wid [1, 2])).2 = .out (.okN 2) ∧
    (step wH escCodec .sequential true wS1 (.wWrite wr wid [1, 2])).1.m0 ≠ wS1.m0 ∧
    (step wH escCodec .sequential true wS1 (.wWrite wr wid [1, 2])).1.m1 ≠ wS1.m1 := by
  refine ⟨rfl, rfl, ?_, rfl, ?_, ?_, ?_, ?_⟩
  · unfold Live; decide
  all_goals decide

/-- `write_steps_both_plain`, `write_ok_iff_both_ok_open`: `PushBlobChunked` carries no upload ID, names its
repository, reaches both members and answers with the composite of their two IDs. -/
example : isWrite (.pushChunked wr) = true ∧ idOf (.pushChunked wr) = none ∧ openRepo (.pushChunked wr) = some wr ∧
    (fan escCodec (.pushChunked wr)).isSome = true ∧
    (step wH escCodec .sequential true (uinit false) (.pushChunked wr)).2 = .out (.okWriter wid) := by
  refine ⟨rfl, rfl, rfl, ?_, ?_⟩ <;> decide

/-- `write_not_fanned`: an ID that does not decode; a `Commit` on a writer nobody holds. -/
example : (fan escCodec (.resume wr [7] 0)).isNone = true ∧ ¬ Live (uinit false) (.wCommit wr wid []) := by
  refine ⟨by decide, ?_⟩
  unfold Live; decide

/-- Member 0 has the tag `v1` in repository `a`, member 1 has the repository without the tag. -/
def wM0 : Mem.State := ⟨false, [(wr, ⟨[(wtag, ⟨[], [], 0⟩)], [], [], []⟩)], 0⟩
def wM1 : Mem.State := ⟨false, [(wr, Mem.emptyRepo)], 0⟩

/-- **No rollback** (`one_sided_delete`): `DeleteTag` through the unifier when only member 0 has the tag. Member 0's
delete succeeds, member 1's fails, the unifier reports the failure (`write_ok_iff_both_ok`) — and member 0 has lost
its tag (`write_steps_both`): "success only if both" is about the ANSWER, the members are both stepped regardless. -/
example :
    let s : UState := ⟨wM0, wM1, []⟩
    let op : Mem.Op := .deleteTag wr wtag
    okM (Mem.step wH s.m0 op).2 = true ∧ okM (Mem.step wH s.m1 op).2 = false ∧
    okU (step wH escCodec .sequential true s op).2 = false ∧
    (step wH escCodec .sequential true s op).1.m0 ≠ s.m0 ∧
    isTagRead (.resolveTag wr wtag) = true ∧
    -- before the delete the tag read through the unifier gives member 0's answer (`tag_read_step`)
    (step wH escCodec .sequential true s (.resolveTag wr wtag)).2 = .out (Mem.step wH s.m0 (.resolveTag wr wtag)).2 ∧
    okU (step wH escCodec .sequential true s (.resolveTag wr wtag)).2 = true := by
  decide

/-- The same upload `u` of repository `a`, holding one byte on member 0 and nothing on member 1. -/
def wU0 : Mem.State := ⟨false, [(wr, ⟨[], [], [], [([117], ⟨[1], -1, false, none⟩)]⟩)], 0⟩
def wU1 : Mem.State := ⟨false, [(wr, ⟨[], [], [], [([117], ⟨[], -1, false, none⟩)]⟩)], 0⟩

/-- **A resume is stricter than "iff both"** (`write_ok_iff_both_ok_open`): both members resume the upload, the
sizes differ, the unifier fails. -/
example :
    let s : UState := ⟨wU0, wU1, []⟩
    let op : Mem.Op := .resume wr (joinID escCodec [117] [117]) (-1)
    openRepo op = some wr ∧ (fan escCodec op).isSome = true ∧
    okM (Mem.step wH s.m0 (.resume wr [117] (-1))).2 = true ∧ okM (Mem.step wH s.m1 (.resume wr [117] (-1))).2 = true ∧
    msize wH (Mem.step wH s.m0 (.resume wr [117] (-1))).1 wr [117] = 1 ∧
    msize wH (Mem.step wH s.m1 (.resume wr [117] (-1))).1 wr [117] = 0 ∧
    (step wH escCodec .sequential true s op).2 = .out (.err "ERR") := by
  decide

/-- Only member 1 has the blob `[9]` (content `[5, 6]`) in repository `a`. -/
def wB1 : Mem.State := ⟨false, [(wr, ⟨[], [], [([9], ⟨[116], [5, 6], [], []⟩)], []⟩)], 0⟩

/-- `read_is_union_step`, `read_leaves_member`: a digest read of content only member 1 has succeeds under both
policies and whichever member answers first, with member 1's answer; member 0's own answer is an error. -/
example :
    let s : UState := ⟨wM1, wB1, []⟩
    let op : Mem.Op := .getBlob wr [9]
    isDigestRead op = true ∧ okM (Mem.step wH s.m0 op).2 = false ∧ okM (Mem.step wH s.m1 op).2 = true ∧
    (∀ pol f, (step wH escCodec pol f s op).2 = .out (Mem.step wH s.m1 op).2) := by
  refine ⟨rfl, by decide, by decide, ?_⟩
  intro pol f; cases pol <;> cases f <;> decide

end OciModel.Props.C15
