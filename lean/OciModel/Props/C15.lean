/-
C15 — Unified registry is the union view and replicates every write.

The combinators of `ociunify` are modelled in `OciModel.Unify`; which method is
built from which combinator is regenerated from the source on every run
(`OciModel.Generated.Unify`) and checked here by `decide`.

Trusted base of this file: the translator's reading of the five source files;
base64url and encoding/json as an abstract codec with the stated round-trip
hypothesis (`CodecLawful`; for the real codec it holds for IDs that are valid
UTF-8, which is what registries issue); Go's `slices.SortFunc` sorts.
-/
import OciModel.Unify
import OciModel.UnifyLemmas
import OciModel.Generated.Unify
import OciModel.Generated.Funcs

namespace OciModel.Props.C15
open OciModel OciModel.Unify

/-! ### 1. Digest-addressed reads: the union, under both policies -/

/-- A read succeeds exactly when a member has the content, and the answer is a
member's answer; for every policy and every order of the members' answers. -/
theorem read_union {α} (pol : Policy) (a0 a1 r : Res α) (hr : r ∈ readAllowed pol a0 a1) :
    (r.isOk = true ↔ a0.isOk = true ∨ a1.isOk = true) ∧ (r = a0 ∨ r = a1) := by
  cases pol <;> cases a0 <;> cases a1 <;> simp [readAllowed, readFirst] at hr <;>
    (try rcases hr with rfl | rfl) <;> (try subst hr) <;> simp [Res.isOk]

/-- The two policies give `≈` results whenever the members' successful answers
describe the same content (same digest ⇒ same size and bytes; media types may
differ and are not compared). -/
theorem policies_agree {α κ} (key : α → κ) (a0 a1 : Res α)
    (hcontent : ∀ x y, a0 = .ok x → a1 = .ok y → key x = key y)
    (r r' : Res α) (hr : r ∈ readAllowed .concurrent a0 a1) (hr' : r' ∈ readAllowed .sequential a0 a1) :
    Res.equiv key r r' := by
  cases a0 <;> cases a1 <;> simp [readAllowed, readFirst] at hr hr' <;> subst hr' <;>
    (try rcases hr with rfl | rfl) <;> (try subst hr) <;> simp [Res.equiv]
  · rename_i x y
    exact (hcontent x y rfl rfl).symm

/-- The hypothesis is satisfiable with two successful, differently labelled answers. -/
example : ∃ (a0 a1 : Res (String × Nat)), a0 ≠ a1 ∧ a0.isOk ∧ a1.isOk ∧
    ∀ x y, a0 = .ok x → a1 = .ok y → x.2 = y.2 :=
  ⟨.ok ("text/a", 7), .ok ("text/b", 7), by decide, rfl, rfl, by
    intro x y h0 h1; cases h0; cases h1; rfl⟩

/-! ### 2. Tags -/

/-- Both members have the tag: the answer is member 0's when the digests agree
and an error when they differ — never a silent choice. -/
theorem tag_rule_both {α} (dig : α → Bytes) (x y : α) :
    (dig x = dig y → tagRule dig (.ok x) (.ok y) = .ok x) ∧
    (dig x ≠ dig y → (tagRule dig (.ok x) (.ok y)).isOk = false) := by
  constructor <;> intro h <;> simp [tagRule, h, Res.isOk]

/-- Exactly one member has the tag: that member's answer. Neither: an error. -/
theorem tag_rule_one {α} (dig : α → Bytes) (x : α) (e e' : String) :
    tagRule dig (.ok x) (.err e) = .ok x ∧ tagRule dig (.err e) (.ok x) = .ok x ∧
    tagRule dig (.err e) (.err e') = (.err e : Res α) := by
  simp [tagRule]

/-- Summary: a tag read succeeds iff some member has the tag and the members do
not disagree; a successful answer is a member's answer. -/
theorem tag_rule {α} (dig : α → Bytes) (r0 r1 : Res α) :
    ((tagRule dig r0 r1).isOk = true ↔
      (r0.isOk = true ∨ r1.isOk = true) ∧ ∀ x y, r0 = .ok x → r1 = .ok y → dig x = dig y) ∧
    ((tagRule dig r0 r1).isOk = true → tagRule dig r0 r1 = r0 ∨ tagRule dig r0 r1 = r1) := by
  cases r0 <;> cases r1 <;> simp [tagRule, Res.isOk]
  rename_i x y
  by_cases h : dig x = dig y <;> simp [h]

/-! ### 3. Listings -/

section lists
variable {α : Type} (cmp : α → α → Ordering) [Std.TransCmp cmp]

/-- `mergeIter` yields a strictly ascending (hence duplicate-free) list that
contains nothing but members' items, and a representative of every item; for
ANY two inputs (they need not be sorted). -/
theorem merge_sorted_union_general (e0 e1 : Events α)
    (hnf : ¬ (isNameUnknown e0.err = true ∧ isNameUnknown e1.err = true)) :
    StrictAsc cmp (mergeIter cmp e0 e1).items ∧
    (∀ x ∈ (mergeIter cmp e0 e1).items, x ∈ e0.items ∨ x ∈ e1.items) ∧
    (∀ x, x ∈ e0.items ∨ x ∈ e1.items → ∃ y ∈ (mergeIter cmp e0 e1).items, cmp y x = .eq) := by
  have hif : (isNameUnknown e0.err && isNameUnknown e1.err) = false := by
    cases h0 : isNameUnknown e0.err <;> cases h1 : isNameUnknown e1.err <;> simp_all
  simp only [mergeIter, hif, Bool.false_eq_true, if_false]
  refine ⟨strictAsc_compactBy _ (asc_sortBy _), ?_, ?_⟩
  · intro x hx
    have := (mem_sortBy x _).1 (mem_compactBy _ _ hx)
    simpa using this
  · intro x hx
    apply compactBy_covers
    rw [mem_sortBy]; simpa using hx

/-- The statement of the property: for an order whose `eq` is equality (byte
strings under `strings.Compare`), the listing is the strictly ascending,
duplicate-free union of the members' listings. -/
theorem merge_sorted_union [Std.LawfulEqCmp cmp] (e0 e1 : Events α)
    (hnf : ¬ (isNameUnknown e0.err = true ∧ isNameUnknown e1.err = true)) :
    StrictAsc cmp (mergeIter cmp e0 e1).items ∧
    ∀ x, x ∈ (mergeIter cmp e0 e1).items ↔ x ∈ e0.items ∨ x ∈ e1.items := by
  obtain ⟨h1, h2, h3⟩ := merge_sorted_union_general cmp e0 e1 hnf
  refine ⟨h1, fun x => ⟨h2 x, fun hx => ?_⟩⟩
  obtain ⟨y, hy, hyx⟩ := h3 x hx
  rwa [← Std.LawfulEqCmp.eq_of_compare hyx]

/-- Because a strictly ascending list is determined by its members, the result
does not depend on how `slices.SortFunc` arranges equal elements: any list with
the two properties above IS the model's output. -/
theorem merge_unique [Std.LawfulEqCmp cmp] (e0 e1 : Events α) (out : List α)
    (hnf : ¬ (isNameUnknown e0.err = true ∧ isNameUnknown e1.err = true))
    (hs : StrictAsc cmp out) (hm : ∀ x, x ∈ out ↔ x ∈ e0.items ∨ x ∈ e1.items) :
    out = (mergeIter cmp e0 e1).items := by
  obtain ⟨h1, h2⟩ := merge_sorted_union cmp e0 e1 hnf
  exact strictAsc_unique out _ hs h1 (fun x => by rw [hm, h2])

omit [Std.TransCmp cmp] in
/-- Errors: a repository unknown to both members is reported as such, with no
items; a member that does not know the repository — it answered NAME_UNKNOWN and delivered nothing — is
otherwise ignored; any other error is delivered (member 0's first), after the items. F34: a member that
delivered items and THEN answered NAME_UNKNOWN (its repository vanished while it was being listed) has
failed like any other: its error is delivered. -/
theorem merge_errors (e0 e1 : Events α) :
    (isNameUnknown e0.err = true → isNameUnknown e1.err = true →
      mergeIter cmp e0 e1 = ⟨[], e0.err⟩) ∧
    (isNameUnknown e0.err = true → isNameUnknown e1.err = false →
      (e0.items = [] → (mergeIter cmp e0 e1).err = e1.err) ∧
      (e0.items ≠ [] → (mergeIter cmp e0 e1).err = e0.err)) ∧
    (isNameUnknown e0.err = false → isNameUnknown e1.err = true →
      (∀ e, e0.err = some e → (mergeIter cmp e0 e1).err = some e) ∧
      (e0.err = none → e1.items = [] → (mergeIter cmp e0 e1).err = none) ∧
      (e0.err = none → e1.items ≠ [] → (mergeIter cmp e0 e1).err = e1.err)) ∧
    (isNameUnknown e0.err = false → isNameUnknown e1.err = false →
      (∀ e, e0.err = some e → (mergeIter cmp e0 e1).err = some e) ∧
      (e0.err = none → (mergeIter cmp e0 e1).err = e1.err)) := by
  refine ⟨?_, ?_, ?_, ?_⟩ <;> intro h0 h1
  · simp [mergeIter, h0, h1]
  · constructor
    · intro hi; simp [mergeIter, h0, h1, hi]
    · intro hi
      cases hc : e0.err with
      | none => rw [hc] at h0; simp [isNameUnknown] at h0
      | some c => rw [hc] at h0; simp [mergeIter, h0, h1, hi, hc]
  · refine ⟨?_, ?_, ?_⟩
    · intro e he; rw [he] at h0; simp [mergeIter, h0, h1, he]
    · intro he hi; rw [he] at h0; simp [mergeIter, h0, h1, he, hi]
    · intro he hi; rw [he] at h0; simp [mergeIter, h0, h1, he, hi]
  · constructor
    · intro e he; rw [he] at h0; simp [mergeIter, h0, h1, he]
    · intro he; rw [he] at h0; simp [mergeIter, h0, h1, he]

omit [Std.TransCmp cmp] in
/-- **Never a silently shortened union (F34).** If a member delivered at least one item and then an error —
whatever the error, NAME_UNKNOWN included — the merged listing ends in an error. -/
theorem merge_never_silently_short (e0 e1 : Events α)
    (h : (e0.items ≠ [] ∧ e0.err.isSome = true) ∨ (e1.items ≠ [] ∧ e1.err.isSome = true)) :
    (mergeIter cmp e0 e1).err.isSome = true := by
  rcases h with ⟨hi, he⟩ | ⟨hi, he⟩
  · obtain ⟨c, hc⟩ := Option.isSome_iff_exists.mp he
    cases hn0 : isNameUnknown e0.err <;> cases hn1 : isNameUnknown e1.err <;>
      (rw [hc] at hn0; simp [mergeIter, hn0, hn1, hi, hc])
  · obtain ⟨c, hc⟩ := Option.isSome_iff_exists.mp he
    cases hn0 : isNameUnknown e0.err <;> cases hn1 : isNameUnknown e1.err <;>
      (rw [hc] at hn1; cases h0 : e0.err <;> (rw [h0] at hn0; simp_all [mergeIter, isNameUnknown]) <;>
        (try (split <;> simp_all)))

end lists

/-- The calls made to the consumer are a prefix of "items, then the error": the
error comes last and at most once, and nothing is delivered after it. -/
theorem consumer_sees_prefix {α} (accept : List (Ev α) → Bool) (e : Events α) :
    feed accept [] e.calls <+: e.calls :=
  feed_prefix _ _ _

/-- Call number `i` is made exactly when the consumer accepted every earlier
call: iteration stops as soon as the consumer declines. -/
theorem consumer_stop {α} (accept : List (Ev α) → Bool) (e : Events α) (i : Nat) (hi : i < e.calls.length) :
    i < (feed accept [] e.calls).length ↔ ∀ j < i, accept (histAt [] e.calls j) = true :=
  feed_length _ _ _ _ hi

/-- `List UInt8` under core `compare` (= Go's `strings.Compare` on the bytes)
meets the hypotheses of the listing theorems. -/
example : StrictAsc cmpBytes (mergeIter cmpBytes ⟨[[2], [1], [2]], none⟩ ⟨[[3], [1]], some "NAME_UNKNOWN"⟩).items ∧
    -- F34: the second member delivered items before its NAME_UNKNOWN, so the union ends with that error …
    (mergeIter cmpBytes ⟨[[2], [1], [2]], none⟩ ⟨[[3], [1]], some "NAME_UNKNOWN"⟩) = ⟨[[1], [2], [3]], some "NAME_UNKNOWN"⟩ ∧
    -- … while a member that delivered nothing simply does not know the repository
    (mergeIter cmpBytes ⟨[[2], [1], [2]], none⟩ ⟨[], some "NAME_UNKNOWN"⟩) = ⟨[[1], [2]], none⟩ := by
  have : Std.TransCmp cmpBytes := inferInstanceAs (Std.TransCmp (compare : Bytes → Bytes → Ordering))
  have : Std.LawfulEqCmp cmpBytes := inferInstanceAs (Std.LawfulEqCmp (compare : Bytes → Bytes → Ordering))
  exact ⟨(merge_sorted_union cmpBytes _ _ (by decide)).1, by decide, by decide⟩

/-! ### 4. Writes -/

/-- `bothResults` reports success only if both members succeeded. -/
theorem bothResults_ok_iff {α} (r0 r1 : Res α) :
    (bothResults r0 r1).isOk = true ↔ r0.isOk = true ∧ r1.isOk = true := by
  cases r0 <;> cases r1 <;> simp [bothResults, Res.isOk]

/-- So does the test used by PushBlob and PushManifest. -/
theorem eqOk_ok_iff {α} (r0 r1 : Res α) :
    (eqOk r0 r1).isOk = true ↔ r0.isOk = true ∧ r1.isOk = true := by
  cases r0 <;> cases r1 <;> simp [eqOk, Res.isOk]

/-- A successful combined answer is member 0's answer. -/
theorem write_answer {α} (r0 r1 : Res α) :
    ((bothResults r0 r1).isOk = true → bothResults r0 r1 = r0) ∧
    ((eqOk r0 r1).isOk = true → eqOk r0 r1 = r0) := by
  cases r0 <;> cases r1 <;> simp [bothResults, eqOk, Res.isOk]

/-! ### 5. Composite upload IDs -/

/-- The stated hypothesis on base64url / JSON (trusted). -/
def CodecLawful (C : Codec) : Prop :=
  (∀ x, C.b64dec (C.b64enc x) = some x) ∧ (∀ l, C.jsonDec (C.jsonEnc l) = some l)

/-- Resuming with the ID the unified writer reported reaches the same two
member uploads. -/
theorem split_join (C : Codec) (h : CodecLawful C) (id0 id1 : Bytes) :
    splitID C (joinID C id0 id1) = some (id0, id1) := by
  simp [splitID, joinID, h.1, h.2]

/-- A codec satisfying the hypothesis (base64 the identity, the list coded by
escaping: every byte `c` as `1 c`, every end of string as `0`). -/
def escEnc : List Bytes → Bytes
  | [] => []
  | b :: rest => b.flatMap (fun c => [1, c]) ++ 0 :: escEnc rest

def escDecAux : Bytes → Bytes → Option (List Bytes)
  | cur, [] => if cur.isEmpty then some [] else none
  | cur, x :: rest =>
    if x = 0 then (escDecAux [] rest).map (cur.reverse :: ·)
    else match rest with
      | [] => none
      | c :: rest' => if x = 1 then escDecAux (c :: cur) rest' else none

def escCodec : Codec := ⟨id, some, escEnc, escDecAux []⟩

theorem escDecAux_enc (b : Bytes) (t : Bytes) (cur : Bytes) :
    escDecAux cur (b.flatMap (fun c => [1, c]) ++ 0 :: t) =
      (escDecAux [] t).map ((cur.reverse ++ b) :: ·) := by
  induction b generalizing cur with
  | nil => cases t <;> simp [escDecAux]
  | cons c cs ih => simp [escDecAux, ih]

theorem escDec_enc (l : List Bytes) : escDecAux [] (escEnc l) = some l := by
  induction l with
  | nil => simp [escEnc, escDecAux]
  | cons b rest ih => simp [escEnc, escDecAux_enc, ih]

example : CodecLawful escCodec := ⟨fun _ => rfl, escDec_enc⟩

/-! ### 6. Replication keeps the members equal -/

/-- Two members related by `R` stay related when every write is applied to both
with related arguments — whatever the machine. -/
theorem members_stay_related (M : Machine) (R : M.σ → M.σ → Prop) (Rop : M.Op → M.Op → Prop)
    (hstep : ∀ s0 s1 o0 o1, R s0 s1 → Rop o0 o1 → R (M.step s0 o0).1 (M.step s1 o1).1)
    (s : M.σ × M.σ) (hs : R s.1 s.2) (hist : List (M.Op × M.Op)) (hh : ∀ p ∈ hist, Rop p.1 p.2) :
    R (runPair M s hist).1 (runPair M s hist).2 := by
  induction hist generalizing s with
  | nil => exact hs
  | cons p rest ih =>
    obtain ⟨o0, o1⟩ := p
    simp only [runPair]
    apply ih
    · exact hstep _ _ _ _ hs (hh (o0, o1) (by simp))
    · intro q hq; exact hh q (by simp [hq])

/-- Two copies of a deterministic machine that start equal are equal after any
history of writes applied to both with the same arguments, and gave the same
outputs at every step. -/
theorem members_stay_equal (M : Machine) (s : M.σ) (hist : List (M.Op × M.Op)) (hh : ∀ p ∈ hist, p.1 = p.2) :
    (runPair M (s, s) hist).1 = (runPair M (s, s) hist).2 :=
  members_stay_related M (· = ·) (· = ·) (by intro s0 s1 o0 o1 h1 h2; rw [h1, h2]) (s, s) rfl hist hh

section mem
variable (H : Bytes → Bytes) (C : Codec)

/-- In the unifier over two `ocimem` models every operation either leaves both
members as they were or steps both, each with its half of the fanned-out call. -/
theorem step_members (pol : Policy) (f : Bool) (s : UState) (op : Mem.Op) :
    ((step H C pol f s op).1.m0 = s.m0 ∧ (step H C pol f s op).1.m1 = s.m1) ∨
    ∃ op0 op1, fan C op = some (op0, op1) ∧
      (step H C pol f s op).1.m0 = (Mem.step H s.m0 op0).1 ∧
      (step H C pol f s op).1.m1 = (Mem.step H s.m1 op1).1 := by
  unfold step
  split
  · split <;> simp
  · rename_i op0 op1 hfan
    simp only
    split <;> (repeat' split) <;>
      first
        | exact Or.inl ⟨rfl, rfl⟩
        | exact Or.inr ⟨op0, op1, hfan, rfl, rfl⟩

/-- An operation whose two halves are the same call (everything except a
composite upload ID naming two different member uploads). -/
def Diagonal (op : Mem.Op) : Prop := ∀ op0 op1, fan C op = some (op0, op1) → op0 = op1

/-- The full statement for the executable model: two equal `ocimem` members are
observably equal after ANY history of operations through the unifier.

It is NOT claimed: it fails for histories in which the client forges composite
upload IDs that share a member upload (`ocimem` accepts unknown IDs on resume):
resume `[A,B]`, resume `[A,C]`, write `x` through the first, `y` through the
second, commit the second with the digest of `y` — member 0 refuses (upload `A`
holds `xy`), member 1 commits (upload `C` holds `y`); the unifier reports the
failure but member 1 now has a blob member 0 lacks. The model and the real
code agree on this history (replay kept in `findings/`). IDs issued by the
unifier never share a member upload; for those, and for composite IDs naming
disjoint member uploads, the correspondence check compares the two members'
observable state after every history. What is proved below is the part in which
both halves of every fanned-out call are the same call. -/
def mem_members_stay_equal_statement : Prop :=
  ∀ (pol : Policy) (s : UState), s.m0 = s.m1 → ∀ ops : List Mem.Op,
    obs (run H C pol s ops).m0 = obs (run H C pol s ops).m1

/-- `members_stay_equal` for the executable model: two equal `ocimem` members
remain equal (hence observably equal) under any history of operations through
the unifier (reads, pushes, mounts, deletes, chunked uploads with resume) whose
composite upload IDs name the same upload in both members — which is what the
unified writer of equal model members reports — under either policy. -/
theorem mem_members_stay_equal_partial (pol : Policy) (s : UState) (hs : s.m0 = s.m1) (ops : List Mem.Op)
    (hd : ∀ op ∈ ops, Diagonal C op) :
    (run H C pol s ops).m0 = (run H C pol s ops).m1 := by
  induction ops generalizing s with
  | nil => exact hs
  | cons op rest ih =>
    simp only [run]
    apply ih
    · rcases step_members H C pol true s op with ⟨h0, h1⟩ | ⟨op0, op1, hf, h0, h1⟩
      · rw [h0, h1, hs]
      · have := hd op (by simp) op0 op1 hf
        rw [h0, h1, hs, this]
    · intro o ho; exact hd o (by simp [ho])

/-- The IDs the unified writer reports over equal members ARE diagonal: a fresh
chunked upload through the unifier over equal members yields `joinID id id`. -/
theorem fresh_upload_id_diagonal (pol : Policy) (f : Bool) (s : UState) (hs : s.m0 = s.m1) (r : Bytes) (id : Bytes)
    (h : (step H C pol f s (.pushChunked r)).2 = .out (.okWriter id)) :
    ∃ a, id = joinID C a a := by
  unfold step at h
  simp only [fan] at h
  rw [hs] at h
  split at h
  · rename_i id0 id1 h0 h1
    simp only [UOut.out.injEq, Mem.Out.okWriter.injEq] at h
    have : id0 = id1 := by
      have := h0.symm.trans h1
      simpa using this
    exact ⟨id0, by rw [← h, this]⟩
  · rename_i hne
    simp only [UOut.out.injEq] at h
    generalize (Mem.step H s.m1 (Mem.Op.pushChunked r)).snd = o at h hne
    cases o <;> simp_all [ofOut, bothResults, toOut]

/-- Operations that carry no upload ID are diagonal; so are resumptions and
writer calls with an ID of the form the unified writer of equal members reports. -/
example (r t d : Bytes) (desc : Mem.Desc) : Diagonal C (.pushBlob r desc d) ∧ Diagonal C (.deleteTag r t) ∧
    Diagonal C (.pushChunked r) := by
  refine ⟨?_, ?_, ?_⟩ <;> intro a b h <;> simp [fan] at h <;> rw [← h.1, ← h.2]

example (h : CodecLawful C) (r id d : Bytes) : Diagonal C (.wWrite r (joinID C id id) d) := by
  intro a b hf
  simp [fan, split_join C h] at hf
  rw [← hf.1, ← hf.2]

end mem

/-! ### 7. Obligations on the facts regenerated from the source -/

open OciModel.Generated.Unify in
/-- The helper functions the model transcribes (bothResults, both, runRead,
runReadWithCancel, runReadSequential, runReadConcurrent, runReadBlobReader,
blobReader.Close, t2.close, mergeIter, compareDescriptor) still have the text
they were transcribed from. -/
theorem generated_helpers_pinned : helpers.all (·.2) = true ∧ helpers.length = 12 := by decide

def rowsOf (recv : String) : List Generated.Unify.Row := Generated.Unify.table.filter (·.recv = recv)

def findRow (recv method : String) : Option Generated.Unify.Row :=
  (rowsOf recv).find? (·.method = method)

/-- The unifier implements every method of `ociregistry.Interface` itself (the
embedded nil `*Funcs` is never reached), once. -/
theorem generated_covers_interface :
    (∀ m ∈ Generated.Funcs.interfaceMethods, m ∈ (rowsOf "unifier").map (·.method)) ∧
    ((rowsOf "unifier").map (·.method)).Nodup ∧
    (∀ m ∈ ["Write", "Close", "Cancel", "Commit", "Size", "ChunkSize", "ID"], m ∈ (rowsOf "unifiedBlobWriter").map (·.method)) := by
  decide

/-- Every Writer and Deleter method, and every mutating method of the unified
blob writer, calls the same method on BOTH members (`both`, or the two pipes of
PushBlob) with its own arguments, and combines the two answers with a
success-only-if-both rule (`bothResults` or `eqOk`). -/
def writeRowOk (r : Generated.Unify.Row) : Bool :=
  (r.callee == "both" || r.callee == "pipe2") &&
  r.member == r.method &&
  (r.memberRecv == (if r.recv == "unifier" then "member" else "w.w[i]")) &&
  (r.args == r.params ||
    -- the upload ID is split: each member gets its own half
    (r.method == "PushBlobChunkedResume" && r.args == ["repo", "ids[i]", "offset", "chunkSize"]) ||
    -- the content is teed into one pipe per member
    (r.method == "PushBlob" && r.args == ["repo", "desc", "pipe"])) &&
  (r.combine == "bothResults" || r.combine == "eqOk" || r.combine == "pipe2:eqOk" ||
    r.combine == "chunked:bothResults" || r.combine == "resume:splitID,bothResults,sameSize" ||
    r.combine == "write:bothResults")

def writeMethods : List (String × String) :=
  [("unifier", "PushBlob"), ("unifier", "PushBlobChunked"), ("unifier", "PushBlobChunkedResume"),
   ("unifier", "MountBlob"), ("unifier", "PushManifest"),
   ("unifier", "DeleteBlob"), ("unifier", "DeleteManifest"), ("unifier", "DeleteTag"),
   ("unifiedBlobWriter", "Write"), ("unifiedBlobWriter", "Close"), ("unifiedBlobWriter", "Cancel"),
   ("unifiedBlobWriter", "Commit")]

theorem generated_writes_go_to_both :
    ∀ p ∈ writeMethods, ((findRow p.1 p.2).map writeRowOk) = some true := by decide

/-- Which success-only-if-both rule each write uses (so that `step` applies the
right one). -/
theorem generated_write_combinators :
    (["PushBlob", "PushManifest"].map fun m => (findRow "unifier" m).map (·.combine)) = [some "pipe2:eqOk", some "eqOk"] ∧
    (["MountBlob", "DeleteBlob", "DeleteManifest", "DeleteTag"].all fun m =>
      (findRow "unifier" m).map (·.combine) == some "bothResults") = true ∧
    (["Close", "Cancel", "Commit"].all fun m =>
      (findRow "unifiedBlobWriter" m).map (·.combine) == some "bothResults") = true ∧
    (findRow "unifiedBlobWriter" "ID").map (·.combine) = some "local:joinID" ∧
    (findRow "unifiedBlobWriter" "Size").map (·.combine) = some "local:size" := by decide

/-- Every digest-addressed read is a first-success read of the same member
method with the same arguments, run under the closure's own context. -/
theorem generated_reads_first_success :
    ∀ p ∈ [("GetBlob", "runReadBlobReader"), ("GetBlobRange", "runReadBlobReader"), ("GetManifest", "runReadBlobReader"),
           ("ResolveBlob", "runRead"), ("ResolveManifest", "runRead")],
      (findRow "unifier" p.1).map (fun r =>
        r.combine == "firstSuccess" && r.member == p.1 && r.args == r.params && r.memberRecv == "member" &&
        r.callee == p.2) = some true := by decide

/-- Tag reads ask both members and apply the tag rule. -/
theorem generated_tags_use_rule :
    ∀ m ∈ ["GetTag", "ResolveTag"],
      (findRow "unifier" m).map (fun r =>
        r.combine == "tagRule" && r.callee == "both" && r.member == m && r.args == r.params && r.memberRecv == "member") = some true := by
  decide

/-- Listings ask both members and merge; names by `strings.Compare`, referrers by digest. -/
theorem generated_lists_merge :
    (∀ m ∈ ["Repositories", "Tags"],
      (findRow "unifier" m).map (fun r =>
        r.combine == "mergeIter:strings.Compare" && r.callee == "both" && r.member == m && r.args == r.params) = some true) ∧
    (findRow "unifier" "Referrers").map (fun r =>
        r.combine == "mergeIter:compareDescriptor" && r.callee == "both" && r.member == "Referrers" && r.args == r.params) = some true := by
  decide

end OciModel.Props.C15
