/-
C19 — Credential lookup from config files is deterministic with fixed precedence.

Property theorems about the model in `OciModel/AuthFile.lean` (+ `OciModel/Base64.lean`);
the proofs assemble the lemmas of `OciModel/AuthFileLemmas.lean`.

Vocabulary. `orig : List (Bytes × Entry)` is the parsed `auths` object, read by first match
(`orig.lookup`), so it is a finite map. `decodeWith orig v` is `decodeConfigFile` ranging over
the map in the order `v`; `none` means the load fails. `Admissible orig v`: every key of the
document occurs exactly once in `v`; other keys (hosts the loop itself inserts) may occur
anywhere. `tableLookup m h` is the part of `EntryForRegistry` that reads the table;
`entryForRegistry` is the whole method with the helper runner as a parameter. Errors carry no
text in the model: failing is `none`.
-/
import OciModel.AuthFileLemmas
import OciModel.Generated.AuthFile
namespace OciModel.Props.C19
open OciModel OciModel.AuthFile

/-! ### Base64 and `decodeAuth` -/

/-- Go's `StdEncoding` decodes what it encoded, for every byte string. -/
theorem decode_encode (b : Bytes) : Base64.decode (Base64.encode b) = some b :=
  Base64.decode_encode b

/-- A base64 `auth` field decodes to exactly the encoded user and password. -/
theorem decodeAuth_roundtrip (user pass : Bytes) (hu : user ≠ []) (hc : (58 : UInt8) ∉ user)
    (h0 : pass.head? ≠ some 0) (h1 : pass.getLast? ≠ some 0) :
    decodeAuth (Base64.encode (user ++ 58 :: pass)) = some (user, pass) := by
  simp [decodeAuth, Base64.decode_encode, cutColon_append user pass hc, hu, trimNul_id h0 h1]

/-- user "u:" is impossible (58 = ':'), the password may be empty or contain ':' and inner NULs. -/
example : ([117] : Bytes) ≠ [] ∧ (58 : UInt8) ∉ ([117] : Bytes) ∧
    ([58, 0, 112] : Bytes).head? ≠ some 0 ∧ ([58, 0, 112] : Bytes).getLast? ≠ some 0 := by decide
example : decodeAuth (Base64.encode ([117] ++ 58 :: [58, 0, 112])) = some ([117], [58, 0, 112]) := by
  decide
/-- "dTpw" = base64("u:p"); a trailing NUL in the password is trimmed (the side condition
is needed); no colon, empty user and bad base64 are rejected. -/
example : decodeAuth [100, 84, 112, 119] = some ([117], [112]) := by decide
example : decodeAuth (Base64.encode [117, 58, 0, 112, 0, 0]) = some ([117], [112]) := by decide
example : decodeAuth (Base64.encode [117, 112]) = none := by decide
example : decodeAuth (Base64.encode [58, 112]) = none := by decide
example : decodeAuth [100, 84, 112] = none := by decide
/-- `\n` inside the text is skipped, as Go's decoder does. -/
example : decodeAuth [100, 84, 10, 112, 119, 13, 10] = some ([117], [112]) := by decide

/-! ### The loop over the map: order independence -/

/-- Visiting a host that the loop itself inserted changes no lookup (so it does not matter
whether, or when, Go's `range` produces entries created during the iteration). -/
theorem revisit_derived_noop (orig : List (Bytes × Entry)) (S : List Bytes) (m : Auths) (k : Bytes)
    (hI : Inv orig S m) (hk : orig.lookup k = none) :
    ∃ m', visit m k = some m' ∧ ∀ h, m'.lookup h = m.lookup h := visit_nonorig hI hk

/-- Main theorem: for any two admissible visiting sequences the two loads are equivalent —
both fail, or both succeed and every host looks up to the same result (the same
`ConfigEntry`, or failure for both). -/
theorem decode_order_independent (orig : List (Bytes × Entry)) (v₁ v₂ : List Bytes)
    (h₁ : Admissible orig v₁) (h₂ : Admissible orig v₂) :
    LoadEquiv (decodeWith orig v₁) (decodeWith orig v₂) :=
  decodeWith_equiv orig v₁ v₂ h₁.1 (h₁.perm h₂)

/-- The same for partial passes: only the multiset of document keys visited matters. -/
theorem decode_order_independent_perm (orig : List (Bytes × Entry)) (v₁ v₂ : List Bytes)
    (hnd : (origPart orig v₁).Nodup) (hp : (origPart orig v₁).Perm (origPart orig v₂)) :
    LoadEquiv (decodeWith orig v₁) (decodeWith orig v₂) := decodeWith_equiv orig v₁ v₂ hnd hp

/-- … and therefore the whole of `EntryForRegistry`, helpers included. -/
theorem entry_order_independent (orig : List (Bytes × Entry)) (v₁ v₂ : List Bytes)
    (h₁ : Admissible orig v₁) (h₂ : Admissible orig v₂) (m₁ m₂ : Auths)
    (e₁ : decodeWith orig v₁ = some m₁) (e₂ : decodeWith orig v₂ = some m₂)
    (store : Bytes) (helpers : List (Bytes × Bytes)) (run : Runner) (host : Bytes) :
    entryForRegistry { auths := m₁, credsStore := store, credHelpers := helpers } run host =
    entryForRegistry { auths := m₂, credsStore := store, credHelpers := helpers } run host := by
  have h := decode_order_independent orig v₁ v₂ h₁ h₂
  rw [e₁, e₂] at h
  simp only [entryForRegistry, h host]

/-- The load fails exactly when some entry's `auth` does not decode, whichever entry the loop
meets first (only the text of the error depends on the order). -/
theorem load_fails_iff (orig : List (Bytes × Entry)) (v : List Bytes) (h : Admissible orig v) :
    decodeWith orig v = none ↔ ∃ k, BadKey orig k :=
  AuthFile.load_fails_iff orig v h

/-! ### What the finished table contains -/

/-- An explicit host entry is what the table holds for that host — its own fields with `auth`
decoded, not marked as derived — whatever URL-form keys exist for the host. -/
theorem explicit_wins (orig : List (Bytes × Entry)) (v : List Bytes) (h : Admissible orig v)
    (m : Auths) (hm : decodeWith orig v = some m) (host : Bytes) (e : Entry)
    (he : orig.lookup host = some e) :
    m.lookup host = some { derivedFrom := [], e := decoded e } :=
  AuthFile.explicit_wins orig v h m hm host e he

/-- Two different URL-form keys deriving the same host, and no explicit entry for it:
looking the host up in the table fails. -/
theorem collision_fails (orig : List (Bytes × Entry)) (v : List Bytes) (h : Admissible orig v)
    (m : Auths) (hm : decodeWith orig v = some m) (host k₁ k₂ : Bytes)
    (hne : k₁ ≠ k₂) (hx : orig.lookup host = none)
    (i₁ : inOrig orig k₁ = true) (i₂ : inOrig orig k₂ = true)
    (s₁ : hasSS k₁ = true) (s₂ : hasSS k₂ = true)
    (u₁ : urlHost k₁ = host) (u₂ : urlHost k₂ = host) :
    tableLookup m host = none :=
  AuthFile.collision_fails orig v h m hm host k₁ k₂ hne hx i₁ i₂ s₁ s₂ u₁ u₂

/-- Exactly one URL-form key derives the host and there is no explicit entry: the table holds
that key's (decoded) credentials under the host. -/
theorem single_url_key (orig : List (Bytes × Entry)) (v : List Bytes) (h : Admissible orig v)
    (m : Auths) (hm : decodeWith orig v = some m) (host k : Bytes) (e : Entry)
    (hx : orig.lookup host = none) (hk : orig.lookup k = some e)
    (s : hasSS k = true) (u : urlHost k = host)
    (uniq : ∀ k', inOrig orig k' = true → hasSS k' = true → urlHost k' = host → k' = k) :
    m.lookup host = some { derivedFrom := [k], e := decoded e } :=
  AuthFile.single_url_key orig v h m hm host k e hx hk s u uniq

/-- No explicit entry and no URL-form key for the host: the table has nothing, and the lookup
answers the zero entry without error. -/
theorem absent_host (orig : List (Bytes × Entry)) (v : List Bytes) (h : Admissible orig v)
    (m : Auths) (hm : decodeWith orig v = some m) (host : Bytes)
    (hx : orig.lookup host = none)
    (none_derives : ∀ k, inOrig orig k = true → hasSS k = true → urlHost k ≠ host) :
    m.lookup host = none ∧ tableLookup m host = some {} :=
  AuthFile.absent_host orig v h m hm host hx none_derives

/-! ### Precedence in `EntryForRegistry` -/

/-- The result of a helper as `EntryForRegistry` returns it when it is final. -/
def helperFinal : HelperResult → Option ConfigEntry
  | .ok e => some e
  | _ => none

/-- Precedence: (1) a per-host helper's result is final, whatever it is; (2) without one, the
default store's result is final unless the helper is missing (`ErrHelperNotFound`), and then
the table is used; (3) without either, the table is used. (4) A per-host helper named ""
selects the table, not the default store. -/
theorem lookup_precedence (c : Config) (run : Runner) (host : Bytes) :
    (∀ h, c.credHelpers.lookup host = some h → h ≠ [] →
      entryForRegistry c run host = helperFinal (run h host)) ∧
    (c.credHelpers.lookup host = none → c.credsStore ≠ [] →
      entryForRegistry c run host =
        if run c.credsStore host = .notFound then tableLookup c.auths host
        else helperFinal (run c.credsStore host)) ∧
    (c.credHelpers.lookup host = none → c.credsStore = [] →
      entryForRegistry c run host = tableLookup c.auths host) ∧
    (c.credHelpers.lookup host = some [] →
      entryForRegistry c run host = tableLookup c.auths host) := by
  refine ⟨fun h hl hne => ?_, fun hl hne => ?_, fun hl he => ?_, fun hl => ?_⟩
  · cases hr : run h host <;> simp [entryForRegistry, hl, hne, hr, helperFinal]
  · cases hr : run c.credsStore host <;> simp [entryForRegistry, hl, hne, hr, helperFinal]
  · simp [entryForRegistry, hl, he]
  · simp [entryForRegistry, hl]

/-- Lookups do not change the configuration, so a batch of lookups answers each host the same
way in whatever order (and however often) they are made. -/
theorem lookups_independent (c : Config) (run : Runner) (hs hs' : List Bytes) (hp : hs.Perm hs') :
    (hs.map fun h => (h, entryForRegistry c run h)).Perm
      (hs'.map fun h => (h, entryForRegistry c run h)) := hp.map _

/-! ### The helper runner `ExecHelperWithEnv` -/

/-- The runner reports `ErrHelperNotFound` exactly when the helper program does not exist — the
one case in which `lookup_precedence` lets the default store fall back to the table. -/
theorem exec_missing_iff (o : ExecOutcome) : execHelper o = .notFound ↔ o = .notFound := by
  cases o with
  | notFound => simp [execHelper]
  | cannotRun => simp [execHelper]
  | exitError out => simp only [execHelper]; split <;> simp
  | exited c =>
    cases c with
    | none => simp [execHelper]
    | some p => obtain ⟨u, s⟩ := p; simp only [execHelper]; split <;> simp

/-- A helper that ran to completion yields its secret as a refresh token when the user is
"<token>", as the password otherwise; never both. -/
theorem exec_exited (user secret : Bytes) :
    execHelper (.exited (some (user, secret))) =
      if user = tokenUser then .ok { refreshToken := secret }
      else .ok { username := user, password := secret } := rfl

/-- "credentials not found in native keychain" (white space around it ignored) is the zero
entry without error; any other failing output is an error. -/
example : execHelper (.exitError (notFoundMsg ++ [10])) = .ok {} ∧
    execHelper (.exitError ([32, 9] ++ notFoundMsg ++ [0xC2, 0xA0, 13, 10])) = .ok {} ∧
    execHelper (.exitError (notFoundMsg ++ [120])) = .otherErr ∧
    execHelper (.exitError []) = .otherErr := by decide

/-! ### Non-vacuity: a document exercising every clause -/

/-- keys: "h" (explicit, auth = base64("u:p")), "https://h/v1" (URL form for "h"),
"http://g/a" and "https://g" (colliding for "g"), "f//x" (single URL-form key for "f"). -/
def exOrig : List (Bytes × Entry) :=
  [([104], { auth := [100, 84, 112, 119] }),
   (httpsPrefix ++ [104, 47, 118, 49], { username := [120], password := [121] }),
   (httpPrefix ++ [103, 47, 97], { username := [97] }),
   (httpsPrefix ++ [103], { username := [98] }),
   ([102, 47, 47, 120], { identityToken := [116] })]

def exKeys : List Bytes := exOrig.map Prod.fst

example : Admissible exOrig exKeys ∧ Admissible exOrig exKeys.reverse ∧
    Admissible exOrig ([103] :: exKeys.reverse ++ [[103], [102]]) :=
  ⟨admissible_of_keys (by decide) (by decide), admissible_of_keys (by decide) (by decide),
   admissible_of_keys (by decide) (by decide)⟩

/-- Both orders load; the tables differ (the colliding host keeps the credentials of the key
visited first) but the lookups agree: explicit wins for "h", "g" fails, "f" is derived,
"z" is absent. -/
example : (decodeWith exOrig exKeys).isSome ∧ (decodeWith exOrig exKeys.reverse).isSome := by decide
example : ((decodeWith exOrig exKeys).map fun m => (m.lookup [103]).map (·.e.username)) = some (some [97]) ∧
    ((decodeWith exOrig exKeys.reverse).map fun m => (m.lookup [103]).map (·.e.username)) = some (some [98]) := by
  decide
example : ∀ v ∈ [exKeys, exKeys.reverse, [103] :: exKeys.reverse ++ [[103], [102]]],
    ((decodeWith exOrig v).map fun m => [[104], [103], [102], [122]].map (tableLookup m)) =
      some [some { username := [117], password := [112] }, none,
            some { refreshToken := [116] }, some {}] := by decide
/-- A bad `auth` anywhere fails the load in every order. -/
example : decodeWith (exOrig ++ [([98], { auth := [33] })]) (exKeys ++ [[98]]) = none ∧
    decodeWith (exOrig ++ [([98], { auth := [33] })]) ([98] :: exKeys) = none := by decide

/-! The hypotheses of each theorem are satisfiable on this document. -/

theorem exAdmissible : Admissible exOrig exKeys := admissible_of_keys (by decide) (by decide)

/-- `revisit_derived_noop`: the invariant holds initially (and after every visit). -/
example : Inv exOrig [] (initAuths exOrig) := inv_init exOrig

/-- `explicit_wins` for "h", which also has the URL-form key "https://h/v1". -/
example : ∀ m, decodeWith exOrig exKeys = some m →
    m.lookup [104] = some { derivedFrom := [], e := decoded { auth := [100, 84, 112, 119] } } :=
  fun m hm => explicit_wins exOrig exKeys exAdmissible m hm [104] _ (by decide)

/-- `collision_fails` for "g" with "http://g/a" and "https://g". -/
example : ∀ m, decodeWith exOrig exKeys = some m → tableLookup m [103] = none :=
  fun m hm => collision_fails exOrig exKeys exAdmissible m hm [103]
    (httpPrefix ++ [103, 47, 97]) (httpsPrefix ++ [103])
    (by decide) (by decide) (by decide) (by decide) (by decide) (by decide) (by decide) (by decide)

/-- `single_url_key` for "f" with "f//x". -/
example : ∀ m, decodeWith exOrig exKeys = some m →
    m.lookup [102] = some { derivedFrom := [[102, 47, 47, 120]], e := decoded { identityToken := [116] } } :=
  fun m hm => single_url_key exOrig exKeys exAdmissible m hm [102] [102, 47, 47, 120] _
    (by decide) (by decide) (by decide) (by decide)
    (fun k' hi => (by decide : ∀ k ∈ exKeys, hasSS k = true → urlHost k = [102] → k = [102, 47, 47, 120])
      k' (mem_keys_of_inOrig hi))

/-- `absent_host` for "z". -/
example : ∀ m, decodeWith exOrig exKeys = some m → m.lookup [122] = none ∧ tableLookup m [122] = some {} :=
  fun m hm => absent_host exOrig exKeys exAdmissible m hm [122] (by decide)
    (fun k hi => (by decide : ∀ k ∈ exKeys, hasSS k = true → urlHost k ≠ [122]) k (mem_keys_of_inOrig hi))

/-- `load_fails_iff`: a key whose `auth` ("!") does not decode. -/
example : BadKey (exOrig ++ [([98], { auth := [33] })]) [98] := ⟨{ auth := [33] }, by decide, by decide⟩

/-- `lookup_precedence`: a configuration with a per-host helper for "k", one with an empty name
for "e", and a default store. -/
def exConfig : Config :=
  { auths := [], credsStore := [115], credHelpers := [([107], [112]), ([101], [])] }
example : exConfig.credHelpers.lookup [107] = some [112] ∧ ([112] : Bytes) ≠ [] ∧
    exConfig.credHelpers.lookup [101] = some [] ∧
    exConfig.credHelpers.lookup [104] = none ∧ exConfig.credsStore ≠ [] := by decide
/-- the per-host helper is missing: an error, not the table and not the default store;
the default store is missing: the table. -/
example : entryForRegistry exConfig (fun _ _ => .notFound) [107] = none ∧
    entryForRegistry exConfig (fun _ _ => .notFound) [104] = some {} := by decide

/-! ### Structural facts regenerated from `authfile.go` -/

open OciModel.Generated.AuthFile in
/-- The JSON names (lower-cased: `encoding/json` matches them case-insensitively) of the fields
the model starts from, in declaration order; `derivedFrom` has none and is unexported: it cannot
come from the file. -/
theorem generated_fields_ok :
    configDataFields = [("Auths", "auths"), ("CredsStore", "credsstore"), ("CredHelpers", "credhelpers")] ∧
    authConfigFields = [("derivedFrom", ""), ("Username", "username"), ("Password", "password"),
      ("Auth", "auth"), ("IdentityToken", "identitytoken"), ("RegistryToken", "registrytoken")] := by
  decide

open OciModel.Generated.AuthFile in
/-- The constants (non-empty string literals outside error constructors — error texts are not
observable), library calls and guards of `urlHost`, `decodeAuth`, `decodeConfigFile` and
`EntryForRegistry` are the ones the model was written against: prefixes "http://" / "https://",
cut at "/"; `base64.StdEncoding`, cut at ":", non-empty user, `strings.Trim` with cutset "\x00";
`strings.Contains(addr, "//")`, explicit entries (`len(derivedFrom) == 0`) not overridden,
`append` + `slices.Sort`; helper used when its name is non-empty, its result final unless
`!explicit && errors.Is(err, ErrHelperNotFound)`; ambiguity and `len(derivedFrom) > 1` checks;
`ExecHelperWithEnv`: `exec.ErrNotFound` → `ErrHelperNotFound`, the "credentials not found …"
message after `strings.TrimSpace`, the "<token>" user. -/
theorem generated_code_facts_ok :
    shapeKnown = true ∧
    urlHostCalls = ["strings.HasPrefix", "strings.TrimPrefix", "strings.HasPrefix", "strings.TrimPrefix", "strings.Cut"] ∧
    urlHostStrings = ["http://", "http://", "https://", "https://", "/"] ∧
    urlHostGuards = ["strings.HasPrefix(url, \"http://\")", "strings.HasPrefix(url, \"https://\")"] ∧
    decodeAuthCalls = ["base64.StdEncoding.DecodeString", "fmt.Errorf", "strings.Cut", "string", "errors.New", "strings.Trim"] ∧
    decodeAuthStrings = [":", "\x00"] ∧
    decodeAuthGuards = ["err != nil", "!ok || username == \"\""] ∧
    decodeConfigCalls = ["json.Unmarshal", "fmt.Errorf", "decodeAuth", "fmt.Errorf", "strings.Contains", "urlHost", "len", "append", "slices.Sort"] ∧
    decodeConfigStrings = ["//"] ∧
    decodeConfigGuards = ["err != nil", "ac.Auth != \"\"", "err != nil", "!strings.Contains(addr, \"//\")", "addr1 == addr", "ok", "len(ac1.derivedFrom) == 0"] ∧
    entryForRegistryCalls = ["c.runner", "errors.Is", "fmt.Errorf", "len", "fmt.Errorf"] ∧
    entryForRegistryStrings = [] ∧
    entryForRegistryGuards = ["!ok", "helper != \"\"", "err == nil || explicit || !errors.Is(err, ErrHelperNotFound)", "auth.IdentityToken != \"\" && auth.Username != \"\"", "len(auth.derivedFrom) > 1"] ∧
    execHelperCalls = ["exec.Command", "strings.NewReader", "cmd.Run", "errors.As", "new", "errors.Is", "fmt.Errorf", "fmt.Errorf", "strings.TrimSpace", "out.String", "fmt.Errorf", "json.Unmarshal", "out.Bytes"] ∧
    execHelperStrings = ["docker-credential-", "get", "credentials not found in native keychain", "<token>"] ∧
    execHelperGuards = ["err != nil", "!errors.As(err, new(*exec.ExitError))", "errors.Is(err, exec.ErrNotFound)", "t == \"credentials not found in native keychain\"", "err != nil", "creds.Username == \"<token>\""] := by
  decide

/-- The model's message and token constants are the source's. -/
theorem generated_exec_constants_ok :
    strBytes "credentials not found in native keychain" = notFoundMsg ∧ strBytes "<token>" = tokenUser ∧
    strBytes "http://" = httpPrefix ∧ strBytes "https://" = httpsPrefix := by decide

end OciModel.Props.C19
