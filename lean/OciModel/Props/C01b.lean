/-
C01 (client reader part) — a read through the HTTP client of content that does not match its
descriptor ends in an error, never in a clean end-of-stream. For every chunking of the body.
-/
import OciModel.BlobReader

namespace OciModel.Props.C01b
open OciModel OciModel.BlobReader

theorem readAll_relayed_prefix (H : Bytes → Bytes) (v : Bool) (size : Nat) (d acc : Bytes) (cs : List Bytes) :
    ∃ k, (readAll H v size d acc cs).relayed = acc ++ (cs.take k).flatten := by
  induction cs generalizing acc with
  | nil => exact ⟨0, by unfold readAll; split <;> (try split) <;> (try split) <;> simp [Res.relayed]⟩
  | cons c rest ih =>
    unfold readAll
    split
    · exact ⟨1, by simp [Res.relayed]⟩
    · obtain ⟨k, hk⟩ := ih (acc ++ c)
      exact ⟨k + 1, by simp [hk, List.append_assoc]⟩

/-- **Sound.** A verifying reader ends cleanly only if what it relayed is the whole body, has
exactly the descriptor's size and hashes to the descriptor's digest. -/
theorem blobReader_sound (H : Bytes → Bytes) (size : Nat) (d acc : Bytes) (cs : List Bytes)
    (h : (readAll H true size d acc cs).clean = true) :
    readAll H true size d acc cs = .eof (acc ++ cs.flatten) ∧
      (acc ++ cs.flatten).length = size ∧ H (acc ++ cs.flatten) = d := by
  induction cs generalizing acc with
  | nil =>
    unfold readAll at h ⊢
    by_cases h1 : acc.length = size
    · by_cases h2 : H acc = d
      · simp [h1, h2]
      · simp [h1, h2, Res.clean] at h
    · simp [h1, Res.clean] at h
  | cons c rest ih =>
    unfold readAll at h ⊢
    split at h
    · simp [Res.clean] at h
    · rename_i hle
      have := ih (acc ++ c) h
      simp only [hle, ↓reduceIte]
      simpa [List.append_assoc] using this

/-- **Complete.** Content that does match is delivered cleanly, whatever the chunking. -/
theorem blobReader_complete (H : Bytes → Bytes) (v : Bool) (size : Nat) (d acc : Bytes) (cs : List Bytes)
    (hs : (acc ++ cs.flatten).length = size) (hd : H (acc ++ cs.flatten) = d) :
    readAll H v size d acc cs = .eof (acc ++ cs.flatten) := by
  induction cs generalizing acc with
  | nil => unfold readAll; simp at hs hd; simp [hs, hd]
  | cons c rest ih =>
    unfold readAll
    have hle : ¬ (acc ++ c).length > size := by
      simp only [List.flatten_cons, List.length_append] at hs ⊢; omega
    simp only [hle, ↓reduceIte]
    have := ih (acc ++ c) (by simpa [List.append_assoc] using hs) (by simpa [List.append_assoc] using hd)
    simpa [List.append_assoc] using this

/-- **Never a clean end on a mismatch** (the property's sentence): too short, too long or wrong
bytes all end in an error. -/
theorem mismatch_never_clean (H : Bytes → Bytes) (size : Nat) (d : Bytes) (cs : List Bytes)
    (hm : cs.flatten.length ≠ size ∨ H cs.flatten ≠ d) :
    (readAll H true size d [] cs).clean = false := by
  cases hc : (readAll H true size d [] cs).clean with
  | false => rfl
  | true =>
    have := blobReader_sound H size d [] cs hc
    simp only [List.nil_append] at this
    rcases hm with hm | hm
    · exact absurd this.2.1 hm
    · exact absurd this.2.2 hm

theorem too_long_aux (H : Bytes → Bytes) (v : Bool) (size : Nat) (d : Bytes) (cs : List Bytes) :
    ∀ acc : Bytes, (acc ++ cs.flatten).length > size → acc.length ≤ size →
      (readAll H v size d acc cs).clean = false := by
  induction cs with
  | nil => intro acc h1 h2; simp at h1; omega
  | cons c rest ih =>
    intro acc h1 h2
    unfold readAll
    split
    · rfl
    · rename_i hle
      exact ih (acc ++ c) (by simpa [List.append_assoc] using h1) (by omega)

/-- Over-long content is detected at the first read that crosses the size, verifying or not. -/
theorem too_long_detected (H : Bytes → Bytes) (v : Bool) (size : Nat) (d : Bytes) (cs : List Bytes)
    (hl : cs.flatten.length > size) : (readAll H v size d [] cs).clean = false :=
  too_long_aux H v size d cs [] (by simpa using hl) (by simp)

/-- **What is read by digest hashes to the digest that was asked for** (fix F31): whatever
`Docker-Content-Digest` header the response carries — none, the right one, or one that matches a different
body the registry chose to send — a read that names a digest and ends cleanly has relayed the whole body,
and that body hashes to the requested digest. -/
theorem requested_digest_verified (H : Bytes → Bytes) (size : Nat) (asked hdr : Bytes) (cs : List Bytes)
    (ha : asked ≠ []) (h : (readAll H true size (descDigest asked hdr) [] cs).clean = true) :
    readAll H true size (descDigest asked hdr) [] cs = .eof cs.flatten ∧ H cs.flatten = asked := by
  have := blobReader_sound H size (descDigest asked hdr) [] cs h
  simp only [List.nil_append, descDigest, ha, ne_eq, not_false_eq_true, ↓reduceIte] at this
  exact ⟨by simpa [descDigest, ha] using this.1, this.2.2⟩

/-- Through a tag the caller names no digest: the header's digest is what the content is checked against. -/
theorem tag_read_checks_header (H : Bytes → Bytes) (size : Nat) (hdr : Bytes) (cs : List Bytes)
    (h : (readAll H true size (descDigest [] hdr) [] cs).clean = true) : H cs.flatten = hdr := by
  have := blobReader_sound H size (descDigest [] hdr) [] cs h
  simpa [descDigest] using this.2.2

example : (readAll (fun b => b) true 1 (descDigest [7] [9]) [] [[9]]).clean = false := by decide
example : readAll (fun b => b) true 1 (descDigest [7] [9]) [] [[7]] = .eof [7] := by decide

example : readAll (fun b => b) true 3 [1, 2, 3] [] [[1], [2, 3]] = .eof [1, 2, 3] := by decide
example : (readAll (fun b => b) true 3 [1, 2, 3] [] [[1], [2]]).clean = false := by decide
example : (readAll (fun b => b) true 3 [1, 2, 3] [] [[1, 2], [3, 4]]).clean = false := by decide
example : (readAll (fun b => b) true 3 [1, 2, 3] [] [[3, 2, 1]]).clean = false := by decide

end OciModel.Props.C01b
