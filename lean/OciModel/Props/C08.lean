/-
C08 — the in-memory registry is race-free and linearizable (partial: see DESIGN.md).
Obligations on the lock discipline regenerated from ocimem/*.go.
-/
import OciModel.Generated.Locks

namespace OciModel.Props.C08
open OciModel.Generated.Locks

def shareLock (a b : List String) : Bool := a.any fun l => b.contains l

/-- Lockset discipline: any two accesses to the same mutable field of an upload buffer, at
least one of them a write, are made with a common mutex held (this includes an access
racing with itself from two goroutines). -/
def LocksetOk (acc : List (String × String × String × List String)) : Bool :=
  acc.all fun a => acc.all fun b =>
    !(a.2.1 == b.2.1 && (a.2.2.1 == "w" || b.2.2.1 == "w")) || shareLock a.2.2.2 b.2.2.2

theorem lockset_ok : LocksetOk bufferAccesses = true := by decide

/-- Every exported method of `*Registry` is one critical section of the registry mutex,
except `PushBlob` (a lock-free prelude on its arguments, then one section: its only call on
the receiver is the unexported `makeRepo`, inside the lock) and `PushBlobChunked` (a single
call of the atomic `PushBlobChunkedResume`). In particular `GetTag` is one section. -/
theorem registry_methods_atomic :
    ∀ m ∈ methods, m.1 = "Registry" →
      m.2.2.1 = true ∨ (m.2.1 = "PushBlob" ∧ m.2.2.2 = ["makeRepo"]) ∨
        (m.2.1 = "PushBlobChunked" ∧ m.2.2.2 = ["PushBlobChunkedResume"]) := by decide

end OciModel.Props.C08
