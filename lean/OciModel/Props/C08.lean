/-
C08 — the in-memory registry is race-free and linearizable (partial: see DESIGN.md).
Obligations on the lock discipline regenerated from ocimem/*.go.
-/
import OciModel.Generated.Locks
import OciModel.MemConcLemmas
import OciModel.MemLinLemmas

namespace OciModel.Props.C08
open OciModel.Generated.Locks

def shareLock (a b : List String) : Bool := a.any fun l => b.contains l

/-- Lockset discipline: any two accesses to the same mutable field of an upload buffer, at
least one of them a write, are made with a common mutex held (this includes an access
racing with itself from two goroutines). -/
def LocksetOk (acc : List (String × String × String × List String)) : Bool :=
  acc.all fun a => acc.all fun b =>
    !(a.2.1 == b.2.1 && (a.2.2.1 == "w" || b.2.2.1 == "w")) || shareLock a.2.2.2 b.2.2.2

theorem lockset_ok : LocksetOk bufferAccesses = true := by decide

/-- Every exported method of `*Registry` is one critical section of the registry mutex,
except `PushBlob` (a lock-free prelude on its arguments, then one section: its only call on
the receiver is the unexported `makeRepo`, inside the lock) and `PushBlobChunked` (a single
call of the atomic `PushBlobChunkedResume`). In particular `GetTag` is one section. -/
theorem registry_methods_atomic :
    ∀ m ∈ methods, m.1 = "Registry" →
      m.2.2.1 = true ∨ (m.2.1 = "PushBlob" ∧ m.2.2.2 = ["makeRepo"]) ∨
        (m.2.1 = "PushBlobChunked" ∧ m.2.2.2 = ["PushBlobChunkedResume"]) := by decide

/-- No deferred evaluation outside the lock: no exported method hands its caller a function
(a lazily evaluated listing, say) that reads a map of the registry's state — or a map it was given
under the lock — after the method has returned and released the registry mutex. (Function literals
that are consumed inside the critical section that created them, such as the reference iterators
used by the delete checks, are listed in `closureStateAccesses` and are not leaks.) -/
theorem no_lazy_state_leaks : lazyStateLeaks = [] := by decide

/-- The content a caller hands to `PushBlob` is read before the registry mutex is taken: no
call consumes a caller-supplied `io.Reader` with a mutex held (the reader may block for as long as it
likes, or call back into the registry — a copy within one registry — without stopping anyone else). -/
theorem caller_content_read_outside_the_lock : readsCallerReaderUnderLock = [] := by decide

/-- the first mutex of the receiver that the method locks for its whole body, if any -/
def firstWholeBodyLock (L : List (String × String × String)) (recv meth : String) : Option String :=
  ((L.filter fun x => x.1 == recv && x.2.1 == meth).head?).map (·.2.2)

/-- `Buffer.Commit` takes a mutex of the buffer as the first thing it does and holds it for its whole
body, and `Buffer.Cancel` does the same with the SAME mutex — `Buffer.commitMu` (fix F33; the
statement does not depend on that name). So the calls of `Commit` and `Cancel` on one upload
session exclude one another from beginning to end: the schedules of atomic steps that can occur
are the `MemConc.CommitSerial` ones. Taking the lock away from either function, or taking it
later than at the top of the body, or releasing it before the return, breaks this obligation. -/
theorem generated_commit_serialized :
    (firstWholeBodyLock wholeBodyLocks "Buffer" "Commit").isSome = true ∧
    firstWholeBodyLock wholeBodyLocks "Buffer" "Commit" = firstWholeBodyLock wholeBodyLocks "Buffer" "Cancel" := by
  decide

/-! ## The concurrent model: every interleaving of atomic steps

`H` (the content hash) is a parameter throughout; nothing is assumed about it. -/

open OciModel OciModel.Mem OciModel.MemConc

section
variable (H : Bytes → Bytes)

/-! ### K1 — a committed blob's stored content always matches its digest -/

theorem cinv_init (imm : Bool) : CInv H ⟨Mem.init imm, []⟩ := MemConc.cinv_init H imm

theorem cinv_astep (c : CState) (a : AStep) (hc : CInv H c) : CInv H (astep H c a).1 :=
  MemConc.cinv_astep H c a hc

theorem cinv_arun (c : CState) (sched : List AStep) (hc : CInv H c) : CInv H (arun H c sched) :=
  MemConc.cinv_arun H c sched hc

/-- After ANY schedule of atomic steps from the empty registry — whatever writes were interleaved
between the two critical sections of whatever commits — every stored blob (and manifest) hashes
to the digest it is stored under. -/
theorem committed_blob_matches_digest (imm : Bool) (sched : List AStep) {r d : Bytes} {rp : Repo} {b : Blob}
    (hg : getRepo (arun H ⟨Mem.init imm, []⟩ sched).st r = some rp)
    (hb : alookup d rp.blobs = some b) : H b.data = d :=
  ((cinv_arun H _ sched (cinv_init H imm)).1 r rp hg).1 d b hb

theorem stored_manifest_matches_digest (imm : Bool) (sched : List AStep) {r d : Bytes} {rp : Repo} {b : Blob}
    (hg : getRepo (arun H ⟨Mem.init imm, []⟩ sched).st r = some rp)
    (hb : alookup d rp.manifests = some b) : H b.data = d :=
  ((cinv_arun H _ sched (cinv_init H imm)).1 r rp hg).2 d b hb

/-! ### K2 — the commit stores the bytes that were checked -/

/-- No operation removes a repository. -/
theorem repo_never_removed {s : State} {r : Bytes} {rp : Repo} (o : Op) (hg : getRepo s r = some rp) :
    ∃ rp', getRepo (step H s o).1 r = some rp' :=
  (keeps_step H s o).some hg

theorem repo_never_removed_astep {c : CState} {r : Bytes} {rp : Repo} (a : AStep) (hg : getRepo c.st r = some rp) :
    ∃ rp', getRepo (astep H c a).1.st r = some rp' :=
  (keeps_astep H c a).some hg

theorem repo_never_removed_arun {c : CState} {r : Bytes} {rp : Repo} (sched : List AStep)
    (hg : getRepo c.st r = some rp) : ∃ rp', getRepo (arun H c sched).st r = some rp' :=
  (keeps_arun H c sched).some hg

/-- If the first critical section of a commit of session `(r, id)` succeeds while the buffer
holds `b.buf`, then after ANY atomic steps `mid` other than critical sections of a commit of the
same session — writes to that very session, cancels, deletions, other sessions' commits … — the
second critical section succeeds, reports `⟨octet-stream, dig, |b.buf|⟩`, and stores exactly
`b.buf` under `dig`; and `b.buf` hashes to `dig`. -/
theorem commit_stores_checked_bytes {c c1 : CState} {r id dig : Bytes} {rp : Repo} {b : Buffer}
    (hb : getBuffer c.st r id = some (rp, b))
    (hc : astep H c (.commitCheck r id dig) = (c1, .okUnit))
    (mid : List AStep) (hmid : NoCommitOf r id mid) :
    H b.buf = dig ∧
    ∃ rp1, getRepo (arun H c1 mid).st r = some rp1 ∧
      astep H (arun H c1 mid) (.commitStore r id) =
        ({ st := putRepo (arun H c1 mid).st r
                   { rp1 with blobs := ainsert dig ⟨octetStream, b.buf, [], []⟩ rp1.blobs },
           snaps := eraseSnap (r, id) (arun H c1 mid).snaps },
         .okDesc ⟨octetStream, dig, b.buf.length⟩) ∧
      ∃ rp2, getRepo (astep H (arun H c1 mid) (.commitStore r id)).1.st r = some rp2 ∧
        alookup dig rp2.blobs = some ⟨octetStream, b.buf, [], []⟩ := by
  obtain ⟨_, hd, hc1⟩ := commitCheck_ok H hb hc
  refine ⟨hd, ?_⟩
  have hg1 : getRepo c1.st r = some { rp with uploads := ainsert id { b with committed := true } rp.uploads } := by
    rw [hc1]; exact getRepo_putRepo_eq _ _ _
  obtain ⟨rp1, hg⟩ := repo_never_removed_arun H mid hg1
  have hsnap : lookupSnap (r, id) (arun H c1 mid).snaps = some (dig, b.buf) := by
    rw [snap_arun H c1 mid hmid, hc1]
    exact lookupSnap_cons_eq _ _ _
  refine ⟨rp1, hg, ?_⟩
  rcases commitStore_spec H (arun H c1 mid) r id with ⟨hn, _⟩ | ⟨_, _, _, hn, _⟩ | ⟨dig', data', rp', hl, hg', h⟩
  · rw [hn] at hsnap; cases hsnap
  · rw [hn] at hg; cases hg
  · rw [hsnap] at hl; cases hl
    rw [hg] at hg'; cases hg'
    refine ⟨h, ?_⟩
    rw [h]
    exact ⟨_, getRepo_putRepo_eq _ _ _, alookup_ainsert_eq _ _ _⟩

/-! ### K3 — a tag that always points at an existing manifest is never reported missing -/

/-- `GetTag` is one atomic step (`registry_methods_atomic`); if at that instant the tag points
at an existing manifest, it returns that manifest. -/
theorem getTag_succeeds {s : State} {r t : Bytes} {rp : Repo} {d : Desc} {b : Blob}
    (hg : getRepo s r = some rp) (ht : alookup t rp.tags = some d)
    (hb : alookup d.digest rp.manifests = some b) :
    step H s (.getTag r t) = (s, .okRead (descOf H b) b.data) :=
  step_getTag_of H hg ht hb

theorem getTag_atomic_ok {c : CState} {r t : Bytes} (h : TagOK r t c) :
    ∃ rp d b, getRepo c.st r = some rp ∧ alookup t rp.tags = some d ∧
      alookup d.digest rp.manifests = some b ∧
      astep H c (.op (.getTag r t)) = (c, .okRead (descOf H b) b.data) := by
  obtain ⟨rp, d, b, hg, ht, hb⟩ := h
  refine ⟨rp, d, b, hg, ht, hb, ?_⟩
  rw [astep_op, getTag_succeeds H hg ht hb]

/-- If `t` points at an existing manifest in every state a schedule goes through, then every
`GetTag r t` step of the schedule returns a manifest (never an error). -/
theorem tag_never_missing (c : CState) (sched : List AStep) (r t : Bytes)
    (h : Along H (TagOK r t) c sched) (i : Nat) (hi : sched[i]? = some (.op (.getTag r t))) :
    ∃ d data, (aouts H c sched)[i]? = some (.okRead d data) := by
  induction sched generalizing c i with
  | nil => simp at hi
  | cons a rest ih =>
    cases i with
    | zero =>
      simp at hi; subst hi
      obtain ⟨_, _, b, _, _, _, hst⟩ := getTag_atomic_ok H h.1
      exact ⟨descOf H b, b.data, by simp [aouts, hst]⟩
    | succ j =>
      simp only [List.getElem?_cons_succ] at hi
      obtain ⟨d, data, hd⟩ := ih _ h.2 j hi
      exact ⟨d, data, by simpa [aouts] using hd⟩

/-- The same with "every state along the schedule" spelled out as "the state after every prefix". -/
theorem tag_never_missing_prefix (c : CState) (sched : List AStep) (r t : Bytes)
    (h : ∀ pre post, sched = pre ++ post → TagOK r t (arun H c pre))
    (pre post : List AStep) (e : sched = pre ++ .op (.getTag r t) :: post) :
    ∃ b, astep H (arun H c pre) (.op (.getTag r t)) = (arun H c pre, .okRead (descOf H b) b.data) := by
  obtain ⟨_, _, b, _, _, _, hst⟩ := getTag_atomic_ok H (h pre _ e)
  exact ⟨b, hst⟩

end

/-- Why one critical section: if `GetTag` resolved the tag and fetched the manifest in two
critical sections, then in the schedule `TwoStep.sched` — started after `m1` was pushed under
the tag — the tag points at an existing manifest at every instant, the resolve returns `d1`,
and the fetch of `d1.digest` nevertheless reports `MANIFEST_UNKNOWN`. -/
theorem two_step_getTag_counterexample :
    Along TwoStep.Htoy (TagOK TwoStep.rT TwoStep.tT) TwoStep.c1 TwoStep.sched ∧
    aouts TwoStep.Htoy TwoStep.c1 TwoStep.sched =
      [.okDesc TwoStep.d1, .okDesc TwoStep.d2, .okUnit, .err "MANIFEST_UNKNOWN"] := by
  refine ⟨along_of_b TwoStep.Htoy (P := tagOKb TwoStep.rT TwoStep.tT) (fun _ h => tagOK_of_b h) ?_, ?_⟩
  · decide
  · decide

/-- In the very same schedule the one-section `GetTag` succeeds at every instant. -/
theorem one_step_getTag_in_counterexample (pre post : List AStep) (e : TwoStep.sched = pre ++ post) :
    ∃ b, astep TwoStep.Htoy (arun TwoStep.Htoy TwoStep.c1 pre) (.op (.getTag TwoStep.rT TwoStep.tT)) =
      (arun TwoStep.Htoy TwoStep.c1 pre, .okRead (descOf TwoStep.Htoy b) b.data) := by
  have h := along_prefix TwoStep.Htoy two_step_getTag_counterexample.1 pre post e
  obtain ⟨_, _, b, _, _, _, hst⟩ := getTag_atomic_ok TwoStep.Htoy h
  exact ⟨b, hst⟩

/-! ### K4 — the atomic steps give a linearization order consistent with real time -/

/-- If `a` returns before `b` is invoked, `a`'s atomic step precedes `b`'s. -/
theorem realtime_respected {tr : List Ev} {ids : List Nat} (hwf : WellFormed tr ids) {a b : Nat}
    (ha : a ∈ ids) (hb : b ∈ ids) {ra ib : Nat}
    (hra : pos (.ret a) tr = some ra) (hib : pos (.inv b) tr = some ib) (hlt : ra < ib) :
    ∃ sa sb, pos (.step a) tr = some sa ∧ pos (.step b) tr = some sb ∧ sa < sb := by
  obtain ⟨_, sa, ra', _, hsa, hra', _, h1⟩ := hwf a ha
  obtain ⟨ib', sb, _, hib', hsb, _, h2, _⟩ := hwf b hb
  rw [hra] at hra'; cases hra'
  rw [hib] at hib'; cases hib'
  exact ⟨sa, sb, hsa, hsb, by omega⟩

/-- Distinct operations have distinct linearization points: the order of the atomic steps is
a strict total order on the operations. -/
theorem step_positions_injective {tr : List Ev} {a b s : Nat}
    (ha : pos (.step a) tr = some s) (hb : pos (.step b) tr = some s) : a = b := by
  have h1 := pos_get ha
  have h2 := pos_get hb
  rw [h1] at h2
  cases h2; rfl

/-! ### K5 — the two-step commit against the sequential `wCommit` -/

section
variable (H : Bytes → Bytes)

/-- An `op` atomic step is exactly `Mem.step`. -/
theorem astep_op_is_step (c : CState) (o : Op) :
    (astep H c (.op o)).1.st = (step H c.st o).1 ∧ (astep H c (.op o)).2 = (step H c.st o).2 ∧
    (astep H c (.op o)).1.snaps = c.snaps := ⟨rfl, rfl, rfl⟩

/-- A schedule made of whole operations only is the sequential run of those operations in
step order: same final state, same outputs. -/
theorem arun_ops_eq_run (c : CState) (ops : List Op) :
    (arun H c (ops.map .op)).st = (run H c.st ops).1 ∧
    aouts H c (ops.map .op) = (run H c.st ops).2 ∧
    (arun H c (ops.map .op)).snaps = c.snaps := by
  induction ops generalizing c with
  | nil => exact ⟨rfl, rfl, rfl⟩
  | cons o rest ih =>
    obtain ⟨h1, h2, h3⟩ := ih (astep H c (.op o)).1
    refine ⟨?_, ?_, ?_⟩
    · exact h1
    · simp only [List.map_cons, aouts, run]
      rw [h2]; rfl
    · exact h3

/-- With nothing in between, the two critical sections of a commit have the effect and the
output of the sequential `wCommit`; and when the first one refuses, it alone has. -/
theorem sequential_commit_refines (c : CState) (r id dig : Bytes) :
    (∀ c1, astep H c (.commitCheck r id dig) = (c1, .okUnit) →
      (astep H c1 (.commitStore r id)).1.st = (step H c.st (.wCommit r id dig)).1 ∧
      (astep H c1 (.commitStore r id)).2 = (step H c.st (.wCommit r id dig)).2 ∧
      (astep H c1 (.commitStore r id)).1.snaps = eraseSnap (r, id) c.snaps) ∧
    (∀ c1 out, astep H c (.commitCheck r id dig) = (c1, out) → out ≠ .okUnit →
      c1.st = (step H c.st (.wCommit r id dig)).1 ∧ out = (step H c.st (.wCommit r id dig)).2 ∧
      c1.snaps = c.snaps) := by
  rcases commitCheck_spec H c r id dig with ⟨hb, h⟩ | ⟨rp, b, e, hb, he, h⟩ | ⟨rp, b, hb, he, hd, h⟩ | ⟨rp, b, hb, he, hd, h⟩
  · refine ⟨fun c1 hc => ?_, fun c1 out hc _ => ?_⟩
    · rw [h] at hc; cases hc
    · rw [h] at hc; cases hc
      simp [step, hb]
  · refine ⟨fun c1 hc => ?_, fun c1 out hc _ => ?_⟩
    · rw [h] at hc; cases hc
    · rw [h] at hc; cases hc
      simp [step, hb, he]
  · refine ⟨fun c1 hc => ?_, fun c1 out hc _ => ?_⟩
    · rw [h] at hc; cases hc
    · rw [h] at hc; cases hc
      simp [step, hb, he, hd]
  · refine ⟨fun c1 hc => ?_, fun c1 out hc hne => ?_⟩
    · rw [h] at hc; cases hc
      have hg1 : getRepo (putBuffer c.st r rp id { b with committed := true }) r =
          some { rp with uploads := ainsert id { b with committed := true } rp.uploads } :=
        getRepo_putRepo_eq _ _ _
      rcases commitStore_spec H
          { st := putBuffer c.st r rp id { b with committed := true },
            snaps := ((r, id), (dig, b.buf)) :: eraseSnap (r, id) c.snaps } r id with
        ⟨hn, _⟩ | ⟨_, _, _, hn, _⟩ | ⟨dig', data', rp', hl, hg', h2⟩
      · rw [lookupSnap_cons_eq] at hn; cases hn
      · rw [hg1] at hn; cases hn
      · rw [lookupSnap_cons_eq] at hl; cases hl
        rw [hg1] at hg'; cases hg'
        rw [h2]
        refine ⟨?_, ?_, ?_⟩
        · simp only [step, hb, he, hd]
          simp [putBuffer, putRepo_putRepo]
        · simp [step, hb, he, hd]
        · show eraseSnap (r, id) (((r, id), (dig, b.buf)) :: eraseSnap (r, id) c.snaps) = _
          simp [eraseSnap, eraseSnap_idem]
    · rw [h] at hc; cases hc
      exact absurd rfl hne

end

/-! ### K6 — with the commit lock, a commit reports and stores the digest it was asked for (F33) -/

section
variable (H : Bytes → Bytes)

/-- The same as `commit_reports_own_digest` below, with the schedule cut at the two steps. -/
theorem commit_reports_own_digest_split (c : CState) (pre mid post : List AStep) (r id dig : Bytes)
    (hs : CommitSerial H c (pre ++ .commitCheck r id dig :: (mid ++ .commitStore r id :: post)))
    (hok : (astep H (arun H c pre) (.commitCheck r id dig)).2 = .okUnit)
    (hmid : ∀ a ∈ mid, a ≠ .commitStore r id) :
    ∃ rp b, getBuffer (arun H c pre).st r id = some (rp, b) ∧ H b.buf = dig ∧
      (astep H (arun H c (pre ++ .commitCheck r id dig :: mid)) (.commitStore r id)).2 =
        .okDesc ⟨octetStream, dig, b.buf.length⟩ ∧
      ∃ rp2, getRepo (arun H c (pre ++ .commitCheck r id dig :: (mid ++ [.commitStore r id]))).st r = some rp2 ∧
        alookup dig rp2.blobs = some ⟨octetStream, b.buf, [], []⟩ := by
  obtain ⟨rp, b, hb, hc⟩ := commitCheck_ok_buffer H hok
  have hwin := commitSerial_window H pre mid post hs hok hmid
  have hno : NoCommitOf r id mid := fun a ha => not_isCommitOf_of_not_takes (hwin a ha)
  obtain ⟨hd, rp1, _, hst, rp2, hg2, hl2⟩ := commit_stores_checked_bytes H hb hc mid hno
  have e1 : arun H c (pre ++ .commitCheck r id dig :: mid) =
      arun H (astep H (arun H c pre) (.commitCheck r id dig)).1 mid := by
    rw [arun_append, arun_cons]
  have e2 : arun H c (pre ++ .commitCheck r id dig :: (mid ++ [.commitStore r id])) =
      (astep H (arun H (astep H (arun H c pre) (.commitCheck r id dig)).1 mid) (.commitStore r id)).1 := by
    rw [arun_append, arun_cons, arun_append, arun_cons, arun_nil]
  refine ⟨rp, b, hb, hd, ?_, rp2, ?_, hl2⟩
  · rw [e1, hst]
  · rw [e2]; exact hg2

/-- **With the commit lock a commit reports, and stores, what it was asked for.** Take ANY schedule
of atomic steps that respects `Buffer.commitMu` (`CommitSerial`), from any state, with any hash.
If the step at position `i` is `commitCheck r id dig` and succeeds, and the session's next
`commitStore r id` is at position `j`, then — whatever the steps in between are: writes to that
very session, other sessions' commits, pushes, deletes … — that `commitStore` answers
`⟨octet-stream, dig, n⟩` for the digest `dig` the commit was called with, `n` being the length of
the bytes `b.buf` the buffer held when they were checked, those bytes hash to `dig`, and right
after the step the repository holds exactly them under `dig`. -/
theorem commit_reports_own_digest (c : CState) (sched : List AStep) (hs : CommitSerial H c sched)
    {i j : Nat} {r id dig : Bytes}
    (hi : sched[i]? = some (.commitCheck r id dig))
    (hok : (aouts H c sched)[i]? = some .okUnit)
    (hij : i < j) (hj : sched[j]? = some (.commitStore r id))
    (hnext : ∀ k, i < k → k < j → sched[k]? ≠ some (.commitStore r id)) :
    ∃ rp b, getBuffer (arun H c (sched.take i)).st r id = some (rp, b) ∧ H b.buf = dig ∧
      (aouts H c sched)[j]? = some (.okDesc ⟨octetStream, dig, b.buf.length⟩) ∧
      ∃ rp2, getRepo (arun H c (sched.take (j + 1))).st r = some rp2 ∧
        alookup dig rp2.blobs = some ⟨octetStream, b.buf, [], []⟩ := by
  obtain ⟨e1, hl1⟩ := split_at_getElem? hi
  have hj' : (sched.drop (i + 1))[j - i - 1]? = some (.commitStore r id) := by
    rw [List.getElem?_drop]
    have : i + 1 + (j - i - 1) = j := by omega
    rw [this]; exact hj
  obtain ⟨e2, hl2⟩ := split_at_getElem? hj'
  generalize hpre : sched.take i = pre at e1 hl1
  generalize hrest : sched.drop (i + 1) = rest at e1 e2 hl2
  generalize hmidE : rest.take (j - i - 1) = mid at e2 hl2
  generalize hpost : rest.drop (j - i - 1 + 1) = post at e2
  have hmid : ∀ a ∈ mid, a ≠ .commitStore r id := by
    intro a ha e
    rw [← hmidE] at ha
    obtain ⟨k, hk, hg⟩ := mem_take_getElem? ha
    rw [← hrest, List.getElem?_drop, e] at hg
    exact hnext (i + 1 + k) (by omega) (by omega) hg
  have es : sched = pre ++ .commitCheck r id dig :: (mid ++ .commitStore r id :: post) := by
    rw [← e2]; exact e1
  have hok' : (astep H (arun H c pre) (.commitCheck r id dig)).2 = .okUnit := by
    have := aouts_at H c pre (.commitCheck r id dig) (mid ++ .commitStore r id :: post)
    rw [← es, hl1, hok] at this
    exact (Option.some.inj this).symm
  obtain ⟨rp, b, hb, hd, hout, rp2, hg2, hb2⟩ :=
    commit_reports_own_digest_split H c pre mid post r id dig (es ▸ hs) hok' hmid
  have hlen : (pre ++ .commitCheck r id dig :: mid).length = j := by
    simp [hl1, hl2]; omega
  have es' : sched = (pre ++ .commitCheck r id dig :: mid) ++ .commitStore r id :: post := by
    rw [es]; simp
  refine ⟨rp, b, hb, hd, ?_, rp2, ?_, hb2⟩
  · have := aouts_at H c (pre ++ .commitCheck r id dig :: mid) (.commitStore r id) post
    rw [← es', hlen] at this
    rw [this, hout]
  · have : sched.take (j + 1) = pre ++ .commitCheck r id dig :: (mid ++ [.commitStore r id]) := by
      rw [es', ← hlen, take_length_succ_append]; simp
    rw [this]; exact hg2

end

open DualCommit in
/-- **F33, why the lock is needed.** Without `Buffer.commitMu` the schedule `DualCommit.sched` can
occur (two handles on one upload session; the hash is the identity): `Commit(d1)` checks the
buffer `[1]`, the other handle writes `[2]` and its `Commit(d2)` checks `[1,2]`, then the two
callbacks run. Both checks succeed; the callback that stores answers with the descriptor of `d2`
and the other one has nothing to store — so whichever of the two belongs to `Commit(d1)`, that
commit does not report `d1` —; afterwards the repository holds `d2` and NO blob `d1`, although
`Commit(d1)` passed its check. The schedule is not `CommitSerial`: the hypothesis of
`commit_reports_own_digest` cannot be dropped. -/
theorem dual_commit_anomaly_without_the_lock :
    aouts Hid c0 sched =
      [.okUnit, .okN 1, .okUnit, .okDesc ⟨octetStream, d2, 2⟩, .err "NOT-CHECKED"] ∧
    (getRepo (arun Hid c0 sched).st rD).map (fun rp => (alookup d1 rp.blobs, alookup d2 rp.blobs)) =
      some (none, some ⟨octetStream, d2, [], []⟩) ∧
    ¬ CommitSerial Hid c0 sched := by
  refine ⟨?_, ?_, ?_⟩ <;> decide

open DualCommit in
/-- A `Cancel` between the two sections of a `Commit` is not `CommitSerial` either (in Go, before
the fix, that window made the callback store an empty blob; the model does not follow the
callback there, and with the lock it need not). -/
theorem cancel_inside_commit_not_serial : ¬ CommitSerial Hid c0 cancelSched := by decide

/-! `CommitSerial` is not vacuous: `DualCommit.serialSched` has a write to the very session, a size
query, a whole commit and a refused commit of another session, a cancel of that other session and
a delete between the two sections of `Commit(d1)`, then a second commit of the session and a
cancel. It respects the lock, and `commit_reports_own_digest` applies to both of its commits. -/

open DualCommit in
example : CommitSerial Hid c0 serialSched := by decide

open DualCommit in
example : ∃ rp b, getBuffer (arun Hid c0 (serialSched.take 0)).st rD uD = some (rp, b) ∧ Hid b.buf = d1 ∧
    (aouts Hid c0 serialSched)[9]? = some (.okDesc ⟨octetStream, d1, b.buf.length⟩) ∧
    ∃ rp2, getRepo (arun Hid c0 (serialSched.take (9 + 1))).st rD = some rp2 ∧
      alookup d1 rp2.blobs = some ⟨octetStream, b.buf, [], []⟩ :=
  commit_reports_own_digest Hid c0 serialSched (by decide) (i := 0) (j := 9) rfl (by decide)
    (by decide) rfl (by
      intro k h1 h2
      have : k = 1 ∨ k = 2 ∨ k = 3 ∨ k = 4 ∨ k = 5 ∨ k = 6 ∨ k = 7 ∨ k = 8 := by omega
      rcases this with rfl | rfl | rfl | rfl | rfl | rfl | rfl | rfl <;> simp [serialSched, uD, vD])

open DualCommit in
/-- the outputs of the serial schedule: each of the two commits of session `u` reports its own digest -/
example : aouts Hid c0 serialSched =
    [.okUnit, .okN 1, .okN 2, .okUnit, .okN 1, .okDesc ⟨octetStream, [9], 1⟩, .err "DIGEST_INVALID",
     .okUnit, .okUnit, .okDesc ⟨octetStream, d1, 1⟩, .okUnit, .okN 1, .okDesc ⟨octetStream, d2, 2⟩, .okUnit] := by
  decide

/-! ### K7 — every concurrent history of the atomic-step model is linearizable

The pieces above (`astep_op_is_step`, `arun_ops_eq_run`: an `op` step is `Mem.step`, a schedule of whole
operations is their sequential run; `realtime_respected`, `step_positions_injective`: the order of the steps
is strict and agrees with real time — for a trace that is `WellFormed`, a hypothesis nothing produced) are
put together here for HISTORIES (`MemLin.lean`): events `inv client op` / `ret client out`; an execution
(`IsExec`) interleaves, for any number of clients, `inv c op`, `step c` — the atomic step `astep H · (.op op)`
of `c`'s pending call on the shared state — and `ret c out` with `out` the output of that step;
`Linearizable H s0 h` (defined on the history alone: `IsLinearization`) asks for a sequential order of the
completed operations (plus, possibly, operations still open) that respects real time and, run through
`Mem.step H` from `s0`, yields exactly the recorded outputs. Now the well-formedness that
`realtime_respected` assumed is a consequence of being an execution (`execution_history_well_formed`, and
inside the proof the invariant `MemLin.LInv`).

Scope: operations that are ONE atomic step. By `registry_methods_atomic` these are all the methods of
`*Registry`, and the methods of a chunked writer other than `Commit` (each one critical section of the buffer
lock, `lockset_ok`); the sequential `wCommit` too is such an operation of the model.

REMARK (not a theorem) — how the chunked `Buffer.Commit`, which is TWO atomic steps, fits. In an execution it
would contribute `commitCheck r id dig` and, if that answered `okUnit`, later `commitStore r id`.
  * A `Commit` whose check refuses is a one-step operation, linearized at `commitCheck`: that step has the
    effect and the output of the sequential `wCommit` (`sequential_commit_refines`, second half).
  * A `Commit` whose check succeeds has its linearization point at `commitStore`: with the commit lock
    (`CommitSerial`, from `generated_commit_serialized`) no other `Commit` / `Cancel` of the session falls
    between its two steps (`MemConc.commitSerial_window`), the store step answers `⟨octet-stream, dig, n⟩` for
    the digest asked and publishes exactly the checked bytes (`commit_reports_own_digest`), and publishing
    the blob — at that one step — is the only change `Commit` makes that any operation can observe
    (`commitCheck` only sets the flag `committed`, which `Mem.step` never reads, and records the snapshot).
    With nothing between the two steps the pair IS the sequential `wCommit` (`sequential_commit_refines`,
    first half).
  * What is NOT proved, and is false as an unqualified statement: that the pair equals `wCommit` placed at
    `commitStore` when other steps come between. A `Write` to the very session inside the window is not part
    of the stored blob (the check was made on the snapshot), whereas `wCommit` at the store point would hash
    the longer buffer and refuse. The sequential specification that `Commit` is linearizable against is
    therefore "check and snapshot the buffer as of some instant of the call, publish the snapshot at the
    linearization point" — `wCommit` exactly when no write to the session falls in the window. Proving the
    general statement (`commit_linearizes_at_store`) needs a commutation lemma — `commitCheck` moves right
    across every step that does not take the session's `commitMu` and does not write its buffer — over all
    22 operations; it is not done. `two_step_commit_is_not_wCommit` below is the counterexample, proved. -/

open DualCommit in
/-- The counterexamples behind the REMARK above (hash = identity, schedules that respect the commit lock).
(1) NOT `wCommit` at `commitStore`: in `serialSched` the `Commit(d1)` of session `u` checks `[1]`, a `Write [2]`
to `u` falls in the window, and the store step (position 9) answers `⟨octet-stream, d1, 1⟩`; the sequential
`wCommit d1` run at that very instant would hash `[1,2]` and answer DIGEST_INVALID.
(2) NOT `wCommit` at `commitCheck` either: a `ResolveBlob d1` between the two steps answers BLOB_UNKNOWN,
whereas after a `wCommit` placed at the check it finds the blob. So the blob is published at `commitStore`
(the linearization point) with the bytes as of `commitCheck`. -/
theorem two_step_commit_is_not_wCommit :
    (CommitSerial Hid c0 serialSched ∧
      (aouts Hid c0 serialSched)[9]? = some (.okDesc ⟨octetStream, d1, 1⟩) ∧
      (step Hid (arun Hid c0 (serialSched.take 9)).st (.wCommit rD uD d1)).2 = .err "DIGEST_INVALID") ∧
    (CommitSerial Hid c0 [.commitCheck rD uD d1, .op (.resolveBlob rD d1), .commitStore rD uD] ∧
      aouts Hid c0 [.commitCheck rD uD d1, .op (.resolveBlob rD d1), .commitStore rD uD] =
        [.okUnit, .err "BLOB_UNKNOWN", .okDesc ⟨octetStream, d1, 1⟩] ∧
      aouts Hid c0 [.op (.wCommit rD uD d1), .op (.resolveBlob rD d1)] =
        [.okDesc ⟨octetStream, d1, 1⟩, .okDesc ⟨octetStream, d1, 1⟩]) := by
  refine ⟨⟨?_, ?_, ?_⟩, ?_, ?_, ?_⟩ <;> decide

section
open OciModel.MemLin
variable (H : Bytes → Bytes)

/-- **Linearizability.** The history of EVERY execution of the atomic-step model — any number of clients,
any interleaving of their invocations, atomic steps and responses, from any shared state `c0`, for any hash,
operations possibly still open at the end — is linearizable with respect to the sequential semantics
`Mem.step H` started in `c0.st`. -/
theorem atomic_linearizable (c0 : CState) (ex : List XEv) (hex : IsExec H c0 ex) :
    Linearizable H c0.st (hist ex) := by
  unfold IsExec at hex
  cases hx : xrun H (xinit c0) ex with
  | none => rw [hx] at hex; cases hex
  | some x =>
    obtain ⟨lin, hl, _⟩ := exec_linearization H c0 ex hx
    exact ⟨lin, hl⟩

/-- In particular from the empty registry. -/
theorem atomic_linearizable_init (imm : Bool) (ex : List XEv) (hex : IsExec H ⟨Mem.init imm, []⟩ ex) :
    Linearizable H (Mem.init imm) (hist ex) :=
  atomic_linearizable H ⟨Mem.init imm, []⟩ ex hex

/-- **The linearization points are the atomic steps.** The witness is the order of the `step` events: the
operations that took their step, in that order (`stepOps ex`), are a linearization `lin` of the history;
their sequential run from `c0.st` ends in the registry state the execution ends in, and that execution's
shared state is the one the schedule of those atomic steps gives in `MemConc.arun`. -/
theorem atomic_linearizable_by_step_order (c0 : CState) (ex : List XEv) {x : XState}
    (hx : xrun H (xinit c0) ex = some x) :
    ∃ lin, IsLinearization H c0.st (hist ex) lin ∧ lin.map (·.op) = stepOps ex ∧
      (run H c0.st (stepOps ex)).1 = x.c.st ∧ x.c = arun H c0 ((stepOps ex).map .op) :=
  exec_linearization H c0 ex hx

/-- The history of an execution is well formed: every client alternates invocations and responses. -/
theorem execution_history_well_formed (c0 : CState) (ex : List XEv) (hex : IsExec H c0 ex) :
    WellFormedH (hist ex) := by
  unfold IsExec at hex
  cases hx : xrun H (xinit c0) ex with
  | none => rw [hx] at hex; cases hex
  | some x => exact wf_xrun H ex hx _ (fun _ => rfl)

end

/-! A concrete execution (`MemLin.Demo.ex`, three clients, the hash `TwoStep.Htoy`): client 1's `ResolveTag`
overlaps client 0's push and is ordered BEFORE it although it was called later; client 2's `ResolveTag`
is called after the push returned and is ordered after it; client 0's second push is still open but has
taken effect, client 1's `GetTag` is open and has not. -/

open OciModel.MemLin in
example : IsExec TwoStep.Htoy Demo.c0 Demo.ex := by decide

open OciModel.MemLin in
/-- its history -/
example : hist Demo.ex = Demo.h := rfl

open OciModel.MemLin in
example : WellFormedH Demo.h := by decide

open OciModel.MemLin in
/-- its linearization order is the order of the steps … -/
example : stepOps Demo.ex = Demo.lin.map (·.op) := rfl

open OciModel.MemLin in
/-- … and the sequential run of that order yields exactly the recorded outputs (for the open push: the
output it is going to return) -/
example : (run TwoStep.Htoy Demo.c0.st (Demo.lin.map (·.op))).2 = Demo.lin.map (·.out) := by decide

open OciModel.MemLin in
example : Linearizable TwoStep.Htoy Demo.c0.st Demo.h :=
  atomic_linearizable TwoStep.Htoy Demo.c0 Demo.ex (by decide)

open OciModel.MemLin in
/-- the hypotheses of `atomic_linearizable_init` and `atomic_linearizable_by_step_order` on that execution -/
example : IsExec TwoStep.Htoy ⟨Mem.init false, []⟩ Demo.ex := by decide

open OciModel.MemLin in
example : ∃ x, xrun TwoStep.Htoy (xinit Demo.c0) Demo.ex = some x :=
  Option.isSome_iff_exists.1 (show IsExec TwoStep.Htoy Demo.c0 Demo.ex by decide)

open OciModel.MemLin in
/-- the shared state `Demo.ex` ends in is that of the sequential run of its step order -/
example : ∀ x, xrun TwoStep.Htoy (xinit Demo.c0) Demo.ex = some x →
    (run TwoStep.Htoy Demo.c0.st (Demo.lin.map (·.op))).1 = x.c.st := fun _ hx =>
  (atomic_linearizable_by_step_order TwoStep.Htoy Demo.c0 Demo.ex hx).choose_spec.2.2.1

open OciModel.MemLin in
/-- `Linearizable` is not vacuous: a history in which a push has returned before `ResolveTag` is called and
`ResolveTag` nevertheless answers NAME_UNKNOWN has no linearization — so, by `atomic_linearizable`, no
execution of the atomic-step model produces it. -/
theorem stale_read_not_linearizable : ¬ Linearizable TwoStep.Htoy Demo.c0.st Demo.bad := by
  intro ⟨lin, L⟩
  have hpos : ∀ e ∈ lin, e.inv = 0 ∨ e.inv = 2 := by
    intro e he
    obtain ⟨c, hc, _⟩ := L.isInv e he
    generalize e.inv = i at hc
    match i, hc with
    | 0, _ => exact Or.inl rfl
    | 2, _ => exact Or.inr rfl
    | 1, hc => simp [Demo.bad] at hc
    | 3, hc => simp [Demo.bad] at hc
    | n + 4, hc => simp [Demo.bad] at hc
  have rA : Resp Demo.bad 0 0 1 (.okDesc TwoStep.d1) :=
    ⟨by omega, rfl, fun k e h1 h2 => by omega⟩
  have rB : Resp Demo.bad 2 1 3 (.err "NAME_UNKNOWN") :=
    ⟨by omega, rfl, fun k e h1 h2 => by omega⟩
  have hA := L.complete 0 0 _ 1 _ rfl rA
  have hB := L.complete 2 1 _ 3 _ rfl rB
  obtain ⟨p, hp⟩ := List.getElem?_of_mem hA
  obtain ⟨q, hq⟩ := List.getElem?_of_mem hB
  have hpq := L.realtime p q _ _ hp hq ⟨0, 1, _, rA, rfl, by decide⟩
  have hn := L.nodup
  have hs := L.sequential
  match lin, hp, hq, hpos, hn, hs with
  | [], hp, _, _, _, _ => simp at hp
  | [x], hp, hq, _, _, _ =>
    have hp' := get_lt hp
    have hq' := get_lt hq
    simp at hp' hq'
    omega
  | [x, y], hp, hq, _, _, hs =>
    have hp' := get_lt hp
    have hq' := get_lt hq
    simp at hp' hq'
    have h0 : p = 0 := by omega
    have h1 : q = 1 := by omega
    subst h0 h1
    simp at hp hq
    subst hp hq
    revert hs
    decide
  | x :: y :: z :: rest, _, _, hpos, hn, _ =>
    have hx := hpos x (by simp)
    have hy := hpos y (by simp)
    have hz := hpos z (by simp)
    simp at hn
    omega

end OciModel.Props.C08
