/-
C10 — The auth transport only uses tokens that are sufficient, fresh and its own.

Theorems about the model of `ociauth`'s transport (`OciModel/AuthTransport.lean`);
the scope algebra is the one of C09 (`contains_iff_subset`, `mem_union`,
`union_noop_returns_receiver`, `parseScope_wf`). The proofs assemble the lemmas of
`OciModel/AuthLemmas.lean`.

Every theorem is for ALL environments, times, requests and states satisfying the
invariant `J` (see `Props/C11.lean`: it holds initially and each critical section
preserves it), so the per-section statements hold under every interleaving of the
sections of concurrent calls; `Reach` quantifies over all such histories.
Logical time is in milliseconds; the code's one-second margin is `marginMs`.
-/
import OciModel.AuthLemmas
import OciModel.AuthShape
import OciModel.Props.C09
namespace OciModel.Props.C10
open OciModel OciModel.Auth OciModel.Scope

/-! ### Provenance: the token is the transport's own, for that host -/

/-- Per call: a Bearer token presented to the registry is (a) a cached token, or
(b) one the token server just delivered in the first section, or (c) one it just
delivered in answer to the challenge of the first response. In every case it is
in the cache afterwards under the scope that was asked for. -/
theorem bearer_provenance (env : Env) (now : Nat) (st : HostSt) (req : ReqInfo)
    (hr : WF req.required) (hw : WF req.want) {host : Bytes} {a : Atom}
    (hm : Msg.registry host (.bearer a) ∈ (roundTrip env now st req).2.1) :
    (∃ t ∈ st.toks, t.tok = a) ∨
    (∃ ph tk ac rf e, Delivered env ph tk ac rf e ∧ a = ⟨st.host, .access, pickToken tk ac⟩) := by
  rcases roundTrip_bearer env now st req hr hw hm with ⟨t, ht, h, _⟩ | ⟨_, tk, ac, rf, e, hd, ha, _⟩ |
    ⟨_, _, _, tk, ac, rf, e, _, _, _, hd, ha, _⟩
  · exact Or.inl ⟨t, ht, h⟩
  · exact Or.inr ⟨0, tk, ac, rf, e, hd, ha⟩
  · exact Or.inr ⟨1, tk, ac, rf, e, hd, ha⟩

/-- Over every history (any interleaving of critical sections, any environments):
every cached token is the configured access token of this host or was delivered
by a token server in answer to a token request made from this host's state. -/
theorem cache_provenance_history {host : Bytes} {e : ConfigEntry} {st : HostSt} {envs : List Env}
    (h : Reach host e st envs) : ∀ t ∈ st.toks, Known e envs t.tok.val := reach_known h

/-- Over every history: a Bearer token presented to the registry by the next call
is the configured access token of this host or was delivered, to this host's
state, by a token server in this or an earlier section; it is an access-token
atom of this host. -/
theorem bearer_provenance_history {host : Bytes} {e : ConfigEntry} {st : HostSt} {envs : List Env}
    (h : Reach host e st envs) (env : Env) (now : Nat) (req : ReqInfo)
    (hr : WF req.required) (hw : WF req.want) {dest : Bytes} {a : Atom}
    (hm : Msg.registry dest (.bearer a) ∈ (roundTrip env now st req).2.1) :
    dest = host ∧ a.origin = host ∧ a.kind = .access ∧ Known e (env :: envs) a.val := by
  obtain ⟨hJ, hh⟩ := reach_J h
  have hown := roundTrip_own env now st req hJ hr hw _ hm
  obtain ⟨hd, ho, hk⟩ := hown
  refine ⟨hd.trans hh, ho.trans hh, hk, ?_⟩
  rcases bearer_provenance env now st req hr hw hm with ⟨t, ht, rfl⟩ | ⟨ph, tk, ac, rf, ex, hdl, rfl⟩
  · exact (reach_known h t ht).mono env
  · exact Or.inr ⟨env, by simp, ph, tk, ac, rf, ex, hdl, rfl⟩

/-- A token recorded in the cache by a section was delivered in that section and
is recorded under the scope that was asked for in a token request of that section. -/
theorem cache_growth_section2 (env : Env) (now : Nat) (st : HostSt) (ch : Chal) (req : ReqInfo) :
    ∀ t ∈ (section2 env now st ch req).1.toks,
      t ∈ st.toks ∨ ∃ tk ac rf ex, Delivered env 1 tk ac rf ex ∧ t.tok.val = pickToken tk ac :=
  section2_toks_prov env now st ch req

theorem cache_growth_section1 (env : Env) (now : Nat) (st : HostSt) (req : ReqInfo) :
    ∀ t ∈ (section1 env now st req).1.toks,
      t ∈ st.toks ∨ ∃ tk ac rf ex, Delivered env 0 tk ac rf ex ∧ t.tok.val = pickToken tk ac :=
  section1_toks_prov env now st req

/-- A token cached in answer to a challenge is recorded under exactly the scope
whose text was sent in one of the token requests of that section (so the cache
never claims more than was asked of the token server); likewise for the
pre-emptive acquisition of the first section. -/
theorem cache_records_requested_scope (env : Env) (now : Nat) (st : HostSt) (ch : Chal) (req : ReqInfo)
    {sc : Scope} {a : Atom} {exp : Nat} :
    ((section2 env now st ch req).1.toks = st.toks ++ [⟨sc, a, exp⟩] →
      ∃ m ∈ (section2 env now st ch req).2.1, TokMsg (setChallenge st ch) ch sc m) ∧
    ((section1 env now st req).1.toks = (prune now st).toks ++ [⟨sc, a, exp⟩] →
      ∃ ch', st.challenge = some ch' ∧
        ∃ m ∈ (section1 env now st req).2.1, TokMsg (prune now st) ch' sc m) :=
  ⟨section2_recorded env now st ch req, section1_recorded env now st req⟩

/-! ### Freshness -/

/-- A token taken from the cache expires at least one second after `now`. -/
theorem bearer_fresh (env : Env) (now : Nat) (st : HostSt) (req : ReqInfo) {a : Atom}
    (h : (section1 env now st req).2.2 = some (.bearer a)) (hsilent : (section1 env now st req).2.1 = []) :
    ∃ t ∈ st.toks, t.tok = a ∧ now + marginMs ≤ t.expires := by
  rcases section1_bearer env now st req h with ⟨t, ht, h1, h2, _⟩ | ⟨_, _, _, _, _, _, _, _, _, _, _, _, _, hne⟩
  · exact ⟨t, ht, h1, h2⟩
  · exact absurd hsilent hne

/-- After the first section nothing in the cache expires within the next second
(expired tokens are dropped, new ones live at least one second). -/
theorem cache_fresh_after_section1 (env : Env) (now : Nat) (st : HostSt) (req : ReqInfo) :
    ∀ t ∈ (section1 env now st req).1.toks, now + marginMs ≤ t.expires :=
  section1_toks_fresh env now st req

/-! ### Coverage -/

/-- The full case analysis behind freshness and coverage, per call. -/
-- F39: second case (token acquired pre-emptively, before the first attempt): the scope
-- it is recorded under contains `requestable req.required`, which is `req.required`
-- whenever that is limited (`preemptive_bearer_covers_limited_required` below). An
-- unlimited required scope cannot be asked of a token server, and since the fix the
-- cache no longer pretends that the token delivered covers it.
theorem bearer_covers (env : Env) (now : Nat) (st : HostSt) (req : ReqInfo)
    (hr : WF req.required) (hw : WF req.want) {host : Bytes} {a : Atom}
    (hm : Msg.registry host (.bearer a) ∈ (roundTrip env now st req).2.1) :
    (∃ t ∈ st.toks, t.tok = a ∧ now + marginMs ≤ t.expires ∧ contains t.scope req.required = true) ∨
    (∃ sc tk ac rf e, Delivered env 0 tk ac rf e ∧ a = ⟨st.host, .access, pickToken tk ac⟩ ∧
        contains sc (requestable req.required) = true ∧
        (⟨sc, a, now + lifeOf e * 1000⟩ : Tok) ∈ (section1 env now st req).1.toks) ∨
    (∃ hdrs ch sc tk ac rf e, env.reg 0 = .resp 401 hdrs ∧ chalOf st.host hdrs = some ch ∧
        ch.scheme = .bearer ∧ Delivered env 1 tk ac rf e ∧ a = ⟨st.host, .access, pickToken tk ac⟩ ∧
        contains sc (parseScope ch.scope) = true ∧
        (⟨sc, a, now + lifeOf e * 1000⟩ : Tok) ∈ (section2 env now (section1 env now st req).1 ch req).1.toks) :=
  roundTrip_bearer env now st req hr hw hm

/-- F39: the reading of `bearer_covers` before the fix, for every limited required
scope (the only ones it was true for: the scope a token was asked under is never
unlimited, `token_server_never_asked_for_unlimited`). -/
theorem preemptive_bearer_covers_limited_required (env : Env) (now : Nat) (st : HostSt) (req : ReqInfo)
    (hr : WF req.required) (hw : WF req.want) (lr : req.required.unlimited = false) {host : Bytes} {a : Atom}
    (hm : Msg.registry host (.bearer a) ∈ (roundTrip env now st req).2.1) :
    (∃ t ∈ st.toks, t.tok = a ∧ now + marginMs ≤ t.expires ∧ contains t.scope req.required = true) ∨
    (∃ sc tk ac rf e, Delivered env 0 tk ac rf e ∧ a = ⟨st.host, .access, pickToken tk ac⟩ ∧
        contains sc req.required = true ∧
        (⟨sc, a, now + lifeOf e * 1000⟩ : Tok) ∈ (section1 env now st req).1.toks) ∨
    (∃ hdrs ch sc tk ac rf e, env.reg 0 = .resp 401 hdrs ∧ chalOf st.host hdrs = some ch ∧
        ch.scheme = .bearer ∧ Delivered env 1 tk ac rf e ∧ a = ⟨st.host, .access, pickToken tk ac⟩ ∧
        contains sc (parseScope ch.scope) = true ∧
        (⟨sc, a, now + lifeOf e * 1000⟩ : Tok) ∈ (section2 env now (section1 env now st req).1 ch req).1.toks) := by
  have h := bearer_covers env now st req hr hw hm
  rwa [requestable_of_limited lr] at h

/-- Coverage as set inclusion (C09's `contains_iff_subset`): a cached token of a
limited scope that is reused confers every resource scope the request requires. -/
theorem cached_bearer_covers_as_sets (env : Env) (now : Nat) (st : HostSt) (req : ReqInfo) (hJ : J st)
    (hr : WF req.required) (hl : req.required.unlimited = false) {a : Atom}
    (h : (section1 env now st req).2.2 = some (.bearer a)) (hsilent : (section1 env now st req).2.1 = []) :
    ∃ t ∈ st.toks, t.tok = a ∧ (t.scope.unlimited = true ∨ ∀ r, Mem r req.required → Mem r t.scope) := by
  rcases section1_bearer env now st req h with ⟨t, ht, h1, _, hc, _⟩ | ⟨_, _, _, _, _, _, _, _, _, _, _, _, _, hne⟩
  · refine ⟨t, ht, h1, ?_⟩
    cases hu : t.scope.unlimited with
    | true => exact Or.inl rfl
    | false => exact Or.inr ((C09.contains_iff_subset t.scope req.required (hJ.tok_wf t ht) hr hu hl).mp hc)
  · exact absurd hsilent hne

/-- A token acquired in answer to a challenge is recorded under a scope that
contains the challenge's scope (`mem_union`), was delivered by the token server
in this section, and `tokenAcquired` is reported. -/
theorem fresh_bearer_covers_challenge (env : Env) (now : Nat) (st : HostSt) (ch : Chal) (req : ReqInfo)
    (hr : WF req.required) (hw : WF req.want) {a : Atom} {acq : Bool}
    (h : (section2 env now st ch req).2.2 = .added (.bearer a) acq) :
    ∃ sc tk ac rf e, Delivered env 1 tk ac rf e ∧ a = ⟨st.host, .access, pickToken tk ac⟩ ∧
      (section2 env now st ch req).1.toks = st.toks ++ [⟨sc, a, now + lifeOf e * 1000⟩] ∧
      contains sc (parseScope ch.scope) = true := by
  obtain ⟨_, _, sc, tk, ac, rf, e, _, hd, ha, ht, _, hc⟩ := section2_bearer env now st ch req hr hw h
  exact ⟨sc, tk, ac, rf, e, hd, ha, ht, hc⟩

/-! ### A cache hit is silent -/

/-- With a cached token that is valid one second from now and whose scope
contains the required scope, `setAuthorization` sends nothing and uses such a
token. -/
theorem cache_hit_is_silent_section (env : Env) (now : Nat) (st : HostSt) (req : ReqInfo)
    (h : ∃ t ∈ st.toks, now + marginMs ≤ t.expires ∧ contains t.scope req.required = true) :
    ∃ t' ∈ st.toks, now + marginMs ≤ t'.expires ∧ contains t'.scope req.required = true ∧
      section1 env now st req = (prune now st, [], some (.bearer t'.tok)) :=
  section1_cache_hit env now st req h

/-- … and the call starts with the forwarded request carrying it; unless the
registry answers 401 with an acceptable challenge, that request is the only
message of the call: no token request, no second round trip. -/
theorem cache_hit_is_silent (env : Env) (now : Nat) (st : HostSt) (req : ReqInfo)
    (h : ∃ t ∈ st.toks, now + marginMs ≤ t.expires ∧ contains t.scope req.required = true) :
    ∃ t' ∈ st.toks, now + marginMs ≤ t'.expires ∧ contains t'.scope req.required = true ∧
      (∃ rest, (roundTrip env now st req).2.1 = Msg.registry st.host (.bearer t'.tok) :: rest) ∧
      (NoChallenge env st.host →
        (roundTrip env now st req).2.1 = [Msg.registry st.host (.bearer t'.tok)] ∧
        (roundTrip env now st req).1 = prune now st) :=
  roundTrip_cache_hit env now st req h

/-! ### What a token request asks for -/

/-- In answer to a Bearer challenge every token request asks for
`challenge scope ∪ (want ∪ required)` or, after a 401 from the token server, for
the challenge scope alone; it goes to the challenge's realm with its service. -/
-- F39: `want` and `required` enter with their requestable parts (themselves when
-- limited, nothing when unlimited: `mem_requestable`), so the challenge scope is
-- always in the request.
-- was: TokMsg … (union (parseScope ch.scope) (union req.want req.required)) m ∨ …
theorem token_request_scope (env : Env) (now : Nat) (st : HostSt) (ch : Chal) (req : ReqInfo) :
    ∀ m ∈ (section2 env now st ch req).2.1,
      ch.scheme = .bearer ∧
      (TokMsg (setChallenge st ch) ch
          (union (parseScope ch.scope) (union (requestable req.want) (requestable req.required))) m ∨
        TokMsg (setChallenge st ch) ch (parseScope ch.scope) m) := by
  intro m hm
  obtain ⟨h1, h2, _⟩ := section2_tokmsgs env now st ch req m hm
  exact ⟨h1, h2⟩

/-- A pre-emptive token request (refresh-token flow of the first section) asks for
`required ∪ want`, or `required` alone after a 401. -/
-- F39: with their requestable parts.
-- was: TokMsg … (union req.required req.want) m ∨ TokMsg … req.required m
theorem token_request_scope_preemptive (env : Env) (now : Nat) (st : HostSt) (req : ReqInfo) :
    ∀ m ∈ (section1 env now st req).2.1,
      ∃ ch, st.challenge = some ch ∧ ch.scheme = .bearer ∧
        (TokMsg (prune now st) ch (union (requestable req.required) (requestable req.want)) m ∨
          TokMsg (prune now st) ch (requestable req.required) m) := by
  intro m hm
  obtain ⟨ch, h1, h2, _, h4, _⟩ := section1_tokmsgs env now st req m hm
  exact ⟨ch, h1, h2, h4⟩

/-- The printed scope of the wide request is the union as a set
(`mem_union`) and, when `want ∪ required` adds nothing to the challenge's scope,
it is the challenge's own scope text, byte for byte (`union_noop_returns_receiver`). -/
-- F39: for EVERY required and desired scope — the hypotheses
-- `lr : req.required.unlimited = false` and `lw : req.want.unlimited = false` are gone;
-- the scope printed is the one of `token_request_scope`; third conjunct new: it is
-- never the unlimited scope.
theorem token_request_text (ch : Chal) (req : ReqInfo) (hr : WF req.required) (hw : WF req.want) :
    (∀ r, Mem r (union (parseScope ch.scope) (union (requestable req.want) (requestable req.required))) ↔
      Mem r (parseScope ch.scope) ∨ Mem r req.want ∨ Mem r req.required) ∧
    ((∀ r, Mem r req.want ∨ Mem r req.required → Mem r (parseScope ch.scope)) →
      toStr (union (parseScope ch.scope) (union (requestable req.want) (requestable req.required))) = ch.scope) ∧
    (union (parseScope ch.scope) (union (requestable req.want) (requestable req.required))).unlimited = false := by
  have lw := requestable_limited req.want
  have lr := requestable_limited req.required
  have hw' := requestable_wf hw
  have hr' := requestable_wf hr
  have lu := union_requestable_limited req.want req.required
  have wu := C09.union_wf _ _ hw' hr'
  refine ⟨?_, ?_, ?_⟩
  · intro r
    rw [C09.mem_union _ _ (C09.parseScope_wf _) wu (parseScope_limited _) lu,
      C09.mem_union _ _ hw' hr' lw lr, mem_requestable, mem_requestable]
  · intro hsub
    rw [C09.union_noop_returns_receiver _ _ (C09.parseScope_wf _) wu (parseScope_limited _) lu, toStr_parseScope]
    intro r hr''
    have h := (C09.mem_union _ _ hw' hr' lw lr r).mp hr''
    rw [mem_requestable, mem_requestable] at h
    exact hsub r h
  · rw [union_unlimited_eq, parseScope_limited, lu]; rfl

/-- F39: the same for the pre-emptive request of the first section: as a set it is
`required ∪ want`, whatever the two scopes, and it is never the unlimited scope;
the retry after a 401 asks for `required` as a set. -/
theorem token_request_text_preemptive (req : ReqInfo) (hr : WF req.required) (hw : WF req.want) :
    (∀ r, Mem r (union (requestable req.required) (requestable req.want)) ↔ Mem r req.required ∨ Mem r req.want) ∧
    (union (requestable req.required) (requestable req.want)).unlimited = false ∧
    (∀ r, Mem r (requestable req.required) ↔ Mem r req.required) ∧
    (requestable req.required).unlimited = false := by
  refine ⟨?_, union_requestable_limited _ _, mem_requestable _, requestable_limited _⟩
  intro r
  rw [C09.mem_union _ _ (requestable_wf hr) (requestable_wf hw) (requestable_limited _) (requestable_limited _),
    mem_requestable, mem_requestable]

/-- F39: no token request of either section asks for the unlimited scope (whose
text would be `*`): the scope it was made for is limited. -/
theorem token_server_never_asked_for_unlimited (env : Env) (now : Nat) (st : HostSt) (ch : Chal) (req : ReqInfo) :
    (∀ m ∈ (section2 env now st ch req).2.1,
      ∃ sc, sc.unlimited = false ∧ TokMsg (setChallenge st ch) ch sc m) ∧
    (∀ m ∈ (section1 env now st req).2.1,
      ∃ ch' sc, st.challenge = some ch' ∧ sc.unlimited = false ∧ TokMsg (prune now st) ch' sc m) := by
  constructor
  · intro m hm
    obtain ⟨_, h | h, _⟩ := section2_tokmsgs env now st ch req m hm
    · refine ⟨_, ?_, h⟩
      rw [union_unlimited_eq, parseScope_limited, union_requestable_limited]; rfl
    · exact ⟨_, parseScope_limited _, h⟩
  · intro m hm
    obtain ⟨ch', h1, _, _, h | h, _⟩ := section1_tokmsgs env now st req m hm
    · exact ⟨ch', _, h1, union_requestable_limited _ _, h⟩
    · exact ⟨ch', _, h1, requestable_limited _, h⟩

/-- F39: a token delivered by a token server is never cached as good for every
scope: whatever a section adds to the cache has a limited scope … -/
theorem cache_never_records_unlimited (env : Env) (now : Nat) (st : HostSt) (ch : Chal) (req : ReqInfo) :
    (∀ t ∈ (section2 env now st ch req).1.toks, t ∈ st.toks ∨ t.scope.unlimited = false) ∧
    (∀ t ∈ (section1 env now st req).1.toks, t ∈ st.toks ∨ t.scope.unlimited = false) :=
  ⟨section2_toks_limited env now st ch req, section1_toks_limited env now st req⟩

/-- … so over every history the only cached token that covers every scope is the
access token configured for this host. -/
theorem unlimited_token_is_the_configured_one {host : Bytes} {e : ConfigEntry} {st : HostSt} {envs : List Env}
    (h : Reach host e st envs) :
    ∀ t ∈ st.toks, t.scope.unlimited = true → t.tok = ⟨host, .access, e.accessToken⟩ ∧ e.accessToken ≠ [] :=
  reach_unlimited_configured h

/-- The fallback request prints the challenge's scope text unchanged. -/
theorem token_request_fallback_text (ch : Chal) : toStr (parseScope ch.scope) = ch.scope :=
  toStr_parseScope ch.scope

/-! ### Facts regenerated from the source -/

theorem shape_known : Generated.AuthFacts.shapeKnown = true := by decide
theorem shape_accessTokenForScope :
    AuthShape.fingerprint "registry.accessTokenForScope" = some AuthShape.registry_accessTokenForScope := by decide
theorem shape_deleteExpiredTokens :
    AuthShape.fingerprint "registry.deleteExpiredTokens" = some AuthShape.registry_deleteExpiredTokens := by decide
theorem shape_acquireAccessToken :
    AuthShape.fingerprint "registry.acquireAccessToken" = some AuthShape.registry_acquireAccessToken := by decide
theorem shape_setAuthorization :
    AuthShape.fingerprint "registry.setAuthorization" = some AuthShape.registry_setAuthorization := by decide
theorem shape_setAuthorizationFromChallenge :
    AuthShape.fingerprint "registry.setAuthorizationFromChallenge" =
      some AuthShape.registry_setAuthorizationFromChallenge := by decide
theorem shape_init : AuthShape.fingerprint "registry.init" = some AuthShape.registry_init := by decide
/-- F39: the helper the model's `requestable` mirrors. -/
theorem shape_requestableScope :
    AuthShape.fingerprint "requestableScope" = some AuthShape.requestableScope := by decide
/-- The constants the model uses for the margin and the default lifetime are the
ones in the fingerprinted calls (`Add(time.Second)`, `Add(60 * time.Second)`).
-- F41: the other lifetime is `seconds` (the clamped `expires_in`: `consumer_as_modelled` in `Props/C10T.lean`
-- pins the clamp, `maxExpirySec` is `math.MaxInt64 / int64(time.Second)`) times `time.Second`. -/
theorem time_constants :
    marginMs = 1000 ∧ defaultExpirySec = 60 ∧ maxExpirySec = 9223372036854775807 / 1000000000 ∧
    "r.deleteExpiredTokens(time.Now().UTC().Add(time.Second))" ∈ AuthShape.registry_setAuthorization.calls ∧
    "now.Add(60 * time.Second)" ∈ AuthShape.registry_acquireAccessToken.calls ∧
    "now.Add(time.Duration(seconds) * time.Second)" ∈ AuthShape.registry_acquireAccessToken.calls := by decide

/-! ### The hypotheses are satisfiable by non-trivial values -/

/-- "repository:foo:pull" and "repository:foo:pull,push". -/
def exPull : Scope := parseScope (strBytes "repository:foo:pull")
def exBoth : Scope := parseScope (strBytes "repository:foo:pull,push")

/-- Host "r" with a cached token "T" for pull+push valid until t = 5000 and a
stored Bearer challenge. -/
def exSt : HostSt :=
  { host := [114]
    challenge := some ⟨[114], .bearer, [98], [], strBytes "repository:foo:pull"⟩
    toks := [⟨exBoth, ⟨[114], .access, [84]⟩, 5000⟩]
    refresh := none
    basic := none }

example : WF exPull ∧ WF exBoth := ⟨parseScope_wf _, parseScope_wf _⟩
example : J exSt := by
  refine ⟨?_, ?_, ?_, ?_, ?_⟩
  · intro t ht; simp [exSt] at ht; subst ht; exact ⟨rfl, rfl⟩
  · intro t ht; simp [exSt] at ht; subst ht; exact parseScope_wf _
  · intro a h; simp [exSt] at h
  · intro u p h; simp [exSt] at h
  · intro ch h; simp [exSt] at h; subst h; rfl
/-- The premise of `cache_hit_is_silent` holds at t = 1000 for a pull request … -/
example : ∃ t ∈ exSt.toks, 1000 + marginMs ≤ t.expires ∧ contains t.scope exPull = true :=
  ⟨_, List.mem_cons_self, by decide, by decide⟩
/-- … and not at t = 4001 (less than a second left): then the token is dropped. -/
example : (prune 4001 exSt).toks = [] ∧ (prune 4000 exSt).toks = exSt.toks := by decide
/-- The premise of the second half of `token_request_text` holds for challenge
scope "repository:foo:pull,push", want = pull, required = pull. -/
example : ∀ r, Mem r exPull ∨ Mem r exPull → Mem r exBoth := by
  intro r h
  have := (C09.contains_iff_subset exBoth exPull (parseScope_wf _) (parseScope_wf _)
    (parseScope_limited _) (parseScope_limited _)).mp (by decide) r
  rcases h with h | h <;> exact this h
/-- … so the request prints the challenge's own text. -/
example : toStr (union exBoth (union (requestable exPull) (requestable exPull))) = strBytes "repository:foo:pull,push" :=
  (token_request_text ⟨[114], .bearer, [98], [], strBytes "repository:foo:pull,push"⟩ ⟨exPull, exPull⟩
    (parseScope_wf _) (parseScope_wf _)).2.1 (by
      intro r h
      have := (C09.contains_iff_subset exBoth exPull (parseScope_wf _) (parseScope_wf _)
        (parseScope_limited _) (parseScope_limited _)).mp (by decide) r
      rcases h with h | h <;> exact this h)
/-- F39: the same with an UNLIMITED desired scope (`ContextWithScope(ctx, UnlimitedScope())`),
required = pull: the request still prints the challenge's own text, not `*` … -/
example : toStr (union exBoth (union (requestable unlimitedScope) (requestable exPull))) =
    strBytes "repository:foo:pull,push" :=
  (token_request_text ⟨[114], .bearer, [98], [], strBytes "repository:foo:pull,push"⟩ ⟨exPull, unlimitedScope⟩
    (parseScope_wf _) wf_unlimitedScope).2.1 (by
      intro r h
      have := (C09.contains_iff_subset exBoth exPull (parseScope_wf _) (parseScope_wf _)
        (parseScope_limited _) (parseScope_limited _)).mp (by decide) r
      rcases h with h | h
      · exact absurd h (by simp [Mem, iter, unlimitedScope])
      · exact this h)
/-- … and when the challenge names less than is required (challenge pull, required
pull+push, desired unlimited) the request is the text of challenge ∪ required; before
the fix it was `*` (`toStr unlimitedScope`). -/
example : toStr (union exPull (union (requestable unlimitedScope) (requestable exBoth))) =
    strBytes "repository:foo:pull,push" ∧ toStr (union exPull (union unlimitedScope exBoth)) = [42] := by
  decide +kernel
/-- The run of the auditor's reproduction in the model: host "r", no credentials, first
request (required pull, desired unlimited) answered 401 with a Bearer challenge for
scope "repository:foo:pull"; the token server delivers "T". The token request carries
the challenge's scope text, and "T" is cached under the challenge's scope — not under the
unlimited scope. -/
def exEnv : Env :=
  { reg := fun i => if i = 0 then .resp 401 [strBytes "Bearer realm=\"b\",scope=\"repository:foo:pull\""] else .resp 200 []
    tok := fun _ _ _ => .json [84] [] [] 3600
    realmOk := fun _ => true }
def exFresh : HostSt := { host := [114], challenge := none, toks := [], refresh := none, basic := none }
example :
    (roundTrip exEnv 0 exFresh ⟨exPull, unlimitedScope⟩).2.1 =
      [Msg.registry [114] .none,
       Msg.tokenGET [98] [114] none (strBytes "repository:foo:pull") [],
       Msg.registry [114] (.bearer ⟨[114], .access, [84]⟩)] ∧
    (roundTrip exEnv 0 exFresh ⟨exPull, unlimitedScope⟩).1.toks =
      [⟨exPull, ⟨[114], .access, [84]⟩, 3600000⟩] := by decide +kernel

end OciModel.Props.C10
