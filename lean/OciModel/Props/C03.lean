import OciModel.ReqCodec
namespace OciModel.Props.C03
open OciModel.ReqCodec

/-- placeholder until the request-codec proofs are merged -/
theorem rangeString_zero : rangeString 0 0 = (0, 0) := by decide

end OciModel.Props.C03
