/-
C03 — the request codec (`internal/ocirequest`): what the client constructs the
server classifies as the same request (Q1), every classified request carries only
syntactically valid names (Q2), and each path family accepts exactly the methods of
the table (Q3).
Only property statements live here; every proof assembles lemmas from
`OciModel/ReqCodecLemmas.lean`.
-/
import OciModel.ReqCodec
import OciModel.ReqCodecLemmas
import OciModel.B64Url
import OciModel.B64UrlLemmas
import OciModel.Generated.ClientCfg
namespace OciModel.Props.C03
open OciModel.Ref OciModel.ReqCodec

/-! ### Concrete witnesses used by the satisfiability `example`s -/

/-- `sha256:` followed by 64 times `a` -/
def exDigest : Bytes := sha256 ++ cColon :: List.replicate 64 97
/-- a repository that ends in the routing words `blobs/uploads` -/
def exRepo : Bytes := strBytes "foo/blobs/uploads"
/-- an upload ID (any bytes; here with a `/` and a `?` in it) -/
def exID : Bytes := strBytes "a/b?c"

def exBlobGet : Request := { kind := .blobGet, repo := exRepo, digest := exDigest }
def exManifestPut : Request := { kind := .manifestPut, repo := strBytes "manifests/tags", tag := strBytes "uploads" }
def exManifestGetList : Request := { kind := .manifestGet, repo := strBytes "tags", tag := strBytes "list" }
def exTagsList : Request := { kind := .tagsList, repo := strBytes "v2/a_catalog/tags/list", listN := 2, listLast := strBytes "a" }
def exComplete : Request :=
  { kind := .blobCompleteUpload, repo := exRepo, uploadID := exID, digest := exDigest }
def exStart : Request := { kind := .blobStartUpload, repo := exRepo }
def exMount : Request :=
  { kind := .blobMount, repo := exRepo, digest := exDigest, fromRepo := strBytes "blobs/uploads" }
def exCatalog : Request := { kind := .catalogList, listN := -1 }

/-- Construct with the concrete base64url codec, then parse. -/
def roundTrip (r : Request) : Except PErr Request :=
  let (m, p, q) := construct B64Url.encode r
  parse B64Url.decode B64Url.validUTF8 m p (qget q)

/-! ### Q1: the server classifies exactly the request the client constructed -/

/-- The statement as first posed (no bound on `listN`). It is FALSE for the model as written:
the model's `listN` is an unbounded `Int` where Go has an `int`, and `atoi` (like
`strconv.Atoi`) rejects `n > 2^63 - 1`; see `construct_parse_listN_overflow`. -/
def construct_parse_statement : Prop :=
  ∀ (b64 : Bytes → Bytes) (unb64 : Bytes → Option Bytes) (validUTF8 : Bytes → Bool),
    (∀ x, unb64 (b64 x) = some x) → (∀ x, x ≠ [] → b64 x ≠ []) → (∀ x, (47 : UInt8) ∉ b64 x) →
    ∀ r, ValidReq validUTF8 r →
      let (m, p, q) := construct b64 r
      parse unb64 validUTF8 m p (qget q) = .ok r

/-- All 17 kinds, every valid repository name, tag and digest; the only addition to the
posed statement is that `listN` fits a Go `int` (`maxInt64 = 2^63 - 1`). No kind is missing. -/
theorem construct_parse_partial (b64 : Bytes → Bytes) (unb64 : Bytes → Option Bytes)
    (validUTF8 : Bytes → Bool)
    (hb : ∀ x, unb64 (b64 x) = some x) (hne : ∀ x, x ≠ [] → b64 x ≠ [])
    (hns : ∀ x, (47 : UInt8) ∉ b64 x)
    (r : Request) (hv : ValidReq validUTF8 r) (hN : r.listN ≤ maxInt64) :
    let (m, p, q) := construct b64 r
    parse unb64 validUTF8 m p (qget q) = .ok r :=
  construct_parse_aux b64 unb64 validUTF8 hb hne hns r hv hN

/-- The posed statement, unchanged, for the 15 kinds that carry no `n` parameter. -/
theorem construct_parse_nonlist (b64 : Bytes → Bytes) (unb64 : Bytes → Option Bytes)
    (validUTF8 : Bytes → Bool)
    (hb : ∀ x, unb64 (b64 x) = some x) (hne : ∀ x, x ≠ [] → b64 x ≠ [])
    (hns : ∀ x, (47 : UInt8) ∉ b64 x)
    (r : Request) (hv : ValidReq validUTF8 r)
    (h1 : r.kind ≠ .tagsList) (h2 : r.kind ≠ .catalogList) :
    let (m, p, q) := construct b64 r
    parse unb64 validUTF8 m p (qget q) = .ok r :=
  construct_parse_aux b64 unb64 validUTF8 hb hne hns r hv (validReq_listN_le hv h1 h2)

/-- Why the bound is there: a valid `tagsList` with `listN = 2^63` is constructed as
`?n=9223372036854775808`, which the server answers with 400. (A model artefact: Go's `ListN`
is an `int` and cannot hold this value.) -/
theorem construct_parse_listN_overflow :
    ValidReq B64Url.validUTF8 { kind := .tagsList, repo := strBytes "foo", listN := 9223372036854775808 } ∧
    roundTrip { kind := .tagsList, repo := strBytes "foo", listN := 9223372036854775808 } =
      .error .badRequest := by
  refine ⟨⟨by decide, by decide, rfl⟩, by decide⟩

/-- The posed statement is false for the model as written (see above: a model artefact of
`listN : Int`, not a routing defect). -/
theorem construct_parse_statement_false : ¬ construct_parse_statement := by
  intro h
  have h1 := h B64Url.encode B64Url.decode B64Url.validUTF8 B64Url.decode_encode
    B64Url.encode_ne_nil B64Url.encode_no_slash _ construct_parse_listN_overflow.1
  have e : (Except.ok _ : Except PErr Request) = .error .badRequest :=
    h1.symm.trans construct_parse_listN_overflow.2
  cases e

/-- The concrete codec (Go's `base64.RawURLEncoding`, `utf8.Valid`) satisfies the three codec
hypotheses, so for it the round trip holds outright. -/
theorem construct_parse_b64url (r : Request) (hv : ValidReq B64Url.validUTF8 r)
    (hN : r.listN ≤ maxInt64) : roundTrip r = .ok r :=
  construct_parse_aux B64Url.encode B64Url.decode B64Url.validUTF8 B64Url.decode_encode
    B64Url.encode_ne_nil B64Url.encode_no_slash r hv hN

/-- The decimal printer and `atoi` agree on every `n` that fits an `int` (proved, not assumed). -/
theorem atoi_itoa (n : Int) (h0 : 0 ≤ n) (hmax : n ≤ maxInt64) : atoi (itoa n) = some n :=
  OciModel.ReqCodec.atoi_itoa n h0 hmax

/-- The method the client uses is the method of the table. -/
theorem construct_method (b64 : Bytes → Bytes) (r : Request) :
    (construct b64 r).1 = kindMethod r.kind :=
  OciModel.ReqCodec.construct_method b64 r

/-! The hypotheses are satisfiable, on names that contain the routing words. -/

example : ValidReq B64Url.validUTF8 exBlobGet ∧ exBlobGet.listN ≤ maxInt64 :=
  ⟨⟨by decide, by decide, rfl⟩, by decide⟩
example : roundTrip exBlobGet = .ok exBlobGet := by decide
example : ValidReq B64Url.validUTF8 exManifestPut := ⟨by decide, Or.inr ⟨by decide, rfl⟩⟩
example : roundTrip exManifestPut = .ok exManifestPut := by decide
example : ValidReq B64Url.validUTF8 exManifestGetList := ⟨by decide, Or.inr ⟨by decide, rfl⟩⟩
example : roundTrip exManifestGetList = .ok exManifestGetList := by decide
example : ValidReq B64Url.validUTF8 exTagsList ∧ exTagsList.listN ≤ maxInt64 :=
  ⟨⟨by decide, by decide, rfl⟩, by decide⟩
example : roundTrip exTagsList = .ok exTagsList := by decide
example : ValidReq B64Url.validUTF8 exComplete :=
  ⟨by decide, by decide, by decide, by decide, rfl⟩
example : roundTrip exComplete = .ok exComplete := by decide
example : ValidReq B64Url.validUTF8 exStart := ⟨by decide, rfl⟩
example : roundTrip exStart = .ok exStart := by decide
example : ValidReq B64Url.validUTF8 exMount := ⟨by decide, by decide, by decide, rfl⟩
example : roundTrip exMount = .ok exMount := by decide
example : ValidReq B64Url.validUTF8 exCatalog := ⟨by decide, rfl⟩
example : roundTrip exCatalog = .ok exCatalog := by decide
/-- The codec hypotheses on the concrete base64url codec, at the example ID. -/
example : B64Url.decode (B64Url.encode exID) = some exID ∧ B64Url.encode exID ≠ [] ∧
    (47 : UInt8) ∉ B64Url.encode exID := by decide

/-! ### Q2: a classified request carries only valid names -/

/-- `parse` is a total function: every method, path and query has an answer. -/
theorem parse_total (unb64 : Bytes → Option Bytes) (validUTF8 : Bytes → Bool)
    (m p : Bytes) (q : Bytes → Bytes) :
    ∃ res : Except PErr Request, parse unb64 validUTF8 m p q = res :=
  ⟨_, rfl⟩

example : parse B64Url.decode B64Url.validUTF8 mGET [] (qget []) = .error .unknownPath := by decide
example : parse B64Url.decode B64Url.validUTF8 mGET (strBytes "/v2/") (qget []) =
    .ok { kind := .ping } := by decide
/-- An empty last segment is an error, never an `.ok` with an empty tag. -/
example : parse B64Url.decode B64Url.validUTF8 mGET (strBytes "/v2/foo/manifests/") (qget []) =
    .error .notFound := by decide
example : parse B64Url.decode B64Url.validUTF8 mGET (strBytes "/v2/foo/blobs/uploads/") (qget []) =
    .error .methodNotAllowed := by decide
example : parse B64Url.decode B64Url.validUTF8 mGET (strBytes "/v2/Foo/tags/list") (qget []) =
    .error .nameInvalid := by decide

/-- The exact shape of every `.ok` answer (`ParsedReq` mirrors `ValidReq`, kind by kind). -/
theorem parse_ok_shape (unb64 : Bytes → Option Bytes) (validUTF8 : Bytes → Bool)
    (m p : Bytes) (q : Bytes → Bytes) (r : Request)
    (h : parse unb64 validUTF8 m p q = .ok r) : ParsedReq unb64 validUTF8 r :=
  (parse_ok unb64 validUTF8 h).1

/-- No request reaches a backend with a syntactically invalid repository, tag, digest or
mount source; a manifest is named by exactly one of tag and digest; an upload ID is valid
UTF-8 and was decoded from a non-empty path segment. -/
theorem parse_sound (unb64 : Bytes → Option Bytes) (validUTF8 : Bytes → Bool)
    (m p : Bytes) (q : Bytes → Bytes) (r : Request)
    (h : parse unb64 validUTF8 m p q = .ok r) :
    (r.kind ≠ .ping → r.kind ≠ .catalogList → isRepo r.repo = true) ∧
    (r.digest ≠ [] → isDigest r.digest = true) ∧
    (r.tag ≠ [] → isTag r.tag = true) ∧
    (r.fromRepo ≠ [] → isRepo r.fromRepo = true) ∧
    (r.kind.isManifest = true →
      (isDigest r.digest = true ∧ r.tag = []) ∨ (isTag r.tag = true ∧ r.digest = [])) ∧
    (r.kind.isUpload = true →
      validUTF8 r.uploadID = true ∧ ∃ seg, seg ≠ [] ∧ unb64 seg = some r.uploadID) :=
  have hp := (parse_ok unb64 validUTF8 h).1
  ⟨parsed_repo _ _ hp, parsed_digest _ _ hp, parsed_tag _ _ hp, parsed_fromRepo _ _ hp,
    parsed_manifest _ _ hp, parsed_upload _ _ hp⟩

/-- A classified request is one the client could have built, as soon as its upload ID is
non-empty and `listN ≥ -1` (the two things only the client guarantees). -/
theorem parse_ok_valid (unb64 : Bytes → Option Bytes) (validUTF8 : Bytes → Bool)
    (m p : Bytes) (q : Bytes → Bytes) (r : Request)
    (h : parse unb64 validUTF8 m p q = .ok r)
    (hid : r.kind.isUpload = true → r.uploadID ≠ []) (hn : r.listN ≥ -1) :
    ValidReq validUTF8 r :=
  parsed_valid _ _ (parse_ok unb64 validUTF8 h).1 hid hn

/-- The hypothesis of `parse_sound` is satisfiable (an upload PUT with all parts present). -/
example : parse B64Url.decode B64Url.validUTF8 mPUT
    (strBytes "/v2/foo/blobs/uploads/blobs/uploads/YS9iP2M") (qget [(qDigest, exDigest)]) =
    .ok exComplete := by decide

/-- Observation: the ID of a classified upload request can be EMPTY although the path segment
is not — Go's base64 decoder skips `\n` and `\r`, so the segment `"\n"` decodes to `""`.
(`parse_sound` therefore promises a non-empty segment, not a non-empty ID.) -/
theorem parse_upload_empty_id :
    parse B64Url.decode B64Url.validUTF8 mGET (strBytes "/v2/foo/blobs/uploads/\n") (qget []) =
      .ok { kind := .blobUploadInfo, repo := strBytes "foo", uploadID := [] } := by decide

/-! ### Q3: the methods accepted are exactly the table -/

/-- Whatever is classified was classified under the method the client would use for that
kind (`/v2/` itself answers every method). -/
theorem parse_method_exact (b64 : Bytes → Bytes) (unb64 : Bytes → Option Bytes)
    (validUTF8 : Bytes → Bool) (m p : Bytes) (q : Bytes → Bytes) (r : Request)
    (h : parse unb64 validUTF8 m p q = .ok r) (hk : r.kind ≠ .ping) :
    m = (construct b64 r).1 := by
  rw [OciModel.ReqCodec.construct_method]
  exact (parse_ok unb64 validUTF8 h).2 hk

/-- Blobs: GET / HEAD / DELETE; any other method is 405. -/
theorem parse_method_exact_blob (unb64 : Bytes → Option Bytes) (validUTF8 : Bytes → Bool)
    (m : Bytes) (q : Bytes → Bytes) (R d : Bytes) (hR : isRepo R = true) (hd : isDigest d = true) :
    parse unb64 validUTF8 m (sV2Slash ++ R ++ strBytes "/blobs/" ++ d) q =
      if m = mGET then .ok { kind := .blobGet, repo := R, digest := d }
      else if m = mHEAD then .ok { kind := .blobHead, repo := R, digest := d }
      else if m = mDELETE then .ok { kind := .blobDelete, repo := R, digest := d }
      else .error .methodNotAllowed :=
  parse_blob_methods unb64 validUTF8 m q hR hd

/-- Upload sessions: GET / PATCH / PUT (PUT needs a valid `digest` parameter); any other
method is 405. `seg` is any slash-free, non-empty segment decoding to valid UTF-8. -/
theorem parse_method_exact_upload (unb64 : Bytes → Option Bytes) (validUTF8 : Bytes → Bool)
    (m : Bytes) (q : Bytes → Bytes) (R seg id : Bytes) (hR : isRepo R = true)
    (hs : (47 : UInt8) ∉ seg) (hne : seg ≠ []) (hdec : unb64 seg = some id)
    (hu : validUTF8 id = true) :
    parse unb64 validUTF8 m (sV2Slash ++ R ++ sUploadsSlash ++ seg) q =
      if m = mGET then .ok { kind := .blobUploadInfo, repo := R, uploadID := id }
      else if m = mPATCH then .ok { kind := .blobUploadChunk, repo := R, uploadID := id }
      else if m = mPUT then
        if !isDigest (q qDigest) then .error .badlyFormedDigest
        else .ok { kind := .blobCompleteUpload, repo := R, uploadID := id, digest := q qDigest }
      else .error .methodNotAllowed :=
  parse_upload_methods unb64 validUTF8 m q hR (noSlash_of_not_mem hs) hne hdec hu

/-- Manifests by digest: GET / HEAD / PUT / DELETE; any other method is 405. -/
theorem parse_method_exact_manifest_digest (unb64 : Bytes → Option Bytes)
    (validUTF8 : Bytes → Bool) (m : Bytes) (q : Bytes → Bytes) (R d : Bytes)
    (hR : isRepo R = true) (hd : isDigest d = true) :
    parse unb64 validUTF8 m (sV2Slash ++ R ++ strBytes "/manifests/" ++ d) q =
      if m = mGET then .ok { kind := .manifestGet, repo := R, digest := d }
      else if m = mHEAD then .ok { kind := .manifestHead, repo := R, digest := d }
      else if m = mPUT then .ok { kind := .manifestPut, repo := R, digest := d }
      else if m = mDELETE then .ok { kind := .manifestDelete, repo := R, digest := d }
      else .error .methodNotAllowed :=
  parse_manifest_digest_methods unb64 validUTF8 m q hR hd

/-- Manifests by tag: GET / HEAD / PUT / DELETE; any other method is 405. -/
theorem parse_method_exact_manifest_tag (unb64 : Bytes → Option Bytes)
    (validUTF8 : Bytes → Bool) (m : Bytes) (q : Bytes → Bytes) (R t : Bytes)
    (hR : isRepo R = true) (ht : isTag t = true) :
    parse unb64 validUTF8 m (sV2Slash ++ R ++ strBytes "/manifests/" ++ t) q =
      if m = mGET then .ok { kind := .manifestGet, repo := R, tag := t }
      else if m = mHEAD then .ok { kind := .manifestHead, repo := R, tag := t }
      else if m = mPUT then .ok { kind := .manifestPut, repo := R, tag := t }
      else if m = mDELETE then .ok { kind := .manifestDelete, repo := R, tag := t }
      else .error .methodNotAllowed :=
  parse_manifest_tag_methods unb64 validUTF8 m q hR ht

/-- Upload start, with and without the trailing slash: POST only. -/
theorem parse_method_exact_start (unb64 : Bytes → Option Bytes) (validUTF8 : Bytes → Bool)
    (m : Bytes) (q : Bytes → Bytes) (R : Bytes) (hR : isRepo R = true) (hm : m ≠ mPOST) :
    parse unb64 validUTF8 m (sV2Slash ++ R ++ sUploadsSlash) q = .error .methodNotAllowed ∧
    parse unb64 validUTF8 m (sV2Slash ++ R ++ sUploadsNoSlash) q = .error .methodNotAllowed :=
  parse_start_methods unb64 validUTF8 m q hR hm

/-- … and POST itself is never answered with 405 there. -/
theorem parse_method_exact_start_post (unb64 : Bytes → Option Bytes) (validUTF8 : Bytes → Bool)
    (q : Bytes → Bytes) (R : Bytes) (hR : isRepo R = true) :
    parse unb64 validUTF8 mPOST (sV2Slash ++ R ++ sUploadsSlash) q ≠ .error .methodNotAllowed :=
  parse_start_post unb64 validUTF8 q hR

/-- Tag list: GET only (once the `n` parameter has been accepted; a bad `n` is 400 first). -/
theorem parse_method_exact_tagsList (unb64 : Bytes → Option Bytes) (validUTF8 : Bytes → Bool)
    (m : Bytes) (q : Bytes → Bytes) (R : Bytes) (r' : Request) (hR : isRepo R = true)
    (hl : listParams q { kind := .tagsList } = .ok r') :
    parse unb64 validUTF8 m (sV2Slash ++ R ++ strBytes "/tags/list") q =
      if m = mGET then .ok { r' with repo := R } else .error .methodNotAllowed :=
  parse_tagsList_methods unb64 validUTF8 m q hR hl

/-- Referrers: GET only. -/
theorem parse_method_exact_referrers (unb64 : Bytes → Option Bytes) (validUTF8 : Bytes → Bool)
    (m : Bytes) (q : Bytes → Bytes) (R d : Bytes) (hR : isRepo R = true)
    (hd : isDigest d = true) :
    parse unb64 validUTF8 m (sV2Slash ++ R ++ strBytes "/referrers/" ++ d) q =
      if m = mGET then .ok { kind := .referrersList, repo := R, digest := d, listN := -1 }
      else .error .methodNotAllowed :=
  parse_referrers_methods unb64 validUTF8 m q hR hd

/-- Catalog: GET only. -/
theorem parse_method_exact_catalog (unb64 : Bytes → Option Bytes) (validUTF8 : Bytes → Bool)
    (m : Bytes) (q : Bytes → Bytes) (hm : m ≠ mGET) :
    parse unb64 validUTF8 m (strBytes "/v2/_catalog") q = .error .methodNotAllowed :=
  parse_catalog_methods unb64 validUTF8 m q hm

/-- `/v2/` and `/v2` answer every method. -/
theorem parse_method_exact_ping (unb64 : Bytes → Option Bytes) (validUTF8 : Bytes → Bool)
    (m : Bytes) (q : Bytes → Bytes) :
    parse unb64 validUTF8 m sV2Slash q = .ok { kind := .ping } ∧
    parse unb64 validUTF8 m sV2 q = .ok { kind := .ping } :=
  parse_ping_any_method unb64 validUTF8 m q

/-- The hypotheses of the method tables are satisfiable; a method outside the table is 405. -/
example : isRepo exRepo = true ∧ isDigest exDigest = true ∧ isTag (strBytes "uploads") = true := by
  decide
example : parse B64Url.decode B64Url.validUTF8 mPOST
    (sV2Slash ++ exRepo ++ strBytes "/blobs/" ++ exDigest) (qget []) = .error .methodNotAllowed := by
  decide
example : parse B64Url.decode B64Url.validUTF8 mPATCH
    (sV2Slash ++ exRepo ++ strBytes "/manifests/" ++ strBytes "uploads") (qget []) =
    .error .methodNotAllowed := by decide
example : (47 : UInt8) ∉ B64Url.encode exID ∧ B64Url.encode exID ≠ [] ∧
    B64Url.decode (B64Url.encode exID) = some exID ∧ B64Url.validUTF8 exID = true := by decide
example : listParams (qget [(qN, strBytes "2")]) { kind := .tagsList } =
    .ok { kind := .tagsList, listN := 2 } := by decide
example : mPATCH ≠ mPOST ∧ mDELETE ≠ mGET := by decide

/-! ### The client's own HTTP client

The client puts nothing of its own between a caller and the wire: its `http.Client` carries the
caller's transport and nothing else. In particular it sets no client-wide `Timeout`, which in
`net/http` bounds the whole exchange *including the reading of the response body* and would end a
long blob read in the middle although the registry behind it is reading on; deadlines are the
caller's, through the context. -/
theorem generated_http_client_is_plain :
    OciModel.Generated.ClientCfg.httpClientLiterals = [["Transport"]] := by decide

end OciModel.Props.C03
