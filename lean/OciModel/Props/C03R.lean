/-
C03R — the RESPONSE half of the client/server codec (sub-check of C03; the request half is
`Props/C03.lean`). `serverResp` is what `ociserver` writes for a backend's answer, `clientDecode` what
`ociclient` makes of an answer (`OciModel/RespCodec.lean`, mirrored from the Go text line by line).

Part 1: the text codecs inside the headers are round trips (Range, Content-Range, upload Range,
OCI-Chunk-Min-Length, Location, Link, query escaping, the JSON list bodies) — with the exact
characterisation where they are not (the empty range F3, the one-byte upload).
Part 2: for every request kind, `clientDecode (serverResp answer)` is the backend's answer restricted to
what the wire carries; each theorem says what is lost.
Part 2b: F31 (fixed): a call by digest reports the digest that was ASKED FOR, whatever the answer's header says
(`client_reports_requested_digest`); the round trips of Part 2 that said "the header's digest arrives" for such calls
now assume that the backend's answer carries the digest asked for (`hans`), their old forms are refuted
(`…_F31_counterexample`) and the unconditional form is stated beside them (`…_reports_requested`).
Part 3: `clientDecode` never panics, whatever the answers; the server panics only on an upload ID the
request codec cannot carry.
Part 4: an answer without a header the call cannot do without is refused, never defaulted.

Only statements and short proofs here; lemmas are in `OciModel/RespCodecLemmas.lean`.
-/
import OciModel.RespCodec
import OciModel.RespCodecLemmas
import OciModel.Sha256
import OciModel.Generated.RespFacts
namespace OciModel.Props.C03R
open OciModel OciModel.Ref OciModel.ReqCodec OciModel.RespCodec OciModel.Pager

/-! ## Part 1 — codecs -/

/-- **Range (request).** For every non-empty range `[o0, o1)` the header `GetBlobRange` sends makes the server call
`GetBlobRange(o0, o1)` on its backend. -/
theorem range_header_round_trip {o0 o1 : Int} (h0 : 0 ≤ o0) (h01 : o0 < o1) (hmax : o1 ≤ maxI64) :
    blobCall (cliRangeHdr o0 o1) = some (.range o0 o1) := by
  rw [blobCall_cliRangeHdr_closed h0 (by omega) (by omega) hmax, if_pos h01]

example : blobCall (cliRangeHdr 3 7) = some (.range 3 7) := by decide

/-- **Range (request), open end.** `o1 < 0` ("to the end") arrives as `-1`. (`o0 = 0 ∧ o1 < 0` is sent as a plain
GET: `clientDecode` below.) -/
theorem range_header_open_round_trip {o0 o1 : Int} (h0 : 0 ≤ o0) (hmax : o0 ≤ maxI64) (h1 : o1 < 0) :
    blobCall (cliRangeHdr o0 o1) = some (.range o0 (-1)) :=
  blobCall_cliRangeHdr_open h0 hmax h1

example : blobCall (cliRangeHdr 5 (-1)) = some (.range 5 (-1)) := by decide

/-- **F3, exactly.** The empty range `[o, o)` — and only it, among `o0 ≤ o1` — cannot be asked for: the client
prints `bytes=o-(o-1)`, which the server's `parseRange` refuses (416). Recorded as finding F3 under C03; this is its
exact extent: `blobCall` succeeds iff `o0 < o1`. -/
theorem range_header_empty_refused {o0 o1 : Int} (h0 : 0 ≤ o0) (h0max : o0 ≤ maxI64) (h1 : 0 ≤ o1) (h1max : o1 ≤ maxI64) :
    blobCall (cliRangeHdr o0 o1) = none ↔ o1 ≤ o0 := by
  rw [blobCall_cliRangeHdr_closed h0 h0max h1 h1max]
  by_cases h : o0 < o1
  · rw [if_pos h]; constructor
    · intro e; cases e
    · intro e; omega
  · rw [if_neg h]; constructor
    · intro _; omega
    · intro _; rfl

example : blobCall (cliRangeHdr 4 4) = none ∧ cliRangeHdr 4 4 = strBytes "bytes=4-3" := by decide
example : blobCall (cliRangeHdr 0 0) = none ∧ cliRangeHdr 0 0 = strBytes "bytes=0--1" := by decide

/-- **Content-Range.** The total size the client takes from the `Content-Range` of a 206 answer is the size the
server printed, for every range and every size a Go `int64` can hold. -/
theorem content_range_round_trip (s e : Int) {size : Int} (h0 : 0 ≤ size) (hmax : size ≤ maxI64) :
    ∃ before after, cutLastSlash (srvContentRange s e size) = some (before, after) ∧ atoi after = some size :=
  ⟨_, _, cutLastSlash_contentRange s e h0, atoi_itoa size h0 hmax⟩

example : srvContentRange 2 5 10 = strBytes "bytes 2-4/10" := by decide

/-- **Range (upload).** The offset the client reads from the `Range` of an upload-info answer is the number of bytes
the backend's writer reports — except for exactly one byte: `0-0` stands for "nothing received" too (C04:
`askedOffset_one`; the protocol has one text for both). -/
theorem upload_range_round_trip {size : Int} (h0 : 0 ≤ size) (hmax : size ≤ maxI64) :
    parseRangeB (rangeStringB 0 size) = some (0, if size = 1 then 0 else size) :=
  parseRangeB_rangeStringB h0 hmax

example : parseRangeB (rangeStringB 0 1) = some (0, 0) ∧ parseRangeB (rangeStringB 0 2) = some (0, 2) := by decide

/-- **OCI-Chunk-Min-Length.** The client's chunk size is the larger of its own and the registry's. -/
theorem chunk_min_round_trip (r : Resp) {c : Int} (own : Int) (h0 : 0 ≤ c) (hmax : c ≤ maxI64)
    (h : hget r.hdr hChunkMin = itoa c) :
    chunkSizeFromResponse r own = if c > own then c else own :=
  chunkSizeFromResponse_itoa r own h0 hmax h

/-- **Query escaping.** `url.QueryUnescape ∘ url.QueryEscape` is the identity on every byte string. -/
theorem query_escape_round_trip (s : Bytes) : queryUnescape (queryEscape s) = some s :=
  queryUnescape_queryEscape s

/-- **Query strings.** `url.ParseQuery ∘ url.Values.Encode` gives every pair back (keys ascending, the values of a
key in their order), for arbitrary keys and values. -/
theorem query_round_trip (ps : List (Bytes × Bytes)) : parseQuery (encodeQuery ps) = some (sortKeys ps) :=
  parseQuery_encodeQuery ps

example : encodeQuery [(qN, strBytes "5"), (qLast, strBytes "a b&c")] = strBytes "last=a+b%26c&n=5" := by decide

/-- **Location (upload).** For a valid repository and an upload ID that is non-empty UTF-8 — any bytes otherwise,
e.g. with `/`, `?`, `%` — the server finds a location, and the requests the client then sends to it (GET, PATCH, and
PUT with `?digest=` appended by `urlWithDigest`) are classified by the server's router as the same upload. -/
theorem location_round_trip {repo id dg : Bytes} (hR : isRepo repo = true) (hid : id ≠ [])
    (hu : B64Url.validUTF8 id = true) (hd : isDigest dg = true) :
    ∃ loc, locationForUploadID repo id = some loc ∧
      classifyTarget mGET loc = .ok { kind := .blobUploadInfo, repo := repo, uploadID := id } ∧
      classifyTarget mPATCH loc = .ok { kind := .blobUploadChunk, repo := repo, uploadID := id } ∧
      classifyTarget mPUT (urlWithDigest loc dg) =
        .ok { kind := .blobCompleteUpload, repo := repo, uploadID := id, digest := dg } := by
  refine ⟨_, locationForUploadID_valid hR hid hu, ?_, ?_, classifyTarget_commit hR hid hu hd⟩
  · rw [classifyTarget_location hR hid hu, if_pos rfl]
  · rw [classifyTarget_location hR hid hu, if_neg (by decide), if_pos rfl]

example : isRepo (strBytes "foo/blobs/uploads") = true ∧ B64Url.validUTF8 (strBytes "a/b?c%") = true := by decide
example : locationForUploadID (strBytes "foo") (strBytes "a/b?c") = some (strBytes "/v2/foo/blobs/uploads/YS9iP2M") := by
  decide

/-- The hypotheses on the upload ID are needed: `MustConstruct` panics on an ID the request codec cannot carry
(a backend whose `BlobWriter.ID()` is empty or not UTF-8 crashes the handler). -/
theorem location_needs_valid_id :
    locationForUploadID (strBytes "foo") [] = none ∧ locationForUploadID (strBytes "foo") [0xff] = none := by
  decide

/-- **JSON list bodies.** What the list handlers marshal, the decoder of that image reads back: every repository
name and every list of items (arbitrary bytes; `jsonStr` is Go's encoder for valid UTF-8). The theorems below take
the decoder as a parameter with this law as their hypothesis; this shows the hypothesis is satisfiable. -/
theorem json_tags_round_trip (repo : Bytes) (l : List Bytes) : decTagsImage (encTags repo l) = some l :=
  decTagsImage_encTags repo l

theorem json_catalog_round_trip (l : List Bytes) : decCatalogImage (encCatalog l) = some l :=
  decCatalogImage_encCatalog l

example : encTags (strBytes "foo") [strBytes "a\"b", strBytes "<&>", [1]] =
    strBytes "{\"name\":\"foo\",\"tags\":[\"a\\\"b\",\"\\u003c\\u0026\\u003e\",\"\\u0001\"]}" := by decide
example : encCatalog [] = strBytes "{\"repositories\":null}" := by decide


/-! ## Part 2 — every request kind: `clientDecode (serverResp answer)` is the backend's answer, up to what the
wire carries. `H` is `digest.FromBytes`, `resolve` is `net/url`'s resolution of a `Location`; both arbitrary. -/

/-- A descriptor the headers can carry: the size fits a `Content-Length`, the digest is well formed. -/
def Carriable (d : Desc) : Prop := 0 ≤ d.size ∧ d.size ≤ maxI64 ∧ isDigest d.digest = true

/-- an empty `Content-Type` reads as the default -/
def orOctet (mt : Bytes) : Bytes := if mt = [] then octetStream else mt

def exDigest : Bytes := sha256 ++ cColon :: List.replicate 64 97
def exDesc : Desc := { mediaType := mtImageManifest, digest := exDigest, size := 131073 }
example : Carriable exDesc := ⟨by decide, by decide, by decide⟩

/-- **Blob HEAD** (`ResolveBlob`). Digest and size arrive; the media type does NOT: the handler sets no
`Content-Type`, the client reports `application/octet-stream` whatever the backend said. -/
-- F31: new hypothesis `hans` (the backend's answer carries the digest asked for). The client now reports the digest
-- it asked for, not the header's (client.go `descriptorFromResponse`): without `hans` the old statement is false
-- (`blobHead_round_trip_F31_counterexample`); what holds unconditionally is `blobHead_reports_requested`.
theorem blobHead_round_trip (H : Bytes → Bytes) (resolve : Bytes → Option Bytes) (o : SrvOpts) (q : SrvReq)
    (d : Desc) (known : Bytes) (hk : q.r.kind = .blobHead) (hc : Carriable d)
    (hans : known ≠ [] → d.digest = known) :
    ∃ r, serverResp H o q (.desc d) = .resp r ∧
      clientDecode H resolve (.resolveBlob known) [r] =
        .desc { mediaType := octetStream, digest := d.digest, size := d.size } := by
  obtain ⟨h0, hmax, hd⟩ := hc
  have hn : ¬ d.size < 0 := by omega
  refine ⟨_, by simp only [serverResp, hk, handleBlobHead]; rfl, ?_⟩
  by_cases hkn : known = []
  · simp [clientDecode, clientResolve, gate, descriptorFromResponse, mkResp, hget_cons_ne,
      parseContentLength_itoa h0 hmax, hd, isDigest_ne_nil hd, hn, hkn]
  · have he := hans hkn
    have hdk : isDigest known = true := he ▸ hd
    simp [clientDecode, clientResolve, gate, descriptorFromResponse, mkResp, hget_cons_ne,
      parseContentLength_itoa h0 hmax, hdk, hn, hkn, he]

-- F31: the new hypothesis is satisfiable (a backend that honours `ociregistry.Interface` answers with the digest asked for)
example : exDigest ≠ [] → exDesc.digest = exDigest := fun _ => rfl

/-- **F31, the new guarantee for `ResolveBlob`.** Whatever digest the backend's answer carries (any well-formed
one), the descriptor the caller gets has the digest the caller ASKED FOR; the size is the backend's. -/
-- F32: hypothesis `hkn : known ≠ []` became `hdk : isDigest known = true` (the digest asked for is well formed, as
-- request construction of `ResolveBlob` guarantees: `blobHead` requests carry a digest the codec accepted). An
-- ill-formed digest argument is now refused by `descriptorFromResponse` (`blobHead_refuses_ill_formed_digest`).
theorem blobHead_reports_requested (H : Bytes → Bytes) (resolve : Bytes → Option Bytes) (o : SrvOpts) (q : SrvReq)
    (d : Desc) (known : Bytes) (hk : q.r.kind = .blobHead) (hc : Carriable d) (hdk : isDigest known = true) :
    ∃ r, serverResp H o q (.desc d) = .resp r ∧
      clientDecode H resolve (.resolveBlob known) [r] =
        .desc { mediaType := octetStream, digest := known, size := d.size } := by
  obtain ⟨h0, hmax, hd⟩ := hc
  have hn : ¬ d.size < 0 := by omega
  have hkn : known ≠ [] := isDigest_ne_nil hdk
  refine ⟨_, by simp only [serverResp, hk, handleBlobHead]; rfl, ?_⟩
  simp [clientDecode, clientResolve, gate, descriptorFromResponse, mkResp, hget_cons_ne,
    parseContentLength_itoa h0 hmax, hd, isDigest_ne_nil hd, hn, hkn, hdk]

-- F32: the hypothesis is satisfiable
example : isDigest exDigest = true := by decide

/-- F32: the complement of `blobHead_reports_requested`: a digest argument that is named but ill formed is refused
with `bad digest … in request`, whatever the (carriable) answer of the backend. -/
theorem blobHead_refuses_ill_formed_digest (H : Bytes → Bytes) (resolve : Bytes → Option Bytes) (o : SrvOpts)
    (q : SrvReq) (d : Desc) (known : Bytes) (hk : q.r.kind = .blobHead) (hc : Carriable d) (hkn : known ≠ [])
    (hbad : isDigest known = false) :
    ∃ r, serverResp H o q (.desc d) = .resp r ∧
      clientDecode H resolve (.resolveBlob known) [r] = .err (.desc .badDigest) := by
  obtain ⟨h0, hmax, hd⟩ := hc
  have hn : ¬ d.size < 0 := by omega
  refine ⟨_, by simp only [serverResp, hk, handleBlobHead]; rfl, ?_⟩
  simp [clientDecode, clientResolve, gate, descriptorFromResponse, mkResp, hget_cons_ne,
    parseContentLength_itoa h0 hmax, hd, isDigest_ne_nil hd, hn, hkn, hbad]

def exDigest2 : Bytes := sha256 ++ cColon :: List.replicate 64 98
def exDesc2 : Desc := { mediaType := mtImageManifest, digest := exDigest2, size := 5 }
example : Carriable exDesc2 := ⟨by decide, by decide, by decide⟩

/-- F31: the statement of `blobHead_round_trip` before the fix (no `hans`) is false: a backend that answers
`ResolveBlob(exDigest)` with a descriptor of another digest is reported to the caller under the digest asked for. -/
theorem blobHead_round_trip_F31_counterexample :
    ¬ (∀ (H : Bytes → Bytes) (resolve : Bytes → Option Bytes) (o : SrvOpts) (q : SrvReq) (d : Desc) (known : Bytes),
        q.r.kind = .blobHead → Carriable d →
        ∃ r, serverResp H o q (.desc d) = .resp r ∧
          clientDecode H resolve (.resolveBlob known) [r] =
            .desc { mediaType := octetStream, digest := d.digest, size := d.size }) := by
  intro h
  obtain ⟨r, hr, hc⟩ := h id (fun _ => none) {} { r := { kind := .blobHead } } exDesc2 exDigest rfl
    ⟨by decide, by decide, by decide⟩
  obtain ⟨r', hr', hc'⟩ := blobHead_reports_requested id (fun _ => none) {} { r := { kind := .blobHead } } exDesc2 exDigest
    rfl ⟨by decide, by decide, by decide⟩ (by decide)
  rw [hr] at hr'
  cases hr'
  rw [hc] at hc'
  revert hc'
  decide

/-- **Manifest HEAD** (`ResolveManifest`, `ResolveTag`), under every setting of `OmitDigestFromTagGetResponse`:
media type (an empty one becomes the default), size and digest arrive; with the option on and a request by digest
the digest is the one the caller asked for (the header is left out) — as it is, since fix F31, with the option off. -/
-- F31: new hypothesis `hans`, for requests BY DIGEST only (by tag the statement is unconditional as before): the
-- backend's answer carries the digest asked for. Without it the old statement is false when the header is sent
-- (`manifestHead_round_trip_F31_counterexample`); unconditionally: `manifestHead_reports_requested`.
theorem manifestHead_round_trip (H : Bytes → Bytes) (resolve : Bytes → Option Bytes) (o : SrvOpts) (q : SrvReq)
    (d : Desc) (hk : q.r.kind = .manifestHead) (hreq : q.r.tag ≠ [] ∨ isDigest q.r.digest = true) (hc : Carriable d)
    (hans : q.r.tag = [] → d.digest = q.r.digest) :
    ∃ r, serverResp H o q (.desc d) = .resp r ∧
      clientDecode H resolve (if q.r.tag ≠ [] then .resolveTag else .resolveManifest q.r.digest) [r] =
        .desc { mediaType := orOctet d.mediaType,
                digest := if o.omitDigest = true ∧ q.r.tag = [] then q.r.digest else d.digest,
                size := d.size } := by
  obtain ⟨h0, hmax, hd⟩ := hc
  have hn : ¬ d.size < 0 := by omega
  refine ⟨_, by simp only [serverResp, hk, handleManifestHead]; rfl, ?_⟩
  by_cases ht : q.r.tag = []
  · have hqd : isDigest q.r.digest = true := hreq.resolve_left (by simp [ht])   -- F32: from `hreq`, no new hypothesis
    have hq : q.r.digest ≠ [] := isDigest_ne_nil hqd
    by_cases ho : o.omitDigest = true
    · simp [clientDecode, clientResolve, gate, descriptorFromResponse, mkResp, hget_cons_ne,
          parseContentLength_itoa h0 hmax, hn, ht, ho, hq, hqd, orOctet]
    · have he := hans ht
      have hdk : isDigest q.r.digest = true := he ▸ hd
      simp [clientDecode, clientResolve, gate, descriptorFromResponse, mkResp, hget_cons_ne,
          parseContentLength_itoa h0 hmax, hdk, hn, ht, ho, hq, he, orOctet]
  · simp [clientDecode, clientResolve, gate, descriptorFromResponse, mkResp, hget_cons_ne,
          parseContentLength_itoa h0 hmax, hd, isDigest_ne_nil hd, hn, ht, orOctet]

-- F31: the new hypothesis is satisfiable
example : ({ r := { kind := .manifestHead, digest := exDigest } } : SrvReq).r.tag = [] →
    exDesc.digest = ({ r := { kind := .manifestHead, digest := exDigest } } : SrvReq).r.digest := fun _ => rfl

/-- **F31, the new guarantee for `ResolveManifest`** (a request by digest), under every setting of
`OmitDigestFromTagGetResponse` and whatever digest the backend's answer carries: the caller gets the digest it
ASKED FOR, with the backend's media type and size. -/
theorem manifestHead_reports_requested (H : Bytes → Bytes) (resolve : Bytes → Option Bytes) (o : SrvOpts) (q : SrvReq)
    (d : Desc) (hk : q.r.kind = .manifestHead) (ht : q.r.tag = []) (hreq : isDigest q.r.digest = true) (hc : Carriable d) :
    ∃ r, serverResp H o q (.desc d) = .resp r ∧
      clientDecode H resolve (.resolveManifest q.r.digest) [r] =
        .desc { mediaType := orOctet d.mediaType, digest := q.r.digest, size := d.size } := by
  obtain ⟨h0, hmax, hd⟩ := hc
  have hn : ¬ d.size < 0 := by omega
  have hq : q.r.digest ≠ [] := isDigest_ne_nil hreq
  refine ⟨_, by simp only [serverResp, hk, handleManifestHead]; rfl, ?_⟩
  by_cases ho : o.omitDigest = true
  · simp [clientDecode, clientResolve, gate, descriptorFromResponse, mkResp, hget_cons_ne,
        parseContentLength_itoa h0 hmax, hn, ht, ho, hq, hreq, orOctet]         -- F32: `hreq` used, statement unchanged
  · simp [clientDecode, clientResolve, gate, descriptorFromResponse, mkResp, hget_cons_ne,
        parseContentLength_itoa h0 hmax, hd, isDigest_ne_nil hd, hn, ht, ho, hq, hreq, orOctet]

/-- F31: the statement of `manifestHead_round_trip` before the fix (no `hans`) is false. -/
theorem manifestHead_round_trip_F31_counterexample :
    ¬ (∀ (H : Bytes → Bytes) (resolve : Bytes → Option Bytes) (o : SrvOpts) (q : SrvReq) (d : Desc),
        q.r.kind = .manifestHead → (q.r.tag ≠ [] ∨ isDigest q.r.digest = true) → Carriable d →
        ∃ r, serverResp H o q (.desc d) = .resp r ∧
          clientDecode H resolve (if q.r.tag ≠ [] then .resolveTag else .resolveManifest q.r.digest) [r] =
            .desc { mediaType := orOctet d.mediaType,
                    digest := if o.omitDigest = true ∧ q.r.tag = [] then q.r.digest else d.digest,
                    size := d.size }) := by
  intro h
  obtain ⟨r, hr, hc⟩ := h id (fun _ => none) {} { r := { kind := .manifestHead, digest := exDigest } } exDesc2 rfl
    (Or.inr (by decide)) ⟨by decide, by decide, by decide⟩
  obtain ⟨r', hr', hc'⟩ := manifestHead_reports_requested id (fun _ => none) {}
    { r := { kind := .manifestHead, digest := exDigest } } exDesc2 rfl rfl (by decide) ⟨by decide, by decide, by decide⟩
  rw [hr] at hr'
  cases hr'
  rw [if_neg (by decide)] at hc
  rw [hc] at hc'
  revert hc'
  decide

/-- **Blob GET** (`GetBlob`). Media type, size and bytes arrive; the digest of the reader's descriptor is the one
the caller asked for (the server sends `rreq.Digest`, not the backend's). The reader verifies what it relays. -/
theorem blobGet_round_trip (H : Bytes → Bytes) (resolve : Bytes → Option Bytes) (o : SrvOpts) (q : SrvReq)
    (d : Desc) (content : Bytes) (hk : q.r.kind = .blobGet) (hr : q.range = [])
    (hdg : isDigest q.r.digest = true) (h0 : 0 ≤ d.size) (hmax : d.size ≤ maxI64) :
    ∃ r, serverResp H o q (.reader d content) = .resp r ∧
      clientDecode H resolve (.getBlob q.r.digest) [r] =
        .reader { mediaType := orOctet d.mediaType, digest := q.r.digest, size := d.size } true content := by
  have hn : ¬ d.size < 0 := by omega
  refine ⟨_, by simp only [serverResp, hk, handleBlobGet, hr]; rfl, ?_⟩
  simp [clientDecode, clientRead, gate, descriptorFromResponse, mkResp, hget_cons_ne,
    parseContentLength_itoa h0 hmax, hdg, isDigest_ne_nil hdg, hn, newBlobReader, isDigest_hashable hdg, orOctet]

/-- Reading such a reader to the end: the bytes, cleanly, when they are what the descriptor says … -/
theorem read_honest (H : Bytes → Bytes) (d : Desc) (content : Bytes)
    (hlen : (content.length : Int) = d.size) (hH : H content = d.digest) :
    readAll H d true [content] = .eof content := readAll_honest H d content hlen hH

/-- … and an error, never a clean end, when they are not (C01: corruption is detected). -/
theorem read_dishonest (H : Bytes → Bytes) (d : Desc) (content : Bytes) (h0 : 0 ≤ d.size)
    (h : (content.length : Int) ≠ d.size ∨ H content ≠ d.digest) :
    (readAll H d true [content]).clean = false := readAll_dishonest H d content h0 h

example : readAll (fun b => 7 :: b) { digest := [7, 104, 105], size := 2 } true [[104, 105]] = .eof [104, 105] := by
  decide
example : (readAll (fun b => 7 :: b) { digest := [7, 104, 105], size := 2 } true [[104, 106]]).clean = false := by
  decide

/-- **Ranged blob GET** (`GetBlobRange`, non-empty range). The descriptor describes the WHOLE blob (its size comes
back through `Content-Range`), the bytes are what the backend's ranged reader produced, and the reader is not
verified. A start beyond the end is refused by the server (416). -/
theorem blobGetRange_round_trip (H : Bytes → Bytes) (resolve : Bytes → Option Bytes) (o : SrvOpts) (q : SrvReq)
    (d : Desc) (content : Bytes) {o0 o1 : Int} (hk : q.r.kind = .blobGet) (hdg : isDigest q.r.digest = true)
    (h0 : 0 ≤ o0) (h01 : o0 < o1) (h1max : o1 ≤ maxI64) (hq : q.range = cliRangeHdr o0 o1)
    (hs0 : 0 ≤ d.size) (hsmax : d.size ≤ maxI64) :
    (o0 ≤ d.size →
      ∃ r, serverResp H o q (.reader d content) = .resp r ∧
        clientDecode H resolve (.getBlobRange q.r.digest o0 o1) [r] =
          .reader { mediaType := orOctet d.mediaType, digest := q.r.digest, size := d.size } false content) ∧
    (d.size < o0 → serverResp H o q (.reader d content) = .err .range416) := by
  have hcall : blobCall q.range = some (.range o0 o1) := by
    rw [hq]; exact range_header_round_trip h0 h01 h1max
  constructor
  · intro hin
    have hne : ¬ (o0 = 0 ∧ o1 < 0) := by omega
    have hs : serverResp H o q (.reader d content) = .resp (mkResp 206
        [(hContentType, d.mediaType), (hContentLength, itoa ((if o1 = -1 ∨ o1 > d.size then d.size else o1) - o0)),
         (hDigest, q.r.digest), (hContentRange, srvContentRange o0 (if o1 = -1 ∨ o1 > d.size then d.size else o1) d.size)] content) := by
      simp only [serverResp, hk, handleBlobGet, hcall]
      rw [if_neg (by omega), if_neg (by split <;> omega)]
    refine ⟨_, hs, ?_⟩
    simp [clientDecode, hne, clientGetBlobRange, gate, descriptorFromResponse, mkResp, hget_cons_ne,
      srvContentRange_ne_nil, cutLastSlash_contentRange _ _ hs0, atoi_itoa d.size hs0 hsmax,
      hdg, isDigest_ne_nil hdg, newBlobReader, isDigest_hashable hdg, orOctet]
  · intro hout
    simp only [serverResp, hk, handleBlobGet, hcall]
    rw [if_pos hout]

/-- The same for a range open at the end (`o1 < 0`, `o0 > 0`). -/
theorem blobGetRange_open_round_trip (H : Bytes → Bytes) (resolve : Bytes → Option Bytes) (o : SrvOpts) (q : SrvReq)
    (d : Desc) (content : Bytes) {o0 o1 : Int} (hk : q.r.kind = .blobGet) (hdg : isDigest q.r.digest = true)
    (h0 : 0 < o0) (h0max : o0 ≤ maxI64) (h1 : o1 < 0) (hq : q.range = cliRangeHdr o0 o1)
    (hs0 : 0 ≤ d.size) (hsmax : d.size ≤ maxI64) (hin : o0 ≤ d.size) :
    ∃ r, serverResp H o q (.reader d content) = .resp r ∧
      clientDecode H resolve (.getBlobRange q.r.digest o0 o1) [r] =
        .reader { mediaType := orOctet d.mediaType, digest := q.r.digest, size := d.size } false content := by
  have hcall : blobCall q.range = some (.range o0 (-1)) := by
    rw [hq]; exact range_header_open_round_trip (by omega) h0max h1
  have hne : ¬ (o0 = 0 ∧ o1 < 0) := by omega
  have hs : serverResp H o q (.reader d content) = .resp (mkResp 206
      [(hContentType, d.mediaType), (hContentLength, itoa (d.size - o0)),
       (hDigest, q.r.digest), (hContentRange, srvContentRange o0 d.size d.size)] content) := by
    simp only [serverResp, hk, handleBlobGet, hcall]
    simp only [true_or, if_true]
    rw [if_neg (by omega), if_neg (by omega)]
  refine ⟨_, hs, ?_⟩
  simp [clientDecode, hne, clientGetBlobRange, gate, descriptorFromResponse, mkResp, hget_cons_ne,
    srvContentRange_ne_nil, cutLastSlash_contentRange _ _ hs0, atoi_itoa d.size hs0 hsmax,
    hdg, isDigest_ne_nil hdg, newBlobReader, isDigest_hashable hdg, orOctet]

/-- **Manifest GET** (`GetManifest`, `GetTag`) when the digest header is sent: media type, digest, size, bytes. -/
-- F31: new hypothesis `hans`, for requests BY DIGEST only (`GetTag` is unconditional as before): the backend's
-- answer carries the digest asked for. Without it the old statement is false
-- (`manifestGet_round_trip_F31_counterexample`); unconditionally: `manifestGet_reports_requested`.
theorem manifestGet_round_trip (H : Bytes → Bytes) (resolve : Bytes → Option Bytes) (o : SrvOpts) (q : SrvReq)
    (d : Desc) (content : Bytes) (hk : q.r.kind = .manifestGet) (ho : o.omitDigest = false) (hc : Carriable d)
    (known : Bytes) (hans : q.r.tag = [] → known ≠ [] → d.digest = known) :
    ∃ r, serverResp H o q (.reader d content) = .resp r ∧
      clientDecode H resolve (if q.r.tag ≠ [] then .getTag else .getManifest known) [r] =
        .reader { mediaType := orOctet d.mediaType, digest := d.digest, size := d.size } true content := by
  obtain ⟨h0, hmax, hd⟩ := hc
  have hn : ¬ d.size < 0 := by omega
  refine ⟨_, by simp only [serverResp, hk, handleManifestGet]; rfl, ?_⟩
  by_cases ht : q.r.tag = []
  · by_cases hkn : known = []
    · simp [clientDecode, clientRead, gate, descriptorFromResponse, mkResp, hget_cons_ne, ho, ht, hkn,
        parseContentLength_itoa h0 hmax, hd, isDigest_ne_nil hd, hn, newBlobReader, isDigest_hashable hd, orOctet]
    · have he := hans ht hkn
      have hdk : isDigest known = true := he ▸ hd
      simp [clientDecode, clientRead, gate, descriptorFromResponse, mkResp, hget_cons_ne, ho, ht, hkn, he,
        parseContentLength_itoa h0 hmax, hdk, hn, newBlobReader, isDigest_hashable hdk, orOctet]
  · simp [clientDecode, clientRead, gate, descriptorFromResponse, mkResp, hget_cons_ne, ho, ht,
      parseContentLength_itoa h0 hmax, hd, isDigest_ne_nil hd, hn, newBlobReader, isDigest_hashable hd, orOctet]

-- F31: the new hypothesis is satisfiable
example : ({ r := { kind := .manifestGet, digest := exDigest } } : SrvReq).r.tag = [] → exDigest ≠ [] →
    exDesc.digest = exDigest := fun _ _ => rfl

/-- **F31, the new guarantee for `GetManifest`** (a read by digest): whatever digest the backend's answer carries,
the reader's descriptor has the digest the caller ASKED FOR — and that is the digest the reader verifies the bytes
against (`read_honest` / `read_dishonest`). -/
theorem manifestGet_reports_requested (H : Bytes → Bytes) (resolve : Bytes → Option Bytes) (o : SrvOpts) (q : SrvReq)
    (d : Desc) (content : Bytes) (hk : q.r.kind = .manifestGet) (ho : o.omitDigest = false) (hc : Carriable d)
    (known : Bytes) (hdk : isDigest known = true) :
    ∃ r, serverResp H o q (.reader d content) = .resp r ∧
      clientDecode H resolve (.getManifest known) [r] =
        .reader { mediaType := orOctet d.mediaType, digest := known, size := d.size } true content := by
  obtain ⟨h0, hmax, hd⟩ := hc
  have hn : ¬ d.size < 0 := by omega
  refine ⟨_, by simp only [serverResp, hk, handleManifestGet]; rfl, ?_⟩
  simp [clientDecode, clientRead, gate, descriptorFromResponse, mkResp, hget_cons_ne, ho,
    parseContentLength_itoa h0 hmax, hd, isDigest_ne_nil hd, isDigest_ne_nil hdk, hdk, hn, newBlobReader,
    isDigest_hashable hdk, orOctet]                                          -- F32: `hdk` used, statement unchanged

/-- F31: the statement of `manifestGet_round_trip` before the fix (no `hans`) is false. -/
theorem manifestGet_round_trip_F31_counterexample :
    ¬ (∀ (H : Bytes → Bytes) (resolve : Bytes → Option Bytes) (o : SrvOpts) (q : SrvReq) (d : Desc) (content : Bytes)
        (known : Bytes), q.r.kind = .manifestGet → o.omitDigest = false → Carriable d →
        ∃ r, serverResp H o q (.reader d content) = .resp r ∧
          clientDecode H resolve (if q.r.tag ≠ [] then .getTag else .getManifest known) [r] =
            .reader { mediaType := orOctet d.mediaType, digest := d.digest, size := d.size } true content) := by
  intro h
  obtain ⟨r, hr, hc⟩ := h id (fun _ => none) {} { r := { kind := .manifestGet, digest := exDigest } } exDesc2 [] exDigest
    rfl rfl ⟨by decide, by decide, by decide⟩
  obtain ⟨r', hr', hc'⟩ := manifestGet_reports_requested id (fun _ => none) {}
    { r := { kind := .manifestGet, digest := exDigest } } exDesc2 [] rfl rfl ⟨by decide, by decide, by decide⟩ exDigest
    (by decide)
  rw [hr] at hr'
  cases hr'
  rw [if_neg (by decide)] at hc
  rw [hc] at hc'
  revert hc'
  decide

/-- **Manifest GET by digest, digest header omitted**: the descriptor's digest is the requested one. -/
theorem manifestGet_omitted_by_digest (H : Bytes → Bytes) (resolve : Bytes → Option Bytes) (o : SrvOpts) (q : SrvReq)
    (d : Desc) (content : Bytes) (hk : q.r.kind = .manifestGet) (ho : o.omitDigest = true)
    (hdg : isDigest q.r.digest = true) (h0 : 0 ≤ d.size) (hmax : d.size ≤ maxI64) :
    ∃ r, serverResp H o q (.reader d content) = .resp r ∧
      clientDecode H resolve (.getManifest q.r.digest) [r] =
        .reader { mediaType := orOctet d.mediaType, digest := q.r.digest, size := d.size } true content := by
  have hn : ¬ d.size < 0 := by omega
  refine ⟨_, by simp only [serverResp, hk, handleManifestGet]; rfl, ?_⟩
  simp [clientDecode, clientRead, gate, descriptorFromResponse, mkResp, hget_cons_ne, ho,
    parseContentLength_itoa h0 hmax, isDigest_ne_nil hdg, hdg, hn, newBlobReader, isDigest_hashable hdg, orOctet]
    -- F32: `hdg` used, statement unchanged

/-- **Tag GET, digest header omitted, manifest up to 128 KiB** (exactly `≤ 131072`): the client hashes the body
itself, so the digest is `H content` — the backend's own digest is not consulted (and is `sha256` whatever the
backend uses). A body whose length is not the declared size is refused. -/
theorem tagGet_omitted_small (H : Bytes → Bytes) (resolve : Bytes → Option Bytes) (o : SrvOpts) (q : SrvReq)
    (d : Desc) (content : Bytes) (hk : q.r.kind = .manifestGet) (ho : o.omitDigest = true)
    (h0 : 0 ≤ d.size) (hsmall : d.size ≤ inMemThreshold) (hH : ∀ x, digestHashable (H x) = true) :
    ∃ r, serverResp H o q (.reader d content) = .resp r ∧
      clientDecode H resolve .getTag [r] =
        if (content.length : Int) = d.size then
          .reader { mediaType := orOctet d.mediaType, digest := H content, size := d.size } true content
        else .err .bodySizeMismatch := by
  have hn : ¬ d.size < 0 := by omega
  have hmax : d.size ≤ maxI64 := by unfold inMemThreshold at hsmall; unfold maxI64; omega
  refine ⟨_, by simp only [serverResp, hk, handleManifestGet]; rfl, ?_⟩
  simp only [clientDecode, clientRead, gate, descriptorFromResponse, mkResp, ho]
  simp only [Bool.not_true, Bool.false_eq_true, if_false, List.nil_append, hget_cons_self, hget_cons_ne, hget_nil,
    hContentType_beq_hContentLength, hContentType_beq_hDigest, hContentLength_beq_hDigest,
    parseContentLength_itoa h0 hmax]
  by_cases hl : (content.length : Int) = d.size
  · have ht : content.take (d.size + 1).toNat = content := List.take_of_length_le (by omega)
    simp [hn, hsmall, ht, hl, newBlobReader, hH, orOctet]
  · have hl' : ¬ ((min (d.size + 1).toNat content.length : Nat) : Int) = d.size := by omega
    simp [hn, hsmall, hl, hl']

/-- **Tag GET, digest header omitted, manifest above 128 KiB**: the client asks again with HEAD and takes the whole
descriptor from that answer; the bytes are those of the GET. -/
theorem tagGet_omitted_large (H : Bytes → Bytes) (resolve : Bytes → Option Bytes) (o : SrvOpts) (q : SrvReq)
    (d d2 : Desc) (content : Bytes) (hk : q.r.kind = .manifestGet) (ht : q.r.tag ≠ []) (ho : o.omitDigest = true)
    (hlarge : inMemThreshold < d.size) (hmax : d.size ≤ maxI64) (hc2 : Carriable d2) :
    ∃ r1 r2, serverResp H o q (.reader d content) = .resp r1 ∧
      serverResp H o { q with r := { q.r with kind := .manifestHead } } (.desc d2) = .resp r2 ∧
      clientDecode H resolve .getTag [r1, r2] =
        .reader { mediaType := orOctet d2.mediaType, digest := d2.digest, size := d2.size } true content := by
  obtain ⟨h20, h2max, h2d⟩ := hc2
  have h0 : 0 ≤ d.size := by unfold inMemThreshold at hlarge; omega
  have hn : ¬ d.size < 0 := by omega
  have hn2 : ¬ d2.size < 0 := by omega
  have hbig : ¬ d.size ≤ inMemThreshold := by omega
  refine ⟨_, _, by simp only [serverResp, hk, handleManifestGet]; rfl,
    by simp only [serverResp, handleManifestHead]; rfl, ?_⟩
  simp [clientDecode, clientRead, gate, descriptorFromResponse, mkResp, hget_cons_ne, ho, ht,
    parseContentLength_itoa h0 hmax, parseContentLength_itoa h20 h2max, hn, hn2, hbig,
    h2d, isDigest_ne_nil h2d, newBlobReader, isDigest_hashable h2d, orOctet]

/-- **Manifest PUT** (`PushManifest`). Nothing of the answer but its status is read: the descriptor returned is the
one the client computed from what it sent (`sha256` of the bytes, their length, the media type it was given); the
backend's descriptor — media type, digest algorithm, annotations — does not come back. -/
theorem manifestPut_round_trip (H : Bytes → Bytes) (resolve : Bytes → Option Bytes) (o : SrvOpts) (q : SrvReq)
    (d own : Desc) (hk : q.r.kind = .manifestPut) (hdig : q.r.tag ≠ [] ∨ q.r.digest = H q.body)
    (hmt : own.mediaType ≠ []) :   -- the hypothesis `q.subject ≠ none` of old is not needed since fix F25 (auditor A2)
    ∃ r, serverResp H o q (.desc d) = .resp r ∧ r.status = 201 ∧
      hget r.hdr hLocation = sV2Slash ++ q.r.repo ++ strBytes "/manifests/" ++ d.digest ∧
      hget r.hdr hDigest = d.digest ∧
      clientDecode H resolve (.pushManifest own) [r] = .desc own := by
  have h1 : ¬ (q.r.tag = [] ∧ q.r.digest ≠ H q.body) := by
    rintro ⟨a, b⟩; rcases hdig with h | h
    · exact h a
    · exact b h
  have hs : ∃ extra : Header, serverResp H o q (.desc d) =
      .resp (mkResp 201 (locationHeaders (sV2Slash ++ q.r.repo ++ strBytes "/manifests/" ++ d.digest) d ++ extra)) := by
    simp only [serverResp, hk, handleManifestPut, if_neg h1]
    by_cases hct : q.contentType = mtImageManifest ∨ q.contentType = mtImageIndex
    · rw [if_pos hct]
      cases hq : q.subject with
      | none => exact ⟨_, rfl⟩
      | some sj => cases sj <;> exact ⟨_, rfl⟩
    · rw [if_neg hct]
      exact ⟨_, rfl⟩
  obtain ⟨extra, hs⟩ := hs
  refine ⟨_, hs, rfl, ?_, ?_, ?_⟩
  · simp [mkResp, locationHeaders]
  · simp [mkResp, locationHeaders, hget_cons_ne]
  · simp [clientDecode, hmt, clientPushManifest, gate, mkResp]

/-- **Deletes** (`DeleteBlob`, `DeleteManifest`, `DeleteTag`): 202, nothing to carry. -/
theorem delete_round_trip (H : Bytes → Bytes) (resolve : Bytes → Option Bytes) (o : SrvOpts) (q : SrvReq)
    (hk : q.r.kind = .blobDelete ∨ q.r.kind = .manifestDelete) :
    ∃ r, serverResp H o q .unit = .resp r ∧ clientDecode H resolve .delete [r] = .unit := by
  refine ⟨mkResp 202 [], ?_, by simp [clientDecode, clientDelete, gate, mkResp]⟩
  rcases hk with hk | hk <;> simp only [serverResp, hk, handleDelete]

/-- **Mount** (`MountBlob`). Only the digest arrives: the descriptor has size 0 and the default media type, whatever
the backend answered. -/
-- F31: new hypothesis `hans` (the backend's answer carries the digest asked for); without it the old statement is
-- false (`mount_round_trip_F31_counterexample`); unconditionally: `mount_reports_requested`.
theorem mount_round_trip (H : Bytes → Bytes) (resolve : Bytes → Option Bytes) (o : SrvOpts) (q : SrvReq)
    (d : Desc) (known : Bytes) (hk : q.r.kind = .blobMount) (hd : isDigest d.digest = true)
    (hans : known ≠ [] → d.digest = known) :
    ∃ r, serverResp H o q (.desc d) = .resp r ∧
      hget r.hdr hLocation = sV2Slash ++ q.r.repo ++ strBytes "/blobs/" ++ q.r.digest ∧
      clientDecode H resolve (.mountBlob known) [r] =
        .desc { mediaType := octetStream, digest := d.digest, size := 0 } := by
  refine ⟨_, by simp only [serverResp, hk, handleBlobMount]; rfl, by simp [mkResp, locationHeaders], ?_⟩
  by_cases hkn : known = []
  · simp [clientDecode, clientMount, gate, descriptorFromResponse, mkResp, locationHeaders, hget_cons_ne, hd,
      isDigest_ne_nil hd, hkn]
  · have he := hans hkn
    have hdk : isDigest known = true := he ▸ hd
    simp [clientDecode, clientMount, gate, descriptorFromResponse, mkResp, locationHeaders, hget_cons_ne, hdk,
      hkn, he]

-- F31: the new hypothesis is satisfiable
example : exDigest ≠ [] → exDesc.digest = exDigest := fun _ => rfl

/-- **F31, the new guarantee for `MountBlob`**: whatever digest the backend's answer carries, the caller gets the
digest it ASKED to be mounted. -/
-- F32: hypothesis `hkn : known ≠ []` became `hdk : isDigest known = true` (the digest asked to be mounted is well
-- formed, as request construction of `MountBlob` guarantees); an ill-formed one is now refused
-- (`mount_refuses_ill_formed_digest`).
theorem mount_reports_requested (H : Bytes → Bytes) (resolve : Bytes → Option Bytes) (o : SrvOpts) (q : SrvReq)
    (d : Desc) (known : Bytes) (hk : q.r.kind = .blobMount) (hd : isDigest d.digest = true)
    (hdk : isDigest known = true) :
    ∃ r, serverResp H o q (.desc d) = .resp r ∧
      clientDecode H resolve (.mountBlob known) [r] =
        .desc { mediaType := octetStream, digest := known, size := 0 } := by
  have hkn : known ≠ [] := isDigest_ne_nil hdk
  refine ⟨_, by simp only [serverResp, hk, handleBlobMount]; rfl, ?_⟩
  simp [clientDecode, clientMount, gate, descriptorFromResponse, mkResp, locationHeaders, hget_cons_ne, hd,
    isDigest_ne_nil hd, hkn, hdk]

-- F32: the hypothesis is satisfiable
example : isDigest exDigest = true := by decide

/-- F32: the complement of `mount_reports_requested`: a digest argument that is named but ill formed is refused. -/
theorem mount_refuses_ill_formed_digest (H : Bytes → Bytes) (resolve : Bytes → Option Bytes) (o : SrvOpts)
    (q : SrvReq) (d : Desc) (known : Bytes) (hk : q.r.kind = .blobMount) (hd : isDigest d.digest = true)
    (hkn : known ≠ []) (hbad : isDigest known = false) :
    ∃ r, serverResp H o q (.desc d) = .resp r ∧
      clientDecode H resolve (.mountBlob known) [r] = .err (.desc .badDigest) := by
  refine ⟨_, by simp only [serverResp, hk, handleBlobMount]; rfl, ?_⟩
  simp [clientDecode, clientMount, gate, descriptorFromResponse, mkResp, locationHeaders, hget_cons_ne, hd,
    isDigest_ne_nil hd, hkn, hbad]

/-- F31: the statement of `mount_round_trip` before the fix (no `hans`) is false. -/
theorem mount_round_trip_F31_counterexample :
    ¬ (∀ (H : Bytes → Bytes) (resolve : Bytes → Option Bytes) (o : SrvOpts) (q : SrvReq) (d : Desc) (known : Bytes),
        q.r.kind = .blobMount → isDigest d.digest = true →
        ∃ r, serverResp H o q (.desc d) = .resp r ∧
          hget r.hdr hLocation = sV2Slash ++ q.r.repo ++ strBytes "/blobs/" ++ q.r.digest ∧
          clientDecode H resolve (.mountBlob known) [r] =
            .desc { mediaType := octetStream, digest := d.digest, size := 0 }) := by
  intro h
  obtain ⟨r, hr, _, hc⟩ := h id (fun _ => none) {} { r := { kind := .blobMount } } exDesc2 exDigest rfl (by decide)
  obtain ⟨r', hr', hc'⟩ := mount_reports_requested id (fun _ => none) {} { r := { kind := .blobMount } } exDesc2 exDigest
    rfl (by decide) (by decide)
  rw [hr] at hr'
  cases hr'
  rw [hc] at hc'
  revert hc'
  decide

/-- own chunk size after defaulting (writer.go:161-163) -/
def ownChunk (c : Int) : Int := if c ≤ 0 then defaultChunkSize else c

/-- **Start of an upload** (`PushBlobChunked`). The writer's location is the server's `Location` resolved against the
request URL (and leads back to the backend's upload ID: `location_round_trip`); its chunk size is the larger of the
caller's and the backend's; an unresolvable location is refused. -/
theorem startUpload_round_trip (H : Bytes → Bytes) (resolve : Bytes → Option Bytes) (o : SrvOpts) (q : SrvReq)
    {id : Bytes} (size chunk own : Int) (hk : q.r.kind = .blobStartUpload)
    (hR : isRepo q.r.repo = true) (hid : id ≠ []) (hu : B64Url.validUTF8 id = true)
    (hc0 : 0 ≤ chunk) (hcmax : chunk ≤ maxI64) :
    ∃ r loc, locationForUploadID q.r.repo id = some loc ∧
      serverResp H o q (.writer id size chunk) = .resp r ∧
      clientDecode H resolve (.pushBlobChunked own) [r] =
        match resolve loc with
        | some u => .writer u (if chunk > ownChunk own then chunk else ownChunk own) 0
        | none => .err .badLocation := by
  have hloc := locationForUploadID_valid hR hid hu
  have hne : sV2Slash ++ q.r.repo ++ sUploadsSlash ++ B64Url.encode id ≠ [] := by simp [sV2Slash_eq]
  refine ⟨_, _, hloc, by simp only [serverResp, hk, handleBlobStartUpload, hloc]; rfl, ?_⟩
  simp only [clientDecode, clientPushBlobChunked, gate, mkResp, locationFromResponse]
  simp only [hget_cons_self, hne, if_false]
  cases resolve (sV2Slash ++ q.r.repo ++ sUploadsSlash ++ B64Url.encode id) with
  | none => simp
  | some u =>
    simp [chunkSizeFromResponse, hget_cons_ne, atoi_itoa chunk hc0 hcmax, ownChunk]

/-- **Upload info** (resuming with offset `-1`). The offset is the number of bytes the backend's writer holds —
except for exactly one byte, which reads as none (`upload_range_round_trip`); the chunk size is the caller's (the
handler sends no `OCI-Chunk-Min-Length` here). -/
theorem uploadInfo_round_trip (H : Bytes → Bytes) (resolve : Bytes → Option Bytes) (o : SrvOpts) (q : SrvReq)
    {id : Bytes} (size chunk own : Int) (hk : q.r.kind = .blobUploadInfo)
    (hR : isRepo q.r.repo = true) (hid : id ≠ []) (hu : B64Url.validUTF8 id = true)
    (hs0 : 0 ≤ size) (hsmax : size ≤ maxI64) :
    ∃ r loc, locationForUploadID q.r.repo id = some loc ∧
      serverResp H o q (.writer id size chunk) = .resp r ∧
      clientDecode H resolve (.resumeAsk own) [r] =
        match resolve loc with
        | some u => .writer u (ownChunk own) (if size = 1 then 0 else size)
        | none => .err (.wrapped .badLocation) := by
  have hloc := locationForUploadID_valid hR hid hu
  have hne : sV2Slash ++ q.r.repo ++ sUploadsSlash ++ B64Url.encode id ≠ [] := by simp [sV2Slash_eq]
  refine ⟨_, _, hloc, by simp only [serverResp, hk, handleBlobUploadInfo, hloc]; rfl, ?_⟩
  simp only [clientDecode, clientResumeAsk, gate, mkResp, locationFromResponse]
  simp only [hget_cons_self, hne, if_false]
  cases resolve (sV2Slash ++ q.r.repo ++ sUploadsSlash ++ B64Url.encode id) with
  | none => simp
  | some u =>
    simp [chunkSizeFromResponse, hget_cons_ne, parseRangeB_rangeStringB hs0 hsmax, ownChunk,
      show atoi [] = none from by decide]

/-- **Upload chunk** (PATCH from `flush`): the writer's next location is the server's, resolved. -/
theorem uploadChunk_round_trip (H : Bytes → Bytes) (resolve : Bytes → Option Bytes) (o : SrvOpts) (q : SrvReq)
    {id : Bytes} (size chunk : Int) (hk : q.r.kind = .blobUploadChunk)
    (hR : isRepo q.r.repo = true) (hid : id ≠ []) (hu : B64Url.validUTF8 id = true) :
    ∃ r loc, locationForUploadID q.r.repo id = some loc ∧
      serverResp H o q (.writer id size chunk) = .resp r ∧
      hget r.hdr hRange = rangeStringB 0 size ∧
      clientDecode H resolve .flushPatch [r] =
        match resolve loc with
        | some u => .writer u 0 0
        | none => .err (.wrapped .badLocation) := by
  have hloc := locationForUploadID_valid hR hid hu
  have hne : sV2Slash ++ q.r.repo ++ sUploadsSlash ++ B64Url.encode id ≠ [] := by simp [sV2Slash_eq]
  refine ⟨_, _, hloc, by simp only [serverResp, hk, handleBlobUploadChunk, hloc]; rfl, by simp [mkResp, hget_cons_ne], ?_⟩
  simp only [clientDecode, clientFlush, gate, mkResp, locationFromResponse]
  simp only [hget_cons_self, hne, if_false]
  cases resolve (sV2Slash ++ q.r.repo ++ sUploadsSlash ++ B64Url.encode id) <;> simp

/-- **Completing an upload** (`Commit`). The descriptor is the client's own account — the digest it committed, the
bytes it counted, the default media type — the backend's is not read; but the answer's `Location` must resolve. -/
theorem completeUpload_round_trip (H : Bytes → Bytes) (resolve : Bytes → Option Bytes) (o : SrvOpts) (q : SrvReq)
    (id : Bytes) (d : Desc) (size : Int) (dg : Bytes) (hk : q.r.kind = .blobCompleteUpload) :
    ∃ r, serverResp H o q (.commit id d) = .resp r ∧
      hget r.hdr hDigest = d.digest ∧
      clientDecode H resolve (.commit size dg) [r] =
        match resolve (sV2Slash ++ q.r.repo ++ strBytes "/blobs/" ++ d.digest) with
        | some _ => .desc { mediaType := octetStream, digest := dg, size := size }
        | none => .err (.wrapped .badLocation) := by
  have hne : sV2Slash ++ q.r.repo ++ strBytes "/blobs/" ++ d.digest ≠ [] := by simp [sV2Slash_eq]
  refine ⟨_, by simp only [serverResp, hk, handleBlobCompleteUpload]; rfl, by simp [mkResp, locationHeaders, hget_cons_ne], ?_⟩
  simp only [clientDecode, clientCommit, clientFlush, gate, mkResp, locationFromResponse, locationHeaders]
  simp only [hget_cons_self, hne, if_false]
  cases resolve (sV2Slash ++ q.r.repo ++ strBytes "/blobs/" ++ d.digest) <;> simp

/-- **Monolithic push** (`PushBlob`: POST, then PUT to the location). The descriptor returned is the caller's,
unchanged; the PUT reaches the upload the backend named (`location_round_trip`). -/
theorem pushBlob_round_trip (H : Bytes → Bytes) (resolve : Bytes → Option Bytes) (o : SrvOpts) (q q2 : SrvReq)
    {id : Bytes} (size chunk : Int) (d own : Desc) (hk : q.r.kind = .blobStartUpload) (hk2 : q2.r.kind = .blobCompleteUpload)
    (hR : isRepo q.r.repo = true) (hid : id ≠ []) (hu : B64Url.validUTF8 id = true)
    (hres : (resolve (sV2Slash ++ q.r.repo ++ sUploadsSlash ++ B64Url.encode id)).isSome = true) :
    ∃ r1 r2, serverResp H o q (.writer id size chunk) = .resp r1 ∧ serverResp H o q2 (.commit id d) = .resp r2 ∧
      clientDecode H resolve (.pushBlob own) [r1, r2] = .desc own := by
  have hloc := locationForUploadID_valid hR hid hu
  have hne : sV2Slash ++ q.r.repo ++ sUploadsSlash ++ B64Url.encode id ≠ [] := by simp [sV2Slash_eq]
  refine ⟨_, _, by simp only [serverResp, hk, handleBlobStartUpload, hloc]; rfl,
    by simp only [serverResp, hk2, handleBlobCompleteUpload]; rfl, ?_⟩
  obtain ⟨u, hu'⟩ := Option.isSome_iff_exists.mp hres
  simp only [clientDecode, clientPushBlob, gate, mkResp, locationFromResponse, List.head?]
  simp only [hget_cons_self, hne, if_false, hu']
  simp


/-! ### Lists -/

/-- **One page of a tags listing.** The items the client yields are the first `n` of what the backend's iterator
produced (all of them when `n ≤ 0` … here `n > 0`), for every decoder that inverts the encoder. -/
theorem tagsList_page_round_trip (H : Bytes → Bytes) (o : SrvOpts) (dec : Bytes → Option (List Bytes)) (urlOK : Bytes → Bool)
    (q : SrvReq) (items : List Bytes) (hk : q.r.kind = .tagsList) (hn : 0 < q.r.listN)
    (hpage : ¬ (o.maxListPageSize > 0 ∧ q.r.listN > o.maxListPageSize))
    (hdec : ∀ repo l, dec (encTags repo l) = some l) (h62 : (62 : UInt8) ∉ q.path) :
    ∃ r next, serverResp H o q (.items items) = .resp r ∧
      r.body = encTags q.r.repo (items.take q.r.listN.toNat) ∧
      clientListPage dec urlOK q.r.listN r = .ok (items.take q.r.listN.toNat, next) ∧
      (next = none ↔ items.length < q.r.listN.toNat) := by
  have hs : serverResp H o q (.items items) = .resp (listResp o q (items.take q.r.listN.toNat)
      (decide (q.r.listN.toNat < items.length)) (encTags q.r.repo (items.take q.r.listN.toNat))) := by
    simp only [serverResp, hk, handleTagsList, nextListResults_page o hn hpage]
    rfl
  refine ⟨_, _, hs, rfl, clientListPage_listResp dec urlOK o q _ _ _ _ (hdec _ _) h62, ?_⟩
  rw [List.length_take]
  constructor
  · intro h
    split at h
    · omega
    · exfalso
      rename_i hge
      have hne : items.take q.r.listN.toNat ≠ [] := by
        intro e
        have := congrArg List.length e
        rw [List.length_take, List.length_nil] at this
        omega
      cases hl : (items.take q.r.listN.toNat).getLast? with
      | none => exact hne (List.getLast?_eq_none_iff.mp hl)
      | some l =>
        rw [hl] at h
        simp only at h
        split at h
        · split at h <;> cases h
        · cases h
  · intro h
    rw [if_pos (by omega)]

theorem paging_round_trip_tags (H : Bytes → Bytes) (o : SrvOpts) (dec : Bytes → Option (List Bytes)) {n : Int}
    (hn : 0 < n) (hmax : n ≤ maxI64) (L : List Bytes) (hL : StrictAsc L) (hne : [] ∉ L)
    {R : Bytes} (hR : isRepo R = true) (hdec : ∀ repo l, dec (encTags repo l) = some l)
    (hpage : ¬ (o.maxListPageSize > 0 ∧ n > o.maxListPageSize)) (start : Bytes) :
    rtList H o dec n L (L.length + 1)
        { r := { kind := .tagsList, repo := R, listN := n, listLast := start },
          path := (construct B64Url.encode { kind := .tagsList, repo := R, listN := n, listLast := start }).2.1,
          query := (construct B64Url.encode { kind := .tagsList, repo := R, listN := n, listLast := start }).2.2 }
      = (after L (startOpt start), none) := by
  have hLp := (strictAsc_iff_pairwise L).mp hL
  refine rtList_generic H o dec hn L hLp hne .tagsList R (tagsPath R) (encTags R) (hdec R) hpage
    (tagsPath_no hR (by decide)) (tagsPath_no hR (by decide)) ?_ ?_ _ _ rfl rfl rfl rfl ?_ ?_
  · intro q hk hq items
    simp only [serverResp, hk, handleTagsList, hq]
    cases nextListResults o q.r.listN items with
    | error e => rfl
    | ok pt => rfl
  · intro qs last hq
    exact classifyTarget_tagsLink hR (by omega) hmax hq last
  · exact queryOK_listQuery { kind := .tagsList, repo := R, listN := n, listLast := start } (by show 0 ≤ n; omega)
  · exact Nat.lt_succ_of_le (after_sublist L _).length_le

theorem paging_round_trip_catalog (H : Bytes → Bytes) (o : SrvOpts) (dec : Bytes → Option (List Bytes)) {n : Int}
    (hn : 0 < n) (hmax : n ≤ maxI64) (L : List Bytes) (hL : StrictAsc L) (hne : [] ∉ L)
    (hdec : ∀ l, dec (encCatalog l) = some l)
    (hpage : ¬ (o.maxListPageSize > 0 ∧ n > o.maxListPageSize)) (start : Bytes) :
    rtList H o dec n L (L.length + 1)
        { r := { kind := .catalogList, listN := n, listLast := start },
          path := (construct B64Url.encode { kind := .catalogList, listN := n, listLast := start }).2.1,
          query := (construct B64Url.encode { kind := .catalogList, listN := n, listLast := start }).2.2 }
      = (after L (startOpt start), none) := by
  have hLp := (strictAsc_iff_pairwise L).mp hL
  refine rtList_generic H o dec hn L hLp hne .catalogList [] catalogPath encCatalog hdec hpage
    (catalogPath_no (by decide)) (catalogPath_no (by decide)) ?_ ?_ _ _ rfl rfl rfl rfl ?_ ?_
  · intro q hk hq items
    simp only [serverResp, hk, handleCatalogList]
    cases nextListResults o q.r.listN items with
    | error e => rfl
    | ok pt => rfl
  · intro qs last hq
    exact classifyTarget_catalogLink (by omega) hmax hq last
  · exact queryOK_listQuery { kind := .catalogList, listN := n, listLast := start } (by show 0 ≤ n; omega)
  · exact Nat.lt_succ_of_le (after_sublist L _).length_le


/-- The two paging theorems with the concrete decoder (no hypothesis left about JSON). -/
theorem paging_round_trip_tags_concrete (H : Bytes → Bytes) (o : SrvOpts) {n : Int}
    (hn : 0 < n) (hmax : n ≤ maxI64) (L : List Bytes) (hL : StrictAsc L) (hne : [] ∉ L)
    {R : Bytes} (hR : isRepo R = true) (hpage : ¬ (o.maxListPageSize > 0 ∧ n > o.maxListPageSize)) (start : Bytes) :
    rtList H o decTagsImage n L (L.length + 1)
        { r := { kind := .tagsList, repo := R, listN := n, listLast := start },
          path := (construct B64Url.encode { kind := .tagsList, repo := R, listN := n, listLast := start }).2.1,
          query := (construct B64Url.encode { kind := .tagsList, repo := R, listN := n, listLast := start }).2.2 }
      = (after L (startOpt start), none) :=
  paging_round_trip_tags H o decTagsImage hn hmax L hL hne hR json_tags_round_trip hpage start

theorem paging_round_trip_catalog_concrete (H : Bytes → Bytes) (o : SrvOpts) {n : Int}
    (hn : 0 < n) (hmax : n ≤ maxI64) (L : List Bytes) (hL : StrictAsc L) (hne : [] ∉ L)
    (hpage : ¬ (o.maxListPageSize > 0 ∧ n > o.maxListPageSize)) (start : Bytes) :
    rtList H o decCatalogImage n L (L.length + 1)
        { r := { kind := .catalogList, listN := n, listLast := start },
          path := (construct B64Url.encode { kind := .catalogList, listN := n, listLast := start }).2.1,
          query := (construct B64Url.encode { kind := .catalogList, listN := n, listLast := start }).2.2 }
      = (after L (startOpt start), none) :=
  paging_round_trip_catalog H o decCatalogImage hn hmax L hL hne json_catalog_round_trip hpage start

def exCatalogReq (n : Int) (start : Bytes) : SrvReq :=
  { r := { kind := .catalogList, listN := n, listLast := start },
    path := (construct B64Url.encode { kind := .catalogList, listN := n, listLast := start }).2.1,
    query := (construct B64Url.encode { kind := .catalogList, listN := n, listLast := start }).2.2 }

-- the hypotheses are satisfiable: names with `/`, page size 2, Links on; and with Links switched off
example : StrictAsc [[97], [97, 47, 98], [98]] ∧ ([] : Bytes) ∉ [[97], [97, 47, 98], [98]] := by decide
example : rtList id {} decCatalogImage 2 [[97], [97, 47, 98], [98]] 4 (exCatalogReq 2 []) =
    ([[97], [97, 47, 98], [98]], none) := by decide
example : rtList id { omitLink := true } decCatalogImage 1 [[97], [97, 47, 98], [98]] 4 (exCatalogReq 1 [97]) =
    ([[97, 47, 98], [98]], none) := by decide

/-- The hypothesis `[] ∉ L` is needed: `last=` (empty) means "from the beginning", so after a page that ends with
the empty name the same page is asked for again, for ever (here: until the fuel of the model runs out). -/
theorem paging_needs_nonempty_items :
    rtList id {} decCatalogImage 1 [[], [97]] 3 (exCatalogReq 1 []) = ([[], [], []], some .transport) := by
  decide

/-- **Referrers.** The index the handler marshals is what the client's decoder is handed: for every decoder that
inverts the encoder, the client yields the backend's descriptors. -/
theorem referrers_round_trip (H : Bytes → Bytes) (o : SrvOpts) (decIndex : Bytes → Option (List Desc)) (q : SrvReq)
    (ds : List Desc) (hk : q.r.kind = .referrersList) (ho : o.disableReferrers = false)
    (hdec : ∀ l, decIndex (encIndex l) = some l) :
    ∃ r, serverResp H o q (.descs ds) = .resp r ∧ hget r.hdr hContentType = mtImageIndex ∧
      clientReferrers decIndex r = .ok ds := by
  refine ⟨_, by simp only [serverResp, hk, handleReferrersList, ho]; rfl, by simp [mkResp, hget_cons_ne], ?_⟩
  simp [clientReferrers, gate, mkResp, hdec]

/-- **The link between this model and the abstract pager of C05/C18**: the answer of the tags handler, seen through
`listAnswer`, is the `Answer.page` the abstract server gives (`Pager.serverPage`), with a well-formed Link exactly
when the page was cut short and Links are not switched off. -/
theorem tagsList_refines_serverPage (H : Bytes → Bytes) (o : SrvOpts) (dec : Bytes → Option (List Bytes))
    (q : SrvReq) (L : List Bytes) (last : Option Bytes) (hk : q.r.kind = .tagsList) (hn : 0 < q.r.listN)
    (hpage : ¬ (o.maxListPageSize > 0 ∧ q.r.listN > o.maxListPageSize))
    (hdec : ∀ repo l, dec (encTags repo l) = some l) (h62 : (62 : UInt8) ∉ q.path) :
    ∃ r, serverResp H o q (.items (after L last)) = .resp r ∧
      listAnswer dec (fun _ => true) r =
        .page (serverPage L q.r.listN.toNat last).1
          (if (serverPage L q.r.listN.toNat last).2 && !o.omitLink && (serverPage L q.r.listN.toNat last).1 != []
           then some true else none) := by
  have hs : serverResp H o q (.items (after L last)) = .resp (listResp o q ((after L last).take q.r.listN.toNat)
      (decide (q.r.listN.toNat < (after L last).length)) (encTags q.r.repo ((after L last).take q.r.listN.toNat))) := by
    simp only [serverResp, hk, handleTagsList, nextListResults_page o hn hpage]
    rfl
  refine ⟨_, hs, ?_⟩
  obtain ⟨hst, hbody, hlink⟩ := listResp_facts o q ((after L last).take q.r.listN.toNat)
    (decide (q.r.listN.toNat < (after L last).length)) (encTags q.r.repo ((after L last).take q.r.listN.toNat))
  generalize listResp o q ((after L last).take q.r.listN.toNat)
    (decide (q.r.listN.toNat < (after L last).length)) (encTags q.r.repo ((after L last).take q.r.listN.toNat)) = r
    at hst hbody hlink
  unfold listAnswer
  rw [hst, show gate [] 200 = none from by decide]
  simp only [hbody, hdec, serverPage]
  congr 1
  by_cases htl : (decide (q.r.listN.toNat < (after L last).length) && !o.omitLink) = true
  · rw [htl] at hlink
    cases hl : ((after L last).take q.r.listN.toNat).getLast? with
    | none =>
      rw [hl] at hlink
      have : (after L last).take q.r.listN.toNat = [] := List.getLast?_eq_none_iff.mp hl
      rw [nextLink_none _ _ _ (by rw [hlink])]
      simp [this]
    | some l =>
      rw [hl] at hlink
      have hne : (after L last).take q.r.listN.toNat ≠ [] := by
        intro e; rw [e] at hl; cases hl
      rw [nextLink_link (fun _ => true) _ [] _ (linkTarget_no62 q l h62) (by rw [hlink]; exact makeNextLink_eq q l)]
      simp [htl, hne]
  · have htl' : (decide (q.r.listN.toNat < (after L last).length) && !o.omitLink) = false := by
      simpa using htl
    rw [htl'] at hlink
    rw [nextLink_none _ _ _ (by rw [hlink])]
    simp [htl']

/-! ## Part 2b — F31: a call BY DIGEST reports the digest that was asked for -/

/-- **The client reports the requested digest** (fix F31, client.go `descriptorFromResponse`). For every call that
names a digest — `GetBlob`, `GetBlobRange`, `GetManifest`, `ResolveBlob`, `ResolveManifest`, `MountBlob` — and EVERY
list of answers (any status, any `Docker-Content-Digest` header or none, any body): if the call succeeds, the
descriptor the caller holds (of the result, or of the reader) has exactly the digest that was asked for. For a
verified reader that is therefore the digest the bytes are checked against (`read_dishonest`): an answer whose
header matches other content can no longer be believed. -/
theorem client_reports_requested_digest (H : Bytes → Bytes) (resolve : Bytes → Option Bytes) (c : Call) (dg : Bytes)
    (hc : c.requested = some dg) (hne : dg ≠ []) (rs : List Resp) (d : Desc)
    (h : clientDecode H resolve c rs = .desc d ∨ ∃ v b, clientDecode H resolve c rs = .reader d v b) :
    d.digest = dg := by
  apply clientDecode_requested H resolve c hc hne rs
  rcases h with h | ⟨v, b, h⟩ <;> rw [h] <;> rfl

-- not vacuous: an answer whose header names ANOTHER (valid) digest is accepted, and reported under the digest asked for
example : clientDecode id (fun _ => none) (.resolveBlob exDigest)
    [mkResp 200 [(hContentLength, itoa 5), (hDigest, exDigest2)]] =
      .desc { mediaType := octetStream, digest := exDigest, size := 5 } := by decide
example : (Call.getBlob exDigest).requested = some exDigest ∧ exDigest ≠ [] := ⟨rfl, by decide⟩

/-- … and the reader of such an answer does not end cleanly unless the bytes hash to the digest ASKED FOR: the
defect F31 (bytes that match the header but not the request were delivered with a clean end) is excluded. -/
theorem read_by_digest_checks_requested (H : Bytes → Bytes) (resolve : Bytes → Option Bytes) (dg : Bytes) (hne : dg ≠ [])
    (rs : List Resp) (d : Desc) (body content : Bytes) (h0 : 0 ≤ d.size)
    (h : clientDecode H resolve (.getBlob dg) rs = .reader d true body) (hbad : H content ≠ dg) :
    (readAll H d true [content]).clean = false := by
  have hd : d.digest = dg := client_reports_requested_digest H resolve _ dg rfl hne rs d (Or.inr ⟨_, _, h⟩)
  exact read_dishonest H d content h0 (Or.inr (by rw [hd]; exact hbad))

/-- A tag read is the other case: nothing was asked for, so the (validated) header is what is reported. -/
theorem tag_read_reports_header (r : Resp) (rs rd : Bool) (d : Desc) (h : descriptorFromResponse r [] rs rd = .ok d) :
    d.digest = hget r.hdr hDigest := by
  rw [(descriptorFromResponse_ok h).2.1, if_neg (by simp)]

/-! ## Part 3 — totality: no answer makes the client panic; the server panics only on an upload ID the request
codec cannot carry -/

/-- **clientDecode is total.** Lean functions are total by construction; the content of this theorem is that the
explicit `panic` outcome (`Digest.Algorithm().Hash()` in `newBlobReader`, client.go:189) is unreachable: for every
call whose digests were validated when the request was built, every list of answers — any statuses, headers,
lengths, bodies — yields a result or an error. `hH`: the client's own hashing yields a `sha256:` digest. -/
theorem clientDecode_never_panics (H : Bytes → Bytes) (hH : ∀ x, digestHashable (H x) = true)
    (resolve : Bytes → Option Bytes) (c : Call) (hc : c.digestsValid) (rs : List Resp) :
    clientDecode H resolve c rs ≠ .panic :=
  clientDecode_ne_panic H hH resolve c hc rs

example : ∀ x, digestHashable (sha256 ++ cColon :: x) = true := by
  intro x; simp [digestHashable, cutByte, sha256, cColon]
example : (Call.getBlob exDigest).digestsValid := by show isDigest exDigest = true; decide

/-- **F32: nor does the form of the caller's digest argument matter.** Until fix F32 the theorem above needed
`digestsValid` for a reason: `GetManifest(repo, "latest")` — a tag-shaped string where a digest is meant, which
request construction lets through — panicked in `newBlobReader` (go-digest: no ':' separator) when the answer carried
no digest header; the model showed it at the excluded point (`GetBlob` with "nocolon" evaluated to `.panic`). The
digest the caller names is now checked before it is used, so every list of answers yields a result or an error for
every call that names a digest at all. -/
theorem clientDecode_never_panics_whatever_the_digest (H : Bytes → Bytes) (hH : ∀ x, digestHashable (H x) = true)
    (resolve : Bytes → Option Bytes) (c : Call) (hc : c.digestsNamed) (rs : List Resp) :
    clientDecode H resolve c rs ≠ .panic :=
  clientDecode_ne_panic_named H hH resolve c hc rs

example : (Call.getManifest (strBytes "latest")).digestsNamed := by show strBytes "latest" ≠ []; decide

/-- The excluded point of old, now an error: an ill-formed digest argument is refused, not hashed. -/
theorem clientDecode_refuses_ill_formed_digest :
    clientDecode (fun _ => exDigest) (fun _ => none) (.getBlob (strBytes "nocolon"))
      [{ status := 200, contentLength := 0 }] = .err (.desc .badDigest) := by decide

/-- **The server panics only in `locationForUploadID`**: on an answer of the backend whose upload ID is empty or
not UTF-8 (`MustConstruct`). For valid repositories and IDs it never does (Part 2). -/
theorem serverResp_panics_only_on_bad_upload_id (H : Bytes → Bytes) (o : SrvOpts) (q : SrvReq) (b : BRes)
    (h : serverResp H o q b = .panic) :
    ∃ id size chunk, b = .writer id size chunk ∧ locationForUploadID q.r.repo id = none :=
  serverResp_panic h

/-! ## Part 4 — an answer without a header the call cannot do without is refused, never defaulted -/

/-- **The status gate.** An answer is handed on only if its status is among the expected ones (200 when none are
named); anything else is an error — an `HTTPError` outside 2xx, "unexpected status" inside. -/
theorem unexpected_status_refused (ok : List Nat) (st : Nat) :
    gate ok st = none ↔ st ≠ 0 ∧ ((ok = [] ∧ st = 200) ∨ st ∈ ok) := by
  unfold gate
  by_cases h0 : st = 0
  · simp [h0]
  · by_cases h1 : (ok = [] ∧ st = 200) ∨ st ∈ ok
    · simp [h0, h1]
    · rw [if_neg h0, if_neg h1]
      constructor
      · intro h; split at h <;> cases h
      · intro h; exact absurd h.2 h1

/-- A 206 answer without `Content-Range` is refused: the blob's size is not guessed from `Content-Length`. -/
theorem partial_without_content_range_refused (r : Resp) (known : Bytes) (rd : Bool)
    (hst : r.status = 206) (h : hget r.hdr hContentRange = []) :
    descriptorFromResponse r known true rd = .error .noContentRange := by
  unfold descriptorFromResponse
  simp [hst, h]

/-- … so is one whose `Content-Range` has no `/`, or no number after it. -/
theorem partial_malformed_content_range_refused (r : Resp) (known : Bytes) (rd : Bool)
    (hst : r.status = 206) (hne : hget r.hdr hContentRange ≠ [])
    (h : cutLastSlash (hget r.hdr hContentRange) = none ∨
      ∃ a b, cutLastSlash (hget r.hdr hContentRange) = some (a, b) ∧ atoi b = none) :
    descriptorFromResponse r known true rd = .error .malformedContentRange := by
  unfold descriptorFromResponse
  rcases h with h | ⟨a, b, h, hb⟩
  · simp [hst, hne, h]
  · simp [hst, hne, h, hb]

/-- An answer of unknown length (no `Content-Length`) is refused wherever the size is part of the result. -/
theorem unknown_length_refused (r : Resp) (known : Bytes) (rd : Bool) (hst : r.status ≠ 206)
    (h : r.contentLength < 0) : descriptorFromResponse r known true rd = .error .unknownLength := by
  unfold descriptorFromResponse
  simp [hst, h]

/-- A digest header that is not a valid digest is refused — it never replaces the digest the caller asked for. -/
theorem bad_digest_refused (r : Resp) (known : Bytes) (rs rd : Bool)
    (hne : hget r.hdr hDigest ≠ []) (h : isDigest (hget r.hdr hDigest) = false) (d : Desc) :
    descriptorFromResponse r known rs rd ≠ .ok d := by
  intro e
  exact (descriptorFromResponse_ok e).1 ⟨hne, h⟩

/-- Without a digest header and without a digest in the request (a tag), a resolve is refused. -/
theorem missing_digest_refused (r : Resp) (rs : Bool) (h : hget r.hdr hDigest = []) (d : Desc) :
    descriptorFromResponse r [] rs true ≠ .ok d := by
  intro e
  obtain ⟨_, h2, h3⟩ := descriptorFromResponse_ok e
  rw [if_neg (by simp), h] at h2
  exact h3 ⟨rfl, h2⟩

/-- Call level: a ranged read answered 206 without `Content-Range`, a resolve of a tag answered without digest, a
read answered without length — each is an error for the caller. -/
theorem getBlobRange_without_content_range (H : Bytes → Bytes) (resolve : Bytes → Option Bytes) (dg : Bytes)
    {o0 o1 : Int} (hne : ¬ (o0 = 0 ∧ o1 < 0)) (r : Resp) (hst : r.status = 206) (h : hget r.hdr hContentRange = []) :
    clientDecode H resolve (.getBlobRange dg o0 o1) [r] = .err (.desc .noContentRange) := by
  simp [clientDecode, hne, clientGetBlobRange, gate, hst, partial_without_content_range_refused r dg false hst h]

theorem resolveTag_without_digest (H : Bytes → Bytes) (resolve : Bytes → Option Bytes) (r : Resp)
    (h : hget r.hdr hDigest = []) : ∃ e, clientDecode H resolve .resolveTag [r] = .err e := by
  simp only [clientDecode, clientResolve]
  split
  · exact ⟨_, rfl⟩
  · split
    · exact ⟨_, rfl⟩
    · rename_i d hd
      exact absurd hd (missing_digest_refused r true h d)

theorem read_without_length (H : Bytes → Bytes) (resolve : Bytes → Option Bytes) (dg : Bytes) (r : Resp)
    (hst : r.status = 200) (h : r.contentLength < 0) :
    clientDecode H resolve (.getBlob dg) [r] = .err (.desc .unknownLength) := by
  simp [clientDecode, clientRead, gate, hst, unknown_length_refused r dg false (by omega) h]

/-- **Location.** Every answer that must name where the upload continues is refused when it does not: the start of
an upload, the answer to a PATCH, the answer to the final PUT, the upload-info answer. -/
theorem upload_without_location_refused (H : Bytes → Bytes) (resolve : Bytes → Option Bytes) (r : Resp)
    (h : hget r.hdr hLocation = []) :
    (∀ cs, ∃ e, clientDecode H resolve (.pushBlobChunked cs) [r] = .err e) ∧
    (∀ cs, ∃ e, clientDecode H resolve (.resumeAsk cs) [r] = .err e) ∧
    (∃ e, clientDecode H resolve .flushPatch [r] = .err e) ∧
    (∀ size dg, ∃ e, clientDecode H resolve (.commit size dg) [r] = .err e) ∧
    (∀ own r2, ∃ e, clientDecode H resolve (.pushBlob own) [r, r2] = .err e) := by
  have hl : locationFromResponse resolve r = .error .noLocation := by
    unfold locationFromResponse; simp [h]
  refine ⟨fun cs => ?_, fun cs => ?_, ?_, fun size dg => ?_, fun own r2 => ?_⟩
  · simp only [clientDecode, clientPushBlobChunked, hl]
    split <;> exact ⟨_, rfl⟩
  · simp only [clientDecode, clientResumeAsk, hl]
    split <;> exact ⟨_, rfl⟩
  · obtain ⟨e, he⟩ := clientFlush_noLocation resolve false r h
    exact ⟨e, by simp only [clientDecode, he]⟩
  · obtain ⟨e, he⟩ := clientFlush_noLocation resolve true r h
    exact ⟨e, by simp only [clientDecode, clientCommit, he]⟩
  · simp only [clientDecode, clientPushBlob, hl]
    split <;> exact ⟨_, rfl⟩

/-- **Range (upload info).** Without a `Range` header — or with one that is not two numbers, or does not start at
0 — the offset is not guessed. -/
theorem resume_without_range_refused (H : Bytes → Bytes) (resolve : Bytes → Option Bytes) (cs : Int) (r : Resp)
    (h : parseRangeB (hget r.hdr hRange) = none ∨ ∃ p0 p1, parseRangeB (hget r.hdr hRange) = some (p0, p1) ∧ p0 ≠ 0) :
    ∃ e, clientDecode H resolve (.resumeAsk cs) [r] = .err e := by
  simp only [clientDecode, clientResumeAsk]
  split
  · exact ⟨_, rfl⟩
  · split
    · exact ⟨_, rfl⟩
    · rcases h with h | ⟨p0, p1, h, hp⟩
      · rw [h]; exact ⟨_, rfl⟩
      · rw [h]; simp only [hp, if_true, ne_eq, not_false_eq_true]; exact ⟨_, rfl⟩

example : parseRangeB [] = none := by decide
example : parseRangeB (strBytes "5-9") = some (5, 10) := by decide


/-! ## Part 5 — the model has the shape of the source (facts regenerated from the Go text on every run)

`Generated/RespFacts.lean` lists, for every server handler, the header names it passes to `resp.Header().Set` and
the statuses it writes, and for every client function the expected statuses it passes to `do`/`doRequest` and the
`require` flags it passes to `descriptorFromResponse`. The obligations below compare that table with the one the
model was written from, and the model with the table. -/

def expectedHandlers : List (String × List String × List Nat × Nat) := [
  ("handleBlobCompleteUpload", [], [201], 1),
  ("handleBlobDelete", [], [202], 0),
  ("handleBlobGet", ["Content-Type", "Content-Length", "Docker-Content-Digest",
                     "Content-Type", "Content-Length", "Docker-Content-Digest", "Content-Range"], [200, 206], 0),
  ("handleBlobHead", ["Content-Length", "Docker-Content-Digest", "Accept-Ranges"], [200], 0),
  ("handleBlobMount", [], [201], 1),
  ("handleBlobStartUpload", ["Location", "Range", "OCI-Chunk-Min-Length"], [202], 0),
  ("handleBlobUploadBlob", [], [201], 1),
  ("handleBlobUploadChunk", ["Location", "Range"], [202], 0),
  ("handleBlobUploadInfo", ["Location", "Range"], [204], 0),
  ("handleCatalogList", ["Link", "Content-Length"], [200], 0),
  ("handleManifestDelete", [], [202], 0),
  ("handleManifestGet", ["Docker-Content-Digest", "Content-Type", "Content-Length"], [200], 0),
  ("handleManifestHead", ["Docker-Content-Digest", "Content-Type", "Content-Length"], [200], 0),
  ("handleManifestPut", ["OCI-Subject"], [201], 1),
  ("handlePing", ["Docker-Distribution-API-Version"], [], 0),
  ("handleReferrersList", ["Content-Length", "Content-Type"], [200], 0),
  ("handleTagsList", ["Link", "Content-Length"], [200], 0),
  ("setLocationHeader", ["Location", "Docker-Content-Digest"], [], 0)]

def expectedClientCalls : List (String × List (List String) × List String) := [
  ("GetBlobRange", [["200", "206"]], ["requireSize"]),
  ("MountBlob", [["201", "202"]], ["requireDigest"]),
  ("PushBlob", [["202"], ["201"]], []),
  ("PushBlobChunked", [["202"]], []),
  ("PushBlobChunkedResume", [["204"]], []),
  ("PushManifest", [["201"]], []),
  ("Referrers", [[]], []),
  ("delete", [["202"]], []),
  ("doRequest", [["okStatuses"]], []),
  ("flush", [["expect"]], []),
  ("pager", [[]], []),
  ("read", [[], []], ["requireSize", "requireSize | requireDigest"]),
  ("resolve", [[]], ["requireSize | requireDigest"])]

/-- **The server's handlers set the headers and write the statuses the model was written from.** -/
theorem server_handler_facts :
    Generated.RespFacts.shapeKnown = true ∧ Generated.RespFacts.serverHandlers = expectedHandlers := by decide

/-- **The client's functions expect the statuses and require the fields the model was written from.** -/
theorem client_call_facts :
    Generated.RespFacts.clientCalls = expectedClientCalls ∧
    Generated.RespFacts.clientAssignedStatuses = [("flush", "expect", [202, 201])] := by decide

/-- **Constants**: the in-memory threshold, the default chunk size, the default page sizes. -/
theorem constant_facts :
    Generated.RespFacts.inMemThreshold = RespCodec.inMemThreshold ∧
    Generated.RespFacts.defaultChunkSize = RespCodec.defaultChunkSize ∧
    Generated.RespFacts.maxPageSize = 10000 ∧
    Generated.RespFacts.defaultListPageSize = 1000 ∧ Pager.effectivePageSize 0 = 1000 := by decide

/-- `textproto.CanonicalMIMEHeaderKey` on the names the source uses -/
def canon (name : String) : Bytes :=
  if name = "OCI-Subject" then hSubject
  else if name = "OCI-Chunk-Min-Length" then hChunkMin
  else if name = "Docker-Distribution-API-Version" then hAPIVersion
  else strBytes name

def headersOf (handler : String) : List Bytes :=
  match expectedHandlers.lookup handler with
  | some (hs, _, _) => hs.map canon
  | none => []

def statusesOf (handler : String) : List Nat :=
  match expectedHandlers.lookup handler with
  | some (_, sts, _) => sts
  | none => []

def keys (o : SOut) : List Bytes := match o with | .resp r => r.hdr.map (·.1) | _ => []
def statusOf (o : SOut) : List Nat := match o with | .resp r => [r.status] | _ => []

/-- **The model's handlers set exactly those headers and statuses**, for every backend answer (the header VALUES
are what Parts 1–2 are about). -/
theorem model_matches_source (H : Bytes → Bytes) (q : SrvReq) (d : Desc) (c : Bytes) (ds : List Desc) :
    keys (handleBlobHead (.desc d)) = headersOf "handleBlobHead" ∧
    statusOf (handleBlobHead (.desc d)) = statusesOf "handleBlobHead" ∧
    keys (handleManifestGet {} (.reader d c)) = headersOf "handleManifestGet" ∧
    statusOf (handleManifestGet {} (.reader d c)) = statusesOf "handleManifestGet" ∧
    keys (handleManifestHead {} q (.desc d)) = headersOf "handleManifestHead" ∧
    statusOf (handleManifestHead {} q (.desc d)) = statusesOf "handleManifestHead" ∧
    keys (handleBlobMount q (.desc d)) = headersOf "setLocationHeader" ∧
    statusOf (handleBlobMount q (.desc d)) = statusesOf "handleBlobMount" ∧
    keys (handleBlobCompleteUpload q (.commit c d)) = headersOf "setLocationHeader" ∧
    statusOf (handleBlobCompleteUpload q (.commit c d)) = statusesOf "handleBlobCompleteUpload" ∧
    keys (handleBlobUploadBlob {} q (.desc d)) = headersOf "setLocationHeader" ∧
    statusOf (handleBlobUploadBlob {} q (.desc d)) = statusesOf "handleBlobUploadBlob" ∧
    statusOf (handleDelete .unit) = statusesOf "handleBlobDelete" ∧
    statusOf (handleDelete .unit) = statusesOf "handleManifestDelete" ∧
    keys (handleReferrersList {} (.descs ds)) = headersOf "handleReferrersList" ∧
    statusOf (handleReferrersList {} (.descs ds)) = statusesOf "handleReferrersList" ∧
    keys (serverResp H {} { q with r := { kind := .ping } } .unit) = headersOf "handlePing" := by
  have T : headersOf "handleBlobHead" = [hContentLength, hDigest, hAcceptRanges] ∧
      headersOf "handleManifestGet" = [hDigest, hContentType, hContentLength] ∧
      headersOf "handleManifestHead" = [hDigest, hContentType, hContentLength] ∧
      headersOf "setLocationHeader" = [hLocation, hDigest] ∧
      headersOf "handleReferrersList" = [hContentLength, hContentType] ∧
      headersOf "handlePing" = [hAPIVersion] ∧
      statusesOf "handleBlobHead" = [200] ∧ statusesOf "handleManifestGet" = [200] ∧
      statusesOf "handleManifestHead" = [200] ∧ statusesOf "handleBlobMount" = [201] ∧
      statusesOf "handleBlobCompleteUpload" = [201] ∧ statusesOf "handleBlobUploadBlob" = [201] ∧
      statusesOf "handleBlobDelete" = [202] ∧ statusesOf "handleManifestDelete" = [202] ∧
      statusesOf "handleReferrersList" = [200] := by decide
  obtain ⟨t1, t2, t3, t4, t5, t6, s1, s2, s3, s4, s5, s6, s7, s8, s9⟩ := T
  rw [t1, t2, t3, t4, t5, t6, s1, s2, s3, s4, s5, s6, s7, s8, s9]
  exact ⟨rfl, rfl, rfl, rfl, rfl, rfl, rfl, rfl, rfl, rfl, rfl, rfl, rfl, rfl, rfl, rfl, rfl⟩

/-- … and the client's functions pass exactly those expected statuses to the gate: each is the model function with
the list from the table. -/
theorem model_client_matches_source (r : Resp) (known : Bytes) (own : Desc) :
    clientDelete r = (match gate [202] r.status with | some e => .err e | none => .unit) ∧
    clientPushManifest own r = (match gate [201] r.status with | some e => .err e | none => .desc own) ∧
    (gate [201, 202] r.status = none → clientMount known r =
      if r.status = 202 then .err .mountUnsupported
      else match descriptorFromResponse r known false true with | .error e => .err (.desc e) | .ok d => .desc d) ∧
    (gate [200, 206] r.status = none → clientGetBlobRange known r =
      match descriptorFromResponse r known true false with | .error e => .err (.desc e) | .ok d => newBlobReader d false r.body) ∧
    (gate [] r.status = none → clientResolve known r =
      match descriptorFromResponse r known true true with | .error e => .err (.desc e) | .ok d => .desc d) := by
  refine ⟨rfl, rfl, ?_, ?_, ?_⟩
  · intro h; simp only [clientMount, h]; rfl
  · intro h; simp only [clientGetBlobRange, h]; rfl
  · intro h; simp only [clientResolve, h]; rfl

end OciModel.Props.C03R
